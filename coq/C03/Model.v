(* C03 — executable model of the evaluator (exec/eval.go, exec/task.go).
   No proofs here: the model must still evaluate when a proof is broken.

   Tasks are natural numbers (indices into the graph).  A node carries what
   Enqueue reads of a Task: Deps (the Head of each TaskDep) and Group.
   Go maps keyed by Task pointers are total functions nat -> _ (absent = zero value),
   Go sets are duplicate-free lists (order is never observed: the drivers sort).
   The task states and the per-task consecutiveLost counter form the [world];
   it is shared by all evaluators and changed by the environment ([LSet]: the
   executor, other invocations, machine loss), by the dispatch loop of Eval
   (LOST->INIT->WAITING) and by the runner's waiter goroutine (LOST->ERR).

   One evaluation = one [evaluator] record.  Its goroutines take the atomic steps
     LStart e   Eval up to its first blocking select
     LWait e t  the waiter goroutine of task t observes state >= TaskOk, does the
                runner's consecutive-loss bookkeeping and sends t on donec
     LMain e    the main loop receives one task from donec, calls Return and runs
                on (dispatching whatever became runnable) until it blocks or returns
   and [exec] runs an arbitrary interleaving of these with environment events.
   [quiesce] is the particular schedule of the lock-step driver. *)
From Coq Require Import List ZArith Bool.
Import ListNotations.
Require Import BS.Gen.C03_params.

(* ------------------------------------------------------------------ task states *)

Inductive tstate := TInit | TWaiting | TRunning | TOk | TErr | TLost.

(* numeric value of the Go constant (regenerated from task.go) *)
Definition code (s : tstate) : Z :=
  match s with
  | TInit => ts_TaskInit | TWaiting => ts_TaskWaiting | TRunning => ts_TaskRunning
  | TOk => ts_TaskOk | TErr => ts_TaskErr | TLost => ts_TaskLost
  end.

Definition st_eqb (a b : tstate) : bool :=
  match a, b with
  | TInit, TInit | TWaiting, TWaiting | TRunning, TRunning | TOk, TOk | TErr, TErr | TLost, TLost => true
  | _, _ => false
  end.

(* `a < b` on TaskState, as used by the waiter loops of Eval *)
Definition st_ltb (a b : tstate) : bool := (code a <? code b)%Z.
(* the waiter leaves its second loop when !(state < TaskOk) *)
Definition ge_ok (s : tstate) : bool := negb (st_ltb s TOk).

(* ---- classification switches.  The tables come from the Go AST (Gen); the
        hand-written functions below are pinned to them in Properties/C03.v. ---- *)
Fixpoint clause_of (cls : list (list Z)) (c : Z) (i : nat) : option nat :=
  match cls with
  | [] => None
  | l :: r => if existsb (Z.eqb c) l then Some i else clause_of r c (S i)
  end.
(* index of the case clause of the (only) switch of state.Enqueue / state.Return /
   Eval that lists state s; None = no clause lists it (default / fall out) *)
Definition gen_enqueue_clause (s : tstate) : option nat := clause_of (nth 0 enqueue_switches []) (code s) 0.
Definition gen_return_clause (s : tstate) : option nat := clause_of (nth 0 return_switches []) (code s) 0.
Definition gen_waiter_clause (s : tstate) : option nat := clause_of (nth 0 eval_switches []) (code s) 0.

(* THE flag: does Enqueue treat a task in TaskErr like a completed one
   (eval.go:325 `case TaskOk, TaskErr:`)?  Read off the generated table. *)
Definition err_counts_as_done : bool :=
  match gen_enqueue_clause TErr with Some 0%nat => true | _ => false end.

Inductive eclass := CDone | CSched | CTrav.
(* eda = "TaskErr counts as done".  eda = true is the code as it is; eda = false
   is the repaired switch (`case TaskOk:` / `case TaskWaiting, TaskRunning, TaskErr:`):
   a task in ERR is scheduled, its waiter returns at once and Return records the error. *)
Definition enq_class (eda : bool) (s : tstate) : eclass :=
  match s with
  | TOk => CDone
  | TErr => if eda then CDone else CSched
  | TWaiting | TRunning => CSched
  | TInit | TLost => CTrav
  end.

Inductive rclass := RDefault | RErr | ROk | RLost.
Definition ret_class (s : tstate) : rclass :=
  match s with TErr => RErr | TOk => ROk | TLost => RLost | _ => RDefault end.

(* ------------------------------------------------------------------ graphs *)

Record tnode := mkT { tdeps : list nat;    (* TaskDep.Head of each dependency *)
                      tgroup : list nat }. (* Task.Group ([] = no group) *)
Notation graph := (list tnode) (only parsing).

Definition node (g : graph) (t : nat) : tnode := nth t g (mkT [] []).
(* Task.Phase and Task.Head, task.go:293-307 *)
Definition phase (g : graph) (t : nat) : list nat :=
  match tgroup (node g t) with [] => [t] | grp => grp end.
Definition head (g : graph) (t : nat) : nat :=
  match tgroup (node g t) with [] => t | h :: _ => h end.

(* ------------------------------------------------------------------ sets and maps *)

Definition mem (x : nat) (l : list nat) : bool := existsb (Nat.eqb x) l.
Definition set_add (x : nat) (l : list nat) : list nat := if mem x l then l else l ++ [x].
Definition set_rm (x : nat) (l : list nat) : list nat := filter (fun y => negb (Nat.eqb x y)) l.
Definition upd {A} (f : nat -> A) (k : nat) (v : A) : nat -> A :=
  fun x => if Nat.eqb x k then v else f x.
Definition is_nil {A} (l : list A) : bool := match l with [] => true | _ => false end.

(* ------------------------------------------------------------------ type state, eval.go:272-302 *)

Record state := mkS {
  sdeps : nat -> list nat;     (* deps[src] = set of dst *)
  scounts : nat -> Z;
  stodo : list nat;
  spending : list nat;
  swait : nat -> option nat;   (* memo per phase head, cleared by Return *)
  serr : bool;                 (* err != nil *)
  soof : bool                  (* model artefact: a fuelled loop ran out of fuel *)
}.

Definition new_state : state := mkS (fun _ => []) (fun _ => 0%Z) [] [] (fun _ => None) false false.

Definition set_oof (s : state) : state :=
  mkS (sdeps s) (scounts s) (stodo s) (spending s) (swait s) (serr s) true.
Definition set_err (s : state) : state :=
  mkS (sdeps s) (scounts s) (stodo s) (spending s) (swait s) true (soof s).
Definition set_wait (s : state) (t : nat) (n : nat) : state :=
  mkS (sdeps s) (scounts s) (stodo s) (spending s) (upd (swait s) t (Some n)) (serr s) (soof s).

(* eval.go:413 *)
Definition schedule (s : state) (t : nat) : state :=
  if mem t (spending s) then s
  else mkS (sdeps s) (scounts s) (set_add t (stodo s)) (spending s) (swait s) (serr s) (soof s).

(* eval.go:421 *)
Definition clear (g : graph) (s : state) (t : nat) : state :=
  mkS (fold_left (fun dm d => upd dm d (set_rm t (dm d))) (tdeps (node g t)) (sdeps s))
      (upd (scounts s) t 0%Z) (stodo s) (spending s) (swait s) (serr s) (soof s).

(* eval.go:431 *)
Definition add (s : state) (src dst : nat) (n : nat) : state :=
  if mem dst (sdeps s src) then s
  else mkS (upd (sdeps s) src (sdeps s src ++ [dst]))
           (upd (scounts s) dst (scounts s dst + Z.of_nat n)%Z)
           (stodo s) (spending s) (swait s) (serr s) (soof s).

(* eval.go:443 *)
Definition done_one (acc : state * list nat) (dst : nat) : state * list nat :=
  let '(s, ready) := acc in
  let c := (scounts s dst - 1)%Z in
  (mkS (sdeps s) (upd (scounts s) dst c) (stodo s) (spending s) (swait s) (serr s) (soof s),
   if (c =? 0)%Z then ready ++ [dst] else ready).
Definition done_op (s : state) (src : nat) : state * list nat :=
  fold_left done_one (sdeps s src) (s, []).

(* ---- Enqueue, eval.go:319-348.  [w] is the task-state reading; the recursion
        on dependencies is bounded by fuel (S (length g) suffices on acyclic graphs;
        running out sets soof). ---- *)
Definition enq_deps (rec : state -> nat -> state * nat) (u : nat) :=
  fix go (ds : list nat) (s : state) (ready : bool) {struct ds} : state * bool :=
    match ds with
    | [] => (s, ready)
    | d :: r =>
        let '(s1, k) := rec s d in
        match k with
        | O => go r s1 ready
        | S _ => go r (add s1 d u k) false
        end
    end.

Definition enq_phase (eda : bool) (g : graph) (w : nat -> tstate) (rec : state -> nat -> state * nat) :=
  fix go (us : list nat) (s : state) (n : nat) {struct us} : state * nat :=
    match us with
    | [] => (s, n)
    | u :: r =>
        match enq_class eda (w u) with
        | CDone => go r s n
        | CSched => go r (schedule s u) (S n)
        | CTrav =>
            let '(s1, ready) := enq_deps rec u (tdeps (node g u)) (clear g s u) true in
            go r (if ready then schedule s1 u else s1) (S n)
        end
    end.

Fixpoint enqueue (eda : bool) (g : graph) (w : nat -> tstate) (fuel : nat) (s : state) (t : nat)
  : state * nat :=
  match swait s (head g t) with
  | Some n => (s, n)
  | None =>
      match fuel with
      | O => (set_oof s, O)
      | S f =>
          let '(s1, n) := enq_phase eda g w (enqueue eda g w f) (phase g t) s O in
          (set_wait s1 (head g t) n, n)
      end
  end.

Definition fuel_of (g : graph) : nat := S (length g).

Definition enqueue_all (eda : bool) (g : graph) (w : nat -> tstate) (s : state) (ts : list nat) : state :=
  fold_left (fun s t => fst (enqueue eda g w (fuel_of g) s t)) ts s.

(* ---- Return, eval.go:352-376 (the pending check is in [sstep]) ---- *)
Definition ret (eda : bool) (g : graph) (w : nat -> tstate) (s : state) (t : nat) : state :=
  let s0 := mkS (sdeps s) (scounts s) (stodo s) (set_rm t (spending s)) (fun _ => None) (serr s) (soof s) in
  match ret_class (w t) with
  | RDefault => schedule s0 t
  | RErr => set_err s0
  | ROk => let '(s1, ready) := done_op s0 (head g t) in enqueue_all eda g w s1 ready
  | RLost => fst (enqueue eda g w (fuel_of g) s0 t)
  end.

(* ---- Runnable / Todo / Done, eval.go:381-404 ---- *)
Definition runnable (s : state) : list nat * state :=
  (stodo s,
   mkS (sdeps s) (scounts s) [] (fold_left (fun p t => set_add t p) (stodo s) (spending s))
       (swait s) (serr s) (soof s)).
Definition sdone (s : state) : bool := serr s || (is_nil (stodo s) && is_nil (spending s)).

(* ------------------------------------------------------------------ world, evaluators *)

Record world := mkW { wst : nat -> tstate;
                      wcl : nat -> Z     (* Task.consecutiveLost *);
                      wlu : nat -> bool  (* Task.lossUncounted *) }.

(* Two versions of the loss accounting of Eval are modelled, selected by [clo]
   ("counts each loss once", read off the Go AST as eval_counts_loss_once):
     clo = false  the former code: only the waiter goroutine of the evaluation that
                  handed the task out maintains consecutiveLost;
     clo = true   (0540c52) the hand-out sets lossUncounted; Task.countLost counts
                  the loss of that run once, in the runner's waiter or in the main
                  loop of whichever evaluation is about to resubmit the task. *)

(* Task.countLost, eval.go (enableMaxConsecutiveLost = true) *)
Definition count_lost (w : world) (t : nat) : world * bool :=
  if wlu w t then
    let c := (wcl w t + 1)%Z in
    if (c >=? max_consecutive_lost)%Z
    then (mkW (upd (wst w) t TErr) (upd (wcl w) t c) (upd (wlu w) t false), true)
    else (mkW (wst w) (upd (wcl w) t c) (upd (wlu w) t false), false)
  else (w, false).

Record evaluator := mkE {
  eroots : list nat;
  estarted : bool;
  est : state;
  ewait : list (nat * bool);   (* live waiter goroutines: (task, runner) *)
  edonec : list nat;           (* tasks sent on donec, not yet received *)
  eres : option bool           (* Eval returned: Some false = nil, Some true = error *)
}.

Definition new_eval (roots : list nat) : evaluator := mkE roots false new_state [] [] None.
Definition set_est (ev : evaluator) (s : state) : evaluator :=
  mkE (eroots ev) (estarted ev) s (ewait ev) (edonec ev) (eres ev).

(* one iteration of the dispatch loop of Eval (up to the `go` statements) *)
Definition dispatch_one (clo : bool) (acc : world * list (nat * bool) * list nat) (u : nat)
  : world * list (nat * bool) * list nat :=
  let '(w, ws, runs) := acc in
  (* clo: `if task.state == TaskLost { task.countLost() }` *)
  let w0 := if clo && st_eqb (wst w u) TLost then fst (count_lost w u) else w in
  let st1 := if st_eqb (wst w0 u) TLost then TInit else wst w0 u in   (* resubmitting lost task *)
  if st_eqb st1 TInit                                                  (* runner *)
  then (mkW (upd (wst w0) u TWaiting) (wcl w0) (if clo then upd (wlu w0) u true else wlu w0),
        ws ++ [(u, true)], runs ++ [u])
  else (w0, ws ++ [(u, false)], runs).

Definition dispatch (clo : bool) (ev : evaluator) (w : world) : evaluator * world * list nat :=
  let '(ts, s1) := runnable (est ev) in
  let '(w1, ws, runs) := fold_left (dispatch_one clo) ts (w, ewait ev, []) in
  (mkE (eroots ev) (estarted ev) s1 ws (edonec ev) (eres ev), w1, runs).

(* from the top of the outer `for` (eval.go:89) until Eval blocks in the select
   or returns.  The loop body runs at most three times (the second Enqueue of the
   roots is memoised); k is explicit fuel. *)
Fixpoint main_top (clo eda : bool) (g : graph) (k : nat) (ev : evaluator) (w : world) (acc : list nat)
  : evaluator * world * list nat :=
  match k with
  | O => (set_est ev (set_oof (est ev)), w, acc)
  | S k' =>
      let s1 := enqueue_all eda g (wst w) (est ev) (eroots ev) in
      if sdone s1 then                                         (* :93 return state.Err(); defer cancel() *)
        (mkE (eroots ev) true s1 [] [] (Some (serr s1)), w, acc)
      else if is_nil (stodo s1) then (set_est ev s1, w, acc)   (* :96 blocks in select *)
      else let '(ev1, w1, runs) := dispatch clo (set_est ev s1) w in
           main_top clo eda g k' ev1 w1 (acc ++ runs)
  end.
Definition main_fuel : nat := 4.

(* after a Return: the condition of the inner loop (eval.go:96), then on *)
Definition main_cont (clo eda : bool) (g : graph) (ev : evaluator) (w : world)
  : evaluator * world * list nat :=
  if negb (sdone (est ev)) && is_nil (stodo (est ev)) then (ev, w, [])
  else let '(ev1, w1, runs) := dispatch clo ev w in main_top clo eda g main_fuel ev1 w1 runs.

(* Eval called (eval.go:80-88): a fresh state, then the loop *)
Definition step_start (clo eda : bool) (g : graph) (ev : evaluator) (w : world)
  : evaluator * world * list nat :=
  if estarted ev then (ev, w, [])
  else main_top clo eda g main_fuel (mkE (eroots ev) true new_state [] [] None) w [].

(* the runner's bookkeeping in the waiter goroutine, enableMaxConsecutiveLost = true *)
Definition bookkeep (clo : bool) (w : world) (t : nat) : world :=
  match wst w t with
  | TOk => mkW (wst w) (upd (wcl w) t 0%Z) (if clo then upd (wlu w) t false else wlu w)
  | TLost =>
      if clo then fst (count_lost w t)
      else
        let c := (wcl w t + 1)%Z in
        if (c >=? max_consecutive_lost)%Z
        then mkW (upd (wst w) t TErr) (upd (wcl w) t c) (wlu w)
        else mkW (wst w) (upd (wcl w) t c) (wlu w)
  | _ => w
  end.

Fixpoint find_waiter (t : nat) (ws : list (nat * bool)) : option bool :=
  match ws with
  | [] => None
  | (u, r) :: rest => if Nat.eqb t u then Some r else find_waiter t rest
  end.

Definition step_wait (clo : bool) (ev : evaluator) (w : world) (t : nat) : evaluator * world :=
  match eres ev, find_waiter t (ewait ev) with
  | None, Some r =>
      if ge_ok (wst w t)
      then (mkE (eroots ev) (estarted ev) (est ev)
                (filter (fun p => negb (Nat.eqb t (fst p))) (ewait ev)) (edonec ev ++ [t]) (eres ev),
            if r then bookkeep clo w t else w)
      else (ev, w)
  | _, _ => (ev, w)
  end.

Definition step_main (clo eda : bool) (g : graph) (ev : evaluator) (w : world)
  : evaluator * world * list nat :=
  match eres ev, edonec ev with
  | None, t :: rest =>
      main_cont clo eda g
        (mkE (eroots ev) (estarted ev) (ret eda g (wst w) (est ev) t) (ewait ev) rest (eres ev)) w
  | _, _ => (ev, w, [])
  end.

(* ------------------------------------------------------------------ the system *)

Inductive label :=
| LSet (t : nat) (s : tstate)   (* environment: Task.Set / Task.Error *)
| LStart (e : nat)
| LWait (e t : nat)
| LMain (e : nat).

Record sys := mkSys { sw : world; sevs : list evaluator }.

Definition dead_eval : evaluator := mkE [] true new_state [] [] (Some false).
Definition get_ev (sy : sys) (e : nat) : evaluator := nth e (sevs sy) dead_eval.
Fixpoint set_nth {A} (l : list A) (i : nat) (x : A) : list A :=
  match l, i with
  | [], _ => []
  | _ :: r, O => x :: r
  | y :: r, S j => y :: set_nth r j x
  end.

(* one atomic step; the emitted Run calls are tagged with the evaluator *)
Definition step_v (clo eda : bool) (g : graph) (sy : sys) (l : label) : sys * list (nat * nat) :=
  match l with
  | LSet t s => (mkSys (mkW (upd (wst (sw sy)) t s) (wcl (sw sy)) (wlu (sw sy))) (sevs sy), [])
  | LStart e =>
      if Nat.ltb e (length (sevs sy)) then
        let '(ev, w, runs) := step_start clo eda g (get_ev sy e) (sw sy) in
        (mkSys w (set_nth (sevs sy) e ev), map (pair e) runs)
      else (sy, [])
  | LWait e t =>
      if Nat.ltb e (length (sevs sy)) then
        let '(ev, w) := step_wait clo (get_ev sy e) (sw sy) t in
        (mkSys w (set_nth (sevs sy) e ev), [])
      else (sy, [])
  | LMain e =>
      if Nat.ltb e (length (sevs sy)) then
        let '(ev, w, runs) := step_main clo eda g (get_ev sy e) (sw sy) in
        (mkSys w (set_nth (sevs sy) e ev), map (pair e) runs)
      else (sy, [])
  end.

(* an arbitrary interleaving; the trace records, per step, the world before the
   step and what was handed to the executor *)
Fixpoint exec_v (clo eda : bool) (g : graph) (sy : sys) (ls : list label)
  : sys * list (label * world * list (nat * nat)) :=
  match ls with
  | [] => (sy, [])
  | l :: r =>
      let '(sy1, runs) := step_v clo eda g sy l in
      let '(sy2, tr) := exec_v clo eda g sy1 r in
      (sy2, (l, sw sy, runs) :: tr)
  end.

(* ---- the lock-step schedule: all ready waiters, then every main loop drains
        its donec; repeated until nothing is ready ---- *)
Definition ready_waiters (ev : evaluator) (w : world) : list nat :=
  match eres ev with
  | None => map fst (filter (fun p => ge_ok (wst w (fst p))) (ewait ev))
  | Some _ => []
  end.
Definition sched_wait (sy : sys) : list label :=
  flat_map (fun e => map (LWait e) (ready_waiters (get_ev sy e) (sw sy))) (seq 0 (length (sevs sy))).
Definition sched_main (sy : sys) : list label :=
  flat_map (fun e => repeat (LMain e) (length (edonec (get_ev sy e)))) (seq 0 (length (sevs sy))).

Definition runs_of (tr : list (label * world * list (nat * nat))) : list (nat * nat) :=
  flat_map (fun x => snd x) tr.

Fixpoint quiesce_v (clo eda : bool) (g : graph) (k : nat) (sy : sys) (acc : list (nat * nat))
  : sys * list (nat * nat) * bool :=
  match k with
  | O => (sy, acc, false)
  | S k' =>
      match sched_wait sy, sched_main sy with
      | [], [] => (sy, acc, true)
      | lw, _ =>
          let '(sy1, tr1) := exec_v clo eda g sy lw in
          let '(sy2, tr2) := exec_v clo eda g sy1 (sched_main sy1) in
          quiesce_v clo eda g k' sy2 (acc ++ runs_of tr1 ++ runs_of tr2)
      end
  end.
Definition quiesce_fuel (g : graph) : nat := 2 * length g + 4.

(* one lock-step operation of the driver: inject, then run to quiescence *)
Definition lock_step_v (clo eda : bool) (g : graph) (sy : sys) (l : label) : sys * list (nat * nat) * bool :=
  let '(sy1, runs) := step_v clo eda g sy l in
  quiesce_v clo eda g (quiesce_fuel g) sy1 runs.

Fixpoint run_lock_v (clo eda : bool) (g : graph) (sy : sys) (ls : list label)
  : list (sys * list (nat * nat) * bool) :=
  match ls with
  | [] => []
  | l :: r => let '(sy1, runs, ok) := lock_step_v clo eda g sy l in (sy1, runs, ok) :: run_lock_v clo eda g sy1 r
  end.

Definition init_sys (st0 : nat -> tstate) (rootss : list (list nat)) : sys :=
  mkSys (mkW st0 (fun _ => 0%Z) (fun _ => false)) (map new_eval rootss).

(* ---- the versions of Eval that have existed.  [eda] (TaskErr counts as done in
        Enqueue) was repaired in 80f5927, the loss accounting in 0540c52, in that
        order: the Enqueue switch with TaskErr under TaskOk only ever ran with the
        former accounting.  [ver eda] is the accounting that goes with [eda]:
        eda = true (the original code) -> the former one; eda = false -> whatever
        the Go source has now (eval_counts_loss_once). ---- *)
Definition ver (eda : bool) : bool := eval_counts_loss_once && negb eda.

Definition step (eda : bool) (g : graph) := step_v (ver eda) eda g.
Definition exec (eda : bool) (g : graph) := exec_v (ver eda) eda g.
Definition quiesce (eda : bool) (g : graph) := quiesce_v (ver eda) eda g.
Definition lock_step (eda : bool) (g : graph) := lock_step_v (ver eda) eda g.
Definition run_lock (eda : bool) (g : graph) := run_lock_v (ver eda) eda g.

(* ------------------------------------------------------------------ synchronous driving of [state] *)

Inductive sop := SEnq (t : nat) | SRet (t : nat) | SRunnable | SSet (t : nat) (s : tstate).
Inductive sout := SNum (n : nat) | SUnit | SPanic | STasks (l : list nat).

Definition sstep (eda : bool) (g : graph) (w : nat -> tstate) (s : state) (o : sop)
  : (nat -> tstate) * state * sout :=
  match o with
  | SEnq t => let '(s1, n) := enqueue eda g w (fuel_of g) s t in (w, s1, SNum n)
  | SRet t => if mem t (spending s) then (w, ret eda g w s t, SUnit) else (w, s, SPanic)  (* :353 *)
  | SRunnable => let '(ts, s1) := runnable s in (w, s1, STasks ts)
  | SSet t st => (upd w t st, s, SUnit)
  end.

(* ------------------------------------------------------------------ well-formed graphs (executable) *)

Definition nat_list_eqb (a b : list nat) : bool :=
  Nat.eqb (length a) (length b) && forallb (fun p => Nat.eqb (fst p) (snd p)) (combine a b).

Fixpoint nodupb (l : list nat) : bool :=
  match l with [] => true | x :: r => negb (mem x r) && nodupb r end.

(* ids are a topological numbering: every task of every dependency phase is smaller;
   dependency heads are phase heads; groups are closed and contain their members *)
Definition wf_node (g : graph) (t : nat) : bool :=
  let nd := node g t in
  forallb (fun d => Nat.ltb d (length g) && Nat.eqb (head g d) d
                    && forallb (fun u => Nat.ltb u t) (phase g d)) (tdeps nd)
  && (is_nil (tgroup nd)
      || (mem t (tgroup nd) && nodupb (tgroup nd)
          && forallb (fun u => Nat.ltb u (length g) && nat_list_eqb (tgroup (node g u)) (tgroup nd))
                     (tgroup nd))).
Definition wf_graphb (g : graph) : bool := forallb (wf_node g) (seq 0 (length g)).

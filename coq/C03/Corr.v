(* C03 — correspondence drivers: evaluated by vm_compute on harness case files. *)
From Coq Require Import List ZArith Bool.
Import ListNotations.
Require Export BS.Common.Util BS.C03.Model.
Require Import BS.Gen.C03_params.

(* ------------------------------------------------------------------ observations *)

(* (i) the complete scheduling state after one operation on the hooked [state] *)
Record dump := mkDump {
  dtodo : list nat; dpending : list nat; ddone : bool; derr : bool;
  dcounts : list Z; ddeps : list (list nat); dwait : list (option nat); dstates : list tstate }.

(* (ii) one lock-step of the real Eval, read at quiescence: Run calls since the
   last step (one list per evaluation, or a single merged list when there are
   several evaluations), result of every evaluation (0 running, 1 nil, 2 error,
   3 panic), all task states, all consecutiveLost counters ([] = not recorded),
   watchdog expired *)
Record obs := mkObs {
  oruns : list (list nat); ores : list nat; osts : list tstate; ocls : list Z; ohung : bool }.

Inductive case :=
| CSync (g : list tnode) (init : list tstate) (steps : list (sop * sout * dump))
| CEval (g : list tnode) (init : list tstate) (rootss : list (list nat)) (steps : list (label * obs))
| CPanic.   (* the driver itself failed on this case *)

(* ------------------------------------------------------------------ helpers *)

Fixpoint insert (x : nat) (l : list nat) : list nat :=
  match l with
  | [] => [x]
  | y :: r => if Nat.leb x y then x :: l else y :: insert x r
  end.
Definition sortn (l : list nat) : list nat := fold_right insert [] l.

Definition st_of (l : list tstate) : nat -> tstate := fun t => nth t l TInit.
Definition natl_eqb := list_eqb Nat.eqb.
Definition stl_eqb := list_eqb st_eqb.
Definition ids (g : list tnode) : list nat := seq 0 (length g).

Definition sout_eqb (a b : sout) : bool :=
  match a, b with
  | SNum x, SNum y => Nat.eqb x y
  | SUnit, SUnit => true
  | SPanic, SPanic => true
  | STasks x, STasks y => natl_eqb (sortn x) (sortn y)
  | _, _ => false
  end.

Definition dump_of (g : list tnode) (w : nat -> tstate) (s : state) : dump :=
  mkDump (sortn (stodo s)) (sortn (spending s)) (sdone s) (serr s)
         (map (scounts s) (ids g)) (map (fun t => sortn (sdeps s t)) (ids g))
         (map (swait s) (ids g)) (map w (ids g)).

Definition dump_eqb (a b : dump) : bool :=
  natl_eqb (dtodo a) (dtodo b) && natl_eqb (dpending a) (dpending b)
  && Bool.eqb (ddone a) (ddone b) && Bool.eqb (derr a) (derr b)
  && list_eqb Z.eqb (dcounts a) (dcounts b)
  && list_eqb natl_eqb (ddeps a) (ddeps b)
  && list_eqb (option_eqb Nat.eqb) (dwait a) (dwait b)
  && stl_eqb (dstates a) (dstates b).

(* ------------------------------------------------------------------ exact agreement *)

Fixpoint sync_exact (g : list tnode) (w : nat -> tstate) (s : state) (steps : list (sop * sout * dump)) : bool :=
  match steps with
  | [] => true
  | (o, out, d) :: rest =>
      let '(w1, s1, out1) := sstep err_counts_as_done g w s o in
      sout_eqb out1 out && dump_eqb (dump_of g w1 s1) d && negb (soof s1)
      && sync_exact g w1 s1 rest
  end.

Definition res_code (ev : evaluator) : nat :=
  match eres ev with None => 0 | Some false => 1 | Some true => 2 end.

Definition obs_agrees (g : list tnode) (sy : sys) (runs : list (nat * nat)) (fuel_ok : bool) (o : obs) : bool :=
  fuel_ok && negb (ohung o)
  && forallb (fun ev => negb (soof (est ev))) (sevs sy)
  && natl_eqb (sortn (map snd runs)) (sortn (concat (oruns o)))
  && natl_eqb (map res_code (sevs sy)) (ores o)
  && stl_eqb (map (wst (sw sy)) (ids g)) (osts o)
  && (is_nil (ocls o) || list_eqb Z.eqb (map (wcl (sw sy)) (ids g)) (ocls o)).

Fixpoint eval_exact (g : list tnode) (sy : sys) (steps : list (label * obs)) : bool :=
  match steps with
  | [] => true
  | (l, o) :: rest =>
      let '(sy1, runs, ok) := lock_step err_counts_as_done g sy l in
      obs_agrees g sy1 runs ok o && eval_exact g sy1 rest
  end.

Definition case_exact (c : case) : bool :=
  match c with
  | CSync g init steps => wf_graphb g && sync_exact g (st_of init) new_state steps
  | CEval g init rootss steps => wf_graphb g && eval_exact g (init_sys (st_of init) rootss) steps
  | CPanic => false
  end.

(* ------------------------------------------------------------------ the property, judged on the OBSERVED history only *)

Definition all_ok (g : list tnode) (w : nat -> tstate) (t : nat) : bool :=
  forallb (fun d => forallb (fun u => st_eqb (w u) TOk) (phase g d)) (tdeps (node g t)).
Definition handed (s : tstate) : bool := st_eqb s TWaiting || st_eqb s TRunning.
Definition is_final (s : tstate) : bool := st_eqb s TOk || st_eqb s TErr || st_eqb s TLost.

(* tasks an evaluation of [roots] may ever need: the phases of the roots and,
   transitively, of their dependencies *)
Fixpoint cone_fuel (g : list tnode) (k : nat) (ts : list nat) : list nat :=
  match k with
  | O => ts
  | S k' =>
      let ph := flat_map (phase g) ts in
      ph ++ cone_fuel g k' (flat_map (fun u => tdeps (node g u)) ph)
  end.
Definition cone (g : list tnode) (roots : list nat) : list nat := cone_fuel g (length g) roots.

(* the part of the cone an evaluation has certainly traversed: the phases of its
   roots and, below a task, the phases of its dependencies as long as the task is
   INIT (a task that is INIT has always been INIT; Enqueue descends through it) *)
Fixpoint cone_init_fuel (g : list tnode) (w : nat -> tstate) (k : nat) (ts : list nat) : list nat :=
  match k with
  | O => []
  | S k' =>
      let ph := flat_map (phase g) ts in
      ph ++ cone_init_fuel g w k'
              (flat_map (fun u => tdeps (node g u)) (filter (fun u => st_eqb (w u) TInit) ph))
  end.
Definition cone_init (g : list tnode) (w : nat -> tstate) (roots : list nat) : list nat :=
  cone_init_fuel g w (S (length g)) roots.
Definition depends_on (g : list tnode) (u d : nat) : bool :=
  existsb (fun dh => mem d (phase g dh)) (tdeps (node g u)).

Definition max_lost : nat := Z.to_nat max_consecutive_lost.

Record chk := mkChk {
  cw : nat -> tstate;         (* observed task states at the last quiescent point *)
  cout : list nat;            (* tasks handed to the executor whose run has not ended *)
  cstreak : nat -> nat;       (* consecutive losses of runs handed out by the evaluation(s) *)
  clost : list nat;           (* handed-out runs that ended LOST, not handed out again yet *)
  cstarted : list nat;        (* evaluations started *)
  cres : list nat             (* their results at the last quiescent point *)
}.

Definition count_occ_nat (x : nat) (l : list nat) : nat := length (filter (Nat.eqb x) l).

Definition step_ok (g : list tnode) (rootss : list (list nat)) (c : chk) (l : label) (o : obs) : list bool * chk :=
  let ne := length rootss in
  let runs := concat (oruns o) in
  let post := st_of (osts o) in
  let pre := match l with LSet t s => upd (cw c) t s | _ => cw c end in
  let started := match l with LStart e => e :: cstarted c | _ => cstarted c end in
  let res_before (e : nat) := nth e (cres c) 0 in
  let res_after (e : nat) := nth e (ores o) 0 in
  let all_running_before := forallb (fun e => Nat.eqb (res_before e) 0) (cstarted c) in
  let some_new_error := existsb (fun e => Nat.eqb (res_before e) 0 && Nat.eqb (res_after e) 2) (seq 0 ne) in
  (* the evaluations that were live before the step and have certainly traversed task t *)
  let live_cones (w : nat -> tstate) : list (nat * list nat) :=
    map (fun e => (e, cone_init g w (nth e rootss [])))
        (filter (fun e => Nat.eqb (res_before e) 0) (cstarted c)) in
  (* the event ends a run we handed out? *)
  let ended := match l with LSet t s => if mem t (cout c) && is_final s then Some (t, s) else None | _ => None end in
  let streak := match ended with
                | Some (t, TLost) => upd (cstreak c) t (S (cstreak c t))
                | Some (t, TOk) => upd (cstreak c) t 0
                | _ => cstreak c end in
  let out1 := match ended with Some (t, _) => set_rm t (cout c) | None => cout c end in
  let needed := flat_map (fun e => cone g (nth e rootss [])) started in
  let checks : list bool := [
    (* 0 *) negb (ohung o);
    (* 1: tasks start only when ready *)
    forallb (fun r => all_ok g pre r) runs;
    (* 2: never handed out twice at the same time *)
    forallb (fun r => negb (handed (pre r)) && Nat.eqb (count_occ_nat r runs) 1) runs;
    (* 3: never runs tasks the roots do not need *)
    forallb (fun r => mem r needed) runs;
    (* 4: success only when every root has completed successfully *)
    forallb (fun e => negb (Nat.eqb (res_before e) 0 && Nat.eqb (res_after e) 1)
                      || forallb (fun r => st_eqb (post r) TOk) (nth e rootss []))
            (seq 0 ne);
    (* 5: no panic *)
    forallb (fun e => negb (Nat.eqb (res_after e) 3)) (seq 0 ne);
    (* 6: a fatal failure of a handed-out task is reported *)
    match ended with Some (_, TErr) => negb all_running_before || some_new_error | _ => true end;
    (* 7: lost max times in a row: error; otherwise resubmitted (as soon as its dependencies are there) *)
    match ended with
    | Some (t, TLost) =>
        (if Nat.leb max_lost (streak t)
         then (* the task is in ERR, was not handed out again, every evaluation awaiting it failed *)
              let on_t := filter (fun p => mem t (snd p)) (live_cones (cw c)) in
              (negb all_running_before || some_new_error)
              && forallb (fun p => Nat.eqb (res_after (fst p)) 2) on_t
              && (is_nil on_t || (st_eqb (post t) TErr && negb (mem t runs)))
         else negb all_running_before || negb (all_ok g pre t) || mem t runs)
    | _ => true
    end;
    (* 9: work released by the completion of a handed-out task starts at once: a task
          that depends on the task that has just completed, now has all its dependencies
          OK, and is INIT and certainly traversed by a live evaluation (or LOST from a run
          these evaluations handed out) is handed out in the same step *)
    match ended with
    | Some (d, TOk) =>
        let cones := live_cones pre in
        forallb (fun u => negb (depends_on g u d && all_ok g pre u
                                && ((st_eqb (pre u) TInit && existsb (fun p => mem u (snd p)) cones)
                                    (* ... or LOST from a run we handed out (so Return re-enqueued it) *)
                                    || (st_eqb (pre u) TLost && mem u (clost c) && all_running_before)))
                          || mem u runs) (ids g)
    | _ => true
    end;
    (* 8: never idle with work outstanding *)
    forallb (fun e => negb (Nat.eqb (res_after e) 0)
                      || existsb (fun t => handed (post t)) (cone g (nth e rootss [])))
            started ] in
  let lost1 := match ended with Some (t, TLost) => set_add t (clost c) | _ => clost c end in
  (checks, mkChk post (fold_left (fun a r => set_add r a) runs out1) streak
                 (fold_left (fun a r => set_rm r a) runs lost1) started (ores o)).

Fixpoint eval_ok (g : list tnode) (rootss : list (list nat)) (c : chk) (steps : list (label * obs)) : bool :=
  match steps with
  | [] => true
  | (l, o) :: rest => let '(oks, c1) := step_ok g rootss c l o in forallb (fun b => b) oks && eval_ok g rootss c1 rest
  end.

(* diagnosis (not used by the verdict): (step, failed check number) pairs *)
Fixpoint eval_why (g : list tnode) (rootss : list (list nat)) (c : chk) (i : nat) (steps : list (label * obs)) : list (nat * nat) :=
  match steps with
  | [] => []
  | (l, o) :: rest =>
      let '(oks, c1) := step_ok g rootss c l o in
      map (fun k => (i, k)) (bad_indices (fun b : bool => b) oks) ++ eval_why g rootss c1 (S i) rest
  end.

(* synchronous cases: what the property says about the scheduling sets themselves.
   After every operation todo and pending are disjoint; Runnable never hands out a
   task that is already pending; an Enqueue that starts a fresh round (empty memo)
   schedules an INIT/LOST task only if all its dependencies are OK. *)
Definition disjointb (a b : list nat) : bool := forallb (fun x => negb (mem x b)) a.

Fixpoint sync_ok (g : list tnode) (prev : dump) (steps : list (sop * sout * dump)) : bool :=
  match steps with
  | [] => true
  | (o, out, d) :: rest =>
      disjointb (dtodo d) (dpending d)
      && match o, out with
         | SRunnable, STasks ts => disjointb ts (dpending prev)
         | SEnq _, SNum _ =>
             negb (forallb (fun x => match x with None => true | Some _ => false end) (dwait prev))
             || forallb (fun u => mem u (dtodo prev)
                                  || negb (st_eqb (st_of (dstates d) u) TInit || st_eqb (st_of (dstates d) u) TLost)
                                  || all_ok g (st_of (dstates d)) u)
                        (dtodo d)
         | _, _ => true
         end
      && sync_ok g d rest
  end.

Definition case_ok (c : case) : bool :=
  match c with
  | CSync g init steps =>
      sync_ok g (mkDump [] [] true false [] [] (map (fun _ => None) g) init) steps
  | CEval g init rootss steps =>
      eval_ok g rootss (mkChk (st_of init) [] (fun _ => 0) [] [] (map (fun _ => 0) rootss)) steps
  | CPanic => false
  end.

Definition case_why (c : case) : list (nat * nat) :=
  match c with
  | CEval g init rootss steps =>
      eval_why g rootss (mkChk (st_of init) [] (fun _ => 0) [] [] (map (fun _ => 0) rootss)) 0 steps
  | _ => []
  end.

Definition mismatches (cs : list case) : list nat := bad_indices case_exact cs.
Definition violations (cs : list case) : list nat := bad_indices case_ok cs.

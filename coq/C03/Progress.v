(* C03 — progress: in every reachable state, an evaluation that has not returned
   has nothing left to dispatch, is not done, and every task it waits for has a
   live waiter goroutine (or sits in donec); at a quiescent point every pending
   task is WAITING or RUNNING, i.e. owned by an executor or another evaluation. *)
From Coq Require Import List ZArith Bool Lia Arith.
Import ListNotations.
Require Import BS.Gen.C03_params BS.C03.Model BS.C03.Proofs BS.C03.Safety.

(* dispatch never makes a task INIT, keeps the old waiters and creates one for
   every task it is given *)
Lemma dispatch_one_waiters clo w ws runs u w' ws' runs' :
  dispatch_one clo (w, ws, runs) u = (w', ws', runs') ->
  (forall v, wst w v <> TInit -> wst w' v <> TInit) /\
  (exists b, ws' = ws ++ [(u, b)]) /\ wst w' u <> TInit.
Proof.
  intro E. destruct (dispatch_one_single _ _ _ _ _ _ _ _ E) as [b [Ew [_ Ws]]].
  split; [intros v; apply (wstep_not_init _ _ _ _ _ Ws)|]. split; [exists b; exact Ew|].
  unfold dispatch_one in E.
  set (w0 := if clo && st_eqb (wst w u) TLost then fst (count_lost w u) else w) in *.
  destruct (st_eqb (if st_eqb (wst w0 u) TLost then TInit else wst w0 u) TInit) eqn:R; inversion E; subst.
  - simpl. rewrite upd_same. discriminate.
  - intro Z. rewrite Z in R. simpl in R. discriminate.
Qed.

Lemma dispatch_fold_waiters clo : forall ts w ws runs w' ws' runs',
  fold_left (dispatch_one clo) ts (w, ws, runs) = (w', ws', runs') ->
  (forall v, wst w v <> TInit -> wst w' v <> TInit) /\
  (forall p, In p ws -> In p ws') /\
  (forall u, In u ts -> exists b, In (u, b) ws') /\
  (forall p, In p ws' -> In p ws \/ wst w' (fst p) <> TInit).
Proof.
  induction ts as [|u r IH]; intros w ws runs w' ws' runs' E; cbn [fold_left] in E.
  - inversion E; subst. repeat split; auto. intros u [].
  - destruct (dispatch_one clo (w, ws, runs) u) as [[w1 ws1] runs1] eqn:D.
    destruct (dispatch_one_waiters _ _ _ _ _ _ _ _ D) as [N1 [[b Eb] Nu]].
    destruct (IH _ _ _ _ _ _ E) as [N2 [K2 [A2 B2]]]. subst ws1.
    split; [auto|]. split; [intros p Hp; apply K2, in_or_app; left; exact Hp|]. split.
    + intros v [<-|Hv]; [exists b; apply K2, in_or_app; right; left; reflexivity | apply A2, Hv].
    + intros p Hp. destruct (B2 p Hp) as [H|H]; [|right; exact H].
      apply in_app_or in H. destruct H as [H|[<-|[]]]; [left; exact H | right; apply N2, Nu].
Qed.

Definition watched (ev : evaluator) (t : nat) : Prop :=
  (exists r, In (t, r) (ewait ev)) \/ In t (edonec ev).

(* pending tasks are watched; watched tasks are not INIT *)
Definition q_ok (w : world) (ev : evaluator) : Prop :=
  (forall t, In t (spending (est ev)) -> watched ev t) /\
  (forall p, In p (ewait ev) -> wst w (fst p) <> TInit).

Definition p_ok (w : world) (ev : evaluator) : Prop :=
  (estarted ev = false -> edonec ev = [] /\ ewait ev = []) /\
  (eres ev = None -> estarted ev = true -> sdone (est ev) = false /\ q_ok w ev).

Lemma dispatch_q clo ev w ev' w' runs :
  dispatch clo ev w = (ev', w', runs) -> q_ok w ev ->
  q_ok w' ev' /\ (forall v, wst w v <> TInit -> wst w' v <> TInit).
Proof.
  unfold dispatch. simpl.
  destruct (fold_left (dispatch_one clo) (stodo (est ev)) (w, ewait ev, [])) as [[w1 ws] rs] eqn:F.
  intros E [Q1 Q2]. inversion E; subst. clear E.
  destruct (dispatch_fold_waiters _ _ _ _ _ _ _ _ F) as [N [K [A B]]]. split; [|exact N].
  split; simpl.
  - intros t Ht.
    assert (Ht' : In t (spending (est ev)) \/ In t (stodo (est ev))).
    { destruct (runnable_fields (est ev)) as [_ [_ [_ [_ [_ [_ Fp]]]]]]. apply Fp. exact Ht. }
    destruct Ht' as [Ht'|Ht'].
    + destruct (Q1 t Ht') as [[r Hr]|Hd]; [left; exists r; apply K, Hr | right; exact Hd].
    + destruct (A t Ht') as [b Hb]. left. exists b. exact Hb.
  - intros p Hp. destruct (B p Hp) as [H|H]; [apply N, Q2, H | exact H].
Qed.

Section Prog.
Variable clo : bool.
Variable eda : bool.
Hypothesis Hver : clo = true -> eda = false.
Variable g : list tnode.
Hypothesis Hwf : wf g.

Lemma q_same_pending w ev s :
  spending s = spending (est ev) -> q_ok w ev -> q_ok w (set_est ev s).
Proof. intros E [Q1 Q2]. split; simpl; [rewrite E; exact Q1 | exact Q2]. Qed.

Lemma top_result_prog ev w ev' w' runs :
  top_result clo eda g ev w [] = (ev', w', runs) -> q_ok w ev -> estarted ev = true ->
  (eres ev' = None -> sdone (est ev') = false /\ q_ok w' ev') /\ estarted ev' = true /\
  (forall v, wst w v <> TInit -> wst w' v <> TInit).
Proof.
  unfold top_result. intros E Q St.
  set (s1 := enqueue_all eda g (wst w) (est ev) (eroots ev)) in *.
  assert (P1 : spending s1 = spending (est ev)) by apply (ext_pending _ _ (enqueue_all_ext eda g (wst w) (eroots ev) (est ev))).
  destruct (sdone s1) eqn:D.
  - inversion E; subst. split; [simpl; discriminate | auto].
  - destruct (is_nil (stodo s1)) eqn:N.
    + inversion E; subst. split; [|split; [exact St | auto]]. intros _. simpl. split; [exact D|]. apply q_same_pending; assumption.
    + destruct (dispatch clo (set_est ev s1) w) as [[ev1 w1] runs1] eqn:Dp. inversion E; subst. clear E.
      destruct (dispatch_q _ _ _ _ _ _ Dp (q_same_pending w ev s1 P1 Q)) as [Q' NI].
      split; [|split; [|exact NI]].
      2:{ destruct (dispatch_spec _ _ _ _ _ _ Dp) as [_ [_ [_ [_ [Est _]]]]]. rewrite Est. exact St. }
      intros _. split; [|exact Q'].
      * destruct (dispatch_spec _ _ _ _ _ _ Dp) as [_ [_ [Es _]]]. rewrite Es. simpl.
        destruct (runnable_fields s1) as [_ [_ [_ [_ [_ [_ Fp]]]]]]. simpl in Fp.
        unfold sdone in *. simpl. apply orb_false_iff in D. destruct D as [D1 _]. rewrite D1. simpl.
        destruct (stodo s1) as [|x r] eqn:T; [discriminate|].
        destruct (fold_left (fun p t => set_add t p) (x :: r) (spending s1)) eqn:Z; [|reflexivity].
        exfalso. exact (proj2 (Fp x) (or_intror (or_introl eq_refl))).
Qed.

Lemma main_cont_prog ev w ev' w' runs :
  main_cont clo eda g ev w = (ev', w', runs) ->
  inv eda g (wst w) (est ev) -> soof (est ev) = false -> q_ok w ev -> estarted ev = true ->
  (eres ev' = None -> sdone (est ev') = false /\ q_ok w' ev') /\ estarted ev' = true /\
  (forall v, wst w v <> TInit -> wst w' v <> TInit).
Proof.
  unfold main_cont. intros E I O Q St.
  destruct (negb (sdone (est ev)) && is_nil (stodo (est ev))) eqn:B.
  - inversion E; subst. split; [|auto]. intros _. apply andb_true_iff in B. destruct B as [B _].
    apply negb_true_iff in B. auto.
  - destruct (dispatch clo ev w) as [[ev1 w1] runs1] eqn:Dp.
    destruct (dispatch_spec _ _ _ _ _ _ Dp) as [Ws [_ [Es [_ [Est _]]]]].
    destruct (dispatch_q _ _ _ _ _ _ Dp Q) as [Q1 NI1].
    assert (I1 : inv eda g (wst w1) (est ev1)).
    { rewrite Es. apply (inv_world eda g (wst w)); [apply (wstep_done clo eda _ _ _ Hver Ws) | reflexivity | apply inv_runnable, I]. }
    assert (O1 : soof (est ev1) = false) by (rewrite Es; exact O).
    unfold main_fuel in E. rewrite (main_top_eq clo eda g Hwf 2 ev1 w1 runs1 I1 O1) in E.
    assert (Ht : exists runs2, top_result clo eda g ev1 w1 [] = (ev', w', runs2)).
    { unfold top_result in *.
      set (s1 := enqueue_all eda g (wst w1) (est ev1) (eroots ev1)) in *.
      destruct (sdone s1); [|destruct (is_nil (stodo s1))].
      - inversion E; subst. eexists; reflexivity.
      - inversion E; subst. eexists; reflexivity.
      - destruct (dispatch clo (set_est ev1 s1) w1) as [[e2 w2] r2]. inversion E; subst. eexists; reflexivity. }
    destruct Ht as [runs2 Et].
    destruct (top_result_prog ev1 w1 ev' w' runs2 Et Q1 (eq_trans Est St)) as [A [St' NI2]].
    split; [exact A | split; [exact St' | auto]].
Qed.

Definition psys_ok (sy : sys) : Prop := forall ev, In ev (sevs sy) -> p_ok (sw sy) ev.

Lemma p_ok_world w w' ev :
  (forall v, wst w v <> TInit -> wst w' v <> TInit) -> p_ok w ev -> p_ok w' ev.
Proof.
  intros NI [P0 P]. split; [exact P0|]. intros Hr Hs. destruct (P Hr Hs) as [A [Q1 Q2]]. split; [exact A|]. split; [exact Q1|].
  intros p Hp. apply NI, Q2, Hp.
Qed.

Lemma init_psys_ok st0 rootss : psys_ok (init_sys st0 rootss).
Proof.
  intros ev H. unfold init_sys in H. simpl in H. apply in_map_iff in H. destruct H as [r [<- _]].
  split; [intros _; split; reflexivity | intros _ Hs; simpl in Hs; discriminate].
Qed.

Lemma set_nth_self {A} (l : list A) e d : set_nth l e (nth e l d) = l.
Proof. revert e. induction l as [|a l IH]; intros [|e]; simpl; auto. f_equal. apply IH. Qed.

Lemma pstep sy l :
  sys_ok sy -> psys_ok sy -> legal_label l -> psys_ok (fst (step_v clo eda g sy l)).
Proof.
  intros Hok P Hl.
  assert (Keep : forall e ev' w', e < length (sevs sy) ->
            (forall v, wst (sw sy) v <> TInit -> wst w' v <> TInit) -> p_ok w' ev' ->
            psys_ok (mkSys w' (set_nth (sevs sy) e ev'))).
  { intros e ev' w' He NI Pev ev Hev. simpl in *. apply set_nth_In in Hev. destruct Hev as [->|Hev]; [exact Pev|].
    apply (p_ok_world (sw sy)); [exact NI | apply P, Hev]. }
  destruct l as [t s|e|e t|e]; simpl.
  - intros ev Hev. simpl in *. apply (p_ok_world (sw sy)); [|apply P, Hev].
    intros v Hv. simpl. unfold upd. destruct (Nat.eqb v t); [|exact Hv].
    destruct s; simpl in Hl; try discriminate. contradiction.
  - destruct (Nat.ltb e (length (sevs sy))) eqn:L; [|exact P]. apply Nat.ltb_lt in L.
    destruct (step_start clo eda g (get_ev sy e) (sw sy)) as [[ev' w'] rs] eqn:E. simpl.
    unfold step_start in E. destruct (estarted (get_ev sy e)) eqn:St.
    + inversion E; subst. unfold get_ev. rewrite set_nth_self, sys_eta. exact P.
    + unfold main_fuel in E.
      set (ev0 := mkE (eroots (get_ev sy e)) true new_state [] [] None) in *.
      assert (I0 : inv eda g (wst (sw sy)) (est ev0)) by (apply inv_empty; reflexivity).
      rewrite (main_top_eq clo eda g Hwf 2 ev0 (sw sy) [] I0 eq_refl) in E.
      assert (Q0 : q_ok (sw sy) ev0) by (split; simpl; intros ? []).
      destruct (top_result_prog ev0 (sw sy) ev' w' rs E Q0 eq_refl) as [A [St' NI]].
      apply (Keep e ev' w' L NI). split; [congruence|]. intros Hr Hs. apply (A Hr).
  - destruct (Nat.ltb e (length (sevs sy))) eqn:L; [|exact P]. apply Nat.ltb_lt in L.
    destruct (step_wait clo (get_ev sy e) (sw sy) t) as [ev' w'] eqn:E. simpl.
    unfold step_wait in E.
    destruct (eres (get_ev sy e)) eqn:Hr; [inversion E; subst; unfold get_ev; rewrite set_nth_self, sys_eta; exact P|].
    destruct (find_waiter t (ewait (get_ev sy e))) as [r|] eqn:F;
      [|inversion E; subst; unfold get_ev; rewrite set_nth_self, sys_eta; exact P].
    destruct (ge_ok (wst (sw sy) t)) eqn:G;
      [|inversion E; subst; unfold get_ev; rewrite set_nth_self, sys_eta; exact P].
    inversion E; subst. clear E.
    set (w' := if r then bookkeep clo (sw sy) t else sw sy).
    assert (NI : forall u, wst (sw sy) u <> TInit -> wst w' u <> TInit).
    { intros u Hu. subst w'. destruct r; [|exact Hu].
      destruct (bookkeep_spec clo eda Hver (sw sy) t) as [B1 B2].
      destruct (Nat.eq_dec u t) as [->|Ne]; [|rewrite B1; assumption].
      destruct B2 as [->|[_ ->]]; [exact Hu | discriminate]. }
    destruct (P _ (get_ev_In sy e L)) as [P0 P1].
    assert (St : estarted (get_ev sy e) = true).
    { destruct (estarted (get_ev sy e)) eqn:St; [reflexivity|].
      destruct (P0 eq_refl) as [_ Z]. rewrite Z in F. simpl in F. discriminate. }
    apply (Keep e _ w' L NI). split; [simpl; congruence|]. intros _ Hs.
    destruct (P1 Hr St) as [A [Q1 Q2]]. split; [exact A|]. split; simpl.
    + intros u Hu. destruct (Q1 u Hu) as [[b Hb]|Hd].
      * destruct (Nat.eq_dec u t) as [->|Ne].
        -- right. apply in_or_app. right. left. reflexivity.
        -- left. exists b. apply filter_In. split; [exact Hb|]. simpl.
           apply negb_true_iff, Nat.eqb_neq. congruence.
      * right. apply in_or_app. left. exact Hd.
    + intros p Hp. apply filter_In in Hp. apply NI, Q2, Hp.
  - destruct (Nat.ltb e (length (sevs sy))) eqn:L; [|exact P]. apply Nat.ltb_lt in L.
    destruct (step_main clo eda g (get_ev sy e) (sw sy)) as [[ev' w'] rs] eqn:E. simpl.
    unfold step_main in E.
    destruct (eres (get_ev sy e)) eqn:Hr; [inversion E; subst; unfold get_ev; rewrite set_nth_self, sys_eta; exact P|].
    destruct (edonec (get_ev sy e)) as [|t rest] eqn:Hd;
      [inversion E; subst; unfold get_ev; rewrite set_nth_self, sys_eta; exact P|].
    destruct (Hok _ (get_ev_In sy e L)) as [A [B C]].
    assert (Ht : wst (sw sy) t <> TInit) by (apply C; rewrite Hd; left; reflexivity).
    destruct (ret_spec eda g Hwf (wst (sw sy)) (est (get_ev sy e)) t A (B Hr) Ht) as [I1 [O1 P1]].
    destruct (P _ (get_ev_In sy e L)) as [P0 PP].
    assert (St : estarted (get_ev sy e) = true).
    { destruct (estarted (get_ev sy e)) eqn:St; [reflexivity|].
      destruct (P0 eq_refl) as [Z _]. rewrite Z in Hd. discriminate. }
    rewrite St in E.
    set (ev1 := mkE (eroots (get_ev sy e)) true
                    (ret eda g (wst (sw sy)) (est (get_ev sy e)) t) (ewait (get_ev sy e)) rest None) in *.
    assert (Q1 : q_ok (sw sy) ev1).
    { destruct (PP Hr St) as [_ [Q1 Q2]]. split; simpl; [|exact Q2].
      intros u Hu. rewrite P1 in Hu. apply set_rm_In in Hu. destruct Hu as [Hu Ne].
      destruct (Q1 u Hu) as [X|X]; [left; exact X|]. rewrite Hd in X. destruct X as [X|X]; [congruence | right; exact X]. }
    destruct (main_cont_prog ev1 (sw sy) ev' w' rs E I1 O1 Q1 eq_refl) as [X [St' NI]].
    apply (Keep e ev' w' L NI). split; [congruence|]. intros Hr' Hs'. apply (X Hr').
Qed.

End Prog.

(* ------------------------------------------------------------------ the theorem *)

Definition quiescent (sy : sys) : Prop := sched_wait sy = [] /\ sched_main sy = [].

Lemma flat_map_nil {A B} (f : A -> list B) l : flat_map f l = [] -> forall x, In x l -> f x = [].
Proof.
  induction l as [|a l IH]; intros H x Hx; [destruct Hx|]. simpl in H.
  apply app_eq_nil in H. destruct H as [H1 H2]. destruct Hx as [<-|Hx]; [exact H1 | apply IH; assumption].
Qed.

Lemma ge_ok_false_handed s : ge_ok s = false -> s <> TInit -> handed s.
Proof. destruct s; intros G N; try (vm_compute in G; discriminate); unfold handed; auto. congruence. Qed.

Lemma reachable_both_v clo eda (Hver : clo = true -> eda = false) g (Hwf : wf g) st0 rootss sy :
  reachable_v clo eda g (init_sys st0 rootss) sy -> sys_ok sy /\ psys_ok sy.
Proof.
  intro R. induction R as [|sy l R [IH1 IH2] Hl].
  - split; [apply init_sys_ok | apply init_psys_ok].
  - split; [apply (sf_ok _ _ _ _ _ _ _ (step_spec clo eda Hver g Hwf sy l IH1 Hl)) | apply pstep; assumption].
Qed.

(* At every quiescent point, an evaluation that has been started and has not
   returned: has nothing left to hand out (todo = {}), waits for at least one task
   (pending <> {}), has recorded no error, and every task it waits for is WAITING
   or RUNNING - with an executor or another evaluation, whose next report wakes it. *)
Theorem progress_v clo eda (Hver : clo = true -> eda = false) g st0 rootss sy :
  wf g -> reachable_v clo eda g (init_sys st0 rootss) sy -> quiescent sy ->
  forall e, e < length (sevs sy) -> estarted (get_ev sy e) = true -> eres (get_ev sy e) = None ->
    stodo (est (get_ev sy e)) = [] /\ spending (est (get_ev sy e)) <> [] /\
    serr (est (get_ev sy e)) = false /\
    forall t, In t (spending (est (get_ev sy e))) -> handed (wst (sw sy) t).
Proof.
  intros Hwf R [Qw Qm] e He Hs Hr.
  destruct (reachable_both_v clo eda Hver g Hwf st0 rootss sy R) as [Ok Pk].
  destruct (Ok _ (get_ev_In sy e He)) as [_ [T _]].
  destruct (Pk _ (get_ev_In sy e He)) as [_ P]. destruct (P Hr Hs) as [D [Q1 Q2]].
  specialize (T Hr). split; [exact T|].
  unfold sdone in D. rewrite T in D. simpl in D. apply orb_false_iff in D. destruct D as [De Dp].
  split; [intro Z; rewrite Z in Dp; discriminate|]. split; [exact De|].
  intros t Ht.
  assert (Ein : In e (seq 0 (length (sevs sy)))) by (apply in_seq; lia).
  pose proof (flat_map_nil _ _ Qm e Ein) as Dn. simpl in Dn.
  assert (Dn' : edonec (get_ev sy e) = []) by (destruct (edonec (get_ev sy e)); [reflexivity | discriminate]).
  pose proof (flat_map_nil _ _ Qw e Ein) as Wn. simpl in Wn.
  assert (Wn' : ready_waiters (get_ev sy e) (sw sy) = []) by (destruct (ready_waiters _ _); [reflexivity | discriminate]).
  destruct (Q1 t Ht) as [[r Hin]|Hd]; [|rewrite Dn' in Hd; destruct Hd].
  apply ge_ok_false_handed; [|apply (Q2 _ Hin)].
  unfold ready_waiters in Wn'. rewrite Hr in Wn'.
  destruct (ge_ok (wst (sw sy) t)) eqn:G; [|reflexivity]. exfalso.
  assert (X : In t (map fst (filter (fun p => ge_ok (wst (sw sy) (fst p))) (ewait (get_ev sy e))))).
  { apply in_map_iff. exists (t, r). split; [reflexivity|]. apply filter_In. split; [exact Hin | exact G]. }
  rewrite Wn' in X. destruct X.
Qed.

Theorem progress eda g st0 rootss sy :
  wf g -> reachable eda g (init_sys st0 rootss) sy -> quiescent sy ->
  forall e, e < length (sevs sy) -> estarted (get_ev sy e) = true -> eres (get_ev sy e) = None ->
    stodo (est (get_ev sy e)) = [] /\ spending (est (get_ev sy e)) <> [] /\
    serr (est (get_ev sy e)) = false /\
    forall t, In t (spending (est (get_ev sy e))) -> handed (wst (sw sy) t).
Proof. exact (progress_v (ver eda) eda (ver_ok eda) g st0 rootss sy). Qed.

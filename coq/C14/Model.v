(* C14 — executable model of the cluster manager of exec/slicemachine.go
   (schedule(), the heaps' orders, machineManager.Do as an event machine,
   newMachineManager's arithmetic), of the manager calls made by
   bigmachineExecutor.Run after Offer (exec/bigmachine.go) and of the local
   executor's limiter (exec/local.go).  Definitions only; proofs are in
   Sched.v / Proofs.v. *)
From Coq Require Import List ZArith Bool Arith.
Import ListNotations.
Local Open Scope Z_scope.

(* ------------------------------------------------------------------ *)
(* Requests and machines                                               *)
(* ------------------------------------------------------------------ *)

(* scheduleRequest: priority (lower = first), procs; [rid] names the Offer call *)
Record request := mkReq { rid : nat; rprio : Z; rprocs : Z }.

(* machineHealth, in declaration order *)
Inductive health := HOk | HProbation | HLost.

(* sliceMachine as far as the manager is concerned; [mfail] is lastFailure on a
   logical clock; [mid] names the machine (start order) *)
Record machine := mkMach { mid : nat; mmax : Z; mload : Z; mhealth : health; mfail : nat }.

(* maxTaskProcs - taskProcs *)
Definition free (m : machine) : Z := mmax m - mload m.

(* scheduleRequestQ.Less *)
Definition req_less (a b : request) : bool :=
  if negb (rprio a =? rprio b) then rprio a <? rprio b else rprocs b <? rprocs a.

(* machineQ.Less(i, j): q[j].max - q[j].load < q[i].max - q[i].load *)
Definition mach_less (a b : machine) : bool := free b <? free a.

(* A heap is modelled by the list of its elements; heap.Pop delivers them in an
   order sorted by Less (which of several elements with identical keys comes
   first is the heap's business: observables are compared on keys). *)
Section Sort.
  Context {A : Type} (less : A -> A -> bool).
  Fixpoint insert (x : A) (l : list A) : list A :=
    match l with
    | [] => [x]
    | y :: l' => if less x y then x :: l else y :: insert x l'
    end.
  Fixpoint isort (l : list A) : list A :=
    match l with
    | [] => []
    | x :: l' => insert x (isort l')
    end.
End Sort.

Definition sort_reqs := isort req_less.
Definition sort_machs := isort mach_less.

(* ------------------------------------------------------------------ *)
(* schedule()                                                          *)
(* ------------------------------------------------------------------ *)

Definition fits (r : request) (m : machine) : bool := rprocs r <=? free m.

(* The loop of schedule() on the pop orders [rs], [ms]; [shr]/[shm] are
   shelvedRequests/shelvedMachines.  Returns the chosen pair and the two queues
   as they are after the deferred re-push of everything shelved. *)
Fixpoint sched_loop (rs : list request) (ms : list machine)
         (shr : list request) (shm : list machine)
  : option (request * machine) * list request * list machine :=
  match rs, ms with
  | r :: rs', m :: ms' =>
      if free m =? 0 then (None, rs ++ shr, ms ++ shm)            (* freeProcs == 0: return nil, nil *)
      else if rprocs r <=? free m then (Some (r, m), rs ++ shr, ms ++ shm)
      else sched_loop rs' ms' (shr ++ [r]) (shm ++ [m])           (* shelve both *)
  | _, _ => (None, rs ++ shr, ms ++ shm)
  end.

Definition schedule (rq : list request) (mq : list machine) :=
  sched_loop (sort_reqs rq) (sort_machs mq) [] [].

Definition sched_choice rq mq : option (request * machine) := fst (fst (schedule rq mq)).
Definition sched_reqs_after rq mq : list request := snd (fst (schedule rq mq)).
Definition sched_machs_after rq mq : list machine := snd (schedule rq mq).

(* The algorithm as documented above schedule(): pair the i-th request in
   priority order with the i-th least-loaded machine (the machine is reserved
   for it), take the first pair that fits. *)
Definition spec_choice (rq : list request) (mq : list machine) : option (request * machine) :=
  find (fun p => fits (fst p) (snd p)) (combine (sort_reqs rq) (sort_machs mq)).

(* ------------------------------------------------------------------ *)
(* newMachineManager                                                    *)
(* ------------------------------------------------------------------ *)

Definition maxStartMachines : Z := 10.

(* maxLoad = num/den (den > 0, num >= 0); int(float64(maxprocs) * maxLoad) is
   modelled by truncated rational arithmetic *)
Definition raw_machprocs (maxprocs num den : Z) : Z := Z.quot (maxprocs * num) den.

Definition mgr_machprocs (maxprocs num den : Z) : Z :=
  if raw_machprocs maxprocs num den <? 1 then 1 else raw_machprocs maxprocs num den.

Definition mgr_maxp (maxprocs num den maxp : Z) : Z :=
  if raw_machprocs maxprocs num den <? 1 then Z.quot (maxp + maxprocs - 1) maxprocs else maxp.

(* ------------------------------------------------------------------ *)
(* machineManager.Do as an event machine                               *)
(* ------------------------------------------------------------------ *)

Inductive errclass := DOk | DRemote | DTransport.

(* an outstanding grant: request [grid] runs with [gprocs] procs on machine [gmid] *)
Record grant := mkGrant { grid : nat; gmid : nat; gprocs : Z }.

Record mgr := mkMgr {
  machprocs : Z;             (* m.machprocs *)
  maxp : Z;                  (* m.maxp *)
  schedQ : list request;     (* m.schedQ *)
  machs : list machine;      (* every sliceMachine ever handed to Do, by id *)
  machQ : list nat;          (* Do's machQ (ids) *)
  probQ : list nat;          (* Do's probation (ids) *)
  need : Z;
  pending : Z;
  clock : nat;               (* time.Now() as a logical clock *)
  (* bookkeeping of the environment, not present in the Go state *)
  outs : list grant;         (* grants without a Done so far *)
  inflight : list Z;         (* sizes of the startMachines batches not yet reported on startc *)
  stopped : list nat         (* machines whose stop has been delivered on stoppedc *)
}.

Definition init_mgr (mp mx : Z) : mgr := mkMgr mp mx [] [] [] [] 0 0 0 [] [] [].

Definition set_schedQ s q := mkMgr (machprocs s) (maxp s) q (machs s) (machQ s) (probQ s) (need s) (pending s) (clock s) (outs s) (inflight s) (stopped s).
Definition set_machs s x := mkMgr (machprocs s) (maxp s) (schedQ s) x (machQ s) (probQ s) (need s) (pending s) (clock s) (outs s) (inflight s) (stopped s).
Definition set_machQ s x := mkMgr (machprocs s) (maxp s) (schedQ s) (machs s) x (probQ s) (need s) (pending s) (clock s) (outs s) (inflight s) (stopped s).
Definition set_probQ s x := mkMgr (machprocs s) (maxp s) (schedQ s) (machs s) (machQ s) x (need s) (pending s) (clock s) (outs s) (inflight s) (stopped s).
Definition set_need s x := mkMgr (machprocs s) (maxp s) (schedQ s) (machs s) (machQ s) (probQ s) x (pending s) (clock s) (outs s) (inflight s) (stopped s).
Definition set_pending s x := mkMgr (machprocs s) (maxp s) (schedQ s) (machs s) (machQ s) (probQ s) (need s) x (clock s) (outs s) (inflight s) (stopped s).
Definition set_clock s x := mkMgr (machprocs s) (maxp s) (schedQ s) (machs s) (machQ s) (probQ s) (need s) (pending s) x (outs s) (inflight s) (stopped s).
Definition set_outs s x := mkMgr (machprocs s) (maxp s) (schedQ s) (machs s) (machQ s) (probQ s) (need s) (pending s) (clock s) x (inflight s) (stopped s).
Definition set_inflight s x := mkMgr (machprocs s) (maxp s) (schedQ s) (machs s) (machQ s) (probQ s) (need s) (pending s) (clock s) (outs s) x (stopped s).
Definition set_stopped s x := mkMgr (machprocs s) (maxp s) (schedQ s) (machs s) (machQ s) (probQ s) (need s) (pending s) (clock s) (outs s) (inflight s) x.

Definition set_load (m : machine) (x : Z) := mkMach (mid m) (mmax m) x (mhealth m) (mfail m).
Definition set_health (m : machine) (h : health) := mkMach (mid m) (mmax m) (mload m) h (mfail m).
Definition set_fail (m : machine) (t : nat) := mkMach (mid m) (mmax m) (mload m) (mhealth m) t.

Definition memb (i : nat) (l : list nat) : bool := existsb (Nat.eqb i) l.
(* heap.Remove of the element with this id *)
Definition remove_id (i : nat) (l : list nat) : list nat := filter (fun j => negb (Nat.eqb i j)) l.
(* assignment through the *sliceMachine pointer *)
Definition upd (i : nat) (f : machine -> machine) (l : list machine) : list machine :=
  map (fun m => if Nat.eqb (mid m) i then f m else m) l.
Definition find_mach (i : nat) (l : list machine) : option machine :=
  find (fun m => Nat.eqb (mid m) i) l.

(* the machines in machQ *)
Definition avail (s : mgr) : list machine := filter (fun m => memb (mid m) (machQ s)) (machs s).

Fixpoint extract_req (i : nat) (l : list request) : option (request * list request) :=
  match l with
  | [] => None
  | r :: l' =>
      if Nat.eqb (rid r) i then Some (r, l')
      else match extract_req i l' with
           | Some (x, l'') => Some (x, r :: l'')
           | None => None
           end
  end.

Fixpoint extract_grant (i : nat) (l : list grant) : option (grant * list grant) :=
  match l with
  | [] => None
  | g :: l' =>
      if Nat.eqb (grid g) i then Some (g, l')
      else match extract_grant i l' with
           | Some (x, l'') => Some (x, g :: l'')
           | None => None
           end
  end.

Fixpoint remove_one (n : Z) (l : list Z) : option (list Z) :=
  match l with
  | [] => None
  | x :: l' => if x =? n then Some l'
               else match remove_one n l' with Some l'' => Some (x :: l'') | None => None end
  end.

(* probation[0]: the machine whose lastFailure is oldest *)
Definition fail_of (ms : list machine) (i : nat) : nat :=
  match find_mach i ms with Some m => mfail m | None => O end.
Fixpoint min_fail (ms : list machine) (best : nat) (l : list nat) : nat :=
  match l with
  | [] => best
  | j :: l' => min_fail ms (if Nat.ltb (fail_of ms j) (fail_of ms best) then j else best) l'
  end.
Definition prob_head (s : mgr) : option nat :=
  match probQ s with [] => None | i :: l => Some (min_fail (machs s) i l) end.

Fixpoint new_machines (first : nat) (n : nat) (cap : Z) : list machine :=
  match n with
  | O => []
  | S n' => mkMach first cap 0 HOk O :: new_machines (S first) n' cap
  end.

Inductive event :=
| EOffer (r : nat) (prio procs : Z)     (* schedc: a call of Offer *)
| ECancel (r : nat)                     (* unschedc: the cancel func of request r *)
| EGrant (r : nat) (i : nat)            (* machc <- mach: request r receives machine i *)
| EDone (r : nat) (k : errclass)        (* donec: Done(procs, err) for the grant of request r *)
| EStarted (n : Z) (ok : nat)           (* startc: a batch of n reported, ok of them running *)
| EStopped (i : nat)                    (* stoppedc *)
| EProbationTimeout.                    (* probationTimer.C() *)

Definition req_key_eqb (a b : request) : bool := (rprio a =? rprio b) && (rprocs a =? rprocs b).

(* The select branch taken; None = the event cannot happen in this state. *)
Definition handle (s : mgr) (e : event) : option mgr :=
  match e with
  | EOffer r prio procs =>
      if procs <=? 0 then None                               (* Offer panics *)
      else Some (set_need (set_schedQ s (schedQ s ++ [mkReq r prio procs])) (need s + procs))
  | ECancel r =>
      match extract_req r (schedQ s) with
      | None => Some s                                       (* s.index < 0: already serviced *)
      | Some (q, rest) => Some (set_schedQ (set_need s (need s - rprocs q)) rest)
      end
  | EGrant r i =>
      match sched_choice (schedQ s) (avail s), extract_req r (schedQ s), find_mach i (avail s) with
      | Some (r0, m0), Some (q, rest), Some m =>
          if req_key_eqb q r0 && (free m =? free m0) then
            Some (set_outs
                    (set_schedQ
                       (set_machs s (upd i (fun x => set_load x (mload x + rprocs q)) (machs s)))
                       rest)
                    (outs s ++ [mkGrant r i (rprocs q)]))
          else None
      | _, _, _ => None
      end
  | EDone r k =>
      match extract_grant r (outs s) with
      | None => None
      | Some (g, rest) =>
          let i := gmid g in
          match find_mach i (machs s) with
          | None => None
          | Some m =>
              let s1 := set_outs
                          (set_machs (set_need s (need s - gprocs g))
                                     (upd i (fun x => set_load x (mload x - gprocs g)) (machs s)))
                          rest in
              Some
                (match k, mhealth m with
                 | DTransport, HOk =>
                     set_clock
                       (set_probQ
                          (set_machQ
                             (set_machs s1 (upd i (fun x => set_fail (set_health x HProbation) (clock s)) (machs s1)))
                             (remove_id i (machQ s1)))
                          (probQ s1 ++ [i]))
                       (S (clock s))
                 | DOk, HProbation =>
                     set_machQ
                       (set_probQ
                          (set_machs s1 (upd i (fun x => set_health x HOk) (machs s1)))
                          (remove_id i (probQ s1)))
                       (machQ s1 ++ [i])
                 | _, HLost => s1
                 | _, HProbation =>
                     set_clock (set_machs s1 (upd i (fun x => set_fail x (clock s)) (machs s1))) (S (clock s))
                 | _, HOk => s1
                 end)
          end
      end
  | EStarted n ok =>
      match remove_one n (inflight s) with
      | None => None
      | Some rest =>
          if Z.of_nat ok <=? n then
            let first := length (machs s) in
            Some (set_inflight
                    (set_machQ
                       (set_machs (set_pending s (pending s - machprocs s * n))
                                  (machs s ++ new_machines first ok (machprocs s)))
                       (machQ s ++ seq first ok))
                    rest)
          else None
      end
  | EStopped i =>
      match find_mach i (machs s) with
      | None => None
      | Some m =>
          if memb i (stopped s) then None
          else
            let s1 := match mhealth m with
                      | HOk => set_machQ s (remove_id i (machQ s))
                      | HProbation => set_probQ s (remove_id i (probQ s))
                      | HLost => s
                      end in
            Some (set_stopped (set_machs s1 (upd i (fun x => set_health x HLost) (machs s1)))
                              (i :: stopped s))
      end
  | EProbationTimeout =>
      match prob_head s with
      | None => None
      | Some i =>
          Some (set_machQ
                  (set_probQ (set_machs s (upd i (fun x => set_health x HOk) (machs s)))
                             (remove_id i (probQ s)))
                  (machQ s ++ [i]))
      end
  end.

(* the start decision at the bottom of Do's loop *)
Definition have (s : mgr) : Z := (Z.of_nat (length (machQ s)) + Z.of_nat (length (probQ s))) * machprocs s.

Definition start_count (s : mgr) : Z :=
  if (have s + pending s <? need s) && (have s + pending s <? maxp s) then
    let needProcs := Z.min (need s) (maxp s) - have s - pending s in
    Z.min (Z.quot (needProcs + machprocs s - 1) (machprocs s)) maxStartMachines
  else 0.

Definition start_rule (s : mgr) : mgr :=
  let n := start_count s in
  if n =? 0 then s
  else set_inflight (set_pending s (pending s + n * machprocs s)) (inflight s ++ [n]).

(* one iteration of Do's loop *)
Definition step (s : mgr) (e : event) : option mgr :=
  match handle s e with
  | Some s' => Some (start_rule s')
  | None => None
  end.

Fixpoint run (s : mgr) (es : list event) : option mgr :=
  match es with
  | [] => Some s
  | e :: es' => match step s e with Some s' => run s' es' | None => None end
  end.

(* observables *)
Definition load_of (s : mgr) (i : nat) : Z :=
  match find_mach i (machs s) with Some m => mload m | None => 0 end.
Definition out_sum (i : nat) (gs : list grant) : Z :=
  fold_right (fun g acc => (if Nat.eqb (gmid g) i then gprocs g else 0) + acc) 0 gs.
Definition req_sum (l : list request) : Z := fold_right (fun r acc => rprocs r + acc) 0 l.
Definition grant_sum (l : list grant) : Z := fold_right (fun g acc => gprocs g + acc) 0 l.
Definition zsum (l : list Z) : Z := fold_right Z.add 0 l.
Definition roundup (x m : Z) : Z := ((x + m - 1) / m) * m.

(* ------------------------------------------------------------------ *)
(* bigmachineExecutor.Run: the manager calls on every exit path     *)
(* ------------------------------------------------------------------ *)

(* procs := task.Pragma.Procs(); if Exclusive() || procs > machprocs { procs = machprocs } *)
Definition run_procs (pragma_procs : Z) (exclusive : bool) (mp : Z) : Z :=
  if exclusive || (mp <? pragma_procs) then mp else pragma_procs.

(* Pragmas.Procs: need := 1; for each q: if q.Procs() > need then need = q.Procs() *)
Definition pragmas_procs (l : list Z) : Z := fold_left (fun acc n => if acc <? n then n else acc) l 1.

Inductive run_exit :=
| XCtxBeforeGrant          (* <-ctx.Done() while waiting for the offer: cancel(); return *)
| XCompileFatal (remote : bool)  (* compile: remote error, or fatally invalid parameters: m.Done(procs, err); return *)
| XCompileLost             (* compile: any other error: m.Done(procs, err); return *)
| XNoLocation              (* a dependency has no location: m.Done(procs, nil); return *)
| XCommitFail (remote : bool)  (* g.Wait() != nil ("failed to commit combiner"): m.Done(procs, err); return *)
| XRan (k : errclass).     (* Worker.Run returned: m.Done(procs, err) *)

Inductive mgr_call := CCancel | CDone (k : errclass).

Definition run_granted (x : run_exit) : bool :=
  match x with XCtxBeforeGrant => false | _ => true end.

(* the calls Run makes on the manager / the granted machine after Offer *)
Definition run_calls (x : run_exit) : list mgr_call :=
  match x with
  | XCtxBeforeGrant => [CCancel]
  | XCompileFatal remote => [CDone (if remote then DRemote else DTransport)]
  | XCompileLost => [CDone DTransport]
  | XNoLocation => [CDone DOk]
  | XCommitFail remote => [CDone (if remote then DRemote else DTransport)]
  | XRan k => [CDone k]
  end.

(* The exit paths as they were before the fix "procs were not returned when
   committing a dependency's combiner failed": that exit returned without
   calling m.Done. Kept only as a named old model for the regression witness. *)
Definition old_run_calls (x : run_exit) : list mgr_call :=
  match x with
  | XCommitFail _ => []
  | _ => run_calls x
  end.

Definition is_done (c : mgr_call) : bool := match c with CDone _ => true | CCancel => false end.
Definition done_count (x : run_exit) : nat := length (filter is_done (run_calls x)).
Definition old_done_count (x : run_exit) : nat := length (filter is_done (old_run_calls x)).
Definition all_exits : list run_exit :=
  [XCtxBeforeGrant; XCompileFatal true; XCompileFatal false; XCompileLost; XNoLocation; XCommitFail true; XCommitFail false; XRan DOk; XRan DRemote; XRan DTransport].

(* the events a Run call contributes to the manager's history: Offer, then
   either the cancel or the grant followed by the Done calls of its exit path *)
Definition run_events (r : nat) (prio procs : Z) (i : nat) (x : run_exit) : list event :=
  EOffer r prio procs ::
  (if run_granted x then [EGrant r i] else []) ++
  map (fun c => match c with CCancel => ECancel r | CDone k => EDone r k end) (run_calls x).

Definition old_run_events (r : nat) (prio procs : Z) (i : nat) (x : run_exit) : list event :=
  EOffer r prio procs ::
  (if run_granted x then [EGrant r i] else []) ++
  map (fun c => match c with CCancel => ECancel r | CDone k => EDone r k end) (old_run_calls x).

(* ------------------------------------------------------------------ *)
(* local executor: limiter with p tokens                               *)
(* ------------------------------------------------------------------ *)

Record lstate := mkL { lavail : Z; lheld : list (nat * Z) }.   (* (task, tokens held) *)

Inductive levent :=
| LAcquire (t : nat) (exclusive : bool)   (* limiter.Acquire(ctx, n) returns nil *)
| LRelease (t : nat).                     (* deferred limiter.Release(n) *)

Definition local_n (p : Z) (exclusive : bool) : Z := if exclusive then p else 1.

Fixpoint extract_held (t : nat) (l : list (nat * Z)) : option (Z * list (nat * Z)) :=
  match l with
  | [] => None
  | (u, n) :: l' =>
      if Nat.eqb u t then Some (n, l')
      else match extract_held t l' with Some (x, l'') => Some (x, (u, n) :: l'') | None => None end
  end.

Definition lstep (p : Z) (s : lstate) (e : levent) : option lstate :=
  match e with
  | LAcquire t ex =>
      let n := local_n p ex in
      if n <=? lavail s then Some (mkL (lavail s - n) (lheld s ++ [(t, n)])) else None
  | LRelease t =>
      match extract_held t (lheld s) with
      | Some (n, rest) => Some (mkL (lavail s + n) rest)
      | None => None
      end
  end.

Fixpoint lrun (p : Z) (s : lstate) (es : list levent) : option lstate :=
  match es with
  | [] => Some s
  | e :: es' => match lstep p s e with Some s' => lrun p s' es' | None => None end
  end.

Definition linit (p : Z) : lstate := mkL p [].
Definition held_sum (l : list (nat * Z)) : Z := fold_right (fun x acc => snd x + acc) 0 l.

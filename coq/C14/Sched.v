(* C14 — theorems about schedule(): the heaps' orders, fit, restoration of the
   queues, and what "granted in priority order" means for the documented
   first-fit-decreasing-with-reservation algorithm. *)
From Coq Require Import List ZArith Bool Arith Lia Permutation Sorting.Sorted.
Import ListNotations.
Require Import BS.C14.Model.
Local Open Scope Z_scope.

(* ------------------------------------------------------------------ *)
(* insertion sort: permutation and sortedness                          *)
(* ------------------------------------------------------------------ *)
Section SortFacts.
  Context {A : Type} (less : A -> A -> bool).
  Definition le_of (a b : A) : Prop := less b a = false.
  Context (asym : forall a b, less a b = true -> less b a = false)
          (ntrans : forall a b c, less b a = false -> less c b = false -> less c a = false).

  Lemma insert_perm x l : Permutation (insert less x l) (x :: l).
  Proof.
    induction l as [|y l IH]; simpl; [reflexivity|].
    destruct (less x y); [reflexivity|].
    rewrite IH. apply perm_swap.
  Qed.

  Lemma isort_perm l : Permutation (isort less l) l.
  Proof.
    induction l as [|x l IH]; simpl; [reflexivity|].
    rewrite insert_perm. constructor. exact IH.
  Qed.

  Lemma insert_sorted x l : StronglySorted le_of l -> StronglySorted le_of (insert less x l).
  Proof.
    induction l as [|y l IH]; intro S; simpl.
    - constructor; constructor.
    - inversion S as [|? ? S' F]; subst.
      destruct (less x y) eqn:E.
      + constructor; [exact S|].
        constructor; [apply asym; exact E|].
        rewrite Forall_forall in *. intros z Hz.
        unfold le_of in *. apply ntrans with y; [apply asym; exact E | apply F; exact Hz].
      + constructor; [apply IH; exact S'|].
        eapply Permutation_Forall; [symmetry; apply insert_perm|].
        constructor; [exact E | exact F].
  Qed.

  Lemma isort_sorted l : StronglySorted le_of (isort less l).
  Proof.
    induction l as [|x l IH]; simpl; [constructor | apply insert_sorted; exact IH].
  Qed.
End SortFacts.

(* the two orders, spelled out *)
Definition req_before (a b : request) : Prop :=
  rprio a < rprio b \/ (rprio a = rprio b /\ rprocs b <= rprocs a).
Definition mach_before (a b : machine) : Prop := free b <= free a.

Lemma req_less_false a b : req_less b a = false <-> req_before a b.
Proof.
  unfold req_less, req_before.
  destruct (rprio b =? rprio a) eqn:E; simpl.
  - apply Z.eqb_eq in E. rewrite Z.ltb_ge. lia.
  - apply Z.eqb_neq in E. rewrite Z.ltb_ge. lia.
Qed.

Lemma mach_less_false a b : mach_less b a = false <-> mach_before a b.
Proof. unfold mach_less, mach_before. rewrite Z.ltb_ge. lia. Qed.

Lemma req_less_asym a b : req_less a b = true -> req_less b a = false.
Proof.
  unfold req_less.
  destruct (rprio a =? rprio b) eqn:E; destruct (rprio b =? rprio a) eqn:E'; simpl;
    rewrite ?Z.eqb_eq, ?Z.eqb_neq in *; rewrite ?Z.ltb_lt, ?Z.ltb_ge; lia.
Qed.

Lemma req_less_ntrans a b c : req_less b a = false -> req_less c b = false -> req_less c a = false.
Proof. rewrite !req_less_false. unfold req_before. lia. Qed.

Lemma mach_less_asym a b : mach_less a b = true -> mach_less b a = false.
Proof. unfold mach_less. rewrite Z.ltb_lt, Z.ltb_ge. lia. Qed.

Lemma mach_less_ntrans a b c : mach_less b a = false -> mach_less c b = false -> mach_less c a = false.
Proof. rewrite !mach_less_false. unfold mach_before. lia. Qed.

Lemma sort_reqs_perm rq : Permutation (sort_reqs rq) rq.
Proof. apply isort_perm. Qed.
Lemma sort_machs_perm mq : Permutation (sort_machs mq) mq.
Proof. apply isort_perm. Qed.

Lemma StronglySorted_impl {A} (P Q : A -> A -> Prop) l :
  (forall a b, P a b -> Q a b) -> StronglySorted P l -> StronglySorted Q l.
Proof.
  intros H S; induction S; constructor; auto.
  eapply Forall_impl; [|eassumption]. auto.
Qed.

(* requests leave the heap by (priority ascending, procs descending) *)
Lemma sort_reqs_sorted rq : StronglySorted req_before (sort_reqs rq).
Proof.
  eapply StronglySorted_impl; [|apply (isort_sorted req_less req_less_asym req_less_ntrans)].
  intros a b H. apply req_less_false. exact H.
Qed.

(* machines leave the heap by free procs descending (least loaded first) *)
Lemma sort_machs_sorted mq : StronglySorted mach_before (sort_machs mq).
Proof.
  eapply StronglySorted_impl; [|apply (isort_sorted mach_less mach_less_asym mach_less_ntrans)].
  intros a b H. apply mach_less_false. exact H.
Qed.

Lemma sorted_nth {A} (R : A -> A -> Prop) l :
  StronglySorted R l -> forall j k a b, (j < k)%nat ->
  nth_error l j = Some a -> nth_error l k = Some b -> R a b.
Proof.
  induction 1 as [|x l S IH F]; intros j k a b Hjk Ha Hb.
  - destruct j; discriminate.
  - destruct k as [|k]; [lia|]. destruct j as [|j]; simpl in *.
    + injection Ha as <-. rewrite Forall_forall in F. apply F. eapply nth_error_In; eauto.
    + apply (IH j k a b); [lia | exact Ha | exact Hb].
Qed.

(* ------------------------------------------------------------------ *)
(* the loop                                                            *)
(* ------------------------------------------------------------------ *)

Fixpoint sched_pick (rs : list request) (ms : list machine) : option (request * machine) :=
  match rs, ms with
  | r :: rs', m :: ms' =>
      if free m =? 0 then None
      else if rprocs r <=? free m then Some (r, m)
      else sched_pick rs' ms'
  | _, _ => None
  end.

Lemma sched_loop_pick rs : forall ms a b, fst (fst (sched_loop rs ms a b)) = sched_pick rs ms.
Proof.
  induction rs as [|r rs IH]; intros [|m ms] a b; simpl; try reflexivity.
  destruct (free m =? 0); [reflexivity|].
  destruct (rprocs r <=? free m); [reflexivity|]. apply IH.
Qed.

Lemma sched_loop_reqs rs : forall ms a b, Permutation (snd (fst (sched_loop rs ms a b))) (rs ++ a).
Proof.
  induction rs as [|r rs IH]; intros [|m ms] a b; simpl; try reflexivity.
  destruct (free m =? 0); [reflexivity|].
  destruct (rprocs r <=? free m); [reflexivity|].
  rewrite IH. rewrite app_assoc. rewrite <- Permutation_cons_append. reflexivity.
Qed.

Lemma sched_loop_machs rs : forall ms a b, Permutation (snd (sched_loop rs ms a b)) (ms ++ b).
Proof.
  induction rs as [|r rs IH]; intros [|m ms] a b; simpl; try reflexivity.
  destruct (free m =? 0); [reflexivity|].
  destruct (rprocs r <=? free m); [reflexivity|].
  rewrite IH. rewrite app_assoc. rewrite <- Permutation_cons_append. reflexivity.
Qed.

Lemma sched_choice_pick rq mq : sched_choice rq mq = sched_pick (sort_reqs rq) (sort_machs mq).
Proof. unfold sched_choice, schedule. apply sched_loop_pick. Qed.

(* the pair returned is the first pair (r_i, m_i) of the two pop orders in which
   the request fits; all earlier pairs do not fit *)
Lemma sched_pick_some rs : forall ms r m,
  sched_pick rs ms = Some (r, m) ->
  exists i, nth_error rs i = Some r /\ nth_error ms i = Some m /\
            rprocs r <= free m /\ free m <> 0 /\
            forall j rj mj, (j < i)%nat -> nth_error rs j = Some rj -> nth_error ms j = Some mj ->
                            free mj < rprocs rj /\ free mj <> 0.
Proof.
  induction rs as [|r0 rs IH]; intros [|m0 ms] r m H; simpl in H; try discriminate.
  destruct (free m0 =? 0) eqn:E0; [discriminate|].
  destruct (rprocs r0 <=? free m0) eqn:E1.
  - injection H as <- <-. exists O. simpl. apply Z.eqb_neq in E0. apply Z.leb_le in E1.
    split; [reflexivity|]. split; [reflexivity|]. split; [exact E1|]. split; [exact E0|].
    intros j ? ? Hj. lia.
  - apply IH in H as (i & Hr & Hm & Hf & Hz & Hprev).
    exists (S i). simpl. split; [exact Hr|]. split; [exact Hm|]. split; [exact Hf|]. split; [exact Hz|].
    intros [|j'] rj mj Hj Hrj Hmj; simpl in *.
    + injection Hrj as <-. injection Hmj as <-. apply Z.eqb_neq in E0. apply Z.leb_gt in E1. lia.
    + apply (Hprev j' rj mj); [lia | exact Hrj | exact Hmj].
Qed.

Lemma sched_pick_none rs : forall ms,
  sched_pick rs ms = None ->
  StronglySorted mach_before ms ->
  (forall m, In m ms -> 0 <= free m) -> (forall r, In r rs -> 0 < rprocs r) ->
  forall j rj mj, nth_error rs j = Some rj -> nth_error ms j = Some mj -> free mj < rprocs rj.
Proof.
  induction rs as [|r0 rs IH]; intros [|m0 ms] H S Hm Hr j rj mj Hrj Hmj;
    try (destruct j; discriminate).
  simpl in H.
  assert (Hr0 : 0 < rprocs r0) by (apply Hr; left; reflexivity).
  inversion S as [|? ? S' F]; subst.
  destruct (free m0 =? 0) eqn:E0.
  - apply Z.eqb_eq in E0.
    assert (Hpos : 0 < rprocs rj) by (apply Hr; eapply nth_error_In; eauto).
    destruct j as [|j]; simpl in *.
    + injection Hmj as <-. lia.
    + assert (In mj ms) by (eapply nth_error_In; eauto).
      rewrite Forall_forall in F. specialize (F mj H0). unfold mach_before in F. lia.
  - destruct (rprocs r0 <=? free m0) eqn:E1; [discriminate|].
    destruct j as [|j]; simpl in *.
    + injection Hrj as <-. injection Hmj as <-. apply Z.leb_gt in E1. lia.
    + apply (IH ms H S') with (j := j); [| |exact Hrj|exact Hmj]; intros; [apply Hm | apply Hr]; right; assumption.
Qed.

(* ------------------------------------------------------------------ *)
(* theorems                                                            *)
(* ------------------------------------------------------------------ *)

(* a granted request fits into the free procs of the machine it is granted,
   and both come from the queues *)
Theorem schedule_fits rq mq r m :
  sched_choice rq mq = Some (r, m) ->
  In r rq /\ In m mq /\ rprocs r <= free m /\ free m <> 0.
Proof.
  rewrite sched_choice_pick. intro H.
  apply sched_pick_some in H as (i & Hr & Hm & Hf & Hz & _).
  repeat split; auto.
  - eapply Permutation_in; [apply sort_reqs_perm|]. eapply nth_error_In; eauto.
  - eapply Permutation_in; [apply sort_machs_perm|]. eapply nth_error_In; eauto.
Qed.

(* nothing is lost from (or added to) either queue by the shelving *)
Theorem schedule_restores_queues rq mq :
  Permutation (sched_reqs_after rq mq) rq /\ Permutation (sched_machs_after rq mq) mq.
Proof.
  unfold sched_reqs_after, sched_machs_after, schedule. split.
  - rewrite sched_loop_reqs, app_nil_r. apply sort_reqs_perm.
  - rewrite sched_loop_machs, app_nil_r. apply sort_machs_perm.
Qed.

(* "granted in priority order" for first-fit-decreasing with reservation: the
   grant is the i-th request of the priority order on the i-th least-loaded
   machine, and every request ahead of it (position j < i) fits on no machine
   that is not reserved for a still-earlier request (positions k >= j) *)
Theorem schedule_priority rq mq r m :
  sched_choice rq mq = Some (r, m) ->
  exists i, nth_error (sort_reqs rq) i = Some r /\ nth_error (sort_machs mq) i = Some m /\
    forall j rj k mk, (j < i)%nat -> (j <= k)%nat ->
      nth_error (sort_reqs rq) j = Some rj -> nth_error (sort_machs mq) k = Some mk ->
      free mk < rprocs rj.
Proof.
  rewrite sched_choice_pick. intro H.
  apply sched_pick_some in H as (i & Hr & Hm & Hf & Hz & Hprev).
  exists i. repeat split; auto.
  intros j rj k mk Hji Hjk Hrj Hmk.
  assert (Hex : exists mj, nth_error (sort_machs mq) j = Some mj).
  { destruct (nth_error (sort_machs mq) j) eqn:E; [eauto|].
    apply nth_error_None in E. assert (nth_error (sort_machs mq) i <> None) by congruence.
    apply nth_error_Some in H. lia. }
  destruct Hex as (mj & Hmj).
  destruct (Hprev j rj mj Hji Hrj Hmj) as [Hlt _].
  destruct (Nat.eq_dec j k) as [->|Hne].
  - congruence.
  - assert (mach_before mj mk).
    { eapply (sorted_nth mach_before); [apply sort_machs_sorted| |exact Hmj|exact Hmk]. lia. }
    unfold mach_before in H. lia.
Qed.

(* when schedule() returns nothing, nothing could be granted by the documented
   algorithm: no request fits on any machine at or after its own position; in
   particular the highest-priority request fits on no machine at all *)
Theorem schedule_none_complete rq mq :
  (forall m, In m mq -> 0 <= free m) -> (forall r, In r rq -> 0 < rprocs r) ->
  sched_choice rq mq = None ->
  forall j rj k mk, (j <= k)%nat ->
    nth_error (sort_reqs rq) j = Some rj -> nth_error (sort_machs mq) k = Some mk ->
    free mk < rprocs rj.
Proof.
  intros Hm Hr. rewrite sched_choice_pick. intros H j rj k mk Hjk Hrj Hmk.
  assert (Hm' : forall m, In m (sort_machs mq) -> 0 <= free m).
  { intros m Hin. apply Hm. eapply Permutation_in; [apply sort_machs_perm|exact Hin]. }
  assert (Hr' : forall r, In r (sort_reqs rq) -> 0 < rprocs r).
  { intros r Hin. apply Hr. eapply Permutation_in; [apply sort_reqs_perm|exact Hin]. }
  assert (Hex : exists mj, nth_error (sort_machs mq) j = Some mj).
  { destruct (nth_error (sort_machs mq) j) eqn:E; [eauto|].
    apply nth_error_None in E. assert (nth_error (sort_machs mq) k <> None) by congruence.
    apply nth_error_Some in H0. lia. }
  destruct Hex as (mj & Hmj).
  pose proof (sched_pick_none _ _ H (sort_machs_sorted mq) Hm' Hr' j rj mj Hrj Hmj) as Hlt.
  destruct (Nat.eq_dec j k) as [->|Hne]; [congruence|].
  assert (mach_before mj mk).
  { eapply (sorted_nth mach_before); [apply sort_machs_sorted| |exact Hmj|exact Hmk]. lia. }
  unfold mach_before in H0. lia.
Qed.

Corollary schedule_none_head rq mq r0 rest :
  (forall m, In m mq -> 0 <= free m) -> (forall r, In r rq -> 0 < rprocs r) ->
  sched_choice rq mq = None -> sort_reqs rq = r0 :: rest ->
  forall m, In m mq -> free m < rprocs r0.
Proof.
  intros Hm Hr H E m Hin.
  assert (In m (sort_machs mq)) by (eapply Permutation_in; [symmetry; apply sort_machs_perm|exact Hin]).
  apply In_nth_error in H0 as (k & Hk).
  eapply (schedule_none_complete rq mq Hm Hr H 0%nat r0 k m); [lia| |exact Hk].
  rewrite E. reflexivity.
Qed.

(* the head-of-line request is granted as soon as it fits anywhere, on the
   least-loaded machine *)
Theorem schedule_head_granted rq mq r0 rest m :
  (forall r, In r rq -> 0 < rprocs r) ->
  sort_reqs rq = r0 :: rest -> In m mq -> rprocs r0 <= free m ->
  exists m0 rest', sort_machs mq = m0 :: rest' /\ sched_choice rq mq = Some (r0, m0).
Proof.
  intros Hr E Hin Hfit.
  assert (Hin' : In m (sort_machs mq)) by (eapply Permutation_in; [symmetry; apply sort_machs_perm|exact Hin]).
  destruct (sort_machs mq) as [|m0 rest'] eqn:Em; [contradiction|].
  exists m0, rest'. split; [reflexivity|].
  rewrite sched_choice_pick, E, Em. simpl.
  assert (Hpos : 0 < rprocs r0).
  { apply Hr. eapply Permutation_in; [apply sort_reqs_perm|]. rewrite E. left. reflexivity. }
  assert (Hle : free m <= free m0).
  { pose proof (sort_machs_sorted mq) as S. rewrite Em in S. inversion S as [|? ? _ F]; subst.
    destruct Hin' as [<-|Hin']; [lia|]. rewrite Forall_forall in F. apply F in Hin'. exact Hin'. }
  destruct (free m0 =? 0) eqn:E0; [apply Z.eqb_eq in E0; lia|].
  destruct (rprocs r0 <=? free m0) eqn:E1; [reflexivity|]. apply Z.leb_gt in E1. lia.
Qed.

(* the early exit on a full least-loaded machine changes nothing: schedule()
   computes the documented pairing *)
Lemma find_none_all_full rs : forall ms,
  (forall m, In m ms -> free m <= 0) -> (forall r, In r rs -> 0 < rprocs r) ->
  find (fun p => fits (fst p) (snd p)) (combine rs ms) = None.
Proof.
  induction rs as [|r rs IH]; intros [|m ms] Hm Hr; simpl; try reflexivity.
  unfold fits at 1. simpl.
  assert (free m <= 0) by (apply Hm; left; reflexivity).
  assert (0 < rprocs r) by (apply Hr; left; reflexivity).
  destruct (rprocs r <=? free m) eqn:E; [apply Z.leb_le in E; lia|].
  apply IH; intros; [apply Hm | apply Hr]; right; assumption.
Qed.

Theorem schedule_spec_equiv rq mq :
  (forall m, In m mq -> 0 <= free m) -> (forall r, In r rq -> 0 < rprocs r) ->
  sched_choice rq mq = spec_choice rq mq.
Proof.
  intros Hm Hr. rewrite sched_choice_pick. unfold spec_choice.
  assert (Hm' : forall m, In m (sort_machs mq) -> 0 <= free m).
  { intros m Hin. apply Hm. eapply Permutation_in; [apply sort_machs_perm|exact Hin]. }
  assert (Hr' : forall r, In r (sort_reqs rq) -> 0 < rprocs r).
  { intros r Hin. apply Hr. eapply Permutation_in; [apply sort_reqs_perm|exact Hin]. }
  pose proof (sort_machs_sorted mq) as S.
  revert Hm' Hr' S. generalize (sort_reqs rq) as rs, (sort_machs mq) as ms.
  induction rs as [|r rs IH]; intros [|m ms] Hm' Hr' S; simpl; try reflexivity.
  unfold fits at 1. simpl.
  inversion S as [|? ? S' F]; subst.
  destruct (free m =? 0) eqn:E0.
  - apply Z.eqb_eq in E0.
    assert (0 < rprocs r) by (apply Hr'; left; reflexivity).
    destruct (rprocs r <=? free m) eqn:E1; [apply Z.leb_le in E1; lia|].
    symmetry. apply find_none_all_full.
    + intros x Hx. rewrite Forall_forall in F. apply F in Hx. unfold mach_before in Hx. lia.
    + intros; apply Hr'; right; assumption.
  - destruct (rprocs r <=? free m); [reflexivity|].
    apply IH; auto; intros; [apply Hm' | apply Hr']; right; assumption.
Qed.

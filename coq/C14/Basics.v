(* C14 — small facts about the list helpers of Model.v used by the invariant proofs *)
From Coq Require Import List ZArith Bool Arith Lia Permutation.
Import ListNotations.
Require Import BS.C14.Model.
Local Open Scope Z_scope.

Lemma memb_In i l : memb i l = true <-> In i l.
Proof.
  unfold memb. rewrite existsb_exists. split.
  - intros (x & Hx & E). apply Nat.eqb_eq in E. subst. exact Hx.
  - intro H. exists i. split; [exact H | apply Nat.eqb_refl].
Qed.

Lemma memb_false i l : memb i l = false <-> ~ In i l.
Proof.
  rewrite <- memb_In. destruct (memb i l); split; intro H.
  - discriminate.
  - exfalso. apply H. reflexivity.
  - intro; discriminate.
  - reflexivity.
Qed.

Lemma In_remove_id j i l : In j (remove_id i l) <-> In j l /\ j <> i.
Proof.
  unfold remove_id. rewrite filter_In. split; intros [H1 H2]; split; auto.
  - intro E. subst. rewrite Nat.eqb_refl in H2. discriminate.
  - apply negb_true_iff. apply Nat.eqb_neq. auto.
Qed.

Lemma NoDup_remove_id i l : NoDup l -> NoDup (remove_id i l).
Proof. apply NoDup_filter. Qed.

Lemma NoDup_snoc {A} (l : list A) x : NoDup l -> ~ In x l -> NoDup (l ++ [x]).
Proof.
  intros H N. eapply Permutation_NoDup; [apply Permutation_cons_append|].
  constructor; assumption.
Qed.

Lemma find_mach_some i l m : find_mach i l = Some m -> In m l /\ mid m = i.
Proof.
  unfold find_mach. intro H. apply find_some in H as [H1 H2].
  apply Nat.eqb_eq in H2. auto.
Qed.

Lemma find_mach_none i l : find_mach i l = None -> forall m, In m l -> mid m <> i.
Proof.
  unfold find_mach. intros H m Hin E.
  eapply find_none in H; [|exact Hin]. simpl in H. apply Nat.eqb_neq in H. auto.
Qed.

Lemma In_avail s m : In m (avail s) <-> In m (machs s) /\ In (mid m) (machQ s).
Proof. unfold avail. rewrite filter_In, memb_In. reflexivity. Qed.

(* ---- upd ---- *)
Lemma Forall_upd (P Q : machine -> Prop) i f l :
  Forall P l ->
  (forall m, In m l -> P m -> mid m = i -> Q (f m)) ->
  (forall m, In m l -> P m -> mid m <> i -> Q m) ->
  Forall Q (upd i f l).
Proof.
  intros H H1 H2. unfold upd. rewrite Forall_forall in *. intros x Hx.
  apply in_map_iff in Hx as (m & <- & Hm).
  destruct (Nat.eqb (mid m) i) eqn:E.
  - apply Nat.eqb_eq in E. apply H1; auto.
  - apply Nat.eqb_neq in E. apply H2; auto.
Qed.

Lemma In_upd i f l x :
  In x (upd i f l) -> exists m, In m l /\ ((mid m = i /\ x = f m) \/ (mid m <> i /\ x = m)).
Proof.
  unfold upd. intro H. apply in_map_iff in H as (m & <- & Hm). exists m. split; [exact Hm|].
  destruct (Nat.eqb (mid m) i) eqn:E.
  - apply Nat.eqb_eq in E. left; auto.
  - apply Nat.eqb_neq in E. right; auto.
Qed.

Lemma map_mid_upd i f l : (forall m, mid (f m) = mid m) -> map mid (upd i f l) = map mid l.
Proof.
  intro H. unfold upd. rewrite map_map. apply map_ext. intro m.
  destruct (Nat.eqb (mid m) i); auto.
Qed.

Lemma length_upd i f l : length (upd i f l) = length l.
Proof. unfold upd. apply map_length. Qed.

Lemma exists_upd i f l j : (forall m, mid (f m) = mid m) ->
  (exists m, In m l /\ mid m = j) -> exists m, In m (upd i f l) /\ mid m = j.
Proof.
  intros Hf (m & Hm & E). unfold upd.
  exists (if Nat.eqb (mid m) i then f m else m). split.
  - apply in_map_iff. exists m. auto.
  - destruct (Nat.eqb (mid m) i); [rewrite Hf|]; exact E.
Qed.

(* ---- sums ---- *)
Lemma out_sum_app i a b : out_sum i (a ++ b) = out_sum i a + out_sum i b.
Proof. induction a as [|g a IH]; simpl; [reflexivity|]. rewrite IH. lia. Qed.
Lemma req_sum_app a b : req_sum (a ++ b) = req_sum a + req_sum b.
Proof. induction a as [|g a IH]; simpl; [reflexivity|]. rewrite IH. lia. Qed.
Lemma grant_sum_app a b : grant_sum (a ++ b) = grant_sum a + grant_sum b.
Proof. induction a as [|g a IH]; simpl; [reflexivity|]. rewrite IH. lia. Qed.
Lemma zsum_app a b : zsum (a ++ b) = zsum a + zsum b.
Proof. induction a as [|g a IH]; simpl; [reflexivity|]. rewrite IH. lia. Qed.

Lemma out_sum_nonneg i l : Forall (fun g => 0 < gprocs g) l -> 0 <= out_sum i l.
Proof.
  induction 1 as [|g l Hg _ IH]; simpl; [lia|]. destruct (Nat.eqb (gmid g) i); lia.
Qed.

Lemma out_sum_absent i l : (forall g, In g l -> gmid g <> i) -> out_sum i l = 0.
Proof.
  induction l as [|g l IH]; intro H; simpl; [reflexivity|].
  destruct (Nat.eqb (gmid g) i) eqn:E.
  - apply Nat.eqb_eq in E. exfalso. apply (H g); [left; reflexivity | exact E].
  - rewrite IH; [lia|]. intros; apply H; right; assumption.
Qed.

Lemma out_sum_in i l g : Forall (fun g => 0 < gprocs g) l -> In g l -> gmid g = i -> gprocs g <= out_sum i l.
Proof.
  induction 1 as [|x l Hx F IH]; intros Hin E; [contradiction|]. simpl.
  pose proof (out_sum_nonneg i l F).
  destruct Hin as [->|Hin].
  - rewrite E, Nat.eqb_refl. lia.
  - specialize (IH Hin E). destruct (Nat.eqb (gmid x) i); lia.
Qed.

(* ---- extraction ---- *)
Lemma extract_req_spec i l : forall r l',
  extract_req i l = Some (r, l') ->
  rid r = i /\ Permutation l (r :: l') /\ req_sum l = rprocs r + req_sum l'.
Proof.
  induction l as [|x l IH]; intros r l' H; simpl in H; [discriminate|].
  destruct (Nat.eqb (rid x) i) eqn:E.
  - injection H as <- <-. apply Nat.eqb_eq in E. simpl. repeat split; auto.
  - destruct (extract_req i l) as [[y l'']|] eqn:E'; [|discriminate].
    injection H as <- <-. destruct (IH _ _ eq_refl) as (H1 & H2 & H3).
    repeat split; auto.
    + rewrite H2. apply perm_swap.
    + simpl. lia.
Qed.

Lemma extract_req_none i l : extract_req i l = None -> forall r, In r l -> rid r <> i.
Proof.
  induction l as [|x l IH]; intros H r Hin; [contradiction|]. simpl in H.
  destruct (Nat.eqb (rid x) i) eqn:E; [discriminate|].
  destruct (extract_req i l) as [[y l'']|] eqn:E'; [discriminate|].
  destruct Hin as [<-|Hin]; [apply Nat.eqb_neq; exact E | apply IH; auto].
Qed.

Lemma extract_grant_spec i l : forall g l',
  extract_grant i l = Some (g, l') ->
  grid g = i /\ Permutation l (g :: l') /\ grant_sum l = gprocs g + grant_sum l' /\
  forall j, out_sum j l = (if Nat.eqb (gmid g) j then gprocs g else 0) + out_sum j l'.
Proof.
  induction l as [|x l IH]; intros g l' H; simpl in H; [discriminate|].
  destruct (Nat.eqb (grid x) i) eqn:E.
  - injection H as <- <-. apply Nat.eqb_eq in E. simpl. repeat split; auto.
  - destruct (extract_grant i l) as [[y l'']|] eqn:E'; [|discriminate].
    injection H as <- <-. destruct (IH _ _ eq_refl) as (H1 & H2 & H3 & H4).
    repeat split; auto.
    + rewrite H2. apply perm_swap.
    + simpl. lia.
    + intro j. simpl. rewrite H4. lia.
Qed.

Lemma extract_grant_app_fresh i l g :
  (forall x, In x l -> grid x <> i) -> grid g = i -> extract_grant i (l ++ [g]) = Some (g, l).
Proof.
  induction l as [|x l IH]; intros H E; simpl.
  - rewrite E, Nat.eqb_refl. reflexivity.
  - assert (grid x <> i) by (apply H; left; reflexivity).
    apply Nat.eqb_neq in H0. rewrite H0. rewrite IH; auto. intros; apply H; right; assumption.
Qed.

Lemma extract_req_app_fresh i l r :
  (forall x, In x l -> rid x <> i) -> rid r = i -> extract_req i (l ++ [r]) = Some (r, l).
Proof.
  induction l as [|x l IH]; intros H E; simpl.
  - rewrite E, Nat.eqb_refl. reflexivity.
  - assert (rid x <> i) by (apply H; left; reflexivity).
    apply Nat.eqb_neq in H0. rewrite H0. rewrite IH; auto. intros; apply H; right; assumption.
Qed.

Lemma remove_one_spec n l : forall l',
  remove_one n l = Some l' -> Permutation l (n :: l') /\ zsum l = n + zsum l'.
Proof.
  induction l as [|x l IH]; intros l' H; simpl in H; [discriminate|].
  destruct (x =? n) eqn:E.
  - injection H as <-. apply Z.eqb_eq in E. subst. split; [reflexivity | reflexivity].
  - destruct (remove_one n l) as [l''|] eqn:E'; [|discriminate].
    injection H as <-. destruct (IH _ eq_refl) as [H1 H2]. split.
    + rewrite H1. apply perm_swap.
    + simpl. lia.
Qed.

Lemma min_fail_in ms l : forall best, In (min_fail ms best l) (best :: l).
Proof.
  induction l as [|j l IH]; intro best; simpl; [left; reflexivity|].
  destruct (IH (if Nat.ltb (fail_of ms j) (fail_of ms best) then j else best)) as [H|H].
  - destruct (Nat.ltb (fail_of ms j) (fail_of ms best)); [right; left | left]; auto.
  - right; right; exact H.
Qed.

Lemma prob_head_in s i : prob_head s = Some i -> In i (probQ s).
Proof.
  unfold prob_head. destruct (probQ s) as [|j l]; [discriminate|].
  intro H. injection H as <-. apply min_fail_in.
Qed.

(* ---- new machines ---- *)
Lemma new_machines_mid first n cap : map mid (new_machines first n cap) = seq first n.
Proof. revert first; induction n as [|n IH]; intro first; simpl; [reflexivity|]. rewrite IH. reflexivity. Qed.

Lemma new_machines_in first n cap m :
  In m (new_machines first n cap) ->
  (first <= mid m < first + n)%nat /\ mmax m = cap /\ mload m = 0 /\ mhealth m = HOk.
Proof.
  revert first; induction n as [|n IH]; intro first; simpl; [contradiction|].
  intros [<-|H]; simpl; [repeat split; lia|].
  apply IH in H. destruct H as (H1 & H2). split; [lia | exact H2].
Qed.

Lemma mid_lt_length l m : map mid l = seq 0 (length l) -> In m l -> (mid m < length l)%nat.
Proof.
  intros H Hin. apply (in_map mid) in Hin. rewrite H in Hin. apply in_seq in Hin. lia.
Qed.

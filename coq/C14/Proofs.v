(* C14 — the manager's invariant over ALL event histories and the theorems that
   follow from it: capacity, conservation, health, exclusivity, start bound;
   the exit paths of Run; the local limiter. *)
From Coq Require Import List ZArith Bool Arith Lia Permutation.
Import ListNotations.
Require Import BS.C14.Model BS.C14.Basics BS.C14.Sched.
Local Open Scope Z_scope.

Lemma req_sum_cons r l : req_sum (r :: l) = rprocs r + req_sum l. Proof. reflexivity. Qed.
Lemma grant_sum_cons g l : grant_sum (g :: l) = gprocs g + grant_sum l. Proof. reflexivity. Qed.
Lemma out_sum_cons i g l : out_sum i (g :: l) = (if Nat.eqb (gmid g) i then gprocs g else 0) + out_sum i l.
Proof. reflexivity. Qed.
Lemma zsum_cons x l : zsum (x :: l) = x + zsum l. Proof. reflexivity. Qed.
Lemma req_sum_nil : req_sum [] = 0. Proof. reflexivity. Qed.
Lemma grant_sum_nil : grant_sum [] = 0. Proof. reflexivity. Qed.
Lemma out_sum_nil i : out_sum i [] = 0. Proof. reflexivity. Qed.
Lemma zsum_nil : zsum [] = 0. Proof. reflexivity. Qed.
Arguments req_sum : simpl never.
Arguments grant_sum : simpl never.
Arguments out_sum : simpl never.
Arguments zsum : simpl never.
Ltac sums := rewrite ?req_sum_app, ?grant_sum_app, ?out_sum_app, ?zsum_app,
                     ?req_sum_cons, ?grant_sum_cons, ?out_sum_cons, ?zsum_cons,
                     ?req_sum_nil, ?grant_sum_nil, ?out_sum_nil, ?zsum_nil.

(* ------------------------------------------------------------------ *)
(* the invariant                                                       *)
(* ------------------------------------------------------------------ *)

Definition cap_ok (mp : Z) (m : machine) : Prop := mmax m = mp /\ 0 <= mload m <= mmax m.
Definition cons_ok (gs : list grant) (m : machine) : Prop := mload m = out_sum (mid m) gs.
Definition health_ok (mq pq st : list nat) (m : machine) : Prop :=
  (In (mid m) mq <-> mhealth m = HOk) /\
  (In (mid m) pq <-> mhealth m = HProbation) /\
  (In (mid m) st <-> mhealth m = HLost).

Record Inv (s : mgr) : Prop := mkInv {
  inv_mp : 1 <= machprocs s;
  inv_cap : Forall (cap_ok (machprocs s)) (machs s);
  inv_cons : Forall (cons_ok (outs s)) (machs s);
  inv_ids : map mid (machs s) = seq 0 (length (machs s));
  inv_health : Forall (health_ok (machQ s) (probQ s) (stopped s)) (machs s);
  inv_qexist : forall i, In i (machQ s) \/ In i (probQ s) \/ In i (stopped s) -> exists m, In m (machs s) /\ mid m = i;
  inv_nodup1 : NoDup (machQ s);
  inv_nodup2 : NoDup (probQ s);
  inv_need : need s = req_sum (schedQ s) + grant_sum (outs s);
  inv_rpos : Forall (fun r => 0 < rprocs r) (schedQ s);
  inv_gpos : Forall (fun g => 0 < gprocs g) (outs s);
  inv_gmid : Forall (fun g => (gmid g < length (machs s))%nat) (outs s);
  inv_pending : pending s = machprocs s * zsum (inflight s);
  inv_ipos : Forall (fun n => 0 < n) (inflight s)
}.

Lemma inv_init mp mx : 1 <= mp -> Inv (init_mgr mp mx).
Proof.
  intro H. constructor; cbn; sums; try lia; try (now constructor); try reflexivity.
Qed.

Ltac inv_destruct H :=
  destruct H as [Hmp Hcap Hcons Hids Hh Hqe Hnd1 Hnd2 Hneed Hrpos Hgpos Hgmid Hpend Hipos].

(* two machines with the same id agree on load and capacity *)
Lemma same_id_same_load s m m' :
  Inv s -> In m (machs s) -> In m' (machs s) -> mid m = mid m' ->
  mload m = mload m' /\ mmax m = mmax m'.
Proof.
  intros I H H' E. inv_destruct I. rewrite Forall_forall in Hcap, Hcons.
  pose proof (Hcap _ H) as [? _]. pose proof (Hcap _ H') as [? _].
  pose proof (Hcons _ H). pose proof (Hcons _ H'). unfold cons_ok in *.
  split; congruence.
Qed.

(* ---------- Offer ---------- *)
Lemma inv_offer s r prio procs s' : Inv s -> handle s (EOffer r prio procs) = Some s' -> Inv s'.
Proof.
  intros I H. simpl in H. destruct (procs <=? 0) eqn:E; [discriminate|]. apply Z.leb_gt in E.
  injection H as <-. inv_destruct I. constructor; cbn; auto.
  - sums. simpl. lia.
  - apply Forall_app. split; [exact Hrpos|]. constructor; [simpl; lia | constructor].
Qed.

(* ---------- cancel ---------- *)
Lemma inv_cancel s r s' : Inv s -> handle s (ECancel r) = Some s' -> Inv s'.
Proof.
  intros I H. simpl in H.
  destruct (extract_req r (schedQ s)) as [[q rest]|] eqn:E.
  - injection H as <-. apply extract_req_spec in E as (_ & P & S).
    inv_destruct I. constructor; cbn; auto.
    + lia.
    + eapply Permutation_Forall in Hrpos; [|exact P]. inversion Hrpos; assumption.
  - injection H as <-. exact I.
Qed.

(* ---------- grant ---------- *)
Lemma grant_facts s r i s' :
  Inv s -> handle s (EGrant r i) = Some s' ->
  exists q rest m,
    extract_req r (schedQ s) = Some (q, rest) /\
    In m (machs s) /\ mid m = i /\ In i (machQ s) /\
    rprocs q <= free m /\ free m <> 0 /\ 0 < rprocs q /\
    s' = set_outs (set_schedQ (set_machs s (upd i (fun x => set_load x (mload x + rprocs q)) (machs s))) rest)
                  (outs s ++ [mkGrant r i (rprocs q)]).
Proof.
  intros I H. simpl in H.
  destruct (sched_choice (schedQ s) (avail s)) as [[r0 m0]|] eqn:Ec; [|discriminate].
  destruct (extract_req r (schedQ s)) as [[q rest]|] eqn:Eq; [|discriminate].
  destruct (find_mach i (avail s)) as [m|] eqn:Em; [|discriminate].
  destruct (req_key_eqb q r0 && (free m =? free m0)) eqn:Ek; [|discriminate].
  injection H as <-.
  apply andb_true_iff in Ek as [Ek Ef]. apply Z.eqb_eq in Ef.
  unfold req_key_eqb in Ek. apply andb_true_iff in Ek as [_ Ek]. apply Z.eqb_eq in Ek.
  apply schedule_fits in Ec as (Hr0 & Hm0 & Hfit & Hnz).
  apply find_mach_some in Em as [Hin Hmid]. apply In_avail in Hin as [Hin Hq].
  exists q, rest, m. rewrite Hmid in Hq.
  repeat split; auto; try lia.
  apply extract_req_spec in Eq as (_ & P & _). inv_destruct I.
  rewrite Forall_forall in Hrpos. apply Hrpos. eapply Permutation_in; [symmetry; exact P|]. left; reflexivity.
Qed.

Lemma inv_grant s r i s' : Inv s -> handle s (EGrant r i) = Some s' -> Inv s'.
Proof.
  intros I H. destruct (grant_facts _ _ _ _ I H) as (q & rest & m & Eq & Hin & Hmid & Hq & Hfit & Hnz & Hpos & ->).
  pose proof (same_id_same_load s) as Hsame.
  apply extract_req_spec in Eq as (_ & P & S).
  pose proof I as I0. inv_destruct I. constructor; cbn; auto.
  - (* capacity *)
    eapply Forall_upd; [exact Hcap| |]; intros x Hx [Hx1 Hx2] E; unfold cap_ok; simpl; [|auto].
    destruct (Hsame x m I0 Hx Hin) as [El Em]; [congruence|].
    unfold free in Hfit. split; [exact Hx1|]. lia.
  - (* conservation *)
    eapply Forall_upd; [exact Hcons| |]; intros x Hx Hc E; unfold cons_ok in *; simpl;
      sums; simpl.
    + rewrite <- E, Nat.eqb_refl. lia.
    + apply Nat.eqb_neq in E. rewrite Nat.eqb_sym in E. rewrite E. lia.
  - rewrite map_mid_upd, length_upd; auto.
  - eapply Forall_upd; [exact Hh| |]; intros x Hx Hc E; unfold health_ok in *; simpl; auto.
  - intros j Hj. apply exists_upd; auto.
  - sums. simpl. lia.
  - eapply Permutation_Forall in Hrpos; [|exact P]. inversion Hrpos; assumption.
  - apply Forall_app. split; [exact Hgpos|]. constructor; [simpl; lia|constructor].
  - rewrite length_upd. apply Forall_app. split; [exact Hgmid|]. constructor; [|constructor]. simpl.
    rewrite <- Hmid. apply mid_lt_length; assumption.
Qed.

(* ---------- Done ---------- *)

(* the part common to every branch of the Done case: need, taskProcs, outs *)
Definition done_base (s : mgr) (g : grant) (rest : list grant) : mgr :=
  set_outs (set_machs (set_need s (need s - gprocs g))
                      (upd (gmid g) (fun x => set_load x (mload x - gprocs g)) (machs s))) rest.

Lemma inv_done_base s r g rest :
  Inv s -> extract_grant r (outs s) = Some (g, rest) -> Inv (done_base s g rest).
Proof.
  intros I E. apply extract_grant_spec in E as (_ & P & S & O).
  inv_destruct I. unfold done_base.
  assert (Hg : 0 < gprocs g /\ Forall (fun g => 0 < gprocs g) rest).
  { eapply Permutation_Forall in Hgpos; [|exact P]. inversion Hgpos; auto. }
  destruct Hg as [Hg Hrest].
  assert (Hcons' := proj1 (Forall_forall _ _) Hcons).
  constructor; cbn; auto.
  - eapply Forall_upd; [exact Hcap| |]; intros x Hx [Hx1 Hx2] Ex; unfold cap_ok; simpl; [|auto].
    split; [exact Hx1|]. pose proof (Hcons' x Hx) as Hc. unfold cons_ok in Hc.
    rewrite O in Hc. rewrite Ex in Hc. rewrite Nat.eqb_refl in Hc.
    pose proof (out_sum_nonneg (gmid g) rest Hrest). lia.
  - eapply Forall_upd; [exact Hcons| |]; intros x Hx Hc Ex; unfold cons_ok in *; simpl; rewrite O in Hc.
    + rewrite Ex in *. rewrite Nat.eqb_refl in Hc. lia.
    + apply Nat.eqb_neq in Ex. rewrite Nat.eqb_sym in Ex. rewrite Ex in Hc. lia.
  - rewrite map_mid_upd, length_upd; auto.
  - eapply Forall_upd; [exact Hh| |]; intros x Hx Hc Ex; unfold health_ok in *; simpl; auto.
  - intros j Hj. apply exists_upd; auto.
  - lia.
  - rewrite length_upd. eapply Permutation_Forall in Hgmid; [|exact P]. inversion Hgmid; auto.
Qed.

(* changing the health of machine i together with the queues *)
Lemma inv_rehealth s s' i h' (t : machine -> nat) mq' pq' st' :
  Inv s -> (exists m, In m (machs s) /\ mid m = i) ->
  (In i mq' <-> h' = HOk) -> (In i pq' <-> h' = HProbation) -> (In i st' <-> h' = HLost) ->
  (forall j, j <> i -> (In j mq' <-> In j (machQ s)) /\ (In j pq' <-> In j (probQ s)) /\ (In j st' <-> In j (stopped s))) ->
  NoDup mq' -> NoDup pq' ->
  machprocs s' = machprocs s -> schedQ s' = schedQ s ->
  machs s' = upd i (fun x => set_fail (set_health x h') (t x)) (machs s) ->
  machQ s' = mq' -> probQ s' = pq' -> stopped s' = st' ->
  need s' = need s -> pending s' = pending s -> outs s' = outs s -> inflight s' = inflight s ->
  Inv s'.
Proof.
  intros I Hex H1 H2 H3 Hother Hn1 Hn2 E1 E2 E3 E4 E5 E6 E7 E8 E9 E10.
  inv_destruct I.
  constructor; rewrite ?E1, ?E2, ?E3, ?E4, ?E5, ?E6, ?E7, ?E8, ?E9, ?E10; auto.
  - eapply Forall_upd; [exact Hcap| |]; intros x Hx Hc Ex; unfold cap_ok in *; simpl; auto.
  - eapply Forall_upd; [exact Hcons| |]; intros x Hx Hc Ex; unfold cons_ok in *; simpl; auto.
  - rewrite map_mid_upd, length_upd; auto.
  - eapply Forall_upd; [exact Hh| |]; intros x Hx Hc Ex; unfold health_ok in *; simpl.
    + rewrite Ex. auto.
    + destruct (Hother (mid x) Ex) as (A & B & C). destruct Hc as (Hc1 & Hc2 & Hc3).
      rewrite A, B, C. auto.
  - intros j Hj. apply exists_upd; auto.
    destruct (Nat.eq_dec j i) as [->|Hne]; [exact Hex|].
    destruct (Hother j Hne) as (A & B & C). apply Hqe. rewrite <- A, <- B, <- C. exact Hj.
  - rewrite length_upd. exact Hgmid.
Qed.

Lemma health_of s m :
  Inv s -> In m (machs s) -> health_ok (machQ s) (probQ s) (stopped s) m.
Proof. intros I H. inv_destruct I. rewrite Forall_forall in Hh. auto. Qed.

Lemma inv_done s r k s' : Inv s -> handle s (EDone r k) = Some s' -> Inv s'.
Proof.
  intros I H. simpl in H.
  destruct (extract_grant r (outs s)) as [[g rest]|] eqn:Eg; [|discriminate].
  destruct (find_mach (gmid g) (machs s)) as [m|] eqn:Em; [|discriminate].
  injection H as <-.
  pose proof (inv_done_base _ _ _ _ I Eg) as I1. fold (done_base s g rest).
  apply find_mach_some in Em as [Hin Hmid].
  destruct (health_of _ _ I Hin) as (HA & HB & HC). rewrite Hmid in HA, HB, HC.
  assert (Hex : exists m1, In m1 (machs (done_base s g rest)) /\ mid m1 = gmid g).
  { cbn. apply exists_upd; eauto. }
  assert (Hn1 := inv_nodup1 _ I). assert (Hn2 := inv_nodup2 _ I).
  set (i := gmid g) in *.
  destruct k, (mhealth m) eqn:Eh; try exact I1.
  - (* ok, probation -> ok *)
    eapply (inv_rehealth _ _ i HOk mfail (machQ s ++ [i]) (remove_id i (probQ s)) (stopped s) I1 Hex);
      try reflexivity.
    + split; [reflexivity|]. intros _. apply in_or_app. right. left. reflexivity.
    + rewrite In_remove_id. split; [intros [_ N]; congruence | discriminate].
    + rewrite HC. split; discriminate.
    + intros j Hne. cbn. rewrite in_app_iff, In_remove_id. simpl. intuition congruence.
    + apply NoDup_snoc; [exact Hn1|]. rewrite HA. discriminate.
    + apply NoDup_remove_id. exact Hn2.
  - (* remote error on probation: lastFailure refreshed *)
    inv_destruct I1. constructor; cbn in *; auto.
    + eapply Forall_upd; [exact Hcap| |]; intros x Hx Hc Ex; unfold cap_ok in *; simpl; auto.
    + eapply Forall_upd; [exact Hcons| |]; intros x Hx Hc Ex; unfold cons_ok in *; simpl; auto.
    + rewrite map_mid_upd, length_upd; auto.
    + eapply Forall_upd; [exact Hh| |]; intros x Hx Hc Ex; unfold health_ok in *; simpl; auto.
    + intros j Hj. apply exists_upd; auto.
    + rewrite length_upd. exact Hgmid.
  - (* transport error on a healthy machine: probation *)
    eapply (inv_rehealth _ _ i HProbation (fun _ => clock s) (remove_id i (machQ s)) (probQ s ++ [i]) (stopped s) I1 Hex);
      try reflexivity.
    + rewrite In_remove_id. split; [intros [_ N]; congruence | discriminate].
    + split; [reflexivity|]. intros _. apply in_or_app. right. left. reflexivity.
    + rewrite HC. split; discriminate.
    + intros j Hne. cbn. rewrite in_app_iff, In_remove_id. simpl. intuition congruence.
    + apply NoDup_remove_id. exact Hn1.
    + apply NoDup_snoc; [exact Hn2|]. rewrite HB. discriminate.
  - (* transport error on probation: lastFailure refreshed *)
    inv_destruct I1. constructor; cbn in *; auto.
    + eapply Forall_upd; [exact Hcap| |]; intros x Hx Hc Ex; unfold cap_ok in *; simpl; auto.
    + eapply Forall_upd; [exact Hcons| |]; intros x Hx Hc Ex; unfold cons_ok in *; simpl; auto.
    + rewrite map_mid_upd, length_upd; auto.
    + eapply Forall_upd; [exact Hh| |]; intros x Hx Hc Ex; unfold health_ok in *; simpl; auto.
    + intros j Hj. apply exists_upd; auto.
    + rewrite length_upd. exact Hgmid.
Qed.

(* ---------- Started ---------- *)
Lemma NoDup_app_disjoint {A} (a b : list A) :
  NoDup a -> NoDup b -> (forall x, In x a -> ~ In x b) -> NoDup (a ++ b).
Proof.
  induction a as [|x a IH]; intros Ha Hb Hd; simpl; [exact Hb|].
  inversion Ha as [|? ? Hx Ha']; subst. constructor.
  - rewrite in_app_iff. intros [H|H]; [exact (Hx H) | exact (Hd x (or_introl eq_refl) H)].
  - apply IH; auto. intros y Hy. apply Hd. right. exact Hy.
Qed.

Lemma length_new_machines first n cap : length (new_machines first n cap) = n.
Proof. revert first; induction n as [|n IH]; intro first; simpl; [reflexivity|]. rewrite IH. reflexivity. Qed.

Lemma inv_started s n ok s' : Inv s -> handle s (EStarted n ok) = Some s' -> Inv s'.
Proof.
  intros I H. simpl in H.
  destruct (remove_one n (inflight s)) as [rest|] eqn:Er; [|discriminate].
  destruct (Z.of_nat ok <=? n) eqn:El; [|discriminate].
  injection H as <-. apply remove_one_spec in Er as [P Z].
  pose proof I as I0. inv_destruct I.
  assert (Hlt : forall x, In x (machs s) -> (mid x < length (machs s))%nat).
  { intros x Hx. apply mid_lt_length; assumption. }
  assert (Hfresh : forall j, In j (machQ s) \/ In j (probQ s) \/ In j (stopped s) -> (j < length (machs s))%nat).
  { intros j Hj. destruct (Hqe j Hj) as (x & Hx & <-). apply Hlt. exact Hx. }
  constructor; cbn; auto.
  - apply Forall_app. split; [exact Hcap|]. apply Forall_forall. intros x Hx.
    apply new_machines_in in Hx as (_ & H1 & H2 & _). unfold cap_ok. rewrite H1, H2. lia.
  - apply Forall_app. split; [exact Hcons|]. apply Forall_forall. intros x Hx.
    apply new_machines_in in Hx as (H0 & _ & H2 & _). unfold cons_ok. rewrite H2.
    symmetry. apply out_sum_absent. intros g Hg E. rewrite Forall_forall in Hgmid. apply Hgmid in Hg. lia.
  - rewrite map_app, app_length, new_machines_mid, length_new_machines, seq_app, Hids. reflexivity.
  - apply Forall_app. split.
    + rewrite Forall_forall in *. intros x Hx. destruct (Hh x Hx) as (A & B & C).
      unfold health_ok. rewrite in_app_iff, in_seq. split; [|split; [exact B | exact C]].
      split.
      * intros [H|H]; [apply A; exact H|]. apply Hlt in Hx. lia.
      * intro H. left. apply A. exact H.
    + apply Forall_forall. intros x Hx. apply new_machines_in in Hx as (H0 & _ & _ & H3).
      unfold health_ok. rewrite H3, in_app_iff, in_seq.
      split; [|split].
      * split; [reflexivity | intros _; right; exact H0].
      * split; [|discriminate]. intro H. pose proof (Hfresh (mid x) (or_intror (or_introl H))). lia.
      * split; [|discriminate]. intro H. pose proof (Hfresh (mid x) (or_intror (or_intror H))). lia.
  - intros j Hj. rewrite in_app_iff in Hj.
    destruct Hj as [[Hj|Hj]|Hj].
    + destruct (Hqe j (or_introl Hj)) as (x & Hx & E). exists x. split; [apply in_or_app; left; exact Hx | exact E].
    + assert (In j (map mid (new_machines (length (machs s)) ok (machprocs s)))) by (rewrite new_machines_mid; exact Hj).
      apply in_map_iff in H as (x & E & Hx). exists x. split; [apply in_or_app; right; exact Hx | exact E].
    + destruct (Hqe j (or_intror Hj)) as (x & Hx & E). exists x. split; [apply in_or_app; left; exact Hx | exact E].
  - apply NoDup_app_disjoint; [exact Hnd1 | apply seq_NoDup|].
    intros j Hj Hs. apply in_seq in Hs. pose proof (Hfresh j (or_introl Hj)). lia.
  - rewrite app_length. eapply Forall_impl; [|exact Hgmid]. simpl. intros; lia.
  - rewrite Hpend, Z. sums. nia.
  - eapply Permutation_Forall in Hipos; [|exact P]. inversion Hipos; assumption.
Qed.

(* ---------- Stopped ---------- *)
Lemma inv_stopped s i s' : Inv s -> handle s (EStopped i) = Some s' -> Inv s'.
Proof.
  intros I H. simpl in H.
  destruct (find_mach i (machs s)) as [m|] eqn:Em; [|discriminate].
  destruct (memb i (stopped s)) eqn:Es; [discriminate|]. apply memb_false in Es.
  injection H as <-. apply find_mach_some in Em as [Hin Hmid].
  destruct (health_of _ _ I Hin) as (HA & HB & HC). rewrite Hmid in HA, HB, HC.
  assert (Hex : exists m1, In m1 (machs s) /\ mid m1 = i) by eauto.
  assert (Hn1 := inv_nodup1 _ I). assert (Hn2 := inv_nodup2 _ I).
  destruct (mhealth m) eqn:Eh.
  - eapply (inv_rehealth _ _ i HLost mfail (remove_id i (machQ s)) (probQ s) (i :: stopped s) I Hex);
      try reflexivity; auto.
    + rewrite In_remove_id. split; [intros [_ N]; congruence | discriminate].
    + rewrite HB. split; discriminate.
    + split; [reflexivity | intros _; left; reflexivity].
    + intros j Hne. rewrite In_remove_id. simpl. intuition congruence.
    + apply NoDup_remove_id. exact Hn1.
  - eapply (inv_rehealth _ _ i HLost mfail (machQ s) (remove_id i (probQ s)) (i :: stopped s) I Hex);
      try reflexivity; auto.
    + rewrite HA. split; discriminate.
    + rewrite In_remove_id. split; [intros [_ N]; congruence | discriminate].
    + split; [reflexivity | intros _; left; reflexivity].
    + intros j Hne. rewrite In_remove_id. simpl. intuition congruence.
    + apply NoDup_remove_id. exact Hn2.
  - exfalso. apply Es. apply HC. reflexivity.
Qed.

(* ---------- probation timeout ---------- *)
Lemma inv_timeout s s' : Inv s -> handle s EProbationTimeout = Some s' -> Inv s'.
Proof.
  intros I H. simpl in H. destruct (prob_head s) as [i|] eqn:Ep; [|discriminate].
  injection H as <-. apply prob_head_in in Ep.
  destruct (inv_qexist _ I i (or_intror (or_introl Ep))) as (m & Hin & Hmid).
  destruct (health_of _ _ I Hin) as (HA & HB & HC). rewrite Hmid in HA, HB, HC.
  assert (Eh : mhealth m = HProbation) by (apply HB; exact Ep).
  assert (Hn1 := inv_nodup1 _ I). assert (Hn2 := inv_nodup2 _ I).
  eapply (inv_rehealth _ _ i HOk mfail (machQ s ++ [i]) (remove_id i (probQ s)) (stopped s) I);
    try reflexivity; eauto.
  - split; [reflexivity|]. intros _. apply in_or_app. right. left. reflexivity.
  - rewrite In_remove_id. split; [intros [_ N]; congruence | discriminate].
  - rewrite HC, Eh. split; discriminate.
  - intros j Hne. rewrite in_app_iff, In_remove_id. simpl. intuition congruence.
  - apply NoDup_snoc; [exact Hn1|]. rewrite HA, Eh. discriminate.
  - apply NoDup_remove_id. exact Hn2.
Qed.

Lemma inv_handle s e s' : Inv s -> handle s e = Some s' -> Inv s'.
Proof.
  destruct e.
  - apply inv_offer.
  - apply inv_cancel.
  - apply inv_grant.
  - apply inv_done.
  - apply inv_started.
  - apply inv_stopped.
  - apply inv_timeout.
Qed.

(* ---------- the start decision ---------- *)
Lemma have_mult s : exists k, 0 <= k /\ have s = machprocs s * k.
Proof.
  unfold have. exists (Z.of_nat (length (machQ s)) + Z.of_nat (length (probQ s))). split; [lia | ring].
Qed.

Lemma zsum_nonneg l : Forall (fun n => 0 < n) l -> 0 <= zsum l.
Proof. induction 1 as [|x l Hx _ IH]; sums; lia. Qed.

(* when machines are started: at least one, at most maxStartMachines, and what
   is then running or on its way does not exceed the demand capped by the
   parallelism limit, rounded up to whole machines *)
Lemma start_count_spec s :
  Inv s ->
  (start_count s = 0 /\ ~ (have s + pending s < need s /\ have s + pending s < maxp s)) \/
  (have s + pending s < Z.min (need s) (maxp s) /\
   1 <= start_count s <= maxStartMachines /\
   have s + pending s + start_count s * machprocs s <= roundup (Z.min (need s) (maxp s)) (machprocs s)).
Proof.
  intro I. unfold start_count.
  destruct ((have s + pending s <? need s) && (have s + pending s <? maxp s)) eqn:E.
  - right. apply andb_true_iff in E as [E1 E2]. apply Z.ltb_lt in E1, E2.
    pose proof (inv_mp _ I) as Hmp. pose proof (inv_pending _ I) as Hp.
    destruct (have_mult s) as (k & Hk & Hh).
    set (mp := machprocs s) in *. set (X := Z.min (need s) (maxp s)) in *.
    set (hp := have s + pending s) in *.
    assert (Hhp : hp = mp * (k + zsum (inflight s))) by (unfold hp; rewrite Hh, Hp; ring).
    set (K := k + zsum (inflight s)) in *.
    assert (HX : hp < X) by (unfold X; lia).
    replace (X - have s - pending s) with (X - hp) by (unfold hp; lia).
    rewrite Z.quot_div_nonneg by lia.
    assert (Hdiv : (X - hp + mp - 1) / mp = (X + mp - 1) / mp - K).
    { replace (X - hp + mp - 1) with ((X + mp - 1) + (- K) * mp) by (rewrite Hhp; ring).
      rewrite Z.div_add by lia. lia. }
    assert (Hge : 1 <= (X - hp + mp - 1) / mp).
    { apply Z.div_le_lower_bound; lia. }
    split; [exact HX|]. split; [unfold maxStartMachines; lia|].
    unfold roundup. fold mp.
    assert (Z.min ((X - hp + mp - 1) / mp) maxStartMachines * mp <= ((X - hp + mp - 1) / mp) * mp) by nia.
    rewrite Hdiv in H at 2. rewrite Hhp in *. nia.
  - left. split; [reflexivity|]. apply andb_false_iff in E. rewrite !Z.ltb_ge in E. lia.
Qed.

Lemma inv_start_rule s : Inv s -> Inv (start_rule s).
Proof.
  intro I. unfold start_rule. destruct (start_count s =? 0) eqn:E; [exact I|].
  apply Z.eqb_neq in E. destruct (start_count_spec s I) as [[H _]|(_ & H & _)]; [contradiction|].
  inv_destruct I. constructor; cbn; auto.
  - rewrite Hpend. sums. ring.
  - apply Forall_app. split; [exact Hipos|]. constructor; [lia|constructor].
Qed.

Theorem inv_step s e s' : Inv s -> step s e = Some s' -> Inv s'.
Proof.
  unfold step. intros I H. destruct (handle s e) as [s1|] eqn:E; [|discriminate].
  injection H as <-. apply inv_start_rule. eapply inv_handle; eauto.
Qed.

Theorem inv_run es : forall s s', Inv s -> run s es = Some s' -> Inv s'.
Proof.
  induction es as [|e es IH]; intros s s' I H; simpl in H.
  - injection H as <-. exact I.
  - destruct (step s e) as [s1|] eqn:E; [|discriminate]. eapply IH; [|exact H]. eapply inv_step; eauto.
Qed.

(* machprocs and maxp never change *)
Lemma handle_params s e s' : handle s e = Some s' -> machprocs s' = machprocs s /\ maxp s' = maxp s.
Proof.
  destruct e; simpl; intro H.
  - destruct (procs <=? 0); [discriminate|]. injection H as <-. auto.
  - destruct (extract_req r (schedQ s)) as [[? ?]|]; injection H as <-; auto.
  - destruct (sched_choice (schedQ s) (avail s)) as [[? ?]|]; [|discriminate].
    destruct (extract_req r (schedQ s)) as [[? ?]|]; [|discriminate].
    destruct (find_mach i (avail s)); [|discriminate].
    destruct (_ && _); [|discriminate]. injection H as <-. auto.
  - destruct (extract_grant r (outs s)) as [[g ?]|]; [|discriminate].
    destruct (find_mach (gmid g) (machs s)) as [m|]; [|discriminate].
    injection H as <-. destruct k, (mhealth m); auto.
  - destruct (remove_one n (inflight s)); [|discriminate].
    destruct (Z.of_nat ok <=? n); [|discriminate]. injection H as <-. auto.
  - destruct (find_mach i (machs s)) as [m|]; [|discriminate].
    destruct (memb i (stopped s)); [discriminate|]. injection H as <-. destruct (mhealth m); auto.
  - destruct (prob_head s); [|discriminate]. injection H as <-. auto.
Qed.

Lemma step_params s e s' : step s e = Some s' -> machprocs s' = machprocs s /\ maxp s' = maxp s.
Proof.
  unfold step. destruct (handle s e) as [s1|] eqn:E; [|discriminate]. intro H. injection H as <-.
  apply handle_params in E. unfold start_rule. destruct (start_count s1 =? 0); cbn; auto.
Qed.

Lemma run_params es : forall s s', run s es = Some s' -> machprocs s' = machprocs s /\ maxp s' = maxp s.
Proof.
  induction es as [|e es IH]; intros s s' H; simpl in H.
  - injection H as <-. auto.
  - destruct (step s e) as [s1|] eqn:E; [|discriminate].
    apply step_params in E as [E1 E2]. apply IH in H as [H1 H2]. split; congruence.
Qed.

(* ------------------------------------------------------------------ *)
(* theorems over all histories                                         *)
(* ------------------------------------------------------------------ *)

(* at no time does a machine carry more than its task capacity, nor less than nothing *)
Theorem capacity_inv mp mx es s :
  1 <= mp -> run (init_mgr mp mx) es = Some s ->
  forall m, In m (machs s) -> 0 <= mload m <= mmax m /\ mmax m = mp.
Proof.
  intros Hmp H m Hin.
  pose proof (inv_run es _ _ (inv_init mp mx Hmp) H) as I.
  apply run_params in H as [H1 _]. cbn in H1.
  pose proof (inv_cap _ I) as Hc. rewrite Forall_forall in Hc. destruct (Hc m Hin) as [A B].
  split; [exact B | congruence].
Qed.

(* a machine's load is exactly the procs of the grants on it that have not been
   returned, and need is the queued plus the outstanding demand *)
Theorem conservation mp mx es s :
  1 <= mp -> run (init_mgr mp mx) es = Some s ->
  (forall m, In m (machs s) -> mload m = out_sum (mid m) (outs s)) /\
  need s = req_sum (schedQ s) + grant_sum (outs s).
Proof.
  intros Hmp H. pose proof (inv_run es _ _ (inv_init mp mx Hmp) H) as I. split.
  - intros m Hin. pose proof (inv_cons _ I) as Hc. rewrite Forall_forall in Hc. apply Hc. exact Hin.
  - apply inv_need. exact I.
Qed.

(* a grant that is not returned keeps its procs occupied for ever *)
Theorem outstanding_occupies s g m :
  Inv s -> In g (outs s) -> In m (machs s) -> mid m = gmid g -> gprocs g <= mload m.
Proof.
  intros I Hg Hm E. pose proof (inv_cons _ I) as Hc. rewrite Forall_forall in Hc.
  rewrite (Hc m Hm). apply out_sum_in; auto. apply inv_gpos. exact I.
Qed.

(* Done returns the procs of one outstanding grant, once: afterwards that grant
   is no longer outstanding *)
Theorem done_returns s r k s' :
  Inv s -> handle s (EDone r k) = Some s' ->
  exists g rest, extract_grant r (outs s) = Some (g, rest) /\ outs s' = rest /\
                 need s' = need s - gprocs g /\
                 forall m', In m' (machs s') -> mid m' = gmid g -> mload m' = out_sum (gmid g) rest.
Proof.
  intros I H. pose proof (inv_done _ _ _ _ I H) as I'.
  pose proof (inv_cons _ I') as Hc. rewrite Forall_forall in Hc. unfold cons_ok in Hc.
  simpl in H.
  destruct (extract_grant r (outs s)) as [[g rest]|] eqn:Eg; [|discriminate].
  destruct (find_mach (gmid g) (machs s)) as [m|] eqn:Em; [|discriminate].
  exists g, rest. split; [reflexivity|].
  assert (E1 : outs s' = rest /\ need s' = need s - gprocs g).
  { injection H as <-. destruct k, (mhealth m); split; reflexivity. }
  destruct E1 as [E1 E2]. split; [exact E1|]. split; [exact E2|].
  intros m' Hin E. rewrite (Hc m' Hin), E, E1. reflexivity.
Qed.

Theorem done_needs_grant s r k : extract_grant r (outs s) = None -> step s (EDone r k) = None.
Proof. intro H. unfold step. simpl. rewrite H. reflexivity. Qed.

(* machines on probation or stopped receive no work: a grant goes to a machine
   in machQ, whose health is ok and whose stop has not been seen *)
Theorem no_work_on_bad_machines s r i s' :
  Inv s -> handle s (EGrant r i) = Some s' ->
  In i (machQ s) /\ ~ In i (probQ s) /\ ~ In i (stopped s) /\
  forall m, In m (machs s) -> mid m = i -> mhealth m = HOk.
Proof.
  intros I H. destruct (grant_facts _ _ _ _ I H) as (q & rest & m & _ & Hin & Hmid & Hq & _).
  assert (Hall : forall m, In m (machs s) -> mid m = i -> mhealth m = HOk).
  { intros x Hx E. destruct (health_of _ _ I Hx) as (A & _). apply A. rewrite E. exact Hq. }
  destruct (health_of _ _ I Hin) as (A & B & C). rewrite Hmid in *.
  pose proof (Hall m Hin Hmid) as Eh. rewrite Eh in *.
  repeat split; auto.
  - intro N. apply B in N. discriminate.
  - intro N. apply C in N. discriminate.
Qed.

(* every grant fits *)
Theorem grant_fits s r i s' :
  Inv s -> handle s (EGrant r i) = Some s' ->
  exists q rest, extract_req r (schedQ s) = Some (q, rest) /\
    forall m, In m (machs s) -> mid m = i -> rprocs q <= mmax m - mload m.
Proof.
  intros I H. destruct (grant_facts _ _ _ _ I H) as (q & rest & m & Eq & Hin & Hmid & _ & Hfit & _).
  exists q, rest. split; [exact Eq|]. intros x Hx E.
  destruct (same_id_same_load s x m I Hx Hin) as [A B]; [congruence|]. unfold free in Hfit. lia.
Qed.

(* a request for a whole machine (Exclusive, or Procs clamped to machprocs) is
   granted only an idle machine ... *)
Theorem exclusive_alone s r i s' :
  Inv s -> handle s (EGrant r i) = Some s' ->
  forall q rest, extract_req r (schedQ s) = Some (q, rest) -> rprocs q = machprocs s ->
  (forall m, In m (machs s) -> mid m = i -> mload m = 0) /\ out_sum i (outs s) = 0.
Proof.
  intros I H q rest Eq Ep.
  destruct (grant_fits _ _ _ _ I H) as (q' & rest' & Eq' & Hfit). rewrite Eq in Eq'. injection Eq' as <- <-.
  destruct (grant_facts _ _ _ _ I H) as (_ & _ & m & _ & Hin & Hmid & _).
  assert (Hz : forall m, In m (machs s) -> mid m = i -> mload m = 0).
  { intros x Hx E. specialize (Hfit x Hx E).
    pose proof (inv_cap _ I) as Hc. rewrite Forall_forall in Hc. destruct (Hc x Hx) as [A B]. lia. }
  split; [exact Hz|].
  pose proof (inv_cons _ I) as Hc. rewrite Forall_forall in Hc.
  rewrite <- Hmid, <- (Hc m Hin). apply Hz; auto.
Qed.

(* ... and while it is outstanding nothing else is granted on that machine *)
Theorem exclusive_blocks s g r :
  Inv s -> In g (outs s) -> gprocs g = machprocs s -> handle s (EGrant r (gmid g)) = None.
Proof.
  intros I Hg Ep. destruct (handle s (EGrant r (gmid g))) as [s'|] eqn:H; [|reflexivity]. exfalso.
  destruct (grant_facts _ _ _ _ I H) as (q & rest & m & _ & Hin & Hmid & _ & Hfit & Hnz & Hpos & _).
  pose proof (outstanding_occupies s g m I Hg Hin Hmid).
  pose proof (inv_cap _ I) as Hc. rewrite Forall_forall in Hc. destruct (Hc m Hin) as [A B].
  unfold free in *. lia.
Qed.

(* no more machines are started than demand and the parallelism limit justify *)
Theorem start_bound s e s1 :
  Inv s -> handle s e = Some s1 -> start_count s1 <> 0 ->
  let s' := start_rule s1 in
  1 <= start_count s1 <= maxStartMachines /\
  have s1 + pending s1 < Z.min (need s1) (maxp s1) /\
  have s' + pending s' <= roundup (Z.min (need s') (maxp s')) (machprocs s').
Proof.
  intros I H Hn. pose proof (inv_handle _ _ _ I H) as I1.
  destruct (start_count_spec s1 I1) as [[E _]|(A & B & C)]; [contradiction|].
  cbn zeta. split; [exact B|]. split; [exact A|].
  unfold start_rule. apply Z.eqb_neq in Hn. rewrite Hn. cbn. unfold have in *. cbn. lia.
Qed.

(* with nothing started, nothing was missing *)
Theorem start_none s : Inv s -> start_count s = 0 ->
  Z.min (need s) (maxp s) <= have s + pending s.
Proof.
  intros I E. destruct (start_count_spec s I) as [[_ H]|(_ & H & _)]; lia.
Qed.

(* ------------------------------------------------------------------ *)
(* Run's exit paths                                                    *)
(* ------------------------------------------------------------------ *)

(* what Run requests - and, being the same variable, returns - is the Procs
   pragma, never more than a whole machine, and the whole machine if exclusive *)
Theorem run_procs_clamped pragma exclusive mp :
  1 <= mp -> 1 <= pragma ->
  1 <= run_procs pragma exclusive mp <= mp /\
  (exclusive = true -> run_procs pragma exclusive mp = mp) /\
  (exclusive = false -> run_procs pragma exclusive mp = Z.min pragma mp).
Proof.
  intros H1 H2. unfold run_procs. destruct exclusive; simpl.
  - split; [lia|]. split; [reflexivity | discriminate].
  - destruct (mp <? pragma) eqn:E; [apply Z.ltb_lt in E | apply Z.ltb_ge in E];
      (split; [lia|]; split; [discriminate | intros _; lia]).
Qed.

Theorem run_returns_procs x : run_granted x = true -> done_count x = 1%nat.
Proof. destruct x as [| [|] | | | [|] | []]; intro H; try reflexivity; discriminate. Qed.

Theorem run_ungranted_cancels x : run_granted x = false -> run_calls x = [CCancel].
Proof. destruct x; intro H; try discriminate; reflexivity. Qed.

(* The old path model (before the fix): the exit after a failed combiner commit
   returned nothing, while the present model returns the procs there too. *)
Theorem old_commit_exit_leaks :
  exists x, run_granted x = true /\ old_done_count x = 0%nat /\ done_count x = 1%nat.
Proof. exists (XCommitFail true). repeat split; reflexivity. Qed.

Lemma old_commit_exit_events r prio procs i b :
  old_run_events r prio procs i (XCommitFail b) = [EOffer r prio procs; EGrant r i].
Proof. reflexivity. Qed.

(* what the old exit did: one machine with one slot, parallelism 1. The task
   whose combiner commit failed kept the slot; the next task could never be
   placed and no machine would be started for it. *)
Example old_commit_exit_starves :
  exists s, run (init_mgr 1 1)
                ([EOffer 0 0 1; EStarted 1 1] ++ tl (old_run_events 0 0 1 0 (XCommitFail true)) ++ [EOffer 1 0 1]) = Some s /\
            load_of s 0 = 1 /\ step s (EGrant 1 0) = None /\ start_count s = 0 /\ inflight s = [].
Proof. eexists. split; [vm_compute; reflexivity|]. vm_compute. auto. Qed.

(* the same history with the present exit: the slot comes back and the next task is placed *)
Example commit_exit_frees :
  exists s s', run (init_mgr 1 1)
                ([EOffer 0 0 1; EStarted 1 1] ++ tl (run_events 0 0 1 0 (XCommitFail true)) ++ [EOffer 1 0 1]) = Some s /\
            load_of s 0 = 0 /\ step s (EGrant 1 0) = Some s' /\ load_of s' 0 = 1.
Proof. eexists. eexists. split; [vm_compute; reflexivity|]. vm_compute. auto. Qed.

(* a Run, whatever its exit, leaves the manager's accounts as it found them *)
Lemma start_rule_same t :
  need (start_rule t) = need t /\ outs (start_rule t) = outs t /\ schedQ (start_rule t) = schedQ t.
Proof. unfold start_rule. destruct (start_count t =? 0); cbn; auto. Qed.

Lemma step_offer_facts s r p n s1 :
  step s (EOffer r p n) = Some s1 ->
  need s1 = need s + n /\ outs s1 = outs s /\ schedQ s1 = schedQ s ++ [mkReq r p n].
Proof.
  unfold step. simpl. destruct (n <=? 0); [discriminate|]. intro H. injection H as <-.
  destruct (start_rule_same (set_need (set_schedQ s (schedQ s ++ [mkReq r p n])) (need s + n))) as (A & B & C).
  rewrite A, B, C. cbn. auto.
Qed.

Lemma step_grant_facts s r i s2 :
  Inv s -> step s (EGrant r i) = Some s2 ->
  exists q rest, extract_req r (schedQ s) = Some (q, rest) /\
    need s2 = need s /\ outs s2 = outs s ++ [mkGrant r i (rprocs q)] /\ schedQ s2 = rest.
Proof.
  unfold step. intros I H. destruct (handle s (EGrant r i)) as [t|] eqn:E; [|discriminate].
  injection H as <-. destruct (grant_facts _ _ _ _ I E) as (q & rest & m & Eq & _ & _ & _ & _ & _ & _ & ->).
  exists q, rest. split; [exact Eq|].
  match goal with |- need (start_rule ?t) = _ /\ _ => destruct (start_rule_same t) as (A & B & C) end.
  rewrite A, B, C. cbn. auto.
Qed.

Lemma step_done_facts s r k s3 :
  Inv s -> step s (EDone r k) = Some s3 ->
  exists g rest, extract_grant r (outs s) = Some (g, rest) /\
    outs s3 = rest /\ need s3 = need s - gprocs g /\ schedQ s3 = schedQ s.
Proof.
  unfold step. intros I H. destruct (handle s (EDone r k)) as [t|] eqn:E; [|discriminate].
  injection H as <-. destruct (done_returns _ _ _ _ I E) as (g & rest & Eg & O & N & _).
  exists g, rest. split; [exact Eg|].
  destruct (start_rule_same t) as (A & B & C). rewrite A, B, C.
  split; [exact O|]. split; [exact N|].
  simpl in E. rewrite Eg in E. destruct (find_mach (gmid g) (machs s)) as [m|]; [|discriminate].
  injection E as <-. destruct k, (mhealth m); reflexivity.
Qed.

Lemma step_cancel_facts s r s2 q rest :
  extract_req r (schedQ s) = Some (q, rest) -> step s (ECancel r) = Some s2 ->
  need s2 = need s - rprocs q /\ outs s2 = outs s /\ schedQ s2 = rest.
Proof.
  unfold step. simpl. intros E H. rewrite E in H. injection H as <-.
  destruct (start_rule_same (set_schedQ (set_need s (need s - rprocs q)) rest)) as (A & B & C).
  rewrite A, B, C. cbn. auto.
Qed.

Theorem run_path_restores s r prio procs i x s' :
  Inv s -> (forall g, In g (outs s) -> grid g <> r) -> (forall q, In q (schedQ s) -> rid q <> r) ->
  run s (run_events r prio procs i x) = Some s' ->
  need s' = need s /\ outs s' = outs s /\ schedQ s' = schedQ s /\
  forall m', In m' (machs s') -> mload m' = out_sum (mid m') (outs s).
Proof.
  intros I Fg Fq H.
  pose proof (inv_run _ _ _ I H) as I'.
  assert (Hloads : outs s' = outs s -> forall m', In m' (machs s') -> mload m' = out_sum (mid m') (outs s)).
  { intros E m' Hm. pose proof (inv_cons _ I') as Hc. rewrite Forall_forall in Hc. rewrite <- E. apply Hc. exact Hm. }
  unfold run_events in H.
  destruct (run_granted x) eqn:Eg.
  - (* Offer; Grant; Done *)
    assert (Hc : exists k, run_calls x = [CDone k]).
    { destruct x as [| [|] | | | [|] | k]; try discriminate; simpl; eauto. }
    destruct Hc as (k & Hc). rewrite Hc in H. simpl in H.
    destruct (step s (EOffer r prio procs)) as [s1|] eqn:E1; [|discriminate].
    destruct (step s1 (EGrant r i)) as [s2|] eqn:E2; [|discriminate].
    destruct (step s2 (EDone r k)) as [s3|] eqn:E3; [|discriminate].
    injection H as <-.
    pose proof (inv_step _ _ _ I E1) as I1. pose proof (inv_step _ _ _ I1 E2) as I2.
    apply step_offer_facts in E1 as (N1 & O1 & Q1).
    apply (step_grant_facts _ _ _ _ I1) in E2 as (q & rest & Eq & N2 & O2 & Q2).
    rewrite Q1 in Eq. rewrite extract_req_app_fresh in Eq by auto. injection Eq as <- <-.
    apply (step_done_facts _ _ _ _ I2) in E3 as (g & rest' & Eg' & O3 & N3 & Q3).
    rewrite O2, O1 in Eg'. rewrite extract_grant_app_fresh in Eg' by auto. injection Eg' as <- <-.
    assert (Eo : outs s3 = outs s) by exact O3.
    split; [rewrite N3, N2, N1; simpl; lia|].
    split; [exact Eo|]. split; [congruence|]. apply Hloads. exact Eo.
  - (* Offer; cancel *)
    destruct x; try discriminate. simpl in H.
    destruct (step s (EOffer r prio procs)) as [s1|] eqn:E1; [|discriminate].
    destruct (step s1 (ECancel r)) as [s2|] eqn:E2; [|discriminate]. injection H as <-.
    apply step_offer_facts in E1 as (N1 & O1 & Q1).
    eapply step_cancel_facts in E2 as (N2 & O2 & Q2);
      [|rewrite Q1; apply extract_req_app_fresh; auto].
    assert (Eo : outs s2 = outs s) by congruence.
    split; [rewrite N2, N1; simpl; lia|]. split; [exact Eo|]. split; [exact Q2|]. apply Hloads. exact Eo.
Qed.

(* ------------------------------------------------------------------ *)
(* local executor                                                      *)
(* ------------------------------------------------------------------ *)

Definition LInv (p : Z) (s : lstate) : Prop :=
  lavail s + held_sum (lheld s) = p /\ 0 <= lavail s /\ Forall (fun x => 1 <= snd x) (lheld s).

Lemma held_sum_app a b : held_sum (a ++ b) = held_sum a + held_sum b.
Proof. induction a as [|x a IH]; simpl; [reflexivity|]. rewrite IH. lia. Qed.

Lemma extract_held_spec t l : forall n l',
  extract_held t l = Some (n, l') -> held_sum l = n + held_sum l' /\ (length l = S (length l')) /\
  (Forall (fun x => 1 <= snd x) l -> 1 <= n /\ Forall (fun x => 1 <= snd x) l').
Proof.
  induction l as [|[u k] l IH]; intros n l' H; simpl in H; [discriminate|].
  destruct (Nat.eqb u t).
  - injection H as <- <-. simpl. repeat split; auto; inversion H; auto.
  - destruct (extract_held t l) as [[x l'']|]; [|discriminate]. injection H as <- <-.
    destruct (IH _ _ eq_refl) as (A & B & C). simpl. split; [lia|]. split; [lia|].
    intro F. inversion F; subst. destruct (C H2) as [C1 C2]. split; [exact C1|]. constructor; auto.
Qed.

Lemma linv_step p s e s' : 1 <= p -> LInv p s -> lstep p s e = Some s' -> LInv p s'.
Proof.
  intros Hp (A & B & C) H. destruct e as [t ex|t]; simpl in H.
  - destruct (local_n p ex <=? lavail s) eqn:E; [|discriminate]. apply Z.leb_le in E.
    injection H as <-. unfold LInv. simpl. rewrite held_sum_app. simpl.
    repeat split; try lia. apply Forall_app. split; [exact C|]. constructor; [|constructor].
    simpl. unfold local_n. destruct ex; lia.
  - destruct (extract_held t (lheld s)) as [[n rest]|] eqn:E; [|discriminate].
    injection H as <-. apply extract_held_spec in E as (S & _ & F). unfold LInv. simpl.
    destruct (F C) as [Fn Fr].
    repeat split; auto; lia.
Qed.

Lemma linv_run p es : forall s s', 1 <= p -> LInv p s -> lrun p s es = Some s' -> LInv p s'.
Proof.
  induction es as [|e es IH]; intros s s' Hp I H; simpl in H.
  - injection H as <-. exact I.
  - destruct (lstep p s e) as [s1|] eqn:E; [|discriminate].
    apply (IH s1 s' Hp); [|exact H]. exact (linv_step p s e s1 Hp I E).
Qed.

Lemma held_sum_length l : Forall (fun x : nat * Z => 1 <= snd x) l -> Z.of_nat (length l) <= held_sum l.
Proof. induction 1 as [|x l Hx _ IH]; simpl length; simpl held_sum; lia. Qed.

(* at most p tasks run at once; a task holding all p tokens (an exclusive one) runs alone *)
Theorem local_limit p es s :
  1 <= p -> lrun p (linit p) es = Some s ->
  Z.of_nat (length (lheld s)) <= p /\
  forall t, In (t, p) (lheld s) -> lheld s = [(t, p)].
Proof.
  intros Hp H.
  assert (I : LInv p s).
  { eapply linv_run; [exact Hp| |exact H]. unfold LInv, linit. simpl. repeat split; try lia. constructor. }
  destruct I as (A & B & C). pose proof (held_sum_length _ C) as L. split; [lia|].
  intros t Hin. apply in_split in Hin as (l1 & l2 & E). rewrite E in *.
  rewrite held_sum_app in A. simpl in A.
  apply Forall_app in C as [C1 C2]. inversion C2 as [|? ? _ C2']; subst.
  pose proof (held_sum_length _ C1). pose proof (held_sum_length _ C2').
  assert (Hnn : forall l : list (nat * Z), 0 <= Z.of_nat (length l)) by (intros; lia).
  destruct l1 as [|y l1]; [|exfalso; simpl held_sum in *; simpl length in H0; rewrite Nat2Z.inj_succ in H0; pose proof (Hnn l1); pose proof (Hnn l2); lia].
  destruct l2 as [|y l2]; [|exfalso; simpl held_sum in *; simpl length in H1; rewrite Nat2Z.inj_succ in H1; pose proof (Hnn l2); lia].
  reflexivity.
Qed.

(* an exclusive task asks for all p tokens *)
Theorem local_exclusive_takes_all p s t s' :
  lstep p s (LAcquire t true) = Some s' -> In (t, p) (lheld s').
Proof.
  simpl. destruct (p <=? lavail s); [|discriminate]. intro H. injection H as <-. simpl.
  apply in_or_app. right. left. reflexivity.
Qed.

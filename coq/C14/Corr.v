(* C14 — correspondence drivers: evaluated by vm_compute on harness case files.
   [mismatches]: the model of Model.v against what the implementation did.
   [violations]: the property itself, judged on the OBSERVED data only (events
   injected by the driver and what the implementation was seen to do). *)
From Coq Require Import List ZArith Bool Arith.
Import ListNotations.
Require Export BS.Common.Util BS.C14.Model.
Local Open Scope Z_scope.

Notation key := (Z * Z)%type.

(* ---------- canonical orders for comparing multisets ---------- *)
Definition key_less (a b : key) : bool :=
  if negb (fst a =? fst b) then fst a <? fst b else snd a <? snd b.
Definition ksort (l : list key) : list key := isort key_less l.
Definition zsort (l : list Z) : list Z := isort Z.ltb l.
Definition key_eqb (a b : key) : bool := (fst a =? fst b) && (snd a =? snd b).
Definition keys_eqb := list_eqb key_eqb.
Definition zs_eqb := list_eqb Z.eqb.

(* ================================================================== *)
(* (i) schedule() called directly                                      *)
(* ================================================================== *)

(* requests are (priority, procs); machines are (maxTaskProcs, taskProcs) *)
Record sched_obs := mkSO {
  so_choice : option (key * key);   (* chosen (request, machine) *)
  so_reqs : list key;               (* schedQ afterwards *)
  so_machs : list key;              (* machQ afterwards *)
  so_idx : bool;                    (* every element's index field is its position *)
  so_heap : bool;                   (* both slices are heaps for their Less *)
  so_root : bool                    (* the chosen pair is still (schedQ[0], machQ[0]) after the deferred
                                       re-push; informational: Do addresses both through their index fields *)
}.

Fixpoint mk_reqs (i : nat) (l : list key) : list request :=
  match l with [] => [] | (p, n) :: l' => mkReq i p n :: mk_reqs (S i) l' end.
Fixpoint mk_machs (i : nat) (l : list key) : list machine :=
  match l with [] => [] | (mx, ld) :: l' => mkMach i mx ld HOk O :: mk_machs (S i) l' end.

Definition req_key (r : request) : key := (rprio r, rprocs r).
Definition mach_key (m : machine) : key := (mmax m, mload m).

(* observed choice against a predicted one: request on its key, machine on its free procs *)
Definition choice_agrees (o : option (key * key)) (c : option (request * machine)) : bool :=
  match o, c with
  | None, None => true
  | Some (rk, (mx, ld)), Some (r, m) => key_eqb rk (req_key r) && (mx - ld =? free m)
  | _, _ => false
  end.

Definition sched_exact (reqs machs : list key) (o : sched_obs) : bool :=
  let rq := mk_reqs 0 reqs in
  let mq := mk_machs 0 machs in
  choice_agrees (so_choice o) (sched_choice rq mq)
  && keys_eqb (ksort (so_reqs o)) (ksort (map req_key (sched_reqs_after rq mq)))
  && keys_eqb (ksort (so_machs o)) (ksort (map mach_key (sched_machs_after rq mq)))
  && so_idx o && so_heap o.

(* the property on the observed call: the grant fits, nothing is lost from the
   queues, and the decision is the documented algorithm's *)
Definition sched_ok (reqs machs : list key) (o : sched_obs) : bool :=
  keys_eqb (ksort (so_reqs o)) (ksort reqs)
  && keys_eqb (ksort (so_machs o)) (ksort machs)
  && match so_choice o with
     | Some (rk, mk) =>
         existsb (key_eqb rk) reqs && existsb (key_eqb mk) machs
         && (snd rk <=? fst mk - snd mk)
     | None => true
     end
  && choice_agrees (so_choice o) (spec_choice (mk_reqs 0 reqs) (mk_machs 0 machs)).

(* ================================================================== *)
(* (ii) live machineManager.Do in lock-step                            *)
(* ================================================================== *)

Inductive lev :=
| VOffer (r : nat) (prio procs : Z)
| VCancel (r : nat)
| VDone (r : nat) (k : errclass)
| VRelease (n : Z) (ok : nat)      (* a gated batch of n is let through; ok machines come up *)
| VKill (i : nat)
| VTimeoutAll (r : nat).           (* Do is woken by the cancel func of the no-longer-queued request r and
                                      ProbationTimeout elapses for every machine on probation *)

(* what was seen once the manager was quiescent again *)
Record lobs := mkLO {
  lo_grants : list (nat * nat);        (* (request, machine) in the order delivered *)
  lo_starts : list Z;                  (* sizes of the System.Start calls that arrived *)
  lo_machs : list (nat * (Z * nat));   (* machine -> (taskProcs, health) for machines seen so far *)
  lo_queued : list key;                (* m.schedQ *)
  lo_live : Z                          (* system.N() *)
}.

Record lcfg := mkCfg {
  c_maxprocs : Z; c_num : Z; c_den : Z; c_maxp : Z;   (* System.Maxprocs, maxLoad = num/den, maxp *)
  c_machprocs : Z; c_maxp' : Z                         (* observed m.machprocs, m.maxp *)
}.

Inductive case :=
| CSched (reqs machs : list key) (o : sched_obs)
(* the same request queue against many machine queues (exhaustive sweeps) *)
| CSchedMany (reqs : list key) (runs : list (list key * sched_obs))
| CLive (c : lcfg) (steps : list (lev * lobs)) (status : Z)    (* status 0 = ran to the end *)
(* (iii) a direct call of Run taking exit x with [procs] procs on a machine whose
   taskProcs was [before]; [after] is taskProcs once Run has returned *)
| CRun (x : run_exit) (procs machprocs before after : Z).

Definition health_code (h : health) : nat :=
  match h with HOk => 0%nat | HProbation => 1%nat | HLost => 2%nat end.

(* ---------- model side ---------- *)

(* a step of the model together with the batch it decided to start *)
Definition step_b (s : mgr) (e : event) : option (mgr * list Z) :=
  match handle s e with
  | Some s' => Some (start_rule s', if start_count s' =? 0 then [] else [start_count s'])
  | None => None
  end.

Fixpoint timeout_all (fuel : nat) (s : mgr) (acc : list Z) : option (mgr * list Z) :=
  match fuel with
  | O => Some (s, acc)
  | S f =>
      match probQ s with
      | [] => Some (s, acc)
      | _ => match step_b s EProbationTimeout with
             | Some (s', b) => timeout_all f s' (acc ++ b)
             | None => None
             end
      end
  end.

Definition model_ext (s : mgr) (e : lev) : option (mgr * list Z) :=
  match e with
  | VOffer r p n => step_b s (EOffer r p n)
  | VCancel r => step_b s (ECancel r)
  | VDone r k => step_b s (EDone r k)
  | VRelease n ok => step_b s (EStarted n ok)
  | VKill i => step_b s (EStopped i)
  | VTimeoutAll r =>
      match step_b s (ECancel r) with
      | Some (s', b) => timeout_all (S (length (probQ s'))) s' b
      | None => None
      end
  end.

Fixpoint model_grants (s : mgr) (gs : list (nat * nat)) (acc : list Z) : option (mgr * list Z) :=
  match gs with
  | [] => Some (s, acc)
  | (r, i) :: gs' =>
      match step_b s (EGrant r i) with
      | Some (s', b) => model_grants s' gs' (acc ++ b)
      | None => None
      end
  end.

Definition is_none {A} (o : option A) : bool := match o with None => true | Some _ => false end.

Definition model_agrees (s : mgr) (batches : list Z) (o : lobs) : bool :=
  is_none (sched_choice (schedQ s) (avail s))
  && zs_eqb (zsort (lo_starts o)) (zsort batches)
  && forallb (fun x => match find_mach (fst x) (machs s) with
                       | Some m => (mload m =? fst (snd x)) && Nat.eqb (health_code (mhealth m)) (snd (snd x))
                       | None => false
                       end) (lo_machs o)
  && keys_eqb (ksort (lo_queued o)) (ksort (map req_key (schedQ s)))
  && (lo_live o =? Z.of_nat (length (machs s)) - Z.of_nat (length (stopped s))).

Fixpoint live_exact (s : mgr) (steps : list (lev * lobs)) : bool :=
  match steps with
  | [] => true
  | (e, o) :: rest =>
      match model_ext s e with
      | None => false
      | Some (s1, b1) =>
          match model_grants s1 (lo_grants o) b1 with
          | None => false
          | Some (s2, b2) => model_agrees s2 b2 o && live_exact s2 rest
          end
      end
  end.

Definition cfg_exact (c : lcfg) : bool :=
  (mgr_machprocs (c_maxprocs c) (c_num c) (c_den c) =? c_machprocs c)
  && (mgr_maxp (c_maxprocs c) (c_num c) (c_den c) (c_maxp c) =? c_maxp' c).

(* ---------- property side: a bookkeeping of the observed history only ---------- *)

Record spec_st := mkSp {
  sp_queued : list request;   (* offered, neither granted nor cancelled *)
  sp_outs : list grant;       (* granted, not yet returned *)
  sp_nmach : nat;             (* machines that came up *)
  sp_killed : list nat;
  sp_prob : list nat;         (* on probation: transport error seen, no success/timeout since *)
  sp_waiting : list Z         (* Start calls not yet let through *)
}.

(* task capacity of a machine: the max-load share of its procs, at least one;
   parallelism limit counted in machines when a machine offers a single slot *)
Definition spec_cap (c : lcfg) : Z := Z.max 1 (c_maxprocs c * c_num c / c_den c).
Definition spec_maxp (c : lcfg) : Z :=
  if c_maxprocs c * c_num c / c_den c <? 1 then (c_maxp c + c_maxprocs c - 1) / c_maxprocs c else c_maxp c.

Definition sp_event (st : spec_st) (e : lev) : spec_st :=
  match e with
  | VOffer r p n => mkSp (sp_queued st ++ [mkReq r p n]) (sp_outs st) (sp_nmach st) (sp_killed st) (sp_prob st) (sp_waiting st)
  | VCancel r =>
      match extract_req r (sp_queued st) with
      | Some (_, rest) => mkSp rest (sp_outs st) (sp_nmach st) (sp_killed st) (sp_prob st) (sp_waiting st)
      | None => st
      end
  | VDone r k =>
      match extract_grant r (sp_outs st) with
      | Some (g, rest) =>
          let i := gmid g in
          let prob :=
              if memb i (sp_killed st) then sp_prob st
              else match k with
                   | DTransport => if memb i (sp_prob st) then sp_prob st else sp_prob st ++ [i]
                   | DOk => remove_id i (sp_prob st)
                   | DRemote => sp_prob st
                   end in
          mkSp (sp_queued st) rest (sp_nmach st) (sp_killed st) prob (sp_waiting st)
      | None => st
      end
  | VRelease n ok =>
      mkSp (sp_queued st) (sp_outs st) (sp_nmach st + ok) (sp_killed st) (sp_prob st)
           (match remove_one n (sp_waiting st) with Some l => l | None => sp_waiting st end)
  | VKill i => mkSp (sp_queued st) (sp_outs st) (sp_nmach st) (i :: sp_killed st) (remove_id i (sp_prob st)) (sp_waiting st)
  | VTimeoutAll r =>
      mkSp (match extract_req r (sp_queued st) with Some (_, rest) => rest | None => sp_queued st end)
           (sp_outs st) (sp_nmach st) (sp_killed st) [] (sp_waiting st)
  end.

(* each delivery: of a queued request, onto a running machine that is not on
   probation, within the machine's capacity (hence alone if it takes it all) *)
Fixpoint sp_grants (cap : Z) (st : spec_st) (gs : list (nat * nat)) : bool * spec_st :=
  match gs with
  | [] => (true, st)
  | (r, i) :: gs' =>
      match extract_req r (sp_queued st) with
      | None => (false, st)
      | Some (q, rest) =>
          let ok := Nat.ltb i (sp_nmach st) && negb (memb i (sp_killed st)) && negb (memb i (sp_prob st))
                    && (out_sum i (sp_outs st) + rprocs q <=? cap) in
          let st' := mkSp rest (sp_outs st ++ [mkGrant r i (rprocs q)]) (sp_nmach st) (sp_killed st) (sp_prob st) (sp_waiting st) in
          let '(b, st'') := sp_grants cap st' gs' in
          (ok && b, st'')
      end
  end.

Definition sp_available (cap : Z) (st : spec_st) : list machine :=
  map (fun i => mkMach i cap (out_sum i (sp_outs st)) HOk O)
      (filter (fun i => negb (memb i (sp_killed st)) && negb (memb i (sp_prob st))) (seq 0 (sp_nmach st))).

Definition sp_end_ok (c : lcfg) (st : spec_st) (o : lobs) : bool * spec_st :=
  let cap := spec_cap c in
  let st' := mkSp (sp_queued st) (sp_outs st) (sp_nmach st) (sp_killed st) (sp_prob st) (sp_waiting st ++ lo_starts o) in
  let loads_ok := forallb (fun x => let ld := fst (snd x) in
                                    (ld =? out_sum (fst x) (sp_outs st)) && (0 <=? ld) && (ld <=? cap)) (lo_machs o) in
  let nothing_left := is_none (spec_choice (sp_queued st) (sp_available cap st)) in
  let queue_ok := keys_eqb (ksort (lo_queued o)) (ksort (map req_key (sp_queued st))) in
  let starts_ok :=
      match lo_starts o with
      | [] => true
      | _ => let hv := (Z.of_nat (sp_nmach st) - Z.of_nat (length (sp_killed st))) * cap in
             let pd := zsum (sp_waiting st') * cap in
             let nd := req_sum (sp_queued st) + grant_sum (sp_outs st) in
             hv + pd <=? roundup (Z.min nd (spec_maxp c)) cap
      end in
  (loads_ok && nothing_left && queue_ok && starts_ok, st').

Fixpoint live_ok (c : lcfg) (st : spec_st) (steps : list (lev * lobs)) : bool :=
  match steps with
  | [] => true
  | (e, o) :: rest =>
      let st1 := sp_event st e in
      let '(b1, st2) := sp_grants (spec_cap c) st1 (lo_grants o) in
      let '(b2, st3) := sp_end_ok c st2 o in
      b1 && b2 && live_ok c st3 rest
  end.

Definition sp_init : spec_st := mkSp [] [] 0 [] [] [].

(* ================================================================== *)
(* (iii) Run's exits                                                   *)
(* ================================================================== *)

(* the path model: what stays on the machine is what no Done call returned *)
Definition run_exact (x : run_exit) (procs mp before after : Z) : bool :=
  run_granted x && (0 <? procs) && (procs <=? mp)
  && (after - before =? procs * (1 - Z.of_nat (done_count x))).

(* every proc handed out is returned, exactly once, when the task ends, and the
   machine's load stays within 0 .. maxTaskProcs *)
Definition run_ok (mp before after : Z) : bool :=
  (after =? before) && (0 <=? after) && (after <=? mp).

(* ---------- verdicts ---------- *)

Definition case_exact (c : case) : bool :=
  match c with
  | CSched reqs machs o => sched_exact reqs machs o
  | CSchedMany reqs runs => forallb (fun x => sched_exact reqs (fst x) (snd x)) runs
  | CLive cfg steps status =>
      (status =? 0) && cfg_exact cfg && live_exact (init_mgr (mgr_machprocs (c_maxprocs cfg) (c_num cfg) (c_den cfg))
                                        (mgr_maxp (c_maxprocs cfg) (c_num cfg) (c_den cfg) (c_maxp cfg))) steps
  | CRun x procs mp before after => run_exact x procs mp before after
  end.

Definition case_ok (c : case) : bool :=
  match c with
  | CSched reqs machs o => sched_ok reqs machs o
  | CSchedMany reqs runs => forallb (fun x => sched_ok reqs (fst x) (snd x)) runs
  | CLive cfg steps status =>
      (status =? 0) && (c_machprocs cfg =? spec_cap cfg) && live_ok cfg sp_init steps
  | CRun x procs mp before after => run_ok mp before after
  end.

Definition mismatches (cs : list case) : list nat := bad_indices case_exact cs.
Definition violations (cs : list case) : list nat := bad_indices case_ok cs.

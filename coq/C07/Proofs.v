(* C07 — theorems about the encoder/reader pair for ANY token codec (gob is
   abstracted by the section hypotheses), any custom column codec whose Decode
   inverts its Encode, any configuration [cf] of the two proposed fixes. *)
From Coq Require Import List ZArith NArith Arith Bool Lia.
Import ListNotations.
Require Import BS.Common.Util BS.C07.Model BS.C07.Script BS.C07.CrcProofs BS.C07.Lists
               BS.C07.Sim BS.C07.Batch BS.C07.Stream.

Section Codec.
Variable St : Type.
Variable enc_tok : St -> token -> list N * St.
Variable dec_tok : St -> list N -> dres St.
Variable Sess : Type.
Variable cenc : Sess -> list Z -> list Z * Sess.
Variable cdec : Sess -> list Z -> list Z * Sess.
Variable cf : cfg.

(* the token codec is injective and self-delimiting: a token followed by anything decodes
   to that token, consuming exactly its bytes, and both sides move to the same state *)
Hypothesis H_dec_enc : forall s t rest,
  dec_tok s (fst (enc_tok s t) ++ rest) = DOk t (length (fst (enc_tok s t))) (snd (enc_tok s t)).
(* gob's failure outcomes on a short input *)
Hypothesis H_dec_nil : forall s, dec_tok s [] = DIoEOF.
Hypothesis H_dec_trunc : forall s t p q,
  fst (enc_tok s t) = p ++ q -> p <> [] -> q <> [] -> dec_tok s p = DUnexpectedEOF.
(* the custom column codec decodes what it encoded, both session states in step *)
Hypothesis H_codec : forall s v, cdec s (fst (cenc s v)) = (v, snd (cenc s v)).

Variable sch : list kind.

Notation W := (wstate St Sess).
Notation EMIT := (emit St enc_tok Sess).
Notation WRITE := (enc_write St enc_tok Sess cenc sch).
Notation READS := (reads St dec_tok Sess cdec cf sch).
Notation describes := (describes St dec_tok).

(* ---------------------------------------------------------------- tokens to bytes *)
Fixpoint script_of (st : St) (ts : list token) : list (token * nat) :=
  match ts with
  | [] => []
  | t :: r => (t, length (fst (enc_tok st t))) :: script_of (snd (enc_tok st t)) r
  end.
Fixpoint bytes_of (st : St) (ts : list token) : list N :=
  match ts with
  | [] => []
  | t :: r => fst (enc_tok st t) ++ bytes_of (snd (enc_tok st t)) r
  end.
Fixpoint st_after (st : St) (ts : list token) : St :=
  match ts with
  | [] => st
  | t :: r => st_after (snd (enc_tok st t)) r
  end.

Lemma emit_all ts : forall (w : W),
  fold_left EMIT ts w
  = mkW (wout w ++ bytes_of (wst w) ts) (st_after (wst w) ts) (wsess w)
        (crc_update (wcrc w) (bytes_of (wst w) ts)).
Proof.
  induction ts as [|t r IH]; intro w; simpl.
  - rewrite app_nil_r. unfold crc_update; simpl. rewrite lxor_mask_invol. destruct w; reflexivity.
  - rewrite IH. unfold emit. destruct (enc_tok (wst w) t) as [bs st'] eqn:E. simpl.
    rewrite <- app_assoc, crc_update_app. reflexivity.
Qed.

Lemma script_of_fst st ts : map fst (script_of st ts) = ts.
Proof. revert st; induction ts as [|t r IH]; intro st; simpl; [reflexivity|]. rewrite IH. reflexivity. Qed.

Lemma script_of_used st ts : used_of (script_of st ts) = length (bytes_of st ts).
Proof.
  revert st; induction ts as [|t r IH]; intro st; simpl; [reflexivity|].
  rewrite app_length. unfold used_of in *. simpl. rewrite IH. reflexivity.
Qed.

Lemma script_of_app st a b : script_of st (a ++ b) = script_of st a ++ script_of (st_after st a) b.
Proof. revert st; induction a as [|t r IH]; intro st; simpl; [reflexivity|]. rewrite IH. reflexivity. Qed.
Lemma bytes_of_app st a b : bytes_of st (a ++ b) = bytes_of st a ++ bytes_of (st_after st a) b.
Proof. revert st; induction a as [|t r IH]; intro st; simpl; [reflexivity|]. rewrite IH, app_assoc. reflexivity. Qed.
Lemma st_after_app st a b : st_after st (a ++ b) = st_after (st_after st a) b.
Proof. revert st; induction a as [|t r IH]; intro st; simpl; [reflexivity|]. apply IH. Qed.

Lemma script_of_firstn st ts i : firstn i (script_of st ts) = script_of st (firstn i ts).
Proof.
  revert st i; induction ts as [|t r IH]; intros st [|i]; simpl; try reflexivity. rewrite IH. reflexivity.
Qed.

Lemma script_of_length st ts : length (script_of st ts) = length ts.
Proof. rewrite <- (map_length fst), script_of_fst. reflexivity. Qed.

Lemma describes_toks ts : forall st tail tsc term,
  describes (st_after st ts) tail (tsc, term) ->
  describes st (bytes_of st ts ++ tail) (script_of st ts ++ tsc, term).
Proof.
  induction ts as [|t r IH]; intros st tail tsc term H; simpl; [exact H|].
  rewrite <- app_assoc. eapply desc_ok; [apply H_dec_enc|].
  rewrite skipn_app_exact by reflexivity. apply IH. exact H.
Qed.

(* ---------------------------------------------------------------- one Write *)
Definition bt (w : W) (f : list (list (list Z))) : list token := batch_toks Sess cenc (wsess w) sch f.
Definition bX (w : W) f : list N := bytes_of (wst w) (bt w f).                  (* the bytes the checksum covers *)
Definition bc (w : W) f : N := crc_update 0 (bX w f).
Definition bY (w : W) f : list N := fst (enc_tok (st_after (wst w) (bt w f)) (TCrc (bc w f))).  (* the checksum token *)

Lemma write_spec (w : W) f :
  WRITE w f = mkW (wout w ++ bX w f ++ bY w f)
                  (snd (enc_tok (st_after (wst w) (bt w f)) (TCrc (bc w f))))
                  (cols_sess Sess cenc (wsess w) sch f)
                  (crc_update (bc w f) (bY w f)).
Proof.
  unfold enc_write. rewrite emit_all. cbn [wout wst wsess wcrc]. unfold emit. cbn [wout wst wsess wcrc].
  fold (bt w f). fold (bX w f). fold (bc w f).
  destruct (enc_tok (st_after (wst w) (bt w f)) (TCrc (bc w f))) as [bs st'] eqn:E.
  unfold bY. rewrite E. simpl. rewrite <- app_assoc. reflexivity.
Qed.

(* the script entries of one batch *)
Lemma batch_script (w : W) f :
  script_of (wst w) (bt w f ++ [TCrc (bc w f)])
  = batch_entries f (length (fst (enc_tok (wst w) (TLen (Z.of_nat (flen f))))))
                  (script_of (snd (enc_tok (wst w) (TLen (Z.of_nat (flen f))))) (cols_toks Sess cenc (wsess w) sch f))
                  (bc w f) (length (bY w f)).
Proof.
  unfold batch_entries, bt, batch_toks. simpl. f_equal. rewrite script_of_app. simpl. reflexivity.
Qed.

(* ---------------------------------------------------------------- a run of Writes *)
Lemma writes_good bs : forall (w : W),
  exists sc bytes,
    wout (fold_left WRITE bs w) = wout w ++ bytes
    /\ (forall tail, good Sess cenc sch (wsess w) bs sc (bytes ++ tail) tail (wsess (fold_left WRITE bs w)))
    /\ (forall tail tsc term, describes (wst (fold_left WRITE bs w)) tail (tsc, term) ->
                              describes (wst w) (bytes ++ tail) (sc ++ tsc, term)).
Proof.
  induction bs as [|f bs IH]; intro w; simpl.
  - exists [], []. repeat split.
    + rewrite app_nil_r. reflexivity.
    + intro tail. constructor.
    + intros tail tsc term H. exact H.
  - destruct (IH (WRITE w f)) as (sc' & bytes' & Hout & Hgood & Hdesc).
    set (u0 := length (fst (enc_tok (wst w) (TLen (Z.of_nat (flen f)))))).
    set (es := script_of (snd (enc_tok (wst w) (TLen (Z.of_nat (flen f))))) (cols_toks Sess cenc (wsess w) sch f)).
    exists (batch_entries f u0 es (bc w f) (length (bY w f)) ++ sc'), (bX w f ++ bY w f ++ bytes').
    assert (Hused0 : used_of ((TLen (Z.of_nat (flen f)), u0) :: es) = length (bX w f)).
    { unfold bX, bt, batch_toks. rewrite <- script_of_used. reflexivity. }
    assert (Hused : used_of (batch_entries f u0 es (bc w f) (length (bY w f))) = length (bX w f) + length (bY w f)).
    { unfold batch_entries. change ((TLen (Z.of_nat (flen f)), u0) :: es ++ [(TCrc (bc w f), length (bY w f))])
        with (((TLen (Z.of_nat (flen f)), u0) :: es) ++ [(TCrc (bc w f), length (bY w f))]).
      rewrite used_of_app, Hused0. unfold used_of at 1. simpl. lia. }
    repeat split.
    + rewrite Hout, write_spec. cbn [wout]. rewrite <- !app_assoc. reflexivity.
    + intro tail.
      assert (Hs : wsess (WRITE w f) = cols_sess Sess cenc (wsess w) sch f) by (rewrite write_spec; reflexivity).
      constructor.
      * subst es. apply script_of_fst.
      * rewrite Hused0. rewrite <- app_assoc. rewrite firstn_app_exact by reflexivity. reflexivity.
      * rewrite Hused. rewrite <- !app_assoc.
        rewrite (app_assoc (bX w f)), skipn_app_exact by (rewrite app_length; reflexivity).
        rewrite <- Hs. apply Hgood.
    + intros tail tsc term H.
      assert (Hst : wst (WRITE w f) = st_after (wst w) (bt w f ++ [TCrc (bc w f)])).
      { rewrite write_spec, st_after_app. reflexivity. }
      subst u0 es. rewrite <- batch_script. rewrite <- !app_assoc.
      replace (bX w f ++ bY w f ++ bytes' ++ tail) with (bytes_of (wst w) (bt w f ++ [TCrc (bc w f)]) ++ bytes' ++ tail).
      2:{ rewrite bytes_of_app. simpl. rewrite app_nil_r, <- app_assoc. reflexivity. }
      apply describes_toks. rewrite <- Hst. apply Hdesc. exact H.
Qed.

(* a statement proved for the scripted reader carries over to the real decoder *)
Lemma via_script st0 s0 inp sc fin bs dests :
  describes st0 inp sc -> fin <> EUnknown ->
  reads dscript dec_script Sess cdec cf sch (r_init dscript Sess inp sc s0) dests
    = spec_reads fin bs [] (map flen dests) ->
  READS (r_init St Sess inp st0 s0) dests = spec_reads fin bs [] (map flen dests).
Proof.
  intros D Hf E.
  rewrite (reads_described St dec_tok Sess cdec cf sch st0 s0 inp sc dests D); [exact E|].
  rewrite E. intro Hin. apply Hf. symmetry. exact (spec_reads_errs _ _ _ _ _ Hin).
Qed.

(* ================================================================ ROUND TRIP *)
Theorem roundtrip_reads st0 s0 batches dests :
  Forall (wf_frame sch) batches -> Forall (wf_frame sch) dests ->
  READS (r_init St Sess (wout (encode_all St enc_tok Sess cenc st0 s0 sch batches)) st0 s0) dests
  = spec_reads EEOF batches [] (map flen dests).
Proof.
  intros Hb Hd. unfold encode_all.
  destruct (writes_good batches (w_init St Sess st0 s0)) as (sc & bytes & Hout & Hgood & Hdesc).
  rewrite Hout. cbn [wout w_init app].
  rewrite <- (app_nil_r bytes).
  apply (via_script st0 s0 (bytes ++ []) (sc ++ [], SIoEOF)); [|discriminate|].
  { apply Hdesc. apply desc_fail. apply H_dec_nil. }
  apply (reads_good Sess cenc cdec cf H_codec sch EEOF ([], SIoEOF) []
           (wsess (fold_left WRITE batches (w_init St Sess st0 s0)))) with (s := s0) (sc := sc); try assumption; try reflexivity.
  - (* the tail: end of input *)
    intros r dest Hst Hi Hs He Hbuf Hwd Hsc.
    unfold read. rewrite He, Hbuf. cbn [Nat.eqb].
    erewrite rd_end by (cbn [rst]; exact Hst). cbn [rinp]. rewrite Hi.
    destruct (fix_eof cf); eexists; split; reflexivity.
  - apply Hgood.
Qed.

(* ================================================================ PAYLOAD DAMAGE *)
(* The bytes of batch k that the checksum covers are replaced by the covered bytes
   of another frame f' (same gob state afterwards) whose checksum differs; the
   checksum token and everything after it are the original ones.  The reader
   delivers exactly the batches before k and then fails with a checksum error. *)
Theorem payload_damage_reads st0 s0 pre f f' post dests :
  let wk := fold_left WRITE pre (w_init St Sess st0 s0) in
  let wk1 := WRITE wk f in
  let Q := skipn (length (wout wk1)) (wout (fold_left WRITE post wk1)) in
  Forall (wf_frame sch) pre -> wf_frame sch f' -> Forall (wf_frame sch) dests ->
  st_after (wst wk) (bt wk f') = st_after (wst wk) (bt wk f) ->
  crc_update 0 (bX wk f') <> crc_update 0 (bX wk f) ->
  READS (r_init St Sess (wout wk ++ bX wk f' ++ bY wk f ++ Q) st0 s0) dests
  = spec_reads EIntegrity pre [] (map flen dests).
Proof.
  intros wk wk1 Q Hpre Hf' Hd Hst Hcrc.
  destruct (writes_good pre (w_init St Sess st0 s0)) as (sc & bytes & Hout & Hgood & Hdesc).
  fold wk in Hout, Hgood, Hdesc. cbn [wout w_init app] in Hout.
  destruct (writes_good post wk1) as (scq & bq & Houtq & _ & Hdescq).
  assert (HQ : Q = bq) by (subst Q; rewrite Houtq, skipn_app_exact by reflexivity; reflexivity).
  set (u0 := length (fst (enc_tok (wst wk) (TLen (Z.of_nat (flen f')))))).
  set (es := script_of (snd (enc_tok (wst wk) (TLen (Z.of_nat (flen f'))))) (cols_toks Sess cenc (wsess wk) sch f')).
  set (c := bc wk f). set (uc := length (bY wk f)).
  set (tsc := (batch_entries f' u0 es c uc ++ scq, SIoEOF)).
  set (tinp := bX wk f' ++ bY wk f ++ Q).
  rewrite Hout.
  apply (via_script st0 s0 (bytes ++ tinp) (sc ++ fst tsc, snd tsc)); [|discriminate|].
  { apply Hdesc. subst tsc tinp. cbn [fst snd].
      assert (E : batch_entries f' u0 es c uc = script_of (wst wk) (bt wk f' ++ [TCrc c])).
      { unfold batch_entries, bt, batch_toks. simpl. f_equal. rewrite script_of_app. simpl.
        change (st_after (snd (enc_tok (wst wk) (TLen (Z.of_nat (flen f'))))) (cols_toks Sess cenc (wsess wk) sch f'))
          with (st_after (wst wk) (bt wk f')). rewrite Hst. reflexivity. }
      rewrite E.
      replace (bX wk f' ++ bY wk f ++ Q) with (bytes_of (wst wk) (bt wk f' ++ [TCrc c]) ++ Q).
      2:{ rewrite bytes_of_app. cbn [bytes_of]. rewrite app_nil_r, <- app_assoc, Hst. reflexivity. }
      apply describes_toks.
      rewrite st_after_app, Hst. cbn [st_after].
      replace (snd (enc_tok (st_after (wst wk) (bt wk f)) (TCrc c))) with (wst wk1)
        by (subst wk1; rewrite write_spec; reflexivity).
      rewrite HQ, <- (app_nil_r bq), <- (app_nil_r scq). apply Hdescq. apply desc_fail. apply H_dec_nil. }
  apply (reads_good Sess cenc cdec cf H_codec sch EIntegrity tsc tinp (wsess wk)) with (s := s0) (sc := sc);
    try assumption; try reflexivity.
  - (* the tail: batch k with a checksum that does not match *)
    intros r dest Hstr Hi Hs He Hbuf Hwd Hsc.
    apply (read_batch_bad_crc Sess cenc cdec cf H_codec sch r f' u0 es c uc (scq, SIoEOF) (wsess wk) dest);
      try assumption.
    + subst es. apply script_of_fst.
    + rewrite Hi. subst tinp.
      assert (Hused0 : used_of ((TLen (Z.of_nat (flen f')), u0) :: es) = length (bX wk f')).
      { unfold bX, bt, batch_toks. rewrite <- script_of_used. reflexivity. }
      rewrite Hused0, firstn_app_exact by reflexivity.
      subst c. unfold bc. intro E. apply Hcrc. symmetry. exact E.
  - apply Hgood.
Qed.

(* the same for a single flipped bit of the covered bytes: the checksums always differ *)
Theorem payload_flip_reads st0 s0 pre f f' post dests j :
  let wk := fold_left WRITE pre (w_init St Sess st0 s0) in
  let wk1 := WRITE wk f in
  let Q := skipn (length (wout wk1)) (wout (fold_left WRITE post wk1)) in
  Forall (wf_frame sch) pre -> wf_frame sch f' -> Forall (wf_frame sch) dests ->
  st_after (wst wk) (bt wk f') = st_after (wst wk) (bt wk f) ->
  j < 8 * length (bX wk f) -> bX wk f' = flip_bit (bX wk f) j ->
  READS (r_init St Sess (wout wk ++ flip_bit (bX wk f) j ++ bY wk f ++ Q) st0 s0) dests
  = spec_reads EIntegrity pre [] (map flen dests).
Proof.
  intros wk wk1 Q Hpre Hf' Hd Hst Hj Hflip. rewrite <- Hflip.
  apply payload_damage_reads; try assumption.
  fold wk. rewrite Hflip. apply crc_detects_single_flip; [reflexivity|exact Hj].
Qed.

(* the undamaged stream has exactly this layout, so the above is a one-bit flip of it *)
Theorem stream_layout st0 s0 pre f post :
  let wk := fold_left WRITE pre (w_init St Sess st0 s0) in
  let wk1 := WRITE wk f in
  let Q := skipn (length (wout wk1)) (wout (fold_left WRITE post wk1)) in
  wout (encode_all St enc_tok Sess cenc st0 s0 sch (pre ++ f :: post)) = wout wk ++ bX wk f ++ bY wk f ++ Q.
Proof.
  intros wk wk1 Q. unfold encode_all. rewrite fold_left_app. simpl. fold wk. fold wk1.
  destruct (writes_good post wk1) as (scq & bq & Houtq & _ & _).
  subst Q. rewrite Houtq, skipn_app_exact by reflexivity.
  subst wk1. rewrite write_spec. cbn [wout]. rewrite <- !app_assoc. reflexivity.
Qed.

(* ================================================================ TRUNCATION *)
(* The stream is cut in batch k: the tokens before index i of the batch are
   intact (1 <= i: at least the length token), then [p] follows.
   [p] non-empty = cut strictly inside token i;  [p] = [] = cut at the token boundary. *)
Definition full_toks (w : W) f : list token := bt w f ++ [TCrc (bc w f)].

Lemma truncation_reads st0 s0 pre f dests i p term :
  let wk := fold_left WRITE pre (w_init St Sess st0 s0) in
  Forall (wf_frame sch) pre -> wf_frame sch f -> Forall (wf_frame sch) dests ->
  1 <= i < length (full_toks wk f) -> term <> SStop ->
  dec_tok (st_after (wst wk) (firstn i (full_toks wk f))) p = fail_of St term ->
  READS (r_init St Sess (wout wk ++ bytes_of (wst wk) (firstn i (full_toks wk f)) ++ p) st0 s0) dests
  = spec_reads (cut_err_tok cf term (nth i (full_toks wk f) dflt)) pre [] (map flen dests).
Proof.
  intros wk Hpre Hf Hd Hi Hterm Hfail.
  destruct (writes_good pre (w_init St Sess st0 s0)) as (sc & bytes & Hout & Hgood & Hdesc).
  fold wk in Hout, Hgood, Hdesc. cbn [wout w_init app] in Hout.
  set (u0 := length (fst (enc_tok (wst wk) (TLen (Z.of_nat (flen f)))))).
  set (es := script_of (snd (enc_tok (wst wk) (TLen (Z.of_nat (flen f))))) (cols_toks Sess cenc (wsess wk) sch f)).
  set (c := bc wk f). set (uc := length (bY wk f)).
  assert (E : batch_entries f u0 es c uc = script_of (wst wk) (full_toks wk f)) by (symmetry; apply batch_script).
  set (tsc := (firstn i (batch_entries f u0 es c uc), term)).
  set (tinp := bytes_of (wst wk) (firstn i (full_toks wk f)) ++ p).
  rewrite Hout.
  apply (via_script st0 s0 (bytes ++ tinp) (sc ++ fst tsc, snd tsc)).
  { apply Hdesc. subst tsc tinp. cbn [fst snd]. rewrite E, script_of_firstn.
      rewrite <- (app_nil_r (script_of _ _)). apply describes_toks. apply desc_fail. exact Hfail. }
  { unfold cut_err_tok. destruct (nth i (full_toks wk f) dflt), term, (fix_eof cf); try discriminate; congruence. }
  apply (reads_good Sess cenc cdec cf H_codec sch _ tsc tinp (wsess wk)) with (s := s0) (sc := sc);
    try assumption; try reflexivity.
  - intros r dest Hstr Hi' Hs He Hbuf Hwd Hsc.
    assert (Hn : nth i (full_toks wk f) dflt = nth i (map fst (batch_entries f u0 es c uc)) dflt)
      by (rewrite E, script_of_fst; reflexivity).
    rewrite Hn.
    apply (read_batch_cut Sess cenc cdec cf H_codec sch term r f u0 es c uc (wsess wk) dest i); try assumption.
    + subst es. apply script_of_fst.
    + rewrite E, script_of_length. exact Hi.
  - apply Hgood.
Qed.

(* cut strictly inside a token: an error, never end-of-stream, under either configuration *)
Theorem truncation_inside_token st0 s0 pre f dests i p q :
  let wk := fold_left WRITE pre (w_init St Sess st0 s0) in
  Forall (wf_frame sch) pre -> wf_frame sch f -> Forall (wf_frame sch) dests ->
  1 <= i < length (full_toks wk f) ->
  fst (enc_tok (st_after (wst wk) (firstn i (full_toks wk f))) (nth i (full_toks wk f) dflt)) = p ++ q ->
  p <> [] -> q <> [] ->
  READS (r_init St Sess (wout wk ++ bytes_of (wst wk) (firstn i (full_toks wk f)) ++ p) st0 s0) dests
  = spec_reads EUnexpected pre [] (map flen dests).
Proof.
  intros wk Hpre Hf Hd Hi Hpq Hp Hq. subst wk.
  rewrite (truncation_reads st0 s0 pre f dests i p SUnexpected); try assumption.
  - destruct (nth i (full_toks _ f) dflt); reflexivity.
  - discriminate.
  - simpl. eapply H_dec_trunc; eassumption.
Qed.

(* cut exactly at a token boundary inside the batch: what Read returns depends on the token expected next *)
Theorem truncation_at_boundary st0 s0 pre f dests i :
  let wk := fold_left WRITE pre (w_init St Sess st0 s0) in
  Forall (wf_frame sch) pre -> wf_frame sch f -> Forall (wf_frame sch) dests ->
  1 <= i < length (full_toks wk f) ->
  READS (r_init St Sess (wout wk ++ bytes_of (wst wk) (firstn i (full_toks wk f))) st0 s0) dests
  = spec_reads (cut_err_tok cf SIoEOF (nth i (full_toks wk f) dflt)) pre [] (map flen dests).
Proof.
  intros wk Hpre Hf Hd Hi. subst wk.
  rewrite <- (app_nil_r (bytes_of _ _)).
  apply (truncation_reads st0 s0 pre f dests i [] SIoEOF); try assumption.
  - discriminate.
  - simpl. apply H_dec_nil.
Qed.

(* cut strictly inside the length token of batch k: io.ErrUnexpectedEOF under every configuration *)
Theorem truncation_in_length_token st0 s0 pre f dests p q :
  let wk := fold_left WRITE pre (w_init St Sess st0 s0) in
  Forall (wf_frame sch) pre -> Forall (wf_frame sch) dests ->
  fst (enc_tok (wst wk) (TLen (Z.of_nat (flen f)))) = p ++ q -> p <> [] -> q <> [] ->
  READS (r_init St Sess (wout wk ++ p) st0 s0) dests = spec_reads EUnexpected pre [] (map flen dests).
Proof.
  intros wk Hpre Hd Hpq Hp Hq.
  destruct (writes_good pre (w_init St Sess st0 s0)) as (sc & bytes & Hout & Hgood & Hdesc).
  fold wk in Hout, Hgood, Hdesc. cbn [wout w_init app] in Hout.
  rewrite Hout.
  apply (via_script st0 s0 (bytes ++ p) (sc ++ [], SUnexpected)); [|discriminate|].
  { apply Hdesc. apply desc_fail. simpl. eapply H_dec_trunc; eassumption. }
  apply (reads_good Sess cenc cdec cf H_codec sch EUnexpected ([], SUnexpected) p (wsess wk)) with (s := s0) (sc := sc);
    try assumption; try reflexivity.
  - intros r dest Hst Hi Hs He Hbuf Hwd Hsc.
    unfold read. rewrite He, Hbuf. cbn [Nat.eqb].
    erewrite rd_end by (cbn [rst]; exact Hst). eexists; split; reflexivity.
  - apply Hgood.
Qed.

(* NEGATIVE LENGTH (repair 1): after the batches before it, a negative batch length is
   an error for ever, whatever follows it in the stream *)
Theorem negative_length_reads st0 s0 pre n Q dests :
  let wk := fold_left WRITE pre (w_init St Sess st0 s0) in
  fix_len cf = true -> (n < 0)%Z ->
  Forall (wf_frame sch) pre -> Forall (wf_frame sch) dests ->
  READS (r_init St Sess (wout wk ++ fst (enc_tok (wst wk) (TLen n)) ++ Q) st0 s0) dests
  = spec_reads EBadLen pre [] (map flen dests).
Proof.
  intros wk Hfix Hn Hpre Hd.
  destruct (writes_good pre (w_init St Sess st0 s0)) as (sc & bytes & Hout & Hgood & Hdesc).
  fold wk in Hout, Hgood, Hdesc. cbn [wout w_init app] in Hout.
  rewrite Hout.
  set (u := length (fst (enc_tok (wst wk) (TLen n)))).
  set (tinp := fst (enc_tok (wst wk) (TLen n)) ++ Q).
  apply (via_script st0 s0 (bytes ++ tinp) (sc ++ [(TLen n, u)], SStop)); [|discriminate|].
  { apply Hdesc. subst tinp u. eapply desc_ok; [apply H_dec_enc|]. apply desc_stop. }
  apply (reads_good Sess cenc cdec cf H_codec sch EBadLen ([(TLen n, u)], SStop) tinp (wsess wk)) with (s := s0) (sc := sc);
    try assumption; try reflexivity.
  - intros r dest Hst Hi Hs He Hbuf Hwd Hsc.
    unfold read. rewrite He, Hbuf. cbn [Nat.eqb].
    erewrite rd_pop by (cbn [rst]; exact Hst).
    rewrite Hfix. replace (Z.ltb n 0) with true by (symmetry; apply Z.ltb_lt; exact Hn).
    eexists; split; reflexivity.
  - apply Hgood.
Qed.

(* LENGTH MISMATCH (repair 3): the length token says n' but the first column, gob-encoded,
   carries another number of elements (what a damaged length token amounts to): after the
   batches before it an integrity error for ever, whatever follows *)
Theorem length_mismatch_reads st0 s0 pre n' cl Q dests k ks :
  let wk := fold_left WRITE pre (w_init St Sess st0 s0) in
  fix_collen cf = true -> sch = k :: ks -> length cl <> n' ->
  Forall (wf_frame sch) pre -> Forall (wf_frame sch) dests ->
  READS (r_init St Sess (wout wk ++ bytes_of (wst wk) [TLen (Z.of_nat n'); TFlag false; TCol cl] ++ Q) st0 s0) dests
  = spec_reads EIntegrity pre [] (map flen dests).
Proof.
  intros wk Hfix Hsch Hne Hpre Hd.
  destruct (writes_good pre (w_init St Sess st0 s0)) as (sc & bytes & Hout & Hgood & Hdesc).
  fold wk in Hout, Hgood, Hdesc. cbn [wout w_init app] in Hout.
  rewrite Hout.
  set (ts := [TLen (Z.of_nat n'); TFlag false; TCol cl]).
  set (tinp := bytes_of (wst wk) ts ++ Q).
  apply (via_script st0 s0 (bytes ++ tinp) (sc ++ script_of (wst wk) ts, SStop)); [|discriminate|].
  { apply Hdesc. subst tinp. rewrite <- (app_nil_r (script_of _ _)). apply describes_toks. apply desc_stop. }
  apply (reads_good Sess cenc cdec cf H_codec sch EIntegrity (script_of (wst wk) ts, SStop) tinp (wsess wk))
    with (s := s0) (sc := sc); try assumption; try reflexivity.
  - intros r dest Hst Hi Hs He Hbuf Hwd Hsc.
    eapply (read_len_mismatch Sess cdec cf sch r n' _ _ cl _ ([], SStop) k ks dest); try eassumption.
    rewrite Hst. reflexivity.
  - apply Hgood.
Qed.

(* LENGTH TOKEN DAMAGE where only the checksum can catch it: every column uses the bulk custom
   codec (its Decode copies whatever it received, so no column cross-checks the batch length).
   The bytes of the length token of batch k are replaced by those of another non-negative
   length n' (same gob state afterwards); the rest of the batch, its checksum token included,
   is intact.  The checksum covers the length token ([bX] starts with it), so if the two
   checksums differ the reader delivers the batches before k and then an integrity error ... *)
Theorem length_damage_bulk_reads st0 s0 pre f n' Q dests :
  let wk := fold_left WRITE pre (w_init St Sess st0 s0) in
  let L := fst (enc_tok (wst wk) (TLen (Z.of_nat (flen f)))) in
  let L' := fst (enc_tok (wst wk) (TLen (Z.of_nat n'))) in
  let st1 := snd (enc_tok (wst wk) (TLen (Z.of_nat (flen f)))) in
  let C := bytes_of st1 (cols_toks Sess cenc (wsess wk) sch f) in
  Forall (fun k => k = KCodecBulk) sch ->
  Forall (wf_frame sch) pre -> wf_frame sch f -> Forall (wf_frame sch) dests ->
  snd (enc_tok (wst wk) (TLen (Z.of_nat n'))) = st1 ->
  crc_update 0 (L' ++ C) <> crc_update 0 (L ++ C) ->
  READS (r_init St Sess (wout wk ++ L' ++ C ++ bY wk f ++ Q) st0 s0) dests
  = spec_reads EIntegrity pre [] (map flen dests).
Proof.
  intros wk L L' st1 C Hall Hpre Hf Hd Hst Hcrc.
  destruct (writes_good pre (w_init St Sess st0 s0)) as (sc & bytes & Hout & Hgood & Hdesc).
  fold wk in Hout, Hgood, Hdesc. cbn [wout w_init app] in Hout.
  rewrite Hout.
  set (cols := cols_toks Sess cenc (wsess wk) sch f).
  set (es := script_of st1 cols).
  set (c := bc wk f). set (uc := length (bY wk f)).
  set (ents := (TLen (Z.of_nat n'), length L') :: es ++ [(TCrc c, uc)]).
  set (tinp := L' ++ C ++ bY wk f ++ Q).
  assert (HX : bX wk f = L ++ C) by reflexivity.
  apply (via_script st0 s0 (bytes ++ tinp) (sc ++ ents, SStop)); [|discriminate|].
  { apply Hdesc. subst tinp ents. eapply desc_ok; [apply H_dec_enc|].
    rewrite skipn_app_exact by reflexivity. rewrite Hst.
    replace (C ++ bY wk f ++ Q) with (bytes_of st1 (cols ++ [TCrc c]) ++ Q).
    2:{ rewrite bytes_of_app. cbn [bytes_of]. rewrite app_nil_r, <- app_assoc. reflexivity. }
    replace (es ++ [(TCrc c, uc)]) with (script_of st1 (cols ++ [TCrc c]) ++ []).
    2:{ rewrite app_nil_r, script_of_app. reflexivity. }
    apply describes_toks. apply desc_stop. }
  apply (reads_good Sess cenc cdec cf H_codec sch EIntegrity (ents, SStop) tinp (wsess wk)) with (s := s0) (sc := sc);
    try assumption; try reflexivity.
  - intros r dest Hstr Hi Hs He Hbuf Hwd Hsc.
    apply (read_bulk_bad_crc Sess cenc cdec cf sch r n' f (length L') es c uc ([], SStop) (wsess wk) dest);
      try assumption.
    + subst es. apply script_of_fst.
    + destruct Hf; assumption.
    + rewrite Hi. subst tinp.
      assert (Hu : used_of ((TLen (Z.of_nat n'), length L') :: es) = length (L' ++ C)).
      { change ((TLen (Z.of_nat n'), length L') :: es) with ([(TLen (Z.of_nat n'), length L')] ++ es).
        rewrite used_of_app, app_length. subst es C cols. rewrite script_of_used. unfold used_of. simpl. lia. }
      rewrite Hu, app_assoc, firstn_app_exact by reflexivity.
      subst c. unfold bc. rewrite HX. intro E. apply Hcrc. symmetry. exact E.
  - apply Hgood.
Qed.

(* ... and they always differ when the damage is one flipped bit of the length token *)
Theorem length_flip_bulk_reads st0 s0 pre f n' Q dests j :
  let wk := fold_left WRITE pre (w_init St Sess st0 s0) in
  let L := fst (enc_tok (wst wk) (TLen (Z.of_nat (flen f)))) in
  let st1 := snd (enc_tok (wst wk) (TLen (Z.of_nat (flen f)))) in
  let C := bytes_of st1 (cols_toks Sess cenc (wsess wk) sch f) in
  Forall (fun k => k = KCodecBulk) sch ->
  Forall (wf_frame sch) pre -> wf_frame sch f -> Forall (wf_frame sch) dests ->
  snd (enc_tok (wst wk) (TLen (Z.of_nat n'))) = st1 ->
  j < 8 * length L -> fst (enc_tok (wst wk) (TLen (Z.of_nat n'))) = flip_bit L j ->
  READS (r_init St Sess (wout wk ++ flip_bit L j ++ C ++ bY wk f ++ Q) st0 s0) dests
  = spec_reads EIntegrity pre [] (map flen dests).
Proof.
  intros wk L st1 C Hall Hpre Hf Hd Hst Hj Hflip. rewrite <- Hflip.
  apply length_damage_bulk_reads; try assumption.
  fold wk. fold L. fold st1. fold C. rewrite Hflip.
  apply crc_detects_flip_then_suffix; [reflexivity|exact Hj].
Qed.

End Codec.

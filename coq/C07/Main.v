(* C07 — the property-level statements: the theorems of Proofs.v combined with the
   meaning of [spec_reads] (SpecProofs.v), the two refutations (witnesses over the
   toy codec) and what the two proposed fixes change. *)
From Coq Require Import List ZArith NArith Arith Bool Lia.
Import ListNotations.
Require Import BS.Common.Util BS.C07.Model BS.C07.Script BS.C07.CrcProofs BS.C07.Lists
               BS.C07.Batch BS.C07.Proofs BS.C07.SpecProofs BS.C07.Toy.

Section Codec.
Variable St : Type.
Variable enc_tok : St -> token -> list N * St.
Variable dec_tok : St -> list N -> dres St.
Variable Sess : Type.
Variable cenc : Sess -> list Z -> list Z * Sess.
Variable cdec : Sess -> list Z -> list Z * Sess.
Variable cf : cfg.
Hypothesis H_dec_enc : forall s t rest,
  dec_tok s (fst (enc_tok s t) ++ rest) = DOk t (length (fst (enc_tok s t))) (snd (enc_tok s t)).
Hypothesis H_dec_nil : forall s, dec_tok s [] = DIoEOF.
Hypothesis H_dec_trunc : forall s t p q,
  fst (enc_tok s t) = p ++ q -> p <> [] -> q <> [] -> dec_tok s p = DUnexpectedEOF.
Hypothesis H_codec : forall s v, cdec s (fst (cenc s v)) = (v, snd (cenc s v)).
Variable sch : list kind.

Notation READS := (reads St dec_tok Sess cdec cf sch).
Notation WRITE := (enc_write St enc_tok Sess cenc sch).

Lemma wf_all_uniform bs : Forall (wf_frame sch) bs -> Forall uniform bs.
Proof. intro H. eapply Forall_impl; [|exact H]. intros f Hf. exact (wf_uniform sch f Hf). Qed.

(* ROUND TRIP, rows: any batches (also empty ones), any destination sizes >= 1, enough Reads:
   exactly the rows written, column by column and in order, and the last Read reports end-of-stream *)
Theorem roundtrip st0 s0 batches dests :
  Forall (wf_frame sch) batches -> Forall (wf_frame sch) dests ->
  Forall (fun d => 1 <= flen d) dests ->
  rows_of batches + length batches < length dests ->
  let res := READS (r_init St Sess (wout (encode_all St enc_tok Sess cenc st0 s0 sch batches)) st0 s0) dests in
  colcat (length sch) (delivered res) = colcat (length sch) batches
  /\ last res (ROk 0 []) = RErr EEOF.
Proof.
  intros Hb Hd H1 Hn res. subst res.
  rewrite (roundtrip_reads St enc_tok dec_tok Sess cenc cdec cf H_dec_enc H_dec_nil H_codec sch) by assumption.
  apply spec_reads_complete_all.
  - apply wf_all_uniform. exact Hb.
  - apply Forall_forall. intros n Hin. apply in_map_iff in Hin as (d & <- & Hd').
    rewrite Forall_forall in H1. apply H1. exact Hd'.
  - rewrite map_length. exact Hn.
Qed.

(* ... and with any number of Reads of any sizes, never anything but a prefix of them *)
Theorem roundtrip_prefix st0 s0 batches dests c :
  Forall (wf_frame sch) batches -> Forall (wf_frame sch) dests -> c < length sch ->
  let res := READS (r_init St Sess (wout (encode_all St enc_tok Sess cenc st0 s0 sch batches)) st0 s0) dests in
  exists rest, nth c (colcat (length sch) batches) []
               = nth c (colcat (length sch) (delivered res)) [] ++ rest.
Proof.
  intros Hb Hd Hc res. subst res.
  rewrite (roundtrip_reads St enc_tok dec_tok Sess cenc cdec cf H_dec_enc H_dec_nil H_codec sch) by assumption.
  apply spec_reads_prefix_all; [apply wf_all_uniform; exact Hb|exact Hc].
Qed.

(* PAYLOAD DAMAGE, rows: one flipped bit in the checksummed bytes of batch k that leaves the
   token structure intact (the damaged bytes are the encoding of some frame f'): every row of
   the batches before k is delivered, nothing else, and the last Read reports a checksum error *)
Theorem payload_flip_detected st0 s0 pre f f' post dests j :
  let wk := fold_left WRITE pre (w_init St Sess st0 s0) in
  let wk1 := WRITE wk f in
  let Q := skipn (length (wout wk1)) (wout (fold_left WRITE post wk1)) in
  Forall (wf_frame sch) pre -> wf_frame sch f' -> Forall (wf_frame sch) dests ->
  Forall (fun d => 1 <= flen d) dests -> rows_of pre + length pre < length dests ->
  st_after St enc_tok (wst wk) (bt St Sess cenc sch wk f') = st_after St enc_tok (wst wk) (bt St Sess cenc sch wk f) ->
  j < 8 * length (bX St enc_tok Sess cenc sch wk f) ->
  bX St enc_tok Sess cenc sch wk f' = flip_bit (bX St enc_tok Sess cenc sch wk f) j ->
  let res := READS (r_init St Sess (wout wk ++ flip_bit (bX St enc_tok Sess cenc sch wk f) j
                                    ++ bY St enc_tok Sess cenc sch wk f ++ Q) st0 s0) dests in
  colcat (length sch) (delivered res) = colcat (length sch) pre
  /\ last res (ROk 0 []) = RErr EIntegrity
  /\ ~ In (RErr EEOF) res.
Proof.
  intros wk wk1 Q Hpre Hf' Hd H1 Hn Hst Hj Hflip res. subst res Q wk1 wk.
  rewrite (payload_flip_reads St enc_tok dec_tok Sess cenc cdec cf H_dec_enc H_dec_nil H_codec sch
             st0 s0 pre f f' post dests j) by assumption.
  assert (H1' : Forall (fun d => 1 <= d) (map flen dests)).
  { apply Forall_forall. intros n Hin. apply in_map_iff in Hin as (d & <- & Hd').
    rewrite Forall_forall in H1. apply H1. exact Hd'. }
  destruct (spec_reads_complete_all EIntegrity (length sch) (map flen dests) pre
              (wf_all_uniform pre Hpre) H1') as [A B]; [rewrite map_length; exact Hn|].
  split; [exact A|split; [exact B|]].
  clear. generalize (@nil (list (list Z))) at 1. generalize (map flen dests) as ds. intro ds. revert pre.
  induction ds as [|d ds IH]; intros pre p; simpl; [tauto|].
  destruct (Nat.eqb (flen p) 0).
  - destruct pre as [|b bs]; [simpl; intros [E|E]; [discriminate|exact (IH [] p E)]|].
    destruct (Nat.leb (flen b) d); simpl; intros [E|E]; try discriminate; exact (IH _ _ E).
  - simpl. intros [E|E]; [discriminate|exact (IH _ _ E)].
Qed.

(* TRUNCATION, any cut strictly inside batch k (token index i of the batch, [p] the part of that
   token that survives: p = [] is a cut at a token boundary), with repair 2 in place:
   the batches before k, then an error that is not end-of-stream, for ever *)
Theorem truncation_never_eof st0 s0 pre f dests i p q :
  let wk := fold_left WRITE pre (w_init St Sess st0 s0) in
  let toks := full_toks St enc_tok Sess cenc sch wk f in
  fix_eof cf = true ->
  Forall (wf_frame sch) pre -> wf_frame sch f -> Forall (wf_frame sch) dests ->
  i < length toks ->
  fst (enc_tok (st_after St enc_tok (wst wk) (firstn i toks)) (nth i toks dflt)) = p ++ q ->
  q <> [] -> (1 <= i \/ p <> []) ->
  exists e, e <> EEOF /\
    READS (r_init St Sess (wout wk ++ bytes_of St enc_tok (wst wk) (firstn i toks) ++ p) st0 s0) dests
    = spec_reads e pre [] (map flen dests).
Proof.
  intros wk toks Hfix Hpre Hf Hd Hi Hpq Hq Hpos.
  destruct p as [|b p].
  - (* at a token boundary *)
    destruct Hpos as [Hpos|Hpos]; [|congruence].
    exists (cut_err_tok cf SIoEOF (nth i toks dflt)). split.
    + unfold cut_err_tok. rewrite Hfix. destruct (nth i toks dflt); discriminate.
    + rewrite app_nil_r.
      apply (truncation_at_boundary St enc_tok dec_tok Sess cenc cdec cf H_dec_enc H_dec_nil H_codec sch);
        try assumption. split; assumption.
  - exists EUnexpected. split; [discriminate|].
    destruct i as [|i].
    + (* inside the length token *)
      subst toks. unfold full_toks, bt, batch_toks in Hpq. cbn [firstn bytes_of st_after nth app] in Hpq |- *.
      apply (truncation_in_length_token St enc_tok dec_tok Sess cenc cdec cf H_dec_enc H_dec_trunc H_codec sch
               st0 s0 pre f dests (b :: p) q); try assumption. discriminate.
    + apply (truncation_inside_token St enc_tok dec_tok Sess cenc cdec cf H_dec_enc H_dec_trunc H_codec sch
               st0 s0 pre f dests (S i) (b :: p) q); try assumption.
      * split; [apply le_n_S, Nat.le_0_l|exact Hi].
      * discriminate.
Qed.

End Codec.

(* ---------------------------------------------------------------- what each configuration does at a cut *)
Lemma cut_unexpected cf next : cut_err_tok cf SUnexpected next = EUnexpected.
Proof. destruct next; reflexivity. Qed.

(* the code before repair 2: end of input where a gob-encoded column should start was reported as end-of-stream *)
Lemma cut_before_gob_column_was_eof cf d : fix_eof cf = false -> cut_err_tok cf SIoEOF (TCol d) = EEOF.
Proof. intro H. unfold cut_err_tok. rewrite H. reflexivity. Qed.

(* with repair 2 no cut inside a batch is ever reported as end-of-stream *)
Lemma cut_fixed_never_eof cf term next : fix_eof cf = true -> cut_err_tok cf term next <> EEOF.
Proof. intro H. unfold cut_err_tok. rewrite H. destruct next, term; discriminate. Qed.

(* the model of the code as it is has all three repairs *)
Lemma code_cfg_is_fixed : fix_len code_cfg = true /\ fix_eof code_cfg = true /\ fix_collen code_cfg = true.
Proof. repeat split. Qed.

(* ---------------------------------------------------------------- closed instances over the toy codec *)
Theorem toy_roundtrip cf sch batches dests :
  Forall (wf_frame sch) batches -> Forall (wf_frame sch) dests ->
  Forall (fun d => 1 <= flen d) dests ->
  rows_of batches + length batches < length dests ->
  let res := toy_reads cf sch (toy_encode sch batches) dests in
  colcat (length sch) (delivered res) = colcat (length sch) batches
  /\ last res (ROk 0 []) = RErr EEOF.
Proof.
  apply (roundtrip unit toy_enc toy_dec Z cenc_delta cdec_delta cf toy_dec_enc toy_dec_nil delta_codec sch tt 0%Z).
Qed.

(* non-vacuity: a concrete three-batch stream with a struct and a session-codec column, buffered reads *)
Example toy_roundtrip_example :
  toy_reads code_cfg [KStruct; KCodec]
    (toy_encode [KStruct; KCodec] [ [[[1;0];[0;5];[3;4]]; [[10];[12];[11]]] ; [[]; []] ; [[[0;0]]; [[11]]] ]%Z)
    (map (fun m => [repeat [7777;7777]%Z m; repeat [7777]%Z m]) [2; 2; 2; 2; 1])
  = [ ROk 2 [[[1;0];[0;5]]; [[10];[12]]]%Z; ROk 1 [[[3;4]]; [[11]]]%Z; ROk 0 [[]; []];
      ROk 1 [[[0;0]]; [[11]]]%Z; RErr EEOF ].
Proof. vm_compute. reflexivity. Qed.

(* ---------------------------------------------------------------- the three repaired defects: witnesses about [defective_cfg],
   and the same inputs under [code_cfg] *)
Definition junk4 : list (list (list (list Z))) :=
  [[[[7777];[7777];[7777];[7777]]]; [[[7777];[7777];[7777];[7777]]]]%Z.

(* 1. one batch of three rows; the stream is cut after the length token and the codec flag of the
   (gob-encoded) column: the old Read reported a clean end of stream, the three rows silently lost *)
Theorem trunc_boundary_defective_witness :
  exists sch batches cut dests,
    Forall (wf_frame sch) batches /\ Forall (wf_frame sch) dests /\
    0 < cut < length (toy_encode sch batches) /\ rows_of batches = 3 /\
    toy_reads defective_cfg sch (firstn cut (toy_encode sch batches)) dests = [RErr EEOF; RErr EEOF] /\
    toy_reads code_cfg sch (firstn cut (toy_encode sch batches)) dests = [RErr EUnexpected; RErr EUnexpected].
Proof.
  exists [KGob], [[[[1];[2];[3]]]]%Z, 7, junk4.
  repeat split; try (vm_compute; reflexivity); try (vm_compute; lia); repeat constructor.
Qed.

(* 2. a negative batch length: the old Read panicked *)
Theorem negative_length_defective_witness :
  exists sch inp dests, Forall (wf_frame sch) dests /\
    toy_reads defective_cfg sch inp dests = [RPanic] /\
    toy_reads code_cfg sch inp dests = [RErr EBadLen; RErr EBadLen].
Proof.
  exists [KGob], (fst (toy_enc tt (TLen (-4)))), junk4.
  split; [repeat constructor|split; vm_compute; reflexivity].
Qed.

(* 3. the length token says 1 row, the gob column carries 3: the old code decoded on (and panicked
   "gob reallocated a slice" when the capacity was exceeded, which the model does not represent);
   here it reaches the checksum token and only then fails; now it is an integrity error at once *)
Theorem length_mismatch_defective_witness :
  exists sch inp dests, Forall (wf_frame sch) dests /\
    toy_reads defective_cfg sch inp dests = [RErr ERawEOF; RErr ERawEOF] /\
    toy_reads code_cfg sch inp dests = [RErr EIntegrity; RErr EIntegrity].
Proof.
  exists [KGob],
    (fst (toy_enc tt (TLen 1)) ++ fst (toy_enc tt (TFlag false)) ++ fst (toy_enc tt (TCol [[1];[2];[3]]%Z))),
    junk4.
  split; [repeat constructor|split; vm_compute; reflexivity].
Qed.

(* the batch length is protected by the checksum alone when every column uses the bulk custom
   codec: bit 24 of this stream is bit 0 of the value byte of the length token (3 rows -> 2 rows);
   the two remaining rows would decode, the checksum does not verify *)
Example length_flip_bulk_example :
  toy_reads code_cfg [KCodecBulk] (flip_bit (toy_encode [KCodecBulk] [[[[5];[0];[9]]]]%Z) 24) junk4
  = [RErr EIntegrity; RErr EIntegrity]
  /\ toy_reads code_cfg [KCodecBulk] (toy_encode [KCodecBulk] [[[[5];[0];[9]]]]%Z) junk4
  = [ROk 3 [[[5];[0];[9]]]%Z; RErr EEOF].
Proof. split; vm_compute; reflexivity. Qed.

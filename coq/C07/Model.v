(* C07 — executable model of sliceio/codec.go: Encoder.Write and
   decodingReader.Read/decode.  No proofs here.

   Abstraction level.  encoding/gob is not modelled byte-wise.  A stream is a
   sequence of TOKENS, one per gob Encode/Decode call made by codec.go:
       batch = TLen n ; per column (TFlag codec ; TCol data | TVal v * n | TBulk data) ; TCrc c
   and the token <-> byte codec is a parameter of the model (Section variables
   [enc_tok]/[dec_tok]) with a state [St] (gob's registry of the types already
   described on this stream: the first use of a type emits extra messages).
   One token is one or more gob messages (type definitions, then the value).
   The decoder has gob's three failure outcomes: [DIoEOF] (io.EOF: the input
   ended where a token starts, or a message was shorter than its value),
   [DUnexpectedEOF] (io.ErrUnexpectedEOF: the input ended inside a token; gob
   also reports this between the type definitions and the value), [DMalformed] (any
   other gob error, including a value of another type than the one asked for).
   [DStop] exists only for the correspondence: "the recorded run of the real gob
   decoder has no information beyond this point".

   Frames are column-major: a frame is a list of columns, a column a list of
   cells, a cell the list of the fields of one value (one field for int/string
   /custom-codec columns, two for the struct column), each field mapped onto Z
   by the harness with the Go zero value at 0.

   Three defects of codec.go were repaired in /repo; each repair is one boolean of
   [cfg].  [code_cfg] = what /repo does now (all three repairs in place);
   [defective_cfg] = the code before the repairs, kept for the refutation witnesses. *)
From Coq Require Import List ZArith NArith Bool.
Import ListNotations.
Require Export BS.C07.Crc.

Notation byte := N (only parsing).
Notation cell := (list Z) (only parsing).
Notation col := (list (list Z)) (only parsing).
Notation frame := (list (list (list Z))) (only parsing).

(* column kinds: HasCodec(col) = has_codec kind; gob decodes a struct field by
   field and leaves a field that was omitted on the wire (zero value) untouched *)
Inductive kind :=
| KGob | KStruct
| KCodec        (* custom codec, one Encode per row, with session state (the harness' vint) *)
| KCodecBulk.   (* custom codec, one Encode of the whole slice; Decode copies what it got (the harness' vtag):
                   copy(slice[i:j], p) checks no length *)
Definition has_codec (k : kind) : bool := match k with KCodec | KCodecBulk => true | _ => false end.

Inductive token :=
| TLen (n : Z)              (* enc.Encode(f.Len())            : int *)
| TFlag (b : bool)          (* enc.Encode(codec)              : bool *)
| TCol (data : list (list Z)) (* enc.EncodeValue(f.Value(col))  : []T through gob *)
| TVal (v : list Z)         (* one e.Encode(x) made by a custom column codec *)
| TBulk (data : list (list Z)) (* one e.Encode(slice[i:j]) made by a custom column codec *)
| TCrc (c : N).             (* enc.Encode(crc.Sum32())        : uint32 *)

Inductive dres (St : Type) :=
| DOk (t : token) (used : nat) (s : St)   (* token, number of input bytes consumed, new state *)
| DIoEOF | DUnexpectedEOF | DMalformed | DStop.
Arguments DOk {St} t used s.
Arguments DIoEOF {St}.
Arguments DUnexpectedEOF {St}.
Arguments DMalformed {St}.
Arguments DStop {St}.

(* error classes of Read *)
Inductive err :=
| EEOF          (* sliceio.EOF: clean end of stream *)
| ERawEOF       (* io.EOF returned unconverted: an error to every caller (err != sliceio.EOF) *)
| EUnexpected   (* io.ErrUnexpectedEOF *)
| EMalformed    (* any other gob error *)
| EIntegrity    (* errors.Integrity: checksum mismatch *)
| ENoCodec      (* "column encoded with custom codec but no codec available on receipt" *)
| EBadLen       (* errors.Integrity "invalid batch length" (with fix_len; the old code panicked) *)
| EUnknown.     (* correspondence only: ran into DStop *)

Record cfg := mkCfg {
  fix_len : bool;     (* repair 1: a negative batch length is an error, not a panic *)
  fix_eof : bool;     (* repair 2: io.EOF means end of stream only before the first byte of a batch *)
  fix_collen : bool   (* repair 3: a gob column whose element count is not the batch length is an
                         integrity error (the old code went on, and panicked "gob reallocated a
                         slice" when the count exceeded the capacity - capacity is not modelled) *)
}.
Definition code_cfg : cfg := mkCfg true true true.           (* /repo as it is *)
Definition defective_cfg : cfg := mkCfg false false false.   (* /repo before the three repairs *)

(* ------------------------------------------------------------------ frames *)
Definition flen (f : frame) : nat := match f with [] => 0%nat | c :: _ => length c end.
Definition ftake (n : nat) (f : frame) : frame := map (firstn n) f.   (* f.Slice(0, n) *)
Definition fdrop (n : nat) (f : frame) : frame := map (skipn n) f.    (* f.Slice(n, f.Len()) *)

Definition arity (k : kind) : nat := match k with KStruct => 2%nat | _ => 1%nat end.
Definition zero_cell (c : list Z) : list Z := map (fun _ => 0%Z) c.
Definition fzero (f : frame) : frame := map (map zero_cell) f.                     (* f.Zero() *)
Definition fmake (sch : list kind) (n : nat) : frame :=                            (* frame.Make(f, n, n) *)
  map (fun k => repeat (repeat 0%Z (arity k)) n) sch.

(* new rows written over the first rows of old memory *)
Fixpoint overlay (new old : frame) : frame :=
  match new, old with
  | n1 :: ns, o1 :: os => (n1 ++ skipn (length n1) o1) :: overlay ns os
  | _, _ => []
  end.

(* gob decoding a struct into existing memory: fields omitted on the wire (zero) keep the old value *)
Fixpoint merge_from (i : nat) (old new : list Z) : list Z :=
  match new with
  | [] => []
  | x :: r => (if Z.eqb x 0 then nth i old 0%Z else x) :: merge_from (S i) old r
  end.
Definition merge_cell (old new : list Z) : list Z := merge_from 0 old new.

(* gob decoding a slice value into the existing slice [view] *)
Fixpoint gob_into (k : kind) (view data : list (list Z)) : list (list Z) :=
  match view, data with
  | v :: vs, d :: ds => (match k with KStruct => merge_cell v d | _ => d end) :: gob_into k vs ds
  | vs, [] => vs
  | [], _ => []
  end.

(* Go's copy(dst, src): the first min(len dst, len src) elements *)
Fixpoint copy_into (view data : list (list Z)) : list (list Z) :=
  match view, data with
  | _ :: vs, d :: ds => d :: copy_into vs ds
  | vs, [] => vs
  | [], _ => []
  end.

Section Codec.
Variable St : Type.                                         (* gob stream state *)
Variable enc_tok : St -> token -> list N * St.              (* bytes of one token *)
Variable dec_tok : St -> list N -> dres St.
Variable Sess : Type.                                         (* session state of the custom column codec *)
Variable cenc : Sess -> list Z -> list Z * Sess.                  (* value put on the wire for one cell *)
Variable cdec : Sess -> list Z -> list Z * Sess.
Variable cf : cfg.

(* ================================================================ Encoder *)
Record wstate := mkW {
  wout : list N;      (* bytes written to the underlying writer so far *)
  wst : St;
  wsess : Sess;
  wcrc : N            (* e.crc: every byte gob writes goes to w and to crc (io.MultiWriter) *)
}.

Definition emit (w : wstate) (t : token) : wstate :=
  let (bs, st') := enc_tok (wst w) t in
  mkW (wout w ++ bs) st' (wsess w) (crc_update (wcrc w) bs).

(* The tokens of one batch.  Session updates of the custom codec and gob's writes do
   not depend on each other, so the batch is described as: the tokens (with the
   session threaded through the custom columns), then their emission in order. *)

(* the harness' custom codec: one e.Encode per row, with per-stream session state *)
Fixpoint vals_toks (s : Sess) (vals : list (list Z)) : list token :=
  match vals with
  | [] => []
  | v :: r => TVal (fst (cenc s v)) :: vals_toks (snd (cenc s v)) r
  end.
Fixpoint vals_sess (s : Sess) (vals : list (list Z)) : Sess :=
  match vals with
  | [] => s
  | v :: r => vals_sess (snd (cenc s v)) r
  end.

(* codec := f.HasCodec(col); Encode(codec); then f.Encode(col, e.enc) or e.enc.EncodeValue(f.Value(col)) *)
Definition col_toks (s : Sess) (k : kind) (cl : list (list Z)) : list token :=
  match k with
  | KCodec => TFlag true :: vals_toks s cl
  | KCodecBulk => [TFlag true; TBulk cl]
  | _ => [TFlag false; TCol cl]
  end.
Definition col_sess (s : Sess) (k : kind) (cl : list (list Z)) : Sess :=
  match k with KCodec => vals_sess s cl | _ => s end.

Fixpoint cols_toks (s : Sess) (sch : list kind) (f : frame) : list token :=
  match sch, f with
  | k :: ks, cl :: cs => col_toks s k cl ++ cols_toks (col_sess s k cl) ks cs
  | _, _ => []
  end.
Fixpoint cols_sess (s : Sess) (sch : list kind) (f : frame) : Sess :=
  match sch, f with
  | k :: ks, cl :: cs => cols_sess (col_sess s k cl) ks cs
  | _, _ => s
  end.

(* the tokens the checksum covers: Encode(f.Len()) and the columns *)
Definition batch_toks (s : Sess) (sch : list kind) (f : frame) : list token :=
  TLen (Z.of_nat (flen f)) :: cols_toks s sch f.

(* Encoder.Write *)
Definition enc_write (sch : list kind) (w : wstate) (f : frame) : wstate :=
  let w0 := mkW (wout w) (wst w) (cols_sess (wsess w) sch f) 0 in     (* e.crc.Reset() *)
  let w2 := fold_left emit (batch_toks (wsess w) sch f) w0 in
  emit w2 (TCrc (wcrc w2)).                                            (* Sum32 is taken before this write *)

Definition w_init (st0 : St) (s0 : Sess) : wstate := mkW [] st0 s0 0.

Definition encode_all (st0 : St) (s0 : Sess) (sch : list kind) (batches : list frame) : wstate :=
  fold_left (enc_write sch) batches (w_init st0 s0).

(* ================================================================ decodingReader *)
Record rstate := mkR {
  rinp : list N;            (* bytes not yet consumed *)
  rst : St;
  rsess : Sess;
  rcrc : N;                 (* d.crc: every byte gob reads goes through the TeeReader *)
  rscratch : option frame;  (* d.scratch: its memory (cap rows); None = zero Frame *)
  rbuf : frame;             (* d.buf: decoded rows not yet delivered *)
  rerr : option err         (* d.err, sticky *)
}.

Definition set_err (r : rstate) (e : err) : rstate :=
  mkR (rinp r) (rst r) (rsess r) (rcrc r) (rscratch r) (rbuf r) (Some e).

Inductive tres :=
| TokOk (t : token) (r : rstate)
| TokIoEOF | TokUnexpected | TokMalformed | TokStop.

(* one d.dec.Decode: the bytes consumed are tee'd into the CRC *)
Definition rd_tok (r : rstate) : tres :=
  match dec_tok (rst r) (rinp r) with
  | DOk t used s' =>
      TokOk t (mkR (skipn used (rinp r)) s' (rsess r)
                   (crc_update (rcrc r) (firstn used (rinp r))) (rscratch r) (rbuf r) (rerr r))
  | DIoEOF => TokIoEOF
  | DUnexpectedEOF => TokUnexpected
  | DMalformed => TokMalformed
  | DStop => TokStop
  end.

(* a gob error returned unchanged: `return err` *)
Definition raw_err (t : tres) : err :=
  match t with
  | TokIoEOF => ERawEOF
  | TokUnexpected => EUnexpected
  | TokStop => EUnknown
  | _ => EMalformed
  end.

Inductive dcres := DcOk (cl : list (list Z)) (r : rstate) | DcErr (e : err).

(* the custom codec's Decode(dec, i, j): one d.Decode per row of the view, errors returned unchanged *)
Fixpoint dec_vals (r : rstate) (view : list (list Z)) : dcres :=
  match view with
  | [] => DcOk [] r
  | _ :: rest =>
      match rd_tok r with
      | TokOk (TVal x) r1 =>
          let (v, s') := cdec (rsess r1) x in
          let r2 := mkR (rinp r1) (rst r1) s' (rcrc r1) (rscratch r1) (rbuf r1) (rerr r1) in
          match dec_vals r2 rest with
          | DcOk vs r3 => DcOk (v :: vs) r3
          | DcErr e => DcErr e
          end
      | TokOk _ _ => DcErr EMalformed
      | t => DcErr (raw_err t)
      end
  end.

(* one iteration of the column loop of decode (codec.go:188-225) *)
Definition dec_col (r : rstate) (k : kind) (view : list (list Z)) : dcres :=
  match rd_tok r with                                     (* d.dec.Decode(&codec) *)
  | TokOk (TFlag codec) r1 =>
      if codec then
        match k with
        | KCodec => dec_vals r1 view                      (* f.Decode(col, d.dec) *)
        | KCodecBulk =>                                   (* f.Decode(col, d.dec): d.Decode(&p); copy(slice[i:j], p) *)
            match rd_tok r1 with
            | TokOk (TBulk data) r2 => DcOk (copy_into view data) r2
            | TokOk _ _ => DcErr EMalformed
            | t => DcErr (raw_err t)
            end
        | _ => DcErr ENoCodec                             (* codec && !f.HasCodec(col) *)
        end
      else
        match rd_tok r1 with                              (* d.dec.DecodeValue(v) *)
        | TokOk (TCol data) r2 =>
            (* pHdr.Data != sh.Data || pHdr.Len != sh.Len: gob resized or reallocated the slice *)
            if fix_collen cf && negb (Nat.eqb (length data) (length view)) then DcErr EIntegrity
            else DcOk (gob_into k view data) r2
        | TokOk _ _ => DcErr EMalformed
        | TokIoEOF =>                                     (* decode: io.EOF -> io.ErrUnexpectedEOF (was: -> EOF) *)
            DcErr (if fix_eof cf then EUnexpected else EEOF)
        | t => DcErr (raw_err t)
        end
  | TokOk _ _ => DcErr EMalformed
  | t => DcErr (raw_err t)
  end.

Inductive dfres := DfOk (f : frame) (r : rstate) | DfErr (e : err).

Fixpoint dec_cols (r : rstate) (sch : list kind) (mem : frame) : dfres :=
  match sch, mem with
  | k :: ks, view :: rest =>
      match dec_col r k view with
      | DcOk cl r1 =>
          match dec_cols r1 ks rest with
          | DfOk f r2 => DfOk (cl :: f) r2
          | DfErr e => DfErr e
          end
      | DcErr e => DfErr e
      end
  | _, _ => DfOk [] r
  end.

(* decodingReader.decode(f): [mem] is the memory of the rows of f *)
Definition decode (r : rstate) (sch : list kind) (mem : frame) : dfres :=
  match dec_cols r sch (fzero mem) with                   (* f.Zero() first *)
  | DfOk f r1 =>
      let sum := rcrc r1 in                               (* d.crc.Sum32() before reading the checksum *)
      match rd_tok r1 with
      | TokOk (TCrc decoded) r2 =>
          if N.eqb sum decoded then DfOk f r2 else DfErr EIntegrity
      | TokOk _ _ => DfErr EMalformed
      | t => DfErr (raw_err t)
      end
  | DfErr e => DfErr e
  end.

Inductive rres :=
| ROk (n : nat) (rows : frame)    (* (n, nil); rows = the contents of f[0:n] after the call *)
| RErr (e : err)                  (* (0, err) *)
| RPanic.

(* frame.Copy(f, d.buf); d.buf = d.buf.Slice(n, d.buf.Len()) *)
Definition copy_out (r : rstate) (dest : frame) : rres * rstate :=
  let n := Nat.min (flen dest) (flen (rbuf r)) in
  (ROk n (ftake n (rbuf r)),
   mkR (rinp r) (rst r) (rsess r) (rcrc r) (rscratch r) (fdrop n (rbuf r)) (rerr r)).

(* d.scratch.IsZero() ? frame.Make(f, n, n) : d.scratch.Ensure(n) -- the memory the
   view d.scratch[0:n] lives in (Ensure reuses the allocation when n <= cap and
   otherwise grows it: old rows kept, new rows zero; the amount of
   over-allocation chosen by Frame.grow is not observable here and not modelled) *)
Definition ensure (sch : list kind) (sc : option frame) (n : nat) : frame :=
  match sc with
  | None => fmake sch n
  | Some mem => if Nat.leb n (flen mem) then mem else overlay mem (fmake sch n)
  end.

(* decodingReader.Read(ctx, f); [dest] = current contents of f, [sch] = its column types *)
Definition read (sch : list kind) (r : rstate) (dest : frame) : rres * rstate :=
  match rerr r with
  | Some e => (RErr e, r)
  | None =>
      if Nat.eqb (flen (rbuf r)) 0 then
        (* loop body; it runs once: on the buffered path n > f.Len() >= 0 makes d.buf non-empty *)
        let r0 := mkR (rinp r) (rst r) (rsess r) 0 (rscratch r) (rbuf r) (rerr r) in   (* d.crc.Reset() *)
        match rd_tok r0 with
        | TokOk (TLen n) r1 =>
            if fix_len cf && Z.ltb n 0 then                 (* if n < 0 { d.err = Integrity "invalid batch length" } *)
              (RErr EBadLen, set_err r1 EBadLen)
            else if Z.leb n (Z.of_nat (flen dest)) then
              if Z.ltb n 0 then (RPanic, r1)                (* old code: f.Slice(0, n): slice index out of bounds *)
              else
                let n' := Z.to_nat n in
                match decode r1 sch (ftake n' dest) with    (* decode(f.Slice(0, n)) *)
                | DfOk f r2 => (ROk n' f, r2)
                | DfErr e => (RErr e, set_err r1 e)
                end
            else
              let n' := Z.to_nat n in
              let mem := ensure sch (rscratch r1) n' in
              match decode r1 sch (ftake n' mem) with       (* d.buf = d.scratch; decode(d.buf) *)
              | DfOk f r2 =>
                  copy_out (mkR (rinp r2) (rst r2) (rsess r2) (rcrc r2) (Some (overlay f mem)) f (rerr r2)) dest
              | DfErr e => (RErr e, set_err r1 e)
              end
        | TokOk _ r1 => (RErr EMalformed, set_err r0 EMalformed)
        | TokIoEOF =>                                       (* Read: io.EOF -> EOF iff *d.nread == 0 (was: always) *)
            let e := if fix_eof cf then (match rinp r0 with [] => EEOF | _ => EUnexpected end) else EEOF in
            (RErr e, set_err r0 e)
        | t => (RErr (raw_err t), set_err r0 (raw_err t))
        end
      else copy_out r dest
  end.

Definition r_init (inp : list N) (st0 : St) (s0 : Sess) : rstate :=
  mkR inp st0 s0 0 None [] None.

(* a consumer: one Read per destination frame, stopping after a panic *)
Fixpoint reads (sch : list kind) (r : rstate) (dests : list frame) : list rres :=
  match dests with
  | [] => []
  | d :: ds =>
      let (res, r') := read sch r d in
      match res with
      | RPanic => [RPanic]
      | _ => res :: reads sch r' ds
      end
  end.

End Codec.

Arguments mkW {St Sess}.
Arguments wout {St Sess}.
Arguments wst {St Sess}.
Arguments wsess {St Sess}.
Arguments wcrc {St Sess}.
Arguments mkR {St Sess}.
Arguments rinp {St Sess}.
Arguments rst {St Sess}.
Arguments rsess {St Sess}.
Arguments rcrc {St Sess}.
Arguments rscratch {St Sess}.
Arguments rbuf {St Sess}.
Arguments rerr {St Sess}.
Arguments TokOk {St Sess}.
Arguments TokIoEOF {St Sess}.
Arguments TokUnexpected {St Sess}.
Arguments TokMalformed {St Sess}.
Arguments TokStop {St Sess}.
Arguments DcOk {St Sess}.
Arguments DcErr {St Sess}.
Arguments DfOk {St Sess}.
Arguments DfErr {St Sess}.

(* ================================================================ the specification of a stream of Reads *)
(* What the property demands of a sequence of Reads over the batches written:
   a pending remainder is delivered first (as much as fits), otherwise the next
   batch (whole if it fits, else its first rows), and once all batches are
   consumed the error [fin] for ever ([EEOF] for an intact stream). *)
Fixpoint spec_reads (fin : err) (batches : list frame) (pending : frame) (dests : list nat) : list rres :=
  match dests with
  | [] => []
  | d :: ds =>
      if Nat.eqb (flen pending) 0 then
        match batches with
        | [] => RErr fin :: spec_reads fin [] pending ds
        | b :: bs =>
            if Nat.leb (flen b) d then ROk (flen b) b :: spec_reads fin bs pending ds
            else ROk d (ftake d b) :: spec_reads fin bs (fdrop d b) ds
        end
      else
        let n := Nat.min d (flen pending) in
        ROk n (ftake n pending) :: spec_reads fin batches (fdrop n pending) ds
  end.

(* the frames delivered by a run of Reads, and column-wise concatenation of frames *)
Definition delivered (obs : list rres) : list frame :=
  flat_map (fun r => match r with ROk _ f => [f] | _ => [] end) obs.
Definition colsel (c : nat) (fs : list frame) : list (list Z) :=
  concat (map (fun f => nth c f []) fs).
Definition colcat (ncols : nat) (fs : list frame) : frame :=
  map (fun c => colsel c fs) (seq 0 ncols).
Definition rows_of (batches : list frame) : nat :=
  fold_right (fun b a => (flen b + a)%nat) 0%nat batches.

(* ================================================================ the harness' custom column codec *)
(* delta coding against the last value of the stream (per-stream session state, frame.Session.State) *)
Definition cenc_delta (s : Z) (v : list Z) : list Z * Z :=
  match v with [x] => ([(x - s)%Z], x) | _ => (v, s) end.
Definition cdec_delta (s : Z) (w : list Z) : list Z * Z :=
  match w with [d] => ([(d + s)%Z], (d + s)%Z) | _ => (w, s) end.

(* C07 — the scripted reader on a whole stream: a run of intact batches followed by
   a tail on which the next Read fails with [fin] behaves exactly as
   [spec_reads fin]: the rows of the intact batches in order, then [fin] for ever. *)
From Coq Require Import List ZArith NArith Arith Bool Lia.
Import ListNotations.
Require Import BS.Common.Util BS.C07.Model BS.C07.Script BS.C07.CrcProofs BS.C07.Lists BS.C07.Batch.

Section Stream.
Variable Sess : Type.
Variable cenc : Sess -> list Z -> list Z * Sess.
Variable cdec : Sess -> list Z -> list Z * Sess.
Variable cf : cfg.
Hypothesis H_codec : forall s v, cdec s (fst (cenc s v)) = (v, snd (cenc s v)).
Variable sch : list kind.

Notation R := (rstate dscript Sess).
Notation rd := (rd_tok dscript dec_script Sess).
Notation READ := (read dscript dec_script Sess cdec cf sch).
Notation READS := (reads dscript dec_script Sess cdec cf sch).
Notation after := (after Sess).

Definition scratch_ok (sc : option (list (list (list Z)))) : Prop :=
  match sc with None => True | Some mem => wf_frame sch mem end.

(* ---------------------------------------------------------------- memory shapes *)
Lemma ensure_shape sc n :
  scratch_ok sc ->
  length (ensure sch sc n) = length sch
  /\ exists L, n <= L /\ Forall (fun c => length c = L) (ensure sch sc n).
Proof.
  intro H. unfold ensure. destruct sc as [mem|].
  - destruct H as [Hl Hc]. destruct (Nat.leb n (flen mem)) eqn:E.
    + apply Nat.leb_le in E. split; [exact Hl|]. exists (flen mem). split; [exact E|exact Hc].
    + apply Nat.leb_gt in E. split.
      * rewrite overlay_length; rewrite fmake_length; [reflexivity|exact Hl].
      * exists n. split; [lia|].
        apply (overlay_cols mem (fmake sch n) (flen mem) n).
        -- rewrite fmake_length. exact Hl.
        -- lia.
        -- exact Hc.
        -- apply fmake_cols.
  - split; [apply fmake_length|]. exists n. split; [lia|apply fmake_cols].
Qed.

Lemma Forall_le_of_eq (mem : list (list (list Z))) L n :
  n <= L -> Forall (fun c => length c = L) mem -> Forall (fun c => n <= length c) mem.
Proof. intros H F. eapply Forall_impl; [|exact F]. simpl. intros c ->. exact H. Qed.

(* ---------------------------------------------------------------- one Read over one intact batch *)
Definition batch_entries (f : list (list (list Z))) (u0 : nat) (es : list (token * nat)) (c : N) (uc : nat) :=
  (TLen (Z.of_nat (flen f)), u0) :: es ++ [(TCrc c, uc)].

Lemma read_batch (r : R) f u0 es c uc rest s dest :
  rerr r = None -> flen (rbuf r) = 0 ->
  rst r = (batch_entries f u0 es c uc ++ fst rest, snd rest) -> rsess r = s ->
  map fst es = cols_toks Sess cenc s sch f ->
  wf_frame sch f -> wf_frame sch dest -> scratch_ok (rscratch r) ->
  c = crc_update 0 (firstn (used_of ((TLen (Z.of_nat (flen f)), u0) :: es)) (rinp r)) ->
  exists r', READ r dest =
             (if Nat.leb (flen f) (flen dest) then ROk (flen f) f else ROk (flen dest) (ftake (flen dest) f), r')
    /\ rerr r' = None /\ rst r' = rest /\ rsess r' = cols_sess Sess cenc s sch f
    /\ rinp r' = skipn (used_of (batch_entries f u0 es c uc)) (rinp r)
    /\ scratch_ok (rscratch r')
    /\ rbuf r' = (if Nat.leb (flen f) (flen dest) then rbuf r else fdrop (flen dest) f).
Proof.
  intros He Hb Hst Hs Hes Hwf Hwd Hsc Hc.
  unfold read. rewrite He, Hb. cbn [Nat.eqb].
  set (r0 := mkR (rinp r) (rst r) (rsess r) 0 (rscratch r) (rbuf r) (@None err)).
  assert (Hst0 : rst r0 = ((TLen (Z.of_nat (flen f)), u0) :: (es ++ (TCrc c, uc) :: fst rest), snd rest)).
  { subst r0. cbn [rst]. rewrite Hst. unfold batch_entries. simpl. rewrite <- app_assoc. reflexivity. }
  rewrite (rd_pop Sess r0 _ _ _ _ Hst0).
  set (r1 := Batch.after Sess r0 [(TLen (Z.of_nat (flen f)), u0)] (es ++ (TCrc c, uc) :: fst rest, snd rest) (rsess r0)).
  assert (Hcrc : crc_update (rcrc r1) (firstn (used_of es) (rinp r1)) = c).
  { rewrite Hc. subst r1 r0. unfold Batch.after; cbn [rcrc rinp].
    rewrite crc_update_app. change ((TLen (Z.of_nat (flen f)), u0) :: es) with ([(TLen (Z.of_nat (flen f)), u0)] ++ es).
    rewrite used_of_app, firstn_add. reflexivity. }
  assert (Hlen : length f = length sch) by (destruct Hwf; assumption).
  assert (Hnn : Z.ltb (Z.of_nat (flen f)) 0 = false) by (apply Z.ltb_ge; lia).
  assert (Hs1 : rsess r1 = s) by (subst r1 r0; cbn [rsess Batch.after]; exact Hs).
  rewrite Hnn, andb_false_r.
  destruct (Nat.leb (flen f) (flen dest)) eqn:Ele.
  - (* direct *)
    apply Nat.leb_le in Ele.
    replace (Z.leb (Z.of_nat (flen f)) (Z.of_nat (flen dest))) with true by (symmetry; apply Z.leb_le; lia).
    rewrite Nat2Z.id.
    assert (Hsh : same_shape f (ftake (flen f) dest)).
    { apply (same_shape_ftake sch); [exact Hwf|destruct Hwd; assumption|].
      eapply Forall_le_of_eq; [exact Ele|apply (wf_cols sch); exact Hwd]. }
    rewrite (decode_ok Sess cenc cdec cf H_codec sch f r1 es c uc rest s _ Hes eq_refl Hs1 Hlen Hsh).
    rewrite Hcrc, N.eqb_refl.
    eexists. split; [reflexivity|].
    subst r1 r0. unfold batch_entries.
    rewrite after_after. unfold Batch.after; cbn [rerr rst rsess rinp rscratch rbuf].
    repeat split; try assumption; try reflexivity; try (destruct rest; reflexivity).
  - (* buffered *)
    apply Nat.leb_gt in Ele.
    replace (Z.leb (Z.of_nat (flen f)) (Z.of_nat (flen dest))) with false by (symmetry; apply Z.leb_gt; lia).
    rewrite Nat2Z.id.
    assert (Hsc1 : rscratch r1 = rscratch r) by reflexivity. rewrite Hsc1.
    destruct (ensure_shape (rscratch r) (flen f) Hsc) as (Hml & L & HL & Hmc).
    set (mem := ensure sch (rscratch r) (flen f)) in *.
    assert (Hsh : same_shape f (ftake (flen f) mem)).
    { apply (same_shape_ftake sch); [exact Hwf|exact Hml|]. eapply Forall_le_of_eq; [exact HL|exact Hmc]. }
    rewrite (decode_ok Sess cenc cdec cf H_codec sch f r1 es c uc rest s _ Hes eq_refl Hs1 Hlen Hsh).
    rewrite Hcrc, N.eqb_refl.
    unfold copy_out. cbn [rbuf rinp rst rsess rcrc rscratch rerr].
    replace (Nat.min (flen dest) (flen f)) with (flen dest) by lia.
    assert (Hscr : wf_frame sch (overlay f mem)).
    { (* the scratch frame keeps its shape *)
      apply (wf_of_cols sch _ L).
      * rewrite overlay_length; [exact Hml|]. rewrite Hlen, Hml. reflexivity.
      * apply (overlay_cols f mem (flen f) L); [rewrite Hlen, Hml; reflexivity|exact HL|apply (wf_cols sch); exact Hwf|exact Hmc]. }
    eexists. split; [reflexivity|].
    subst r1 r0. unfold batch_entries.
    rewrite after_after. unfold Batch.after; cbn [rerr rst rsess rinp rscratch rbuf].
    repeat split; try assumption; try reflexivity; try (destruct rest; reflexivity); apply Hscr.
Qed.

(* the same batch with a checksum token that does not match *)
Lemma read_batch_bad_crc (r : R) f u0 es c uc rest s dest :
  rerr r = None -> flen (rbuf r) = 0 ->
  rst r = (batch_entries f u0 es c uc ++ fst rest, snd rest) -> rsess r = s ->
  map fst es = cols_toks Sess cenc s sch f ->
  wf_frame sch f -> wf_frame sch dest -> scratch_ok (rscratch r) ->
  c <> crc_update 0 (firstn (used_of ((TLen (Z.of_nat (flen f)), u0) :: es)) (rinp r)) ->
  exists r', READ r dest = (RErr EIntegrity, r') /\ rerr r' = Some EIntegrity.
Proof.
  intros He Hb Hst Hs Hes Hwf Hwd Hsc Hc.
  unfold read. rewrite He, Hb. cbn [Nat.eqb].
  set (r0 := mkR (rinp r) (rst r) (rsess r) 0 (rscratch r) (rbuf r) (@None err)).
  assert (Hst0 : rst r0 = ((TLen (Z.of_nat (flen f)), u0) :: (es ++ (TCrc c, uc) :: fst rest), snd rest)).
  { subst r0. cbn [rst]. rewrite Hst. unfold batch_entries. simpl. rewrite <- app_assoc. reflexivity. }
  rewrite (rd_pop Sess r0 _ _ _ _ Hst0).
  set (r1 := Batch.after Sess r0 [(TLen (Z.of_nat (flen f)), u0)] (es ++ (TCrc c, uc) :: fst rest, snd rest) (rsess r0)).
  assert (Hcrc : N.eqb (crc_update (rcrc r1) (firstn (used_of es) (rinp r1))) c = false).
  { apply N.eqb_neq. intro E. apply Hc. rewrite <- E. subst r1 r0. unfold Batch.after; cbn [rcrc rinp].
    rewrite crc_update_app. change ((TLen (Z.of_nat (flen f)), u0) :: es) with ([(TLen (Z.of_nat (flen f)), u0)] ++ es).
    rewrite used_of_app, firstn_add. reflexivity. }
  assert (Hlen : length f = length sch) by (destruct Hwf; assumption).
  assert (Hnn : Z.ltb (Z.of_nat (flen f)) 0 = false) by (apply Z.ltb_ge; lia).
  assert (Hs1 : rsess r1 = s) by (subst r1 r0; cbn [rsess Batch.after]; exact Hs).
  rewrite Hnn, andb_false_r.
  destruct (Nat.leb (flen f) (flen dest)) eqn:Ele.
  - apply Nat.leb_le in Ele.
    replace (Z.leb (Z.of_nat (flen f)) (Z.of_nat (flen dest))) with true by (symmetry; apply Z.leb_le; lia).
    rewrite Nat2Z.id.
    assert (Hsh : same_shape f (ftake (flen f) dest)).
    { apply (same_shape_ftake sch); [exact Hwf|destruct Hwd; assumption|].
      eapply Forall_le_of_eq; [exact Ele|apply (wf_cols sch); exact Hwd]. }
    rewrite (decode_ok Sess cenc cdec cf H_codec sch f r1 es c uc rest s _ Hes eq_refl Hs1 Hlen Hsh).
    rewrite Hcrc. eexists. split; reflexivity.
  - apply Nat.leb_gt in Ele.
    replace (Z.leb (Z.of_nat (flen f)) (Z.of_nat (flen dest))) with false by (symmetry; apply Z.leb_gt; lia).
    rewrite Nat2Z.id.
    assert (Hsc1 : rscratch r1 = rscratch r) by reflexivity. rewrite Hsc1.
    destruct (ensure_shape (rscratch r) (flen f) Hsc) as (Hml & L & HL & Hmc).
    set (mem := ensure sch (rscratch r) (flen f)) in *.
    assert (Hsh : same_shape f (ftake (flen f) mem)).
    { apply (same_shape_ftake sch); [exact Hwf|exact Hml|]. eapply Forall_le_of_eq; [exact HL|exact Hmc]. }
    rewrite (decode_ok Sess cenc cdec cf H_codec sch f r1 es c uc rest s _ Hes eq_refl Hs1 Hlen Hsh).
    rewrite Hcrc. eexists. split; reflexivity.
Qed.

(* the script ends inside the batch (after the length token) with failure [term] *)
Lemma read_batch_cut term (r : R) f u0 es c uc s dest i :
  rerr r = None -> flen (rbuf r) = 0 ->
  rst r = (firstn i (batch_entries f u0 es c uc), term) -> rsess r = s ->
  map fst es = cols_toks Sess cenc s sch f ->
  wf_frame sch f -> wf_frame sch dest -> scratch_ok (rscratch r) ->
  1 <= i < length (batch_entries f u0 es c uc) ->
  let e := cut_err_tok cf term (nth i (map fst (batch_entries f u0 es c uc)) dflt) in
  exists r', READ r dest = (RErr e, r') /\ rerr r' = Some e.
Proof.
  intros He Hb Hst Hs Hes Hwf Hwd Hsc [Hi1 Hi] e.
  unfold read. rewrite He, Hb. cbn [Nat.eqb].
  set (r0 := mkR (rinp r) (rst r) (rsess r) 0 (rscratch r) (rbuf r) (@None err)).
  destruct i as [|i]; [lia|].
  unfold batch_entries in Hst, Hi, e. cbn [firstn] in Hst. cbn [length] in Hi. rewrite app_length in Hi. simpl in Hi.
  cbn [map nth] in e.
  assert (Hst0 : rst r0 = ((TLen (Z.of_nat (flen f)), u0) :: firstn i (es ++ [(TCrc c, uc)]), term))
    by (subst r0; cbn [rst]; exact Hst).
  rewrite (rd_pop Sess r0 _ _ _ _ Hst0).
  set (r1 := Batch.after Sess r0 [(TLen (Z.of_nat (flen f)), u0)] (firstn i (es ++ [(TCrc c, uc)]), term) (rsess r0)).
  assert (Hlen : length f = length sch) by (destruct Hwf; assumption).
  assert (Hnn : Z.ltb (Z.of_nat (flen f)) 0 = false) by (apply Z.ltb_ge; lia).
  assert (Hs1 : rsess r1 = s) by (subst r1 r0; cbn [rsess Batch.after]; exact Hs).
  rewrite Hnn, andb_false_r.
  assert (Hi' : i <= length es) by lia.
  destruct (Nat.leb (flen f) (flen dest)) eqn:Ele.
  + apply Nat.leb_le in Ele.
    replace (Z.leb (Z.of_nat (flen f)) (Z.of_nat (flen dest))) with true by (symmetry; apply Z.leb_le; lia).
    rewrite Nat2Z.id.
    assert (Hsh : same_shape f (ftake (flen f) dest)).
    { apply (same_shape_ftake sch); [exact Hwf|destruct Hwd; assumption|].
      eapply Forall_le_of_eq; [exact Ele|apply (wf_cols sch); exact Hwd]. }
    rewrite (decode_cut Sess cenc cdec cf H_codec term sch f r1 es c uc s _ i Hes eq_refl Hs1 Hlen Hsh Hi').
    eexists. split; reflexivity.
  + apply Nat.leb_gt in Ele.
    replace (Z.leb (Z.of_nat (flen f)) (Z.of_nat (flen dest))) with false by (symmetry; apply Z.leb_gt; lia).
    rewrite Nat2Z.id.
    assert (Hsc1 : rscratch r1 = rscratch r) by reflexivity. rewrite Hsc1.
    destruct (ensure_shape (rscratch r) (flen f) Hsc) as (Hml & L & HL & Hmc).
    set (mem := ensure sch (rscratch r) (flen f)) in *.
    assert (Hsh : same_shape f (ftake (flen f) mem)).
    { apply (same_shape_ftake sch); [exact Hwf|exact Hml|]. eapply Forall_le_of_eq; [exact HL|exact Hmc]. }
    rewrite (decode_cut Sess cenc cdec cf H_codec term sch f r1 es c uc s _ i Hes eq_refl Hs1 Hlen Hsh Hi').
    eexists. split; reflexivity.
Qed.

(* repair 3: the batch length n' disagrees with the element count of the first, gob-encoded
   column: an integrity error (before the checksum is even reached) *)
Lemma read_len_mismatch (r : R) n' u0 u1 cl u2 rest k ks dest :
  fix_collen cf = true -> sch = k :: ks ->
  rerr r = None -> flen (rbuf r) = 0 ->
  rst r = ((TLen (Z.of_nat n'), u0) :: (TFlag false, u1) :: (TCol cl, u2) :: fst rest, snd rest) ->
  length cl <> n' -> wf_frame sch dest -> scratch_ok (rscratch r) ->
  exists r', READ r dest = (RErr EIntegrity, r') /\ rerr r' = Some EIntegrity.
Proof.
  intros Hfix Hsch He Hb Hst Hne Hwd Hsc.
  unfold read. rewrite He, Hb. cbn [Nat.eqb].
  set (r0 := mkR (rinp r) (rst r) (rsess r) 0 (rscratch r) (rbuf r) (@None err)).
  assert (Hst0 : rst r0 = ((TLen (Z.of_nat n'), u0) :: ((TFlag false, u1) :: (TCol cl, u2) :: fst rest), snd rest))
    by (subst r0; cbn [rst]; exact Hst).
  rewrite (rd_pop Sess r0 _ _ _ _ Hst0).
  set (r1 := Batch.after Sess r0 [(TLen (Z.of_nat n'), u0)] ((TFlag false, u1) :: (TCol cl, u2) :: fst rest, snd rest) (rsess r0)).
  assert (Hnn : Z.ltb (Z.of_nat n') 0 = false) by (apply Z.ltb_ge; lia).
  rewrite Hnn, andb_false_r.
  (* decoding into any memory whose first column has exactly n' rows fails on the first column *)
  assert (Hdec : forall c0 mrest, length c0 = n' ->
            decode dscript dec_script Sess cdec cf r1 sch (c0 :: mrest) = DfErr EIntegrity).
  { intros c0 mrest Hc0. unfold decode. rewrite Hsch. cbn [fzero map dec_cols]. unfold dec_col.
    rewrite (rd_pop Sess r1 (TFlag false) u1 ((TCol cl, u2) :: fst rest) (snd rest) eq_refl).
    rewrite (rd_pop Sess (Batch.after Sess r1 [(TFlag false, u1)] ((TCol cl, u2) :: fst rest, snd rest) (rsess r1))
                    (TCol cl) u2 (fst rest) (snd rest) eq_refl).
    rewrite Hfix, map_length, Hc0.
    replace (Nat.eqb (length cl) n') with false by (symmetry; apply Nat.eqb_neq; exact Hne).
    reflexivity. }
  assert (Hlen : length dest = length sch) by (destruct Hwd; assumption).
  destruct (Nat.leb n' (flen dest)) eqn:Ele.
  - apply Nat.leb_le in Ele.
    replace (Z.leb (Z.of_nat n') (Z.of_nat (flen dest))) with true by (symmetry; apply Z.leb_le; lia).
    rewrite Nat2Z.id.
    destruct dest as [|c0 drest]; [rewrite Hsch in Hlen; discriminate|].
    cbn [ftake map]. rewrite Hdec.
    + eexists. split; reflexivity.
    + rewrite firstn_length. simpl in Ele. lia.
  - apply Nat.leb_gt in Ele.
    replace (Z.leb (Z.of_nat n') (Z.of_nat (flen dest))) with false by (symmetry; apply Z.leb_gt; lia).
    rewrite Nat2Z.id.
    assert (Hsc1 : rscratch r1 = rscratch r) by reflexivity. rewrite Hsc1.
    destruct (ensure_shape (rscratch r) n' Hsc) as (Hml & L & HL & Hmc).
    set (mem := ensure sch (rscratch r) n') in *.
    destruct mem as [|m0 mrest]; [rewrite Hsch in Hml; discriminate|].
    cbn [ftake map]. rewrite Hdec.
    + eexists. split; reflexivity.
    + rewrite firstn_length. inversion Hmc; subst. lia.
Qed.

(* all columns use the bulk custom codec, the length token says n' (any value), the column
   tokens are those of a frame f, and the checksum token does not match the bytes read:
   an integrity error.  This is where the batch length is protected by the checksum alone. *)
Lemma read_bulk_bad_crc (r : R) n' f u0 es c uc rest s dest :
  Forall (fun k => k = KCodecBulk) sch ->
  rerr r = None -> flen (rbuf r) = 0 ->
  rst r = ((TLen (Z.of_nat n'), u0) :: es ++ (TCrc c, uc) :: fst rest, snd rest) ->
  map fst es = cols_toks Sess cenc s sch f -> length f = length sch ->
  wf_frame sch dest -> scratch_ok (rscratch r) ->
  c <> crc_update 0 (firstn (used_of ((TLen (Z.of_nat n'), u0) :: es)) (rinp r)) ->
  exists r', READ r dest = (RErr EIntegrity, r') /\ rerr r' = Some EIntegrity.
Proof.
  intros Hall He Hb Hst Hes Hlf Hwd Hsc Hc.
  unfold read. rewrite He, Hb. cbn [Nat.eqb].
  set (r0 := mkR (rinp r) (rst r) (rsess r) 0 (rscratch r) (rbuf r) (@None err)).
  assert (Hst0 : rst r0 = ((TLen (Z.of_nat n'), u0) :: (es ++ (TCrc c, uc) :: fst rest), snd rest))
    by (subst r0; cbn [rst]; exact Hst).
  rewrite (rd_pop Sess r0 _ _ _ _ Hst0).
  set (r1 := Batch.after Sess r0 [(TLen (Z.of_nat n'), u0)] (es ++ (TCrc c, uc) :: fst rest, snd rest) (rsess r0)).
  assert (Hnn : Z.ltb (Z.of_nat n') 0 = false) by (apply Z.ltb_ge; lia).
  rewrite Hnn, andb_false_r.
  assert (Hdec : forall mem, length mem = length sch ->
            decode dscript dec_script Sess cdec cf r1 sch mem = DfErr EIntegrity).
  { intros mem Hm. unfold decode.
    destruct (dec_cols_bulk Sess cenc cdec cf sch Hall f r1 es ((TCrc c, uc) :: fst rest, snd rest) s (fzero mem)
                Hes eq_refl Hlf) as [f' Hf'].
    { unfold fzero. rewrite map_length. exact Hm. }
    rewrite Hf'.
    rewrite (rd_pop Sess (Batch.after Sess r1 es ((TCrc c, uc) :: fst rest, snd rest) (rsess r1))
                    (TCrc c) uc (fst rest) (snd rest) eq_refl).
    replace (N.eqb _ c) with false; [reflexivity|].
    symmetry. apply N.eqb_neq. intro E. apply Hc. rewrite <- E.
    subst r1 r0. unfold Batch.after; cbn [rcrc rinp].
    rewrite crc_update_app. change ((TLen (Z.of_nat n'), u0) :: es) with ([(TLen (Z.of_nat n'), u0)] ++ es).
    rewrite used_of_app, firstn_add. reflexivity. }
  assert (Hlen : length dest = length sch) by (destruct Hwd; assumption).
  destruct (Z.leb (Z.of_nat n') (Z.of_nat (flen dest))).
  - rewrite Hdec; [eexists; split; reflexivity|]. unfold ftake. rewrite map_length. exact Hlen.
  - assert (Hsc1 : rscratch r1 = rscratch r) by reflexivity. rewrite Hsc1.
    destruct (ensure_shape (rscratch r) (Z.to_nat (Z.of_nat n')) Hsc) as (Hml & _).
    rewrite Hdec; [eexists; split; reflexivity|]. unfold ftake. rewrite map_length. exact Hml.
Qed.

(* ---------------------------------------------------------------- a run of intact batches *)
(* [good s bs sc inp tinp]: the script [sc] and the input [inp] start with the tokens
   and bytes of the batches [bs] written from session state [s], each with the
   right checksum; [tinp] is the input and [sfin] the session state left after them *)
Inductive good : Sess -> list (list (list (list Z))) -> list (token * nat) -> list N -> list N -> Sess -> Prop :=
| good_nil s inp : good s [] [] inp inp s
| good_cons s f bs u0 es c uc sc' inp tinp sfin :
    map fst es = cols_toks Sess cenc s sch f ->
    c = crc_update 0 (firstn (used_of ((TLen (Z.of_nat (flen f)), u0) :: es)) inp) ->
    good (cols_sess Sess cenc s sch f) bs sc' (skipn (used_of (batch_entries f u0 es c uc)) inp) tinp sfin ->
    good s (f :: bs) (batch_entries f u0 es c uc ++ sc') inp tinp sfin.

(* the next Read on the tail fails with [fin], in any reader state *)
Definition tail_fails (fin : err) (tsc : dscript) (tinp : list N) (sfin : Sess) : Prop :=
  forall (r : R) dest, rst r = tsc -> rinp r = tinp -> rsess r = sfin -> rerr r = None -> flen (rbuf r) = 0 ->
    wf_frame sch dest -> scratch_ok (rscratch r) ->
    exists r', READ r dest = (RErr fin, r') /\ rerr r' = Some fin.

Lemma reads_sticky e dests : forall (r : R), rerr r = Some e -> READS r dests = map (fun _ => RErr e) dests.
Proof.
  induction dests as [|d ds IH]; intros r H; simpl; [reflexivity|].
  unfold read. rewrite H. f_equal. apply IH. exact H.
Qed.

Lemma spec_reads_done fin p ds : flen p = 0 -> spec_reads fin [] p ds = map (fun _ => RErr fin) ds.
Proof. intro H. induction ds as [|d ds IH]; simpl; [reflexivity|]. rewrite H. simpl. f_equal. exact IH. Qed.

Theorem reads_good fin tsc tinp sfin : tail_fails fin tsc tinp sfin ->
  forall dests bs s sc (r : R),
  good s bs sc (rinp r) tinp sfin ->
  rst r = (sc ++ fst tsc, snd tsc) -> rsess r = s -> rerr r = None -> scratch_ok (rscratch r) ->
  Forall (wf_frame sch) bs -> Forall (wf_frame sch) dests ->
  READS r dests = spec_reads fin bs (rbuf r) (map flen dests).
Proof.
  intro Htail. induction dests as [|d ds IH]; intros bs s sc r Hg Hst Hs He Hsc Hbs Hds; [reflexivity|].
  inversion Hds as [|? ? Hd Hds']; subst.
  cbn [reads map spec_reads].
  destruct (Nat.eqb (flen (rbuf r)) 0) eqn:Eb.
  - apply Nat.eqb_eq in Eb.
    inversion Hg as [s0 inp0 | s0 f bs' u0 es c uc sc' inp0 tinp0 sfin0 Hes Hc Hg']; subst.
    + (* no batch left: the tail *)
      simpl in Hst.
      assert (Hst' : rst r = tsc) by (rewrite Hst; destruct tsc; reflexivity).
      destruct (Htail r d Hst' eq_refl eq_refl He Eb Hd Hsc) as (r' & Hr & He').
      rewrite Hr. f_equal.
      rewrite (reads_sticky fin ds r' He'), spec_reads_done by exact Eb. rewrite map_map. reflexivity.
    + inversion Hbs as [|? ? Hf Hbs']; subst.
      rewrite <- app_assoc in Hst.
      destruct (read_batch r f u0 es _ uc (sc' ++ fst tsc, snd tsc) (rsess r) d He Eb Hst eq_refl Hes Hf Hd Hsc eq_refl)
        as (r' & Hr & He' & Hst' & Hs' & Hi' & Hsc' & Hb').
      rewrite Hr.
      assert (Hnext : READS r' ds = spec_reads fin bs' (rbuf r') (map flen ds)).
      { apply (IH bs' (rsess r') sc' r'); try assumption; try reflexivity.
        rewrite Hs', Hi'. exact Hg'. }
      rewrite Hb' in Hnext.
      destruct (Nat.leb (flen f) (flen d)); (f_equal; exact Hnext).
  - (* rows pending in d.buf *)
    unfold read. rewrite He, Eb. unfold copy_out. f_equal.
    match goal with |- READS ?r1 ds = _ => specialize (IH bs (rsess r) sc r1) end.
    cbn [rbuf rinp rst rsess rerr rscratch] in IH. apply IH; try assumption; reflexivity.
Qed.

End Stream.

(* C07 — list and frame facts used by the proofs. *)
From Coq Require Import List ZArith NArith Arith Bool Lia.
Import ListNotations.
Require Import BS.Common.Util BS.C07.Model.

Lemma firstn_add {A} (l : list A) a b : firstn (a + b) l = firstn a l ++ firstn b (skipn a l).
Proof.
  revert l; induction a as [|a IH]; intros l; simpl; [reflexivity|].
  destruct l as [|x l]; simpl.
  - rewrite firstn_nil. reflexivity.
  - rewrite IH. reflexivity.
Qed.

Lemma firstn_app_exact {A} (l1 l2 : list A) n : n = length l1 -> firstn n (l1 ++ l2) = l1.
Proof. intros ->. rewrite firstn_app, Nat.sub_diag, firstn_all. simpl. apply app_nil_r. Qed.

Lemma skipn_app_exact {A} (l1 l2 : list A) n : n = length l1 -> skipn n (l1 ++ l2) = l2.
Proof. intros ->. rewrite skipn_app, Nat.sub_diag, skipn_all. reflexivity. Qed.

(* ---- frames ---- *)
Definition wf_frame (sch : list kind) (f : list (list (list Z))) : Prop :=
  length f = length sch /\ Forall (fun cl => length cl = flen f) f.

(* every column of [mem] has exactly the length of the corresponding column of [f] *)
Definition same_shape (f mem : list (list (list Z))) : Prop :=
  Forall2 (fun (cl view : list (list Z)) => length view = length cl) f mem.

Lemma wf_flen_col sch f cl : wf_frame sch f -> In cl f -> length cl = flen f.
Proof. intros [_ H] Hin. rewrite Forall_forall in H. apply H. exact Hin. Qed.

Lemma same_shape_ftake sch f mem :
  wf_frame sch f -> length mem = length sch ->
  Forall (fun c => flen f <= length c) mem ->
  same_shape f (ftake (flen f) mem).
Proof.
  intros [Hl Hc] Hm Hcap. unfold same_shape, ftake.
  assert (L : length f = length mem) by congruence.
  set (n := flen f) in *. clearbody n. clear Hl Hm.
  revert mem L Hcap. induction f as [|cl f IH]; intros [|c mem] L Hcap; simpl in *; try discriminate; constructor.
  - inversion Hc; inversion Hcap; subst. rewrite firstn_length. lia.
  - inversion Hc; inversion Hcap; subst. apply IH; [assumption|lia|assumption].
Qed.

Lemma zero_cell_nth c i : nth i (zero_cell c) 0%Z = 0%Z.
Proof.
  unfold zero_cell. revert i; induction c as [|x c IH]; intros [|i]; simpl; auto.
Qed.

Lemma merge_from_zero old new : (forall i, nth i old 0%Z = 0%Z) -> forall i, merge_from i old new = new.
Proof.
  intro H. induction new as [|x r IH]; intro i; simpl; [reflexivity|].
  rewrite IH, H. destruct (Z.eqb x 0) eqn:E; [apply Z.eqb_eq in E; subst|]; reflexivity.
Qed.

(* decoding into zeroed memory of the right length yields exactly the data sent *)
Lemma gob_into_zero k view data :
  length view = length data -> gob_into k (map zero_cell view) data = data.
Proof.
  revert data; induction view as [|v vs IH]; intros [|d ds] H; simpl in *; try discriminate; [reflexivity|].
  f_equal.
  - destruct k; try reflexivity. unfold merge_cell. apply merge_from_zero. intro i. apply zero_cell_nth.
  - apply IH. lia.
Qed.

Lemma flen_ftake n f : Forall (fun c => n <= length c) f -> f <> [] -> flen (ftake n f) = n.
Proof.
  destruct f as [|c f]; [congruence|]. intros H _. inversion H; subst. simpl. rewrite firstn_length. lia.
Qed.

Lemma fmake_length sch n : length (fmake sch n) = length sch.
Proof. unfold fmake. apply map_length. Qed.

Lemma fmake_cols sch n : Forall (fun c => length c = n) (fmake sch n).
Proof.
  unfold fmake. apply Forall_forall. intros c Hc. apply in_map_iff in Hc as (k & <- & _). apply repeat_length.
Qed.

Lemma overlay_length new old : length new = length old -> length (overlay new old) = length old.
Proof.
  revert old; induction new as [|n ns IH]; intros [|o os] H; simpl in *; try discriminate; [reflexivity|].
  f_equal. apply IH. lia.
Qed.

Lemma overlay_cols new old a b :
  length new = length old -> a <= b ->
  Forall (fun c => length c = a) new -> Forall (fun c => length c = b) old ->
  Forall (fun c => length c = b) (overlay new old).
Proof.
  intros L Hab. revert old L. induction new as [|n ns IH]; intros [|o os] L Hn Ho; simpl in *; try discriminate; constructor.
  - inversion Hn; inversion Ho; subst. rewrite app_length, skipn_length. lia.
  - inversion Hn; inversion Ho; subst. apply IH; [lia|assumption|assumption].
Qed.

Lemma Forall_flen (f : list (list (list Z))) n : Forall (fun c => length c = n) f -> f <> [] -> flen f = n.
Proof. destruct f as [|c f]; [congruence|]. intros H _. inversion H; subst. reflexivity. Qed.

Lemma wf_of_cols sch (f : list (list (list Z))) n :
  length f = length sch -> Forall (fun c => length c = n) f -> wf_frame sch f.
Proof.
  intros L H. split; [exact L|]. destruct f as [|c f]; [constructor|].
  rewrite (Forall_flen (c :: f) n H) by discriminate. exact H.
Qed.

Lemma wf_cols sch f : wf_frame sch f -> Forall (fun c => length c = flen f) f.
Proof. intros [_ H]. exact H. Qed.

(* a run of [spec_reads fin] reports no other error than [fin] *)
Lemma spec_reads_errs fin e ds : forall bs p, In (RErr e) (spec_reads fin bs p ds) -> e = fin.
Proof.
  induction ds as [|d ds IH]; intros bs p H; simpl in H; [contradiction|].
  destruct (Nat.eqb (flen p) 0).
  - destruct bs as [|b bs].
    + destruct H as [H|H]; [congruence|exact (IH _ _ H)].
    + destruct (Nat.leb (flen b) d); destruct H as [H|H]; try discriminate; exact (IH _ _ H).
  - destruct H as [H|H]; [discriminate|exact (IH _ _ H)].
Qed.

Lemma copy_into_same (view data : list (list Z)) : length view = length data -> copy_into view data = data.
Proof.
  revert data; induction view as [|v vs IH]; intros [|d ds] H; simpl in *; try discriminate; [reflexivity|].
  f_equal. apply IH. lia.
Qed.

(* C07 — the token codec given by a script: a list of (token, bytes consumed)
   followed by a failure.  Used (a) by the proofs, as the normal form of any
   token decoder on a given input ([describes] in Sim.v), and (b) by the
   correspondence, where the script is a recording of the real gob decoder. *)
From Coq Require Import List ZArith NArith Bool.
Import ListNotations.
Require Export BS.C07.Model.

Inductive sterm := SIoEOF | SUnexpected | SMalformed | SStop.

Definition dscript := (list (token * nat) * sterm)%type.

Definition fail_of (St : Type) (t : sterm) : dres St :=
  match t with
  | SIoEOF => DIoEOF | SUnexpected => DUnexpectedEOF | SMalformed => DMalformed | SStop => DStop
  end.

Definition dec_script (st : dscript) (inp : list N) : dres dscript :=
  match fst st with
  | (t, used) :: r => DOk t used (r, snd st)
  | [] => fail_of dscript (snd st)
  end.

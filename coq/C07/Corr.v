(* C07 — correspondence drivers: evaluated by vm_compute on harness case files.

   The token codec of the model is instantiated by a RECORDING of the real gob:
   - for the encoder, [enc_script] hands out the real messages of each token in
     order and logs the tokens the model emits (so the model's CRC values,
     computed by Crc.v over the real bytes, are compared with the real ones);
   - for the reader, [dec_script] replays what a plain gob.Decoder returned on
     the (possibly damaged) real bytes: token + bytes consumed, then gob's
     failure, or "no information" ([SStop]). *)
From Coq Require Import List ZArith NArith Bool.
Import ListNotations.
Require Export BS.Common.Util BS.C07.Model BS.C07.Script.
Local Open Scope Z_scope.

Record stream := mkStream {
  ssch : list kind;
  sbatches : list (list (list (list Z)));
  stoks : list (token * list N)      (* oracle tokens of the undamaged stream with their real bytes *)
}.

(* positions and byte counts coming from the harness are binary numbers (N): a unary
   literal of a few thousand per case would dominate the cost of checking the case file *)
Inductive damage := DFlip (bit : N) | DTrunc (len : N) | DBurst (pos : N) (xors : list N).
Inductive ocrash := ONone | OOom | OHuge | OHang | OCrash.

Inductive case :=
| CRound (s : stream) (dests : list nat) (obs : list rres) (cr : ocrash)
| CDamage (s : stream) (d : damage)
          (* oracle script of the damaged bytes: the first [keep] entries of the original script,
             then [extra], then (if [resume] = Some k) the original entries from index k on; then [term] *)
          (keep : N) (extra : list (token * N)) (resume : option N) (term : sterm)
          (dests : list nat) (obs : list rres) (cr : ocrash).

(* ---------------------------------------------------------------- equality tests *)
Definition cell_eqb := list_eqb Z.eqb.
Definition col_eqb := list_eqb cell_eqb.
Definition frame_eqb := list_eqb col_eqb.

Definition err_eqb (a b : err) : bool :=
  match a, b with
  | EEOF, EEOF | ERawEOF, ERawEOF | EUnexpected, EUnexpected | EMalformed, EMalformed
  | EIntegrity, EIntegrity | ENoCodec, ENoCodec | EBadLen, EBadLen | EUnknown, EUnknown => true
  | _, _ => false
  end.

Definition rres_eqb (a b : rres) : bool :=
  match a, b with
  | ROk n f, ROk m g => Nat.eqb n m && frame_eqb f g
  | RErr e, RErr e' => err_eqb e e'
  | RPanic, RPanic => true
  | _, _ => false
  end.

Definition token_eqb (a b : token) : bool :=
  match a, b with
  | TLen n, TLen m => Z.eqb n m
  | TFlag x, TFlag y => Bool.eqb x y
  | TCol d, TCol e => col_eqb d e
  | TVal v, TVal w => cell_eqb v w
  | TBulk d, TBulk e => col_eqb d e
  | TCrc x, TCrc y => N.eqb x y
  | _, _ => false
  end.

Definition no_crash (c : ocrash) : bool := match c with ONone => true | _ => false end.

(* ---------------------------------------------------------------- scripted gob *)
Definition escript := (list (list N) * list token)%type.
Definition enc_script (st : escript) (t : token) : list N * escript :=
  match fst st with
  | m :: r => (m, (r, snd st ++ [t]))
  | [] => ([], ([], snd st ++ [t]))
  end.

Definition tok_bytes (tm : token * list N) : list N := snd tm.
Definition stream_bytes (s : stream) : list N := flat_map tok_bytes (stoks s).
Definition orig_script (s : stream) : list (token * nat) :=
  map (fun tm => (fst tm, length (tok_bytes tm))) (stoks s).

(* destination frames are filled with this value in every field before each Read *)
Definition junk : Z := 7777.
Definition junk_frame (sch : list kind) (m : nat) : list (list (list Z)) :=
  map (fun k => repeat (repeat junk (arity k)) m) sch.

Definition model_reads (cf : cfg) (s : stream) (bytes : list N) (sc : dscript) (dests : list nat) : list rres :=
  reads dscript dec_script Z cdec_delta cf (ssch s)
        (r_init dscript Z bytes sc 0) (map (junk_frame (ssch s)) dests).

(* ---------------------------------------------------------------- damage *)
Fixpoint xor_at (p : list N) (pos : nat) (xs : list N) : list N :=
  match p, pos with
  | [], _ => []
  | x :: r, S pos' => x :: xor_at r pos' xs
  | x :: r, O => match xs with [] => p | y :: ys => N.lxor x y :: xor_at r O ys end
  end.

Definition apply_damage (p : list N) (d : damage) : list N :=
  match d with
  | DFlip k => flip_bit p (N.to_nat k)
  | DTrunc n => firstn (N.to_nat n) p
  | DBurst pos xs => xor_at p (N.to_nat pos) xs
  end.

(* first damaged byte offset *)
Definition damage_pos (d : damage) : nat :=
  match d with DFlip k => N.to_nat (N.div k 8) | DTrunc n => N.to_nat n | DBurst pos _ => N.to_nat pos end.

Definition damaged_script (s : stream) (keep : N) (extra : list (token * N)) (resume : option N) : list (token * nat) :=
  firstn (N.to_nat keep) (orig_script s) ++ map (fun e => (fst e, N.to_nat (snd e))) extra
  ++ match resume with Some k => skipn (N.to_nat k) (orig_script s) | None => [] end.

(* ---------------------------------------------------------------- mismatches: model vs implementation *)
Definition has_unknown (l : list rres) : bool :=
  existsb (fun r => match r with RErr EUnknown => true | _ => false end) l.

(* token boundaries (byte offsets at which a token starts), in order *)
Fixpoint tok_starts (off : nat) (toks : list (token * list N)) : list nat :=
  match toks with [] => [] | tm :: r => off :: tok_starts (off + length (tok_bytes tm)) r end.

(* the assumptions made about gob's behaviour on a truncated input, checked on the recording:
   cut where a token starts -> io.EOF, elsewhere -> io.ErrUnexpectedEOF; the tokens before are intact *)
Definition trunc_oracle_ok (s : stream) (n : nat) (keep : nat) (nextra : nat) (term : sterm) : bool :=
  Nat.eqb nextra 0
  && Nat.eqb keep (length (filter (fun e => Nat.leb e n) (skipn 1 (tok_starts 0 (stoks s) ++ [length (flat_map tok_bytes (stoks s))]))))
  && if existsb (Nat.eqb n) (tok_starts 0 (stoks s))
     then match term with SIoEOF => true | _ => false end
     else match term with SUnexpected => true | _ => false end.

Definition encoder_agrees (s : stream) : bool :=
  let w := encode_all escript enc_script Z cenc_delta (map snd (stoks s), []) 0 (ssch s) (sbatches s) in
  list_eqb N.eqb (wout w) (stream_bytes s)
  && list_eqb token_eqb (snd (wst w)) (map fst (stoks s)).

Definition agrees (c : case) : bool :=
  match c with
  | CRound s dests obs cr =>
      no_crash cr
      && encoder_agrees s
      && list_eqb rres_eqb (model_reads code_cfg s (stream_bytes s) (orig_script s, SIoEOF) dests) obs
  | CDamage s d keep extra resume term dests obs cr =>
      let bytes := apply_damage (stream_bytes s) d in
      let m := model_reads code_cfg s bytes (damaged_script s keep extra resume, term) dests in
      (match d with
       | DTrunc n => trunc_oracle_ok s (N.to_nat n) (N.to_nat keep)
                       (length extra + match resume with Some _ => 1 | None => 0 end) term
       | _ => true end)
      && (has_unknown m || (no_crash cr && list_eqb rres_eqb m obs))
  end.

(* ---------------------------------------------------------------- violations: the property, on observed data only *)
(* ok results, then errors only (the first error is sticky), no panic *)
Fixpoint shape_ok (seen_err : option err) (obs : list rres) : bool :=
  match obs with
  | [] => true
  | ROk n f :: r =>
      match seen_err with
      | Some _ => false
      | None => Nat.eqb n (flen f) && forallb (fun cl => Nat.eqb (length cl) n) f && shape_ok None r
      end
  | RErr e :: r =>
      match seen_err with
      | Some e0 => err_eqb e e0 && shape_ok seen_err r
      | None => shape_ok (Some e) r
      end
  | RPanic :: _ => false
  end.

Definition first_err (obs : list rres) : option err :=
  match flat_map (fun r => match r with RErr e => [e] | _ => [] end) obs with
  | e :: _ => Some e | [] => None
  end.

Fixpoint is_prefix (a b : list (list Z)) : bool :=
  match a, b with
  | [], _ => true
  | x :: a', y :: b' => cell_eqb x y && is_prefix a' b'
  | _ :: _, [] => false
  end.

(* exactly the rows written, in order, then end-of-stream *)
Definition round_ok (sch : list kind) (batches : list (list (list (list Z)))) (obs : list rres) : bool :=
  let nc := length sch in
  shape_ok None obs
  && frame_eqb (colcat nc (delivered obs)) (colcat nc batches)
  && match first_err obs with Some EEOF => true | _ => false end.

(* offsets at which a batch ends, with the number of batches complete at that point *)
Fixpoint batch_ends (off nb : nat) (toks : list (token * list N)) : list (nat * nat) :=
  match toks with
  | [] => []
  | tm :: r =>
      let off' := (off + length (tok_bytes tm))%nat in
      match fst tm with
      | TCrc _ => (off', S nb) :: batch_ends off' (S nb) r
      | _ => batch_ends off' nb r
      end
  end.

(* number of batches that end at or before byte offset p = index of the batch containing byte p *)
Definition batch_of (s : stream) (p : nat) : nat :=
  length (filter (fun e => Nat.leb (fst e) p) (batch_ends 0 0 (stoks s))).

(* a damaged stream: the rows delivered are a correct prefix of the rows written, none
   of them from a batch after the damaged one, then an error that is not end-of-stream;
   no panic, no crash, no runaway allocation *)
Definition damage_ok (s : stream) (d : damage) (obs : list rres) (cr : ocrash) : bool :=
  let nc := length (ssch s) in
  let k := batch_of s (damage_pos d) in
  let at_batch_end :=
    match d with
    | DTrunc n => N.eqb n 0 || existsb (fun e => Nat.eqb (fst e) (N.to_nat n)) (batch_ends 0 0 (stoks s))
    | _ => false
    end in
  if at_batch_end then
    (* the truncated stream is itself a valid stream of the first k batches *)
    no_crash cr && round_ok (ssch s) (firstn k (sbatches s)) obs
  else
    let got := colcat nc (delivered obs) in
    let want := colcat nc (firstn (S k) (sbatches s)) in
    no_crash cr
    && shape_ok None obs
    && forallb (fun p => is_prefix (fst p) (snd p)) (combine got want)
    && match first_err obs with Some EEOF => false | Some _ => true | None => false end.

Definition holds (c : case) : bool :=
  match c with
  | CRound s dests obs cr => no_crash cr && round_ok (ssch s) (sbatches s) obs
  | CDamage s d _ _ _ _ _ obs cr => damage_ok s d obs cr
  end.

Definition mismatches (cs : list case) : list nat := bad_indices agrees cs.
Definition violations (cs : list case) : list nat := bad_indices holds cs.

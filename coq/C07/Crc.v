(* C07 — CRC-32 (IEEE 802.3, reflected, polynomial 0xEDB88320) as computed by
   Go's hash/crc32 with crc32.IEEETable; executable definitions only (proofs in
   CrcProofs.v).

   Go (hash/crc32/crc32_generic.go):
     simpleMakeTable: for i in 0..255: crc := i; 8 times:
                         if crc&1 == 1 { crc = (crc >> 1) ^ poly } else { crc >>= 1 }
     simpleUpdate(crc, tab, p): crc = ^crc
                                for v in p { crc = tab[byte(crc)^v] ^ (crc >> 8) }
                                return ^crc
   digest: Reset: crc = 0;  Write(p): crc = update(crc, p);  Sum32: crc.
   The register is an N below 2^32; bytes are N (only bits 0..7 are used). *)
From Coq Require Import List NArith Bool.
Import ListNotations.
Local Open Scope N_scope.

Definition poly : N := 0xEDB88320.
Definition mask32 : N := 0xFFFFFFFF.

(* ---- bit-serial form: one input bit, least significant bit of a byte first ---- *)
Definition crc_bit (s : N) (b : bool) : N :=
  let s' := N.shiftr s 1 in
  if xorb (N.testbit s 0) b then N.lxor s' poly else s'.

Definition byte_bits (x : N) : list bool :=
  map (N.testbit x) [0; 1; 2; 3; 4; 5; 6; 7].

Definition crc_bits (s : N) (bs : list bool) : N := fold_left crc_bit bs s.

Definition crc_byte_serial (s : N) (x : N) : N := crc_bits s (byte_bits x).

(* ---- byte-table form, as Go computes it ---- *)
(* the inner statement of simpleMakeTable *)
Definition tstep (c : N) : N :=
  if N.testbit c 0 then N.lxor (N.shiftr c 1) poly else N.shiftr c 1.
Definition tstep8 (c : N) : N := tstep (tstep (tstep (tstep (tstep (tstep (tstep (tstep c))))))).

Definition table : list N := Eval vm_compute in map (fun i => tstep8 (N.of_nat i)) (seq 0 256).

Definition crc_byte_table (s : N) (x : N) : N :=
  N.lxor (nth (N.to_nat (N.land (N.lxor s x) 255)) table 0) (N.shiftr s 8).

(* ---- the digest ---- *)
(* simpleUpdate *)
Definition crc_update (crc : N) (p : list N) : N :=
  N.lxor (fold_left crc_byte_table p (N.lxor crc mask32)) mask32.

(* the same with the bit-serial kernel (what the theorems are about) *)
Definition bits_of (p : list N) : list bool := flat_map byte_bits p.
Definition crc_update_serial (crc : N) (p : list N) : N :=
  N.lxor (crc_bits (N.lxor crc mask32) (bits_of p)) mask32.

(* crc32.ChecksumIEEE *)
Definition crc32 (p : list N) : N := crc_update 0 p.

(* ---- damage on byte strings ---- *)
(* flip bit k (bit k mod 8, LSB = 0, of byte k / 8) *)
Fixpoint flip_bit (p : list N) (k : nat) : list N :=
  match p with
  | [] => []
  | x :: r =>
      if Nat.ltb k 8 then N.lxor x (N.shiftl 1 (N.of_nat k)) :: r
      else x :: flip_bit r (k - 8)
  end.

Fixpoint flip_nth (l : list bool) (k : nat) : list bool :=
  match l, k with
  | [], _ => []
  | b :: r, O => negb b :: r
  | b :: r, S k' => b :: flip_nth r k'
  end.

(* C07 — the reader only ever sees its input through successive calls of the
   token decoder.  If a script [describes] what the decoder returns on an input,
   the reader over the real decoder and the reader over the scripted decoder
   return the same results.  A script may end with [SStop] = "nothing is known
   about the decoder beyond this point"; then the two runs agree as long as the
   scripted run does not ask for more (it reports [EUnknown] when it does).
   All later theorems are proved about scripts. *)
From Coq Require Import List ZArith NArith Bool Lia.
Import ListNotations.
Require Import BS.C07.Model BS.C07.Script.

Section Sim.
Variable St : Type.
Variable dec_tok : St -> list N -> dres St.
Variable Sess : Type.
Variable cdec : Sess -> list Z -> list Z * Sess.
Variable cf : cfg.

Inductive describes : St -> list N -> dscript -> Prop :=
| desc_stop st inp : describes st inp ([], SStop)
| desc_fail st inp term :
    dec_tok st inp = fail_of St term -> describes st inp ([], term)
| desc_ok st inp t used st' rest term :
    dec_tok st inp = DOk t used st' ->
    describes st' (skipn used inp) (rest, term) ->
    describes st inp ((t, used) :: rest, term).

Definition sim (r : rstate St Sess) (r' : rstate dscript Sess) : Prop :=
  rinp r = rinp r' /\ rsess r = rsess r' /\ rcrc r = rcrc r' /\ rscratch r = rscratch r'
  /\ rbuf r = rbuf r' /\ rerr r = rerr r' /\ describes (rst r) (rinp r) (rst r').

Definition sim_tres (a : tres St Sess) (b : tres dscript Sess) : Prop :=
  match a, b with
  | TokOk t r, TokOk t' r' => t = t' /\ sim r r'
  | TokIoEOF, TokIoEOF | TokUnexpected, TokUnexpected
  | TokMalformed, TokMalformed | TokStop, TokStop => True
  | _, _ => False
  end.

Lemma rd_tok_sim r r' : sim r r' ->
  rd_tok dscript dec_script Sess r' = TokStop
  \/ sim_tres (rd_tok St dec_tok Sess r) (rd_tok dscript dec_script Sess r').
Proof.
  intros (Hi & Hs & Hc & Hsc & Hb & He & Hd).
  unfold rd_tok, dec_script.
  remember (rst r) as st eqn:Est. remember (rinp r) as inp eqn:Einp. remember (rst r') as sc eqn:Esc.
  destruct Hd as [st inp | st inp term E | st inp t used st' rest term E D]; simpl.
  - left. reflexivity.
  - right. rewrite E. destruct term; simpl; exact I.
  - right. rewrite E. simpl. split; [reflexivity|].
    unfold sim; simpl. rewrite <- Hi, Hc. repeat split; assumption.
Qed.

Definition sim_dc (a : dcres St Sess) (b : dcres dscript Sess) : Prop :=
  match a, b with
  | DcOk cl r, DcOk cl' r' => cl = cl' /\ sim r r'
  | DcErr e, DcErr e' => e = e'
  | _, _ => False
  end.

Definition sim_df (a : dfres St Sess) (b : dfres dscript Sess) : Prop :=
  match a, b with
  | DfOk f r, DfOk f' r' => f = f' /\ sim r r'
  | DfErr e, DfErr e' => e = e'
  | _, _ => False
  end.

(* both token reads, resolved: either the script stopped, or the same outcome on both sides *)
Ltac tok_cases r r' H :=
  let T := fresh "T" in
  let E := fresh "Estop" in
  destruct (rd_tok_sim r r' H) as [E|T];
  [ rewrite E; simpl; try (left; reflexivity)
  | destruct (rd_tok St dec_tok Sess r) as [? ?| | | |], (rd_tok dscript dec_script Sess r') as [? ?| | | |];
    simpl in T; try contradiction; try (right; reflexivity); try (left; reflexivity) ].

Lemma dec_vals_sim view : forall r r', sim r r' ->
  dec_vals dscript dec_script Sess cdec r' view = DcErr EUnknown
  \/ sim_dc (dec_vals St dec_tok Sess cdec r view) (dec_vals dscript dec_script Sess cdec r' view).
Proof.
  induction view as [|v rest IH]; intros r r' H; simpl.
  - right. split; [reflexivity|exact H].
  - tok_cases r r' H.
    destruct T as [<- S1].
    destruct t; simpl; try (right; reflexivity).
    destruct S1 as (Hi & Hs & Hc & Hsc & Hb & He & Hd).
    rewrite <- Hs. destruct (cdec (rsess r0) v0) as [x s'].
    match goal with |- _ \/ sim_dc (match dec_vals _ _ _ _ ?a _ with _ => _ end)
                                   (match dec_vals _ _ _ _ ?b _ with _ => _ end) =>
      assert (S2 : sim a b) by (unfold sim; simpl; repeat split; assumption);
      destruct (IH a b S2) as [IHs|IHs];
      [ rewrite IHs; left; reflexivity
      | destruct (dec_vals St dec_tok Sess cdec a rest), (dec_vals dscript dec_script Sess cdec b rest) ]
    end; simpl in IHs |- *; try contradiction.
    + right. destruct IHs as [-> S3]. split; [reflexivity|exact S3].
    + right. exact IHs.
Qed.

Lemma dec_col_sim k view r r' : sim r r' ->
  dec_col dscript dec_script Sess cdec cf r' k view = DcErr EUnknown
  \/ sim_dc (dec_col St dec_tok Sess cdec cf r k view) (dec_col dscript dec_script Sess cdec cf r' k view).
Proof.
  intro H. unfold dec_col. tok_cases r r' H.
  destruct T as [<- S1]. destruct t; simpl; try (right; reflexivity).
  destruct b.
  - destruct k; simpl; try (right; reflexivity).
    + apply dec_vals_sim. exact S1.
    + tok_cases r0 r1 S1.
      destruct T as [<- S2]. destruct t; simpl; try (right; reflexivity).
      right. split; [reflexivity|exact S2].
  - tok_cases r0 r1 S1.
    destruct T as [<- S2]. destruct t; simpl; try (right; reflexivity).
    right. destruct (fix_collen cf && negb (Nat.eqb (length data) (length view))); simpl; [reflexivity|].
    split; [reflexivity|exact S2].
Qed.

Lemma dec_cols_sim sch : forall mem r r', sim r r' ->
  dec_cols dscript dec_script Sess cdec cf r' sch mem = DfErr EUnknown
  \/ sim_df (dec_cols St dec_tok Sess cdec cf r sch mem) (dec_cols dscript dec_script Sess cdec cf r' sch mem).
Proof.
  induction sch as [|k ks IH]; intros mem r r' H; simpl.
  - right. split; [reflexivity|exact H].
  - destruct mem as [|view rest]; [right; split; [reflexivity|exact H]|].
    destruct (dec_col_sim k view r r' H) as [C|C]; [rewrite C; left; reflexivity|].
    destruct (dec_col St dec_tok Sess cdec cf r k view), (dec_col dscript dec_script Sess cdec cf r' k view);
      simpl in C; try contradiction.
    + destruct C as [<- S1].
      destruct (IH rest r0 r1 S1) as [IHs|IHs]; [rewrite IHs; left; reflexivity|].
      destruct (dec_cols St dec_tok Sess cdec cf r0 ks rest), (dec_cols dscript dec_script Sess cdec cf r1 ks rest);
        simpl in IHs |- *; try contradiction.
      * right. destruct IHs as [<- S2]. split; [reflexivity|exact S2].
      * right. exact IHs.
    + right. exact C.
Qed.

Lemma decode_sim sch mem r r' : sim r r' ->
  decode dscript dec_script Sess cdec cf r' sch mem = DfErr EUnknown
  \/ sim_df (decode St dec_tok Sess cdec cf r sch mem) (decode dscript dec_script Sess cdec cf r' sch mem).
Proof.
  intro H. unfold decode.
  destruct (dec_cols_sim sch (fzero mem) r r' H) as [C|C]; [rewrite C; left; reflexivity|].
  destruct (dec_cols St dec_tok Sess cdec cf r sch (fzero mem)),
           (dec_cols dscript dec_script Sess cdec cf r' sch (fzero mem)); simpl in C; try contradiction.
  - destruct C as [<- S1].
    assert (Ec : rcrc r0 = rcrc r1) by (destruct S1 as (_ & _ & Hc & _); exact Hc).
    tok_cases r0 r1 S1.
    destruct T as [<- S2]. destruct t; simpl; try (right; reflexivity).
    right. rewrite Ec. destruct (N.eqb (rcrc r1) c); simpl; [split; [reflexivity|exact S2]|reflexivity].
  - right. exact C.
Qed.

Definition sim_read (a : rres * rstate St Sess) (b : rres * rstate dscript Sess) : Prop :=
  fst b = RErr EUnknown \/ (fst a = fst b /\ sim (snd a) (snd b)).

Lemma set_err_sim r r' e : sim r r' -> sim (set_err St Sess r e) (set_err dscript Sess r' e).
Proof.
  intros (Hi & Hs & Hc & Hsc & Hb & He & Hd). unfold sim, set_err; simpl. repeat split; assumption.
Qed.

Lemma copy_out_sim r r' dest : sim r r' ->
  sim_read (copy_out St Sess r dest) (copy_out dscript Sess r' dest).
Proof.
  intros (Hi & Hs & Hc & Hsc & Hb & He & Hd). right. unfold copy_out, sim; simpl.
  rewrite Hb. repeat split; assumption.
Qed.

Lemma read_sim sch r r' dest : sim r r' ->
  sim_read (read St dec_tok Sess cdec cf sch r dest) (read dscript dec_script Sess cdec cf sch r' dest).
Proof.
  intro H. pose proof H as (Hi & Hs & Hc & Hsc & Hb & He & Hd).
  unfold read. rewrite <- He. destruct (rerr r) as [e|].
  - right. split; [reflexivity|exact H].
  - rewrite <- Hb. destruct (Nat.eqb (flen (rbuf r)) 0); [|apply copy_out_sim; exact H].
    match goal with |- sim_read (match rd_tok _ _ _ ?a with _ => _ end) (match rd_tok _ _ _ ?b with _ => _ end) =>
      assert (S0 : sim a b) by (unfold sim; simpl; repeat split; assumption);
      set (r0 := a) in *; set (r0' := b) in *
    end.
    destruct (rd_tok_sim r0 r0' S0) as [Estop|T]; [rewrite Estop; left; reflexivity|].
    destruct (rd_tok St dec_tok Sess r0) as [? ?| | | |], (rd_tok dscript dec_script Sess r0') as [? ?| | | |];
      simpl in T; try contradiction; try (right; split; [reflexivity|apply set_err_sim; exact S0]).
    + destruct T as [<- S1].
      destruct t; simpl; try (right; split; [reflexivity|apply set_err_sim; exact S0]).
      pose proof S1 as (Hi1 & Hs1 & Hc1 & Hsc1 & Hb1 & He1 & Hd1).
      destruct (fix_len cf && Z.ltb n 0); [right; split; [reflexivity|apply set_err_sim; exact S1]|].
      destruct (Z.leb n (Z.of_nat (flen dest))).
      * destruct (Z.ltb n 0); [right; split; [reflexivity|exact S1]|].
        destruct (decode_sim sch (ftake (Z.to_nat n) dest) r1 r2 S1) as [D|D]; [rewrite D; left; reflexivity|].
        destruct (decode St dec_tok Sess cdec cf r1 sch (ftake (Z.to_nat n) dest)),
                 (decode dscript dec_script Sess cdec cf r2 sch (ftake (Z.to_nat n) dest));
          simpl in D; try contradiction.
        { destruct D as [<- S2]. right. split; [reflexivity|exact S2]. }
        { subst e0. right. split; [reflexivity|apply set_err_sim; exact S1]. }
      * rewrite <- Hsc1.
        set (mem := ensure sch (rscratch r1) (Z.to_nat n)).
        destruct (decode_sim sch (ftake (Z.to_nat n) mem) r1 r2 S1) as [D|D]; [rewrite D; left; reflexivity|].
        destruct (decode St dec_tok Sess cdec cf r1 sch (ftake (Z.to_nat n) mem)),
                 (decode dscript dec_script Sess cdec cf r2 sch (ftake (Z.to_nat n) mem));
          simpl in D; try contradiction.
        { destruct D as [<- S2]. apply copy_out_sim.
          destruct S2 as (Hi2 & Hs2 & Hc2 & Hsc2 & Hb2 & He2 & Hd2).
          unfold sim; simpl. repeat split; assumption. }
        { subst e0. right. split; [reflexivity|apply set_err_sim; exact S1]. }
    + simpl. rewrite <- Hi. right. split; [reflexivity|apply set_err_sim; exact S0].
Qed.

Lemma reads_sim sch dests : forall r r', sim r r' ->
  ~ In (RErr EUnknown) (reads dscript dec_script Sess cdec cf sch r' dests) ->
  reads St dec_tok Sess cdec cf sch r dests = reads dscript dec_script Sess cdec cf sch r' dests.
Proof.
  induction dests as [|d ds IH]; intros r r' H Hno; simpl; [reflexivity|].
  simpl in Hno.
  destruct (read_sim sch r r' d H) as [Eu|[E S1]].
  - exfalso. apply Hno.
    destruct (read dscript dec_script Sess cdec cf sch r' d) as [res' r1']. simpl in Eu. subst res'.
    left. reflexivity.
  - destruct (read St dec_tok Sess cdec cf sch r d) as [res r1],
             (read dscript dec_script Sess cdec cf sch r' d) as [res' r1']. simpl in E, S1. subst res'.
    destruct res; try reflexivity; f_equal; apply IH; try exact S1;
      intro Hin; apply Hno; right; exact Hin.
Qed.

Theorem reads_described sch st0 s0 inp sc dests :
  describes st0 inp sc ->
  ~ In (RErr EUnknown) (reads dscript dec_script Sess cdec cf sch (r_init dscript Sess inp sc s0) dests) ->
  reads St dec_tok Sess cdec cf sch (r_init St Sess inp st0 s0) dests
  = reads dscript dec_script Sess cdec cf sch (r_init dscript Sess inp sc s0) dests.
Proof.
  intros D Hno. apply reads_sim; [|exact Hno]. unfold sim, r_init; simpl. repeat split; try reflexivity. exact D.
Qed.

End Sim.

(* C07 — what [spec_reads] means for the rows: whatever the destination sizes, the
   rows delivered are a prefix of the rows written (column by column, in order),
   and with enough Reads of at least one row they are all the rows, followed by [fin]. *)
From Coq Require Import List ZArith NArith Arith Bool Lia.
Import ListNotations.
Require Import BS.Common.Util BS.C07.Model BS.C07.Lists.

Definition uniform (f : list (list (list Z))) : Prop := Forall (fun cl => length cl = flen f) f.

Lemma wf_uniform sch f : wf_frame sch f -> uniform f.
Proof. intros [_ H]. exact H. Qed.

Lemma uniform_nil : uniform [].
Proof. constructor. Qed.

Lemma nth_map_nil {A} (g : list A -> list A) c (f : list (list A)) :
  g [] = [] -> nth c (map g f) [] = g (nth c f []).
Proof.
  intro H. revert c; induction f as [|x f IH]; intros [|c]; simpl; auto.
Qed.

Lemma nth_ftake c n (f : list (list (list Z))) : nth c (ftake n f) [] = firstn n (nth c f []).
Proof. unfold ftake. apply nth_map_nil. apply firstn_nil. Qed.

Lemma nth_fdrop c n (f : list (list (list Z))) : nth c (fdrop n f) [] = skipn n (nth c f []).
Proof. unfold fdrop. apply nth_map_nil. apply skipn_nil. Qed.

Lemma flen_fdrop n f : flen (fdrop n f) = flen f - n.
Proof. destruct f as [|c f]; simpl; [reflexivity|]. apply skipn_length. Qed.

Lemma uniform_fdrop n f : uniform f -> uniform (fdrop n f).
Proof.
  intro H. unfold uniform. rewrite flen_fdrop. unfold fdrop. apply Forall_forall.
  intros cl Hin. apply in_map_iff in Hin as (c0 & <- & Hc0).
  rewrite skipn_length. unfold uniform in H. rewrite Forall_forall in H. rewrite (H c0 Hc0). reflexivity.
Qed.

Lemma uniform_zero_col c f : uniform f -> flen f = 0 -> nth c f [] = [].
Proof.
  intros H Hz. destruct (Nat.lt_ge_cases c (length f)) as [L|G].
  - unfold uniform in H. rewrite Forall_forall in H.
    specialize (H (nth c f []) (nth_In f [] L)). rewrite Hz in H. apply length_zero_iff_nil. exact H.
  - apply nth_overflow. exact G.
Qed.

Lemma spec_reads_length fin ds : forall bs p, length (spec_reads fin bs p ds) = length ds.
Proof.
  induction ds as [|d ds IH]; intros bs p; simpl; [reflexivity|].
  destruct (Nat.eqb (flen p) 0).
  - destruct bs as [|b bs]; simpl; [rewrite IH; reflexivity|].
    destruct (Nat.leb (flen b) d); simpl; rewrite IH; reflexivity.
  - simpl. rewrite IH. reflexivity.
Qed.

Lemma colsel_cons c f fs : colsel c (f :: fs) = nth c f [] ++ colsel c fs.
Proof. reflexivity. Qed.

(* safety: a prefix, for any destination sizes *)
Lemma spec_reads_prefix fin c ds : forall bs p,
  uniform p -> Forall uniform bs ->
  exists rest, nth c p [] ++ colsel c bs = colsel c (delivered (spec_reads fin bs p ds)) ++ rest.
Proof.
  induction ds as [|d ds IH]; intros bs p Hp Hbs.
  - simpl. eexists. reflexivity.
  - cbn [spec_reads]. destruct (Nat.eqb (flen p) 0) eqn:E.
    + apply Nat.eqb_eq in E. rewrite (uniform_zero_col c p Hp E). simpl app.
      destruct bs as [|b bs].
      * cbn [delivered flat_map app].
        destruct (IH [] p Hp Hbs) as [rest Hr]. rewrite (uniform_zero_col c p Hp E) in Hr. exists rest. exact Hr.
      * inversion Hbs as [|? ? Hb Hbs']; subst.
        destruct (Nat.leb (flen b) d).
        -- cbn [delivered flat_map app]. fold (delivered (spec_reads fin bs p ds)).
           destruct (IH bs p Hp Hbs') as [rest Hr]. rewrite (uniform_zero_col c p Hp E) in Hr. simpl in Hr.
           exists rest. rewrite !colsel_cons, Hr, app_assoc. reflexivity.
        -- cbn [delivered flat_map app]. fold (delivered (spec_reads fin bs (fdrop d b) ds)).
           destruct (IH bs (fdrop d b) (uniform_fdrop d b Hb) Hbs') as [rest Hr].
           exists rest. rewrite !colsel_cons, nth_ftake, <- app_assoc, <- Hr, nth_fdrop, app_assoc, firstn_skipn.
           reflexivity.
    + cbn [delivered flat_map app]. fold (delivered (spec_reads fin bs (fdrop (Nat.min d (flen p)) p) ds)).
      destruct (IH bs (fdrop (Nat.min d (flen p)) p) (uniform_fdrop _ p Hp) Hbs) as [rest Hr].
      exists rest. rewrite colsel_cons, nth_ftake, <- app_assoc, <- Hr, nth_fdrop, app_assoc, firstn_skipn.
      reflexivity.
Qed.

Lemma last_cons {A} (x : A) l d : l <> [] -> last (x :: l) d = last l d.
Proof. destruct l; [congruence|reflexivity]. Qed.

Lemma spec_nonempty fin bs p ds : ds <> [] -> spec_reads fin bs p ds <> [].
Proof.
  intros H E. apply (f_equal (@length _)) in E. rewrite spec_reads_length in E.
  destruct ds; [congruence|discriminate].
Qed.

(* completeness: enough Reads of at least one row deliver everything, then [fin] *)
Lemma spec_reads_complete fin c ds : forall bs p,
  uniform p -> Forall uniform bs -> Forall (fun d => 1 <= d) ds ->
  flen p + rows_of bs + length bs < length ds ->
  colsel c (delivered (spec_reads fin bs p ds)) = nth c p [] ++ colsel c bs
  /\ last (spec_reads fin bs p ds) (ROk 0 []) = RErr fin.
Proof.
  induction ds as [|d ds IH]; intros bs p Hp Hbs Hds Hm; [simpl in Hm; lia|].
  inversion Hds as [|? ? Hd Hds']; subst. cbn [length] in Hm.
  cbn [spec_reads]. destruct (Nat.eqb (flen p) 0) eqn:E.
  - apply Nat.eqb_eq in E. rewrite (uniform_zero_col c p Hp E). simpl app.
    destruct bs as [|b bs].
    + cbn [delivered flat_map app]. destruct ds as [|d' ds].
      * simpl. split; reflexivity.
      * destruct (IH [] p Hp Hbs Hds') as [H1 H2]; [simpl in *; lia|].
        rewrite (uniform_zero_col c p Hp E) in H1. split; [exact H1|].
        rewrite last_cons by (apply spec_nonempty; discriminate). exact H2.
    + inversion Hbs as [|? ? Hb Hbs']; subst. cbn [rows_of fold_right length] in Hm.
      destruct (Nat.leb (flen b) d) eqn:El.
      * cbn [delivered flat_map app]. fold (delivered (spec_reads fin bs p ds)).
        destruct (IH bs p Hp Hbs' Hds') as [H1 H2]; [fold (rows_of bs) in Hm; lia|].
        rewrite (uniform_zero_col c p Hp E) in H1. simpl in H1.
        split; [rewrite !colsel_cons, H1; reflexivity|].
        rewrite last_cons; [exact H2|]. apply spec_nonempty. destruct ds; [simpl in Hm; fold (rows_of bs) in Hm; lia|discriminate].
      * apply Nat.leb_gt in El.
        cbn [delivered flat_map app]. fold (delivered (spec_reads fin bs (fdrop d b) ds)).
        destruct (IH bs (fdrop d b) (uniform_fdrop d b Hb) Hbs' Hds') as [H1 H2];
          [rewrite flen_fdrop; fold (rows_of bs) in Hm; lia|].
        split.
        -- rewrite !colsel_cons, nth_ftake, H1, nth_fdrop, app_assoc, firstn_skipn. reflexivity.
        -- rewrite last_cons; [exact H2|]. apply spec_nonempty. destruct ds; [simpl in Hm; fold (rows_of bs) in Hm; lia|discriminate].
  - apply Nat.eqb_neq in E.
    cbn [delivered flat_map app]. fold (delivered (spec_reads fin bs (fdrop (Nat.min d (flen p)) p) ds)).
    destruct (IH bs (fdrop (Nat.min d (flen p)) p) (uniform_fdrop _ p Hp) Hbs Hds') as [H1 H2];
      [rewrite flen_fdrop; lia|].
    split.
    + rewrite colsel_cons, nth_ftake, H1, nth_fdrop, app_assoc, firstn_skipn. reflexivity.
    + rewrite last_cons; [exact H2|]. apply spec_nonempty. destruct ds; [simpl in Hm; lia|discriminate].
Qed.

(* all columns at once *)
Lemma spec_reads_complete_all fin nc ds bs :
  Forall uniform bs -> Forall (fun d => 1 <= d) ds ->
  rows_of bs + length bs < length ds ->
  colcat nc (delivered (spec_reads fin bs [] ds)) = colcat nc bs
  /\ last (spec_reads fin bs [] ds) (ROk 0 []) = RErr fin.
Proof.
  intros Hbs Hds Hm. split.
  - unfold colcat. apply map_ext. intro c.
    destruct (spec_reads_complete fin c ds bs [] uniform_nil Hbs Hds) as [H _]; [simpl; lia|].
    rewrite H. destruct c; reflexivity.
  - destruct (spec_reads_complete fin 0 ds bs [] uniform_nil Hbs Hds) as [_ H]; [simpl; lia|]. exact H.
Qed.

Lemma nth_colcat c nc fs : c < nc -> nth c (colcat nc fs) [] = colsel c fs.
Proof.
  intro Hc. unfold colcat.
  rewrite (nth_indep _ [] ((fun c0 => colsel c0 fs) 0)) by (rewrite map_length, seq_length; exact Hc).
  rewrite (map_nth (fun c0 => colsel c0 fs)), seq_nth by exact Hc. reflexivity.
Qed.

Lemma spec_reads_prefix_all fin nc ds bs :
  Forall uniform bs ->
  forall c, c < nc -> exists rest,
    nth c (colcat nc bs) [] = nth c (colcat nc (delivered (spec_reads fin bs [] ds))) [] ++ rest.
Proof.
  intros Hbs c Hc.
  destruct (spec_reads_prefix fin c ds bs [] uniform_nil Hbs) as [rest Hr].
  exists rest. rewrite !nth_colcat by exact Hc. rewrite <- Hr. destruct c; reflexivity.
Qed.

(* C07 — a concrete token codec ("toy gob") satisfying the section hypotheses of
   Proofs.v: the hypotheses are satisfiable, the theorems can be instantiated to
   closed statements, and the model can be evaluated on concrete streams (the
   refutation witnesses).  Executable definitions first, then the proofs of the
   hypotheses.

   Wire format of a token:  tag ; L ; body (L bytes)
     TLen n  : tag 0, body = sign ; |n|
     TFlag b : tag 1, body = b
     TCol d  : tag 2, body = #cells ; for each cell: #fields ; (sign ; |x|) per field
     TVal v  : tag 3, body = #fields ; (sign ; |x|) per field
     TCrc c  : tag 4, body = c
     TBulk d : tag 5, body as TCol
   ("bytes" are N, unbounded, as everywhere in the model). *)
From Coq Require Import List ZArith NArith Arith Bool Lia.
Import ListNotations.
Require Import BS.C07.Model.

Definition enc_z (z : Z) : list N := [if Z.ltb z 0 then 1%N else 0%N; Z.abs_N z].
Definition enc_cell (v : list Z) : list N := N.of_nat (length v) :: flat_map enc_z v.

Definition tag (t : token) : N :=
  match t with TLen _ => 0 | TFlag _ => 1 | TCol _ => 2 | TVal _ => 3 | TCrc _ => 4 | TBulk _ => 5 end%N.
Definition body (t : token) : list N :=
  match t with
  | TLen n => enc_z n
  | TFlag b => [if b then 1%N else 0%N]
  | TCol d => N.of_nat (length d) :: flat_map enc_cell d
  | TVal v => enc_cell v
  | TCrc c => [c]
  | TBulk d => N.of_nat (length d) :: flat_map enc_cell d
  end.

Definition toy_enc (st : unit) (t : token) : list N * unit :=
  (tag t :: N.of_nat (length (body t)) :: body t, tt).

Fixpoint parse_zs (k : nat) (l : list N) : option (list Z * list N) :=
  match k with
  | O => Some ([], l)
  | S k' =>
      match l with
      | s :: a :: r =>
          match parse_zs k' r with
          | Some (zs, r') => Some ((if N.eqb s 0 then Z.of_N a else (- Z.of_N a)%Z) :: zs, r')
          | None => None
          end
      | _ => None
      end
  end.

Definition parse_cell (l : list N) : option (list Z * list N) :=
  match l with
  | k :: r => parse_zs (N.to_nat k) r
  | [] => None
  end.

Fixpoint parse_cells (n : nat) (l : list N) : option (list (list Z) * list N) :=
  match n with
  | O => Some ([], l)
  | S n' =>
      match parse_cell l with
      | Some (v, r) =>
          match parse_cells n' r with
          | Some (vs, r') => Some (v :: vs, r')
          | None => None
          end
      | None => None
      end
  end.

Definition parse_body (tg : N) (b : list N) : option token :=
  match tg with
  | 0%N => match parse_zs 1 b with Some ([n], []) => Some (TLen n) | _ => None end
  | 1%N => match b with [0%N] => Some (TFlag false) | [1%N] => Some (TFlag true) | _ => None end
  | 2%N => match b with
           | n :: r => match parse_cells (N.to_nat n) r with Some (d, []) => Some (TCol d) | _ => None end
           | [] => None
           end
  | 3%N => match parse_cell b with Some (v, []) => Some (TVal v) | _ => None end
  | 4%N => match b with [c] => Some (TCrc c) | _ => None end
  | 5%N => match b with
           | n :: r => match parse_cells (N.to_nat n) r with Some (d, []) => Some (TBulk d) | _ => None end
           | [] => None
           end
  | _ => None
  end.

Definition toy_dec (st : unit) (inp : list N) : dres unit :=
  match inp with
  | [] => DIoEOF
  | [_] => DUnexpectedEOF
  | tg :: L :: rest =>
      if Nat.ltb (length rest) (N.to_nat L) then DUnexpectedEOF
      else match parse_body tg (firstn (N.to_nat L) rest) with
           | Some t => DOk t (2 + N.to_nat L) tt
           | None => DMalformed
           end
  end.

(* ---------------------------------------------------------------- the hypotheses hold *)
Lemma dec_enc_z z : (if N.eqb (if Z.ltb z 0 then 1%N else 0%N) 0 then Z.of_N (Z.abs_N z) else (- Z.of_N (Z.abs_N z))%Z) = z.
Proof.
  rewrite N2Z.inj_abs_N. destruct (Z.ltb z 0) eqn:E; simpl.
  - apply Z.ltb_lt in E. lia.
  - apply Z.ltb_ge in E. lia.
Qed.

Lemma parse_zs_enc v : forall r, parse_zs (length v) (flat_map enc_z v ++ r) = Some (v, r).
Proof.
  induction v as [|z v IH]; intro r; simpl; [reflexivity|].
  rewrite IH, dec_enc_z. reflexivity.
Qed.

Lemma parse_cell_enc v r : parse_cell (enc_cell v ++ r) = Some (v, r).
Proof. unfold parse_cell, enc_cell. simpl. rewrite Nat2N.id. apply parse_zs_enc. Qed.

Lemma parse_cells_enc d : forall r, parse_cells (length d) (flat_map enc_cell d ++ r) = Some (d, r).
Proof.
  induction d as [|v d IH]; intro r; [reflexivity|].
  cbn [parse_cells flat_map length]. rewrite <- app_assoc, parse_cell_enc, IH. reflexivity.
Qed.

Lemma parse_body_enc t : parse_body (tag t) (body t) = Some t.
Proof.
  destruct t as [n|b|d|v|d|c]; cbn [tag body parse_body].
  - unfold enc_z. cbn [parse_zs]. rewrite dec_enc_z. reflexivity.
  - destruct b; reflexivity.
  - rewrite Nat2N.id. rewrite <- (app_nil_r (flat_map enc_cell d)), parse_cells_enc. reflexivity.
  - rewrite <- (app_nil_r (enc_cell v)), parse_cell_enc. reflexivity.
  - rewrite Nat2N.id. rewrite <- (app_nil_r (flat_map enc_cell d)), parse_cells_enc. reflexivity.
  - reflexivity.
Qed.

Lemma toy_dec_enc s t rest :
  toy_dec s (fst (toy_enc s t) ++ rest) = DOk t (length (fst (toy_enc s t))) (snd (toy_enc s t)).
Proof.
  unfold toy_enc, toy_dec. cbn [fst snd app]. rewrite Nat2N.id.
  rewrite app_length.
  replace (Nat.ltb (length (body t) + length rest) (length (body t))) with false
    by (symmetry; apply Nat.ltb_ge; lia).
  rewrite firstn_app, Nat.sub_diag, firstn_all. simpl firstn. rewrite app_nil_r, parse_body_enc.
  destruct s. reflexivity.
Qed.

Lemma toy_dec_nil s : toy_dec s [] = DIoEOF.
Proof. reflexivity. Qed.

Lemma toy_dec_trunc s t p q :
  fst (toy_enc s t) = p ++ q -> p <> [] -> q <> [] -> toy_dec s p = DUnexpectedEOF.
Proof.
  unfold toy_enc. cbn [fst]. intros E Hp Hq.
  destruct p as [|a [|b p]]; [congruence|reflexivity|].
  simpl in E. injection E as Ea Eb Ec. subst a b.
  unfold toy_dec. rewrite Nat2N.id.
  replace (Nat.ltb (length p) (length (body t))) with true; [reflexivity|].
  symmetry. apply Nat.ltb_lt. rewrite Ec, app_length. destruct q; [congruence|simpl; lia].
Qed.

Lemma delta_codec s v : cdec_delta s (fst (cenc_delta s v)) = (v, snd (cenc_delta s v)).
Proof.
  destruct v as [|x [|y v]]; simpl; try reflexivity.
  replace (x - s + s)%Z with x by lia. reflexivity.
Qed.

(* ---------------------------------------------------------------- the model over the toy codec *)
Definition toy_encode (sch : list kind) (batches : list (list (list (list Z)))) : list N :=
  wout (encode_all unit toy_enc Z cenc_delta tt 0%Z sch batches).

Definition toy_reads (cf : cfg) (sch : list kind) (inp : list N) (dests : list (list (list (list Z)))) : list rres :=
  reads unit toy_dec Z cdec_delta cf sch (r_init unit Z inp tt 0%Z) dests.

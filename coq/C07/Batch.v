(* C07 — the scripted reader on the tokens of one batch: what dec_vals, dec_col,
   dec_cols, decode and one Read do when the script starts with the tokens the
   encoder emits for a frame (complete lemmas), and when the script ends inside
   those tokens with io.ErrUnexpectedEOF (cut lemmas). *)
From Coq Require Import List ZArith NArith Arith Bool Lia.
Import ListNotations.
Require Import BS.Common.Util BS.C07.Model BS.C07.Script BS.C07.CrcProofs BS.C07.Lists.

Section Batch.
Variable Sess : Type.
Variable cenc : Sess -> list Z -> list Z * Sess.
Variable cdec : Sess -> list Z -> list Z * Sess.
Variable cf : cfg.
Hypothesis H_codec : forall s v, cdec s (fst (cenc s v)) = (v, snd (cenc s v)).

Notation R := (rstate dscript Sess).
Notation rd := (rd_tok dscript dec_script Sess).

Definition used_of (es : list (token * nat)) : nat := fold_right (fun e a => snd e + a) 0 es.

Lemma used_of_app a b : used_of (a ++ b) = used_of a + used_of b.
Proof. unfold used_of. induction a as [|e a IH]; simpl; [reflexivity|]. rewrite IH. lia. Qed.

(* the state after the entries [es] of the script have been read; session [s'] *)
Definition after (r : R) (es : list (token * nat)) (rest : dscript) (s' : Sess) : R :=
  mkR (skipn (used_of es) (rinp r)) rest s'
      (crc_update (rcrc r) (firstn (used_of es) (rinp r)))
      (rscratch r) (rbuf r) (rerr r).

Lemma after_nil (r : R) (sc : dscript) : rst r = sc -> after r [] sc (rsess r) = r.
Proof.
  intro H. unfold after. simpl. destruct r; simpl in *. subst.
  f_equal. unfold crc_update. simpl. apply lxor_mask_invol.
Qed.

Lemma after_after (r : R) es1 sc1 s1 es2 sc2 s2 :
  after (after r es1 sc1 s1) es2 sc2 s2 = after r (es1 ++ es2) sc2 s2.
Proof.
  unfold after; simpl. rewrite used_of_app, skipn_skipn, crc_update_app, <- firstn_add.
  reflexivity.
Qed.

Lemma after_sess (x : R) s2 es rest s3 :
  after (mkR (rinp x) (rst x) s2 (rcrc x) (rscratch x) (rbuf x) (rerr x)) es rest s3 = after x es rest s3.
Proof. reflexivity. Qed.

Lemma rd_pop (r : R) t u rest term :
  rst r = (((t, u) :: rest, term) : dscript) -> rd r = TokOk t (after r [(t, u)] (rest, term) (rsess r)).
Proof.
  intro H. unfold rd_tok. rewrite H. unfold dec_script. simpl. unfold after, used_of. simpl.
  rewrite Nat.add_0_r. reflexivity.
Qed.

Lemma rd_end (r : R) term : rst r = (([], term) : dscript) ->
  rd r = match term with SIoEOF => TokIoEOF | SUnexpected => TokUnexpected
                       | SMalformed => TokMalformed | SStop => TokStop end.
Proof. intro H. unfold rd_tok. rewrite H. unfold dec_script. simpl. destruct term; reflexivity. Qed.

(* ================================================================ complete lemmas *)

Lemma dec_vals_ok vals : forall (r : R) es rest s view,
  map fst es = vals_toks Sess cenc s vals ->
  rst r = (es ++ fst rest, snd rest) -> rsess r = s -> length view = length vals ->
  dec_vals dscript dec_script Sess cdec r view
  = DcOk vals (after r es rest (vals_sess Sess cenc s vals)).
Proof.
  induction vals as [|v vals IH]; intros r es rest s view Hes Hst Hs Hl.
  - destruct es; [|discriminate]. destruct view; [|discriminate]. simpl.
    rewrite <- Hs, after_nil; [reflexivity|]. rewrite Hst. destruct rest; reflexivity.
  - destruct es as [|[t u] es]; [discriminate|]. destruct view as [|v0 view]; [discriminate|].
    simpl in Hes. injection Hes as Ht Hes. simpl in Hst. cbn [dec_vals].
    rewrite (rd_pop r t u (es ++ fst rest) (snd rest) Hst). rewrite Ht.
    cbn [rsess after]. rewrite Hs, H_codec.
    erewrite IH; [| exact Hes | reflexivity | reflexivity | simpl in Hl; lia ].
    rewrite after_sess, after_after. reflexivity.
Qed.

Lemma dec_col_ok k cl : forall (r : R) es rest s view0,
  map fst es = col_toks Sess cenc s k cl ->
  rst r = (es ++ fst rest, snd rest) -> rsess r = s -> length view0 = length cl ->
  dec_col dscript dec_script Sess cdec cf r k (map zero_cell view0)
  = DcOk cl (after r es rest (col_sess Sess cenc s k cl)).
Proof.
  intros r es rest s view0 Hes Hst Hs Hl. unfold dec_col.
  destruct k; cbn [col_toks col_sess] in *.
  1,2: destruct es as [|[t1 u1] [|[t2 u2] [|? ?]]]; try discriminate;
       simpl in Hes; injection Hes as -> ->; simpl in Hst;
       rewrite (rd_pop r _ _ _ _ Hst);
       rewrite (rd_pop (after r [(TFlag false, u1)] ((TCol cl, u2) :: fst rest, snd rest) (rsess r))
                       (TCol cl) u2 (fst rest) (snd rest) eq_refl);
       rewrite map_length, Hl, Nat.eqb_refl, andb_false_r;
       rewrite gob_into_zero by exact Hl;
       rewrite after_after; cbn [rsess after]; rewrite Hs; destruct rest; reflexivity.
  1: { destruct es as [|[t1 u1] es]; [discriminate|]. simpl in Hes. injection Hes as -> Hes. simpl in Hst.
       rewrite (rd_pop r _ _ _ _ Hst).
       erewrite dec_vals_ok; [| exact Hes | reflexivity | cbn [rsess after]; exact Hs | rewrite map_length; exact Hl].
       rewrite after_after. reflexivity. }
  destruct es as [|[t1 u1] [|[t2 u2] [|? ?]]]; try discriminate.
  simpl in Hes. injection Hes as -> ->. simpl in Hst.
  rewrite (rd_pop r _ _ _ _ Hst).
  rewrite (rd_pop (after r [(TFlag true, u1)] ((TBulk cl, u2) :: fst rest, snd rest) (rsess r))
                  (TBulk cl) u2 (fst rest) (snd rest) eq_refl).
  rewrite copy_into_same by (rewrite map_length; exact Hl).
  rewrite after_after. cbn [rsess after]. rewrite Hs. destruct rest; reflexivity.
Qed.

Lemma dec_cols_ok sch : forall f (r : R) es rest s mem0,
  map fst es = cols_toks Sess cenc s sch f ->
  rst r = (es ++ fst rest, snd rest) -> rsess r = s ->
  length f = length sch -> same_shape f mem0 ->
  dec_cols dscript dec_script Sess cdec cf r sch (fzero mem0)
  = DfOk f (after r es rest (cols_sess Sess cenc s sch f)).
Proof.
  induction sch as [|k ks IH]; intros f r es rest s mem0 Hes Hst Hs Hl Hsh.
  - destruct f; [|discriminate]. destruct es; [|discriminate]. simpl.
    rewrite <- Hs, after_nil; [reflexivity|]. rewrite Hst. destruct rest; reflexivity.
  - destruct f as [|cl f]; [discriminate|]. inversion Hsh as [|? view0 ? mem0' Hv Hsh' E1 E2]; subst.
    cbn [cols_toks cols_sess] in *.
    apply map_eq_app in Hes as (es1 & es2 & -> & Hes1 & Hes2).
    cbn [fzero map dec_cols].
    rewrite <- app_assoc in Hst.
    erewrite (dec_col_ok k cl r es1 (es2 ++ fst rest, snd rest)); [| exact Hes1 | exact Hst | first [exact Hs | reflexivity] | exact Hv].
    erewrite IH; [| exact Hes2 | reflexivity | reflexivity | simpl in Hl; lia | exact Hsh'].
    rewrite after_after. reflexivity.
Qed.

(* decode over the column tokens followed by a checksum token *)
Lemma decode_ok sch f (r : R) es c uc rest s mem0 :
  map fst es = cols_toks Sess cenc s sch f ->
  rst r = (es ++ (TCrc c, uc) :: fst rest, snd rest) -> rsess r = s ->
  length f = length sch -> same_shape f mem0 ->
  decode dscript dec_script Sess cdec cf r sch mem0
  = if N.eqb (crc_update (rcrc r) (firstn (used_of es) (rinp r))) c
    then DfOk f (after r (es ++ [(TCrc c, uc)]) rest (cols_sess Sess cenc s sch f))
    else DfErr EIntegrity.
Proof.
  intros Hes Hst Hs Hl Hsh. unfold decode.
  erewrite (dec_cols_ok sch f r es ((TCrc c, uc) :: fst rest, snd rest)); [| exact Hes | exact Hst | exact Hs | exact Hl | exact Hsh].
  rewrite (rd_pop (after r es ((TCrc c, uc) :: fst rest, snd rest) (cols_sess Sess cenc s sch f)) (TCrc c) uc (fst rest) (snd rest) eq_refl).
  cbn [rcrc after]. destruct (N.eqb _ c); [|reflexivity].
  rewrite after_after. destruct rest; reflexivity.
Qed.

(* columns that all use the bulk custom codec: its Decode copies whatever slice it got, so
   the column tokens are accepted into a view of ANY length; the session is not used *)
Lemma dec_cols_bulk sch : Forall (fun k => k = KCodecBulk) sch ->
  forall f (r : R) es rest s mem,
  map fst es = cols_toks Sess cenc s sch f ->
  rst r = (es ++ fst rest, snd rest) ->
  length f = length sch -> length mem = length sch ->
  exists f', dec_cols dscript dec_script Sess cdec cf r sch mem = DfOk f' (after r es rest (rsess r)).
Proof.
  induction sch as [|k ks IH]; intros Hall f r es rest s mem Hes Hst Hl Hm.
  - destruct f; [|discriminate]. destruct es; [|discriminate]. simpl. exists [].
    rewrite after_nil; [reflexivity|]. rewrite Hst. destruct rest; reflexivity.
  - inversion Hall as [|? ? Hk Hall']; subst.
    destruct f as [|cl f]; [discriminate|]. destruct mem as [|view mem]; [discriminate|].
    cbn [cols_toks col_toks col_sess app] in Hes.
    destruct es as [|[t1 u1] [|[t2 u2] es]]; try discriminate.
    simpl in Hes. injection Hes as -> -> Hes. simpl in Hst.
    cbn [dec_cols]. unfold dec_col.
    rewrite (rd_pop r _ _ _ _ Hst).
    rewrite (rd_pop (after r [(TFlag true, u1)] ((TBulk cl, u2) :: es ++ fst rest, snd rest) (rsess r))
                    (TBulk cl) u2 (es ++ fst rest) (snd rest) eq_refl).
    change (rsess (after r [(TFlag true, u1)] ((TBulk cl, u2) :: es ++ fst rest, snd rest) (rsess r))) with (rsess r).
    rewrite after_after.
    destruct (IH Hall' f (after r ([(TFlag true, u1)] ++ [(TBulk cl, u2)]) (es ++ fst rest, snd rest) (rsess r))
                 es rest s mem Hes eq_refl) as [f' Hf']; [simpl in Hl; lia|simpl in Hm; lia|].
    rewrite Hf'. eexists. rewrite after_after. reflexivity.
Qed.

(* ================================================================ cut lemmas: the script ends early with failure [term] *)

(* the error class of a gob failure returned unchanged *)
Definition rawe (term : sterm) : err :=
  match term with SIoEOF => ERawEOF | SUnexpected => EUnexpected | SMalformed => EMalformed | SStop => EUnknown end.

(* the error decode returns when the script ends where token [next] was expected:
   only before a gob-encoded column is io.EOF converted (codec.go:215-217) *)
Definition cut_err_tok (term : sterm) (next : token) : err :=
  match next, term with
  | TCol _, SIoEOF => if fix_eof cf then EUnexpected else EEOF
  | _, _ => rawe term
  end.

Definition dflt : token := TLen 0.

Lemma dec_vals_cut term vals : forall (r : R) es s view i,
  map fst es = vals_toks Sess cenc s vals ->
  rst r = (firstn i es, term) -> rsess r = s -> length view = length vals -> i < length es ->
  dec_vals dscript dec_script Sess cdec r view = DcErr (rawe term).
Proof.
  induction vals as [|v vals IH]; intros r es s view i Hes Hst Hs Hl Hi.
  - destruct es; [simpl in Hi; lia|discriminate].
  - destruct es as [|[t u] es]; [discriminate|]. destruct view as [|v0 view]; [discriminate|].
    simpl in Hes. injection Hes as Ht Hes. cbn [dec_vals].
    destruct i as [|i]; simpl in Hst.
    + rewrite (rd_end r _ Hst). destruct term; reflexivity.
    + rewrite (rd_pop r t u _ _ Hst). rewrite Ht. cbn [rsess after]. rewrite Hs, H_codec.
      erewrite IH; [reflexivity | exact Hes | reflexivity | reflexivity | simpl in Hl; lia | simpl in Hi; lia].
Qed.

Lemma vals_toks_nth s vals i : i < length vals ->
  exists x, nth i (vals_toks Sess cenc s vals) dflt = TVal x.
Proof.
  revert s i; induction vals as [|v vals IH]; intros s i H; simpl in H; [lia|].
  destruct i; simpl; [eexists; reflexivity|]. apply IH. lia.
Qed.

Lemma vals_toks_length s vals : length (vals_toks Sess cenc s vals) = length vals.
Proof. revert s; induction vals as [|v vals IH]; intro s; simpl; [reflexivity|]. rewrite IH. reflexivity. Qed.

Lemma dec_col_cut term k cl : forall (r : R) es s view0 i,
  map fst es = col_toks Sess cenc s k cl ->
  rst r = (firstn i es, term) -> rsess r = s -> length view0 = length cl -> i < length es ->
  dec_col dscript dec_script Sess cdec cf r k (map zero_cell view0)
  = DcErr (cut_err_tok term (nth i (map fst es) dflt)).
Proof.
  intros r es s view0 i Hes Hst Hs Hl Hi. unfold dec_col. rewrite Hes.
  destruct k; cbn [col_toks] in *.
  1,2: destruct es as [|[t1 u1] [|[t2 u2] [|? ?]]]; try discriminate;
       simpl in Hes; injection Hes as -> ->;
       destruct i as [|[|i]]; simpl in Hst;
       [ rewrite (rd_end r _ Hst); destruct term; reflexivity
       | rewrite (rd_pop r _ _ _ _ Hst);
         rewrite (rd_end (after r [(TFlag false, u1)] ([], term) (rsess r)) term eq_refl);
         destruct term; reflexivity
       | simpl in Hi; lia ].
  1: { destruct es as [|[t1 u1] es]; [discriminate|]. simpl in Hes. injection Hes as -> Hes.
       destruct i as [|i]; simpl in Hst.
       - rewrite (rd_end r _ Hst). destruct term; reflexivity.
       - rewrite (rd_pop r _ _ _ _ Hst).
         erewrite dec_vals_cut; [| exact Hes | reflexivity | cbn [rsess after]; exact Hs | rewrite map_length; exact Hl | simpl in Hi; lia].
         cbn [nth]. simpl in Hi.
         destruct (vals_toks_nth s cl i) as [x Hx].
         { rewrite <- (vals_toks_length s cl), <- Hes, map_length. lia. }
         rewrite Hx. destruct term; reflexivity. }
  destruct es as [|[t1 u1] [|[t2 u2] [|? ?]]]; try discriminate.
  simpl in Hes. injection Hes as -> ->.
  destruct i as [|[|i]]; simpl in Hst.
  - rewrite (rd_end r _ Hst). destruct term; reflexivity.
  - rewrite (rd_pop r _ _ _ _ Hst).
    rewrite (rd_end (after r [(TFlag true, u1)] ([], term) (rsess r)) term eq_refl).
    destruct term; reflexivity.
  - simpl in Hi. lia.
Qed.

Lemma firstn_app_le {A} (a b : list A) i : i <= length a -> firstn i (a ++ b) = firstn i a.
Proof. intro H. rewrite firstn_app. replace (i - length a) with 0 by lia. simpl. apply app_nil_r. Qed.

Lemma firstn_app_ge {A} (a b : list A) i : length a <= i -> firstn i (a ++ b) = a ++ firstn (i - length a) b.
Proof. intro H. rewrite firstn_app, firstn_all2 by exact H. reflexivity. Qed.

Lemma dec_cols_cut term sch : forall f (r : R) es s mem0 i,
  map fst es = cols_toks Sess cenc s sch f ->
  rst r = (firstn i es, term) -> rsess r = s ->
  length f = length sch -> same_shape f mem0 -> i < length es ->
  dec_cols dscript dec_script Sess cdec cf r sch (fzero mem0)
  = DfErr (cut_err_tok term (nth i (map fst es) dflt)).
Proof.
  induction sch as [|k ks IH]; intros f r es s mem0 i Hes Hst Hs Hl Hsh Hi.
  - destruct f; [|discriminate]. destruct es; [simpl in Hi; lia|discriminate].
  - destruct f as [|cl f]; [discriminate|]. inversion Hsh as [|? view0 ? mem0' Hv Hsh' E1 E2]; subst.
    cbn [cols_toks] in *.
    apply map_eq_app in Hes as (es1 & es2 & -> & Hes1 & Hes2).
    cbn [fzero map dec_cols]. rewrite map_app.
    destruct (Nat.lt_ge_cases i (length es1)) as [Lt|Ge].
    + rewrite firstn_app_le in Hst by lia.
      erewrite dec_col_cut; [| exact Hes1 | exact Hst | reflexivity | exact Hv | exact Lt].
      rewrite app_nth1 by (rewrite map_length; exact Lt). reflexivity.
    + rewrite firstn_app_ge in Hst by exact Ge.
      erewrite (dec_col_ok k cl r es1 (firstn (i - length es1) es2, term)); [| exact Hes1 | exact Hst | reflexivity | exact Hv].
      erewrite IH; [| exact Hes2 | reflexivity | reflexivity | simpl in Hl; lia | exact Hsh' |].
      * rewrite app_nth2 by (rewrite map_length; exact Ge). rewrite map_length. reflexivity.
      * rewrite app_length in Hi. lia.
Qed.

Lemma decode_cut term sch f (r : R) es c uc s mem0 i :
  map fst es = cols_toks Sess cenc s sch f ->
  rst r = (firstn i (es ++ [(TCrc c, uc)]), term) -> rsess r = s ->
  length f = length sch -> same_shape f mem0 -> i <= length es ->
  decode dscript dec_script Sess cdec cf r sch mem0
  = DfErr (cut_err_tok term (nth i (map fst (es ++ [(TCrc c, uc)])) dflt)).
Proof.
  intros Hes Hst Hs Hl Hsh Hi. unfold decode. rewrite map_app.
  destruct (Nat.eq_dec i (length es)) as [->|Ne].
  - rewrite firstn_app_ge, Nat.sub_diag in Hst by lia. simpl in Hst.
    erewrite (dec_cols_ok sch f r es ([], term)); [| exact Hes | exact Hst | exact Hs | exact Hl | exact Hsh].
    rewrite (rd_end (after r es ([], term) (cols_sess Sess cenc s sch f)) term eq_refl).
    rewrite app_nth2 by (rewrite map_length; lia). rewrite map_length, Nat.sub_diag. simpl.
    destruct term; reflexivity.
  - rewrite firstn_app_le in Hst by lia.
    erewrite dec_cols_cut; [| exact Hes | exact Hst | exact Hs | exact Hl | exact Hsh | lia].
    rewrite app_nth1 by (rewrite map_length; lia). reflexivity.
Qed.

End Batch.

(* C07 — facts about the CRC-32 model:
   (1) the byte-table form used by Go equals eight bit-serial steps;
   (2) for a fixed input bit the register update is injective on 32-bit registers;
   (3) hence two equal-length messages that differ in exactly one bit have
       different checksums (any length, by induction). *)
From Coq Require Import List NArith Arith Bool Lia.
Import ListNotations.
Require Import BS.C07.Crc.
Local Open Scope N_scope.

(* ------------------------------------------------------------------ *)
(* tstep is GF(2)-linear                                               *)

Lemma crc_bit_tstep s b : crc_bit s b = tstep (N.lxor s (N.b2n b)).
Proof.
  unfold crc_bit, tstep.
  assert (E0 : N.testbit (N.lxor s (N.b2n b)) 0 = xorb (N.testbit s 0) b).
  { rewrite N.lxor_spec. f_equal. destruct b; reflexivity. }
  assert (E1 : N.shiftr (N.lxor s (N.b2n b)) 1 = N.shiftr s 1).
  { rewrite N.shiftr_lxor. replace (N.shiftr (N.b2n b) 1) with 0 by (destruct b; reflexivity).
    apply N.lxor_0_r. }
  rewrite E0, E1. reflexivity.
Qed.

Lemma tstep_lxor a b : tstep (N.lxor a b) = N.lxor (tstep a) (tstep b).
Proof.
  unfold tstep. rewrite N.lxor_spec, N.shiftr_lxor.
  set (x := N.shiftr a 1). set (y := N.shiftr b 1).
  destruct (N.testbit a 0), (N.testbit b 0); cbn [xorb].
  - rewrite N.lxor_assoc. rewrite (N.lxor_comm poly (N.lxor y poly)).
    rewrite (N.lxor_assoc y poly poly), N.lxor_nilpotent, N.lxor_0_r. reflexivity.
  - rewrite !N.lxor_assoc. f_equal. apply N.lxor_comm.
  - rewrite N.lxor_assoc. reflexivity.
  - reflexivity.
Qed.

Lemma tstep_even y : N.testbit y 0 = false -> tstep y = N.shiftr y 1.
Proof. intro H. unfold tstep. rewrite H. reflexivity. Qed.

Fixpoint iter (n : nat) (s : N) : N :=
  match n with O => s | S n' => iter n' (tstep s) end.

Lemma iter_lxor n : forall a b, iter n (N.lxor a b) = N.lxor (iter n a) (iter n b).
Proof. induction n as [|n IH]; intros a b; simpl; [reflexivity|]. rewrite tstep_lxor. apply IH. Qed.

Lemma iter_shiftl n : forall g, iter n (N.shiftl g (N.of_nat n)) = g.
Proof.
  induction n as [|n IH]; intro g; cbn [iter].
  - apply N.shiftl_0_r.
  - rewrite tstep_even.
    + replace (N.of_nat (S n)) with (N.of_nat n + 1) by lia.
      rewrite <- N.shiftl_shiftl, N.shiftr_shiftl_l by lia.
      replace (1 - 1) with 0 by lia. rewrite N.shiftl_0_r. apply IH.
    + apply N.shiftl_spec_low. lia.
Qed.

(* ------------------------------------------------------------------ *)
(* a run of bit steps = that many tsteps of (register xor the bits)    *)

Fixpoint bits_val (bs : list bool) : N :=
  match bs with [] => 0 | b :: r => N.lxor (N.b2n b) (N.double (bits_val r)) end.

Lemma tstep_double v : tstep (N.double v) = v.
Proof.
  rewrite tstep_even.
  - change 1 with (N.succ 0). rewrite <- N.div2_spec. apply N.div2_double.
  - rewrite N.double_spec. apply N.testbit_even_0.
Qed.

Lemma crc_bits_iter bs : forall s, crc_bits s bs = iter (length bs) (N.lxor s (bits_val bs)).
Proof.
  unfold crc_bits. induction bs as [|b r IH]; intro s; cbn [fold_left length iter bits_val].
  - rewrite N.lxor_0_r. reflexivity.
  - rewrite IH. f_equal. rewrite crc_bit_tstep.
    rewrite <- (N.lxor_assoc s), (tstep_lxor (N.lxor s (N.b2n b))), tstep_double. reflexivity.
Qed.

Lemma byte_bits_val x : bits_val (byte_bits x) = N.land x 255.
Proof.
  apply N.bits_inj. intro n. rewrite N.land_spec.
  unfold byte_bits, map, bits_val.
  set (b0 := N.testbit x 0); set (b1 := N.testbit x 1); set (b2 := N.testbit x 2);
  set (b3 := N.testbit x 3); set (b4 := N.testbit x 4); set (b5 := N.testbit x 5);
  set (b6 := N.testbit x 6); set (b7 := N.testbit x 7).
  destruct (N.ltb n 8) eqn:Hn.
  - apply N.ltb_lt in Hn.
    assert (C : n = 0 \/ n = 1 \/ n = 2 \/ n = 3 \/ n = 4 \/ n = 5 \/ n = 6 \/ n = 7) by lia.
    destruct C as [->|[->|[->|[->|[->|[->|[->| ->]]]]]]];
      change (N.testbit 255 _) with true; rewrite andb_true_r;
      subst b0 b1 b2 b3 b4 b5 b6 b7;
      destruct (N.testbit x 0), (N.testbit x 1), (N.testbit x 2), (N.testbit x 3),
               (N.testbit x 4), (N.testbit x 5), (N.testbit x 6), (N.testbit x 7); reflexivity.
  - apply N.ltb_ge in Hn.
    replace (N.testbit 255 n) with false.
    2:{ symmetry. change 255 with (N.ones 8). apply N.ones_spec_high. lia. }
    rewrite andb_false_r.
    assert (B : forall v, v < 256 -> N.testbit v n = false).
    { intros v Hv. destruct (N.eq_dec v 0) as [->|Hz]; [apply N.bits_0|].
      apply N.bits_above_log2. apply N.lt_le_trans with 8; [|exact Hn].
      apply N.log2_lt_pow2; [lia|exact Hv]. }
    apply B.
    destruct b0, b1, b2, b3, b4, b5, b6, b7; vm_compute; reflexivity.
Qed.

Lemma length_byte_bits x : length (byte_bits x) = 8%nat.
Proof. reflexivity. Qed.

(* ------------------------------------------------------------------ *)
(* table form = eight bit steps                                        *)

Lemma tstep8_iter c : tstep8 c = iter 8 c.
Proof. reflexivity. Qed.

Lemma table_entries :
  forallb (fun i => N.eqb (nth i table 0) (tstep8 (N.of_nat i))) (seq 0 256) = true.
Proof. vm_compute. reflexivity. Qed.

Lemma table_nth i : (i < 256)%nat -> nth i table 0 = tstep8 (N.of_nat i).
Proof.
  intro H. pose proof table_entries as T. rewrite forallb_forall in T.
  apply N.eqb_eq. apply T. apply in_seq. lia.
Qed.

Lemma split_low_high s x :
  N.lxor s (N.land x 255) = N.lxor (N.land (N.lxor s x) 255) (N.shiftl (N.shiftr s 8) 8).
Proof.
  apply N.bits_inj. intro n.
  rewrite !N.lxor_spec, !N.land_spec, N.lxor_spec.
  destruct (N.ltb n 8) eqn:Hn.
  - apply N.ltb_lt in Hn.
    rewrite N.shiftl_spec_low by exact Hn.
    replace (N.testbit 255 n) with true.
    2:{ symmetry. change 255 with (N.ones 8). apply N.ones_spec_low. exact Hn. }
    rewrite !andb_true_r, xorb_false_r. reflexivity.
  - apply N.ltb_ge in Hn.
    rewrite N.shiftl_spec_high by (lia || apply N.le_0_l).
    rewrite N.shiftr_spec by apply N.le_0_l.
    replace (n - 8 + 8) with n by lia.
    replace (N.testbit 255 n) with false.
    2:{ symmetry. change 255 with (N.ones 8). apply N.ones_spec_high. lia. }
    rewrite !andb_false_r, xorb_false_r, xorb_false_l. reflexivity.
Qed.

Theorem table_is_8_steps s x : crc_byte_table s x = crc_byte_serial s x.
Proof.
  unfold crc_byte_serial, crc_byte_table.
  rewrite crc_bits_iter, length_byte_bits, byte_bits_val, split_low_high, iter_lxor.
  pose proof (iter_shiftl 8 (N.shiftr s 8)) as I8. change (N.of_nat 8) with 8 in I8. rewrite I8.
  f_equal. rewrite table_nth.
  - rewrite N2Nat.id. apply tstep8_iter.
  - assert (N.land (N.lxor s x) 255 < 256).
    { change 255 with (N.ones 8). rewrite N.land_ones. apply N.mod_lt. discriminate. }
    lia.
Qed.

Lemma fold_table_serial p : forall s,
  fold_left crc_byte_table p s = crc_bits s (bits_of p).
Proof.
  induction p as [|x r IH]; intro s; [reflexivity|].
  cbn [fold_left]. rewrite IH, table_is_8_steps. unfold crc_byte_serial, crc_bits.
  change (bits_of (x :: r)) with (byte_bits x ++ bits_of r).
  rewrite fold_left_app. reflexivity.
Qed.

Theorem crc_update_is_serial crc p : crc_update crc p = crc_update_serial crc p.
Proof. unfold crc_update, crc_update_serial. rewrite fold_table_serial. reflexivity. Qed.

(* writing in pieces = writing the concatenation (hash.Hash32.Write) *)
Lemma lxor_mask_invol a : N.lxor (N.lxor a mask32) mask32 = a.
Proof. rewrite N.lxor_assoc, N.lxor_nilpotent. apply N.lxor_0_r. Qed.

Theorem crc_update_app crc p q : crc_update (crc_update crc p) q = crc_update crc (p ++ q).
Proof.
  unfold crc_update. rewrite lxor_mask_invol, fold_left_app. reflexivity.
Qed.

(* ------------------------------------------------------------------ *)
(* injectivity of the register update                                  *)

Definition reg (s : N) : Prop := s < 2 ^ 32.

Lemma reg_bit_high s n : reg s -> 32 <= n -> N.testbit s n = false.
Proof.
  intros H Hn. destruct (N.eq_dec s 0) as [->|Hz]; [apply N.bits_0|].
  apply N.bits_above_log2. apply N.lt_le_trans with 32; [|exact Hn].
  apply N.log2_lt_pow2; [lia|exact H].
Qed.

Lemma reg_of_bits s : (forall n, 32 <= n -> N.testbit s n = false) -> reg s.
Proof.
  intro H. unfold reg. destruct (N.eq_dec s 0) as [->|Hz]; [reflexivity|].
  apply N.log2_lt_pow2; [lia|].
  destruct (N.lt_ge_cases (N.log2 s) 32) as [L|L]; [exact L|].
  pose proof (N.bit_log2 s Hz) as B. rewrite H in B by exact L. discriminate.
Qed.

Lemma poly_bit31 : N.testbit poly 31 = true.
Proof. reflexivity. Qed.

Lemma reg_poly : reg poly.
Proof. reflexivity. Qed.

Lemma reg_lxor a b : reg a -> reg b -> reg (N.lxor a b).
Proof.
  intros Ha Hb. apply reg_of_bits. intros n Hn.
  rewrite N.lxor_spec, (reg_bit_high a n Ha Hn), (reg_bit_high b n Hb Hn). reflexivity.
Qed.

Lemma reg_shiftr s k : reg s -> reg (N.shiftr s k).
Proof.
  intro H. apply reg_of_bits. intros n Hn.
  rewrite N.shiftr_spec by apply N.le_0_l. apply reg_bit_high; [exact H|lia].
Qed.

Lemma reg_crc_bit s b : reg s -> reg (crc_bit s b).
Proof.
  intro H. unfold crc_bit. destruct (xorb _ _).
  - apply reg_lxor; [apply reg_shiftr; exact H|apply reg_poly].
  - apply reg_shiftr; exact H.
Qed.

Lemma reg_crc_bits bs : forall s, reg s -> reg (crc_bits s bs).
Proof.
  unfold crc_bits. induction bs as [|b r IH]; intros s H; simpl; [exact H|].
  apply IH. apply reg_crc_bit. exact H.
Qed.

(* bit 31 of the new register tells whether the polynomial was applied *)
Lemma crc_bit_top s b : reg s -> N.testbit (crc_bit s b) 31 = xorb (N.testbit s 0) b.
Proof.
  intro H. unfold crc_bit.
  assert (Z31 : N.testbit (N.shiftr s 1) 31 = false).
  { rewrite N.shiftr_spec by apply N.le_0_l. apply reg_bit_high; [exact H|lia]. }
  destruct (xorb _ _).
  - rewrite N.lxor_spec, Z31, poly_bit31. reflexivity.
  - exact Z31.
Qed.

Theorem crc_step_injective b s1 s2 :
  reg s1 -> reg s2 -> crc_bit s1 b = crc_bit s2 b -> s1 = s2.
Proof.
  intros H1 H2 E.
  assert (T : xorb (N.testbit s1 0) b = xorb (N.testbit s2 0) b).
  { rewrite <- (crc_bit_top s1 b H1), <- (crc_bit_top s2 b H2), E. reflexivity. }
  assert (B0 : N.testbit s1 0 = N.testbit s2 0).
  { destruct (N.testbit s1 0), (N.testbit s2 0), b; simpl in T; congruence. }
  assert (Sh : N.shiftr s1 1 = N.shiftr s2 1).
  { unfold crc_bit in E. rewrite <- T in E. destruct (xorb (N.testbit s1 0) b).
    - apply (f_equal (fun v => N.lxor v poly)) in E.
      rewrite !N.lxor_assoc, N.lxor_nilpotent, !N.lxor_0_r in E. exact E.
    - exact E. }
  apply N.bits_inj. intro n.
  destruct (N.eq_dec n 0) as [->|Hn]; [exact B0|].
  replace n with ((n - 1) + 1) by lia.
  rewrite <- !(N.shiftr_spec _ 1 (n - 1)) by apply N.le_0_l. rewrite Sh. reflexivity.
Qed.

(* every register value is reached: with injectivity, a bijection on 32-bit registers *)
Theorem crc_step_surjective b t : reg t -> exists s, reg s /\ crc_bit s b = t.
Proof.
  intro Ht.
  set (c := N.testbit t 31).
  set (h := if c then N.lxor t poly else t).
  assert (Hh : reg h) by (subst h; destruct c; [apply reg_lxor; [exact Ht|apply reg_poly]|exact Ht]).
  assert (H31 : N.testbit h 31 = false).
  { subst h. destruct c eqn:Ec; [rewrite N.lxor_spec, poly_bit31; fold c; rewrite Ec; reflexivity|exact Ec]. }
  set (s := N.lxor (N.double h) (N.b2n (xorb c b))).
  assert (S0 : N.testbit s 0 = xorb c b).
  { subst s. rewrite N.lxor_spec, N.double_spec, N.testbit_even_0. destruct (xorb c b); reflexivity. }
  assert (Ssh : N.shiftr s 1 = h).
  { subst s. rewrite N.shiftr_lxor.
    replace (N.shiftr (N.b2n (xorb c b)) 1) with 0 by (destruct (xorb c b); reflexivity).
    rewrite N.lxor_0_r. change 1 with (N.succ 0). rewrite <- N.div2_spec. apply N.div2_double. }
  exists s. split.
  - apply reg_of_bits. intros n Hn.
    replace n with ((n - 1) + 1) by lia.
    rewrite <- (N.shiftr_spec _ 1 (n - 1)) by apply N.le_0_l. rewrite Ssh.
    destruct (N.eq_dec n 32) as [->|Hne]; [exact H31|].
    apply reg_bit_high; [exact Hh|lia].
  - unfold crc_bit. rewrite S0, Ssh.
    replace (xorb (xorb c b) b) with c by (destruct c, b; reflexivity).
    subst h. destruct c; [|reflexivity].
    rewrite N.lxor_assoc, N.lxor_nilpotent. apply N.lxor_0_r.
Qed.

Lemma crc_bits_injective bs : forall s1 s2,
  reg s1 -> reg s2 -> crc_bits s1 bs = crc_bits s2 bs -> s1 = s2.
Proof.
  unfold crc_bits. induction bs as [|b r IH]; intros s1 s2 H1 H2 E; simpl in E; [exact E|].
  apply (crc_step_injective b); [exact H1|exact H2|].
  apply IH; [apply reg_crc_bit; exact H1|apply reg_crc_bit; exact H2|exact E].
Qed.

Lemma crc_bit_flip_differs s b : crc_bit s b <> crc_bit s (negb b).
Proof.
  unfold crc_bit. intro E.
  assert (P : N.lxor (N.shiftr s 1) poly <> N.shiftr s 1).
  { intro Q. apply (f_equal (N.lxor (N.shiftr s 1))) in Q.
    rewrite <- N.lxor_assoc, N.lxor_nilpotent, N.lxor_0_l in Q. discriminate Q. }
  revert E. cbv zeta. destruct (N.testbit s 0), b; cbn [xorb negb]; congruence.
Qed.

(* two messages of equal length differing in exactly one bit: different registers *)
Theorem crc_bits_single_flip l k s :
  reg s -> (k < length l)%nat -> crc_bits s (flip_nth l k) <> crc_bits s l.
Proof.
  revert k s. induction l as [|b r IH]; intros k s Hs Hk; simpl in Hk; [lia|].
  destruct k as [|k]; simpl flip_nth.
  - unfold crc_bits. simpl. intro E.
    apply (crc_bits_injective r) in E; try (apply reg_crc_bit; exact Hs).
    symmetry in E. exact (crc_bit_flip_differs s b E).
  - unfold crc_bits. simpl. apply IH; [apply reg_crc_bit; exact Hs|lia].
Qed.

(* ---- lifted to byte strings and to the digest ---- *)
Lemma byte_bits_flip x j : (j < 8)%nat ->
  byte_bits (N.lxor x (N.shiftl 1 (N.of_nat j))) = flip_nth (byte_bits x) j.
Proof.
  intro Hj. unfold byte_bits.
  assert (T : forall i, N.testbit (N.lxor x (N.shiftl 1 (N.of_nat j))) i
                        = xorb (N.testbit x i) (N.eqb i (N.of_nat j))).
  { intro i. rewrite N.lxor_spec. f_equal. rewrite N.shiftl_1_l, N.pow2_bits_eqb. apply N.eqb_sym. }
  simpl map. rewrite !T.
  do 8 (destruct j as [|j]; [simpl; rewrite ?xorb_false_r, ?xorb_true_r; reflexivity|]). lia.
Qed.

Lemma flip_nth_app_l a b k : (k < length a)%nat -> flip_nth (a ++ b) k = flip_nth a k ++ b.
Proof.
  revert k; induction a as [|x a IH]; intros k H; simpl in *; [lia|].
  destruct k; simpl; [reflexivity|]. rewrite IH by lia. reflexivity.
Qed.

Lemma flip_nth_app_r a b k : (length a <= k)%nat -> flip_nth (a ++ b) k = a ++ flip_nth b (k - length a).
Proof.
  revert k; induction a as [|x a IH]; intros k H; simpl in *.
  - rewrite Nat.sub_0_r. reflexivity.
  - destruct k; [lia|]. simpl. rewrite IH by lia. reflexivity.
Qed.

Lemma length_bits_of p : length (bits_of p) = (8 * length p)%nat.
Proof.
  induction p as [|x r IH]; [reflexivity|].
  change (bits_of (x :: r)) with (byte_bits x ++ bits_of r).
  rewrite app_length, IH, length_byte_bits. simpl length. lia.
Qed.

Lemma bits_of_cons x r : bits_of (x :: r) = byte_bits x ++ bits_of r.
Proof. reflexivity. Qed.

Lemma bits_of_flip p : forall k, (k < 8 * length p)%nat ->
  bits_of (flip_bit p k) = flip_nth (bits_of p) k.
Proof.
  induction p as [|x r IH]; intros k Hk; simpl in Hk; [lia|].
  cbn [flip_bit]. destruct (Nat.ltb k 8) eqn:E.
  - apply Nat.ltb_lt in E. rewrite !bits_of_cons.
    rewrite byte_bits_flip by exact E. rewrite flip_nth_app_l; [reflexivity|]. rewrite length_byte_bits. exact E.
  - apply Nat.ltb_ge in E. rewrite !bits_of_cons.
    rewrite flip_nth_app_r by (rewrite length_byte_bits; exact E).
    rewrite length_byte_bits, IH by lia. reflexivity.
Qed.

Lemma length_flip_bit p : forall k, length (flip_bit p k) = length p.
Proof.
  induction p as [|x r IH]; intro k; simpl; [reflexivity|].
  destruct (Nat.ltb k 8); simpl; [reflexivity|]. rewrite IH. reflexivity.
Qed.

Lemma reg_mask crc : reg crc -> reg (N.lxor crc mask32).
Proof. intro H. apply reg_lxor; [exact H|reflexivity]. Qed.

Lemma reg_crc_update crc p : reg crc -> reg (crc_update crc p).
Proof.
  intro H. rewrite crc_update_is_serial. unfold crc_update_serial.
  apply reg_mask. apply reg_crc_bits. apply reg_mask. exact H.
Qed.

(* the digest after the common prefix [pre], then a message and its one-bit damage *)
Theorem crc_detects_single_flip crc p k :
  reg crc -> (k < 8 * length p)%nat -> crc_update crc (flip_bit p k) <> crc_update crc p.
Proof.
  intros Hc Hk. rewrite !crc_update_is_serial. unfold crc_update_serial.
  rewrite bits_of_flip by exact Hk. intro E.
  apply (f_equal (fun v => N.lxor v mask32)) in E. rewrite !lxor_mask_invol in E.
  revert E. apply crc_bits_single_flip; [apply reg_mask; exact Hc|].
  rewrite length_bits_of. exact Hk.
Qed.

(* with an undamaged tail after the damaged part (suffix-preserving change) *)
Theorem crc_detects_flip_then_suffix crc p k q :
  reg crc -> (k < 8 * length p)%nat ->
  crc_update crc (flip_bit p k ++ q) <> crc_update crc (p ++ q).
Proof.
  intros Hc Hk.
  assert (F : flip_bit p k ++ q = flip_bit (p ++ q) k).
  { clear Hc. revert k Hk. induction p as [|x r IH]; intros k Hk; simpl in Hk; [lia|].
    simpl. destruct (Nat.ltb k 8) eqn:E; [reflexivity|].
    apply Nat.ltb_ge in E. simpl. rewrite IH by lia. reflexivity. }
  rewrite F. apply crc_detects_single_flip; [exact Hc|]. rewrite app_length. lia.
Qed.

(* sanity: the standard check value, and two table entries of hash/crc32's IEEETable *)
Example crc32_check_value : crc32 [49; 50; 51; 52; 53; 54; 55; 56; 57] = 0xCBF43926.
Proof. vm_compute. reflexivity. Qed.
Example table_1 : nth 1 table 0 = 0x77073096. Proof. reflexivity. Qed.
Example table_255 : nth 255 table 0 = 0x2D02EF8D. Proof. reflexivity. Qed.

(* C19 — judging sets of concurrent runs: each must return what it returns alone. *)
From Coq Require Import List ZArith Bool.
Import ListNotations.
Require Export BS.C01.Corr.

Definition case := list (list node * obs).

Definition run_ok (r : list node * obs) : bool :=
  match fst r with
  | [] => false     (* a synthetic case carrying a data-race report of the race runtime *)
  | p => ok_rows_with (ref p) (snd r)
  end.

Definition ok (c : case) : bool := forallb run_ok c.
Definition violations (cs : list case) : list nat := bad_indices ok cs.
Definition mismatches (cs : list case) : list nat := violations cs.

(* C18 — executable model of the dynamic type checks of bigslice's operator
   constructors (slice.go, reduce.go, cogroup.go, reshuffle.go, reshard.go) and of
   the helpers they call (slicefunc.Of, typecheck.CanApply / Equal / Devectorize,
   canMakeCombiningFrame, canMakeAccumulatorForKey).  Each checker mirrors the
   `if`s of its constructor in source order.  The result is
     Accept t   the constructor returns a Slice whose (Out, Prefix, NumShard) is t
     Reject     it panics with a *typecheck.Error
     GoPanic    it panics with anything else (index out of range inside reflect or
                a slicetype, ...).
   No proofs in this file. *)
From Coq Require Import List ZArith Bool.
Import ListNotations.
Require Export BS.C18.Types.

Inductive outcome := Accept (s : stype) | Reject | GoPanic.

(* a Go expression that may panic (Out(i) with i out of range) *)
Inductive res (A : Type) := Val (a : A) | Pan.
Arguments Val {A}.
Arguments Pan {A}.

(* t.Out(i) / typeSlice[i]: panics when i is out of range *)
Definition out_at (l : list ty) (i : nat) : res ty :=
  match nth_error l i with Some t => Val t | None => Pan end.

(* ---------------------------------------------------------------- slicefunc.Of
   slicefunc/func.go:64-90.  In = the parameter types as reflect reports them
   (a variadic final parameter ...e appears as []e) minus a leading
   context.Context; Out = the results; IsVariadic = t.IsVariadic().  sf_var keeps
   the element type so that CanApply's In.Out(n-1).Elem() needs no partial
   operation. *)
Record sfunc := mkF { sf_in : list ty; sf_out : list ty; sf_var : option ty }.

Definition reflect_ins (ins : list ty) (var : option ty) : list ty :=
  ins ++ match var with Some e => [TSlice e] | None => [] end.

Definition slicefunc_of (fn : ty) : option sfunc :=
  match fn with
  | TFunc ins var outs =>
      let full := reflect_ins ins var in
      let context := match full with t :: _ => ty_eqb t TContext | [] => false end in
      Some (mkF (if context then tl full else full) outs var)
  | _ => None                                  (* t.Kind() != reflect.Func *)
  end.

(* ---------------------------------------------------------------- typecheck *)
(* typecheck/func.go CanApply *)
Definition can_apply (U : universe) (fn : sfunc) (arg : list ty) : bool :=
  match sf_var fn with
  | Some variadicType =>
      let n := length (sf_in fn) in
      if (length arg <? n - 1)%nat then false                       (* not enough arguments *)
      else all2 (assignable U) (firstn (n - 1) arg) (firstn (n - 1) (sf_in fn))
           && forallb (fun a => assignable U a variadicType) (skipn (n - 1) arg)
  | None =>
      if negb (length arg =? length (sf_in fn))%nat then false
      else all2 (assignable U) arg (sf_in fn)
  end.

(* typecheck.Equal: same number of columns, pairwise identical *)
Definition type_equal (expect actual : list ty) : bool := tys_eqb actual expect.

(* typecheck.Devectorize (and typecheck.Slices on the columns' own types) *)
Fixpoint devectorize (l : list ty) : option (list ty) :=
  match l with
  | [] => Some []
  | TSlice e :: r => match devectorize r with Some es => Some (e :: es) | None => None end
  | _ :: _ => None
  end.

(* reduce.go canMakeCombiningFrame: for i < Prefix() { typ.Out(i) ... }; every
   failing key type is collected, so an out-of-range Out(i) panics whatever the
   earlier columns were.  Val true = nil error. *)
Fixpoint cmcf_loop (U : universe) (cs : list ty) (i todo : nat) : res bool :=
  match todo with
  | O => Val true
  | S todo' =>
      match out_at cs i with
      | Pan => Pan
      | Val t =>
          match cmcf_loop U cs (S i) todo' with
          | Pan => Pan
          | Val ok => Val (negb (negb (can_hash U t) || negb (can_compare U t)) && ok)
          end
      end
  end.
Definition can_make_combining_frame (U : universe) (s : stype) : res bool :=
  cmcf_loop U (cols s) 0 (prefix s).

(* ================================================================ repairs
   Three defects of the type checks were found by this property and repaired in
   /repo by `fix:` commits.  Each checker below is parameterised by which repairs
   are in; the former behaviour stays expressible so that the refutations of the
   unrepaired code (Refuted.v) remain checked witnesses.
     rep_numout          ReaderFunc checks fn.Out.NumOut() == 2 before Out(0)/Out(1)
     rep_shard_exact     ReaderFunc/WriterFunc: fn.In.Out(0) != typeOfInt instead of
                         .Kind() != reflect.Int                          (b77039e)
     rep_reject_variadic ReaderFunc/WriterFunc/Fold/Reduce/Repartition test
                         fn.IsVariadic in their first validity test      (74b12a5) *)
Record repairs := mkRep {
  rep_numout : bool;
  rep_shard_exact : bool;
  rep_reject_variadic : bool
}.
Definition as_found : repairs := mkRep false false false.

(* THE SWITCHES: what the code in /repo is now (true = the repair is in). *)
Definition readerfunc_numout_checked : bool := true.
Definition shard_param_exact : bool := true.
Definition exact_form_rejects_variadic : bool := true.
Definition current_code : repairs :=
  mkRep readerfunc_numout_checked shard_param_exact exact_form_rejects_variadic.

Definition is_variadic (fn : sfunc) : bool :=
  match sf_var fn with Some _ => true | None => false end.
(* the test on the shard parameter *)
Definition shard_is_int (R : repairs) (t : ty) : bool :=
  if rep_shard_exact R then ty_eqb t tint else kind_is_int t.

(* ================================================================ constructors *)

(* slice.go:212 Const(nshard, columns...): [columns] are the dynamic types of the
   values passed (equal lengths assumed, see frame.Slices). *)
Definition const_check (n : Z) (columns : list ty) : outcome :=
  if (length columns =? 0)%nat then Reject else
  if (n <? 1)%Z then Reject else
  match devectorize columns with
  | None => Reject
  | Some elems => Accept (mkS elems 1 n)
  end.

(* slice.go:321 ReaderFunc(nshard, read) *)
Definition readerfunc_check_gen (R : repairs) (n : Z) (read : ty) : outcome :=
  match slicefunc_of read with
  | None => Reject
  | Some fn =>
      if rep_reject_variadic R && is_variadic fn then Reject else
      if (length (sf_in fn) <? 3)%nat then Reject else
      match out_at (sf_in fn) 0 with
      | Pan => GoPanic
      | Val a0 =>
          if negb (shard_is_int R a0) then Reject else
          if rep_numout R && negb (length (sf_out fn) =? 2)%nat then Reject else
          match out_at (sf_out fn) 0 with
          | Pan => GoPanic
          | Val o0 =>
              if negb (kind_is_int o0) then Reject else
              match out_at (sf_out fn) 1 with
              | Pan => GoPanic
              | Val o1 =>
                  if negb (ty_eqb o1 TError) then Reject else
                  match devectorize (skipn 2 (sf_in fn)) with
                  | None => Reject
                  | Some elems => Accept (mkS elems 1 n)
                  end
              end
          end
      end
  end.

Definition readerfunc_check := readerfunc_check_gen current_code.

(* slice.go:443 WriterFunc(slice, write) *)
Definition writerfunc_check_gen (R : repairs) (s : stype) (write : ty) : outcome :=
  match slicefunc_of write with
  | None => Reject
  | Some fn =>
      if rep_reject_variadic R && is_variadic fn then Reject else
      if negb (length (sf_in fn) =? 3 + length (cols s))%nat then Reject else
      match out_at (sf_in fn) 0 with
      | Pan => GoPanic
      | Val a0 =>
          if negb (shard_is_int R a0) then Reject else
          match out_at (sf_in fn) 2 with
          | Pan => GoPanic
          | Val a2 =>
              if negb (ty_eqb a2 TError) then Reject else
              (* for i < NumOut: reflect.SliceOf(slice.Out(i)) != fn.In.Out(i+3) *)
              if negb (tys_eqb (map TSlice (cols s)) (skipn 3 (sf_in fn))) then Reject else
              if negb (length (sf_out fn) =? 1)%nat then Reject else
              match out_at (sf_out fn) 0 with
              | Pan => GoPanic
              | Val o0 => if negb (ty_eqb o0 TError) then Reject else Accept s
              end
          end
      end
  end.
Definition writerfunc_check := writerfunc_check_gen current_code.

(* slice.go:566 Map: mapSlice embeds the input Slice and overrides NumOut/Out only,
   so Prefix() and NumShard() are the input's. *)
Definition map_check (U : universe) (s : stype) (f : ty) : outcome :=
  match slicefunc_of f with
  | None => Reject
  | Some fn =>
      if negb (can_apply U fn (cols s)) then Reject else
      if (length (sf_out fn) =? 0)%nat then Reject else
      Accept (mkS (sf_out fn) (prefix s) (nshard s))
  end.

(* slice.go:657 Filter *)
Definition filter_check (U : universe) (s : stype) (pred : ty) : outcome :=
  match slicefunc_of pred with
  | None => Reject
  | Some fn =>
      if negb (can_apply U fn (cols s)) then Reject else
      if negb (length (sf_out fn) =? 1)%nat then Reject else
      match out_at (sf_out fn) 0 with
      | Pan => GoPanic
      | Val b => if negb (kind_is_bool b) then Reject else Accept s
      end
  end.

(* slice.go:745 Flatmap: NumOut/Out overridden by the devectorized results *)
Definition flatmap_check (U : universe) (s : stype) (f : ty) : outcome :=
  match slicefunc_of f with
  | None => Reject
  | Some fn =>
      if negb (can_apply U fn (cols s)) then Reject else
      match devectorize (sf_out fn) with
      | None => Reject
      | Some elems => Accept (mkS elems (prefix s) (nshard s))
      end
  end.

(* slice.go:870 Fold *)
Definition fold_check_gen (R : repairs) (U : universe) (s : stype) (fold : ty) : outcome :=
  if (length (cols s) <? 2)%nat then Reject else
  match out_at (cols s) 0 with
  | Pan => GoPanic
  | Val k =>
      if negb (can_hash U k) then Reject else
      if negb (kind_accumulable k) then Reject else
      match slicefunc_of fold with
      | None => Reject
      | Some fn =>
          if rep_reject_variadic R && is_variadic fn then Reject else
          if negb (length (sf_out fn) =? 1)%nat then Reject else
          (* got = fn.In, want = Append(fn.Out, Slice(slice, 1, NumOut)) *)
          if negb (type_equal (sf_out fn ++ skipn 1 (cols s)) (sf_in fn)) then Reject else
          match out_at (sf_out fn) 0 with
          | Pan => GoPanic
          | Val acc => Accept (mkS [k; acc] (prefix s) (nshard s))
          end
      end
  end.
Definition fold_check := fold_check_gen current_code.

(* slice.go:966 Head, slice.go:1005 Scan: no dynamic check *)
Definition head_check (s : stype) (n : Z) : outcome := Accept s.
Definition scan_check (s : stype) : outcome := Accept (mkS [] (prefix s) (nshard s)).

(* slice.go:1044 Prefixed *)
Definition prefixed_check (s : stype) (p : Z) : outcome :=
  if (p <? 1)%Z then Reject else
  if (p >? Z.of_nat (length (cols s)))%Z then Reject else
  Accept (mkS (cols s) (Z.to_nat p) (nshard s)).

(* reduce.go:42 Reduce.  The last condition is Go's
     In.NumOut() != 2 || In.Out(0) != T || In.Out(1) != T || Out.NumOut() != 1 || Out.Out(0) != T
   whose short-circuit evaluation never indexes out of range. *)
Definition reduce_check_gen (R : repairs) (U : universe) (s : stype) (reduce : ty) : outcome :=
  if negb (Z.of_nat (length (cols s)) - Z.of_nat (prefix s) =? 1)%Z then Reject else
  match can_make_combining_frame U s with
  | Pan => GoPanic
  | Val false => Reject
  | Val true =>
      match slicefunc_of reduce with
      | None => Reject
      | Some fn =>
          if rep_reject_variadic R && is_variadic fn then Reject else
          match out_at (cols s) (length (cols s) - 1) with
          | Pan => GoPanic
          | Val outputType =>
              if negb (tys_eqb (sf_in fn) [outputType; outputType])
                 || negb (tys_eqb (sf_out fn) [outputType])
              then Reject else Accept s
          end
      end
  end.
Definition reduce_check := reduce_check_gen current_code.

(* reshuffle.go:35 Reshuffle *)
Definition reshuffle_check (U : universe) (s : stype) : outcome :=
  match can_make_combining_frame U s with
  | Pan => GoPanic
  | Val false => Reject
  | Val true => Accept s
  end.

(* reshuffle.go:53 Repartition *)
Definition repartition_check_gen (R : repairs) (s : stype) (partition : ty) : outcome :=
  match slicefunc_of partition with
  | None => Reject
  | Some fn =>
      if (rep_reject_variadic R && is_variadic fn)
         || negb (type_equal (sf_in fn) (tint :: cols s)) || negb (type_equal (sf_out fn) [tint])
      then Reject else Accept s
  end.
Definition repartition_check := repartition_check_gen current_code.

(* reshard.go:23 Reshard: returns the input itself when the shard count is
   already n, a reshardSlice with NumShard() = n otherwise. *)
Definition reshard_check (U : universe) (s : stype) (n : Z) : outcome :=
  match can_make_combining_frame U s with
  | Pan => GoPanic
  | Val false => Reject
  | Val true =>
      if (nshard s =? n)%Z then Accept s else Accept (mkS (cols s) (prefix s) n)
  end.

(* cogroup.go:46 Cogroup *)
Fixpoint take_outs (cs : list ty) (i n : nat) : res (list ty) :=   (* Out(i) .. Out(i+n-1) *)
  match n with
  | O => Val []
  | S n' =>
      match out_at cs i with
      | Pan => Pan
      | Val t => match take_outs cs (S i) n' with Pan => Pan | Val r => Val (t :: r) end
      end
  end.

(* for j := range keyTypes { if slice.Out(j) != keyTypes[j] { typecheck.Panicf } } *)
Fixpoint cmp_keys (cs : list ty) (j : nat) (keys : list ty) : res bool :=
  match keys with
  | [] => Val true
  | k :: ks =>
      match out_at cs j with
      | Pan => Pan
      | Val t => if ty_eqb t k then cmp_keys cs (S j) ks else Val false
      end
  end.

Inductive keyscan := KSKeys (keys : list ty) | KSReject | KSPanic.

Fixpoint cogroup_keys (first : bool) (keys : list ty) (ss : list stype) : keyscan :=
  match ss with
  | [] => KSKeys keys
  | s :: rest =>
      if (length (cols s) =? 0)%nat then KSReject else
      if first then
        match take_outs (cols s) 0 (prefix s) with
        | Pan => KSPanic
        | Val ks => cogroup_keys false ks rest
        end
      else if negb (prefix s =? length keys)%nat then KSReject
      else match cmp_keys (cols s) 0 keys with
           | Pan => KSPanic
           | Val false => KSReject
           | Val true => cogroup_keys false keys rest
           end
  end.

(* for i := range keyTypes { !CanHash -> panic; !CanCompare -> panic } *)
Fixpoint cogroup_keys_ok (U : universe) (keys : list ty) : bool :=
  match keys with
  | [] => true
  | k :: ks =>
      if negb (can_hash U k) then false else
      if negb (can_compare U k) then false else cogroup_keys_ok U ks
  end.

Definition cogroup_out (keys : list ty) (ss : list stype) : list ty :=
  keys ++ flat_map (fun s => map TSlice (skipn (length keys) (cols s))) ss.

Definition cogroup_numshard (ss : list stype) : Z :=
  fold_left (fun acc s => if (nshard s >? acc)%Z then nshard s else acc) ss 0%Z.

Definition cogroup_check (U : universe) (ss : list stype) : outcome :=
  if (length ss =? 0)%nat then Reject else
  match cogroup_keys true [] ss with
  | KSPanic => GoPanic
  | KSReject => Reject
  | KSKeys keys =>
      if negb (cogroup_keys_ok U keys) then Reject else
      Accept (mkS (cogroup_out keys ss) (length keys) (cogroup_numshard ss))
  end.

(* ================================================================ func.go
   FuncValue.Invocation -> FuncValue.typecheck (func.go:117-142): the
   dynamic types of the arguments (None = an untyped nil) against the parameter
   types of the registered function. *)
Inductive fres := FOk | FReject | FGoPanic.

(* func.go isNilAssignable: Chan, Func, Interface, Map, Ptr, Slice, UnsafePointer *)
Definition is_nil_assignable (t : ty) : bool :=
  match t with
  | TSlice _ | TPtr _ | TFunc _ _ _ | TIface _ | TError | TContext => true
  | _ => false
  end.

Fixpoint func_typecheck_loop (U : universe) (params : list ty) (args : list (option ty)) : bool :=
  match params, args with
  | expect :: ps, have :: hs =>
      match have with
      | None => if negb (is_nil_assignable expect) then false else func_typecheck_loop U ps hs
      | Some h =>
          if is_iface expect                         (* switch expect.Kind() { case reflect.Interface: *)
          then (if negb (implements U h expect) then false else func_typecheck_loop U ps hs)
          else (if negb (ty_eqb h expect) then false else func_typecheck_loop U ps hs)
      end
  | _, _ => true
  end.

Definition invocation_check (U : universe) (params : list ty) (args : list (option ty)) : fres :=
  if negb (length args =? length params)%nat then FReject else
  if func_typecheck_loop U params args then FOk else FReject.

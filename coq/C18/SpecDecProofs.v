(* C18 — the decision procedures of SpecDec.v decide the declarative schemas of
   Spec.v:  X_schema_b ... = Some r  <->  X_schema ... r. *)
From Coq Require Import List ZArith Bool Lia Setoid.
Import ListNotations.
Require Import BS.C18.Types BS.C18.Model BS.C18.Spec BS.C18.SpecDec BS.C18.Facts.

Ltac break_match_hyp H :=
  match type of H with context [match ?x with _ => _ end] => destruct x eqn:? end.

Ltac break_all H := repeat (break_match_hyp H; try discriminate H).

Ltac clean :=
  repeat match goal with
  | H : (_ && _) = true |- _ => apply andb_true_iff in H; destruct H
  | H : ty_eqb _ _ = true |- _ => apply ty_eqb_spec in H; subst
  | H : tys_eqb _ _ = true |- _ => apply tys_eqb_spec in H; subst
  | H : elems_of _ = Some _ |- _ => apply elems_of_spec in H; subst
  | H : user_func_b _ = Some _ |- _ => apply user_func_b_spec in H
  | H : args_fit_b _ _ _ _ = true |- _ => apply args_fit_b_spec in H
  | H : negb _ = true |- _ => apply negb_true_iff in H
  | H : (_ <=? _)%Z = true |- _ => apply Z.leb_le in H
  | H : (_ <=? _)%nat = true |- _ => apply Nat.leb_le in H
  | H : (_ =? _)%nat = true |- _ => apply Nat.eqb_eq in H
  end.

Lemma elems_of_map l : elems_of (map TSlice l) = Some l.
Proof. apply elems_of_spec. reflexivity. Qed.

Lemma user_func_b_of f ins var outs : user_func f ins var outs -> user_func_b f = Some (ins, var, outs).
Proof. apply user_func_b_spec. Qed.

(* ---------------------------------------------------------------- Const *)
Lemma const_schema_b_iff n columns r : const_schema_b n columns = Some r <-> const_schema n columns r.
Proof.
  unfold const_schema_b, const_schema. split.
  - intro H. break_all H. injection H as <-. clean.
    eexists. repeat split; eauto. discriminate.
  - intros (elems & -> & Hne & Hn & ->). rewrite elems_of_map.
    destruct elems; [contradiction|]. apply Z.leb_le in Hn. rewrite Hn. reflexivity.
Qed.

(* ---------------------------------------------------------------- ReaderFunc *)
Lemma readerfunc_schema_b_iff n read r :
  readerfunc_schema_b n read = Some r <-> readerfunc_schema n read r.
Proof.
  unfold readerfunc_schema_b, readerfunc_schema. split.
  - intro H. break_all H. injection H as <-. clean.
    do 3 eexists. split; [eassumption|]. repeat split; auto. discriminate.
  - intros (state & elems & count & Hf & Hne & Hk & ->).
    rewrite (user_func_b_of _ _ _ _ Hf). simpl. rewrite Hk, elems_of_map.
    destruct elems; [contradiction|]. reflexivity.
Qed.

(* ---------------------------------------------------------------- WriterFunc *)
Lemma writerfunc_schema_b_iff s write r :
  writerfunc_schema_b s write = Some r <-> writerfunc_schema s write r.
Proof.
  unfold writerfunc_schema_b, writerfunc_schema. split.
  - intro H. break_all H. injection H as <-. clean.
    split; [|reflexivity].
    match goal with H : user_func _ (_ :: ?st :: _) _ _ |- _ => exists st end. assumption.
  - intros ((state & Hf) & ->).
    rewrite (user_func_b_of _ _ _ _ Hf). simpl. rewrite tys_eqb_refl. reflexivity.
Qed.

(* ---------------------------------------------------------------- Map / Filter / Flatmap *)
Lemma is_nil_false {A} (l : list A) : is_nil l = false <-> l <> [].
Proof. destruct l; simpl; split; intro H; congruence. Qed.

Lemma map_schema_b_iff U s f r : map_schema_b U s f = Some r <-> map_schema U s f r.
Proof.
  unfold map_schema_b, map_schema. split.
  - intro H. break_all H. injection H as <-. clean.
    do 3 eexists. split; [eassumption|]. repeat split; auto. apply is_nil_false. assumption.
  - intros (ins & var & outs & Hf & Ha & Hne & ->).
    rewrite (user_func_b_of _ _ _ _ Hf). apply args_fit_b_spec in Ha. rewrite Ha.
    apply is_nil_false in Hne. rewrite Hne. reflexivity.
Qed.

Lemma filter_schema_b_iff U s pred r : filter_schema_b U s pred = Some r <-> filter_schema U s pred r.
Proof.
  unfold filter_schema_b, filter_schema. split.
  - intro H. break_all H. injection H as <-. clean.
    split; [|reflexivity]. do 3 eexists. split; [eassumption|]. auto.
  - intros ((ins & var & b & Hf & Ha & Hb) & ->).
    rewrite (user_func_b_of _ _ _ _ Hf). apply args_fit_b_spec in Ha. rewrite Ha, Hb. reflexivity.
Qed.

Lemma flatmap_schema_b_iff U s f r : flatmap_schema_b U s f = Some r <-> flatmap_schema U s f r.
Proof.
  unfold flatmap_schema_b, flatmap_schema. split.
  - intro H. break_all H. injection H as <-. clean.
    do 3 eexists. split; [eassumption|]. auto.
  - intros (ins & var & elems & Hf & Ha & ->).
    rewrite (user_func_b_of _ _ _ _ Hf). apply args_fit_b_spec in Ha. rewrite Ha, elems_of_map. reflexivity.
Qed.

(* ---------------------------------------------------------------- Fold *)
Lemma fold_schema_b_iff U s fold r : fold_schema_b U s fold = Some r <-> fold_schema U s fold r.
Proof.
  unfold fold_schema_b, fold_schema, Hashable. split.
  - intro H. break_all H. injection H as <-. clean.
    match goal with H : cols s = ?k :: ?rest |- _ => exists k, rest end.
    match goal with H : user_func _ (?a :: _) _ _ |- _ => exists a end.
    repeat split; auto. discriminate.
  - intros (key & rest & acc & Hc & Hne & Hh & Hk & Hf & ->).
    rewrite Hc. destruct rest as [|v2 rest']; [contradiction|].
    rewrite Hh, Hk. simpl. rewrite (user_func_b_of _ _ _ _ Hf).
    rewrite ty_eqb_refl, tys_eqb_refl. reflexivity.
Qed.

(* ---------------------------------------------------------------- Head / Scan / Prefixed *)
Lemma head_schema_b_iff s n r : head_schema_b s n = Some r <-> head_schema s n r.
Proof. unfold head_schema_b, head_schema. split; [intros [= <-]; reflexivity | intros ->; reflexivity]. Qed.

Lemma scan_schema_b_iff s r : scan_schema_b s = Some r <-> scan_schema s r.
Proof. unfold scan_schema_b, scan_schema. split; [intros [= <-]; reflexivity | intros ->; reflexivity]. Qed.

Lemma prefixed_schema_b_iff s p r : prefixed_schema_b s p = Some r <-> prefixed_schema s p r.
Proof.
  unfold prefixed_schema_b, prefixed_schema. split.
  - intro H. break_all H. injection H as <-. clean. split; [lia | reflexivity].
  - intros ([H1 H2] & ->). apply Z.leb_le in H1, H2. rewrite H1, H2. reflexivity.
Qed.

(* ---------------------------------------------------------------- keyed slices *)
Lemma keyed_b_iff U s : keyed_b U s = true <-> keyed U s.
Proof.
  unfold keyed_b, keyed. rewrite andb_true_iff, Nat.leb_le, forallb_keyable. split.
  - intros [Hl Hk]. exists (firstn (prefix s) (cols s)), (skipn (prefix s) (cols s)).
    split; [symmetry; apply firstn_skipn|]. split; [apply firstn_length_le; assumption | assumption].
  - intros (keys & rest & Hc & Hl & Hk). rewrite Hc, <- Hl.
    rewrite firstn_app, Nat.sub_diag, firstn_all, firstn_O, app_nil_r, app_length.
    split; [lia | assumption].
Qed.

Lemma reshuffle_schema_b_iff U s r : reshuffle_schema_b U s = Some r <-> reshuffle_schema U s r.
Proof.
  unfold reshuffle_schema_b, reshuffle_schema. rewrite <- keyed_b_iff.
  destruct (keyed_b U s); split; try discriminate.
  - intros [= <-]. auto.
  - intros [_ ->]. reflexivity.
  - intros [H _]. discriminate.
Qed.

Lemma reshard_schema_b_iff U s n r : reshard_schema_b U s n = Some r <-> reshard_schema U s n r.
Proof.
  unfold reshard_schema_b, reshard_schema. rewrite <- keyed_b_iff.
  destruct (keyed_b U s); split; try discriminate.
  - intros [= <-]. auto.
  - intros [_ ->]. reflexivity.
  - intros [H _]. discriminate.
Qed.

(* ---------------------------------------------------------------- Reduce *)
Lemma nth_error_app_last {A} (l : list A) x : nth_error (l ++ [x]) (length l) = Some x.
Proof. rewrite nth_error_app2 by lia. rewrite Nat.sub_diag. reflexivity. Qed.

Lemma reduce_schema_b_iff U s reduce r : reduce_schema_b U s reduce = Some r <-> reduce_schema U s reduce r.
Proof.
  unfold reduce_schema_b, reduce_schema. split.
  - intro H. break_all H. injection H as <-. clean.
    split; [|reflexivity].
    match goal with H : keyed_b _ _ = true |- _ => apply keyed_b_iff in H; destruct H as (keys & rest & Hc & Hl & Hk) end.
    match goal with H : nth_error (cols s) (prefix s) = Some ?v |- _ => rename H into Hn; exists keys, v end.
    assert (Hr : rest = [t]).
    { rewrite Hc, app_length in *. rewrite <- Hl in *.
      rewrite nth_error_app2 in Hn by lia. rewrite Nat.sub_diag in Hn.
      destruct rest as [|x [|y rest']]; simpl in *; try lia. congruence. }
    subst rest. auto.
  - intros ((keys & v & Hc & Hl & Hk & Hf) & ->).
    assert (Hkb : keyed_b U s = true).
    { apply keyed_b_iff. exists keys, [v]. auto. }
    rewrite Hkb. rewrite Hc at 1. rewrite app_length, Hl. simpl. rewrite Nat.eqb_refl. simpl.
    rewrite Hc, <- Hl, nth_error_app_last.
    rewrite (user_func_b_of _ _ _ _ Hf). rewrite ty_eqb_refl. reflexivity.
Qed.

(* ---------------------------------------------------------------- Repartition *)
Lemma repartition_schema_b_iff s partition r :
  repartition_schema_b s partition = Some r <-> repartition_schema s partition r.
Proof.
  unfold repartition_schema_b, repartition_schema. split.
  - intro H. break_all H. injection H as <-. clean. auto.
  - intros (Hf & ->). rewrite (user_func_b_of _ _ _ _ Hf). rewrite tys_eqb_refl. reflexivity.
Qed.

(* ---------------------------------------------------------------- Cogroup *)
Lemma max_nshard_fold ss : max_nshard ss (fold_right Z.max 0%Z (map nshard ss)).
Proof.
  unfold max_nshard. induction ss as [|s r (H0 & Hall & Hex)]; simpl.
  - repeat split; [lia | constructor | left; reflexivity].
  - set (M := fold_right Z.max 0%Z (map nshard r)) in *. repeat split.
    + lia.
    + constructor; [lia|]. eapply Forall_impl; [|exact Hall]. simpl. intros; lia.
    + destruct (Z.max_spec (nshard s) M) as [[Hlt ->] | [Hge ->]].
      * destruct Hex as [->|Hex]; [left; reflexivity | right; apply Exists_cons_tl; assumption].
      * right. apply Exists_cons_hd. reflexivity.
Qed.

Lemma max_nshard_unique ss m : max_nshard ss m -> m = fold_right Z.max 0%Z (map nshard ss).
Proof.
  intros (H0 & Hall & Hex).
  destruct (max_nshard_fold ss) as (M0 & Mall & Mex).
  set (M := fold_right Z.max 0%Z (map nshard ss)) in *.
  rewrite Forall_forall in Hall, Mall.
  assert (M <= m)%Z.
  { destruct Mex as [->|Mex]; [assumption|]. apply Exists_exists in Mex as (s & Hs & <-). auto. }
  assert (m <= M)%Z.
  { destruct Hex as [->|Hex]; [assumption|]. apply Exists_exists in Hex as (s & Hs & <-). auto. }
  lia.
Qed.

Lemma flat_map_map' {A B C} (g : A -> B) (f : B -> list C) l :
  flat_map f (map g l) = flat_map (fun x => f (g x)) l.
Proof. induction l; simpl; congruence. Qed.

Lemma Forall2_map_r {A B} (R : A -> B -> Prop) (g : A -> B) l :
  Forall (fun x => R x (g x)) l -> Forall2 R l (map g l).
Proof. induction 1; simpl; constructor; auto. Qed.

Lemma firstn_app_exact {A} (l r : list A) : firstn (length l) (l ++ r) = l.
Proof. rewrite firstn_app, Nat.sub_diag, firstn_all, firstn_O, app_nil_r. reflexivity. Qed.

Lemma skipn_app_exact {A} (l r : list A) : skipn (length l) (l ++ r) = r.
Proof. rewrite skipn_app, Nat.sub_diag, skipn_all, skipn_O. reflexivity. Qed.

Lemma cogroup_schema_b_iff U ss r : cogroup_schema_b U ss = Some r <-> cogroup_schema U ss r.
Proof.
  unfold cogroup_schema_b, cogroup_schema. split.
  - destruct ss as [|s0 ss']; [discriminate|].
    set (p := prefix s0). set (keys := firstn p (cols s0)).
    intro H. break_all H. injection H as <-. clean.
    match goal with H : forallb _ (s0 :: ss') = true |- _ => rename H into Hall end.
    match goal with H : forallb (keyable U) keys = true |- _ => rename H into Hk end.
    assert (Hlen : length keys = p) by (apply firstn_length_le; assumption).
    exists keys, (map (fun s => skipn p (cols s)) (s0 :: ss')),
      (fold_right Z.max 0%Z (map nshard (s0 :: ss'))).
    split; [discriminate|]. split; [|split; [|split]].
    + apply Forall2_map_r. rewrite forallb_forall in Hall. apply Forall_forall. intros s Hs.
      specialize (Hall s Hs). clean. rewrite Hlen.
      match goal with H : firstn p (cols s) = keys |- _ => rewrite <- H end.
      split; [symmetry; apply firstn_skipn|]. split; [assumption|].
      apply is_nil_false. assumption.
    + apply forallb_keyable. assumption.
    + apply max_nshard_fold.
    + rewrite flat_map_map', Hlen. reflexivity.
  - intros (keys & rests & m & Hne & H2 & Hk & Hm & ->).
    destruct ss as [|s0 ss']; [contradiction|].
    assert (Hp : prefix s0 = length keys).
    { inversion H2; subst. tauto. }
    assert (Hc0 : exists rest0, cols s0 = keys ++ rest0).
    { inversion H2; subst. eexists. apply H1. }
    destruct Hc0 as (rest0 & Hc0).
    assert (Hkeys : firstn (prefix s0) (cols s0) = keys).
    { rewrite Hp, Hc0. apply firstn_app_exact. }
    rewrite Hkeys.
    assert (Hle : (prefix s0 <=? length (cols s0))%nat = true).
    { apply Nat.leb_le. rewrite Hp, Hc0, app_length. lia. }
    rewrite Hle. cbn [andb].
    assert (Hall : forallb (fun s => Nat.eqb (prefix s) (prefix s0)
                                 && tys_eqb (firstn (prefix s0) (cols s)) keys
                                 && negb (is_nil (cols s))) (s0 :: ss') = true).
    { apply forallb_forall. intros s Hs.
      assert (Hs' : exists rest, cols s = keys ++ rest /\ prefix s = length keys /\ cols s <> []).
      { clear - H2 Hs. induction H2; [contradiction|]. destruct Hs as [<-|Hs]; eauto. }
      destruct Hs' as (rest & Hc & Hpr & Hn).
      rewrite Hp, Hpr, Nat.eqb_refl, Hc, firstn_app_exact, tys_eqb_refl. simpl.
      rewrite <- Hc. apply negb_true_iff. apply is_nil_false. assumption. }
    rewrite Hall. apply forallb_keyable in Hk. rewrite Hk. cbn [andb].
    rewrite (max_nshard_unique _ _ Hm), Hp. do 2 f_equal. f_equal.
    clear - H2. induction H2 as [|s rest ss1 rests1 (Hc & _ & _) _ IH]; [reflexivity|].
    cbn [flat_map]. rewrite IH, Hc, skipn_app_exact. reflexivity.
Qed.

(* ---------------------------------------------------------------- Invocation *)
Lemma nilable_b_iff t : nilable_b t = true <-> nilable t.
Proof.
  unfold nilable. destruct t; simpl; split; intro H;
    try discriminate; try reflexivity;
    try (destruct H as [(e0 & H)|[(e0 & H)|[(i & v & o & H)|H]]]; discriminate);
    eauto 8.
Qed.

Lemma arg_fits_b_iff U expect have : arg_fits_b U expect have = true <-> arg_fits U expect have.
Proof.
  unfold arg_fits_b, arg_fits. destruct have as [h|]; [|apply nilable_b_iff].
  destruct (is_iface expect); [tauto | apply ty_eqb_spec].
Qed.

Lemma invocation_schema_b_iff U params args :
  invocation_schema_b U params args = true <-> invocation_schema U params args.
Proof.
  unfold invocation_schema_b, invocation_schema. rewrite all2_Forall2.
  split; apply Forall2_impl'; intros x y; apply arg_fits_b_iff.
Qed.

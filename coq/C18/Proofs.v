(* C18 — each constructor's checker (Model.v) decides its documented schema
   (Spec.v), over the whole type grammar and every universe table.
   Part 1: the constructors that take a user function. *)
From Coq Require Import List ZArith Bool Lia Setoid.
Import ListNotations.
Require Import BS.C18.Types BS.C18.Model BS.C18.Spec BS.C18.SpecDec BS.C18.Facts BS.C18.SpecDecProofs.

(* What it means for a checker outcome to agree with a (decided) schema: fitting
   inputs are accepted with a result that meets the documented type, non-fitting
   inputs are rejected by a typecheck error - in particular never GoPanic. *)
Definition decided (o : outcome) (sch : option rspec) : Prop :=
  match sch with
  | Some r => exists out, o = Accept out /\ meets_b r out = true
  | None => o = Reject
  end.

(* ---- the regions where the code is known to deviate from the documented
        schemas (each is refuted separately in Refuted.v) ---- *)
(* the function is variadic *)
Definition fn_variadic (f : ty) : bool :=
  match f with TFunc _ (Some _) _ => true | _ => false end.
(* its first parameter (after a context) is a defined type such as `type myInt int` *)
Definition fn_shard_named (f : ty) : bool :=
  match user_func_b f with Some (TNamed _ _ :: _, _, _) => true | _ => false end.
(* number of results *)
Definition fn_numout (f : ty) : nat :=
  match f with TFunc _ _ outs => length outs | _ => 0%nat end.
(* the key prefix does not exceed the number of columns *)
Definition prefix_in_range (s : stype) : Prop := (prefix s <= length (cols s))%nat.

Lemma user_func_b_variadic f ins var outs :
  user_func_b f = Some (ins, var, outs) ->
  fn_variadic f = match var with Some _ => true | None => false end.
Proof.
  destruct f; simpl; try discriminate.
  destruct ins0 as [|t r]; [intros [= <- <- <-]; reflexivity|].
  destruct t; intros [= <- <- <-]; reflexivity.
Qed.

Lemma user_func_b_numout f ins var outs :
  user_func_b f = Some (ins, var, outs) -> fn_numout f = length outs.
Proof.
  destruct f; simpl; try discriminate.
  destruct ins0 as [|t r]; [intros [= <- <- <-]; reflexivity|].
  destruct t; intros [= <- <- <-]; reflexivity.
Qed.

(* the variadic repair is in, or the function is not variadic *)
Definition variadic_ok (R : repairs) (f : ty) : Prop :=
  rep_reject_variadic R = true \/ fn_variadic f = false.
Definition shard_ok (R : repairs) (f : ty) : Prop :=
  rep_shard_exact R = true \/ fn_shard_named f = false.
Definition numout_ok (R : repairs) (f : ty) : Prop :=
  rep_numout R = true \/ fn_numout f = 2%nat.

Lemma variadic_ok_some R f ins e outs :
  variadic_ok R f -> user_func_b f = Some (ins, Some e, outs) -> rep_reject_variadic R = true.
Proof.
  intros [H|H] Hf; [exact H|]. rewrite (user_func_b_variadic _ _ _ _ Hf) in H. discriminate.
Qed.

Lemma kind_is_int_unnamed t :
  match t with TNamed _ _ => true | _ => false end = false -> kind_is_int t = ty_eqb t tint.
Proof.
  destruct t; simpl; try reflexivity; try discriminate.
Qed.

Lemma meets_b_iff r out : meets_b r out = true <-> meets r out.
Proof.
  unfold meets_b, meets. rewrite !andb_true_iff, tys_eqb_spec, Z.eqb_eq.
  destruct (r_prefix r) as [p|].
  - rewrite Nat.eqb_eq. split.
    + intros [[H1 H2] H3]. repeat split; auto. intros p' [= <-]. assumption.
    + intros (H1 & H2 & H3). repeat split; auto.
  - split.
    + intros [[H1 _] H3]. repeat split; auto. discriminate.
    + intros (H1 & _ & H3). auto.
Qed.

Lemma meets_b_same s : meets_b (same_as s) s = true.
Proof. unfold meets_b, same_as; simpl. rewrite tys_eqb_refl, Nat.eqb_refl, Z.eqb_refl. reflexivity. Qed.

Ltac accept_same := eexists; split; [reflexivity | apply meets_b_same].
Ltac accept_with := eexists; split; [reflexivity |
  unfold meets_b; simpl; rewrite ?tys_eqb_refl, ?ty_eqb_refl, ?Nat.eqb_refl, ?Z.eqb_refl; reflexivity].

(* finish a goal whose schema side is None in every remaining branch *)
Ltac crunch_none :=
  repeat match goal with
         | |- decided _ (match ?x with _ => _ end) => destruct x; simpl
         | |- decided _ (if ?x then _ else _) => destruct x; simpl
         end; try reflexivity.

(* ---------------------------------------------------------------- Map *)
Lemma map_decided U s f : decided (map_check U s f) (map_schema_b U s f).
Proof.
  unfold map_check, map_schema_b. rewrite slicefunc_of_user.
  destruct (user_func_b f) as [[[ins var] outs]|]; [|reflexivity].
  rewrite can_apply_args_fit. simpl.
  destruct (args_fit_b U (cols s) ins var); simpl; [|reflexivity].
  destruct outs; simpl; [reflexivity|]. accept_with.
Qed.

(* ---------------------------------------------------------------- Filter *)
Lemma filter_decided U s f : decided (filter_check U s f) (filter_schema_b U s f).
Proof.
  unfold filter_check, filter_schema_b. rewrite slicefunc_of_user.
  destruct (user_func_b f) as [[[ins var] outs]|]; [|reflexivity].
  rewrite can_apply_args_fit. simpl.
  destruct outs as [|b [|b2 outs]]; simpl.
  - destruct (args_fit_b U (cols s) ins var); reflexivity.
  - destruct (args_fit_b U (cols s) ins var); simpl; [|reflexivity].
    unfold out_at; simpl. destruct (kind_is_bool b); simpl; [accept_same | reflexivity].
  - destruct (args_fit_b U (cols s) ins var); reflexivity.
Qed.

(* ---------------------------------------------------------------- Flatmap *)
Lemma flatmap_decided U s f : decided (flatmap_check U s f) (flatmap_schema_b U s f).
Proof.
  unfold flatmap_check, flatmap_schema_b. rewrite slicefunc_of_user.
  destruct (user_func_b f) as [[[ins var] outs]|]; [|reflexivity].
  rewrite can_apply_args_fit. simpl.
  destruct (args_fit_b U (cols s) ins var); simpl; [|reflexivity].
  change (elems_of outs) with (devectorize outs). destruct (devectorize outs); simpl; [accept_with | reflexivity].
Qed.

(* ---------------------------------------------------------------- Fold *)
Lemma fold_decided R U s f :
  variadic_ok R f -> decided (fold_check_gen R U s f) (fold_schema_b U s f).
Proof.
  intro Hv. unfold fold_check_gen, fold_schema_b.
  destruct (cols s) as [|k [|v2 rest]] eqn:Hc; simpl; try reflexivity.
  unfold out_at; simpl.
  destruct (can_hash U k); simpl; [|reflexivity].
  destruct (kind_accumulable k); simpl; [|reflexivity].
  rewrite slicefunc_of_user.
  destruct (user_func_b f) as [[[ins var] outs]|] eqn:Hf; [|reflexivity].
  unfold is_variadic. cbn [sf_var]. destruct var as [e|].
  { rewrite (variadic_ok_some _ _ _ _ _ Hv Hf). simpl. crunch_none. }
  rewrite andb_false_r.
  rewrite reflect_ins_none. simpl.
  destruct outs as [|acc' [|o2 outs]]; simpl; try (crunch_none; fail).
  unfold type_equal. simpl.
  destruct ins as [|acc params]; simpl; [reflexivity|].
  destruct (ty_eqb acc acc') eqn:Ea; simpl; [|reflexivity].
  destruct params as [|p1 params]; simpl; [reflexivity|].
  destruct (ty_eqb p1 v2 && tys_eqb params rest) eqn:Ep; simpl; [|reflexivity].
  apply ty_eqb_spec in Ea. subst acc'. accept_with.
Qed.

(* ---------------------------------------------------------------- Reduce *)
Lemma reduce_decided R U s f :
  variadic_ok R f -> decided (reduce_check_gen R U s f) (reduce_schema_b U s f).
Proof.
  intro Hv. unfold reduce_check_gen, reduce_schema_b.
  destruct (Z.of_nat (length (cols s)) - Z.of_nat (prefix s) =? 1)%Z eqn:E1.
  - apply Z.eqb_eq in E1. assert (El : length (cols s) = (prefix s + 1)%nat) by lia.
    rewrite El, Nat.eqb_refl. simpl.
    rewrite can_make_combining_frame_spec. unfold keyed_b.
    assert (Hle : (prefix s <=? length (cols s))%nat = true) by (apply Nat.leb_le; lia).
    rewrite Hle. simpl.
    destruct (forallb (keyable U) (firstn (prefix s) (cols s))); simpl; [|reflexivity].
    rewrite slicefunc_of_user.
    replace (prefix s + 1 - 1)%nat with (prefix s) by lia.
    destruct (out_at_some (cols s) (prefix s)) as (v & Hn & Ho); [lia|].
    rewrite Hn.
    destruct (user_func_b f) as [[[ins var] outs]|] eqn:Hf; [|reflexivity].
    unfold is_variadic. cbn [sf_var]. destruct var as [e|].
    { rewrite (variadic_ok_some _ _ _ _ _ Hv Hf). simpl. crunch_none. }
    rewrite andb_false_r.
    rewrite reflect_ins_none. simpl. rewrite Ho.
    destruct ins as [|a [|b [|c ins]]]; simpl; try (crunch_none; fail).
    + destruct (ty_eqb a v); reflexivity.
    + destruct outs as [|o [|o2 outs]]; simpl.
      * destruct (ty_eqb a v && (ty_eqb b v && true)); reflexivity.
      * destruct (ty_eqb a v), (ty_eqb b v), (ty_eqb o v); simpl; try reflexivity. accept_same.
      * destruct (ty_eqb a v && (ty_eqb b v && true)), (ty_eqb o v); reflexivity.
    + destruct (ty_eqb a v), (ty_eqb b v); reflexivity.
  - simpl.
    destruct (length (cols s) =? prefix s + 1)%nat eqn:E2; [|reflexivity].
    apply Nat.eqb_eq in E2. apply Z.eqb_neq in E1. lia.
Qed.

(* ---------------------------------------------------------------- Repartition *)
Lemma repartition_decided R s f :
  variadic_ok R f -> decided (repartition_check_gen R s f) (repartition_schema_b s f).
Proof.
  intro Hv. unfold repartition_check_gen, repartition_schema_b. rewrite slicefunc_of_user.
  destruct (user_func_b f) as [[[ins var] outs]|] eqn:Hf; [|reflexivity].
  unfold is_variadic. cbn [sf_var]. destruct var as [e|].
  { rewrite (variadic_ok_some _ _ _ _ _ Hv Hf). simpl. crunch_none. }
  rewrite andb_false_r. cbn [orb].
  rewrite reflect_ins_none. unfold type_equal. cbn [sf_in sf_out].
  rewrite (tys_eqb_sym (tint :: cols s) ins), (tys_eqb_sym [tint] outs).
  destruct outs as [|o [|o2 outs]]; cbn [leqb].
  - rewrite orb_true_r. reflexivity.
  - rewrite andb_true_r.
    destruct (tys_eqb ins (tint :: cols s)), (ty_eqb o tint); simpl; try reflexivity. accept_same.
  - rewrite andb_false_r, orb_true_r. destruct (tys_eqb ins (tint :: cols s)); reflexivity.
Qed.

(* C18 — where the faithful model violates the property text: witnesses, checked
   by vm_compute.  Each is replayed on the real constructors by the harness
   (the corresponding cases carry the Sig named in the comment). *)
From Coq Require Import List ZArith Bool Lia.
Import ListNotations.
Require Import BS.C18.Types BS.C18.Model BS.C18.Spec BS.C18.SpecDec BS.C18.Facts
  BS.C18.SpecDecProofs BS.C18.Proofs BS.C18.Proofs2 BS.C18.Theorems.

(* a universe with no interfaces implemented and no user-registered ops *)
Definition U0 : universe := mkU (fun _ _ => false) (fun _ => false) (fun _ => false).
Definition tstr : ty := TBasic KString.
Definition ints : ty := TSlice tint.
Definition myint : ty := TNamed 0 (KInt W0).

(* the code with exactly one repair missing *)
Definition no_numout_check : repairs := mkRep false true true.
Definition no_variadic_check : repairs := mkRep true true false.
Definition shard_by_kind : repairs := mkRep true false true.

Ltac no_schema iff :=
  let r := fresh "r" in let H := fresh "H" in
  intros (r & H); apply iff in H; vm_compute in H; discriminate.

(* ---- REPAIRED in /repo; formerly Sig readerfunc-numout-not-checked (slice.go:329).
        Witnesses against the code without that repair. ---- *)
Definition reader_0out : ty := TFunc [tint; tint; ints] None [].
Definition reader_1out : ty := TFunc [tint; tint; ints] None [tint].
Definition reader_3out : ty := TFunc [tint; tint; ints] None [tint; TError; tint].

Theorem readerfunc_numout_refuted :
  (exists f, (~ exists r, readerfunc_schema 1 f r) /\ readerfunc_check_gen no_numout_check 1 f = GoPanic) /\
  (exists f out, (~ exists r, readerfunc_schema 1 f r) /\ readerfunc_check_gen no_numout_check 1 f = Accept out).
Proof.
  split.
  - exists reader_1out. split; [no_schema readerfunc_schema_b_iff | vm_compute; reflexivity].
  - exists reader_3out, (mkS [tint] 1 1). split; [no_schema readerfunc_schema_b_iff | vm_compute; reflexivity].
Qed.

Theorem readerfunc_numout_zero_results_panics : readerfunc_check_gen no_numout_check 1 reader_0out = GoPanic.
Proof. vm_compute. reflexivity. Qed.

(* the same three signatures are rejected by a typecheck error once NumOut() is checked *)
Theorem readerfunc_fix_rejects :
  readerfunc_check 1 reader_0out = Reject /\
  readerfunc_check 1 reader_1out = Reject /\
  readerfunc_check 1 reader_3out = Reject.
Proof. vm_compute. auto. Qed.

(* ---- REPAIRED in /repo (74b12a5); formerly Sig exact-form-accepts-variadic: Fold, Reduce, Repartition, WriterFunc and
        ReaderFunc compare reflect parameter lists and never look at IsVariadic, so
        func(..., xs ...e) passes wherever func(..., xs []e) is the documented form;
        calling it with a []e argument then panics inside reflect at run time ---- *)
Theorem fold_variadic_refuted :
  exists s f out, fn_variadic f = true /\ (~ exists r, fold_schema U0 s f r) /\
                  fold_check_gen no_variadic_check U0 s f = Accept out.
Proof.
  exists (mkS [tint; ints] 1 1), (TFunc [tint] (Some tint) [tint]), (mkS [tint; tint] 1 1).
  split; [reflexivity|]. split; [no_schema fold_schema_b_iff | vm_compute; reflexivity].
Qed.

Theorem reduce_variadic_refuted :
  exists s f out, fn_variadic f = true /\ (~ exists r, reduce_schema U0 s f r) /\
                  reduce_check_gen no_variadic_check U0 s f = Accept out.
Proof.
  exists (mkS [tint; ints] 1 1), (TFunc [ints] (Some tint) [ints]), (mkS [tint; ints] 1 1).
  split; [reflexivity|]. split; [no_schema reduce_schema_b_iff | vm_compute; reflexivity].
Qed.

Theorem repartition_variadic_refuted :
  exists s f out, fn_variadic f = true /\ (~ exists r, repartition_schema s f r) /\
                  repartition_check_gen no_variadic_check s f = Accept out.
Proof.
  exists (mkS [ints] 1 2), (TFunc [tint] (Some tint) [tint]), (mkS [ints] 1 2).
  split; [reflexivity|]. split; [no_schema repartition_schema_b_iff | vm_compute; reflexivity].
Qed.

Theorem writerfunc_variadic_refuted :
  exists s f out, fn_variadic f = true /\ (~ exists r, writerfunc_schema s f r) /\
                  writerfunc_check_gen no_variadic_check s f = Accept out.
Proof.
  exists (mkS [tint] 1 1), (TFunc [tint; tint; TError] (Some tint) [TError]), (mkS [tint] 1 1).
  split; [reflexivity|]. split; [no_schema writerfunc_schema_b_iff | vm_compute; reflexivity].
Qed.

Theorem readerfunc_variadic_refuted :
  exists f out, fn_variadic f = true /\ fn_numout f = 2%nat /\
                (~ exists r, readerfunc_schema 1 f r) /\
                readerfunc_check_gen no_variadic_check 1 f = Accept out.
Proof.
  exists (TFunc [tint; tint] (Some tint) [tint; TError]), (mkS [tint] 1 1).
  split; [reflexivity|]. split; [reflexivity|].
  split; [no_schema readerfunc_schema_b_iff | vm_compute; reflexivity].
Qed.

(* ---- REPAIRED in /repo (b77039e); formerly Sig shard-param-named-int-accepted: ReaderFunc and WriterFunc test the shard
        parameter with Kind() == reflect.Int, so `type myInt int` passes; the call
        with an int shard number then panics inside reflect at run time ---- *)
Theorem readerfunc_shard_named_refuted :
  exists f out, fn_shard_named f = true /\ fn_variadic f = false /\ fn_numout f = 2%nat /\
                (~ exists r, readerfunc_schema 1 f r) /\
                readerfunc_check_gen shard_by_kind 1 f = Accept out.
Proof.
  exists (TFunc [myint; tint; ints] None [tint; TError]), (mkS [tint] 1 1).
  repeat (split; [reflexivity|]).
  split; [no_schema readerfunc_schema_b_iff | vm_compute; reflexivity].
Qed.

Theorem writerfunc_shard_named_refuted :
  exists s f out, fn_shard_named f = true /\ fn_variadic f = false /\
                  (~ exists r, writerfunc_schema s f r) /\ writerfunc_check_gen shard_by_kind s f = Accept out.
Proof.
  exists (mkS [tint] 1 1), (TFunc [myint; tint; TError; ints] None [TError]), (mkS [tint] 1 1).
  repeat (split; [reflexivity|]).
  split; [no_schema writerfunc_schema_b_iff | vm_compute; reflexivity].
Qed.

(* the witnesses of the two repaired regions are rejected by the code as it is now *)
Theorem variadic_and_shard_witnesses_now_rejected :
  fold_check U0 (mkS [tint; ints] 1 1) (TFunc [tint] (Some tint) [tint]) = Reject /\
  reduce_check U0 (mkS [tint; ints] 1 1) (TFunc [ints] (Some tint) [ints]) = Reject /\
  repartition_check (mkS [ints] 1 2) (TFunc [tint] (Some tint) [tint]) = Reject /\
  writerfunc_check (mkS [tint] 1 1) (TFunc [tint; tint; TError] (Some tint) [TError]) = Reject /\
  readerfunc_check 1 (TFunc [tint; tint] (Some tint) [tint; TError]) = Reject /\
  readerfunc_check 1 (TFunc [myint; tint; ints] None [tint; TError]) = Reject /\
  writerfunc_check (mkS [tint] 1 1) (TFunc [myint; tint; TError; ints] None [TError]) = Reject.
Proof. vm_compute. repeat split. Qed.

(* ---- Sig prefix-exceeds-columns-panics: Map, Flatmap, Fold and Scan embed the input
        Slice and override NumOut/Out only, so the result inherits the input's
        Prefix(); it can exceed the new number of columns, and Reshuffle, Reshard and
        Cogroup then index a key column that does not exist ---- *)
Theorem map_result_prefix_out_of_range_refuted :
  exists s f out,
    prefix_in_range s /\ map_check U0 s f = Accept out /\ ~ prefix_in_range out /\
    reshuffle_check U0 out = GoPanic /\ reshard_check U0 out 7 = GoPanic /\
    cogroup_check U0 [out] = GoPanic.
Proof.
  exists (mkS [tint; tstr] 2 3), (TFunc [tint; tstr] None [tstr]), (mkS [tstr] 2 3).
  split; [unfold prefix_in_range; simpl; lia|].
  split; [vm_compute; reflexivity|].
  split; [unfold prefix_in_range; simpl; lia|].
  repeat split; vm_compute; reflexivity.
Qed.

Theorem scan_result_prefix_out_of_range_refuted :
  exists s out, prefix_in_range s /\ scan_check s = Accept out /\ ~ prefix_in_range out /\
                reshuffle_check U0 out = GoPanic.
Proof.
  exists (mkS [tint] 1 1), (mkS [] 1 1).
  split; [unfold prefix_in_range; simpl; lia|].
  split; [reflexivity|].
  split; [unfold prefix_in_range; simpl; lia|].
  vm_compute; reflexivity.
Qed.

(* ---- non-vacuity: the schemas are inhabited in the interesting ways ---- *)
Example map_accepts_context_and_variadic :
  map_check U0 (mkS [tint; tstr; tstr] 1 4) (TFunc [TContext; tint] (Some tstr) [tstr; tint])
  = Accept (mkS [tstr; tint] 1 4).
Proof. vm_compute. reflexivity. Qed.

Example map_accepts_interface_parameter :
  map_check (mkU (fun v t => ty_eqb v (TStruct 1) && ty_eqb t (TIface 1)) (fun _ => false) (fun _ => false))
            (mkS [tint; TStruct 1] 1 1) (TFunc [tint; TIface 1] None [tint])
  = Accept (mkS [tint] 1 1).
Proof. vm_compute. reflexivity. Qed.

Example filter_rejects_non_bool :
  filter_check U0 (mkS [tint] 1 1) (TFunc [tint] None [tint]) = Reject.
Proof. vm_compute. reflexivity. Qed.

Example fold_accepts :
  fold_check U0 (mkS [tstr; tint; tint] 1 2) (TFunc [ints; tint; tint] None [ints])
  = Accept (mkS [tstr; ints] 1 2).
Proof. vm_compute. reflexivity. Qed.

Example fold_rejects_float_key :
  fold_check U0 (mkS [TBasic KFloat64; tint] 1 1) (TFunc [tint; tint] None [tint]) = Reject.
Proof. vm_compute. reflexivity. Qed.

Example reduce_accepts_two_key_columns :
  reduce_check U0 (mkS [tint; tstr; tint] 2 1) (TFunc [tint; tint] None [tint])
  = Accept (mkS [tint; tstr; tint] 2 1).
Proof. vm_compute. reflexivity. Qed.

Example reduce_rejects_unregistered_key :
  reduce_check U0 (mkS [TStruct 1; tint] 1 1) (TFunc [tint; tint] None [tint]) = Reject.
Proof. vm_compute. reflexivity. Qed.

Example cogroup_accepts :
  cogroup_check U0 [mkS [tint; tstr] 1 2; mkS [tint; tint; ints] 1 5]
  = Accept (mkS [tint; TSlice tstr; TSlice tint; TSlice ints] 1 5).
Proof. vm_compute. reflexivity. Qed.

Example reshard_sets_shard_count :
  reshard_check U0 (mkS [tint] 1 3) 4 = Accept (mkS [tint] 1 4).
Proof. vm_compute. reflexivity. Qed.

Example readerfunc_accepts :
  readerfunc_check 3 (TFunc [tint; TPtr (TStruct 1); ints; TSlice tstr] None [tint; TError])
  = Accept (mkS [tint; tstr] 1 3).
Proof. vm_compute. reflexivity. Qed.

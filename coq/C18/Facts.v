(* C18 — basic facts: type identity is decided by ty_eqb, list combinators,
   reflection between the boolean and the declarative vocabulary. *)
From Coq Require Import List ZArith Bool Lia Setoid.
Import ListNotations.
Require Import BS.C18.Types BS.C18.Model BS.C18.Spec BS.C18.SpecDec.

(* ---------------------------------------------------------------- equality *)
Lemma width_eqb_spec a b : width_eqb a b = true <-> a = b.
Proof. destruct a, b; simpl; split; intro H; try reflexivity; discriminate. Qed.

Lemma bkind_eqb_spec a b : bkind_eqb a b = true <-> a = b.
Proof.
  destruct a, b; simpl; split; intro H; try reflexivity; try discriminate;
    try (apply width_eqb_spec in H; congruence);
    try (apply width_eqb_spec; congruence).
Qed.

(* induction principle that reaches inside the lists of a func type *)
Definition optP (P : ty -> Prop) (v : option ty) : Prop :=
  match v with Some e => P e | None => True end.

Section TyInd.
  Variable P : ty -> Prop.
  Hypothesis HBasic : forall k, P (TBasic k).
  Hypothesis HNamed : forall id k, P (TNamed id k).
  Hypothesis HError : P TError.
  Hypothesis HContext : P TContext.
  Hypothesis HSlice : forall e, P e -> P (TSlice e).
  Hypothesis HPtr : forall e, P e -> P (TPtr e).
  Hypothesis HStruct : forall id, P (TStruct id).
  Hypothesis HIface : forall id, P (TIface id).
  Hypothesis HFunc : forall ins var outs,
      Forall P ins -> optP P var -> Forall P outs ->
      P (TFunc ins var outs).

  Fixpoint ty_ind' (t : ty) : P t :=
    match t with
    | TBasic k => HBasic k
    | TNamed id k => HNamed id k
    | TError => HError
    | TContext => HContext
    | TSlice e => HSlice e (ty_ind' e)
    | TPtr e => HPtr e (ty_ind' e)
    | TStruct id => HStruct id
    | TIface id => HIface id
    | TFunc ins var outs =>
        HFunc ins var outs
          ((fix go (l : list ty) : Forall P l :=
              match l with
              | [] => Forall_nil P
              | x :: r => Forall_cons x (ty_ind' x) (go r)
              end) ins)
          (match var as v return optP P v with
           | Some e => ty_ind' e
           | None => I
           end)
          ((fix go (l : list ty) : Forall P l :=
              match l with
              | [] => Forall_nil P
              | x :: r => Forall_cons x (ty_ind' x) (go r)
              end) outs)
    end.
End TyInd.

Lemma leqb_spec {A} (eqb : A -> A -> bool) (l1 : list A) :
  Forall (fun x => forall y, eqb x y = true <-> x = y) l1 ->
  forall l2, leqb eqb l1 l2 = true <-> l1 = l2.
Proof.
  induction 1 as [|x r Hx Hr IH]; intros [|y r2]; simpl; split; intro E;
    try reflexivity; try discriminate.
  - apply andb_true_iff in E as [E1 E2]. apply Hx in E1. apply IH in E2. congruence.
  - inversion E; subst. apply andb_true_iff; split; [apply Hx | apply IH]; reflexivity.
Qed.

Lemma ty_eqb_spec : forall a b, ty_eqb a b = true <-> a = b.
Proof.
  induction a using ty_ind'; intros b; destruct b; simpl;
    try (split; intro E; discriminate);
    try (split; intro E; reflexivity).
  - rewrite bkind_eqb_spec. split; congruence.
  - rewrite andb_true_iff, Nat.eqb_eq, bkind_eqb_spec. split; [intros []; congruence | intro E; inversion E; auto].
  - split; intro E; [apply IHa in E; congruence | inversion E; subst; apply IHa; reflexivity].
  - split; intro E; [apply IHa in E; congruence | inversion E; subst; apply IHa; reflexivity].
  - rewrite Nat.eqb_eq. split; congruence.
  - rewrite Nat.eqb_eq. split; congruence.
  - rewrite !andb_true_iff.
    rewrite (leqb_spec ty_eqb ins H), (leqb_spec ty_eqb outs H1).
    assert (Hv : oeqb ty_eqb var var0 = true <-> var = var0).
    { destruct var as [e|], var0 as [e0|]; simpl; try (split; intro E; discriminate);
        try (split; reflexivity).
      simpl in H0. split; intro E; [apply H0 in E; congruence | inversion E; subst; apply H0; reflexivity]. }
    rewrite Hv. split; [intros [[-> ->] ->]; reflexivity | intro E; inversion E; auto].
Qed.

Lemma ty_eqb_refl t : ty_eqb t t = true.
Proof. apply ty_eqb_spec. reflexivity. Qed.

Lemma ty_eqb_false a b : ty_eqb a b = false <-> a <> b.
Proof.
  split.
  - intros E ->. rewrite ty_eqb_refl in E. discriminate.
  - intro N. destruct (ty_eqb a b) eqn:E; [apply ty_eqb_spec in E; contradiction | reflexivity].
Qed.

Lemma tys_eqb_spec l1 l2 : tys_eqb l1 l2 = true <-> l1 = l2.
Proof.
  apply leqb_spec. apply Forall_forall. intros x _ y. apply ty_eqb_spec.
Qed.

Lemma tys_eqb_refl l : tys_eqb l l = true.
Proof. apply tys_eqb_spec. reflexivity. Qed.

Lemma ty_eqb_sym a b : ty_eqb a b = ty_eqb b a.
Proof.
  destruct (ty_eqb b a) eqn:E.
  - apply ty_eqb_spec in E. subst. apply ty_eqb_refl.
  - destruct (ty_eqb a b) eqn:E'; [|reflexivity]. apply ty_eqb_spec in E'. subst.
    rewrite ty_eqb_refl in E. discriminate.
Qed.

Lemma tys_eqb_sym a b : tys_eqb a b = tys_eqb b a.
Proof.
  destruct (tys_eqb b a) eqn:E.
  - apply tys_eqb_spec in E. subst. apply tys_eqb_refl.
  - destruct (tys_eqb a b) eqn:E'; [|reflexivity]. apply tys_eqb_spec in E'. subst.
    rewrite tys_eqb_refl in E. discriminate.
Qed.

Lemma stype_eqb_spec a b : stype_eqb a b = true <-> a = b.
Proof.
  unfold stype_eqb. rewrite !andb_true_iff, tys_eqb_spec, Nat.eqb_eq, Z.eqb_eq.
  destruct a, b; simpl. split; [intros [[-> ->] ->]; reflexivity | intro E; inversion E; auto].
Qed.

(* ---------------------------------------------------------------- all2 *)
Lemma all2_Forall2 {A B} (p : A -> B -> bool) l1 l2 :
  all2 p l1 l2 = true <-> Forall2 (fun x y => p x y = true) l1 l2.
Proof.
  revert l2; induction l1 as [|x r IH]; intros [|y r2]; simpl; split; intro H;
    try constructor; try discriminate; try (inversion H; fail).
  - apply andb_true_iff in H. tauto.
  - apply IH. apply andb_true_iff in H. tauto.
  - inversion H; subst. apply andb_true_iff. split; [assumption | apply IH; assumption].
Qed.

Lemma all2_length {A B} (p : A -> B -> bool) l1 l2 :
  all2 p l1 l2 = true -> length l1 = length l2.
Proof.
  intro H. apply all2_Forall2 in H. induction H; simpl; congruence.
Qed.

Lemma Forall2_length' {A B} (R : A -> B -> Prop) l1 l2 :
  Forall2 R l1 l2 -> length l1 = length l2.
Proof. induction 1; simpl; congruence. Qed.

Lemma Forall2_impl' {A B} (R S : A -> B -> Prop) l1 l2 :
  (forall x y, R x y -> S x y) -> Forall2 R l1 l2 -> Forall2 S l1 l2.
Proof. intros I H; induction H; constructor; auto. Qed.

(* ---------------------------------------------------------------- vectors *)
Lemma devectorize_spec l es : devectorize l = Some es <-> l = map TSlice es.
Proof.
  revert es; induction l as [|t r IH]; intros es; simpl.
  - split; [intros [= <-]; reflexivity | destruct es; [reflexivity | discriminate]].
  - destruct t; try (split; [discriminate | destruct es; simpl; discriminate]).
    destruct (devectorize r) as [es'|] eqn:E.
    + split.
      * intros [= <-]. simpl. f_equal. apply IH. reflexivity.
      * destruct es as [|e0 es0]; simpl; [discriminate|]. intros [= -> H].
        apply IH in H. congruence.
    + split; [discriminate|]. destruct es as [|e0 es0]; simpl; [discriminate|].
      intros [= -> H]. apply IH in H. discriminate.
Qed.

Lemma elems_of_devectorize l : elems_of l = devectorize l.
Proof.
  induction l as [|t r IH]; simpl; [reflexivity|]. destruct t; try reflexivity; rewrite IH; reflexivity.
Qed.

Lemma elems_of_spec l es : elems_of l = Some es <-> l = map TSlice es.
Proof. rewrite elems_of_devectorize. apply devectorize_spec. Qed.

Lemma devectorize_none l : devectorize l = None <-> forall es, l <> map TSlice es.
Proof.
  split.
  - intros E es H. apply devectorize_spec in H. congruence.
  - intro H. destruct (devectorize l) as [es|] eqn:E; [|reflexivity].
    apply devectorize_spec in E. exfalso. apply (H es E).
Qed.

Lemma map_TSlice_inj l1 l2 : map TSlice l1 = map TSlice l2 -> l1 = l2.
Proof.
  revert l2; induction l1 as [|x r IH]; intros [|y r2]; simpl; intro H; try discriminate; [reflexivity|].
  inversion H. f_equal. auto.
Qed.

(* ---------------------------------------------------------------- vocabulary *)
Lemma assignable_iff U v t : assignable U v t = true <-> Assignable U v t.
Proof.
  unfold assignable, Assignable. rewrite orb_true_iff, andb_true_iff, ty_eqb_spec. tauto.
Qed.

Lemma keyable_iff U t : keyable U t = true <-> Keyable U t.
Proof. unfold keyable, Keyable. apply andb_true_iff. Qed.

Lemma forallb_keyable U l : forallb (keyable U) l = true <-> Forall (Keyable U) l.
Proof.
  rewrite forallb_forall, Forall_forall. split; intros H x Hx; apply keyable_iff; auto.
Qed.

Lemma user_func_b_spec f ins var outs :
  user_func_b f = Some (ins, var, outs) <-> user_func f ins var outs.
Proof.
  split.
  - destruct f; simpl; try discriminate.
    destruct ins0 as [|t r]; [intros [= <- <- <-]; constructor; simpl; discriminate|].
    destruct t; intros [= <- <- <-]; constructor; simpl; discriminate.
  - intros [i v o H | i v o]; simpl; [|reflexivity].
    destruct i as [|t r]; [reflexivity|]. destruct t; try reflexivity.
    exfalso. apply H. reflexivity.
Qed.

Lemma user_func_b_none f : user_func_b f = None -> forall ins var outs, ~ user_func f ins var outs.
Proof. intros E ins var outs H. apply user_func_b_spec in H. congruence. Qed.

Lemma args_fit_b_spec U args ins var :
  args_fit_b U args ins var = true <-> args_fit U args ins var.
Proof.
  destruct var as [e|]; simpl.
  - rewrite !andb_true_iff, Nat.leb_le, all2_Forall2, forallb_forall. split.
    + intros [[Hl H2] Hr]. exists (firstn (length ins) args), (skipn (length ins) args).
      split; [symmetry; apply firstn_skipn|]. split.
      * eapply Forall2_impl'; [|exact H2]. intros x y. apply assignable_iff.
      * apply Forall_forall. intros x Hx. apply assignable_iff. auto.
    + intros (fixed & rest & -> & H2 & Hr).
      pose proof (Forall2_length' _ _ _ H2) as Hlen.
      rewrite <- Hlen, firstn_app, Nat.sub_diag, firstn_all, firstn_O, app_nil_r.
      rewrite skipn_app, Nat.sub_diag, skipn_all, skipn_O. simpl.
      split; [split|].
      * rewrite app_length. lia.
      * eapply Forall2_impl'; [|exact H2]. intros x y. apply assignable_iff.
      * intros x Hx. apply assignable_iff. rewrite Forall_forall in Hr. auto.
  - rewrite all2_Forall2. split; apply Forall2_impl'; intros x y; apply assignable_iff.
Qed.

(* ---------------------------------------------------------------- slicefunc.Of *)
Lemma slicefunc_of_user f :
  slicefunc_of f =
  match user_func_b f with
  | Some (ins, var, outs) => Some (mkF (reflect_ins ins var) outs var)
  | None => None
  end.
Proof.
  destruct f; try reflexivity. simpl.
  destruct ins as [|t r]; [destruct var; reflexivity|].
  destruct t; reflexivity.
Qed.

Lemma reflect_ins_none ins : reflect_ins ins None = ins.
Proof. unfold reflect_ins. apply app_nil_r. Qed.

Lemma can_apply_args_fit U ins var outs args :
  can_apply U (mkF (reflect_ins ins var) outs var) args = args_fit_b U args ins var.
Proof.
  unfold can_apply, args_fit_b; simpl. destruct var as [e|].
  - unfold reflect_ins. rewrite app_length. simpl.
    replace (length ins + 1 - 1)%nat with (length ins) by lia.
    rewrite firstn_app, Nat.sub_diag, firstn_all, firstn_O, app_nil_r.
    destruct (length args <? length ins)%nat eqn:E.
    + apply Nat.ltb_lt in E. destruct (length ins <=? length args)%nat eqn:E2; [|reflexivity].
      apply Nat.leb_le in E2. lia.
    + apply Nat.ltb_ge in E. apply Nat.leb_le in E. rewrite E. reflexivity.
  - rewrite reflect_ins_none.
    destruct (length args =? length ins)%nat eqn:E; simpl; [reflexivity|].
    destruct (all2 (assignable U) args ins) eqn:E2; [|reflexivity].
    apply all2_length in E2. apply Nat.eqb_neq in E. contradiction.
Qed.

(* ---------------------------------------------------------------- key columns *)
Lemma skipn_nth_cons {A} (l : list A) i x :
  nth_error l i = Some x -> skipn i l = x :: skipn (S i) l.
Proof.
  revert i; induction l as [|y r IH]; intros [|i]; simpl; try discriminate.
  - intros [= ->]. reflexivity.
  - intro H. rewrite (IH i H). destruct r; reflexivity.
Qed.

Lemma out_at_some l i : (i < length l)%nat -> exists t, nth_error l i = Some t /\ out_at l i = Val t.
Proof.
  intro H. unfold out_at. destruct (nth_error l i) as [t|] eqn:E.
  - exists t. auto.
  - apply nth_error_None in E. lia.
Qed.

Lemma out_at_pan l i : (length l <= i)%nat -> out_at l i = Pan.
Proof. intro H. unfold out_at. apply nth_error_None in H. rewrite H. reflexivity. Qed.

Lemma cmcf_loop_spec U cs : forall todo i, (i <= length cs)%nat ->
  cmcf_loop U cs i todo =
  if (i + todo <=? length cs)%nat then Val (forallb (keyable U) (firstn todo (skipn i cs))) else Pan.
Proof.
  induction todo as [|n IH]; intros i Hi; simpl.
  - replace (i + 0)%nat with i by lia. apply Nat.leb_le in Hi. rewrite Hi. reflexivity.
  - destruct (Nat.lt_ge_cases i (length cs)) as [Hlt|Hge].
    + destruct (out_at_some cs i Hlt) as (t & Hn & ->).
      rewrite (IH (S i)) by lia.
      replace (S i + n)%nat with (i + S n)%nat by lia.
      destruct (i + S n <=? length cs)%nat; [|reflexivity].
      rewrite (skipn_nth_cons cs i t Hn). simpl. unfold keyable.
      destruct (can_hash U t), (can_compare U t); reflexivity.
    + rewrite (out_at_pan cs i Hge).
      destruct (i + S n <=? length cs)%nat eqn:E; [|reflexivity].
      apply Nat.leb_le in E. lia.
Qed.

Lemma can_make_combining_frame_spec U s :
  can_make_combining_frame U s =
  if (prefix s <=? length (cols s))%nat
  then Val (forallb (keyable U) (firstn (prefix s) (cols s))) else Pan.
Proof. unfold can_make_combining_frame. rewrite cmcf_loop_spec by lia. reflexivity. Qed.

(* C18 — the documented type schema of every operator constructor, stated
   declaratively (Forall2 / exists / list equations) from the doc comments of
   slice.go, reduce.go, cogroup.go, reshuffle.go, reshard.go, and of
   slicefunc.Func and typecheck.CanApply for the two conventions shared by all
   user functions (optional leading context.Context; variadic final parameter).
   Nothing here is derived from the constructors' `if`s; this file does not
   import the model.

   For a constructor X,   X_schema U <inputs> r   reads "the inputs fit X's
   documented schema and the documented type of the result is r".  The inputs
   fit iff such an r exists. *)
From Coq Require Import List ZArith Bool.
Import ListNotations.
Require Export BS.C18.Types.

(* v can be used where a t is expected (Go assignability on this grammar) *)
Definition Assignable (U : universe) (v t : ty) : Prop :=
  v = t \/ (is_iface t = true /\ implements U v t = true).

(* "keys must be partitionable" (hashable) and sortable *)
Definition Hashable (U : universe) (t : ty) : Prop := can_hash U t = true.
Definition Keyable (U : universe) (t : ty) : Prop :=
  can_hash U t = true /\ can_compare U t = true.

(* slicefunc.Func: "determine whether a context should be supplied to the
   callee".  [user_func f ins var outs]: f is a Go function whose parameters,
   apart from an optional leading context.Context that bigslice supplies itself,
   are ins (plus ...e when var = Some e) and whose results are outs. *)
Inductive user_func : ty -> list ty -> option ty -> list ty -> Prop :=
| uf_plain : forall ins var outs,
    hd_error ins <> Some TContext -> user_func (TFunc ins var outs) ins var outs
| uf_ctx : forall ins var outs,
    user_func (TFunc (TContext :: ins) var outs) ins var outs.

(* typecheck.CanApply: "whether fn can be applied to arg": the columns are the
   arguments of one call; a variadic parameter takes all the remaining ones. *)
Definition args_fit (U : universe) (args ins : list ty) (var : option ty) : Prop :=
  match var with
  | None => Forall2 (Assignable U) args ins
  | Some e => exists fixed rest, args = fixed ++ rest /\
                Forall2 (Assignable U) fixed ins /\ Forall (fun a => Assignable U a e) rest
  end.

(* The documented type of a result.  r_prefix = None where the doc comment is
   silent about the key prefix of the result (then it is not judged). *)
Record rspec := mkR { r_cols : list ty; r_prefix : option nat; r_nshard : Z }.

Definition meets (r : rspec) (out : stype) : Prop :=
  cols out = r_cols r /\
  (forall p, r_prefix r = Some p -> prefix out = p) /\
  nshard out = r_nshard r.

Definition same_as (s : stype) : rspec := mkR (cols s) (Some (prefix s)) (nshard s).

(* Const: "Each column of the Slice should be provided as a Go slice of the
   column's type. The value is split into nshard shards."  (at least one column,
   at least one shard) *)
Definition const_schema (n : Z) (columns : list ty) (r : rspec) : Prop :=
  exists elems, columns = map TSlice elems /\ elems <> [] /\ (1 <= n)%Z /\
                r = mkR elems None n.

(* ReaderFunc: "func(shard int, state stateType, col1 []col1Type, ..., colN
   []colNType) (int, error)" ... "returns a slice of the form
   Slice<col1Type, ..., colNType>".  The count may be any type of kind int. *)
Definition readerfunc_schema (n : Z) (read : ty) (r : rspec) : Prop :=
  exists state elems count,
    user_func read (tint :: state :: map TSlice elems) None [count; TError] /\
    elems <> [] /\ kind_is_int count = true /\
    r = mkR elems None n.

(* WriterFunc: "func(shard int, state stateType, err error, col1 []col1Type, ...,
   colN []colNType) error where the input slice is of the form
   Slice<col1Type, ..., colNType>" ... "a Slice that is functionally equivalent
   to the input Slice" *)
Definition writerfunc_schema (s : stype) (write : ty) (r : rspec) : Prop :=
  (exists state,
     user_func write (tint :: state :: TError :: map TSlice (cols s)) None [TError]) /\
  r = same_as s.

(* Map: "The type of slice must match the arguments of the function fn. The type
   of the returned slice is the set of columns returned by fn. The returned
   slice matches the input slice's sharding" (at least one result column) *)
Definition map_schema (U : universe) (s : stype) (f : ty) (r : rspec) : Prop :=
  exists ins var outs,
    user_func f ins var outs /\ args_fit U (cols s) ins var /\ outs <> [] /\
    r = mkR outs None (nshard s).

(* Filter: "The predicate function should receive each column of slice and
   return a single boolean value." Filter(Slice<t1..tn>, ...) Slice<t1..tn> *)
Definition filter_schema (U : universe) (s : stype) (pred : ty) (r : rspec) : Prop :=
  (exists ins var b,
     user_func pred ins var [b] /\ args_fit U (cols s) ins var /\ kind_is_bool b = true) /\
  r = same_as s.

(* Flatmap: "func(in1 inType1, in2 inType2, ...) (out1 []outType1, out2
   []outType2)" -> Slice<r1, ..., rn> *)
Definition flatmap_schema (U : universe) (s : stype) (f : ty) (r : rspec) : Prop :=
  exists ins var elems,
    user_func f ins var (map TSlice elems) /\ args_fit U (cols s) ins var /\
    r = mkR elems None (nshard s).

(* Fold: "For an input slice Slice<t1, t2, ..., tn> ... func(accum acctype, v2 t2,
   ..., vn tn) acctype" -> Slice<t1, acctype>; "the first column of the slice is
   partitionable"; at least two columns; and the key kinds for which an
   Accumulator exists (accum.go: string, int, int64 - the restriction the
   dormant test TestFoldError pins as a type error). *)
Definition fold_schema (U : universe) (s : stype) (fold : ty) (r : rspec) : Prop :=
  exists key rest acc,
    cols s = key :: rest /\ rest <> [] /\
    Hashable U key /\ kind_accumulable key = true /\
    user_func fold (acc :: rest) None [acc] /\
    r = mkR [key; acc] None (nshard s).

(* Head: "Its type is the same as the provided slice."  Scan: "returns a unit
   Slice". *)
Definition head_schema (s : stype) (n : Z) (r : rspec) : Prop := r = same_as s.
Definition scan_schema (s : stype) (r : rspec) : Prop := r = mkR [] None (nshard s).

(* Prefixed: "A prefix determines the number of columns (starting at 0) in the
   slice that compose the key values": between 1 and the number of columns. *)
Definition prefixed_schema (s : stype) (p : Z) (r : rspec) : Prop :=
  (1 <= p <= Z.of_nat (length (cols s)))%Z /\
  r = mkR (cols s) (Some (Z.to_nat p)) (nshard s).

(* the key columns of a slice exist and can be hashed and sorted *)
Definition keyed (U : universe) (s : stype) : Prop :=
  exists keys rest, cols s = keys ++ rest /\ length keys = prefix s /\ Forall (Keyable U) keys.

(* Reduce: "Reduce(Slice<k, v>, func(v1, v2 v) v) Slice<k, v>" ... "must have
   exactly 1 residual column: its prefix must leave just one column as the
   value column" *)
Definition reduce_schema (U : universe) (s : stype) (reduce : ty) (r : rspec) : Prop :=
  (exists keys v,
     cols s = keys ++ [v] /\ length keys = prefix s /\ Forall (Keyable U) keys /\
     user_func reduce [v; v] None [v]) /\
  r = same_as s.

(* Reshuffle: "shuffles rows by prefix" ... "The output slice has the same type
   as the input." *)
Definition reshuffle_schema (U : universe) (s : stype) (r : rspec) : Prop :=
  keyed U s /\ r = same_as s.

(* Repartition: "Repartition(Slice<t1, ..., tn> func(nshard int, v1 t1, ..., vn
   tn) int) Slice<t1, ..., tn>" *)
Definition repartition_schema (s : stype) (partition : ty) (r : rspec) : Prop :=
  user_func partition (tint :: cols s) None [tint] /\ r = same_as s.

(* Reshard: "a slice that is resharded to the given number of shards; this is
   done by re-shuffling" *)
Definition reshard_schema (U : universe) (s : stype) (n : Z) (r : rspec) : Prop :=
  keyed U s /\ r = mkR (cols s) (Some (prefix s)) n.

(* Cogroup: "Cogroup(Slice<tk1..tkp, t11..t1n>, ..., Slice<tk1..tkp, tm1..tmn>)
   Slice<tk1..tkp, []t11..[]t1n, ..., []tmn>" ... "uses the prefix columns of
   each slice as its key; keys must be partitionable" (and sortable); at least
   one slice, each with at least one column; "Pick the max of the number of
   parent shards". *)
Definition max_nshard (ss : list stype) (m : Z) : Prop :=
  (0 <= m)%Z /\ Forall (fun s => (nshard s <= m)%Z) ss /\
  (m = 0%Z \/ Exists (fun s => nshard s = m) ss).

Definition cogroup_schema (U : universe) (ss : list stype) (r : rspec) : Prop :=
  exists keys rests m,
    ss <> [] /\
    Forall2 (fun s rest => cols s = keys ++ rest /\ prefix s = length keys /\ cols s <> [])
            ss rests /\
    Forall (Keyable U) keys /\ max_nshard ss m /\
    r = mkR (keys ++ flat_map (map TSlice) rests) (Some (length keys)) m.

(* FuncValue.Invocation: "panics with a type error if the provided arguments
   do not match in type or arity": one argument per parameter; a parameter of
   interface type takes any value whose type implements it, any other parameter
   a value of exactly its type; an untyped nil only where Go allows nil. *)
Definition nilable (t : ty) : Prop :=
  (exists e, t = TSlice e) \/ (exists e, t = TPtr e) \/ (exists i v o, t = TFunc i v o) \/
  is_iface t = true.

Definition arg_fits (U : universe) (expect : ty) (have : option ty) : Prop :=
  match have with
  | None => nilable expect
  | Some h => if is_iface expect then implements U h expect = true else h = expect
  end.

Definition invocation_schema (U : universe) (params : list ty) (args : list (option ty)) : Prop :=
  Forall2 (arg_fits U) params args.

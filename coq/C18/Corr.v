(* C18 — correspondence drivers, evaluated by vm_compute on harness case files.
   A case is one call of a real constructor (its input slice type(s) as read
   back from the real input slices, the reflect type of the function passed) or
   one query of reflect / frame about the finite type universe of the harness,
   together with what was observed. *)
From Coq Require Import List ZArith Bool.
Import ListNotations.
Require Export BS.Common.Util BS.C18.Model BS.C18.SpecDec.

Inductive call :=
| CConst (n : Z) (columns : list ty)
| CReaderFunc (n : Z) (f : ty)
| CWriterFunc (s : stype) (f : ty)
| CMap (s : stype) (f : ty)
| CFilter (s : stype) (f : ty)
| CFlatmap (s : stype) (f : ty)
| CFold (s : stype) (f : ty)
| CHead (s : stype) (n : Z)
| CScan (s : stype)
| CPrefixed (s : stype) (p : Z)
| CReduce (s : stype) (f : ty)
| CReshuffle (s : stype)
| CRepartition (s : stype) (f : ty)
| CReshard (s : stype) (n : Z)
| CCogroup (ss : list stype)
| CInvocation (params : list ty) (args : list (option ty))   (* None = an untyped nil argument *)
(* facts about the harness universe, checked against the tables below *)
| QAssignable (v t : ty)
| QCanHash (t : ty)
| QCanCompare (t : ty).

Inductive observed :=
| OAccept (out : stype)             (* returned; Out(i), Prefix(), NumShard() of the result *)
| OTypeErr (at_caller : bool)       (* *typecheck.Error; is File:Line the harness call site *)
| OPanic                            (* any other panic value *)
| OOk                               (* Invocation returned *)
| OBool (b : bool).                 (* answer to a Q query *)

Definition case := (call * observed)%type.

(* ---- the harness's finite universe (harness/c18/main.go, table `named`) ----
   TNamed 0 int    = myInt    (no ops registered)
   TNamed 1 string = keyStr   (Less and HashWithSeed registered)
   TNamed 2 int32  = lessOnly (Less only)
   TNamed 3 int64  = hashOnly (HashWithSeed only)
   TNamed 4 bool   = myBool
   TStruct 0 = struct{} (ops registered by package frame), TStruct 1 = point (String() on the
   value receiver), TStruct 2 = myErr (Error() on the pointer receiver)
   TIface 0 = interface{}, TIface 1 = fmt.Stringer *)
Definition in_tys (t : ty) (l : list ty) : bool := existsb (ty_eqb t) l.

Definition corr_universe : universe := mkU
  (fun v t =>
     match t with
     | TIface 0 => true
     | TIface 1 => in_tys v [TStruct 1; TPtr (TStruct 1); TIface 1]
     | TError => in_tys v [TPtr (TStruct 2); TError]
     | TContext => ty_eqb v TContext
     | _ => false
     end)
  (fun t => in_tys t [TStruct 0; TNamed 1 KString; TNamed 2 (KInt W32)])
  (fun t => in_tys t [TStruct 0; TNamed 1 KString; TNamed 3 (KInt W64)]).

Notation CU := corr_universe.

Inductive mres := MOut (o : outcome) | MFunc (r : fres) | MBool (b : bool).

Definition model_of (c : call) : mres :=
  match c with
  | CConst n cs => MOut (const_check n cs)
  | CReaderFunc n f => MOut (readerfunc_check n f)
  | CWriterFunc s f => MOut (writerfunc_check s f)
  | CMap s f => MOut (map_check CU s f)
  | CFilter s f => MOut (filter_check CU s f)
  | CFlatmap s f => MOut (flatmap_check CU s f)
  | CFold s f => MOut (fold_check CU s f)
  | CHead s n => MOut (head_check s n)
  | CScan s => MOut (scan_check s)
  | CPrefixed s p => MOut (prefixed_check s p)
  | CReduce s f => MOut (reduce_check CU s f)
  | CReshuffle s => MOut (reshuffle_check CU s)
  | CRepartition s f => MOut (repartition_check s f)
  | CReshard s n => MOut (reshard_check CU s n)
  | CCogroup ss => MOut (cogroup_check CU ss)
  | CInvocation ps args => MFunc (invocation_check CU ps args)
  | QAssignable v t => MBool (assignable CU v t)
  | QCanHash t => MBool (can_hash CU t)
  | QCanCompare t => MBool (can_compare CU t)
  end.

Definition agree (m : mres) (o : observed) : bool :=
  match m, o with
  | MOut (Accept s), OAccept s' => stype_eqb s s'
  | MOut Reject, OTypeErr _ => true
  | MOut GoPanic, OPanic => true
  | MFunc FOk, OOk => true
  | MFunc FReject, OTypeErr _ => true
  | MFunc FGoPanic, OPanic => true
  | MBool b, OBool b' => Bool.eqb b b'
  | _, _ => false
  end.

(* the documented schema applied to a call: None = nothing to judge (Q facts),
   Some None = the inputs do not fit, Some (Some r) = they fit, result type r *)
Definition schema_of (c : call) : option (option rspec) :=
  match c with
  | CConst n cs => Some (const_schema_b n cs)
  | CReaderFunc n f => Some (readerfunc_schema_b n f)
  | CWriterFunc s f => Some (writerfunc_schema_b s f)
  | CMap s f => Some (map_schema_b CU s f)
  | CFilter s f => Some (filter_schema_b CU s f)
  | CFlatmap s f => Some (flatmap_schema_b CU s f)
  | CFold s f => Some (fold_schema_b CU s f)
  | CHead s n => Some (head_schema_b s n)
  | CScan s => Some (scan_schema_b s)
  | CPrefixed s p => Some (prefixed_schema_b s p)
  | CReduce s f => Some (reduce_schema_b CU s f)
  | CReshuffle s => Some (reshuffle_schema_b CU s)
  | CRepartition s f => Some (repartition_schema_b s f)
  | CReshard s n => Some (reshard_schema_b CU s n)
  | CCogroup ss => Some (cogroup_schema_b CU ss)
  | _ => None
  end.

(* The property, judged on what the implementation did: inputs that fit must be
   accepted with the documented result type; inputs that do not fit must be
   rejected by a typecheck error attributed to the caller's line - not accepted,
   not another panic, not attributed elsewhere. *)
Definition ok (c : call) (o : observed) : bool :=
  match c with
  | CInvocation ps args =>
      if invocation_schema_b CU ps args
      then match o with OOk => true | _ => false end
      else match o with OTypeErr true => true | _ => false end
  | _ =>
  match schema_of c with
  | None => true
  | Some (Some r) => match o with OAccept out => meets_b r out | _ => false end
  | Some None => match o with OTypeErr true => true | _ => false end
  end
  end.

Definition mismatches (cs : list case) : list nat :=
  bad_indices (fun c : case => agree (model_of (fst c)) (snd c)) cs.
Definition violations (cs : list case) : list nat :=
  bad_indices (fun c : case => ok (fst c) (snd c)) cs.

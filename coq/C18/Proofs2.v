(* C18 — checker vs schema, part 2: Const, ReaderFunc, WriterFunc, Head, Scan,
   Prefixed, Reshuffle, Reshard, Cogroup. *)
From Coq Require Import List ZArith Bool Lia Setoid.
Import ListNotations.
Require Import BS.C18.Types BS.C18.Model BS.C18.Spec BS.C18.SpecDec BS.C18.Facts
  BS.C18.SpecDecProofs BS.C18.Proofs.

Ltac zb :=
  repeat match goal with
         | H : context [(_ >? _)%Z] |- _ => rewrite Z.gtb_ltb in H
         | H : (_ <? _)%Z = true |- _ => apply Z.ltb_lt in H
         | H : (_ <? _)%Z = false |- _ => apply Z.ltb_ge in H
         | H : (_ <=? _)%Z = true |- _ => apply Z.leb_le in H
         | H : (_ <=? _)%Z = false |- _ => apply Z.leb_gt in H
         | H : (_ =? _)%Z = true |- _ => apply Z.eqb_eq in H
         | H : (_ =? _)%Z = false |- _ => apply Z.eqb_neq in H
         end.

Lemma devectorize_cons_nonnil c cs : devectorize (c :: cs) <> Some [].
Proof. simpl. destruct c; try discriminate. destruct (devectorize cs); discriminate. Qed.

(* ---------------------------------------------------------------- Const *)
Lemma const_decided n cs : decided (const_check n cs) (const_schema_b n cs).
Proof.
  unfold const_check, const_schema_b. change (elems_of cs) with (devectorize cs).
  destruct cs as [|c cs']; [reflexivity|].
  cbn [length Nat.eqb].
  destruct (devectorize (c :: cs')) as [[|e es]|] eqn:E.
  - exfalso. exact (devectorize_cons_nonnil _ _ E).
  - destruct (n <? 1)%Z eqn:E1, (1 <=? n)%Z eqn:E2; zb; try lia; simpl; [reflexivity | accept_with].
  - destruct (n <? 1)%Z; reflexivity.
Qed.

(* ---------------------------------------------------------------- ReaderFunc *)
Lemma shard_is_int_spec R f a0 rest var outs :
  shard_ok R f -> user_func_b f = Some (a0 :: rest, var, outs) -> shard_is_int R a0 = ty_eqb a0 tint.
Proof.
  intros Hs Hf. unfold shard_is_int. destruct (rep_shard_exact R) eqn:E; [reflexivity|].
  destruct Hs as [H|H]; [congruence|]. unfold fn_shard_named in H. rewrite Hf in H.
  apply kind_is_int_unnamed. exact H.
Qed.

Lemma readerfunc_decided R n f :
  variadic_ok R f -> shard_ok R f -> numout_ok R f ->
  decided (readerfunc_check_gen R n f) (readerfunc_schema_b n f).
Proof.
  intros Hv Hs Hn. unfold readerfunc_check_gen, readerfunc_schema_b. rewrite slicefunc_of_user.
  destruct (user_func_b f) as [[[ins var] outs]|] eqn:Hf; [|reflexivity].
  unfold is_variadic. cbn [sf_var]. destruct var as [e|].
  { rewrite (variadic_ok_some _ _ _ _ _ Hv Hf). simpl. crunch_none. }
  rewrite andb_false_r.
  unfold numout_ok in Hn. rewrite (user_func_b_numout _ _ _ _ Hf) in Hn.
  rewrite reflect_ins_none. cbn [sf_in sf_out].
  destruct ins as [|a0 [|st [|c0 cs]]]; try (simpl; crunch_none; fail).
  cbn [length Nat.ltb Nat.leb]. unfold out_at at 1. cbn [nth_error].
  rewrite (shard_is_int_spec _ _ _ _ _ _ Hs Hf).
  set (fixed := rep_numout R) in *.
  change (elems_of (c0 :: cs)) with (devectorize (c0 :: cs)).
  cbn [skipn].
  destruct outs as [|o0 [|o1 [|o2 os]]].
  - (* no result *)
    destruct Hn as [-> | Hn]; [|discriminate]. simpl. destruct (ty_eqb a0 tint); reflexivity.
  - (* one result *)
    destruct Hn as [-> | Hn]; [|discriminate]. simpl. destruct (ty_eqb a0 tint); reflexivity.
  - (* two results: the documented arity *)
    replace (fixed && negb (length [o0; o1] =? 2)%nat) with false by (destruct fixed; reflexivity).
    unfold out_at. cbn [nth_error].
    destruct (ty_eqb a0 tint); cbn [negb andb]; [|reflexivity].
    destruct (kind_is_int o0); cbn [negb andb].
    + destruct (ty_eqb o1 TError); cbn [negb andb]; [|reflexivity].
      destruct (devectorize (c0 :: cs)) as [[|e es]|] eqn:E.
      * exfalso. exact (devectorize_cons_nonnil _ _ E).
      * accept_with.
      * reflexivity.
    + rewrite andb_false_r. reflexivity.
  - (* three or more results *)
    destruct Hn as [-> | Hn]; [|discriminate]. simpl. destruct (ty_eqb a0 tint); reflexivity.
Qed.

(* ---------------------------------------------------------------- WriterFunc *)
Lemma tys_eqb_length a b : tys_eqb a b = true -> length a = length b.
Proof. intro H. apply tys_eqb_spec in H. congruence. Qed.

Lemma writerfunc_decided R s f :
  variadic_ok R f -> shard_ok R f ->
  decided (writerfunc_check_gen R s f) (writerfunc_schema_b s f).
Proof.
  intros Hv Hs. unfold writerfunc_check_gen, writerfunc_schema_b. rewrite slicefunc_of_user.
  destruct (user_func_b f) as [[[ins var] outs]|] eqn:Hf; [|reflexivity].
  unfold is_variadic. cbn [sf_var]. destruct var as [e|].
  { rewrite (variadic_ok_some _ _ _ _ _ Hv Hf). simpl. crunch_none. }
  rewrite andb_false_r.
  rewrite reflect_ins_none. cbn [sf_in sf_out].
  destruct ins as [|a0 [|st [|a2 colsl]]]; try (simpl; crunch_none; fail).
  cbn [length plus Nat.eqb]. unfold out_at at 1 2. cbn [nth_error skipn].
  rewrite (shard_is_int_spec _ _ _ _ _ _ Hs Hf).
  rewrite (tys_eqb_sym (map TSlice (cols s)) colsl).
  destruct (length colsl =? length (cols s))%nat eqn:El; cbn [negb].
  - destruct (ty_eqb a0 tint); cbn [negb andb]; [|crunch_none].
    destruct (ty_eqb a2 TError); cbn [negb andb]; [|crunch_none].
    destruct (tys_eqb colsl (map TSlice (cols s))); cbn [negb andb]; [|crunch_none].
    destruct outs as [|o [|o2 outs]]; cbn [length Nat.eqb negb]; try reflexivity.
    unfold out_at. cbn [nth_error]. destruct (ty_eqb o TError); cbn [negb]; [accept_same | reflexivity].
  - assert (Hne : tys_eqb colsl (map TSlice (cols s)) = false).
    { destruct (tys_eqb colsl (map TSlice (cols s))) eqn:E; [|reflexivity].
      apply tys_eqb_length in E. rewrite map_length in E. apply Nat.eqb_neq in El. contradiction. }
    rewrite Hne, andb_false_r. crunch_none.
Qed.

(* ---------------------------------------------------------------- Head / Scan / Prefixed *)
Lemma head_decided s n : decided (head_check s n) (head_schema_b s n).
Proof. unfold head_check, head_schema_b. accept_same. Qed.

Lemma scan_decided s : decided (scan_check s) (scan_schema_b s).
Proof. unfold scan_check, scan_schema_b. accept_with. Qed.

Lemma prefixed_decided s p : decided (prefixed_check s p) (prefixed_schema_b s p).
Proof.
  unfold prefixed_check, prefixed_schema_b.
  destruct (p <? 1)%Z eqn:E1, (p >? Z.of_nat (length (cols s)))%Z eqn:E2,
    (1 <=? p)%Z eqn:E3, (p <=? Z.of_nat (length (cols s)))%Z eqn:E4; zb; try lia; simpl;
    try reflexivity. accept_with.
Qed.

(* ---------------------------------------------------------------- Reshuffle / Reshard *)
Lemma reshuffle_decided U s :
  prefix_in_range s -> decided (reshuffle_check U s) (reshuffle_schema_b U s).
Proof.
  intro Hr. unfold reshuffle_check, reshuffle_schema_b, keyed_b.
  rewrite can_make_combining_frame_spec. apply Nat.leb_le in Hr. rewrite Hr. cbn [andb].
  destruct (forallb (keyable U) (firstn (prefix s) (cols s))); [accept_same | reflexivity].
Qed.

Lemma reshard_decided U s n :
  prefix_in_range s -> decided (reshard_check U s n) (reshard_schema_b U s n).
Proof.
  intro Hr. unfold reshard_check, reshard_schema_b, keyed_b.
  rewrite can_make_combining_frame_spec. apply Nat.leb_le in Hr. rewrite Hr. cbn [andb].
  destruct (forallb (keyable U) (firstn (prefix s) (cols s))); [|reflexivity].
  destruct (nshard s =? n)%Z eqn:E.
  - eexists; split; [reflexivity|]. unfold meets_b; simpl.
    rewrite tys_eqb_refl, Nat.eqb_refl, E. reflexivity.
  - accept_with.
Qed.

(* outside the guard the key columns do not exist: nothing is accepted (the
   constructor panics in Out(i)), and nothing fits *)
Lemma reshuffle_out_of_range U s :
  ~ prefix_in_range s -> reshuffle_check U s = GoPanic /\ reshuffle_schema_b U s = None.
Proof.
  intro Hr. unfold reshuffle_check, reshuffle_schema_b, keyed_b, prefix_in_range in *.
  rewrite can_make_combining_frame_spec.
  destruct (prefix s <=? length (cols s))%nat eqn:E; [apply Nat.leb_le in E; contradiction|].
  split; reflexivity.
Qed.

Lemma reshard_out_of_range U s n :
  ~ prefix_in_range s -> reshard_check U s n = GoPanic /\ reshard_schema_b U s n = None.
Proof.
  intro Hr. unfold reshard_check, reshard_schema_b, keyed_b, prefix_in_range in *.
  rewrite can_make_combining_frame_spec.
  destruct (prefix s <=? length (cols s))%nat eqn:E; [apply Nat.leb_le in E; contradiction|].
  split; reflexivity.
Qed.

(* ---------------------------------------------------------------- Cogroup *)
Lemma take_outs_spec cs : forall n i, (i <= length cs)%nat ->
  take_outs cs i n =
  if (i + n <=? length cs)%nat then Val (firstn n (skipn i cs)) else Pan.
Proof.
  induction n as [|n IH]; intros i Hi; simpl.
  - replace (i + 0)%nat with i by lia. apply Nat.leb_le in Hi. rewrite Hi. reflexivity.
  - destruct (Nat.lt_ge_cases i (length cs)) as [Hlt|Hge].
    + destruct (out_at_some cs i Hlt) as (t & Hn & ->).
      rewrite (IH (S i)) by lia.
      replace (S i + n)%nat with (i + S n)%nat by lia.
      destruct (i + S n <=? length cs)%nat; [|reflexivity].
      rewrite (skipn_nth_cons cs i t Hn). reflexivity.
    + rewrite (out_at_pan cs i Hge).
      destruct (i + S n <=? length cs)%nat eqn:E; [|reflexivity].
      apply Nat.leb_le in E. lia.
Qed.

Lemma cmp_keys_spec cs : forall keys j, (j + length keys <= length cs)%nat ->
  cmp_keys cs j keys = Val (tys_eqb (firstn (length keys) (skipn j cs)) keys).
Proof.
  induction keys as [|k ks IH]; intros j Hj; simpl in *.
  - reflexivity.
  - destruct (out_at_some cs j) as (t & Hn & ->); [lia|].
    rewrite (skipn_nth_cons cs j t Hn). simpl.
    destruct (ty_eqb t k); [|reflexivity].
    apply IH. lia.
Qed.

Lemma cogroup_keys_ok_spec U keys : cogroup_keys_ok U keys = forallb (keyable U) keys.
Proof.
  induction keys as [|k ks IH]; simpl; [reflexivity|]. unfold keyable at 1.
  destruct (can_hash U k), (can_compare U k); simpl; auto.
Qed.

Definition cg_rest_ok (keys : list ty) (s : stype) : bool :=
  Nat.eqb (prefix s) (length keys) && tys_eqb (firstn (length keys) (cols s)) keys
  && negb (is_nil (cols s)).

Lemma cogroup_keys_rest keys ss :
  Forall prefix_in_range ss ->
  cogroup_keys false keys ss =
  if forallb (cg_rest_ok keys) ss then KSKeys keys else KSReject.
Proof.
  induction 1 as [|s r Hs Hr IH]; simpl; [reflexivity|]. unfold cg_rest_ok at 1.
  destruct (cols s) as [|c cs] eqn:Hc; simpl.
  - rewrite andb_false_r. reflexivity.
  - rewrite <- Hc. rewrite andb_true_r.
    destruct (prefix s =? length keys)%nat eqn:Ep; simpl; [|reflexivity].
    apply Nat.eqb_eq in Ep. unfold prefix_in_range in Hs.
    rewrite cmp_keys_spec by (simpl; lia). simpl skipn.
    destruct (tys_eqb (firstn (length keys) (cols s)) keys); simpl; [apply IH | reflexivity].
Qed.

Lemma fold_left_max ss : forall a,
  fold_left (fun acc s => if (nshard s >? acc)%Z then nshard s else acc) ss a =
  Z.max a (fold_right Z.max a (map nshard ss)).
Proof.
  induction ss as [|s r IH]; intros a; simpl.
  - lia.
  - rewrite IH. destruct (nshard s >? a)%Z eqn:E; rewrite Z.gtb_ltb in E; zb.
    + assert (forall x, a <= x -> fold_right Z.max a (map nshard r) <= fold_right Z.max x (map nshard r))%Z.
      { clear. induction r; simpl; intros; [lia|]. specialize (IHr x H). lia. }
      assert (forall x, a <= x -> fold_right Z.max x (map nshard r) <= Z.max x (fold_right Z.max a (map nshard r)))%Z.
      { clear. induction r; simpl; intros; [lia|]. specialize (IHr x H). lia. }
      specialize (H (nshard s)). specialize (H0 (nshard s)). lia.
    + assert (a <= fold_right Z.max a (map nshard r))%Z.
      { clear. induction r; simpl; lia. }
      lia.
Qed.

Lemma cogroup_numshard_spec ss : cogroup_numshard ss = fold_right Z.max 0%Z (map nshard ss).
Proof.
  unfold cogroup_numshard. rewrite fold_left_max.
  assert (0 <= fold_right Z.max 0 (map nshard ss))%Z by (induction ss; simpl; lia).
  lia.
Qed.

Lemma cogroup_decided U ss :
  Forall prefix_in_range ss -> decided (cogroup_check U ss) (cogroup_schema_b U ss).
Proof.
  intro Hr. unfold cogroup_check, cogroup_schema_b.
  destruct ss as [|s0 ss']; [reflexivity|].
  cbn [length Nat.eqb cogroup_keys].
  inversion Hr as [|? ? H0 Hr']; subst. unfold prefix_in_range in H0.
  set (p := prefix s0) in *. set (keys := firstn p (cols s0)).
  assert (Hlen : length keys = p) by (apply firstn_length_le; assumption).
  assert (Hle : (p <=? length (cols s0))%nat = true) by (apply Nat.leb_le; assumption).
  rewrite Hle. cbn [andb forallb].
  rewrite Nat.eqb_refl. fold keys. rewrite tys_eqb_refl. cbn [andb].
  destruct (length (cols s0) =? 0)%nat eqn:E0.
  - assert (Hnil : is_nil (cols s0) = true) by (destruct (cols s0); [reflexivity | discriminate]).
    rewrite Hnil. reflexivity.
  - assert (Hnil : is_nil (cols s0) = false) by (destruct (cols s0); [discriminate | reflexivity]).
    rewrite Hnil. cbn [negb andb].
    rewrite take_outs_spec by lia. cbn [plus skipn]. rewrite Hle. fold keys.
    rewrite (cogroup_keys_rest keys ss' Hr').
    assert (Hsame : forallb (cg_rest_ok keys) ss' =
                    forallb (fun s => Nat.eqb (prefix s) p && tys_eqb (firstn p (cols s)) keys
                                      && negb (is_nil (cols s))) ss').
    { unfold cg_rest_ok. rewrite Hlen. reflexivity. }
    rewrite Hsame. clear Hsame.
    destruct (forallb _ ss'); cbn [andb]; cbv iota; [|exact eq_refl].
    rewrite cogroup_keys_ok_spec.
    destruct (forallb (keyable U) keys); cbn [negb]; cbv iota; [|exact eq_refl].
    eexists; split; [reflexivity|]. unfold meets_b. cbn [cols prefix nshard r_cols r_prefix r_nshard].
    unfold cogroup_out. rewrite Hlen, tys_eqb_refl, Nat.eqb_refl, cogroup_numshard_spec, Z.eqb_refl.
    reflexivity.
Qed.

(* an accepted Cogroup read only key columns that exist *)
Lemma cmp_keys_true cs : forall keys j, (j <= length cs)%nat ->
  cmp_keys cs j keys = Val true -> (j + length keys <= length cs)%nat.
Proof.
  induction keys as [|k ks IH]; intros j Hj H; simpl in *; [lia|].
  destruct (Nat.lt_ge_cases j (length cs)) as [Hlt|Hge].
  - destruct (out_at_some cs j Hlt) as (t & Hn & Ho). rewrite Ho in H.
    destruct (ty_eqb t k); [|discriminate]. specialize (IH (S j) Hlt H). lia.
  - rewrite (out_at_pan cs j Hge) in H. discriminate.
Qed.

Lemma cogroup_keys_rest_in_range keys ss k' :
  cogroup_keys false keys ss = KSKeys k' -> Forall prefix_in_range ss.
Proof.
  induction ss as [|s r IH]; simpl; intro H; [constructor|].
  destruct (length (cols s) =? 0)%nat; [discriminate|].
  destruct (prefix s =? length keys)%nat eqn:Ep; simpl in H; [|discriminate].
  destruct (cmp_keys (cols s) 0 keys) as [[|]|] eqn:Ec; try discriminate.
  apply cmp_keys_true in Ec; [|lia]. apply Nat.eqb_eq in Ep.
  constructor; [unfold prefix_in_range; lia | apply IH; assumption].
Qed.

Lemma cogroup_accept_in_range U ss out :
  cogroup_check U ss = Accept out -> Forall prefix_in_range ss.
Proof.
  unfold cogroup_check. destruct ss as [|s0 ss']; [discriminate|].
  cbn [length Nat.eqb cogroup_keys].
  destruct (length (cols s0) =? 0)%nat; [discriminate|].
  rewrite take_outs_spec by lia. cbn [plus].
  destruct (prefix s0 <=? length (cols s0))%nat eqn:E; [|discriminate].
  destruct (cogroup_keys false _ ss') eqn:Ek; try discriminate.
  intros _. constructor; [apply Nat.leb_le; assumption|].
  eapply cogroup_keys_rest_in_range. eassumption.
Qed.

Lemma cogroup_schema_in_range U ss r : cogroup_schema U ss r -> Forall prefix_in_range ss.
Proof.
  intros (keys & rests & m & _ & H2 & _). clear - H2.
  induction H2 as [|s rest ss1 rests1 (Hc & Hp & _) _ IH]; constructor; [|assumption].
  unfold prefix_in_range. rewrite Hc, Hp, app_length. lia.
Qed.

(* ---------------------------------------------------------------- Invocation *)
Lemma nilable_b_is_nil_assignable t : nilable_b t = is_nil_assignable t.
Proof. destruct t; reflexivity. Qed.

Lemma func_typecheck_loop_spec U : forall params args,
  length args = length params ->
  func_typecheck_loop U params args = all2 (arg_fits_b U) params args.
Proof.
  induction params as [|e ps IH]; intros [|h hs] Hl; simpl in *; try reflexivity; try discriminate.
  rewrite <- (IH hs) by congruence. unfold arg_fits_b. rewrite nilable_b_is_nil_assignable.
  destruct h as [h|].
  - destruct (is_iface e).
    + destruct (implements U h e); reflexivity.
    + destruct (ty_eqb h e); reflexivity.
  - destruct (is_nil_assignable e); reflexivity.
Qed.

Lemma invocation_decided U params args :
  invocation_check U params args = if invocation_schema_b U params args then FOk else FReject.
Proof.
  unfold invocation_check, invocation_schema_b.
  destruct (length args =? length params)%nat eqn:E; simpl.
  - apply Nat.eqb_eq in E. rewrite func_typecheck_loop_spec by assumption. reflexivity.
  - destruct (all2 (arg_fits_b U) params args) eqn:E2; [|reflexivity].
    apply all2_length in E2. apply Nat.eqb_neq in E. congruence.
Qed.

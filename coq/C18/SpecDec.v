(* C18 — decision procedures for the declarative schemas of Spec.v, used by the
   correspondence driver to judge what the implementation did.  Definitions
   only; SpecDecProofs.v proves  X_schema_b ... = Some r -> X_schema ... r  and
   X_schema_b ... = None -> no r fits.  Does not import the model. *)
From Coq Require Import List ZArith Bool.
Import ListNotations.
Require Export BS.C18.Spec.

Definition is_nil {A} (l : list A) : bool := match l with [] => true | _ => false end.

(* the parameters (without a leading context), variadic element and results of a func type *)
Definition user_func_b (f : ty) : option (list ty * option ty * list ty) :=
  match f with
  | TFunc (TContext :: ins) var outs => Some (ins, var, outs)
  | TFunc ins var outs => Some (ins, var, outs)
  | _ => None
  end.

Definition args_fit_b (U : universe) (args ins : list ty) (var : option ty) : bool :=
  match var with
  | None => all2 (assignable U) args ins
  | Some e =>
      (length ins <=? length args)%nat
      && all2 (assignable U) (firstn (length ins) args) ins
      && forallb (fun a => assignable U a e) (skipn (length ins) args)
  end.

(* l = map TSlice es *)
Fixpoint elems_of (l : list ty) : option (list ty) :=
  match l with
  | [] => Some []
  | TSlice e :: r => match elems_of r with Some es => Some (e :: es) | None => None end
  | _ :: _ => None
  end.

Definition const_schema_b (n : Z) (columns : list ty) : option rspec :=
  match elems_of columns with
  | Some (e :: es) => if (1 <=? n)%Z then Some (mkR (e :: es) None n) else None
  | _ => None
  end.

Definition readerfunc_schema_b (n : Z) (read : ty) : option rspec :=
  match user_func_b read with
  | Some (shard :: state :: colsl, None, [count; err]) =>
      if ty_eqb shard tint && ty_eqb err TError && kind_is_int count then
        match elems_of colsl with
        | Some (e :: es) => Some (mkR (e :: es) None n)
        | _ => None
        end
      else None
  | _ => None
  end.

Definition writerfunc_schema_b (s : stype) (write : ty) : option rspec :=
  match user_func_b write with
  | Some (shard :: state :: err :: colsl, None, [o]) =>
      if ty_eqb shard tint && ty_eqb err TError
         && tys_eqb colsl (map TSlice (cols s)) && ty_eqb o TError
      then Some (same_as s) else None
  | _ => None
  end.

Definition map_schema_b (U : universe) (s : stype) (f : ty) : option rspec :=
  match user_func_b f with
  | Some (ins, var, outs) =>
      if args_fit_b U (cols s) ins var && negb (is_nil outs)
      then Some (mkR outs None (nshard s)) else None
  | None => None
  end.

Definition filter_schema_b (U : universe) (s : stype) (pred : ty) : option rspec :=
  match user_func_b pred with
  | Some (ins, var, [b]) =>
      if args_fit_b U (cols s) ins var && kind_is_bool b then Some (same_as s) else None
  | _ => None
  end.

Definition flatmap_schema_b (U : universe) (s : stype) (f : ty) : option rspec :=
  match user_func_b f with
  | Some (ins, var, outs) =>
      if args_fit_b U (cols s) ins var then
        match elems_of outs with
        | Some elems => Some (mkR elems None (nshard s))
        | None => None
        end
      else None
  | None => None
  end.

Definition fold_schema_b (U : universe) (s : stype) (fold : ty) : option rspec :=
  match cols s with
  | key :: (v2 :: rest') =>
      if can_hash U key && kind_accumulable key then
        match user_func_b fold with
        | Some (acc :: params, None, [acc']) =>
            if ty_eqb acc acc' && tys_eqb params (v2 :: rest')
            then Some (mkR [key; acc] None (nshard s)) else None
        | _ => None
        end
      else None
  | _ => None
  end.

Definition head_schema_b (s : stype) (n : Z) : option rspec := Some (same_as s).
Definition scan_schema_b (s : stype) : option rspec := Some (mkR [] None (nshard s)).

Definition prefixed_schema_b (s : stype) (p : Z) : option rspec :=
  if (1 <=? p)%Z && (p <=? Z.of_nat (length (cols s)))%Z
  then Some (mkR (cols s) (Some (Z.to_nat p)) (nshard s)) else None.

Definition keyed_b (U : universe) (s : stype) : bool :=
  (prefix s <=? length (cols s))%nat && forallb (keyable U) (firstn (prefix s) (cols s)).

Definition reduce_schema_b (U : universe) (s : stype) (reduce : ty) : option rspec :=
  if (length (cols s) =? prefix s + 1)%nat && keyed_b U s then
    match nth_error (cols s) (prefix s), user_func_b reduce with
    | Some v, Some ([a; b], None, [c]) =>
        if ty_eqb a v && ty_eqb b v && ty_eqb c v then Some (same_as s) else None
    | _, _ => None
    end
  else None.

Definition reshuffle_schema_b (U : universe) (s : stype) : option rspec :=
  if keyed_b U s then Some (same_as s) else None.

Definition repartition_schema_b (s : stype) (partition : ty) : option rspec :=
  match user_func_b partition with
  | Some (ins, None, [o]) =>
      if tys_eqb ins (tint :: cols s) && ty_eqb o tint then Some (same_as s) else None
  | _ => None
  end.

Definition reshard_schema_b (U : universe) (s : stype) (n : Z) : option rspec :=
  if keyed_b U s then Some (mkR (cols s) (Some (prefix s)) n) else None.

Definition cogroup_schema_b (U : universe) (ss : list stype) : option rspec :=
  match ss with
  | [] => None
  | s0 :: _ =>
      let p := prefix s0 in
      let keys := firstn p (cols s0) in
      if (p <=? length (cols s0))%nat
         && forallb (fun s => Nat.eqb (prefix s) p && tys_eqb (firstn p (cols s)) keys
                              && negb (is_nil (cols s))) ss
         && forallb (keyable U) keys
      then Some (mkR (keys ++ flat_map (fun s => map TSlice (skipn p (cols s))) ss)
                     (Some p)
                     (fold_right Z.max 0%Z (map nshard ss)))
      else None
  end.

(* does an observed result type meet a documented one *)
Definition meets_b (r : rspec) (out : stype) : bool :=
  tys_eqb (cols out) (r_cols r)
  && match r_prefix r with Some p => Nat.eqb (prefix out) p | None => true end
  && Z.eqb (nshard out) (r_nshard r).

Definition nilable_b (t : ty) : bool :=
  match t with
  | TSlice _ | TPtr _ | TFunc _ _ _ => true
  | _ => is_iface t
  end.

Definition arg_fits_b (U : universe) (expect : ty) (have : option ty) : bool :=
  match have with
  | None => nilable_b expect
  | Some h => if is_iface expect then implements U h expect else ty_eqb h expect
  end.

Definition invocation_schema_b (U : universe) (params : list ty) (args : list (option ty)) : bool :=
  all2 (arg_fits_b U) params args.

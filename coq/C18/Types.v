(* C18 — vocabulary shared by the model and the specification: the grammar of Go
   types that can appear as slice columns or as user functions, reflect.Kind,
   type identity, assignability and the "registered ops" predicates of
   frame.CanCompare / frame.CanHash.  Definitions only (proofs: TypesFacts.v). *)
From Coq Require Import List ZArith Bool.
Import ListNotations.

(* widths of the sized integer kinds; W0 is the unsized int / uint *)
Inductive width := W0 | W8 | W16 | W32 | W64.

(* the basic kinds of reflect.Kind that the constructors look at *)
Inductive bkind :=
| KBool | KInt (w : width) | KUint (w : width) | KUintptr | KFloat32 | KFloat64 | KString.

(* Go types.  TBasic k is the predeclared type of kind k (int, uint8, string, ...).
   TNamed id k is a defined type whose underlying type is the basic type of
   kind k (type myInt int).  TStruct id / TIface id are defined struct and
   interface types, pairwise distinct.  error and context.Context are the two
   interface types the constructors compare against by identity.
   TFunc ins var outs is func(ins..., [...var]) (outs...): when var = Some e the
   function is variadic and reflect reports one more parameter of type []e. *)
Inductive ty : Type :=
| TBasic (k : bkind)
| TNamed (id : nat) (k : bkind)
| TError
| TContext
| TSlice (e : ty)
| TPtr (e : ty)
| TStruct (id : nat)
| TIface (id : nat)
| TFunc (ins : list ty) (var : option ty) (outs : list ty).

Definition width_eqb (a b : width) : bool :=
  match a, b with
  | W0, W0 | W8, W8 | W16, W16 | W32, W32 | W64, W64 => true
  | _, _ => false
  end.

Definition bkind_eqb (a b : bkind) : bool :=
  match a, b with
  | KBool, KBool | KUintptr, KUintptr | KFloat32, KFloat32 | KFloat64, KFloat64
  | KString, KString => true
  | KInt x, KInt y => width_eqb x y
  | KUint x, KUint y => width_eqb x y
  | _, _ => false
  end.

Section ListEq.
  Variable A : Type.
  Variable eqb : A -> A -> bool.
  Fixpoint leqb (l1 l2 : list A) : bool :=
    match l1, l2 with
    | [], [] => true
    | x :: r1, y :: r2 => eqb x y && leqb r1 r2
    | _, _ => false
    end.
  Definition oeqb (a b : option A) : bool :=
    match a, b with
    | Some x, Some y => eqb x y
    | None, None => true
    | _, _ => false
    end.
End ListEq.
Arguments leqb {A}.
Arguments oeqb {A}.

(* pairwise test of two lists of the same length (false when lengths differ) *)
Section All2.
  Variable A B : Type.
  Variable p : A -> B -> bool.
  Fixpoint all2 (l1 : list A) (l2 : list B) : bool :=
    match l1, l2 with
    | [], [] => true
    | x :: r1, y :: r2 => p x y && all2 r1 r2
    | _, _ => false
    end.
End All2.
Arguments all2 {A B}.

(* reflect.Type identity (==) *)
Fixpoint ty_eqb (a b : ty) {struct a} : bool :=
  match a, b with
  | TBasic k1, TBasic k2 => bkind_eqb k1 k2
  | TNamed i1 k1, TNamed i2 k2 => Nat.eqb i1 i2 && bkind_eqb k1 k2
  | TError, TError => true
  | TContext, TContext => true
  | TSlice e1, TSlice e2 => ty_eqb e1 e2
  | TPtr e1, TPtr e2 => ty_eqb e1 e2
  | TStruct i1, TStruct i2 => Nat.eqb i1 i2
  | TIface i1, TIface i2 => Nat.eqb i1 i2
  | TFunc i1 v1 o1, TFunc i2 v2 o2 =>
      leqb ty_eqb i1 i2 && oeqb ty_eqb v1 v2 && leqb ty_eqb o1 o2
  | _, _ => false
  end.

Notation tys_eqb := (leqb ty_eqb).

(* ---- reflect.Kind tests used by the constructors ---- *)
Definition tint : ty := TBasic (KInt W0).

Definition bkind_of (t : ty) : option bkind :=
  match t with TBasic k | TNamed _ k => Some k | _ => None end.

Definition kind_is_int (t : ty) : bool :=       (* Kind() == reflect.Int *)
  match bkind_of t with Some (KInt W0) => true | _ => false end.
Definition kind_is_bool (t : ty) : bool :=      (* Kind() == reflect.Bool *)
  match bkind_of t with Some KBool => true | _ => false end.
Definition kind_is_slice (t : ty) : bool :=     (* Kind() == reflect.Slice *)
  match t with TSlice _ => true | _ => false end.
Definition kind_is_func (t : ty) : bool :=
  match t with TFunc _ _ _ => true | _ => false end.
(* accum.go canMakeAccumulatorForKey: Kind() in {String, Int, Int64} *)
Definition kind_accumulable (t : ty) : bool :=
  match bkind_of t with
  | Some KString | Some (KInt W0) | Some (KInt W64) => true
  | _ => false
  end.

Definition is_iface (t : ty) : bool :=
  match t with TIface _ | TError | TContext => true | _ => false end.

(* What the grammar does not determine: which types implement which interface
   (method sets) and for which non-predeclared types the program has called
   frame.RegisterOps, with or without Less / HashWithSeed.  Theorems quantify
   over every such table. *)
Record universe := mkU {
  implements : ty -> ty -> bool;   (* implements v t : v's method set covers interface t *)
  reg_less : ty -> bool;           (* user-registered Ops for t has Less *)
  reg_hash : ty -> bool            (* user-registered Ops for t has HashWithSeed *)
}.

(* reflect's (v).AssignableTo(t) on this grammar: identical types, or t is an
   interface that v implements.  (The remaining clause of Go assignability -
   identical underlying types when one side is not a defined type - never
   applies: every defined type of the grammar has a basic, struct or interface
   underlying type, and those are defined types themselves.) *)
Definition assignable (U : universe) (v t : ty) : bool :=
  ty_eqb v t || (is_iface t && implements U v t).

(* frame/ops_builtin.go and frame/ops.go register Less and HashWithSeed for
   every predeclared basic type of the grammar and for []byte; RegisterOps
   refuses a second registration, so for those the table is fixed. *)
Definition builtin_ops (t : ty) : bool :=
  match t with
  | TBasic _ => true
  | TSlice (TBasic (KUint W8)) => true
  | _ => false
  end.
Definition can_compare (U : universe) (t : ty) : bool := builtin_ops t || reg_less U t.
Definition can_hash (U : universe) (t : ty) : bool := builtin_ops t || reg_hash U t.
Definition keyable (U : universe) (t : ty) : bool := can_hash U t && can_compare U t.

(* ---- the type of a Slice as the constructors see it ---- *)
Record stype := mkS {
  cols : list ty;      (* Out(0) .. Out(NumOut()-1) *)
  prefix : nat;        (* Prefix() *)
  nshard : Z           (* NumShard() *)
}.

Definition stype_eqb (a b : stype) : bool :=
  tys_eqb (cols a) (cols b) && Nat.eqb (prefix a) (prefix b) && Z.eqb (nshard a) (nshard b).

(* C18 — the theorems in their final, declarative form: for every constructor,
   over the whole type grammar and every universe table,
     ctor_iff_schema : the checker never panics outside typecheck, accepts iff the
                       inputs fit the documented schema, rejects otherwise;
     out_type_spec   : an accepted call returns the documented result type. *)
From Coq Require Import List ZArith Bool Lia.
Import ListNotations.
Require Import BS.C18.Types BS.C18.Model BS.C18.Spec BS.C18.SpecDec BS.C18.Facts
  BS.C18.SpecDecProofs BS.C18.Proofs BS.C18.Proofs2.

Definition ctor_correct (o : outcome) (S : rspec -> Prop) : Prop :=
  o <> GoPanic /\
  ((exists out, o = Accept out) <-> (exists r, S r)) /\
  ((~ exists r, S r) -> o = Reject).

Definition out_type_correct (o : outcome) (S : rspec -> Prop) : Prop :=
  forall out, o = Accept out -> exists r, S r /\ meets r out.

Lemma decided_correct o sch (S : rspec -> Prop) :
  (forall r, sch = Some r <-> S r) -> decided o sch -> ctor_correct o S /\ out_type_correct o S.
Proof.
  intros Hiff Hd. unfold ctor_correct, out_type_correct. destruct sch as [r|]; simpl in Hd.
  - destruct Hd as (out & -> & Hm). apply meets_b_iff in Hm.
    assert (Hs : S r) by (apply Hiff; reflexivity).
    repeat split.
    + discriminate.
    + intros _. exists r. assumption.
    + intros _. exists out. reflexivity.
    + intro Hn. exfalso. apply Hn. exists r. assumption.
    + intros out' [= <-]. exists r. auto.
  - subst o. repeat split.
    + discriminate.
    + intros (out & H). discriminate.
    + intros (r & Hs). apply Hiff in Hs. discriminate.
    + discriminate.
Qed.

Ltac from_decided iff dec := apply (decided_correct _ _ _ iff dec).

(* ---------------------------------------------------------------- unconditional *)
Theorem map_iff_schema U s f : ctor_correct (map_check U s f) (map_schema U s f).
Proof. apply (decided_correct _ _ _ (map_schema_b_iff U s f) (map_decided U s f)). Qed.
Theorem map_out_type_spec U s f : out_type_correct (map_check U s f) (map_schema U s f).
Proof. apply (decided_correct _ _ _ (map_schema_b_iff U s f) (map_decided U s f)). Qed.

Theorem filter_iff_schema U s f : ctor_correct (filter_check U s f) (filter_schema U s f).
Proof. apply (decided_correct _ _ _ (filter_schema_b_iff U s f) (filter_decided U s f)). Qed.
Theorem filter_out_type_spec U s f : out_type_correct (filter_check U s f) (filter_schema U s f).
Proof. apply (decided_correct _ _ _ (filter_schema_b_iff U s f) (filter_decided U s f)). Qed.

Theorem flatmap_iff_schema U s f : ctor_correct (flatmap_check U s f) (flatmap_schema U s f).
Proof. apply (decided_correct _ _ _ (flatmap_schema_b_iff U s f) (flatmap_decided U s f)). Qed.
Theorem flatmap_out_type_spec U s f : out_type_correct (flatmap_check U s f) (flatmap_schema U s f).
Proof. apply (decided_correct _ _ _ (flatmap_schema_b_iff U s f) (flatmap_decided U s f)). Qed.

Theorem head_iff_schema s n : ctor_correct (head_check s n) (head_schema s n).
Proof. apply (decided_correct _ _ _ (head_schema_b_iff s n) (head_decided s n)). Qed.
Theorem head_out_type_spec s n : out_type_correct (head_check s n) (head_schema s n).
Proof. apply (decided_correct _ _ _ (head_schema_b_iff s n) (head_decided s n)). Qed.

Theorem scan_iff_schema s : ctor_correct (scan_check s) (scan_schema s).
Proof. apply (decided_correct _ _ _ (scan_schema_b_iff s) (scan_decided s)). Qed.
Theorem scan_out_type_spec s : out_type_correct (scan_check s) (scan_schema s).
Proof. apply (decided_correct _ _ _ (scan_schema_b_iff s) (scan_decided s)). Qed.

Theorem prefixed_iff_schema s p : ctor_correct (prefixed_check s p) (prefixed_schema s p).
Proof. apply (decided_correct _ _ _ (prefixed_schema_b_iff s p) (prefixed_decided s p)). Qed.
Theorem prefixed_out_type_spec s p : out_type_correct (prefixed_check s p) (prefixed_schema s p).
Proof. apply (decided_correct _ _ _ (prefixed_schema_b_iff s p) (prefixed_decided s p)). Qed.

Theorem const_iff_schema n cs : ctor_correct (const_check n cs) (const_schema n cs).
Proof. apply (decided_correct _ _ _ (const_schema_b_iff n cs) (const_decided n cs)). Qed.
Theorem const_out_type_spec n cs : out_type_correct (const_check n cs) (const_schema n cs).
Proof. apply (decided_correct _ _ _ (const_schema_b_iff n cs) (const_decided n cs)). Qed.

(* ---------------------------------------------------------------- key prefix in range *)
Theorem reshuffle_iff_schema U s :
  prefix_in_range s -> ctor_correct (reshuffle_check U s) (reshuffle_schema U s).
Proof. intro H. apply (decided_correct _ _ _ (reshuffle_schema_b_iff U s) (reshuffle_decided U s H)). Qed.
Theorem reshuffle_out_type_spec U s :
  out_type_correct (reshuffle_check U s) (reshuffle_schema U s).
Proof.
  intros out Ho. assert (Hr : prefix_in_range s).
  { destruct (Nat.le_gt_cases (prefix s) (length (cols s))) as [H|H]; [exact H|].
    destruct (reshuffle_out_of_range U s) as [Hp _]; [unfold prefix_in_range; lia|]. congruence. }
  exact (proj2 (decided_correct _ _ _ (reshuffle_schema_b_iff U s) (reshuffle_decided U s Hr)) out Ho).
Qed.

Theorem reshard_iff_schema U s n :
  prefix_in_range s -> ctor_correct (reshard_check U s n) (reshard_schema U s n).
Proof. intro H. apply (decided_correct _ _ _ (reshard_schema_b_iff U s n) (reshard_decided U s n H)). Qed.
Theorem reshard_out_type_spec U s n :
  out_type_correct (reshard_check U s n) (reshard_schema U s n).
Proof.
  intros out Ho. assert (Hr : prefix_in_range s).
  { destruct (Nat.le_gt_cases (prefix s) (length (cols s))) as [H|H]; [exact H|].
    destruct (reshard_out_of_range U s n) as [Hp _]; [unfold prefix_in_range; lia|]. congruence. }
  exact (proj2 (decided_correct _ _ _ (reshard_schema_b_iff U s n) (reshard_decided U s n Hr)) out Ho).
Qed.

(* outside the range: a panic that is not a typecheck error, although nothing fits *)
Theorem reshuffle_prefix_out_of_range U s :
  ~ prefix_in_range s -> reshuffle_check U s = GoPanic /\ ~ exists r, reshuffle_schema U s r.
Proof.
  intro H. destruct (reshuffle_out_of_range U s H) as [Hp Hn]. split; [exact Hp|].
  intros (r & Hr). apply reshuffle_schema_b_iff in Hr. congruence.
Qed.
Theorem reshard_prefix_out_of_range U s n :
  ~ prefix_in_range s -> reshard_check U s n = GoPanic /\ ~ exists r, reshard_schema U s n r.
Proof.
  intro H. destruct (reshard_out_of_range U s n H) as [Hp Hn]. split; [exact Hp|].
  intros (r & Hr). apply reshard_schema_b_iff in Hr. congruence.
Qed.

Theorem cogroup_iff_schema U ss :
  Forall prefix_in_range ss -> ctor_correct (cogroup_check U ss) (cogroup_schema U ss).
Proof. intro H. apply (decided_correct _ _ _ (cogroup_schema_b_iff U ss) (cogroup_decided U ss H)). Qed.
Theorem cogroup_out_type_spec U ss :
  Forall prefix_in_range ss -> out_type_correct (cogroup_check U ss) (cogroup_schema U ss).
Proof. intro H. apply (decided_correct _ _ _ (cogroup_schema_b_iff U ss) (cogroup_decided U ss H)). Qed.

(* ---------------------------------------------------------------- exact-form constructors
   For every combination R of repairs: the theorem holds where the repair is in
   or the input is outside the region the repair is about.  For the code as it
   is now (current_code: all three repairs in) it is unconditional. *)
Theorem fold_iff_schema_any R U s f :
  variadic_ok R f -> ctor_correct (fold_check_gen R U s f) (fold_schema U s f).
Proof. intro H. apply (decided_correct _ _ _ (fold_schema_b_iff U s f) (fold_decided R U s f H)). Qed.
Theorem fold_out_type_spec_any R U s f :
  variadic_ok R f -> out_type_correct (fold_check_gen R U s f) (fold_schema U s f).
Proof. intro H. apply (decided_correct _ _ _ (fold_schema_b_iff U s f) (fold_decided R U s f H)). Qed.
Theorem fold_iff_schema U s f : ctor_correct (fold_check U s f) (fold_schema U s f).
Proof. exact (fold_iff_schema_any current_code U s f (or_introl eq_refl)). Qed.
Theorem fold_out_type_spec U s f : out_type_correct (fold_check U s f) (fold_schema U s f).
Proof. exact (fold_out_type_spec_any current_code U s f (or_introl eq_refl)). Qed.

Theorem reduce_iff_schema_any R U s f :
  variadic_ok R f -> ctor_correct (reduce_check_gen R U s f) (reduce_schema U s f).
Proof. intro H. apply (decided_correct _ _ _ (reduce_schema_b_iff U s f) (reduce_decided R U s f H)). Qed.
Theorem reduce_out_type_spec_any R U s f :
  variadic_ok R f -> out_type_correct (reduce_check_gen R U s f) (reduce_schema U s f).
Proof. intro H. apply (decided_correct _ _ _ (reduce_schema_b_iff U s f) (reduce_decided R U s f H)). Qed.
Theorem reduce_iff_schema U s f : ctor_correct (reduce_check U s f) (reduce_schema U s f).
Proof. exact (reduce_iff_schema_any current_code U s f (or_introl eq_refl)). Qed.
Theorem reduce_out_type_spec U s f : out_type_correct (reduce_check U s f) (reduce_schema U s f).
Proof. exact (reduce_out_type_spec_any current_code U s f (or_introl eq_refl)). Qed.

Theorem repartition_iff_schema_any R s f :
  variadic_ok R f -> ctor_correct (repartition_check_gen R s f) (repartition_schema s f).
Proof. intro H. apply (decided_correct _ _ _ (repartition_schema_b_iff s f) (repartition_decided R s f H)). Qed.
Theorem repartition_out_type_spec_any R s f :
  variadic_ok R f -> out_type_correct (repartition_check_gen R s f) (repartition_schema s f).
Proof. intro H. apply (decided_correct _ _ _ (repartition_schema_b_iff s f) (repartition_decided R s f H)). Qed.
Theorem repartition_iff_schema s f : ctor_correct (repartition_check s f) (repartition_schema s f).
Proof. exact (repartition_iff_schema_any current_code s f (or_introl eq_refl)). Qed.
Theorem repartition_out_type_spec s f : out_type_correct (repartition_check s f) (repartition_schema s f).
Proof. exact (repartition_out_type_spec_any current_code s f (or_introl eq_refl)). Qed.

Theorem writerfunc_iff_schema_any R s f :
  variadic_ok R f -> shard_ok R f ->
  ctor_correct (writerfunc_check_gen R s f) (writerfunc_schema s f).
Proof. intros H1 H2. apply (decided_correct _ _ _ (writerfunc_schema_b_iff s f) (writerfunc_decided R s f H1 H2)). Qed.
Theorem writerfunc_out_type_spec_any R s f :
  variadic_ok R f -> shard_ok R f ->
  out_type_correct (writerfunc_check_gen R s f) (writerfunc_schema s f).
Proof. intros H1 H2. apply (decided_correct _ _ _ (writerfunc_schema_b_iff s f) (writerfunc_decided R s f H1 H2)). Qed.
Theorem writerfunc_iff_schema s f : ctor_correct (writerfunc_check s f) (writerfunc_schema s f).
Proof. exact (writerfunc_iff_schema_any current_code s f (or_introl eq_refl) (or_introl eq_refl)). Qed.
Theorem writerfunc_out_type_spec s f : out_type_correct (writerfunc_check s f) (writerfunc_schema s f).
Proof. exact (writerfunc_out_type_spec_any current_code s f (or_introl eq_refl) (or_introl eq_refl)). Qed.

Theorem readerfunc_iff_schema_any R n f :
  variadic_ok R f -> shard_ok R f -> numout_ok R f ->
  ctor_correct (readerfunc_check_gen R n f) (readerfunc_schema n f).
Proof.
  intros H1 H2 H3.
  apply (decided_correct _ _ _ (readerfunc_schema_b_iff n f) (readerfunc_decided R n f H1 H2 H3)).
Qed.
Theorem readerfunc_out_type_spec_any R n f :
  variadic_ok R f -> shard_ok R f -> numout_ok R f ->
  out_type_correct (readerfunc_check_gen R n f) (readerfunc_schema n f).
Proof.
  intros H1 H2 H3.
  apply (decided_correct _ _ _ (readerfunc_schema_b_iff n f) (readerfunc_decided R n f H1 H2 H3)).
Qed.
Theorem readerfunc_iff_schema n f : ctor_correct (readerfunc_check n f) (readerfunc_schema n f).
Proof.
  exact (readerfunc_iff_schema_any current_code n f (or_introl eq_refl) (or_introl eq_refl) (or_introl eq_refl)).
Qed.
Theorem readerfunc_out_type_spec n f : out_type_correct (readerfunc_check n f) (readerfunc_schema n f).
Proof.
  exact (readerfunc_out_type_spec_any current_code n f (or_introl eq_refl) (or_introl eq_refl) (or_introl eq_refl)).
Qed.

(* ---------------------------------------------------------------- Cogroup, unguarded part *)
Theorem cogroup_accept_iff_schema U ss :
  (exists out, cogroup_check U ss = Accept out) <-> (exists r, cogroup_schema U ss r).
Proof.
  split.
  - intros (out & H). pose proof (cogroup_accept_in_range U ss out H) as Hr.
    apply (cogroup_iff_schema U ss Hr). eauto.
  - intros (r & H). pose proof (cogroup_schema_in_range U ss r H) as Hr.
    apply (cogroup_iff_schema U ss Hr). eauto.
Qed.

Theorem cogroup_out_type_spec_any U ss :
  out_type_correct (cogroup_check U ss) (cogroup_schema U ss).
Proof.
  intros out H. exact (cogroup_out_type_spec U ss (cogroup_accept_in_range U ss out H) out H).
Qed.

(* ---------------------------------------------------------------- Invocation *)
Theorem invocation_iff_schema U params args :
  invocation_check U params args <> FGoPanic /\
  (invocation_check U params args = FOk <-> invocation_schema U params args) /\
  (~ invocation_schema U params args -> invocation_check U params args = FReject).
Proof.
  rewrite invocation_decided. rewrite <- invocation_schema_b_iff.
  destruct (invocation_schema_b U params args); repeat split; try discriminate; auto.
  intro H. exfalso. apply H. reflexivity.
Qed.

(* C13 — executable model of the shard cache (internal/slicecache): the
   all-or-nothing marking of Cache, the per-shard marking of CachePartial, and
   the write-through reader's file protocol (create temp on first read, encode
   every batch, publish on EOF by closing, discard on upstream error). No proofs. *)
From Coq Require Import List ZArith Bool.
Import ListNotations.

Notation row := (list (list Z)) (only parsing).

(* ---- FileShardCache ---- *)

(* NewFileShardCache stats every shard file; RequireAllCached clears all marks
   unless every shard is present *)
Definition require_all (present : list bool) : list bool :=
  if forallb (fun b => b) present then present else map (fun _ => false) present.

Inductive ckind := KCache | KCachePartial.

Definition marks (k : ckind) (present : list bool) : list bool :=
  match k with KCache => require_all present | KCachePartial => present end.

Definition is_cached (k : ckind) (present : list bool) (shard : nat) : bool :=
  nth shard (marks k present) false.

(* ---- writethroughReader ---- *)

(* what the upstream answers to one Read *)
Inductive resp := Rows (l : list (list (list Z))) | EofWith (l : list (list (list Z))) | Fail.

(* file-operation fault oracle: does the next create / write / close fail? *)
Record faults := mkFaults { fcreate : bool; fwrite : list bool; fclose : bool }.

Inductive wstatus := WOk | WEof | WErr.

Record wt := mkWt {
  wcreated : bool;                              (* temp file exists *)
  wtemp : list (list (list Z));                 (* rows encoded into the temp file so far *)
  wvisible : option (list (list (list Z)));     (* published shard file *)
  wwrites : list bool;                          (* remaining write-fault oracle *)
  wdead : bool                                  (* file closed or discarded *)
}.

Definition wt_init (f : faults) (vis : option (list (list (list Z)))) : wt :=
  mkWt false [] vis (fwrite f) false.

(* one Read of the write-through reader: returns delivered rows, status, new state *)
Definition wt_read (f : faults) (s : wt) (r : resp) : list (list (list Z)) * wstatus * wt :=
  if negb (wcreated s) && fcreate f then ([], WErr, s)      (* file.Create failed: nothing read *)
  else
    let s := mkWt true (wtemp s) (wvisible s) (wwrites s) (wdead s) in
    match r with
    | Fail => ([], WErr, mkWt true [] (wvisible s) (wwrites s) true)      (* Discard: temp removed *)
    | Rows l | EofWith l =>
        let wf := match wwrites s with b :: _ => b | [] => false end in
        let rest := tl (wwrites s) in
        if wf then (l, WErr, mkWt true (wtemp s) (wvisible s) rest (wdead s))  (* enc.Write failed *)
        else
          let temp' := wtemp s ++ l in
          match r with
          | EofWith _ =>
              if fclose f then (l, WErr, mkWt true [] (wvisible s) rest true) (* close failed: temp removed *)
              else (l, WEof, mkWt true [] (Some temp') rest true)            (* close = publish *)
          | _ => (l, WOk, mkWt true temp' (wvisible s) rest (wdead s))
          end
    end.

(* reading a script until the consumer stops (after [n] reads), an error or EOF *)
Fixpoint wt_run (f : faults) (s : wt) (script : list resp) (n : nat)
  : list (list (list Z)) * wstatus * wt :=
  match n, script with
  | O, _ | _, [] => ([], WOk, s)
  | S n', r :: rest =>
      let '(l, st, s') := wt_read f s r in
      match st with
      | WOk => let '(l2, st2, s2) := wt_run f s' rest n' in (l ++ l2, st2, s2)
      | _ => (l, st, s')
      end
  end.

Fixpoint script_rows (script : list resp) : list (list (list Z)) :=
  match script with
  | [] => []
  | Rows l :: rest => l ++ script_rows rest
  | EofWith l :: _ => l
  | Fail :: _ => []
  end.

Fixpoint ends_eof (script : list resp) : bool :=
  match script with
  | [] => false
  | EofWith _ :: _ => true
  | Fail :: _ => false
  | Rows _ :: rest => ends_eof rest
  end.

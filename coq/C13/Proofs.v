From Coq Require Import List ZArith Bool Lia.
Import ListNotations.
Require Import BS.C13.Model.

(* ---- Cache is all-or-nothing, CachePartial is per shard ---- *)

Lemma nth_all_false {A} (l : list A) : forall s, nth s (map (fun _ => false) l) false = false.
Proof. induction l as [|x l IH]; intros [|s]; simpl; auto. Qed.

Theorem cache_all_or_nothing present :
  (forall s, s < length present -> is_cached KCache present s = true) \/
  (forall s, is_cached KCache present s = false).
Proof.
  unfold is_cached, marks, require_all.
  destruct (forallb (fun b => b) present) eqn:E.
  - left. intros s Hs. rewrite forallb_forall in E. apply E. apply nth_In. exact Hs.
  - right. intro s. apply nth_all_false.
Qed.

Theorem cache_hit_iff_all_present present s :
  s < length present ->
  (is_cached KCache present s = true <-> forall t, t < length present -> nth t present false = true).
Proof.
  intro Hs. unfold is_cached, marks, require_all.
  destruct (forallb (fun b => b) present) eqn:E.
  - rewrite forallb_forall in E. split.
    + intros _ t Ht. apply E. apply nth_In. exact Ht.
    + intros _. apply E. apply nth_In. exact Hs.
  - split.
    + intro H. rewrite nth_all_false in H. discriminate.
    + intro H. exfalso.
      assert (forallb (fun b => b) present = true).
      { apply forallb_forall. intros b Hb. apply In_nth with (d := false) in Hb as (t & Ht & <-). apply H. exact Ht. }
      congruence.
Qed.

Theorem cachepartial_per_shard present s :
  is_cached KCachePartial present s = nth s present false.
Proof. reflexivity. Qed.

(* ---- the write-through reader: complete or absent ---- *)

(* invariant: the temp file holds exactly the rows delivered so far, and the
   visible file is still the one we started with, until the moment of publishing *)
Lemma wt_run_inv f : forall script n s delivered st s',
  wt_run f s script n = (delivered, st, s') ->
  wdead s = false ->
  (* what is visible afterwards is either what was visible before, or the
     complete shard: everything ever delivered, ending with an EOF response *)
  (wvisible s' = wvisible s \/
   (st = WEof /\ wvisible s' = Some (wtemp s ++ delivered))).
Proof.
  induction script as [|r rest IH]; intros n s delivered st s' H Hd.
  - destruct n; simpl in H; inversion H; subst; left; reflexivity.
  - destruct n as [|n]; simpl in H; [inversion H; subst; left; reflexivity|].
    unfold wt_read in H.
    destruct (negb (wcreated s) && fcreate f) eqn:Ec.
    { inversion H; subst. left. reflexivity. }
    destruct r as [l|l|].
    + (* Rows *)
      cbn [wwrites wtemp wvisible wdead] in H.
      destruct (match wwrites s with b :: _ => b | [] => false end) eqn:Ew.
      * inversion H; subst. left. reflexivity.
      * destruct (wt_run f _ rest n) as [[l2 st2] s2] eqn:Er.
        inversion H; subst. pose proof (IH _ _ _ _ _ Er Hd) as Er'. clear Er. rename Er' into Er.
        cbn [wvisible wtemp] in Er. destruct Er as [Er|[E1 E2]]; [left; exact Er|].
        right. split; [exact E1|]. rewrite E2. rewrite app_assoc. reflexivity.
    + (* EofWith *)
      cbn [wwrites wtemp wvisible wdead] in H.
      destruct (match wwrites s with b :: _ => b | [] => false end) eqn:Ew.
      * inversion H; subst. left. reflexivity.
      * destruct (fclose f); inversion H; subst; cbn [wvisible].
        -- left. reflexivity.
        -- right. split; reflexivity.
    + (* Fail *)
      inversion H; subst. left. reflexivity.
Qed.

(* COMPLETE OR ABSENT: starting without a file, whatever the upstream does,
   wherever the consumer stops reading and whichever file operation fails, a
   visible shard file holds exactly the complete shard *)
Theorem complete_or_absent f script n delivered st s' :
  wt_run f (wt_init f None) script n = (delivered, st, s') ->
  wvisible s' = None \/
  (wvisible s' = Some delivered /\ st = WEof).
Proof.
  intro H. pose proof (wt_run_inv f script n _ _ _ _ H eq_refl) as Hi.
  simpl in Hi. destruct Hi as [Hi|[H1 H2]]; [left; exact Hi|right; split; assumption].
Qed.

(* what was delivered is a prefix of the upstream's rows, and all of them at EOF:
   the cache operator does not change the rows (transparency of the write path) *)
Lemma wt_run_delivers f : forall script n s delivered st s',
  wt_run f s script n = (delivered, st, s') ->
  exists rest, script_rows script = delivered ++ rest /\ (st = WEof -> rest = []).
Proof.
  induction script as [|r rest IH]; intros n s delivered st s' H.
  - destruct n; simpl in H; inversion H; subst; exists []; split; try reflexivity; intros; reflexivity.
  - destruct n as [|n]; simpl in H.
    { inversion H; subst. eexists. split; [reflexivity|discriminate]. }
    unfold wt_read in H.
    destruct (negb (wcreated s) && fcreate f).
    { inversion H; subst. eexists. split; [reflexivity|discriminate]. }
    destruct r as [l|l|]; cbn [wwrites wtemp wvisible wdead] in H.
    + destruct (match wwrites s with b :: _ => b | [] => false end).
      * inversion H; subst. exists (script_rows rest). split; [reflexivity|discriminate].
      * destruct (wt_run f _ rest n) as [[l2 st2] s2] eqn:Er. inversion H; subst.
        apply IH in Er as (rest' & E1 & E2). exists rest'. simpl. rewrite E1, app_assoc. split; [reflexivity|exact E2].
    + destruct (match wwrites s with b :: _ => b | [] => false end).
      * inversion H; subst. exists []. simpl. rewrite app_nil_r. split; [reflexivity|reflexivity].
      * destruct (fclose f); inversion H; subst; exists []; simpl; rewrite app_nil_r; split; try reflexivity; intros; reflexivity.
    + inversion H; subst. exists []. split; [reflexivity|reflexivity].
Qed.

Lemma wt_run_eof_ends f : forall script n s d s',
  wt_run f s script n = (d, WEof, s') -> ends_eof script = true.
Proof.
  induction script as [|r rest IH]; intros n s d s' H.
  - destruct n; simpl in H; inversion H.
  - destruct n as [|n]; simpl in H; [inversion H|].
    unfold wt_read in H. destruct (negb (wcreated s) && fcreate f); [inversion H|].
    destruct r as [l|l|]; cbn [wwrites wtemp wvisible wdead] in H.
    + destruct (match wwrites s with b :: _ => b | [] => false end); [inversion H|].
      destruct (wt_run f _ rest n) as [[l2 st2] s2] eqn:Er. inversion H; subst. simpl. eapply IH. exact Er.
    + reflexivity.
    + inversion H.
Qed.

Theorem published_is_whole_shard f script n delivered st s' :
  wt_run f (wt_init f None) script n = (delivered, st, s') ->
  forall d, wvisible s' = Some d -> d = script_rows script /\ ends_eof script = true.
Proof.
  intros H d Hv. pose proof (complete_or_absent _ _ _ _ _ _ H) as [E|[E1 E2]]; [congruence|].
  rewrite E1 in Hv. inversion Hv; subst d.
  pose proof (wt_run_delivers _ _ _ _ _ _ _ H) as (rest & Er & Hrest).
  rewrite (Hrest E2), app_nil_r in Er. split; [symmetry; exact Er|].
  subst st. eapply wt_run_eof_ends. exact H.
Qed.

(* non-vacuity: a clean run publishes; a failed close or an early stop does not *)
Example publish_example :
  let sc := [Rows [[[1%Z]]]; EofWith [[[2%Z]]]] in
  wvisible (snd (wt_run (mkFaults false [] false) (wt_init (mkFaults false [] false) None) sc 5)) = Some [[[1%Z]]; [[2%Z]]]
  /\ wvisible (snd (wt_run (mkFaults false [] true) (wt_init (mkFaults false [] true) None) sc 5)) = None
  /\ wvisible (snd (wt_run (mkFaults false [] false) (wt_init (mkFaults false [] false) None) sc 1)) = None.
Proof. repeat split; reflexivity. Qed.

(* C13 — theorems about the compile/evaluate model of cached shards (C13/Compile.v) and
   the pins that tie the generated facts it uses to named obligations. *)
From Coq Require Import List ZArith Bool String Lia.
Import ListNotations.
Require Import BS.Gen.C13_params BS.C13.Model BS.C13.Proofs BS.C13.Compile.

(* ================= pins of the generated facts ================= *)

Lemma C13_gen_wt_read_kernel :
  wt_read_kernel =
  ["if r.file == nil";
   "var err error";
   "r.file, err = file.Create(ctx, r.path)";
   "if err != nil"; "return 0, err";
   "r.zw, err = zstd.NewWriter(r.file.Writer(backgroundcontext.Get()))";
   "if err != nil"; "return 0, err";
   "r.enc = sliceio.NewEncodingWriter(r.zw)";
   "n, err := r.Reader.Read(ctx, frame)";
   "if err == nil || err == sliceio.EOF";
   "if writeErr := r.enc.Write(ctx, frame.Slice(0, n)); writeErr != nil";
   "return n, writeErr";
   "if err == sliceio.EOF";
   "closeErr := r.zw.Close()";
   "errors.CleanUpCtx(ctx, r.file.Close, &closeErr)";
   "if closeErr != nil"; "return n, closeErr";
   "r.file.Discard(backgroundcontext.Get())";
   "return n, err"]%string.
Proof. reflexivity. Qed.
Lemma C13_gen_wt_ok_cond : wt_ok_cond = "err == nil || err == sliceio.EOF"%string.
Proof. reflexivity. Qed.
Lemma C13_gen_wt_creates_on_first_read : wt_creates_on_first_read = true.
Proof. reflexivity. Qed.
Lemma C13_gen_wt_branches_on_read_result : wt_branches_on_read_result = true.
Proof. reflexivity. Qed.
Lemma C13_gen_wt_writes_before_return : wt_writes_before_return = true.
Proof. reflexivity. Qed.
Lemma C13_gen_wt_write_error_returned : wt_write_error_returned = true.
Proof. reflexivity. Qed.
Lemma C13_gen_wt_commit_only_at_eof : wt_commit_only_at_eof = true.
Proof. reflexivity. Qed.
Lemma C13_gen_wt_commit_after_write : wt_commit_after_write = true.
Proof. reflexivity. Qed.
Lemma C13_gen_wt_close_error_returned : wt_close_error_returned = true.
Proof. reflexivity. Qed.
Lemma C13_gen_wt_discard_on_error : wt_discard_on_error = true /\ wt_discard_only_on_error = true.
Proof. split; reflexivity. Qed.
Lemma C13_gen_wt_error_branch_never_commits : wt_error_branch_never_commits = true.
Proof. reflexivity. Qed.

Lemma C13_gen_path_format : path_format = "%s-%04d-of-%04d"%string.
Proof. reflexivity. Qed.
Lemma C13_gen_path_kernel :
  path_kernel = ["return fmt.Sprintf(pathFormat, c.prefix, shard, c.numShards)"]%string.
Proof. reflexivity. Qed.
Lemma C13_gen_require_all_kernel :
  require_all_kernel = ["if c == nil"; "c.requireAll = true"; "if !b"; "c.shardIsCached[i] = false"]%string.
Proof. reflexivity. Qed.
Lemma C13_gen_require_all_loops :
  require_all_loops = ["for _, b := range c.shardIsCached"; "for i := range c.shardIsCached"]%string.
Proof. reflexivity. Qed.
Lemma C13_gen_require_all_shape :
  require_all_covers_all_shards = true /\ require_all_tests_missing = true
  /\ require_all_clears_each = true /\ require_all_stops_after_clear = true.
Proof. repeat split; reflexivity. Qed.
Lemma C13_gen_new_cache_mark_kernel :
  new_cache_mark_kernel = ["_, err := file.Stat(ctx, c.path(shard))"; "c.shardIsCached[shard] = err == nil"]%string.
Proof. reflexivity. Qed.
Lemma C13_gen_is_cached_returns : is_cached_returns = ["return false"; "return c.shardIsCached[shard]"]%string.
Proof. reflexivity. Qed.
Lemma C13_gen_cache_reader :
  cache_reader_conds = ["!c.shardIsCached[shard]"; "c.requireAll"]%string
  /\ cache_reader_returns = ["return sliceio.ErrReader(err)"; "return newFileReader(c.path(shard))"]%string.
Proof. split; reflexivity. Qed.
Lemma C13_gen_writethrough_returns :
  writethrough_returns = ["return reader"; "return newWritethroughReader(reader, c.path(shard))"]%string.
Proof. reflexivity. Qed.

Lemma C13_gen_cache_requires_all :
  cache_requires_all = [("Cache", true); ("CachePartial", false); ("ReadCache", true)]%string.
Proof. reflexivity. Qed.
Lemma C13_gen_cache_slice_reader :
  cache_slice_reader = ["return deps[0]"]%string
  /\ read_cache_slice_reader = ["return r.cache.CacheReader(shard)"]%string.
Proof. split; reflexivity. Qed.

Lemma C13_gen_compile_pipeline_loop :
  compile_pipeline_loop = "opIdx := len(slices) - 1; opIdx >= 0; opIdx--"%string.
Proof. reflexivity. Qed.
Lemma C13_gen_compile_cache_kernel :
  compile_cache_kernel =
  ["var shardCache = slicecache.Empty";
   "if c, ok := bigslice.Unwrap(slices[opIdx]).(slicecache.Cacheable); ok";
   "shardCache = c.Cache()";
   "if c.inv.Env.IsWritable()";
   "if shardCache.IsCached(shard)";
   "c.inv.Env.MarkCached(task.Name, opIdx)";
   "if c.inv.Env.IsCached(task.Name, opIdx)";
   "task.Deps = nil"]%string.
Proof. reflexivity. Qed.
Lemma C13_gen_compile_marks : compile_marks_only_if_writable = true /\ compile_marks_from_shard_cache = true.
Proof. split; reflexivity. Qed.
Lemma C13_gen_compile_cached_reads_cache_file :
  compile_cached_reads_cache_file = true /\ compile_cached_ignores_inputs = true /\ compile_cached_skips_rest = true.
Proof. repeat split; reflexivity. Qed.
Lemma C13_gen_compile_cached_drops_deps : compile_cached_drops_deps = true.
Proof. reflexivity. Qed.
Lemma C13_gen_compile_uncached_writes_through :
  compile_uncached_writes_through = true /\ compile_uncached_do_variants = 2%Z.
Proof. split; reflexivity. Qed.
Lemma C13_gen_env_kernels :
  env_iscached_kernel = ["return e.Cached[taskOp{n, opIdx}]"]%string
  /\ env_markcached_kernel = ["if !e.Writable"; "e.Cached[taskOp{n, opIdx}] = true"]%string.
Proof. split; reflexivity. Qed.

(* ================= the write-through reader and its switches ================= *)

(* the switches read from the source select exactly the reader of C13/Model.v *)
Lemma C13_gen_switches_faithful : gen_sw = mkSw false false false.
Proof. reflexivity. Qed.

Lemma wt_read_sw_gen f s r : wt_read_sw gen_sw f s r = wt_read f s r.
Proof.
  rewrite C13_gen_switches_faithful. unfold wt_read_sw, wt_read.
  cbn [sw_error_publishes sw_last_batch_missing sw_write_error_ignored negb].
  destruct (negb (wcreated s) && fcreate f); [reflexivity|].
  destruct r as [l|l|]; cbn [wwrites wtemp wvisible wdead]; try reflexivity;
    rewrite ?andb_true_r;
    destruct (match wwrites s with b :: _ => b | [] => false end); try reflexivity.
Qed.

Lemma wt_run_sw_gen f : forall script n s, wt_run_sw gen_sw f s script n = wt_run f s script n.
Proof.
  induction script as [|r rest IH]; intros [|n] s; try reflexivity.
  cbn [wt_run_sw wt_run]. rewrite wt_read_sw_gen.
  destruct (wt_read f s r) as [[l st] s']. destruct st; try reflexivity. rewrite IH. reflexivity.
Qed.

(* each switch is load-bearing: flipped, a visible file is no longer the complete shard *)
Example wt_error_publishes_refuted :
  let sw := mkSw true false false in
  let sc := [Rows [[[1%Z]]]; Fail] in
  wvisible (snd (wt_run_sw sw no_faults (wt_init no_faults None) sc 5)) = Some [[[1%Z]]]
  /\ ends_eof sc = false.
Proof. split; reflexivity. Qed.
Example wt_last_batch_missing_refuted :
  let sw := mkSw false true false in
  let sc := [Rows [[[1%Z]]]; EofWith [[[2%Z]]]] in
  wvisible (snd (wt_run_sw sw no_faults (wt_init no_faults None) sc 5)) = Some [[[1%Z]]]
  /\ script_rows sc = [[[1%Z]]; [[2%Z]]].
Proof. split; reflexivity. Qed.
Example wt_write_error_ignored_refuted :
  let sw := mkSw false false true in
  let f := mkFaults false [true] false in
  let sc := [Rows [[[1%Z]]]; EofWith [[[2%Z]]]] in
  wvisible (snd (wt_run_sw sw f (wt_init f None) sc 5)) = Some [[[2%Z]]].
Proof. reflexivity. Qed.

(* fault-free and read to the end: everything is delivered and the file is published *)
Lemma script_rows_batches r : script_rows (batches r) = r.
Proof.
  unfold batches. induction r as [|a r IH]; [reflexivity|].
  cbn [map app script_rows]. rewrite IH. reflexivity.
Qed.

Lemma ends_eof_batches r : ends_eof (batches r) = true.
Proof. unfold batches. induction r as [|a r IH]; [reflexivity|exact IH]. Qed.

Lemma wt_run_fault_free : forall r created temp vis,
  wt_run no_faults (mkWt created temp vis [] false) (batches r) (S (List.length r))
  = (r, WEof, mkWt true [] (Some (temp ++ r)) [] true).
Proof.
  induction r as [|a r IH]; intros created temp vis.
  - cbn. unfold wt_read. cbn. rewrite andb_false_r. cbn. rewrite app_nil_r. reflexivity.
  - change (batches (a :: r)) with (Rows [a] :: batches r).
    change (S (List.length (a :: r))) with (S (S (List.length r))).
    cbn [wt_run]. unfold wt_read at 1. cbn [no_faults fcreate wcreated wtemp wvisible wwrites wdead tl].
    rewrite andb_false_r. cbn iota. cbn [wwrites tl].
    rewrite IH. rewrite <- app_assoc. reflexivity.
Qed.

Lemma write_through_fault_free r vis :
  wt_run_sw gen_sw no_faults (wt_init no_faults vis) (batches r) (S (List.length r))
  = (r, WEof, mkWt true [] (Some r) [] true).
Proof. rewrite wt_run_sw_gen. unfold wt_init. cbn [no_faults fwrite]. apply wt_run_fault_free. Qed.

(* with faults, at any stopping point: the shard file is what it was, or the complete shard
   (the theorems of C13/Proofs.v, for the reader selected by the generated switches) *)
Theorem write_stage_complete_or_absent f r n delivered st w :
  wt_run_sw gen_sw f (wt_init f None) (batches r) n = (delivered, st, w) ->
  wvisible w = None \/ (wvisible w = Some r /\ st = WEof).
Proof.
  rewrite wt_run_sw_gen. intro H.
  destruct (complete_or_absent _ _ _ _ _ _ H) as [E|[E1 E2]]; [left; exact E|right].
  split; [|exact E2].
  destruct (published_is_whole_shard _ _ _ _ _ _ H _ E1) as [Hd _].
  rewrite E1, Hd, script_rows_batches. reflexivity.
Qed.

(* ================= marking ================= *)

Lemma marks_of_eq k p : marks_of k p = marks k p.
Proof. destruct k; reflexivity. Qed.

Lemma marked_is_cached cs0 n k cid s :
  marked cs0 n k cid s = is_cached k (present_of cs0 cid n) s.
Proof. unfold marked, is_cached. rewrite marks_of_eq. reflexivity. Qed.

Lemma present_of_length cs cid n : List.length (present_of cs cid n) = n.
Proof. unfold present_of. rewrite map_length, seq_length. reflexivity. Qed.

Lemma present_of_nth cs cid n s : s < n ->
  nth s (present_of cs cid n) false = match cs cid s with Some _ => true | None => false end.
Proof.
  intro Hs. unfold present_of.
  set (f := fun s0 : nat => match cs cid s0 with Some _ => true | None => false end).
  rewrite (nth_indep _ false (f 0)) by (rewrite map_length, seq_length; exact Hs).
  rewrite map_nth, seq_nth by exact Hs. reflexivity.
Qed.

(* CachePartial: a shard is marked iff its file exists *)
Lemma marked_partial cs0 n cid s : s < n ->
  marked cs0 n KCachePartial cid s = match cs0 cid s with Some _ => true | None => false end.
Proof. intro Hs. rewrite marked_is_cached, cachepartial_per_shard. apply present_of_nth. exact Hs. Qed.

(* Cache: a shard is marked iff the files of ALL shards exist *)
Lemma marked_cache cs0 n cid s : s < n ->
  (marked cs0 n KCache cid s = true <-> forall t, t < n -> cs0 cid t <> None).
Proof.
  intro Hs. rewrite marked_is_cached.
  rewrite cache_hit_iff_all_present by (rewrite present_of_length; exact Hs).
  rewrite present_of_length. split; intros H t Ht; specialize (H t Ht).
  - rewrite present_of_nth in H by exact Ht. destruct (cs0 cid t); [discriminate|discriminate H].
  - rewrite present_of_nth by exact Ht. destruct (cs0 cid t); [reflexivity|congruence].
Qed.

Lemma marked_file_exists cs0 n k cid s : s < n ->
  marked cs0 n k cid s = true -> exists x, cs0 cid s = Some x.
Proof.
  intros Hs M. destruct k.
  - pose proof (proj1 (marked_cache cs0 n cid s Hs) M s Hs) as M'. destruct (cs0 cid s) as [x|]; [eauto|congruence].
  - rewrite marked_partial in M by exact Hs. destruct (cs0 cid s) as [x|]; [eauto|discriminate].
Qed.

(* ================= compilation of one shard ================= *)

Section Compile.
  Variable fsem : nat -> nat -> list (list (list Z)) -> list (list (list Z)).
  Variable up_rows : nat -> list (list (list Z)).
  Variable part : nat -> list (list (list Z)) -> list (list (list Z)).
  Variable cs0 : cstate.
  Variable n : nat.

  Notation run_plan := (run_plan fsem).
  Notation ref_ops := (ref_ops fsem).

  (* composing the readers of unmarked operators on top of a plan *)
  Definition step (p : plan) (o : op) : plan :=
    match o with OpFun id => PFun id p | OpCache _ cid => PWrite cid p end.
  Definition wrap (B : list op) (p : plan) : plan := fold_left step B p.

  Lemma any_marked_app A B s :
    any_marked cs0 n (A ++ B) s = any_marked cs0 n A s || any_marked cs0 n B s.
  Proof. unfold any_marked. apply existsb_app. Qed.

  Lemma compile_ops_app s : forall A B acc,
    compile_ops cs0 n s (A ++ B) acc = compile_ops cs0 n s B (compile_ops cs0 n s A acc).
  Proof.
    induction A as [|o A IH]; intros B acc; [reflexivity|].
    cbn [app compile_ops]. destruct o as [id|k cid]; [apply IH|].
    destruct (marked cs0 n k cid s); apply IH.
  Qed.

  (* a task keeps its dependencies iff no cache operator of its pipeline is marked for its shard *)
  Lemma compile_ops_deps s : forall ops acc,
    t_deps (compile_ops cs0 n s ops acc) = t_deps acc && negb (any_marked cs0 n ops s).
  Proof.
    induction ops as [|o ops IH]; intro acc.
    - cbn. rewrite andb_true_r. reflexivity.
    - cbn [compile_ops]. destruct o as [id|k cid].
      + rewrite IH. reflexivity.
      + unfold any_marked. cbn [existsb]. fold (any_marked cs0 n ops s).
        destruct (marked cs0 n k cid s); rewrite IH; cbn [t_deps orb negb].
        * rewrite C13_gen_compile_cached_drops_deps. rewrite andb_false_r. reflexivity.
        * reflexivity.
  Qed.

  Lemma compile_ops_unmarked s : forall B acc,
    any_marked cs0 n B s = false ->
    compile_ops cs0 n s B acc = mkTask (wrap B (t_plan acc)) (t_deps acc).
  Proof.
    induction B as [|o B IH]; intros acc H.
    - destruct acc; reflexivity.
    - unfold any_marked in H. cbn [existsb] in H. apply orb_false_elim in H as [Ho HB].
      cbn [compile_ops]. destruct o as [id|k cid].
      + rewrite IH by exact HB. reflexivity.
      + rewrite Ho. rewrite IH by exact HB.
        destruct C13_gen_compile_uncached_writes_through as [-> _]. reflexivity.
  Qed.

  Lemma compile_ops_marked s k cid B acc :
    marked cs0 n k cid s = true -> any_marked cs0 n B s = false ->
    compile_ops cs0 n s (OpCache k cid :: B) acc = mkTask (wrap B (PCacheRead cid)) false.
  Proof.
    intros M HB. cbn [compile_ops]. rewrite M.
    destruct C13_gen_compile_cached_reads_cache_file as (-> & -> & ->).
    rewrite C13_gen_compile_cached_drops_deps. cbn [andb].
    rewrite compile_ops_unmarked by exact HB. reflexivity.
  Qed.

  (* every pipeline is of one of two forms: no marked operator, or a last marked one *)
  Lemma last_marked_split s : forall ops,
    any_marked cs0 n ops s = false
    \/ exists A k cid B, ops = A ++ OpCache k cid :: B /\ marked cs0 n k cid s = true
                         /\ any_marked cs0 n B s = false.
  Proof.
    induction ops as [|o ops IH]; [left; reflexivity|].
    destruct IH as [H|(A & k & cid & B & -> & M & HB)].
    - destruct o as [id|k cid].
      + left. exact H.
      + destruct (marked cs0 n k cid s) eqn:M.
        * right. exists [], k, cid, ops. repeat split; assumption.
        * left. unfold any_marked. cbn [existsb]. rewrite M. exact H.
    - right. exists (o :: A), k, cid, B. repeat split; assumption.
  Qed.

  (* the compiled task, in the two forms *)
  Lemma compile_shard_unmarked s ops :
    any_marked cs0 n ops s = false ->
    compile_shard cs0 n s ops = mkTask (wrap ops PDeps) true.
  Proof. intro H. unfold compile_shard. rewrite compile_ops_unmarked by exact H. reflexivity. Qed.

  Lemma compile_shard_marked s A k cid B :
    marked cs0 n k cid s = true -> any_marked cs0 n B s = false ->
    compile_shard cs0 n s (A ++ OpCache k cid :: B) = mkTask (wrap B (PCacheRead cid)) false.
  Proof.
    intros M HB. unfold compile_shard. rewrite compile_ops_app. apply compile_ops_marked; assumption.
  Qed.

  Lemma compile_shard_deps s ops :
    t_deps (compile_shard cs0 n s ops) = negb (any_marked cs0 n ops s).
  Proof. unfold compile_shard. rewrite compile_ops_deps. reflexivity. Qed.

  (* ---------------- running a wrapped plan ---------------- *)

  Fixpoint after (B : list op) (s : nat) (r : list (list (list Z))) (cs : cstate) : cstate :=
    match B with
    | [] => cs
    | OpFun id :: B' => after B' s (fsem id s r) cs
    | OpCache _ cid :: B' => after B' s r (cupdate cs cid s (Some r))
    end.

  Fixpoint evs (B : list op) (s : nat) : list event :=
    match B with
    | [] => []
    | OpFun id :: B' => EFun id s :: evs B' s
    | OpCache _ cid :: B' => EWrite cid s :: evs B' s
    end.

  Lemma run_wrap s inp : forall B p cs r1 cs1 ev1,
    run_plan p s inp cs = (r1, cs1, ev1) ->
    run_plan (wrap B p) s inp cs = (ref_ops B s r1, after B s r1 cs1, ev1 ++ evs B s).
  Proof.
    induction B as [|o B IH]; intros p cs r1 cs1 ev1 H.
    - cbn. rewrite app_nil_r. exact H.
    - change (wrap (o :: B) p) with (wrap B (step p o)). destruct o as [id|k cid]; cbn [step].
      + rewrite (IH (PFun id p) cs (fsem id s r1) cs1 (ev1 ++ [EFun id s])).
        * cbn [evs after]. rewrite <- app_assoc. reflexivity.
        * cbn [Compile.run_plan]. rewrite H. reflexivity.
      + rewrite (IH (PWrite cid p) cs r1 (cupdate cs1 cid s (Some r1)) (ev1 ++ [EWrite cid s])).
        * cbn [evs after]. rewrite <- app_assoc. reflexivity.
        * cbn [Compile.run_plan]. rewrite H. rewrite write_through_fault_free. reflexivity.
  Qed.

  Lemma ref_ops_app A B s r : ref_ops (A ++ B) s r = ref_ops B s (ref_ops A s r).
  Proof. unfold Compile.ref_ops. apply fold_left_app. Qed.

  (* what the files of the shard are after the unmarked operators B ran over rows r *)
  Lemma after_other B s : forall r cs c t, t <> s -> after B s r cs c t = cs c t.
  Proof.
    induction B as [|o B IH]; intros r cs c t Ht; [reflexivity|].
    destruct o as [id|k cid]; cbn [after]; rewrite IH by exact Ht; [reflexivity|].
    unfold cupdate. destruct (Nat.eqb_spec t s); [contradiction|]. rewrite andb_false_r. reflexivity.
  Qed.

  Lemma after_not_in B s : forall r cs c, ~ In c (cids B) -> after B s r cs c s = cs c s.
  Proof.
    induction B as [|o B IH]; intros r cs c Hc; [reflexivity|].
    destruct o as [id|k cid]; cbn [after].
    - apply IH. exact Hc.
    - cbn [cids flat_map app] in Hc. rewrite IH by (intro; apply Hc; right; assumption).
      unfold cupdate. destruct (Nat.eqb_spec c cid); [exfalso; apply Hc; left; congruence|reflexivity].
  Qed.

  Lemma cids_app A B : cids (A ++ B) = cids A ++ cids B.
  Proof. unfold cids. apply flat_map_app. Qed.

  Lemma after_at s k cid o : ~ In cid (cids o) -> forall i r cs,
    after (i ++ OpCache k cid :: o) s r cs cid s = Some (ref_ops i s r).
  Proof.
    intros Hn i. induction i as [|x i IH]; intros r cs.
    - cbn [app after]. rewrite after_not_in by exact Hn.
      unfold cupdate. rewrite !Nat.eqb_refl. reflexivity.
    - cbn [app]. destruct x as [id|k' cid']; cbn [after]; rewrite IH; reflexivity.
  Qed.

End Compile.

Lemma in_evs_fun B s id s' : In (EFun id s') (evs B s) <-> s' = s /\ In (OpFun id) B.
Proof.
  induction B as [|o B IH]; [cbn; tauto|].
  destruct o as [id0|k cid]; cbn [evs In]; rewrite IH.
  - split.
    + intros [E|[E1 E2]]; [inversion E; subst; auto|auto].
    + intros [-> [E|E]]; [inversion E; subst; auto|auto].
  - split.
    + intros [E|[E1 E2]]; [discriminate|auto].
    + intros [-> [E|E]]; [discriminate|auto].
Qed.


(* ================= whole runs ================= *)

Section Run.
  Variable fsem : nat -> nat -> list (list (list Z)) -> list (list (list Z)).
  Variable up_rows : nat -> list (list (list Z)).
  Variable part : nat -> list (list (list Z)) -> list (list (list Z)).
  Variable P : program.
  Variable cs0 : cstate.

  Notation n := (p_n P).
  Notation ops := (p_ops P).
  Notation inp := (dep_input up_rows part P).
  Notation run_shard := (run_shard fsem up_rows part P cs0).
  Notation ref_ops := (ref_ops fsem).
  Notation after := (after fsem).

  (* the two forms of a shard's execution *)
  Lemma run_shard_unmarked s cs :
    any_marked cs0 n ops s = false ->
    run_shard s cs = (ref_ops ops s (inp s), after ops s (inp s) cs, evs ops s).
  Proof.
    intro H. unfold Compile.run_shard. rewrite compile_shard_unmarked by exact H. cbn [t_plan t_deps].
    rewrite (run_wrap fsem s (inp s) ops PDeps cs (inp s) cs []) by reflexivity. reflexivity.
  Qed.

  Lemma run_shard_marked s cs A k cid B :
    ops = A ++ OpCache k cid :: B -> marked cs0 n k cid s = true -> any_marked cs0 n B s = false ->
    let x := match cs cid s with Some r => r | None => [] end in
    run_shard s cs = (ref_ops B s x, after B s x cs, ERead cid s :: evs B s).
  Proof.
    intros E M HB x. unfold Compile.run_shard. rewrite E, compile_shard_marked by assumption.
    cbn [t_plan t_deps].
    rewrite (run_wrap fsem s [] B (PCacheRead cid) cs x cs [ERead cid s]) by reflexivity. reflexivity.
  Qed.

  Lemma evs_no_up B s t : ~ In (EUp t) (evs B s).
  Proof. induction B as [|o B IH]; [auto|]. destruct o; cbn [evs In]; intros [E|E]; (discriminate || auto). Qed.

  Lemma run_shard_no_up s cs t : ~ In (EUp t) (snd (run_shard s cs)).
  Proof.
    destruct (last_marked_split cs0 n s ops) as [H|(A & k & cid & B & E & M & HB)].
    - rewrite run_shard_unmarked by exact H. apply evs_no_up.
    - rewrite (run_shard_marked s cs A k cid B E M HB). cbn [snd In].
      intros [F|F]; [discriminate|exact (evs_no_up _ _ _ F)].
  Qed.

  Notation run := (run fsem up_rows part P cs0).

  Lemma run_events :
    snd run = map EUp (filter (up_needed P cs0) (seq 0 (up_range P)))
              ++ flat_map (fun s => snd (run_shard s cs0)) (seq 0 n).
  Proof. reflexivity. Qed.

  Lemma run_rows s : s < n -> nth s (fst (fst run)) [] = fst (fst (run_shard s cs0)).
  Proof.
    intro Hs. unfold Compile.run. cbn [fst].
    set (f := fun s0 => fst (fst (run_shard s0 cs0))).
    rewrite (nth_indep _ [] (f 0)) by (rewrite map_length, seq_length; exact Hs).
    rewrite map_nth, seq_nth by exact Hs. reflexivity.
  Qed.

  Lemma run_files c s : s < n -> snd (fst run) c s = snd (fst (run_shard s cs0)) c s.
  Proof.
    intro Hs. unfold Compile.run. cbn [fst snd].
    destruct (Nat.ltb_spec s n); [reflexivity|lia].
  Qed.

  (* ---------- SKIPS RECOMPUTATION: which upstream tasks are run ---------- *)

  Theorem upstream_executed_iff t :
    In (EUp t) (snd run) <-> t < up_range P /\ up_needed P cs0 t = true.
  Proof.
    rewrite run_events, in_app_iff. split.
    - intros [H|H].
      + apply in_map_iff in H as (t' & E & H). inversion E; subst t'.
        apply filter_In in H as [H1 H2]. apply in_seq in H1. split; [lia|exact H2].
      + apply in_flat_map in H as (s & _ & H). exfalso. exact (run_shard_no_up _ _ _ H).
    - intros [H1 H2]. left. apply in_map. apply filter_In. split; [apply in_seq; lia|exact H2].
  Qed.

  (* narrow dependency: upstream task t is run iff no cache operator is marked for shard t *)
  Theorem cached_shard_skips_upstream t :
    p_dep P = DNarrow ->
    (In (EUp t) (snd run) <-> t < n /\ any_marked cs0 n ops t = false).
  Proof.
    intro D. rewrite upstream_executed_iff. unfold up_range, up_needed. rewrite D.
    rewrite compile_shard_deps. split.
    - intros [H1 H2]. split; [exact H1|]. apply andb_prop in H2 as [_ H2]. apply negb_true_iff in H2. exact H2.
    - intros [H1 H2]. split; [exact H1|]. rewrite H2. apply andb_true_intro. split; [apply Nat.ltb_lt; exact H1|reflexivity].
  Qed.

  (* shuffle dependency: every upstream task is needed as soon as one shard is not cached *)
  Theorem cached_shards_skip_upstream_shuffle t :
    p_dep P = DShuffle ->
    (In (EUp t) (snd run) <-> t < p_nup P /\ exists s, s < n /\ any_marked cs0 n ops s = false).
  Proof.
    intro D. rewrite upstream_executed_iff. unfold up_range, up_needed. rewrite D. split.
    - intros [H1 H2]. split; [exact H1|]. apply andb_prop in H2 as [_ H2].
      apply existsb_exists in H2 as (s & Hs & H2). apply in_seq in Hs.
      rewrite compile_shard_deps in H2. apply negb_true_iff in H2. exists s. split; [lia|exact H2].
    - intros [H1 (s & Hs & H2)]. split; [exact H1|]. apply andb_true_intro. split; [apply Nat.ltb_lt; exact H1|].
      apply existsb_exists. exists s. split; [apply in_seq; lia|]. rewrite compile_shard_deps, H2. reflexivity.
  Qed.

  (* the user functions pipelined below the last marked cache operator are not run *)
  Theorem cached_shard_skips_functions s A k cid B id :
    s < n -> ops = A ++ OpCache k cid :: B -> marked cs0 n k cid s = true -> any_marked cs0 n B s = false ->
    (In (EFun id s) (snd run) <-> In (OpFun id) B).
  Proof.
    intros Hs E M HB. rewrite run_events, in_app_iff. split.
    - intros [H|H].
      + apply in_map_iff in H as (t' & F & _). discriminate F.
      + apply in_flat_map in H as (s' & _ & H).
        destruct (last_marked_split cs0 n s' ops) as [U|(A' & k' & cid' & B' & E' & M' & HB')].
        * rewrite run_shard_unmarked in H by exact U. cbn [snd] in H.
          apply in_evs_fun in H as [<- H]. rewrite E, any_marked_app in U.
          apply orb_false_elim in U as [_ U]. unfold any_marked in U. cbn [existsb] in U. rewrite M in U. discriminate U.
        * rewrite (run_shard_marked s' cs0 A' k' cid' B' E' M' HB') in H. cbn [snd In] in H.
          destruct H as [H|H]; [discriminate|]. apply in_evs_fun in H as [<- H].
          (* both splits are at the last marked operator of shard s: B' = B *)
          assert (B' = B) as ->; [|exact H].
          clear - E E' M M' HB HB'. rewrite E in E'. clear E.
          revert A' E'. induction A as [|a A IH]; intros [|a' A'] E'.
          -- inversion E'. reflexivity.
          -- cbn [app] in E'. inversion E'; subst. rewrite any_marked_app in HB.
             apply orb_false_elim in HB as [_ HB]. unfold any_marked in HB. cbn [existsb] in HB. rewrite M' in HB. discriminate.
          -- cbn [app] in E'. inversion E'; subst. rewrite any_marked_app in HB'.
             apply orb_false_elim in HB' as [_ HB']. unfold any_marked in HB'. cbn [existsb] in HB'. rewrite M in HB'. discriminate.
          -- cbn [app] in E'. inversion E'; subst. apply (IH A'). assumption.
    - intro H. right. apply in_flat_map. exists s. split; [apply in_seq; lia|].
      rewrite (run_shard_marked s cs0 A k cid B E M HB). cbn [snd]. right. apply in_evs_fun. auto.
  Qed.

  Theorem uncached_shard_runs_functions s id :
    s < n -> any_marked cs0 n ops s = false ->
    (In (EFun id s) (snd run) <-> In (OpFun id) ops).
  Proof.
    intros Hs U. rewrite run_events, in_app_iff. split.
    - intros [H|H].
      + apply in_map_iff in H as (t' & F & _). discriminate F.
      + apply in_flat_map in H as (s' & _ & H).
        destruct (last_marked_split cs0 n s' ops) as [U'|(A' & k' & cid' & B' & E' & M' & HB')].
        * rewrite run_shard_unmarked in H by exact U'. apply in_evs_fun in H as [_ H]. exact H.
        * rewrite (run_shard_marked s' cs0 A' k' cid' B' E' M' HB') in H. cbn [snd In] in H.
          destruct H as [H|H]; [discriminate|]. apply in_evs_fun in H as [<- H].
          rewrite E', any_marked_app in U. apply orb_false_elim in U as [_ U].
          unfold any_marked in U. cbn [existsb] in U. rewrite M' in U. discriminate U.
    - intro H. right. apply in_flat_map. exists s. split; [apply in_seq; lia|].
      rewrite run_shard_unmarked by exact U. apply in_evs_fun. auto.
  Qed.

  (* ---------- TRANSPARENT ---------- *)

  Hypothesis Hcons : consistent fsem up_rows part P cs0.

  Theorem cache_transparent s :
    s < n -> nth s (fst (fst run)) [] = ref_shard fsem up_rows part P s.
  Proof.
    intro Hs. rewrite run_rows by exact Hs. unfold ref_shard.
    destruct (last_marked_split cs0 n s ops) as [U|(A & k & cid & B & E & M & HB)].
    - rewrite run_shard_unmarked by exact U. reflexivity.
    - rewrite (run_shard_marked s cs0 A k cid B E M HB). cbn [fst].
      destruct (marked_file_exists cs0 n k cid s Hs M) as [x Hx]. rewrite Hx.
      rewrite (Hcons A k cid B s x E Hs Hx).
      rewrite E, ref_ops_app. reflexivity.
  Qed.

  (* ---------- FILES AFTER A FAULT-FREE COMPLETE RUN ---------- *)

  (* every cache operator that is not itself below a marked one has, for every shard, a
     file holding the complete shard *)
  Theorem cache_files_after_run inner k cid outer s :
    NoDup (cids ops) ->
    ops = inner ++ OpCache k cid :: outer -> s < n -> any_marked cs0 n outer s = false ->
    snd (fst run) cid s = Some (ref_ops inner s (inp s)).
  Proof.
    intros ND E Hs HO. rewrite run_files by exact Hs.
    assert (Hn : ~ In cid (cids outer)).
    { rewrite E, cids_app in ND. cbn [cids flat_map app] in ND.
      apply NoDup_remove_2 in ND. intro F. apply ND. apply in_or_app. right. exact F. }
    destruct (marked cs0 n k cid s) eqn:M.
    - (* the operator is marked: its file was there and is left alone *)
      rewrite (run_shard_marked s cs0 inner k cid outer E M HO). cbn [fst snd].
      rewrite after_not_in by exact Hn.
      destruct (marked_file_exists cs0 n k cid s Hs M) as [x Hx]. rewrite Hx.
      rewrite (Hcons inner k cid outer s x E Hs Hx). reflexivity.
    - (* not marked: it is written through *)
      assert (HCO : any_marked cs0 n (OpCache k cid :: outer) s = false).
      { unfold any_marked. cbn [existsb]. rewrite M. exact HO. }
      destruct (last_marked_split cs0 n s inner) as [U|(A & k' & cid' & B & E' & M' & HB)].
      + rewrite run_shard_unmarked by (rewrite E, any_marked_app, U, HCO; reflexivity).
        cbn [fst snd]. rewrite E. apply after_at. exact Hn.
      + assert (E2 : ops = A ++ OpCache k' cid' :: (B ++ OpCache k cid :: outer)).
        { rewrite E, E', <- app_assoc. reflexivity. }
        assert (HB2 : any_marked cs0 n (B ++ OpCache k cid :: outer) s = false).
        { rewrite any_marked_app, HB, HCO. reflexivity. }
        rewrite (run_shard_marked s cs0 A k' cid' _ E2 M' HB2). cbn [fst snd].
        rewrite after_at by exact Hn.
        destruct (marked_file_exists cs0 n k' cid' s Hs M') as [x Hx]. rewrite Hx.
        rewrite (Hcons A k' cid' _ s x E2 Hs Hx).
        rewrite E', ref_ops_app. reflexivity.
  Qed.

End Run.

(* ================= one cache operator in the pipeline ================= *)

Lemma any_marked_no_cache cs0 n ops s : cids ops = [] -> any_marked cs0 n ops s = false.
Proof.
  induction ops as [|o ops IH]; intro H; [reflexivity|].
  destruct o as [id|k cid]; [exact (IH H)|discriminate H].
Qed.

Lemma any_marked_single cs0 n inner k cid outer s :
  cids inner = [] -> cids outer = [] ->
  any_marked cs0 n (inner ++ OpCache k cid :: outer) s = marked cs0 n k cid s.
Proof.
  intros Hi Ho. rewrite any_marked_app, (any_marked_no_cache _ _ inner) by exact Hi.
  unfold any_marked at 1. cbn [existsb orb]. fold (any_marked cs0 n outer s).
  rewrite (any_marked_no_cache _ _ outer) by exact Ho. apply orb_false_r.
Qed.

Section Single.
  Variable fsem : nat -> nat -> list (list (list Z)) -> list (list (list Z)).
  Variable up_rows : nat -> list (list (list Z)).
  Variable part : nat -> list (list (list Z)) -> list (list (list Z)).
  Variable P : program.
  Variable cs0 : cstate.
  Variable inner outer : list op.
  Variable k : ckind.
  Variable cid : nat.
  Hypothesis Hops : p_ops P = inner ++ OpCache k cid :: outer.
  Hypothesis Hinner : cids inner = [].
  Hypothesis Houter : cids outer = [].

  Notation run := (run fsem up_rows part P cs0).

  (* CachePartial: the upstream shards that are run are exactly the ones without a file *)
  Theorem cachepartial_runs_exactly_uncached t :
    k = KCachePartial -> p_dep P = DNarrow ->
    (In (EUp t) (snd run) <-> t < p_n P /\ cs0 cid t = None).
  Proof.
    intros -> D. rewrite (cached_shard_skips_upstream fsem up_rows part P cs0 t D).
    rewrite Hops, any_marked_single by assumption. split; intros [Ht H]; (split; [exact Ht|]).
    - rewrite marked_partial in H by exact Ht. destruct (cs0 cid t); [discriminate|reflexivity].
    - rewrite marked_partial, H by exact Ht. reflexivity.
  Qed.

  (* Cache: all upstream shards are run, or none; none iff every shard has its file *)
  Theorem cache_runs_all_or_none :
    k = KCache -> p_dep P = DNarrow ->
    ((forall t, t < p_n P -> cs0 cid t <> None) /\ (forall t, ~ In (EUp t) (snd run)))
    \/ ((exists t, t < p_n P /\ cs0 cid t = None) /\ (forall t, t < p_n P -> In (EUp t) (snd run))).
  Proof.
    intros -> D.
    assert (Hall : forall t, t < p_n P -> (marked cs0 (p_n P) KCache cid t = true <-> forall u, u < p_n P -> cs0 cid u <> None))
      by (intros t Ht; apply marked_cache; exact Ht).
    destruct (forallb (fun u => match cs0 cid u with Some _ => true | None => false end) (seq 0 (p_n P))) eqn:F.
    - left. rewrite forallb_forall in F.
      assert (A : forall u, u < p_n P -> cs0 cid u <> None).
      { intros u Hu. specialize (F u). rewrite in_seq in F. specialize (F ltac:(lia)). destruct (cs0 cid u); [discriminate|discriminate F]. }
      split; [exact A|]. intros t H.
      apply (cached_shard_skips_upstream fsem up_rows part P cs0 t D) in H as [Ht H].
      rewrite Hops, any_marked_single in H by assumption.
      rewrite (proj2 (Hall t Ht) A) in H. discriminate H.
    - right.
      assert (E : exists t, t < p_n P /\ cs0 cid t = None).
      { apply Bool.not_true_iff_false in F. rewrite forallb_forall in F.
        destruct (existsb (fun u => match cs0 cid u with Some _ => false | None => true end) (seq 0 (p_n P))) eqn:X.
        - apply existsb_exists in X as (t & Ht & X). apply in_seq in Ht. exists t. split; [lia|]. destruct (cs0 cid t); [discriminate|reflexivity].
        - exfalso. apply F. intros u Hu. destruct (cs0 cid u) eqn:C; [reflexivity|].
          assert (existsb (fun u0 => match cs0 cid u0 with Some _ => false | None => true end) (seq 0 (p_n P)) = true)
            by (apply existsb_exists; exists u; split; [exact Hu|rewrite C; reflexivity]).
          congruence. }
      split; [exact E|]. intros t Ht.
      apply (cached_shard_skips_upstream fsem up_rows part P cs0 t D). split; [exact Ht|].
      rewrite Hops, any_marked_single by assumption.
      destruct (marked cs0 (p_n P) KCache cid t) eqn:M; [|reflexivity].
      destruct E as (u & Hu & C). pose proof (proj1 (Hall t Ht) M u Hu) as M'. congruence.
  Qed.

  (* a marked shard runs only the functions above the cache operator; an unmarked one runs all *)
  Theorem single_cache_functions s id :
    s < p_n P ->
    (In (EFun id s) (snd run) <->
     In (OpFun id) outer \/ (marked cs0 (p_n P) k cid s = false /\ In (OpFun id) inner)).
  Proof.
    intro Hs. destruct (marked cs0 (p_n P) k cid s) eqn:M.
    - rewrite (cached_shard_skips_functions fsem up_rows part P cs0 s inner k cid outer id Hs Hops M
                 (any_marked_no_cache _ _ _ _ Houter)).
      split; [auto|intros [H|[H _]]; [exact H|discriminate H]].
    - rewrite (uncached_shard_runs_functions fsem up_rows part P cs0 s id Hs)
        by (rewrite Hops, any_marked_single by assumption; exact M).
      rewrite Hops, in_app_iff. cbn [In]. split.
      + intros [H|[H|H]]; [right; auto|discriminate H|left; exact H].
      + intros [H|[_ H]]; [right; right; exact H|left; exact H].
  Qed.

  (* after a fault-free complete run every shard has its file, holding the complete shard *)
  Theorem single_cache_files_after_run s :
    consistent fsem up_rows part P cs0 -> s < p_n P ->
    snd (fst run) cid s = Some (ref_ops fsem inner s (dep_input up_rows part P s)).
  Proof.
    intros Hc Hs. apply (cache_files_after_run fsem up_rows part P cs0 Hc inner k cid outer s); try assumption.
    - rewrite Hops, cids_app, Hinner. cbn [cids flat_map app]. fold (cids outer). rewrite Houter.
      constructor; [intros []|constructor].
    - apply any_marked_no_cache. exact Houter.
  Qed.
End Single.

(* ================= non-vacuity ================= *)

Module Examples.
  Local Open Scope Z_scope.
  Definition fsem (id s : nat) (r : list (list (list Z))) : list (list (list Z)) :=
    map (map (map (fun z => z + Z.of_nat id))) r.
  Definition up_rows (t : nat) : list (list (list Z)) := [[[Z.of_nat t]]; [[10 + Z.of_nat t]]].
  Definition part (s : nat) (r : list (list (list Z))) : list (list (list Z)) := r.

  (* Map(+1) ; cache ; Map(+2) over three shards *)
  Definition prog (k : ckind) : program := mkProg 3 3 DNarrow [OpFun 1; OpCache k 7; OpFun 2].

  (* only shard 1 has a (complete) file *)
  Definition one_file : cstate :=
    fun c t => if Nat.eqb c 7 && Nat.eqb t 1 then Some [[[2]]; [[12]]] else None.
  (* every shard has one *)
  Definition all_files : cstate :=
    fun c t => if Nat.eqb c 7 then Some (fsem 1 t (up_rows t)) else None.

  Lemma one_file_consistent k : consistent fsem up_rows part (prog k) one_file.
  Proof.
    intros inner k' cid outer s r E Hs H.
    destruct inner as [|a [|b inner]]; cbn in E; inversion E; subst.
    - unfold one_file in H. cbn in H.
      destruct s as [|[|s]]; cbn in H; try discriminate H. inversion H. reflexivity.
    - exfalso. destruct inner as [|c inner]; cbn in *; [congruence|].
      match goal with Hx : [_] = _ :: _ ++ _ :: _ |- _ => inversion Hx as [[Hc Hx']]; exact (app_cons_not_nil _ _ _ Hx') end.
  Qed.

  (* CachePartial: shard 1 is read from its file, its upstream and its Map(+1) are not run;
     the rows are those of the uncached program; afterwards every shard has its file *)
  Example cachepartial_example :
    let '(outs, cs', ev) := run fsem up_rows part (prog KCachePartial) one_file in
    outs = map (ref_shard fsem up_rows part (prog KCachePartial)) [0; 1; 2]%nat
    /\ ev = [EUp 0; EUp 2;
             EFun 1 0; EWrite 7 0; EFun 2 0;
             ERead 7 1; EFun 2 1;
             EFun 1 2; EWrite 7 2; EFun 2 2]%nat
    /\ map (cs' 7%nat) [0; 1; 2]%nat = [Some [[[1]]; [[11]]]; Some [[[2]]; [[12]]]; Some [[[3]]; [[13]]]].
  Proof. vm_compute. repeat split; reflexivity. Qed.

  (* Cache with one file of three: nothing is served from the cache *)
  Example cache_partial_presence_example :
    let '(_, cs', ev) := run fsem up_rows part (prog KCache) one_file in
    filter (fun e => match e with EUp _ | ERead _ _ => true | _ => false end) ev = [EUp 0; EUp 1; EUp 2]%nat
    /\ map (cs' 7%nat) [0; 1; 2]%nat = [Some [[[1]]; [[11]]]; Some [[[2]]; [[12]]]; Some [[[3]]; [[13]]]].
  Proof. vm_compute. split; reflexivity. Qed.

  (* Cache with all files: no upstream task, no Map(+1), same rows *)
  Example cache_all_present_example :
    let '(outs, _, ev) := run fsem up_rows part (prog KCache) all_files in
    outs = map (ref_shard fsem up_rows part (prog KCache)) [0; 1; 2]%nat
    /\ ev = [ERead 7 0; EFun 2 0; ERead 7 1; EFun 2 1; ERead 7 2; EFun 2 2]%nat.
  Proof. vm_compute. split; reflexivity. Qed.

  (* a file that is NOT the complete shard is served as it is: the hypothesis of
     cache_transparent (consistency with earlier complete runs) is needed *)
  Example inconsistent_file_is_served :
    let bad : cstate := fun c t => if Nat.eqb c 7 && Nat.eqb t 1 then Some [[[2]]] else None in
    nth 1 (fst (fst (run fsem up_rows part (prog KCachePartial) bad))) []
    <> ref_shard fsem up_rows part (prog KCachePartial) 1.
  Proof. vm_compute. discriminate. Qed.

  (* shuffle dependency: one uncached shard needs every upstream task *)
  Example shuffle_example :
    let P := mkProg 3 2 DShuffle [OpCache KCachePartial 7] in
    filter (fun e => match e with EUp _ => true | _ => false end) (snd (run fsem up_rows part P one_file))
    = [EUp 0; EUp 1]%nat.
  Proof. vm_compute. reflexivity. Qed.
End Examples.

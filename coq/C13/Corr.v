(* C13 — judging cache histories: phases over one cache directory. *)
From Coq Require Import List ZArith Bool.
Import ListNotations.
Require Export BS.C01.Corr BS.C13.Model.
Local Open Scope Z_scope.

Inductive fstate := FAbsent | FCorrupt | FRows (l : list (list (list Z))).

Record phase := mkPhase {
  ppre : list bool;        (* shard file present when the phase started *)
  pfault : bool;           (* a file fault was planned *)
  pfired : nat;            (* ... and fired that many times *)
  pread : bool;            (* the cache operator is replaced by ReadCache *)
  pobs : obs;
  pwstreams : list side;   (* callback streams of the WriterFunc just below the cache *)
  pfiles : list fstate     (* shard files after the phase *)
}.

Record case := mkCase {
  cprog : list node; cw : nat; cc : nat; ckindc : ckind; chead : bool; cphases : list phase
}.

(* the reference value of node k (all node values are computed by eval_nodes) *)
Definition value_at (p : list node) (k : nat) : value :=
  nth k (fst (eval_nodes p 0 [] [])) vempty.

Definition streams_of (ws : list side) (s : nat) : list side :=
  filter (fun o => Nat.eqb (sshard o) s) ws.

Definition file_ok (ordered : bool) (expected : list (list (list Z))) (f : fstate) : bool :=
  match f with
  | FAbsent => true
  | FCorrupt => false
  | FRows l => shard_ok ordered expected l
  end.

Definition present (f : fstate) : bool := match f with FAbsent => false | _ => true end.

Definition phase_ok (c : case) (r : result) (wv : value) (ph : phase) : bool :=
  let n := length (vshards wv) in
  let shards := seq 0 n in
  (* 1. every visible shard file holds the complete shard, after every phase *)
  forallb (fun s => file_ok (vordered wv) (nth s (vshards wv) []) (nth s (pfiles ph) FAbsent)) shards
  &&
  (if errc_eqb (oerr (pobs ph)) EOk then
     (* 2. a successful run delivers the reference rows: caching is transparent *)
     ok_rows_with r (pobs ph)
     &&
     (* 3. a shard marked cached is read from its file without running its upstream;
           a shard not marked cached runs it (streams complete unless a Head cuts them) *)
     forallb (fun s =>
        let ss := streams_of (pwstreams ph) s in
        let complete := fun o => shard_ok (vordered wv) (nth s (vshards wv) []) (srows o) && Nat.eqb (seofs o) 1 in
        if pread ph || is_cached (ckindc c) (ppre ph) s
        then Nat.eqb (length ss) 0
        else chead c                                   (* a Head above the cache may stop before (or while) reading *)
             || (existsb complete ss                   (* some attempt ran the upstream to the end ... *)
                 && (Nat.ltb 0 (pfired ph) || forallb complete ss))) shards   (* ... all of them, unless a fault made a task retry *)
     &&
     (* 4. ReadCache needs every shard file (unless a Head never reads it) *)
     (negb (pread ph) || chead c || forallb (fun b => b) (ppre ph))
     &&
     (* 5. after a complete fault-free run every shard has its file *)
     (pfault ph || chead c || pread ph || forallb present (firstn n (pfiles ph) ++ repeat FAbsent (n - length (pfiles ph))))
   else
     (* a failed run is acceptable only when a fault was injected or ReadCache lacked a file *)
     (Nat.ltb 0 (pfired ph)) || (pread ph && negb (forallb (fun b => b) (ppre ph)))).

Definition ok (c : case) : bool :=
  let r := ref (cprog c) in
  let wv := value_at (cprog c) (cw c) in
  forallb (phase_ok c r wv) (cphases c).

Definition violations (cs : list case) : list nat := bad_indices ok cs.
Definition mismatches (cs : list case) : list nat := violations cs.

(* C13 — how the compiler and the evaluator treat cached shards (exec/compile.go,
   internal/slicecache, cache.go): an executable model of

     - the marking of shards at compile time (Cache: all or nothing; CachePartial:
       per shard),
     - the pipeline loop of compiler.compile: a shard marked cached reads the shard
       file, ignores what was pipelined below it and forgets its dependencies; every
       other shard reads through a write-through reader,
     - the evaluator running exactly the tasks reachable through dependencies,
     - the write-through reader with its control-flow switches taken from the
       generated facts (coq/Gen/C13_params.v).

   No proofs in this file (see CompileProofs.v). *)
From Coq Require Import List ZArith Bool String.
Import ListNotations.
Require Import BS.Gen.C13_params BS.C13.Model.

Notation rows := (list (list (list Z))) (only parsing).

(* ---------------- the write-through reader, with switches ---------------- *)

Record wt_sw := mkSw {
  sw_error_publishes : bool;        (* the upstream-error branch closes (= publishes) the file *)
  sw_last_batch_missing : bool;     (* the file is closed before the batch read with EOF is written *)
  sw_write_error_ignored : bool     (* a failed write or close is not returned *)
}.

(* what the Go source says *)
Definition gen_sw : wt_sw :=
  mkSw (negb (wt_commit_only_at_eof && wt_error_branch_never_commits && wt_discard_on_error && wt_discard_only_on_error))
       (negb (wt_writes_before_return && wt_commit_after_write && wt_branches_on_read_result))
       (negb (wt_write_error_returned && wt_close_error_returned && wt_creates_on_first_read)).

Definition wt_read_sw (sw : wt_sw) (f : faults) (s : wt) (r : resp)
  : list (list (list Z)) * wstatus * wt :=
  if negb (wcreated s) && fcreate f then ([], WErr, s)
  else
    let s := mkWt true (wtemp s) (wvisible s) (wwrites s) (wdead s) in
    match r with
    | Fail =>
        if sw_error_publishes sw
        then ([], WErr, mkWt true [] (Some (wtemp s)) (wwrites s) true)    (* a partial file becomes visible *)
        else ([], WErr, mkWt true [] (wvisible s) (wwrites s) true)
    | Rows l | EofWith l =>
        let wf := match wwrites s with b :: _ => b | [] => false end in
        let rest := tl (wwrites s) in
        if wf && negb (sw_write_error_ignored sw)
        then (l, WErr, mkWt true (wtemp s) (wvisible s) rest (wdead s))
        else
          let temp' := if wf then wtemp s else wtemp s ++ l in
          match r with
          | EofWith _ =>
              let published := if sw_last_batch_missing sw then wtemp s else temp' in
              if fclose f && negb (sw_write_error_ignored sw)
              then (l, WErr, mkWt true [] (wvisible s) rest true)
              else (l, WEof, mkWt true [] (Some published) rest true)
          | _ => (l, WOk, mkWt true temp' (wvisible s) rest (wdead s))
          end
    end.

Fixpoint wt_run_sw (sw : wt_sw) (f : faults) (s : wt) (script : list resp) (n : nat)
  : list (list (list Z)) * wstatus * wt :=
  match n, script with
  | O, _ | _, [] => ([], WOk, s)
  | S n', r :: rest =>
      let '(l, st, s') := wt_read_sw sw f s r in
      match st with
      | WOk => let '(l2, st2, s2) := wt_run_sw sw f s' rest n' in (l ++ l2, st2, s2)
      | _ => (l, st, s')
      end
  end.

Definition no_faults : faults := mkFaults false [] false.

(* the upstream delivers its rows one per read, then EOF *)
Definition batches (r : list (list (list Z))) : list resp :=
  map (fun row => Rows [row]) r ++ [EofWith []].

(* ---------------- programs ---------------- *)

Inductive op :=
  | OpFun (id : nat)                    (* a pipelined user-function operator (Map, Filter, ...) *)
  | OpCache (k : ckind) (cid : nat).    (* Cache / CachePartial over the prefix number cid *)

Inductive depkind := DNarrow | DShuffle.

(* one pipelined task set over an upstream task set: [p_ops] innermost operator first,
   the order in which compiler.compile composes the readers (opIdx from len-1 down to 0) *)
Record program := mkProg {
  p_n : nat;                (* shards of the pipelined task set *)
  p_nup : nat;              (* tasks of the upstream task set *)
  p_dep : depkind;
  p_ops : list op
}.

(* contents of the shard files: prefix number, shard -> rows of a complete file *)
Definition cstate := nat -> nat -> option (list (list (list Z))).

Definition cupdate (cs : cstate) (cid s : nat) (v : option (list (list (list Z)))) : cstate :=
  fun c t => if Nat.eqb c cid && Nat.eqb t s then v else cs c t.

(* NewFileShardCache stats every shard file when the slice is built *)
Definition present_of (cs : cstate) (cid n : nat) : list bool :=
  map (fun s => match cs cid s with Some _ => true | None => false end) (seq 0 n).

(* Cache calls RequireAllCached, CachePartial does not (generated table) *)
Definition kind_name (k : ckind) : string :=
  match k with KCache => "Cache" | KCachePartial => "CachePartial" end%string.
Fixpoint assoc_bool (key : string) (l : list (string * bool)) : option bool :=
  match l with
  | [] => None
  | (k, v) :: r => if String.eqb key k then Some v else assoc_bool key r
  end.
Definition marks_of (k : ckind) (present : list bool) : list bool :=
  match assoc_bool (kind_name k) cache_requires_all with
  | Some true => if require_all_covers_all_shards && require_all_tests_missing
                    && require_all_clears_each && require_all_stops_after_clear
                 then require_all present else present
  | _ => present
  end.

(* the driver's marking: compile_marks_from_shard_cache, in a writable environment *)
Definition marked (cs0 : cstate) (n : nat) (k : ckind) (cid s : nat) : bool :=
  compile_marks_from_shard_cache && compile_marks_only_if_writable
  && nth s (marks_of k (present_of cs0 cid n)) false.

(* ---------------- compilation of one shard ---------------- *)

Inductive plan :=
  | PDeps                               (* the readers of the task's dependencies *)
  | PFun (id : nat) (p : plan)
  | PWrite (cid : nat) (p : plan)       (* WritethroughReader over p *)
  | PCacheRead (cid : nat).             (* CacheReader: the shard file *)

Record ctask := mkTask { t_plan : plan; t_deps : bool (* does the task keep its dependencies? *) }.

Fixpoint compile_ops (cs0 : cstate) (n s : nat) (ops : list op) (acc : ctask) : ctask :=
  match ops with
  | [] => acc
  | OpFun id :: r => compile_ops cs0 n s r (mkTask (PFun id (t_plan acc)) (t_deps acc))
  | OpCache k cid :: r =>
      if marked cs0 n k cid s then
        compile_ops cs0 n s r
          (mkTask (if compile_cached_reads_cache_file && compile_cached_ignores_inputs && compile_cached_skips_rest
                   then PCacheRead cid else t_plan acc)
                  (if compile_cached_drops_deps then false else t_deps acc))
      else
        compile_ops cs0 n s r
          (mkTask (if compile_uncached_writes_through then PWrite cid (t_plan acc) else t_plan acc) (t_deps acc))
  end.

Definition compile_shard (cs0 : cstate) (n s : nat) (ops : list op) : ctask :=
  compile_ops cs0 n s ops (mkTask PDeps true).

(* ---------------- execution ---------------- *)

Inductive event :=
  | EUp (t : nat)              (* upstream task t was run *)
  | EFun (id s : nat)          (* user function id was run on shard s *)
  | ERead (cid s : nat)        (* the shard file was read *)
  | EWrite (cid s : nat).      (* a write-through reader ran over the shard *)

Section Exec.
  (* the user functions (deterministic), the rows of the upstream tasks, the partitioner *)
  Variable fsem : nat -> nat -> list (list (list Z)) -> list (list (list Z)).
  Variable up_rows : nat -> list (list (list Z)).
  Variable part : nat -> list (list (list Z)) -> list (list (list Z)).

  Fixpoint run_plan (p : plan) (s : nat) (input : list (list (list Z))) (cs : cstate)
    : list (list (list Z)) * cstate * list event :=
    match p with
    | PDeps => (input, cs, [])
    | PFun id q =>
        let '(r, cs1, ev) := run_plan q s input cs in
        (fsem id s r, cs1, ev ++ [EFun id s])
    | PWrite cid q =>
        let '(r, cs1, ev) := run_plan q s input cs in
        (* fault-free, fully consumed: the reader is read until it reports EOF *)
        let '(d, _, w) := wt_run_sw gen_sw no_faults (wt_init no_faults (cs1 cid s)) (batches r) (S (List.length r)) in
        (d, cupdate cs1 cid s (wvisible w), ev ++ [EWrite cid s])
    | PCacheRead cid =>
        (match cs cid s with Some r => r | None => [] end, cs, [ERead cid s])
    end.

  Definition dep_input (P : program) (s : nat) : list (list (list Z)) :=
    match p_dep P with
    | DNarrow => up_rows s
    | DShuffle => flat_map (fun t => part s (up_rows t)) (seq 0 (p_nup P))
    end.

  (* a task without dependencies gets no dependency readers *)
  Definition run_shard (P : program) (cs0 : cstate) (s : nat) (cs : cstate)
    : list (list (list Z)) * cstate * list event :=
    let t := compile_shard cs0 (p_n P) s (p_ops P) in
    run_plan (t_plan t) s (if t_deps t then dep_input P s else []) cs.

  (* the evaluator runs the tasks reachable through dependencies from the root tasks *)
  Definition up_needed (P : program) (cs0 : cstate) (t : nat) : bool :=
    match p_dep P with
    | DNarrow => Nat.ltb t (p_n P) && t_deps (compile_shard cs0 (p_n P) t (p_ops P))
    | DShuffle => Nat.ltb t (p_nup P)
                  && existsb (fun s => t_deps (compile_shard cs0 (p_n P) s (p_ops P))) (seq 0 (p_n P))
    end.

  Definition up_range (P : program) : nat :=
    match p_dep P with DNarrow => p_n P | DShuffle => p_nup P end.

  (* a whole run against the cache state cs0: rows per shard, cache state afterwards,
     events.  The tasks of different shards touch different files (the shard number is part
     of the path, path_format): each task is run against the files of its own shard as they
     were when the run began, and leaves its own shard's files. *)
  Definition run (P : program) (cs0 : cstate)
    : list (list (list (list Z))) * cstate * list event :=
    let ups := filter (up_needed P cs0) (seq 0 (up_range P)) in
    let res := fun s => run_shard P cs0 s cs0 in
    (map (fun s => fst (fst (res s))) (seq 0 (p_n P)),
     (fun c t => if Nat.ltb t (p_n P) then snd (fst (res t)) c t else cs0 c t),
     map EUp ups ++ flat_map (fun s => snd (res s)) (seq 0 (p_n P))).

  (* ---------------- the reference: no cache at all ---------------- *)

  Definition ref_ops (ops : list op) (s : nat) (input : list (list (list Z))) : list (list (list Z)) :=
    fold_left (fun r o => match o with OpFun id => fsem id s r | OpCache _ _ => r end) ops input.

  Definition ref_shard (P : program) (s : nat) : list (list (list Z)) :=
    ref_ops (p_ops P) s (dep_input P s).

  (* a cache state consistent with earlier complete runs: every shard file holds the rows
     of its shard at the cache operator *)
  Definition consistent (P : program) (cs : cstate) : Prop :=
    forall inner k cid outer s r,
      p_ops P = inner ++ OpCache k cid :: outer -> s < p_n P ->
      cs cid s = Some r -> r = ref_ops inner s (dep_input P s).

End Exec.

(* is some cache operator of [ops] marked for shard s? *)
Definition any_marked (cs0 : cstate) (n : nat) (ops : list op) (s : nat) : bool :=
  existsb (fun o => match o with OpCache k cid => marked cs0 n k cid s | OpFun _ => false end) ops.

Definition cids (ops : list op) : list nat :=
  flat_map (fun o => match o with OpCache _ cid => [cid] | OpFun _ => [] end) ops.

(* C11 — executable model of frame.Frame views (frame/frame.go).
   No proofs here: the model must still evaluate when a proof is broken.

   Storage: a heap is a list of allocations; an allocation is a list of columns
   (the underlying Go arrays, all of the same physical length).  A frame is a
   view {allocation; off; len; cap; prefix} exactly as the Go struct
   {data; off; len; cap; prefix}.  Cell values are Z (the harness maps every Go
   column type injectively and order-preservingly onto Z, zero value -> 0).
   Go panics are the explicit result [Panic]. *)
From Coq Require Import List ZArith Lia Bool.
Import ListNotations.
Local Open Scope Z_scope.

Inductive res (A : Type) : Type := Ok (a : A) | Panic.
Arguments Ok {A} a.
Arguments Panic {A}.

Notation col := (list Z) (only parsing).
Notation alloc := (list (list Z)) (only parsing).
Notation heap := (list (list (list Z))) (only parsing).

Record frame := mkF {
  fnil : bool;      (* Frame{}: data == nil (IsZero) *)
  fa : nat;         (* allocation index *)
  foff : nat;
  flen : nat;
  fcap : nat;
  fpre : nat        (* the Go field prefix = Prefix()-1 *)
}.

Definition fzero : frame := mkF true 0 0 0 0 0.

(* ---- list helpers ---- *)
Definition sub {A} (l : list A) (off len : nat) : list A := firstn len (skipn off l).

(* overwrite l[off .. off+length vals) with vals (memmove: vals were read first) *)
Definition write {A} (l : list A) (off : nat) (vals : list A) : list A :=
  firstn off l ++ vals ++ skipn (off + length vals) l.

Definition upd {A} (l : list A) (i : nat) (x : A) : list A :=
  firstn i l ++ x :: skipn (S i) l.

Definition get_alloc (h : heap) (a : nat) : alloc := nth a h [].
Definition ncols (h : heap) (f : frame) : nat := if fnil f then 0%nat else length (get_alloc h (fa f)).
Definition phys (h : heap) (a : nat) : nat :=
  match get_alloc h a with [] => 0%nat | c :: _ => length c end.

(* the rows of a view, column-wise *)
Definition view (h : heap) (f : frame) : list col :=
  map (fun c => sub c (foff f) (flen f)) (get_alloc h (fa f)).

(* ---- frame.Make(types, len, cap): fresh zeroed allocation ---- *)
Definition make (h : heap) (nc len cap pre : nat) : heap * frame :=
  (h ++ [repeat (repeat 0 cap) nc], mkF false (length h) 0 len cap pre).

(* ---- frame.Slices(cols...) with len = cap = physical length ---- *)
Definition slices (h : heap) (cs : list col) : heap * frame :=
  let n := match cs with [] => 0%nat | c :: _ => length c end in
  (h ++ [cs], mkF false (length h) 0 n n 0).

(* ---- frame.Values(cols): the columns are given with their own capacities (cells beyond
        the length are the zero value); the frame's capacity is the SMALLEST of them, so
        that no view can reach past the end of a column ---- *)
Definition values (h : heap) (cs : list col) (extra : list nat) : heap * frame :=
  let n := match cs with [] => 0%nat | c :: _ => length c end in
  let a := map (fun ce => fst ce ++ repeat 0 (snd ce)) (combine cs extra) in
  let spare := fold_right Nat.min (hd 0%nat extra) extra in
  (h ++ [a], mkF false (length h) 0 n (n + spare) 0).

(* ---- (Frame).Slice(i, j), frame.go:245 ---- *)
Definition slice (f : frame) (i j : Z) : res frame :=
  if (i <? 0) || (j <? i) || (j >? Z.of_nat (fcap f)) then Panic
  else Ok (mkF (fnil f) (fa f) (foff f + Z.to_nat i) (Z.to_nat (j - i)) (fcap f - Z.to_nat i) (fpre f)).

(* ---- frame.Copy(dst, src), frame.go:166 ----
   Compatible() is decided by column types, which the model does not carry; the
   harness only copies between frames of one type signature (same ncols).
   Zero-column quirk kept: the fast path returns 1, the loop path returns 0. *)
Definition copy (h : heap) (dst src : frame) : heap * nat :=
  if (Nat.eqb (flen dst) 0) || (Nat.eqb (flen src) 0) then (h, 0%nat)
  else
    let n := Nat.min (flen dst) (flen src) in
    let sa := get_alloc h (fa src) in
    let da := get_alloc h (fa dst) in
    let vals := map (fun c => sub c (foff src) n) sa in
    let da' := map (fun cv => write (fst cv) (foff dst) (snd cv)) (combine da vals) in
    let nret := match da with
                | [] => if Nat.eqb (flen dst) 1 && Nat.eqb (flen src) 1 then 1%nat else 0%nat
                | _ => n end in
    (upd h (fa dst) da', nret).

(* ---- capacity loop of (Frame).grow, frame.go:466-475 (fuelled) ---- *)
Fixpoint grow_cap (fuel : nat) (m i0 i1 : nat) : nat :=
  match fuel with
  | O => m
  | S k => if (m <? i1)%nat
           then grow_cap k (if (i0 <? 1024)%nat then m + m else m + m / 4)%nat i0 i1
           else m
  end.

(* ---- (Frame).grow(need), frame.go:452 ---- *)
Definition grow (h : heap) (f : frame) (need : nat) : heap * frame * nat * nat :=
  let i0 := flen f in
  let i1 := (i0 + need)%nat in
  if (i1 <=? fcap f)%nat then
    (h, mkF (fnil f) (fa f) (foff f) i1 (fcap f) (fpre f), i0, i1)
  else
    let m := if Nat.eqb (fcap f) 0 then need else grow_cap (S i1) (fcap f) i0 i1 in
    (* g := Make(f, i1, m); Copy(g, f) *)
    let '(h1, g) := make h (ncols h f) i1 m (fpre f) in
    let '(h2, _) := copy h1 g f in
    (h2, g, i0, i1).

(* ---- frame.AppendFrame(dst, src), frame.go:204 ---- *)
Definition append_frame (h : heap) (dst src : frame) : heap * frame :=
  if fnil dst then
    let '(h1, d) := make h (ncols h src) (flen src) (flen src) (fpre src) in
    let '(h2, _) := copy h1 (mkF false (fa d) 0 (flen src) (flen src) (fpre d)) src in
    (h2, d)
  else
    let '(h1, d, i0, i1) := grow h dst (flen src) in
    (* Copy(dst.Slice(i0, i1), src) *)
    let s := mkF (fnil d) (fa d) (foff d + i0) (i1 - i0) (fcap d - i0) (fpre d) in
    let '(h2, _) := copy h1 s src in
    (h2, d).

(* ---- (Frame).Grow / Ensure, frame.go:259-274 ---- *)
Definition grow_pub (h : heap) (f : frame) (n : nat) : heap * frame :=
  let '(h1, g, _, _) := grow h f n in (h1, g).

Definition ensure (h : heap) (f : frame) (n : nat) : heap * frame :=
  if Nat.eqb (flen f) n then (h, f)
  else if (n <=? fcap f)%nat then
    (h, mkF (fnil f) (fa f) (foff f) n (fcap f) (fpre f))
  else grow_pub h f (n - flen f).

(* ---- (Frame).Swap(i, j), frame.go:353 (after the fix: i+off, j+off) ---- *)
Definition swap_col (c : col) (i j : nat) : col :=
  let x := nth i c 0 in
  let y := nth j c 0 in
  upd (upd c i y) j x.

Definition swap (h : heap) (f : frame) (i j : nat) : heap :=
  upd h (fa f) (map (fun c => swap_col c (foff f + i) (foff f + j)) (get_alloc h (fa f))).

(* ---- (Frame).Zero(), frame.go:360 ---- *)
Definition zero (h : heap) (f : frame) : heap :=
  upd h (fa f) (map (fun c => write c (foff f) (repeat 0 (flen f))) (get_alloc h (fa f))).

(* ---- (Frame).Less(i, j), frame.go:374: lexicographic on columns 0..prefix ---- *)
Fixpoint less_cols (cs : list col) (n : nat) (i j : nat) : bool :=
  match cs, n with
  | c :: rest, S k =>
      let a := nth i c 0 in
      let b := nth j c 0 in
      if a <? b then true else if b <? a then false else less_cols rest k i j
  | c :: _, O => nth i c 0 <? nth j c 0
  | [], _ => false
  end.

Definition less (h : heap) (f : frame) (i j : nat) : bool :=
  less_cols (get_alloc h (fa f)) (fpre f) (foff f + i) (foff f + j).

(* the key (prefix columns) of row i of a view *)
Definition key (h : heap) (f : frame) (i : nat) : list Z :=
  map (fun c => nth (foff f + i) c 0) (firstn (S (fpre f)) (get_alloc h (fa f))).

(* a whole row *)
Definition row (h : heap) (f : frame) (i : nat) : list Z :=
  map (fun c => nth (foff f + i) c 0) (get_alloc h (fa f)).

(* ---- (Frame).Index(col, i) ---- *)
Definition index (h : heap) (f : frame) (c i : nat) : Z :=
  nth (foff f + i) (nth c (get_alloc h (fa f)) []) 0.

(* ---- (Frame).Encode(col) / Decode(col): rows [off, off+len) of one column ---- *)
Definition encode (h : heap) (f : frame) (c : nat) : list Z :=
  sub (nth c (get_alloc h (fa f)) []) (foff f) (flen f).

Definition decode (h : heap) (f : frame) (c : nat) (vals : list Z) : heap :=
  let a := get_alloc h (fa f) in
  upd h (fa f) (upd a c (write (nth c a []) (foff f) (firstn (flen f) vals))).

(* ---- (Frame).Prefixed(p), frame.go:343 ---- *)
Definition prefixed (h : heap) (f : frame) (p : Z) : res frame :=
  if (p >? Z.of_nat (ncols h f)) || (p <? 0) then Panic
  else Ok (mkF (fnil f) (fa f) (foff f) (flen f) (fcap f) (Z.to_nat (p - 1))).

(* ================= operation sequences (for the correspondence) ================= *)

Inductive op :=
| OSlices (cs : list col)               (* frame.Slices: new allocation, new pool entry *)
| OMake (nc len cap : nat)
| OValues (cs : list col) (extra : list nat) (* frame.Values over columns with spare capacity extra[c] *)
| OSlice (f : nat) (i j : Z)            (* pool index; new pool entry unless panic *)
| OCopy (dst src : nat)
| OAppend (dst : option nat) (src : nat) (* None = the zero Frame{} *)
| OGrow (f n : nat)
| OEnsure (f n : nat)
| OSwap (f i j : nat)
| OZero (f : nat)
| OLess (f i j : nat)
| OIndex (f c i : nat)
| OEncode (f c : nat)
| ODecode (f c : nat) (vals : list Z)
| OPrefixed (f : nat) (p : Z)
| OSort (f : nat).                     (* sort.Sort(frame): judged in Corr.v, the order among equal keys is not fixed *)

(* what an operation reports *)
Inductive out :=
| RUnit
| RPanic
| RNum (z : Z)
| RBool (b : bool)
| RVals (l : list Z)
| RFrame (a off len cap pre : nat).    (* the new pool entry *)

Record state := mkS { sheap : heap; spool : list frame }.

Definition getf (s : state) (i : nat) : frame := nth i (spool s) fzero.
Definition rframe (f : frame) : out := RFrame (fa f) (foff f) (flen f) (fcap f) (fpre f).
Definition push (h : heap) (s : state) (f : frame) : state * out :=
  (mkS h (spool s ++ [f]), rframe f).

Definition step (s : state) (o : op) : state * out :=
  let h := sheap s in
  match o with
  | OSlices cs => let '(h1, f) := slices h cs in push h1 s f
  | OMake nc len cap => let '(h1, f) := make h nc len cap 0 in push h1 s f
  | OValues cs extra => let '(h1, f) := values h cs extra in push h1 s f
  | OSlice f i j =>
      match slice (getf s f) i j with Ok g => push h s g | Panic => (s, RPanic) end
  | OCopy d r => let '(h1, n) := copy h (getf s d) (getf s r) in (mkS h1 (spool s), RNum (Z.of_nat n))
  | OAppend d r =>
      let df := match d with Some i => getf s i | None => fzero end in
      let '(h1, g) := append_frame h df (getf s r) in push h1 s g
  | OGrow f n => let '(h1, g) := grow_pub h (getf s f) n in push h1 s g
  | OEnsure f n => let '(h1, g) := ensure h (getf s f) n in push h1 s g
  | OSwap f i j => (mkS (swap h (getf s f) i j) (spool s), RUnit)
  | OZero f => (mkS (zero h (getf s f)) (spool s), RUnit)
  | OLess f i j => (s, RBool (less h (getf s f) i j))
  | OIndex f c i => (s, RNum (index h (getf s f) c i))
  | OEncode f c => (s, RVals (encode h (getf s f) c))
  | ODecode f c vals => (mkS (decode h (getf s f) c vals) (spool s), RUnit)
  | OPrefixed f p =>
      match prefixed h (getf s f) p with Ok g => push h s g | Panic => (s, RPanic) end
  | OSort _ => (s, RUnit)   (* see Corr.sort_ok: the resulting heap is taken from the observation *)
  end.

Definition init : state := mkS [] [].

(* C11 — proofs: every frame operation on a view reads and writes exactly the
   view's rows.  Statements are about cells of the whole heap, so "leaves all
   other rows of the underlying storage unchanged" is literal. *)
From Coq Require Import List ZArith Lia Bool Permutation.
Import ListNotations.
Require Import BS.Common.Util BS.C11.Model BS.C11.Lists.
Local Open Scope nat_scope.

Definition cell (h : heap) (a c i : nat) : Z := nth i (nth c (nth a h []) []) 0%Z.

(* a view lies inside its allocation *)
Definition wf (h : heap) (f : frame) : Prop :=
  fa f < length h /\ flen f <= fcap f /\
  forall c, c < length (get_alloc h (fa f)) -> foff f + fcap f <= length (nth c (get_alloc h (fa f)) []).

Definition inview (f : frame) (a i : nat) : Prop := a = fa f /\ foff f <= i < foff f + flen f.

Definition same_shape (h h' : heap) : Prop :=
  length h' = length h /\
  (forall a, length (nth a h' []) = length (nth a h [])) /\
  (forall a c, length (nth c (nth a h' []) []) = length (nth c (nth a h []) [])).

(* ---- updating one allocation column-wise ---- *)
Lemma nth_map_in {A B} (g : A -> B) l n da db : n < length l -> nth n (map g l) db = g (nth n l da).
Proof. intro H. rewrite (nth_indep _ db (g da)) by (rewrite map_length; exact H). apply map_nth. Qed.

Lemma cell_upd_map h a (g : col -> col) a' c k :
  a < length h ->
  cell (upd h a (map g (nth a h []))) a' c k =
  if Nat.eqb a' a
  then (if c <? length (nth a h []) then nth k (g (nth c (nth a h []) [])) 0%Z else 0%Z)
  else cell h a' c k.
Proof.
  intro Ha. unfold cell. rewrite nth_upd by exact Ha.
  destruct (Nat.eqb_spec a' a) as [->|Hne]; [|reflexivity].
  destruct (Nat.ltb_spec c (length (nth a h []))) as [Hc|Hc].
  - rewrite (nth_map_in g _ _ [] []) by exact Hc. reflexivity.
  - rewrite (nth_overflow (map g (nth a h []))) by (rewrite map_length; exact Hc). destruct k; reflexivity.
Qed.

Lemma shape_upd_map h a (g : col -> col) :
  a < length h -> (forall c, length (g c) = length c) ->
  same_shape h (upd h a (map g (nth a h []))).
Proof.
  intros Ha Hg. split; [apply length_upd; exact Ha|]. split.
  - intro a'. rewrite nth_upd by exact Ha. destruct (Nat.eqb_spec a' a) as [->|]; [apply map_length|reflexivity].
  - intros a' c. rewrite nth_upd by exact Ha. destruct (Nat.eqb_spec a' a) as [->|]; [|reflexivity].
    destruct (Nat.lt_ge_cases c (length (nth a h []))) as [Hc|Hc].
    + rewrite (nth_map_in g _ _ [] []) by exact Hc. apply Hg.
    + rewrite !nth_overflow; [reflexivity|exact Hc|rewrite map_length; exact Hc].
Qed.

(* ================= Swap ================= *)

Lemma length_swap_col c i j : i < length c -> j < length c -> length (swap_col c i j) = length c.
Proof. intros Hi Hj. unfold swap_col. rewrite !length_upd; auto. rewrite length_upd; auto. Qed.

Lemma nth_swap_col c i j k : i < length c -> j < length c ->
  nth k (swap_col c i j) 0%Z =
  if Nat.eqb k j then nth i c 0%Z else if Nat.eqb k i then nth j c 0%Z else nth k c 0%Z.
Proof.
  intros Hi Hj. unfold swap_col. rewrite nth_upd by (rewrite length_upd; auto).
  destruct (Nat.eqb k j); [reflexivity|]. rewrite nth_upd by auto. reflexivity.
Qed.

Theorem swap_cells h f i j a c k :
  wf h f -> i < flen f -> j < flen f ->
  cell (swap h f i j) a c k =
  if Nat.eqb a (fa f) && (c <? length (get_alloc h (fa f)))
  then (if Nat.eqb k (foff f + j) then cell h a c (foff f + i)
        else if Nat.eqb k (foff f + i) then cell h a c (foff f + j) else cell h a c k)
  else cell h a c k.
Proof.
  intros (Ha & Hlc & Hphys) Hi Hj. unfold swap, get_alloc in *. rewrite cell_upd_map by exact Ha.
  destruct (Nat.eqb_spec a (fa f)) as [->|]; [|reflexivity]. cbn [andb].
  destruct (Nat.ltb_spec c (length (nth (fa f) h []))) as [Hc|Hc].
  - specialize (Hphys c Hc). rewrite nth_swap_col by lia. reflexivity.
  - unfold cell. rewrite (nth_overflow (nth (fa f) h [])) by exact Hc. destruct k; reflexivity.
Qed.

Theorem swap_frame_condition h f i j a c k :
  wf h f -> i < flen f -> j < flen f -> ~ inview f a k ->
  cell (swap h f i j) a c k = cell h a c k.
Proof.
  intros Hwf Hi Hj Hout. rewrite swap_cells by assumption.
  destruct (Nat.eqb_spec a (fa f)) as [Ea|]; [|reflexivity]. simpl.
  destruct (c <? _); [|reflexivity].
  destruct (Nat.eqb_spec k (foff f + j)); [exfalso; apply Hout; split; [exact Ea|lia]|].
  destruct (Nat.eqb_spec k (foff f + i)); [exfalso; apply Hout; split; [exact Ea|lia]|]. reflexivity.
Qed.

Theorem swap_shape h f i j : wf h f -> i < flen f -> j < flen f -> same_shape h (swap h f i j).
Proof.
  intros (Ha & Hlc & Hphys) Hi Hj. unfold swap, get_alloc in *.
  split; [apply length_upd; exact Ha|]. split.
  - intro a'. rewrite nth_upd by exact Ha. destruct (Nat.eqb_spec a' (fa f)) as [->|]; [apply map_length|reflexivity].
  - intros a' c. rewrite nth_upd by exact Ha. destruct (Nat.eqb_spec a' (fa f)) as [->|]; [|reflexivity].
    destruct (Nat.lt_ge_cases c (length (nth (fa f) h []))) as [Hc|Hc].
    + rewrite (nth_map_in _ _ _ [] []) by exact Hc. specialize (Hphys c Hc). apply length_swap_col; lia.
    + rewrite !nth_overflow; [reflexivity|exact Hc|rewrite map_length; exact Hc].
Qed.

(* ================= Zero ================= *)

Theorem zero_cells h f a c k :
  wf h f ->
  cell (zero h f) a c k =
  if Nat.eqb a (fa f) && (c <? length (get_alloc h (fa f))) && (foff f <=? k) && (k <? foff f + flen f)
  then 0%Z else cell h a c k.
Proof.
  intros (Ha & Hlc & Hphys). unfold zero, get_alloc in *. rewrite cell_upd_map by exact Ha.
  destruct (Nat.eqb_spec a (fa f)) as [->|]; [|reflexivity]. simpl.
  destruct (Nat.ltb_spec c (length (nth (fa f) h []))) as [Hc|Hc]; simpl.
  - specialize (Hphys c Hc). rewrite nth_write by (rewrite repeat_length; lia). rewrite repeat_length.
    destruct ((foff f <=? k) && (k <? foff f + flen f)) eqn:E; [|reflexivity].
    apply nth_repeat.
  - unfold cell. rewrite (nth_overflow (nth (fa f) h [])) by exact Hc. destruct k; reflexivity.
Qed.

Theorem zero_frame_condition h f a c k :
  wf h f -> ~ inview f a k -> cell (zero h f) a c k = cell h a c k.
Proof.
  intros Hwf Hout. rewrite zero_cells by exact Hwf.
  destruct (Nat.eqb_spec a (fa f)) as [Ea|]; [|reflexivity]. simpl.
  destruct (c <? _); [|reflexivity]. simpl.
  destruct (Nat.leb_spec (foff f) k); [|reflexivity]. simpl.
  destruct (Nat.ltb_spec k (foff f + flen f)); [|reflexivity].
  exfalso. apply Hout. split; [exact Ea|lia].
Qed.

Theorem zero_inside h f c k :
  wf h f -> k < flen f -> cell (zero h f) (fa f) c (foff f + k) = 0%Z.
Proof.
  intros Hwf Hk. rewrite zero_cells by exact Hwf. rewrite Nat.eqb_refl. simpl.
  destruct (Nat.ltb_spec c (length (get_alloc h (fa f)))) as [Hc|Hc]; simpl.
  - destruct (Nat.leb_spec (foff f) (foff f + k)); [|lia]. simpl.
    destruct (Nat.ltb_spec (foff f + k) (foff f + flen f)); [reflexivity|lia].
  - unfold cell, get_alloc in *. rewrite (nth_overflow (nth (fa f) h [])) by exact Hc. destruct (foff f + k); reflexivity.
Qed.

(* ================= Copy ================= *)

Lemma nth_combine_map {A B C} (g : A * B -> C) (la : list A) (lb : list B) n da db dc :
  n < length la -> length la = length lb ->
  nth n (map g (combine la lb)) dc = g (nth n la da, nth n lb db).
Proof.
  intros Ha Hb. rewrite (nth_map_in g _ _ (da, db) dc) by (rewrite combine_length; lia).
  rewrite combine_nth by assumption. reflexivity.
Qed.

(* columns of both frames have the same count: frame.Compatible *)
Definition compatible (h : heap) (d s : frame) : Prop :=
  length (get_alloc h (fa d)) = length (get_alloc h (fa s)).

Theorem copy_cells h d s a c k :
  wf h d -> wf h s -> compatible h d s ->
  let n := Nat.min (flen d) (flen s) in
  cell (fst (copy h d s)) a c k =
  if Nat.eqb a (fa d) && (c <? length (get_alloc h (fa d))) && (foff d <=? k) && (k <? foff d + n)
  then cell h (fa s) c (foff s + (k - foff d)) else cell h a c k.
Proof.
  intros (Ha & Hlc & Hphys) (Has & Hlcs & Hphyss) Hcompat n. unfold copy, compatible, get_alloc in *.
  destruct (Nat.eqb_spec (flen d) 0) as [E0|E0]; simpl.
  { subst n. rewrite E0. simpl. rewrite Nat.add_0_r.
    destruct (_ && (k <? foff d)) eqn:E; [|reflexivity].
    apply andb_true_iff in E as [E1 E2]. apply andb_true_iff in E1 as [_ E1].
    apply Nat.leb_le in E1. apply Nat.ltb_lt in E2. lia. }
  destruct (Nat.eqb_spec (flen s) 0) as [E1|E1]; simpl.
  { subst n. rewrite E1, Nat.min_0_r, Nat.add_0_r.
    destruct (_ && (k <? foff d)) eqn:E; [|reflexivity].
    apply andb_true_iff in E as [E2 E3]. apply andb_true_iff in E2 as [_ E2].
    apply Nat.leb_le in E2. apply Nat.ltb_lt in E3. lia. }
  unfold cell. rewrite nth_upd by exact Ha.
  destruct (Nat.eqb_spec a (fa d)) as [->|]; [|reflexivity]. simpl.
  set (da := nth (fa d) h []) in *. set (sa := nth (fa s) h []) in *.
  destruct (Nat.ltb_spec c (length da)) as [Hc|Hc]; simpl.
  - assert (Hcs : c < length sa) by lia.
    rewrite (nth_combine_map _ da _ c [] [] []) by (rewrite ?map_length; lia).
    simpl. rewrite (nth_map_in _ sa c [] []) by exact Hcs.
    specialize (Hphys c Hc). specialize (Hphyss c Hcs).
    assert (Hls : length (sub (nth c sa []) (foff s) n) = n) by (apply length_sub; subst n; lia).
    fold n. rewrite nth_write by (rewrite Hls; subst n; lia). rewrite Hls.
    destruct ((foff d <=? k) && (k <? foff d + n)) eqn:E; [|reflexivity].
    apply andb_true_iff in E as [E2 E3]. apply Nat.leb_le in E2. apply Nat.ltb_lt in E3.
    rewrite nth_sub by lia. reflexivity.
  - match goal with |- nth k (nth c ?L []) _ = _ =>
      rewrite (nth_overflow L) by (rewrite map_length, combine_length, map_length; lia) end.
    rewrite (nth_overflow da) by exact Hc. reflexivity.
Qed.

Theorem copy_frame_condition h d s a c k :
  wf h d -> wf h s -> compatible h d s -> ~ inview d a k ->
  cell (fst (copy h d s)) a c k = cell h a c k.
Proof.
  intros Hd Hs Hc Hout. rewrite copy_cells by assumption.
  destruct (Nat.eqb_spec a (fa d)) as [Ea|]; [|reflexivity]. simpl.
  destruct (c <? _); [|reflexivity]. simpl.
  destruct (Nat.leb_spec (foff d) k); [|reflexivity]. simpl.
  destruct (Nat.ltb_spec k (foff d + Nat.min (flen d) (flen s))); [|reflexivity].
  exfalso. apply Hout. split; [exact Ea|lia].
Qed.

(* the first min(len dst, len src) rows of dst become src's rows, read before any write *)
Theorem copy_inside h d s c k :
  wf h d -> wf h s -> compatible h d s -> c < length (get_alloc h (fa d)) ->
  k < Nat.min (flen d) (flen s) ->
  cell (fst (copy h d s)) (fa d) c (foff d + k) = cell h (fa s) c (foff s + k).
Proof.
  intros Hd Hs Hc Hcol Hk. rewrite copy_cells by assumption. rewrite Nat.eqb_refl. simpl.
  destruct (Nat.ltb_spec c (length (get_alloc h (fa d)))); [|lia]. simpl.
  destruct (Nat.leb_spec (foff d) (foff d + k)); [|lia]. simpl.
  destruct (Nat.ltb_spec (foff d + k) (foff d + Nat.min (flen d) (flen s))); [|lia].
  do 2 f_equal. lia.
Qed.

Theorem copy_count h d s :
  get_alloc h (fa d) <> [] -> snd (copy h d s) = Nat.min (flen d) (flen s).
Proof.
  intro Hne. unfold copy.
  destruct (Nat.eqb_spec (flen d) 0) as [E0|E0]; simpl; [rewrite E0; reflexivity|].
  destruct (Nat.eqb_spec (flen s) 0) as [E1|E1]; simpl; [rewrite E1; lia|].
  destruct (get_alloc h (fa d)); [contradiction|reflexivity].
Qed.

(* ================= Decode ================= *)

Theorem decode_cells h f c0 vals a c k :
  wf h f -> c0 < length (get_alloc h (fa f)) -> length vals = flen f ->
  cell (decode h f c0 vals) a c k =
  if Nat.eqb a (fa f) && Nat.eqb c c0 && (foff f <=? k) && (k <? foff f + flen f)
  then nth (k - foff f) vals 0%Z else cell h a c k.
Proof.
  intros (Ha & Hlc & Hphys) Hc0 Hlen. unfold decode, get_alloc, cell in *.
  rewrite nth_upd by exact Ha.
  destruct (Nat.eqb_spec a (fa f)) as [->|]; [|reflexivity]. simpl.
  rewrite nth_upd by exact Hc0.
  destruct (Nat.eqb_spec c c0) as [->|]; [|reflexivity]. simpl.
  specialize (Hphys c0 Hc0).
  rewrite firstn_all2 by lia.
  rewrite nth_write by lia. rewrite Hlen. reflexivity.
Qed.

Theorem decode_frame_condition h f c0 vals a c k :
  wf h f -> c0 < length (get_alloc h (fa f)) -> length vals = flen f -> ~ inview f a k ->
  cell (decode h f c0 vals) a c k = cell h a c k.
Proof.
  intros Hwf Hc0 Hlen Hout. rewrite decode_cells by assumption.
  destruct (Nat.eqb_spec a (fa f)) as [Ea|]; [|reflexivity]. simpl.
  destruct (Nat.eqb c c0); [|reflexivity]. simpl.
  destruct (Nat.leb_spec (foff f) k); [|reflexivity]. simpl.
  destruct (Nat.ltb_spec k (foff f + flen f)); [|reflexivity].
  exfalso. apply Hout. split; [exact Ea|lia].
Qed.

(* ================= reads are functions of the view's rows ================= *)

Lemma view_nth h f c i :
  wf h f -> c < length (get_alloc h (fa f)) -> i < flen f ->
  nth i (nth c (view h f) []) 0%Z = cell h (fa f) c (foff f + i).
Proof.
  intros (Ha & Hlc & Hphys) Hc Hi. unfold view, cell, get_alloc in *.
  rewrite (nth_map_in _ _ _ [] []) by exact Hc. apply nth_sub. exact Hi.
Qed.

Theorem index_view h f c i :
  wf h f -> c < length (get_alloc h (fa f)) -> i < flen f ->
  index h f c i = nth i (nth c (view h f) []) 0%Z.
Proof. intros. rewrite view_nth by assumption. reflexivity. Qed.

Theorem encode_view h f c :
  c < length (get_alloc h (fa f)) -> encode h f c = nth c (view h f) [].
Proof.
  intro Hc. unfold encode, view. rewrite (nth_map_in _ _ _ [] []) by exact Hc. reflexivity.
Qed.

Lemma less_cols_shift cs : forall n off len i j,
  (forall c, c < length cs -> off + len <= length (nth c cs [])) -> i < len -> j < len ->
  less_cols cs n (off + i) (off + j) = less_cols (map (fun c => sub c off len) cs) n i j.
Proof.
  induction cs as [|c0 cs IH]; intros n off len i j Hphys Hi Hj; [destruct n; reflexivity|].
  assert (H0 := Hphys 0 (Nat.lt_0_succ _)). simpl in H0.
  assert (Hrest : forall c, c < length cs -> off + len <= length (nth c cs [])).
  { intros c Hc. apply (Hphys (S c)). simpl. lia. }
  destruct n as [|n]; simpl; rewrite !nth_sub by assumption; [reflexivity|].
  destruct (_ <? _)%Z; [reflexivity|]. destruct (_ <? _)%Z; [reflexivity|].
  apply IH; assumption.
Qed.

(* comparison looks only at the view's rows: it is independent of where the
   rows are stored (offset, allocation, what lies around them) *)
Theorem less_view h f i j :
  wf h f -> i < flen f -> j < flen f ->
  less h f i j = less_cols (view h f) (fpre f) i j.
Proof.
  intros (Ha & Hlc & Hphys) Hi Hj. unfold less, view.
  apply less_cols_shift; [|assumption|assumption].
  intros c Hc. specialize (Hphys c Hc). lia.
Qed.

Corollary less_position_free h1 f1 h2 f2 i j :
  wf h1 f1 -> wf h2 f2 -> view h1 f1 = view h2 f2 -> fpre f1 = fpre f2 -> flen f1 = flen f2 ->
  i < flen f1 -> j < flen f1 -> less h1 f1 i j = less h2 f2 i j.
Proof.
  intros W1 W2 Ev Ep El Hi Hj. rewrite !less_view by (assumption || lia). rewrite Ev, Ep. reflexivity.
Qed.

(* the same row compares the same wherever it sits inside one frame *)
Lemma less_cols_rows cs : forall n i j i' j',
  (forall c, c < length cs -> nth i (nth c cs []) 0%Z = nth i' (nth c cs []) 0%Z) ->
  (forall c, c < length cs -> nth j (nth c cs []) 0%Z = nth j' (nth c cs []) 0%Z) ->
  less_cols cs n i j = less_cols cs n i' j'.
Proof.
  induction cs as [|c0 cs IH]; intros n i j i' j' Hi Hj; [destruct n; reflexivity|].
  assert (Hi0 := Hi 0 (Nat.lt_0_succ _)). assert (Hj0 := Hj 0 (Nat.lt_0_succ _)). simpl in Hi0, Hj0.
  destruct n as [|n]; simpl; rewrite Hi0, Hj0; [reflexivity|].
  destruct (_ <? _)%Z; [reflexivity|]. destruct (_ <? _)%Z; [reflexivity|].
  apply IH; intros c Hc; [apply (Hi (S c))|apply (Hj (S c))]; simpl; lia.
Qed.

(* ================= Slice ================= *)

Theorem slice_view h f i j g :
  slice f i j = Ok g -> (Z.to_nat j <= flen f) ->
  view h g = map (fun c => sub c (Z.to_nat i) (Z.to_nat (j - i))) (view h f).
Proof.
  unfold slice. intros H Hj.
  destruct ((i <? 0)%Z || (j <? i)%Z || (j >? Z.of_nat (fcap f))%Z) eqn:E; [discriminate|].
  inversion H; subst g; clear H. apply orb_false_iff in E as [E E3]. apply orb_false_iff in E as [E1 E2].
  apply Z.ltb_ge in E1, E2. unfold view. simpl. rewrite map_map. apply map_ext. intro c.
  rewrite sub_sub by lia. reflexivity.
Qed.

Theorem slice_wf h f i j g : wf h f -> slice f i j = Ok g -> wf h g.
Proof.
  unfold slice. intros (Ha & Hlc & Hphys) H.
  destruct ((i <? 0)%Z || (j <? i)%Z || (j >? Z.of_nat (fcap f))%Z) eqn:E; [discriminate|].
  inversion H; subst g; clear H. apply orb_false_iff in E as [E E3]. apply orb_false_iff in E as [E1 E2].
  apply Z.ltb_ge in E1, E2. assert (E3' : (j <= Z.of_nat (fcap f))%Z) by (destruct (Z.gtb_spec j (Z.of_nat (fcap f))); [discriminate|lia]).
  unfold wf; simpl. split; [exact Ha|]. split; [lia|].
  intros c Hc. specialize (Hphys c Hc). lia.
Qed.

Theorem slice_inside f i j g a k :
  slice f i j = Ok g -> Z.to_nat j <= flen f -> inview g a k -> inview f a k.
Proof.
  unfold slice. intros H Hj (Ea & Hk).
  destruct ((i <? 0)%Z || (j <? i)%Z || (j >? Z.of_nat (fcap f))%Z) eqn:E; [discriminate|].
  inversion H; subst g; clear H. apply orb_false_iff in E as [E E3]. apply orb_false_iff in E as [E1 E2].
  apply Z.ltb_ge in E1, E2. simpl in *. split; [exact Ea|lia].
Qed.

(* ================= sorting: any run of in-view swaps permutes the rows ================= *)

Definition rows (h : heap) (f : frame) : list (list Z) := map (row h f) (seq 0 (flen f)).

Lemma row_nth h f i c : c < length (get_alloc h (fa f)) -> nth c (row h f i) 0%Z = cell h (fa f) c (foff f + i).
Proof. intro Hc. unfold row, cell, get_alloc in *. rewrite (nth_map_in _ _ _ [] 0%Z) by exact Hc. reflexivity. Qed.

Lemma row_swap h f i j k :
  wf h f -> i < flen f -> j < flen f -> k < flen f ->
  row (swap h f i j) f k = row h f (if Nat.eqb k j then i else if Nat.eqb k i then j else k).
Proof.
  intros Hwf Hi Hj Hk. pose proof (swap_shape h f i j Hwf Hi Hj) as (Hs1 & Hs2 & Hs3).
  apply (nth_ext_len _ _ 0%Z).
  - unfold row. rewrite !map_length. unfold get_alloc. apply Hs2.
  - intros c Hc. unfold row in Hc. rewrite map_length in Hc.
    assert (Hc' : c < length (get_alloc h (fa f))) by (unfold get_alloc in *; rewrite Hs2 in Hc; exact Hc).
    rewrite row_nth by exact Hc. rewrite row_nth by (destruct (Nat.eqb k j); [|destruct (Nat.eqb k i)]; exact Hc').
    rewrite swap_cells by assumption. rewrite Nat.eqb_refl. simpl.
    destruct (Nat.ltb_spec c (length (get_alloc h (fa f)))); [|lia].
    destruct (Nat.eqb_spec k j) as [->|Hkj].
    + rewrite Nat.eqb_refl. reflexivity.
    + destruct (Nat.eqb_spec (foff f + k) (foff f + j)); [lia|].
      destruct (Nat.eqb_spec k i) as [->|Hki]; [rewrite Nat.eqb_refl; reflexivity|].
      destruct (Nat.eqb_spec (foff f + k) (foff f + i)); [lia|reflexivity].
Qed.

Definition transp (i j k : nat) : nat := if Nat.eqb k j then i else if Nat.eqb k i then j else k.

Lemma transp_perm n : forall i j, i < n -> j < n -> Permutation (map (transp i j) (seq 0 n)) (seq 0 n).
Proof.
  intros i j Hi Hj. apply NoDup_Permutation_bis.
  - apply FinFun.Injective_map_NoDup; [|apply seq_NoDup].
    intros x y. unfold transp.
    destruct (Nat.eqb_spec x j), (Nat.eqb_spec x i), (Nat.eqb_spec y j), (Nat.eqb_spec y i); lia.
  - rewrite map_length. reflexivity.
  - intros x Hx. apply in_map_iff in Hx as (y & <- & Hy). apply in_seq in Hy. apply in_seq.
    unfold transp. destruct (Nat.eqb y j), (Nat.eqb y i); lia.
Qed.

Theorem swap_rows_permutation h f i j :
  wf h f -> i < flen f -> j < flen f -> Permutation (rows (swap h f i j) f) (rows h f).
Proof.
  intros Hwf Hi Hj. unfold rows.
  rewrite (map_ext_in _ (fun k => row h f (transp i j k))).
  - rewrite <- (map_map (transp i j) (row h f)). apply Permutation_map. apply transp_perm; assumption.
  - intros k Hk. apply in_seq in Hk. apply row_swap; (assumption || lia).
Qed.

Lemma swap_wf h f i j g : wf h f -> i < flen f -> j < flen f -> wf h g -> wf (swap h f i j) g.
Proof.
  intros Hwf Hi Hj (Ha & Hlc & Hphys). pose proof (swap_shape h f i j Hwf Hi Hj) as (Hs1 & Hs2 & Hs3).
  unfold wf, get_alloc in *. rewrite Hs1. split; [exact Ha|]. split; [exact Hlc|].
  intros c Hc. rewrite Hs2 in Hc. rewrite Hs3. apply Hphys. exact Hc.
Qed.

(* sort.Sort drives Less/Swap through sort.Interface with in-range indices only *)
Fixpoint swaps (h : heap) (f : frame) (l : list (nat * nat)) : heap :=
  match l with [] => h | (i, j) :: r => swaps (swap h f i j) f r end.

Theorem sort_swaps_permutation f l : forall h,
  wf h f -> (forall p, In p l -> fst p < flen f /\ snd p < flen f) ->
  Permutation (rows (swaps h f l) f) (rows h f).
Proof.
  induction l as [|[i j] l IH]; intros h Hwf Hall; simpl; [apply Permutation_refl|].
  destruct (Hall (i, j) (or_introl eq_refl)) as [Hi Hj]. simpl in Hi, Hj.
  eapply Permutation_trans.
  - apply IH; [apply swap_wf; assumption|intros p Hp; apply Hall; right; exact Hp].
  - apply swap_rows_permutation; assumption.
Qed.

Theorem sort_swaps_frame_condition f l : forall h a c k,
  wf h f -> (forall p, In p l -> fst p < flen f /\ snd p < flen f) -> ~ inview f a k ->
  cell (swaps h f l) a c k = cell h a c k.
Proof.
  induction l as [|[i j] l IH]; intros h a c k Hwf Hall Hout; simpl; [reflexivity|].
  destruct (Hall (i, j) (or_introl eq_refl)) as [Hi Hj]. simpl in Hi, Hj.
  rewrite IH; [|apply swap_wf; assumption|intros p Hp; apply Hall; right; exact Hp|exact Hout].
  apply swap_frame_condition; assumption.
Qed.

(* ================= growth ================= *)

Lemma grow_cap_ge fuel : forall m i0 i1,
  0 < m -> i0 <= m -> i1 <= m + fuel -> i1 <= grow_cap fuel m i0 i1.
Proof.
  induction fuel as [|k IH]; intros m i0 i1 Hm H0 H; cbn [grow_cap]; [lia|].
  destruct (Nat.ltb_spec m i1) as [Hlt|Hge]; [|exact Hge].
  destruct (Nat.ltb_spec i0 1024) as [Hs|Hb].
  - apply IH; lia.
  - assert (1 <= m / 4) by (apply Nat.div_le_lower_bound; lia).
    apply IH; lia.
Qed.

(* the capacity loop of grow terminates within the model's fuel and yields
   enough room: the fuelled model never returns a too-small capacity *)
Theorem grow_capacity_sufficient f need :
  0 < fcap f -> flen f <= fcap f ->
  flen f + need <= grow_cap (S (flen f + need)) (fcap f) (flen f) (flen f + need).
Proof. intros Hc Hl. apply grow_cap_ge; lia. Qed.

(* ================= non-vacuity ================= *)

Example wf_example :
  let h := [[[9; 8; 7; 3; 2; 1]%Z; [1; 2; 3; 4; 5; 6]%Z]] in
  let f := mkF false 0 3 3 3 0 in
  wf h f /\ view h f = [[3; 2; 1]%Z; [4; 5; 6]%Z] /\
  view (swap h f 0 2) f = [[1; 2; 3]%Z; [6; 5; 4]%Z] /\
  nth 0 (swap h f 0 2) [] = [[9; 8; 7; 1; 2; 3]%Z; [1; 2; 3; 6; 5; 4]%Z].
Proof.
  cbv zeta. split; [|repeat split; reflexivity].
  unfold wf; simpl. split; [lia|]. split; [lia|]. intros [|[|c]] Hc; simpl; lia.
Qed.

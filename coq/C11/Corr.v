(* C11 — correspondence drivers: evaluated by vm_compute on harness case files. *)
From Coq Require Import List ZArith Bool.
Import ListNotations.
Require Export BS.Common.Util BS.C11.Model.
Local Open Scope Z_scope.

(* One observed step: the operation, what the implementation reported, and the
   full dump of every allocation afterwards. *)
Record obs := mkObs { oop : op; oout : out; oheap : heap }.
Definition case := list obs.

Definition col_eqb := list_eqb Z.eqb.
Definition alloc_eqb := list_eqb col_eqb.
Definition heap_eqb := list_eqb alloc_eqb.

Definition out_eqb (a b : out) : bool :=
  match a, b with
  | RUnit, RUnit => true
  | RPanic, RPanic => true
  | RNum x, RNum y => Z.eqb x y
  | RBool x, RBool y => Bool.eqb x y
  | RVals x, RVals y => col_eqb x y
  | RFrame a1 o1 l1 c1 p1, RFrame a2 o2 l2 c2 p2 =>
      Nat.eqb a1 a2 && Nat.eqb o1 o2 && Nat.eqb l1 l2 && Nat.eqb c1 c2 && Nat.eqb p1 p2
  | _, _ => false
  end.

Definition frame_of_out (o : out) : option frame :=
  match o with RFrame a off len cap pre => Some (mkF false a off len cap pre) | _ => None end.

(* ---- sort.Sort(frame): the view's rows must become a key-sorted permutation of
        themselves and nothing outside the view may change; the order among rows
        with equal keys is not fixed, so the next state is the observed one ---- *)
Fixpoint lex_leb (a b : list Z) : bool :=
  match a, b with
  | [], _ => true
  | _, [] => false
  | x :: a', y :: b' => if Z.ltb x y then true else if Z.ltb y x then false else lex_leb a' b'
  end.
Fixpoint insert_row (r : list Z) (l : list (list Z)) : list (list Z) :=
  match l with [] => [r] | x :: l' => if lex_leb r x then r :: l else x :: insert_row r l' end.
Definition sort_rows (l : list (list Z)) : list (list Z) := fold_right insert_row [] l.
Definition rows_of (h : heap) (f : frame) : list (list Z) := map (row h f) (seq 0 (flen f)).
Fixpoint keys_sorted (pre : nat) (l : list (list Z)) : bool :=
  match l with
  | a :: ((b :: _) as rest) => lex_leb (firstn (S pre) a) (firstn (S pre) b) && keys_sorted pre rest
  | _ => true
  end.
(* every cell outside the view [f] is unchanged *)
Definition outside_same (h h' : heap) (f : frame) : bool :=
  list_eqb (fun a a' => true) h h' &&
  forallb (fun ai =>
    let a := nth ai h [] in let a' := nth ai h' [] in
    if Nat.eqb ai (fa f)
    then list_eqb (fun c c' => col_eqb (firstn (foff f) c) (firstn (foff f) c')
                               && col_eqb (skipn (foff f + flen f) c) (skipn (foff f + flen f) c')) a a'
    else alloc_eqb a a') (seq 0 (length h)).
Definition sort_ok (pre : state) (fi : nat) (post : heap) : bool :=
  let f := getf pre fi in
  keys_sorted (fpre f) (rows_of post f)
  && list_eqb col_eqb (sort_rows (rows_of post f)) (sort_rows (rows_of (sheap pre) f))
  && outside_same (sheap pre) post f.

(* ---- exact agreement: the model run from [init] predicts every output and
        every cell of every allocation after every step ---- *)
Fixpoint run_exact (s : state) (c : case) : bool :=
  match c with
  | [] => true
  | ob :: rest =>
      match oop ob with
      | OSort fi => out_eqb RUnit (oout ob) && sort_ok s fi (oheap ob) && run_exact (mkS (oheap ob) (spool s)) rest
      | _ =>
        let '(s', o') := step s (oop ob) in
        out_eqb o' (oout ob) && heap_eqb (sheap s') (oheap ob) && run_exact s' rest
      end
  end.

(* ---- property-level judgement of one observed step, from the OBSERVED
        pre-state: results, the rows of the resulting view, and every cell of
        every allocation that existed before must be what the plain-rows
        semantics says; the capacity chosen for a fresh allocation is free. ---- *)
Definition out_sem_eqb (fresh : bool) (a b : out) : bool :=
  match a, b with
  | RFrame a1 o1 l1 c1 p1, RFrame a2 o2 l2 c2 p2 =>
      Nat.eqb a1 a2 && Nat.eqb o1 o2 && Nat.eqb l1 l2 && Nat.eqb p1 p2
      && (fresh || Nat.eqb c1 c2)
  | _, _ => out_eqb a b
  end.

Definition step_ok (pre : state) (ob : obs) : bool :=
  match oop ob with OSort fi => out_eqb RUnit (oout ob) && sort_ok pre fi (oheap ob) | _ =>
  let '(s', o') := step pre (oop ob) in
  let n := length (sheap pre) in
  (* a fresh allocation's capacity is the implementation's choice - except for frame.Values,
     whose capacity is fixed by the columns it is given *)
  let fresh := negb (Nat.eqb (length (sheap s')) n)
               && match oop ob with OValues _ _ => false | _ => true end in
  out_sem_eqb fresh o' (oout ob)
  && heap_eqb (firstn n (sheap s')) (firstn n (oheap ob))
  && match frame_of_out o', frame_of_out (oout ob) with
     | Some fm, Some fo => list_eqb col_eqb (view (sheap s') fm) (view (oheap ob) fo)
     | None, None => true
     | _, _ => false
     end
  end.

(* the observed state after a step: observed heap, pool extended by the observed frame *)
Definition obs_next (pre : state) (ob : obs) : state :=
  mkS (oheap ob)
      (match frame_of_out (oout ob) with Some f => spool pre ++ [f] | None => spool pre end).

Fixpoint run_ok (pre : state) (c : case) : bool :=
  match c with
  | [] => true
  | ob :: rest => step_ok pre ob && run_ok (obs_next pre ob) rest
  end.

Definition mismatches (cs : list case) : list nat := bad_indices (fun c => run_exact init c) cs.
Definition violations (cs : list case) : list nat := bad_indices (fun c => run_ok init c) cs.

(* C11 — list lemmas about sub / write / upd, characterised through nth. *)
From Coq Require Import List ZArith Lia Bool Permutation.
Import ListNotations.
Require Import BS.Common.Util BS.C11.Model.

Section Lists.
Context {A : Type}.
Implicit Types (l vals : list A) (d x : A).

Lemma length_sub l off len : off + len <= length l -> length (sub l off len) = len.
Proof. intro H. unfold sub. rewrite firstn_length, skipn_length. lia. Qed.

Lemma length_sub_le l off len : length (sub l off len) <= len.
Proof. unfold sub. rewrite firstn_length. lia. Qed.

Lemma nth_sub l off len i d : i < len -> nth i (sub l off len) d = nth (off + i) l d.
Proof.
  intro H. unfold sub. rewrite nth_firstn.
  destruct (Nat.ltb_spec i len); [|lia]. apply nth_skipn.
Qed.

Lemma length_write l off vals : off + length vals <= length l -> length (write l off vals) = length l.
Proof. intro H. unfold write. rewrite !app_length, firstn_length, skipn_length. lia. Qed.

Lemma nth_write l off vals i d :
  off + length vals <= length l ->
  nth i (write l off vals) d =
  if (off <=? i) && (i <? off + length vals) then nth (i - off) vals d else nth i l d.
Proof.
  intro H. unfold write.
  destruct (Nat.leb_spec off i) as [Hle|Hlt]; simpl.
  - rewrite app_nth2 by (rewrite firstn_length; lia).
    rewrite firstn_length, Nat.min_l by lia.
    destruct (Nat.ltb_spec i (off + length vals)) as [Hin|Hout].
    + rewrite app_nth1 by lia. reflexivity.
    + rewrite app_nth2 by lia. rewrite nth_skipn. f_equal. lia.
  - rewrite app_nth1 by (rewrite firstn_length; lia).
    rewrite nth_firstn. destruct (Nat.ltb_spec i off); [reflexivity|lia].
Qed.

Lemma length_upd l i x : i < length l -> length (upd l i x) = length l.
Proof. intro H. unfold upd. rewrite app_length, firstn_length. cbn [length]. rewrite skipn_length. lia. Qed.

Lemma nth_upd l i x j d : i < length l -> nth j (upd l i x) d = if Nat.eqb j i then x else nth j l d.
Proof.
  intro H. unfold upd. destruct (Nat.eqb_spec j i) as [->|Hne].
  - rewrite app_nth2 by (rewrite firstn_length; lia). rewrite firstn_length, Nat.min_l by lia.
    rewrite Nat.sub_diag. reflexivity.
  - destruct (Nat.lt_ge_cases j i).
    + rewrite app_nth1 by (rewrite firstn_length; lia). rewrite nth_firstn.
      destruct (Nat.ltb_spec j i); [reflexivity|lia].
    + rewrite app_nth2 by (rewrite firstn_length; lia). rewrite firstn_length, Nat.min_l by lia.
      destruct (j - i) as [|k] eqn:E; [lia|]. cbn [nth]. rewrite nth_skipn. f_equal. lia.
Qed.

Lemma upd_out l i x : length l <= i -> upd l i x = l ++ [x].
Proof.
  intro H. unfold upd. rewrite firstn_all2 by lia. rewrite skipn_all2 by lia. reflexivity.
Qed.

Lemma sub_sub l o1 n1 o2 n2 : o2 + n2 <= n1 -> sub (sub l o1 n1) o2 n2 = sub l (o1 + o2) n2.
Proof.
  intro H. unfold sub. rewrite skipn_firstn_comm, firstn_firstn.
  rewrite Nat.min_l by lia. rewrite skipn_skipn. reflexivity.
Qed.

End Lists.

(* swapping two positions of a list is a permutation *)
Lemma nth_ext_len {A} (l1 l2 : list A) d :
  length l1 = length l2 -> (forall i, i < length l1 -> nth i l1 d = nth i l2 d) -> l1 = l2.
Proof. intros H1 H2. apply (nth_ext _ _ d d); assumption. Qed.

(* C01 — declarative laws of the aggregating operators of the reference
   semantics (Sem.v): what Reduce, Fold and Cogroup compute, stated on the
   multiset of input rows, and that over a whole value every key is emitted
   exactly once, in the shard its hash names.

   Reuses the algebra of C04/StrategyProofs.v (insertion into a combined,
   key-sorted list; reduce_shard = rlist).  That the value of node k depends
   only on the nodes <= k is C12/Proofs.v [prefix_values_stable] (not repeated). *)
From Coq Require Import List ZArith NArith Bool Lia Permutation Sorting.Sorted Sorting.Mergesort.
From Coq Require Import ZifyBool ZifyNat.
Import ListNotations.
Require Import BS.Common.Util BS.Common.Murmur BS.C01.Sem BS.C01.Checker BS.C01.Proofs.
Require Import BS.C04.Strategy BS.C04.StrategyProofs.

(* ====================================================================== *)
(* 1. Combining a multiset of values                                       *)
(* ====================================================================== *)

(* the combination of a non-empty list of values, from left to right *)
Definition comb_list (c : comb) (l : list Z) : Z :=
  match l with [] => 0%Z | v :: vs => fold_left (comb_apply c) vs v end.

Lemma fold_comb_shift c l : forall a b,
  fold_left (comb_apply c) l (comb_apply c a b) = comb_apply c a (fold_left (comb_apply c) l b).
Proof.
  induction l as [|x l IH]; intros a b; cbn [fold_left]; [reflexivity|].
  rewrite <- IH. f_equal. symmetry. apply comb_apply_assoc.
Qed.

Lemma comb_list_cons c v l : l <> [] -> comb_list c (v :: l) = comb_apply c v (comb_list c l).
Proof. destruct l as [|h t]; [congruence|]. intros _. cbn [comb_list fold_left]. apply fold_comb_shift. Qed.

(* it does not depend on the order: it is a function of the multiset *)
Theorem comb_list_perm c l l' : Permutation l l' -> comb_list c l = comb_list c l'.
Proof.
  intro H. induction H as [|x l l' H IH|x y l|l l' l'' H1 IH1 H2 IH2].
  - reflexivity.
  - destruct l as [|h t].
    + apply Permutation_nil in H. subst. reflexivity.
    + assert (l' <> []) by (intros ->; apply Permutation_sym, Permutation_nil in H; discriminate).
      rewrite (comb_list_cons c x (h :: t)) by discriminate.
      rewrite (comb_list_cons c x l') by assumption. rewrite IH. reflexivity.
  - destruct l as [|h t].
    + cbn. apply comb_apply_comm.
    + rewrite (comb_list_cons c y (x :: h :: t)), (comb_list_cons c x (h :: t)) by discriminate.
      rewrite (comb_list_cons c x (y :: h :: t)), (comb_list_cons c y (h :: t)) by discriminate.
      rewrite !comb_apply_assoc, (comb_apply_comm c y x). reflexivity.
  - congruence.
Qed.

Lemma comb_list_sum l : comb_list CSum l = fold_left Z.add l 0%Z.
Proof.
  destruct l as [|v vs]; [reflexivity|]. cbn [comb_list fold_left].
  change (comb_apply CSum) with Z.add. reflexivity.
Qed.

(* ====================================================================== *)
(* 2. Reduce of one shard                                                  *)
(* ====================================================================== *)

Definition has_key (pre : nat) (k : list (list Z)) (rows : list (list (list Z))) : bool :=
  existsb (fun r => row_eqb (key_of pre r) k) rows.
Definition rows_of_key (pre : nat) (k : list (list Z)) (rows : list (list (list Z))) : list (list (list Z)) :=
  filter (fun r => row_eqb (key_of pre r) k) rows.
(* the values (column pre) of the rows with key k, in input order *)
Definition vals_of (pre : nat) (k : list (list Z)) (rows : list (list (list Z))) : list Z :=
  map (val pre) (rows_of_key pre k rows).
Definition key_count (pre : nat) (k : list (list Z)) (rows : list (list (list Z))) : nat :=
  length (rows_of_key pre k rows).

Lemma has_key_iff pre k rows : has_key pre k rows = true <-> In k (map (key_of pre) rows).
Proof.
  unfold has_key. rewrite existsb_exists, in_map_iff. split.
  - intros [r [Hr E]]. apply row_eqb_iff in E. exists r. auto.
  - intros [r [E Hr]]. exists r. split; [exact Hr|]. apply row_eqb_iff. exact E.
Qed.

Lemma rows_of_key_nil_iff pre k rows : rows_of_key pre k rows = [] <-> ~ In k (map (key_of pre) rows).
Proof.
  unfold rows_of_key. split.
  - intros E Hin. apply in_map_iff in Hin as [r [Ek Hr]].
    assert (In r (filter (fun r => row_eqb (key_of pre r) k) rows))
      by (apply filter_In; split; [exact Hr|apply row_eqb_iff; exact Ek]).
    rewrite E in H. contradiction.
  - intro Hn. destruct (filter _ rows) as [|r t] eqn:E; [reflexivity|]. exfalso. apply Hn.
    assert (Hr : In r (filter (fun r => row_eqb (key_of pre r) k) rows)) by (rewrite E; left; reflexivity).
    apply filter_In in Hr as [Hr Ek]. apply row_eqb_iff in Ek. apply in_map_iff. exists r. auto.
Qed.

Section ReduceLaws.
Variable c : comb.
Variable pre : nat.

Lemma kcmp_lt_neq a b : kcmp pre a b = Lt -> key_of pre a <> key_of pre b.
Proof. intros H E. rewrite (kcmp_refl_key pre a b E) in H. discriminate. Qed.

Lemma rinsert_keys a L : wfr pre a -> forall k,
  In k (map (key_of pre) (rinsert c pre a L)) <-> k = key_of pre a \/ In k (map (key_of pre) L).
Proof.
  intros Ha k. induction L as [|x L IH]; cbn [rinsert map In].
  - intuition.
  - destruct (kcmp pre a x) eqn:E; cbn [map In].
    + rewrite (key_mrow c pre a x Ha). apply kcmp_eq in E. rewrite <- E. intuition.
    + intuition.
    + rewrite IH. intuition.
Qed.

Lemma rlist_keys l : Forall (wfr pre) l -> forall k,
  In k (map (key_of pre) (rlist c pre l)) <-> In k (map (key_of pre) l).
Proof.
  intros H k. induction H as [|a l Ha H IH]; [reflexivity|].
  change (rlist c pre (a :: l)) with (rinsert c pre a (rlist c pre l)).
  rewrite rinsert_keys by exact Ha. rewrite IH. cbn [map In]. intuition.
Qed.

(* where a row of [rinsert a L] comes from, for L sorted strictly by key *)
Lemma rinsert_In a L r : wfr pre a -> StronglySorted (klt pre) L -> In r (rinsert c pre a L) ->
  (r = a /\ ~ In (key_of pre a) (map (key_of pre) L)) \/
  (exists x, In x L /\ key_of pre x = key_of pre a /\ r = mrow c pre a x) \/
  (In r L /\ key_of pre r <> key_of pre a).
Proof.
  intros Ha HS. induction HS as [|x L HS IH HF]; cbn [rinsert]; intro Hin.
  - destruct Hin as [<-|[]]. left. split; [reflexivity|intros []].
  - rewrite Forall_forall in HF. destruct (kcmp pre a x) eqn:E.
    + (* a and x are combined *)
      destruct Hin as [<-|Hin].
      * right. left. exists x. split; [left; reflexivity|]. split; [symmetry; apply kcmp_eq; exact E|reflexivity].
      * right. right. split; [right; exact Hin|]. intro Ek.
        specialize (HF r Hin). unfold klt in HF.
        rewrite (kcmp_key_l pre x a r) in HF by (symmetry; apply kcmp_eq; exact E).
        apply kcmp_lt_neq in HF. congruence.
    + (* a is put in front: everything else is greater *)
      assert (Hgt : forall y, In y (x :: L) -> kcmp pre a y = Lt).
      { intros y [<-|Hy]; [exact E|]. eapply kcmp_lt_trans; [exact E|apply HF; exact Hy]. }
      destruct Hin as [<-|Hin].
      * left. split; [reflexivity|]. intro Hk. apply in_map_iff in Hk as [y [Ey Hy]].
        apply Hgt in Hy. apply kcmp_lt_neq in Hy. congruence.
      * right. right. split; [exact Hin|]. intro Ek. apply Hgt in Hin. apply kcmp_lt_neq in Hin. congruence.
    + assert (Hx : key_of pre x <> key_of pre a)
        by (apply kcmp_gt_lt in E; apply kcmp_lt_neq in E; exact E).
      destruct Hin as [<-|Hin].
      * right. right. split; [left; reflexivity|exact Hx].
      * destruct (IH Hin) as [[-> Hn]|[[y [Hy [Ey ->]]]|[Hr Hk]]].
        -- left. split; [reflexivity|]. cbn [map In]. intros [Ek|Hk]; [congruence|contradiction].
        -- right. left. exists y. split; [right; exact Hy|]. auto.
        -- right. right. split; [right; exact Hr|exact Hk].
Qed.

Lemma vals_of_cons k a sh :
  vals_of pre k (a :: sh) = if row_eqb (key_of pre a) k then val pre a :: vals_of pre k sh else vals_of pre k sh.
Proof. unfold vals_of, rows_of_key. cbn [filter]. destruct (row_eqb (key_of pre a) k); reflexivity. Qed.

Lemma vals_of_nil_iff k sh : vals_of pre k sh = [] <-> ~ In k (map (key_of pre) sh).
Proof.
  rewrite <- rows_of_key_nil_iff. unfold vals_of. split; [|intros ->; reflexivity].
  destruct (rows_of_key pre k sh); [reflexivity|discriminate].
Qed.

(* the value of every row of the combined list is the combination of the values
   of ALL input rows with its key *)
Lemma rlist_vals sh : Forall (wfr pre) sh -> forall r, In r (rlist c pre sh) ->
  val pre r = comb_list c (vals_of pre (key_of pre r) sh).
Proof.
  intro H. induction H as [|a sh Ha H IH]; intros r Hr; [contradiction|].
  change (rlist c pre (a :: sh)) with (rinsert c pre a (rlist c pre sh)) in Hr.
  apply rinsert_In in Hr; [|exact Ha|apply rlist_sorted; exact H].
  rewrite vals_of_cons.
  destruct Hr as [[-> Hn]|[[x [Hx [Ex ->]]]|[Hr Hk]]].
  - rewrite (proj2 (row_eqb_iff _ _) eq_refl).
    rewrite rlist_keys in Hn by exact H. apply vals_of_nil_iff in Hn. rewrite Hn. reflexivity.
  - rewrite (key_mrow c pre a x Ha), (proj2 (row_eqb_iff _ _) eq_refl).
    rewrite (val_mrow c pre a x Ha). rewrite comb_list_cons.
    + rewrite (IH x Hx), Ex. reflexivity.
    + intro E. apply vals_of_nil_iff in E. apply E. rewrite <- Ex.
      apply (rlist_keys sh H). apply in_map. exact Hx.
  - destruct (row_eqb (key_of pre a) (key_of pre r)) eqn:E; [apply row_eqb_iff in E; congruence|].
    apply IH. exact Hr.
Qed.

Lemma sorted_keys_nodup L : StronglySorted (klt pre) L -> NoDup (map (key_of pre) L).
Proof.
  intro H. induction H as [|x L HS IH HF]; cbn [map]; constructor; [|exact IH].
  intro Hin. apply in_map_iff in Hin as [y [Ey Hy]]. rewrite Forall_forall in HF.
  specialize (HF y Hy). apply kcmp_lt_neq in HF. congruence.
Qed.

(* rows with exactly one scalar value column keep that shape *)
Definition row_form (r : list (list Z)) : Prop := r = key_of pre r ++ [[val pre r]].

Lemma wf_row_form r : wf_row pre r -> row_form r.
Proof.
  intros [Hlen [z Hz]]. unfold row_form, val, key_of. rewrite Hz. cbn [scalar].
  rewrite <- Hz. rewrite <- (firstn_skipn pre r) at 1. f_equal.
  assert (Hs : length (skipn pre r) = 1) by (rewrite skipn_length; lia).
  destruct (skipn pre r) as [|x [|y t]] eqn:E; try discriminate.
  f_equal. rewrite <- (Nat.add_0_r pre). rewrite <- nth_skipn, E. reflexivity.
Qed.

Lemma rlist_row_form sh : Forall (wfr pre) sh -> Forall row_form sh -> Forall row_form (rlist c pre sh).
Proof.
  intros Hwf H. induction Hwf as [|a sh Ha Hwf IH]; [constructor|]. inversion H as [|? ? Fa Fsh]; subst.
  change (rlist c pre (a :: sh)) with (rinsert c pre a (rlist c pre sh)).
  specialize (IH Fsh). clear - Ha Fa IH. induction IH as [|x L Hx HL IHL]; cbn [rinsert].
  - constructor; [exact Fa|constructor].
  - destruct (kcmp pre a x).
    + constructor; [|exact HL]. unfold row_form.
      rewrite (key_mrow c pre a x Ha), (val_mrow c pre a x Ha). reflexivity.
    + constructor; [exact Fa|constructor; assumption].
    + constructor; assumption.
Qed.

(* THE LAW OF REDUCE (one shard).  For rows that have their key columns: *)
Theorem reduce_shard_spec sh : Forall (wfr pre) sh ->
  let out := reduce_shard c pre sh in
  (* (a) one row per key *)
  NoDup (map (key_of pre) out) /\
  (* (b) ascending by key *)
  StronglySorted (fun a b => row_cmp (key_of pre a) (key_of pre b) = Lt) out /\
  (* (c) exactly the keys of the input *)
  (forall k, In k (map (key_of pre) out) <-> In k (map (key_of pre) sh)) /\
  (* (d) the value of a key combines the values of all input rows with that key;
         by [comb_list_perm] this is a function of the multiset of those values *)
  (forall r, In r out -> val pre r = comb_list c (vals_of pre (key_of pre r) sh)) /\
  (* (e) rows with one value column give rows with one value column, of the
         shape key ++ [[value]] when that column is a scalar *)
  (Forall (fun r => length r = S pre) sh -> Forall (fun r => length r = S pre) out) /\
  (Forall (wf_row pre) sh -> Forall row_form out).
Proof.
  intro H. cbv zeta. rewrite (reduce_shard_rlist c pre sh H).
  pose proof (rlist_sorted c pre sh H) as HS. repeat split.
  - apply sorted_keys_nodup. exact HS.
  - exact HS.
  - apply rlist_keys. exact H.
  - apply rlist_keys. exact H.
  - apply rlist_vals. exact H.
  - intro Hlen. rewrite <- (reduce_shard_rlist c pre sh H). apply reduce_shard_len. exact Hlen.
  - intro Hw. apply rlist_row_form; [exact H|]. eapply Forall_impl; [apply wf_row_form|exact Hw].
Qed.

(* consequence: the number of output rows with a given key *)
Lemma nodup_key_count L k : NoDup (map (key_of pre) L) ->
  key_count pre k L = if has_key pre k L then 1 else 0.
Proof.
  unfold key_count, rows_of_key, has_key. induction L as [|x L IH]; cbn [map filter existsb]; intro H; [reflexivity|].
  inversion H as [|? ? Hn Hnd]; subst. specialize (IH Hnd).
  destruct (row_eqb (key_of pre x) k) eqn:E; cbn [orb length].
  - apply row_eqb_iff in E. subst k.
    destruct (existsb (fun r => row_eqb (key_of pre r) (key_of pre x)) L) eqn:Ex.
    + exfalso. apply Hn. apply has_key_iff. exact Ex.
    + rewrite IH. reflexivity.
  - exact IH.
Qed.

Theorem reduce_shard_key_count sh k : Forall (wfr pre) sh ->
  key_count pre k (reduce_shard c pre sh) = if has_key pre k sh then 1 else 0.
Proof.
  intro H. destruct (reduce_shard_spec sh H) as (Hnd & _ & Hkeys & _).
  rewrite nodup_key_count by exact Hnd.
  destruct (has_key pre k sh) eqn:E.
  - apply has_key_iff in E. apply Hkeys in E. apply has_key_iff in E. rewrite E. reflexivity.
  - destruct (has_key pre k (reduce_shard c pre sh)) eqn:E'; [|reflexivity].
    apply has_key_iff in E'. apply Hkeys in E'. apply has_key_iff in E'. congruence.
Qed.

End ReduceLaws.

(* ====================================================================== *)
(* 3. Fold of one shard: key = column 0, accumulator = sum of all value     *)
(*    columns, starting from 0                                             *)
(* ====================================================================== *)

Definition col0 (r : list (list Z)) : list Z := nth 0 r [].
Definition row_sum (r : list (list Z)) : Z := fold_left (fun s c => (s + scalar c)%Z) (tl r) 0%Z.

Lemma filter_map {A B} (f : A -> B) (p : B -> bool) l :
  filter p (map f l) = map f (filter (fun x => p (f x)) l).
Proof.
  induction l as [|x l IH]; [reflexivity|]. cbn [map filter]. destruct (p (f x)); cbn [map]; rewrite IH; reflexivity.
Qed.

Lemma StronglySorted_impl_in {A} (R R' : A -> A -> Prop) L :
  (forall a b, In a L -> In b L -> R a b -> R' a b) -> StronglySorted R L -> StronglySorted R' L.
Proof.
  intros HR H. induction H as [|x L HS IH HF]; constructor.
  - apply IH. intros a b Ha Hb. apply HR; right; assumption.
  - rewrite Forall_forall in HF |- *. intros y Hy. apply HR; [left; reflexivity|right; exact Hy|apply HF; exact Hy].
Qed.

Lemma row_cmp_single a b : row_cmp [a] [b] = cell_cmp a b.
Proof. cbn [row_cmp]. destruct (cell_cmp a b); reflexivity. Qed.

Lemma row_eqb_single a b : row_eqb [a] [b] = cell_eqb a b.
Proof. unfold row_eqb, cell_eqb. rewrite row_cmp_single. reflexivity. Qed.

Lemma wf_row_fold_row x : wf_row 1 (fold_row x).
Proof. split; [reflexivity|]. eexists. reflexivity. Qed.

Lemma fold_vals k sh :
  vals_of 1 [k] (map fold_row sh) = map row_sum (filter (fun x => cell_eqb (col0 x) k) sh).
Proof.
  unfold vals_of, rows_of_key. rewrite filter_map, map_map.
  rewrite (filter_ext _ (fun x => cell_eqb (col0 x) k)) by (intro x; apply row_eqb_single).
  reflexivity.
Qed.

(* THE LAW OF FOLD (one shard), for all inputs *)
Theorem fold_shard_spec sh :
  let out := fold_shard sh in
  NoDup (map col0 out) /\
  StronglySorted (fun a b => cell_cmp (col0 a) (col0 b) = Lt) out /\
  (forall k, In k (map col0 out) <-> In k (map col0 sh)) /\
  (forall r, In r out ->
     r = [col0 r; [fold_left Z.add (map row_sum (filter (fun x => cell_eqb (col0 x) (col0 r)) sh)) 0%Z]]).
Proof.
  cbv zeta. rewrite fold_shard_reduce.
  pose proof (wf_map_fold_row sh) as Hwf.
  destruct (reduce_shard_spec CSum 1 (map fold_row sh) Hwf) as (Hnd & Hs & Hkeys & Hvals & _ & Hform).
  assert (Hf : Forall (row_form 1) (reduce_shard CSum 1 (map fold_row sh))).
  { apply Hform. apply Forall_map. apply Forall_forall. intros x _. apply wf_row_fold_row. }
  set (out := reduce_shard CSum 1 (map fold_row sh)) in *.
  (* every output row is [k; [s]] *)
  assert (Hshape : forall r, In r out -> r = [col0 r; [val 1 r]] /\ key_of 1 r = [col0 r]).
  { intros r Hr. rewrite Forall_forall in Hf. specialize (Hf r Hr). unfold row_form in Hf.
    assert (Hk : exists k, key_of 1 r = [k]).
    { assert (Hin : In (key_of 1 r) (map (key_of 1) (map fold_row sh))) by (apply Hkeys; apply in_map; exact Hr).
      rewrite map_map in Hin. apply in_map_iff in Hin as [x [Ex _]]. exists (col0 x). rewrite <- Ex. reflexivity. }
    destruct Hk as [k Hk]. rewrite Hk in Hf. cbn [app] in Hf.
    assert (E0 : col0 r = k) by (rewrite Hf; reflexivity).
    rewrite E0. split; [exact Hf|exact Hk]. }
  assert (Hmapk : map (key_of 1) out = map (fun r => [col0 r]) out).
  { apply map_ext_in. intros r Hr. apply (Hshape r Hr). }
  repeat split.
  - rewrite Hmapk in Hnd. rewrite <- (map_map col0 (fun k => [k])) in Hnd.
    eapply NoDup_map_inv. exact Hnd.
  - eapply StronglySorted_impl_in; [|exact Hs]. intros a b Ha Hb Hab. cbv beta in Hab.
    rewrite (proj2 (Hshape a Ha)), (proj2 (Hshape b Hb)), row_cmp_single in Hab. exact Hab.
  - intro Hin. apply in_map_iff in Hin as [r [<- Hr]].
    assert (Hin : In (key_of 1 r) (map (key_of 1) (map fold_row sh))) by (apply Hkeys; apply in_map; exact Hr).
    rewrite map_map in Hin. apply in_map_iff in Hin as [x [Ex Hx]].
    rewrite (proj2 (Hshape r Hr)) in Ex. inversion Ex as [E0]. apply in_map_iff. exists x. auto.
  - intro Hin. apply in_map_iff in Hin as [x [<- Hx]].
    assert (Hin : In [col0 x] (map (key_of 1) out)).
    { apply Hkeys. rewrite map_map. apply in_map_iff. exists x. auto. }
    apply in_map_iff in Hin as [r [Er Hr]]. rewrite (proj2 (Hshape r Hr)) in Er. inversion Er as [E0].
    apply in_map. exact Hr.
  - intros r Hr. destruct (Hshape r Hr) as [E Ek]. rewrite E at 1. f_equal. f_equal. f_equal.
    rewrite (Hvals r Hr), Ek, comb_list_sum, fold_vals. reflexivity.
Qed.

(* ====================================================================== *)
(* 4. Cogroup of one shard                                                 *)
(* ====================================================================== *)

Definition cogroup_keys (pre : nat) (ins : list (nat * list (list (list Z)))) : list (list (list Z)) :=
  dedup_sorted (sort_rows (flat_map (fun i => map (key_of pre) (snd i)) ins)).
(* the values in column c of the rows of sh with key k, in input order *)
Definition group_vals (pre : nat) (k : list (list Z)) (sh : list (list (list Z))) (c : nat) : list Z :=
  map (fun r => scalar (nth c r [])) (rows_of_key pre k sh).

Lemma row_lt_le_trans a b d : row_cmp a b = Lt -> row_leb b d = true -> row_cmp a d = Lt.
Proof.
  intros H1 H2. unfold row_leb in H2. destruct (row_cmp b d) eqn:E; try discriminate.
  - apply row_cmp_eq in E. subst. exact H1.
  - eapply row_cmp_lt_trans; eassumption.
Qed.

Lemma dedup_sorted_spec l : StronglySorted (fun a b => row_leb a b = true) l ->
  StronglySorted (fun a b => row_cmp a b = Lt) (dedup_sorted l) /\
  (forall x, In x (dedup_sorted l) <-> In x l).
Proof.
  intro H. induction H as [|x r HS IH HF]; [split; [constructor|reflexivity]|].
  destruct IH as [IHs IHi]. cbn [dedup_sorted]. destruct r as [|y r'].
  - split; [repeat constructor|reflexivity].
  - destruct (row_eqb x y) eqn:E.
    + apply row_eqb_iff in E. subst y. split; [exact IHs|].
      intro z. rewrite IHi. cbn [In]. intuition.
    + split.
      * constructor; [exact IHs|]. apply Forall_forall. intros z Hz. apply IHi in Hz.
        inversion HF as [|? ? Hxy HF']; subst. inversion HS as [|? ? _ HFy]; subst.
        assert (Hlt : row_cmp x y = Lt).
        { unfold row_leb in Hxy. unfold row_eqb in E. destruct (row_cmp x y); congruence. }
        destruct Hz as [<-|Hz]; [exact Hlt|].
        eapply row_lt_le_trans; [exact Hlt|]. rewrite Forall_forall in HFy. apply HFy. exact Hz.
      * intro z. cbn [In]. rewrite IHi. cbn [In]. reflexivity.
Qed.

Lemma strictly_sorted_nodup l : StronglySorted (fun a b => row_cmp a b = Lt) l -> NoDup l.
Proof.
  intro H. induction H as [|x l HS IH HF]; constructor; [|exact IH].
  intro Hin. rewrite Forall_forall in HF. specialize (HF x Hin). rewrite row_cmp_refl in HF. discriminate.
Qed.

Lemma flat_map_if {A B} (p : A -> bool) (g : A -> B) l :
  flat_map (fun r => if p r then [g r] else []) l = map g (filter p l).
Proof.
  induction l as [|x l IH]; [reflexivity|]. cbn [flat_map filter]. destruct (p x); cbn [map app]; rewrite IH; reflexivity.
Qed.

Lemma zsort_sorted l : StronglySorted Z.le (ZSort.sort l).
Proof.
  apply Sorted_StronglySorted; [intros a b d; apply Z.le_trans|].
  pose proof (ZSort.Sorted_sort l) as H.
  eapply Sorted_ind with (P := fun l => Sorted Z.le l); [constructor| |exact H].
  intros a l1 _ IH Hd. constructor; [exact IH|]. destruct Hd as [|b l2 Hab]; constructor.
  apply Z.leb_le. exact Hab.
Qed.

(* a group: the ascending list of exactly the values (as a multiset) of the rows
   with that key; empty when there is none *)
Theorem group_col_spec pre k sh c :
  StronglySorted Z.le (group_col pre k sh c) /\
  Permutation (group_col pre k sh c) (group_vals pre k sh c) /\
  (~ In k (map (key_of pre) sh) -> group_col pre k sh c = []).
Proof.
  unfold group_col, group_vals. rewrite flat_map_if. fold (rows_of_key pre k sh). repeat split.
  - apply zsort_sorted.
  - apply Permutation_sym. apply ZSort.Permuted_sort.
  - intro Hn. apply rows_of_key_nil_iff in Hn. rewrite Hn. reflexivity.
Qed.

(* THE LAW OF COGROUP (one shard), for all inputs: one row per distinct key of
   the union of the inputs, ascending; the row of key k is k followed, for every
   input i and each of its value columns c, by the group of (i, c) *)
Theorem cogroup_shard_spec pre ins :
  let keys := cogroup_keys pre ins in
  StronglySorted (fun a b => row_cmp a b = Lt) keys /\
  NoDup keys /\
  (forall k, In k keys <-> exists i, In i ins /\ In k (map (key_of pre) (snd i))) /\
  cogroup_shard pre ins
  = map (fun k => k ++ flat_map (fun i => map (group_col pre k (snd i)) (seq pre (fst i - pre))) ins) keys /\
  (forall k (i : nat * list (list (list Z))) c,
     StronglySorted Z.le (group_col pre k (snd i) c) /\
     Permutation (group_col pre k (snd i) c) (group_vals pre k (snd i) c) /\
     (~ In k (map (key_of pre) (snd i)) -> group_col pre k (snd i) c = [])).
Proof.
  cbv zeta. unfold cogroup_keys.
  destruct (dedup_sorted_spec _ (row_sort_strongly_sorted
              (flat_map (fun i : nat * list (list (list Z)) => map (key_of pre) (snd i)) ins))) as [Hs Hi].
  repeat split.
  - exact Hs.
  - apply strictly_sorted_nodup. exact Hs.
  - intro Hk. apply Hi in Hk. apply (Permutation_in _ (sort_rows_perm _)) in Hk.
    apply in_flat_map in Hk as [i [Hin Hk]]. exists i. auto.
  - intros [i [Hin Hk]]. apply Hi.
    apply (Permutation_in _ (Permutation_sym (sort_rows_perm _))).
    apply in_flat_map. exists i. auto.
  - apply group_col_spec.
  - apply group_col_spec.
  - apply group_col_spec.
Qed.

Lemma cogroup_shard_keys pre ins :
  (forall i, In i ins -> Forall (wfr pre) (snd i)) ->
  map (key_of pre) (cogroup_shard pre ins) = cogroup_keys pre ins.
Proof.
  intro Hwf. destruct (cogroup_shard_spec pre ins) as (_ & _ & Hkeys & E & _). cbv zeta in *.
  rewrite E, map_map. rewrite <- (map_id (cogroup_keys pre ins)) at 2.
  apply map_ext_in. intros k Hk. apply Hkeys in Hk as [i [Hi Hk]].
  apply in_map_iff in Hk as [r [<- Hr]]. unfold key_of at 1. apply firstn_app_exact.
  apply key_length. specialize (Hwf i Hi). rewrite Forall_forall in Hwf. apply Hwf. exact Hr.
Qed.

Theorem cogroup_shard_key_count pre ins k :
  (forall i, In i ins -> Forall (wfr pre) (snd i)) ->
  key_count pre k (cogroup_shard pre ins)
  = if existsb (fun i : nat * list (list (list Z)) => has_key pre k (snd i)) ins then 1 else 0.
Proof.
  intro Hwf. pose proof (cogroup_shard_keys pre ins Hwf) as EK.
  destruct (cogroup_shard_spec pre ins) as (_ & Hnd & Hkeys & _). cbv zeta in *.
  rewrite nodup_key_count by (rewrite EK; exact Hnd).
  assert (Hiff : has_key pre k (cogroup_shard pre ins) = true <->
                 existsb (fun i : nat * list (list (list Z)) => has_key pre k (snd i)) ins = true).
  { rewrite has_key_iff, EK, Hkeys, existsb_exists. split; intros [i [Hi Hk]]; exists i; split; auto;
      apply has_key_iff; exact Hk. }
  destruct (has_key pre k (cogroup_shard pre ins)), (existsb _ ins); try reflexivity.
  - destruct Hiff as [H _]. specialize (H eq_refl). discriminate.
  - destruct Hiff as [_ H]. specialize (H eq_refl). discriminate.
Qed.

(* ====================================================================== *)
(* 5. The row-wise operators and Head, shard by shard                      *)
(* ====================================================================== *)

Theorem head_spec {A} n (l : list A) :
  firstn_z n l = firstn (Z.to_nat n) l /\
  (exists rest, l = firstn_z n l ++ rest) /\
  length (firstn_z n l) = Nat.min (Z.to_nat n) (length l).
Proof.
  assert (E : firstn_z n l = firstn (Z.to_nat n) l).
  { unfold firstn_z. destruct (Z.leb_spec n 0); [|reflexivity].
    replace (Z.to_nat n) with 0 by lia. reflexivity. }
  rewrite E. repeat split.
  - exists (skipn (Z.to_nat n) l). symmetry. apply firstn_skipn.
  - apply firstn_length.
Qed.

Lemma nth_map_shards (F : list (list (list Z)) -> list (list (list Z))) v s :
  F [] = [] -> nth s (map_shards F v) [] = F (nth s (vshards v) []).
Proof. intro HF. unfold map_shards. rewrite <- HF at 1. apply map_nth. Qed.

(* shard s of Map / Filter / Flatmap / Head is the operator applied to shard s
   of the input, row by row and in order *)
Theorem rowwise_node_spec vs k i s :
  (forall es, nth s (vshards (fst (eval_node vs k (NMap i es)))) []
              = map (fun r => map (eval r) es) (nth s (vshards (get vs i)) [])) /\
  (forall e, nth s (vshards (fst (eval_node vs k (NFilter i e)))) []
             = filter (fun r => holds r e) (nth s (vshards (get vs i)) [])) /\
  (forall e, nth s (vshards (fst (eval_node vs k (NFlatmap i e)))) []
             = flat_map (fun r => map (fun j => r ++ [[Z.of_nat j]])
                                      (seq 0 (Z.to_nat (scalar (eval r e) mod 4))))
                        (nth s (vshards (get vs i)) [])) /\
  (forall n, nth s (vshards (fst (eval_node vs k (NHead i n)))) []
             = firstn (Z.to_nat n) (nth s (vshards (get vs i)) [])).
Proof.
  repeat split; intros; cbn [eval_node fst vshards].
  - apply nth_map_shards. reflexivity.
  - apply nth_map_shards. reflexivity.
  - apply nth_map_shards. reflexivity.
  - rewrite nth_map_shards by (unfold firstn_z; destruct (n <=? 0)%Z; [reflexivity|apply firstn_nil]).
    apply (proj1 (head_spec n _)).
Qed.

(* ====================================================================== *)
(* 6. Whole values: every key is emitted exactly once, in the shard its     *)
(*    hash names                                                           *)
(* ====================================================================== *)

Lemma key_count_app pre k a b : key_count pre k (a ++ b) = key_count pre k a + key_count pre k b.
Proof. unfold key_count, rows_of_key. rewrite filter_app, app_length. reflexivity. Qed.

Lemma key_count_concat_map pre k (Agg : nat -> list (list (list Z))) l :
  key_count pre k (concat (map Agg l)) = list_sum (map (fun p => key_count pre k (Agg p)) l).
Proof.
  induction l as [|p l IH]; [reflexivity|]. cbn [map concat list_sum]. rewrite key_count_app, IH. reflexivity.
Qed.

Lemma sum_indicator (F : nat -> nat) (pk n : nat) (h : bool) :
  (forall p, p < n -> F p = if h && Nat.eqb pk p then 1 else 0) ->
  list_sum (map F (seq 0 n)) = if h && Nat.ltb pk n then 1 else 0.
Proof.
  induction n as [|n IH]; intro H.
  - cbn. rewrite andb_false_r. reflexivity.
  - rewrite seq_S, map_app, list_sum_app. cbn [map list_sum Nat.add].
    rewrite IH by (intros p Hp; apply H; lia). rewrite (H n) by lia.
    destruct h; cbn [andb]; [|reflexivity].
    destruct (Nat.eqb_spec pk n) as [->|Hne].
    + rewrite Nat.ltb_irrefl. replace (n <? S n) with true by (symmetry; apply Nat.ltb_lt; lia). reflexivity.
    + destruct (Nat.ltb_spec pk n), (Nat.ltb_spec pk (S n)); try lia; reflexivity.
Qed.

(* the scheme shared by Reduce, Fold and Cogroup: shard p of the result
   aggregates shard p of a keyed shuffle *)
Lemma keyed_once pre kk (Agg : nat -> list (list (list Z))) n pk (h : bool) :
  (forall p, p < n -> key_count pre kk (Agg p) = if h && Nat.eqb pk p then 1 else 0) ->
  (h = true -> pk < n) ->
  key_count pre kk (concat (map Agg (seq 0 n))) = (if h then 1 else 0) /\
  (h = true -> key_count pre kk (nth pk (map Agg (seq 0 n)) []) = 1).
Proof.
  intros HA Hpk. split.
  - rewrite key_count_concat_map, (sum_indicator _ pk n h HA).
    destruct h; [|reflexivity]. cbn [andb]. specialize (Hpk eq_refl).
    replace (pk <? n) with true by (symmetry; apply Nat.ltb_lt; exact Hpk). reflexivity.
  - intro Hh. specialize (Hpk Hh). rewrite (nth_map_lt _ _ _ 0) by (rewrite seq_length; exact Hpk).
    rewrite seq_nth by exact Hpk. cbn [Nat.add]. rewrite (HA pk Hpk), Hh, Nat.eqb_refl. reflexivity.
Qed.

(* a row goes to the shard named by its key alone *)
Theorem shard_of_row ts pre n r : part ts pre n r = part ts pre n (key_of pre r).
Proof.
  apply part_key_only. unfold key_of. rewrite firstn_firstn, Nat.min_id. reflexivity.
Qed.

Lemma has_key_filter_part ts pre n kk p rows :
  has_key pre kk (filter (fun r => Nat.eqb (part ts pre n r) p) rows)
  = has_key pre kk rows && Nat.eqb (part ts pre n kk) p.
Proof.
  unfold has_key. induction rows as [|r rows IH]; [reflexivity|]. cbn [filter existsb].
  destruct (row_eqb (key_of pre r) kk) eqn:E.
  - apply row_eqb_iff in E. rewrite (shard_of_row ts pre n r), E.
    destruct (Nat.eqb (part ts pre n kk) p); cbn [existsb orb andb].
    + rewrite <- E, (proj2 (row_eqb_iff _ _) eq_refl). reflexivity.
    + rewrite IH. apply andb_false_r.
  - destruct (Nat.eqb (part ts pre n r) p); cbn [existsb orb]; [rewrite E|]; exact IH.
Qed.

Lemma shuffle_shard f n shards p : p < n ->
  nth p (shuffle f n shards) [] = filter (fun r => Nat.eqb (f r) p) (concat shards).
Proof.
  intro Hp. unfold shuffle. rewrite (nth_map_lt _ _ _ 0) by (rewrite seq_length; exact Hp).
  rewrite seq_nth by exact Hp. apply filter_concat.
Qed.

Lemma shuffle_as_map f n shards :
  shuffle f n shards = map (fun p => filter (fun r => Nat.eqb (f r) p) (concat shards)) (seq 0 n).
Proof. unfold shuffle. apply map_ext. intro p. apply filter_concat. Qed.

Lemma has_key_rows_nonempty pre kk rows : has_key pre kk rows = true -> rows <> [].
Proof. intros H ->. discriminate. Qed.

Lemma concat_nonempty_length {A} (ls : list (list A)) : concat ls <> [] -> 0 < length ls.
Proof. destruct ls; [intro H; exfalso; apply H; reflexivity|simpl; lia]. Qed.

(* ---- Reduce ---- *)
Theorem reduce_emits_each_key_once vs k i c kk :
  let v := get vs i in
  let out := fst (eval_node vs k (NReduce i c)) in
  Forall (Forall (wfr (vpre v))) (vshards v) ->
  key_count (vpre v) kk (concat (vshards out)) = (if has_key (vpre v) kk (concat (vshards v)) then 1 else 0) /\
  (has_key (vpre v) kk (concat (vshards v)) = true ->
   key_count (vpre v) kk (nth (part (vtypes v) (vpre v) (nshards v) kk) (vshards out) []) = 1).
Proof.
  cbv zeta. cbn [eval_node fst vshards]. set (v := get vs i). intro Hwf.
  rewrite shuffle_as_map, map_map.
  apply keyed_once.
  - intros p Hp. rewrite reduce_shard_key_count.
    + rewrite has_key_filter_part. reflexivity.
    + apply Forall_filter. apply Forall_concat. exact Hwf.
  - intro Hh. apply part_in_range. apply has_key_rows_nonempty in Hh.
    apply concat_nonempty_length in Hh. exact Hh.
Qed.

(* ---- Fold ---- *)
Lemma has_key_fold_row kk rows : Forall (wfr 1) rows ->
  has_key 1 kk (map fold_row rows) = has_key 1 kk rows.
Proof.
  unfold has_key. intro H. induction H as [|r rows Hr H IH]; [reflexivity|].
  cbn [map existsb]. rewrite IH. f_equal. f_equal.
  destruct r as [|x r']; [unfold wfr in Hr; simpl in Hr; lia|reflexivity].
Qed.

Theorem fold_emits_each_key_once vs k i kk :
  let v := get vs i in
  let out := fst (eval_node vs k (NFold i)) in
  Forall (Forall (wfr 1)) (vshards v) ->
  key_count 1 kk (concat (vshards out)) = (if has_key 1 kk (concat (vshards v)) then 1 else 0) /\
  (has_key 1 kk (concat (vshards v)) = true ->
   key_count 1 kk (nth (part (vtypes v) 1 (nshards v) kk) (vshards out) []) = 1).
Proof.
  cbv zeta. cbn [eval_node fst vshards]. set (v := get vs i). intro Hwf.
  rewrite shuffle_as_map, map_map.
  apply keyed_once.
  - intros p Hp. rewrite fold_shard_reduce, reduce_shard_key_count by apply wf_map_fold_row.
    rewrite has_key_fold_row by (apply Forall_filter; apply Forall_concat; exact Hwf).
    rewrite has_key_filter_part. reflexivity.
  - intro Hh. apply part_in_range. apply has_key_rows_nonempty in Hh.
    apply concat_nonempty_length in Hh. exact Hh.
Qed.

(* ---- Cogroup ---- *)
Lemma hash_key_firstn_ts : forall pre ts r, hash_key ts r pre = hash_key (firstn pre ts) r pre.
Proof.
  induction pre as [|pre IH]; intros ts r; [destruct ts, r; reflexivity|].
  destruct ts as [|t ts], r as [|x r]; try reflexivity. cbn [firstn hash_key]. rewrite <- IH. reflexivity.
Qed.

(* the shard of a key depends on the types of the key columns only *)
Lemma part_types_prefix ts ts' pre n r : firstn pre ts = firstn pre ts' -> part ts pre n r = part ts' pre n r.
Proof. intro E. unfold part. rewrite (hash_key_firstn_ts pre ts), (hash_key_firstn_ts pre ts'), E. reflexivity. Qed.

Lemma existsb_map {A B} (g : B -> bool) (h : A -> B) l : existsb g (map h l) = existsb (fun x => g (h x)) l.
Proof. induction l as [|x l IH]; [reflexivity|]. cbn [map existsb]. rewrite IH. reflexivity. Qed.

Lemma existsb_andb_const {A} (g hx : A -> bool) (b : bool) l :
  (forall x, In x l -> g x = hx x && b) -> existsb g l = existsb hx l && b.
Proof.
  induction l as [|x l IH]; intro H; [reflexivity|]. cbn [existsb].
  rewrite (H x) by (left; reflexivity). rewrite IH by (intros y Hy; apply H; right; exact Hy).
  destruct (hx x), b, (existsb hx l); reflexivity.
Qed.

Lemma fold_left_max_ge l : forall a x, In x l \/ x <= a -> x <= fold_left Nat.max l a.
Proof.
  induction l as [|y l IH]; intros a x H; cbn [fold_left].
  - destruct H as [[]|H]; exact H.
  - apply IH. destruct H as [[<-|H]|H]; [right; lia|left; exact H|right; lia].
Qed.

Theorem cogroup_emits_each_key_once vs k is kk :
  let ins := map (get vs) is in
  let f := get vs (hd 0 is) in
  let pre := vpre f in
  let n := fold_left Nat.max (map nshards ins) 0 in
  let out := fst (eval_node vs k (NCogroup is)) in
  let h := existsb (fun v => has_key pre kk (concat (vshards v))) ins in
  (forall v, In v ins -> Forall (Forall (wfr pre)) (vshards v)) ->
  (forall v, In v ins -> firstn pre (vtypes v) = firstn pre (vtypes f)) ->   (* same key column types *)
  key_count pre kk (concat (vshards out)) = (if h then 1 else 0) /\
  (h = true -> key_count pre kk (nth (part (vtypes f) pre n kk) (vshards out) []) = 1).
Proof.
  cbv zeta. cbn [eval_node fst vshards].
  set (ins := map (get vs) is). set (f := get vs (hd 0 is)). set (pre := vpre f).
  set (n := fold_left Nat.max (map nshards ins) 0).
  intros Hwf Hty. apply keyed_once.
  - intros p Hp. rewrite !map_map. cbn [fst snd].
    rewrite cogroup_shard_key_count.
    + rewrite existsb_map. cbn [snd].
      rewrite (existsb_andb_const _ (fun v => has_key pre kk (concat (vshards v)))
                 (Nat.eqb (part (vtypes f) pre n kk) p)); [reflexivity|].
      intros v Hv.
      rewrite shuffle_shard by exact Hp. rewrite has_key_filter_part.
      rewrite (part_types_prefix (vtypes v) (vtypes f) pre n kk (Hty v Hv)). reflexivity.
    + intros s Hs. apply in_map_iff in Hs as [v [<- Hv]]. cbn [snd].
      rewrite shuffle_shard by exact Hp. apply Forall_filter. apply Forall_concat. apply Hwf. exact Hv.
  - intro Hh. apply part_in_range. apply existsb_exists in Hh as [v [Hv Hk]].
    apply has_key_rows_nonempty in Hk. apply concat_nonempty_length in Hk.
    assert (nshards v <= n); [|unfold nshards in *; lia].
    apply fold_left_max_ge. left. apply in_map. exact Hv.
Qed.

(* the three keyed aggregations together *)
Theorem keyed_aggregation_emits_each_key_once vs k kk :
  (forall i c, let v := get vs i in
     Forall (Forall (wfr (vpre v))) (vshards v) ->
     key_count (vpre v) kk (concat (vshards (fst (eval_node vs k (NReduce i c)))))
     = if has_key (vpre v) kk (concat (vshards v)) then 1 else 0) /\
  (forall i, let v := get vs i in
     Forall (Forall (wfr 1)) (vshards v) ->
     key_count 1 kk (concat (vshards (fst (eval_node vs k (NFold i)))))
     = if has_key 1 kk (concat (vshards v)) then 1 else 0) /\
  (forall is, let ins := map (get vs) is in let f := get vs (hd 0 is) in
     (forall v, In v ins -> Forall (Forall (wfr (vpre f))) (vshards v)) ->
     (forall v, In v ins -> firstn (vpre f) (vtypes v) = firstn (vpre f) (vtypes f)) ->
     key_count (vpre f) kk (concat (vshards (fst (eval_node vs k (NCogroup is)))))
     = if existsb (fun v => has_key (vpre f) kk (concat (vshards v))) ins then 1 else 0).
Proof.
  repeat split; cbv zeta; intros.
  - apply reduce_emits_each_key_once. assumption.
  - apply fold_emits_each_key_once. assumption.
  - apply cogroup_emits_each_key_once; assumption.
Qed.

(* ... and the shard that row is in *)
Theorem shard_of_key vs k kk :
  (forall i c, let v := get vs i in
     Forall (Forall (wfr (vpre v))) (vshards v) -> has_key (vpre v) kk (concat (vshards v)) = true ->
     key_count (vpre v) kk (nth (part (vtypes v) (vpre v) (nshards v) kk)
                                (vshards (fst (eval_node vs k (NReduce i c)))) []) = 1) /\
  (forall i, let v := get vs i in
     Forall (Forall (wfr 1)) (vshards v) -> has_key 1 kk (concat (vshards v)) = true ->
     key_count 1 kk (nth (part (vtypes v) 1 (nshards v) kk) (vshards (fst (eval_node vs k (NFold i)))) []) = 1) /\
  (forall is, let ins := map (get vs) is in let f := get vs (hd 0 is) in
     (forall v, In v ins -> Forall (Forall (wfr (vpre f))) (vshards v)) ->
     (forall v, In v ins -> firstn (vpre f) (vtypes v) = firstn (vpre f) (vtypes f)) ->
     existsb (fun v => has_key (vpre f) kk (concat (vshards v))) ins = true ->
     key_count (vpre f) kk
       (nth (part (vtypes f) (vpre f) (fold_left Nat.max (map nshards ins) 0) kk)
            (vshards (fst (eval_node vs k (NCogroup is)))) []) = 1).
Proof.
  repeat split; cbv zeta; intros.
  - apply reduce_emits_each_key_once; assumption.
  - apply fold_emits_each_key_once; assumption.
  - apply cogroup_emits_each_key_once; assumption.
Qed.

(* without the hypothesis on the key column types the law of Cogroup fails in
   the reference semantics: an Int key and a String key with the same cell hash
   differently, so the "same" key is emitted by two shards *)
Example cogroup_key_types_needed :
  exists vs is kk,
    let f := get vs (hd 0 is) in
    key_count (vpre f) kk (concat (vshards (fst (eval_node vs 2 (NCogroup is))))) = 2.
Proof.
  exists [mkV [[ [[1%Z]; [10%Z]] ]; []] [TI; TI] 1 true; mkV [[ [[1%Z]; [20%Z]] ]; []] [TS; TI] 1 true],
         [0; 1], [[1%Z]].
  vm_compute. reflexivity.
Qed.

(* ====================================================================== *)
(* 7. Non-vacuity                                                          *)
(* ====================================================================== *)

Definition ex_shard : list (list (list Z)) :=
  [ [[2]; [5]]; [[1]; [7]]; [[2]; [3]]; [[1]; [1]]; [[3]; [4]]; [[2]; [10]] ]%Z.

Example ex_shard_wf : Forall (wfr 1) ex_shard /\ Forall (wf_row 1) ex_shard.
Proof.
  split; unfold ex_shard; repeat constructor; try (unfold wfr; simpl; lia); eexists; reflexivity.
Qed.

Example reduce_shard_example :
  reduce_shard CMax 1 ex_shard = [ [[1]; [7]]; [[2]; [10]]; [[3]; [4]] ]%Z /\
  vals_of 1 [[2%Z]] ex_shard = [5; 3; 10]%Z /\ comb_list CMax [5; 3; 10]%Z = 10%Z /\
  comb_list CSum (vals_of 1 [[2%Z]] ex_shard) = 18%Z.
Proof. vm_compute. repeat split. Qed.

Example reduce_shard_spec_applies :
  forall r, In r (reduce_shard CSum 1 ex_shard) -> val 1 r = comb_list CSum (vals_of 1 (key_of 1 r) ex_shard).
Proof. apply (reduce_shard_spec CSum 1 ex_shard (proj1 ex_shard_wf)). Qed.

Example fold_shard_example :
  fold_shard [ [[2]; [5]; [1]]; [[1]; [7]; [0]]; [[2]; [3]; [3]] ]%Z = [ [[1]; [7]]; [[2]; [12]] ]%Z.
Proof. vm_compute. reflexivity. Qed.

Example cogroup_shard_example :
  cogroup_shard 1 [ (2, [ [[2]; [5]]; [[1]; [7]]; [[2]; [3]] ]%Z); (2, [ [[3]; [9]]; [[2]; [8]] ]%Z) ]
  = [ [[1]; [7]; []]; [[2]; [3; 5]; [8]]; [[3]; []; [9]] ]%Z /\
  cogroup_keys 1 [ (2, [ [[2]; [5]]; [[1]; [7]]; [[2]; [3]] ]%Z); (2, [ [[3]; [9]]; [[2]; [8]] ]%Z) ]
  = [ [[1]]; [[2]]; [[3]] ]%Z.
Proof. vm_compute. split; reflexivity. Qed.

Definition ex_laws_prog : list node :=
  [ NConst 3 [TI; TI] [[1; 2; 3; 1; 2; 3; 4; 5; 1; 7; 2]%Z; [10; 20; 30; 40; 50; 60; 70; 80; 90; 100; 110]%Z];
    NReduce 0 CSum ].

Example whole_value_example :
  let vs := values_of_ref ex_laws_prog in
  let out := nth 1 vs vempty in
  key_count 1 [[2%Z]] (concat (vshards (nth 0 vs vempty))) = 3 /\
  key_count 1 [[2%Z]] (concat (vshards out)) = 1 /\
  key_count 1 [[6%Z]] (concat (vshards out)) = 0 /\
  key_count 1 [[2%Z]] (nth (part [TI; TI] 1 3 [[2%Z]]) (vshards out) []) = 1.
Proof. vm_compute. repeat split. Qed.

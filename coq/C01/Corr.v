(* C01 — judging observed runs against the reference semantics (vm_compute). *)
From Coq Require Import List ZArith Bool.
Import ListNotations.
Require Export BS.Common.Util BS.C01.Sem.
Local Open Scope Z_scope.

Inductive errc := EOk | EUser | ETimeout | EOther | EPanic | EHang | EIllformed.

Definition errc_eqb (a b : errc) : bool :=
  match a, b with
  | EOk, EOk | EUser, EUser | ETimeout, ETimeout | EOther, EOther | EPanic, EPanic
  | EHang, EHang | EIllformed, EIllformed => true
  | _, _ => false
  end.

Record obs := mkObs {
  oerr : errc;
  oshards : list (list (list (list Z)));   (* rows of every root shard *)
  osherr : list errc;
  oscanned : list (list (list Z));         (* Result.Scanner, in delivery order *)
  oscanerr : errc;
  owriter : list side;
  oscan : list side
}.

Record case := mkCase { cprog : list node; cobs : obs }.

Definition rows_eqb := list_eqb row_eqb.

(* equal as lists when the program fixes the order, as multisets otherwise *)
Definition shard_ok (ordered : bool) (expected observed : list (list (list Z))) : bool :=
  if ordered then rows_eqb expected observed
  else rows_eqb (sort_rows expected) (sort_rows observed).

Fixpoint shards_ok (ordered : bool) (ex ob : list (list (list (list Z)))) : bool :=
  match ex, ob with
  | [], [] => true
  | e :: ex', o :: ob' => shard_ok ordered e o && shards_ok ordered ex' ob'
  | _, _ => false
  end.

(* the scanner must deliver the shards one after the other *)
Fixpoint scanned_ok (ordered : bool) (ex : list (list (list (list Z)))) (sc : list (list (list Z))) : bool :=
  match ex with
  | [] => match sc with [] => true | _ => false end
  | e :: ex' => shard_ok ordered e (firstn (length e) sc) && scanned_ok ordered ex' (skipn (length e) sc)
  end.

Definition lookup_ordered (l : list (nat * bool)) (k : nat) : bool :=
  match find (fun p => Nat.eqb (fst p) k) l with Some p => snd p | None => true end.

(* every observed stream of an expected (node, shard) is complete, correct and
   ended exactly once; at least one stream exists; no unexpected streams *)
Definition side_ok (ord : list (nat * bool)) (expected observed : list side) : bool :=
  forallb (fun e =>
     let mine := filter (fun o => Nat.eqb (snode o) (snode e) && Nat.eqb (sshard o) (sshard e)) observed in
     negb (Nat.eqb (length mine) 0) &&
     forallb (fun o => shard_ok (lookup_ordered ord (snode e)) (srows e) (srows o)
                       && Nat.eqb (seofs o) 1 && serrnil o) mine) expected
  && forallb (fun o => existsb (fun e => Nat.eqb (snode o) (snode e) && Nat.eqb (sshard o) (sshard e)) expected) observed.

Definition is_scan (s : side) (p : list node) : bool :=
  match nth (snode s) p (NCache 0) with NScan _ => true | _ => false end.

(* judging one observation against an already evaluated reference *)
Definition ok_with (r : result) (p : list node) (o : obs) : bool :=
  let v := rvalue r in
  errc_eqb (oerr o) EOk
  && forallb (fun e => errc_eqb e EOk) (osherr o)
  && errc_eqb (oscanerr o) EOk
  && shards_ok (vordered v) (vshards v) (oshards o)
  && scanned_ok (vordered v) (vshards v) (oscanned o)
  && side_ok (rordered r) (filter (fun s => negb (is_scan s p)) (rsides r)) (owriter o)
  && side_ok (rordered r) (filter (fun s => is_scan s p) (rsides r)) (oscan o).

(* rows only (used where a retried task legitimately leaves an aborted callback stream) *)
Definition ok_rows_with (r : result) (o : obs) : bool :=
  let v := rvalue r in
  errc_eqb (oerr o) EOk
  && forallb (fun e => errc_eqb e EOk) (osherr o)
  && errc_eqb (oscanerr o) EOk
  && shards_ok (vordered v) (vshards v) (oshards o)
  && scanned_ok (vordered v) (vshards v) (oscanned o).

(* The model IS the reference semantics, so model/implementation mismatch and
   property violation coincide for C01. *)
Definition ok (c : case) : bool := ok_with (ref (cprog c)) (cprog c) (cobs c).

Definition violations (cs : list case) : list nat := bad_indices ok cs.
Definition mismatches (cs : list case) : list nat := violations cs.

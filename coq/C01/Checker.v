(* Soundness of the observation checker: what [ok_with] = true means in Prop. *)
From Coq Require Import List ZArith Bool Permutation Lia.
Import ListNotations.
Require Import BS.Common.Util BS.C01.Sem BS.C01.Corr.

Lemma cell_cmp_eq : forall a b, cell_cmp a b = Eq -> a = b.
Proof.
  induction a as [|x a IH]; destruct b as [|y b]; simpl; intro H; try reflexivity; try discriminate.
  destruct (Z.compare_spec x y) as [E| |]; try discriminate. subst. f_equal. apply IH. exact H.
Qed.

Lemma row_cmp_eq : forall a b, row_cmp a b = Eq -> a = b.
Proof.
  induction a as [|x a IH]; destruct b as [|y b]; simpl; intro H; try reflexivity; try discriminate.
  destruct (cell_cmp x y) eqn:E; try discriminate. apply cell_cmp_eq in E. subst. f_equal. apply IH. exact H.
Qed.

Lemma row_eqb_eq a b : row_eqb a b = true -> a = b.
Proof. unfold row_eqb. destruct (row_cmp a b) eqn:E; try discriminate. intros _. apply row_cmp_eq. exact E. Qed.

Lemma rows_eqb_eq : forall a b, rows_eqb a b = true -> a = b.
Proof.
  unfold rows_eqb. induction a as [|x a IH]; destruct b as [|y b]; simpl; intro H; try reflexivity; try discriminate.
  apply andb_true_iff in H as [H1 H2]. apply row_eqb_eq in H1. subst. f_equal. apply IH. exact H2.
Qed.

Definition agree (ordered : bool) (a b : list (list (list Z))) : Prop :=
  if ordered then a = b else Permutation a b.

Lemma agree_sym o a b : agree o a b -> agree o b a.
Proof. destruct o; simpl; [congruence|apply Permutation_sym]. Qed.
Lemma agree_trans o a b c : agree o a b -> agree o b c -> agree o a c.
Proof. destruct o; simpl; [congruence|apply Permutation_trans]. Qed.

(* a shard accepted by the checker holds the reference rows: the same list where
   the program fixes the order, a permutation of it otherwise *)
Theorem shard_ok_sound ordered e o : shard_ok ordered e o = true -> agree ordered e o.
Proof.
  unfold shard_ok, agree. destruct ordered; intro H.
  - apply rows_eqb_eq. exact H.
  - apply rows_eqb_eq in H. unfold sort_rows in H.
    eapply Permutation_trans; [apply RowSort.Permuted_sort|].
    rewrite H. apply Permutation_sym. apply RowSort.Permuted_sort.
Qed.

Theorem shards_ok_sound ordered : forall ex ob,
  shards_ok ordered ex ob = true -> Forall2 (agree ordered) ex ob.
Proof.
  induction ex as [|e ex IH]; destruct ob as [|o ob]; simpl; intro H; try discriminate; [constructor|].
  apply andb_true_iff in H as [H1 H2]. constructor; [apply shard_ok_sound; exact H1|apply IH; exact H2].
Qed.

(* an accepted run returned success and its root shards are the reference's *)
Theorem ok_with_sound r p o :
  ok_with r p o = true ->
  oerr o = EOk /\ Forall2 (agree (vordered (rvalue r))) (vshards (rvalue r)) (oshards o).
Proof.
  unfold ok_with. intro H. repeat (apply andb_true_iff in H as [H ?]).
  split.
  - destruct (oerr o); try discriminate; reflexivity.
  - apply shards_ok_sound. assumption.
Qed.

Lemma Forall2_agree_trans o : forall a b c,
  Forall2 (agree o) a b -> Forall2 (agree o) a c -> Forall2 (agree o) b c.
Proof.
  induction a as [|x a IH]; intros b c Hb Hc; inversion Hb; inversion Hc; subst; constructor.
  - eapply agree_trans; [apply agree_sym; eassumption|eassumption].
  - apply IH; assumption.
Qed.

(* two runs of one program that the checker both accepts produced the same
   rows, shard by shard: this is how runs under different execution strategies
   are compared (through the reference, which has no notion of strategy) *)
Theorem accepted_runs_agree r p o1 o2 :
  ok_with r p o1 = true -> ok_with r p o2 = true ->
  Forall2 (agree (vordered (rvalue r))) (oshards o1) (oshards o2).
Proof.
  intros H1 H2. apply ok_with_sound in H1 as [_ H1]. apply ok_with_sound in H2 as [_ H2].
  eapply Forall2_agree_trans; eassumption.
Qed.

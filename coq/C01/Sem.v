(* C01 — reference semantics of slice programs: a sequential evaluation of the
   documented operator meanings (doc comments of slice.go, reduce.go, cogroup.go,
   reshuffle.go, reshard.go, scan.go).  Executable; no proofs in this file.

   A cell is a list of Z: a scalar is a one-element list (strings are the index
   of the harness' order-preserving string pool), a cogroup group is the sorted
   list of its values.  A row is a list of cells; a shard a list of rows. *)
From Coq Require Import List ZArith NArith Bool Sorting.Mergesort Orders Lia.
Import ListNotations.
Require Import BS.Common.Util BS.Common.Murmur.
Local Open Scope Z_scope.

Notation cell := (list Z) (only parsing).
Notation row := (list (list Z)) (only parsing).
Notation shard := (list (list (list Z))) (only parsing).

Inductive colty := TI | TS | TGI | TGS.

Inductive expr :=
| ECol (i : nat)
| EAddMod (e : expr) (a b : Z)
| EToStr (e : expr)
| EToInt (e : expr)
| ESumG (i : nat)
| ELenG (i : nat)
| EConst (a : Z)
| EEven (e : expr)
| ELt (e : expr) (a : Z)
| ETrue
| EFalse.

Inductive comb := CSum | CMax | CMin.

Inductive node :=
| NArg (n : nat) (ts : list colty) (pre : nat)
| NConst (n : nat) (ts : list colty) (cols : list (list Z))
| NReaderFunc (n : nat) (t : colty) (a b : Z)
| NScanReader (n : nat) (lines : list Z)
| NMap (i : nat) (es : list expr)
| NFilter (i : nat) (e : expr)
| NFlatmap (i : nat) (e : expr)
| NFold (i : nat)
| NHead (i : nat) (n : Z)
| NReduce (i : nat) (c : comb)
| NCogroup (is : list nat)
| NReshuffle (i : nat)
| NReshard (i : nat) (n : nat)
| NRepartition (i : nat) (e : expr)
| NPrefixed (i : nat) (p : nat)
| NScan (i : nat)
| NWriterFunc (i : nat)
| NCache (i : nat).

Notation prog := (list node) (only parsing).

(* ---------------- orders on cells and rows (total, lexicographic) ---------------- *)

Fixpoint cell_cmp (a b : list Z) : comparison :=
  match a, b with
  | [], [] => Eq
  | [], _ => Lt
  | _, [] => Gt
  | x :: a', y :: b' => match Z.compare x y with Eq => cell_cmp a' b' | c => c end
  end.

Fixpoint row_cmp (a b : list (list Z)) : comparison :=
  match a, b with
  | [], [] => Eq
  | [], _ => Lt
  | _, [] => Gt
  | x :: a', y :: b' => match cell_cmp x y with Eq => row_cmp a' b' | c => c end
  end.

Definition row_leb (a b : list (list Z)) : bool :=
  match row_cmp a b with Gt => false | _ => true end.
Definition row_eqb (a b : list (list Z)) : bool :=
  match row_cmp a b with Eq => true | _ => false end.

Module RowOrder <: TotalLeBool.
  Definition t := list (list Z).
  Definition leb := row_leb.
  Lemma cell_cmp_antisym : forall a b, cell_cmp b a = CompOpp (cell_cmp a b).
  Proof.
    induction a as [|x a IH]; destruct b as [|y b]; simpl; try reflexivity.
    rewrite (Z.compare_antisym x y). destruct (x ?= y)%Z; simpl; auto.
  Qed.
  Lemma row_cmp_antisym : forall a b, row_cmp b a = CompOpp (row_cmp a b).
  Proof.
    induction a as [|x a IH]; destruct b as [|y b]; simpl; try reflexivity.
    rewrite (cell_cmp_antisym x y). destruct (cell_cmp x y); simpl; auto.
  Qed.
  Theorem leb_total : forall a b, leb a b = true \/ leb b a = true.
  Proof.
    intros a b. unfold leb, row_leb. rewrite (row_cmp_antisym a b).
    destruct (row_cmp a b); simpl; auto.
  Qed.
End RowOrder.
Module RowSort := Sort RowOrder.

Definition sort_rows (l : list (list (list Z))) : list (list (list Z)) := RowSort.sort l.

Module ZOrder <: TotalLeBool.
  Definition t := Z.
  Definition leb := Z.leb.
  Theorem leb_total : forall a b, leb a b = true \/ leb b a = true.
  Proof. intros a b. unfold leb. destruct (Z.leb_spec a b); auto. right. apply Z.leb_le. lia. Qed.
End ZOrder.
Module ZSort := Sort ZOrder.

(* ---------------- expressions ---------------- *)

Definition scalar (c : list Z) : Z := match c with [z] => z | _ => 0 end.

Fixpoint eval (r : list (list Z)) (e : expr) : list Z :=
  match e with
  | ECol i => nth i r []
  | EAddMod e a b => [ (scalar (eval r e) + a) mod b ]
  | EToStr e => [ scalar (eval r e) mod 10000 ]
  | EToInt e => [ scalar (eval r e) ]
  | ESumG i => [ fold_left Z.add (nth i r []) 0 ]
  | ELenG i => [ Z.of_nat (length (nth i r [])) ]
  | EConst a => [ a ]
  | EEven e => [ if Z.eqb (scalar (eval r e) mod 2) 0 then 1 else 0 ]
  | ELt e a => [ if Z.ltb (scalar (eval r e)) a then 1 else 0 ]
  | ETrue => [ 1 ]
  | EFalse => [ 0 ]
  end.

Definition holds (r : list (list Z)) (e : expr) : bool := Z.eqb (scalar (eval r e)) 1.

Fixpoint expr_ty (ts : list colty) (e : expr) : colty :=
  match e with
  | ECol i => nth i ts TI
  | EToStr _ => TS
  | _ => TI
  end.

(* ---------------- hashing of keys: frame.Hash, seed 0 ---------------- *)

(* the harness' string pool: index z <-> "s%04d" *)
Definition digit (z : Z) (p : Z) : N := Z.to_N (48 + (z / p) mod 10).
Definition str_bytes (z : Z) : list N :=
  if Z.ltb z 0 then [] else [115%N; digit z 1000; digit z 100; digit z 10; digit z 1].

Definition hash_cell (t : colty) (c : list Z) : N :=
  match t with
  | TS => sum32 (str_bytes (scalar c)) 0
  | _ => hash_int (scalar c) 0
  end.

Fixpoint hash_key (ts : list colty) (r : list (list Z)) (pre : nat) : N :=
  match pre, ts, r with
  | S k, t :: ts', c :: r' => N.lxor (hash_cell t c) (hash_key ts' r' k)
  | _, _, _ => 0%N
  end.

(* exec/compile.go defaultPartitioner: int(frame.Hash(i) % uint32(nshard)) *)
Definition part (ts : list colty) (pre : nat) (nshard : nat) (r : list (list Z)) : nat :=
  N.to_nat (hash_key ts r pre mod N.of_nat nshard).

(* ---------------- values ---------------- *)

Record value := mkV {
  vshards : list (list (list (list Z)));
  vtypes : list colty;
  vpre : nat;
  vordered : bool   (* is the order of rows inside a shard fixed by the program? *)
}.

Definition vempty : value := mkV [] [] 1 true.
Definition nshards (v : value) : nat := length (vshards v).

(* one side-effect stream expected from a writerfunc / scan node *)
Record side := mkSide {
  snode : nat; sshard : nat; srows : list (list (list Z));
  seofs : nat; serrnil : bool; sruns : nat
}.

(* slice.go constShard *)
Definition const_shard (n nshard sh : Z) : Z * Z :=
  let quot := n / nshard in
  let rem := n mod nshard in
  if sh <? rem then (quot * sh + sh, quot + 1) else (quot * sh + rem, quot).

Fixpoint transpose_rows (n : nat) (cols : list (list Z)) (i : nat) : list (list (list Z)) :=
  match n with
  | O => []
  | S k => map (fun c => [nth i c 0]) cols :: transpose_rows k cols (S i)
  end.

Definition const_rows (cols : list (list Z)) : list (list (list Z)) :=
  transpose_rows (match cols with [] => 0%nat | c :: _ => length c end) cols 0.

Definition sub_list {A} (l : list A) (off len : nat) : list A := firstn len (skipn off l).

Definition const_value (n : nat) (ts : list colty) (cols : list (list Z)) : value :=
  let rows := const_rows cols in
  let total := Z.of_nat (length rows) in
  mkV (map (fun s => let '(off, cnt) := const_shard total (Z.of_nat n) (Z.of_nat s) in
                     sub_list rows (Z.to_nat off) (Z.to_nat cnt)) (seq 0 n))
      ts 1 true.

Definition reader_rows (a b : Z) (s : nat) : list (list (list Z)) :=
  let cnt := Z.to_nat ((a + Z.of_nat s * b) mod 150) in
  map (fun i => [[ (Z.of_nat s * 7 + Z.of_nat i * 3) mod 23 ]; [ Z.of_nat i ]]) (seq 0 cnt).

(* lines s, s+n, s+2n, ... *)
Fixpoint every_nth (n : nat) (l : list Z) (k : nat) : list (list (list Z)) :=
  match l with
  | [] => []
  | x :: r => match k with
              | O => [[x]] :: every_nth n r (n - 1)
              | S k' => every_nth n r k'
              end
  end.

(* shuffle: consumer shard p receives, from every producer shard in order, the
   rows whose partition is p *)
Definition shuffle (f : list (list Z) -> nat) (n : nat) (shards : list (list (list (list Z))))
  : list (list (list (list Z))) :=
  map (fun p => flat_map (fun sh => filter (fun r => Nat.eqb (f r) p) sh) shards) (seq 0 n).

Definition key_of (pre : nat) (r : list (list Z)) : list (list Z) := firstn pre r.

Definition comb_apply (c : comb) (a b : Z) : Z :=
  match c with CSum => a + b | CMax => Z.max a b | CMin => Z.min a b end.

(* rows sorted; combine adjacent rows with equal key *)
Fixpoint reduce_sorted (c : comb) (pre : nat) (l : list (list (list Z))) (acc : option (list (list Z)))
  : list (list (list Z)) :=
  match l with
  | [] => match acc with Some r => [r] | None => [] end
  | r :: rest =>
      match acc with
      | None => reduce_sorted c pre rest (Some r)
      | Some a =>
          if row_eqb (key_of pre a) (key_of pre r)
          then reduce_sorted c pre rest
                 (Some (key_of pre a ++ [[comb_apply c (scalar (nth pre a [])) (scalar (nth pre r []))]]))
          else a :: reduce_sorted c pre rest (Some r)
      end
  end.

Definition reduce_shard (c : comb) (pre : nat) (sh : list (list (list Z))) : list (list (list Z)) :=
  reduce_sorted c pre (sort_rows sh) None.

(* fold: key = column 0, accumulator starts at 0 and adds every value column *)
Definition fold_row (r : list (list Z)) : list (list Z) :=
  [nth 0 r []; [fold_left (fun s c => s + scalar c) (tl r) 0]].
Definition fold_shard (sh : list (list (list Z))) : list (list (list Z)) :=
  reduce_sorted CSum 1 (sort_rows (map fold_row sh)) None.

(* distinct sorted keys *)
Fixpoint dedup_sorted (l : list (list (list Z))) : list (list (list Z)) :=
  match l with
  | [] => []
  | x :: r => match r with
              | [] => [x]
              | y :: _ => if row_eqb x y then dedup_sorted r else x :: dedup_sorted r
              end
  end.

Definition group_col (pre : nat) (k : list (list Z)) (sh : list (list (list Z))) (c : nat) : list Z :=
  ZSort.sort (flat_map (fun r => if row_eqb (key_of pre r) k then [scalar (nth c r [])] else []) sh).

(* one cogroup output shard from the same shard of every (shuffled) input *)
Definition cogroup_shard (pre : nat) (ins : list (nat * list (list (list Z)))) : list (list (list Z)) :=
  let keys := dedup_sorted (sort_rows (flat_map (fun i => map (key_of pre) (snd i)) ins)) in
  map (fun k => k ++ flat_map (fun i => map (group_col pre k (snd i)) (seq pre (fst i - pre))) ins) keys.

Definition group_ty (t : colty) : colty := match t with TS => TGS | _ => TGI end.

Definition firstn_z {A} (n : Z) (l : list A) : list A := if n <=? 0 then [] else firstn (Z.to_nat n) l.

(* ---------------- evaluation of one node ---------------- *)

Definition get (vs : list value) (i : nat) : value := nth i vs vempty.

Definition map_shards (f : list (list (list Z)) -> list (list (list Z))) (v : value) := map f (vshards v).

Definition eval_node (vs : list value) (k : nat) (nd : node) : value * list side :=
  match nd with
  | NArg n ts pre => (mkV (repeat [] n) ts pre false, [])
  | NConst n ts cols => (const_value n ts cols, [])
  | NReaderFunc n t a b => (mkV (map (reader_rows a b) (seq 0 n)) [t; TI] 1 true, [])
  | NScanReader n lines => (mkV (map (fun s => every_nth n lines s) (seq 0 n)) [TS] 1 true, [])
  | NMap i es =>
      let v := get vs i in
      (mkV (map_shards (map (fun r => map (eval r) es)) v) (map (expr_ty (vtypes v)) es) (vpre v) (vordered v), [])
  | NFilter i e =>
      let v := get vs i in
      (mkV (map_shards (filter (fun r => holds r e)) v) (vtypes v) (vpre v) (vordered v), [])
  | NFlatmap i e =>
      let v := get vs i in
      (mkV (map_shards (flat_map (fun r =>
              map (fun j => r ++ [[Z.of_nat j]]) (seq 0 (Z.to_nat (scalar (eval r e) mod 4))))) v)
           (vtypes v ++ [TI]) (vpre v) (vordered v), [])
  | NFold i =>
      let v := get vs i in
      let n := nshards v in
      (mkV (map fold_shard (shuffle (part (vtypes v) 1 n) n (vshards v)))
           [nth 0 (vtypes v) TI; TI] 1 false, [])
  | NHead i n =>
      let v := get vs i in
      (mkV (map_shards (firstn_z n) v) (vtypes v) (vpre v) (vordered v), [])
  | NReduce i c =>
      let v := get vs i in
      let n := nshards v in
      (mkV (map (reduce_shard c (vpre v)) (shuffle (part (vtypes v) (vpre v) n) n (vshards v)))
           (vtypes v) (vpre v) true, [])
  | NCogroup is =>
      let ins := map (get vs) is in
      let n := fold_left Nat.max (map nshards ins) 0%nat in
      let f := get vs (hd 0%nat is) in
      let pre := vpre f in
      let shuffled := map (fun v => (length (vtypes v), shuffle (part (vtypes v) pre n) n (vshards v))) ins in
      (mkV (map (fun p => cogroup_shard pre (map (fun s => (fst s, nth p (snd s) [])) shuffled)) (seq 0 n))
           (firstn pre (vtypes f) ++ flat_map (fun v => map group_ty (skipn pre (vtypes v))) ins)
           pre true, [])
  | NReshuffle i =>
      let v := get vs i in
      let n := nshards v in
      (mkV (shuffle (part (vtypes v) (vpre v) n) n (vshards v)) (vtypes v) (vpre v) false, [])
  | NReshard i n =>
      let v := get vs i in
      if Nat.eqb n (nshards v) then (v, [])
      else (mkV (shuffle (part (vtypes v) (vpre v) n) n (vshards v)) (vtypes v) (vpre v) false, [])
  | NRepartition i e =>
      let v := get vs i in
      let n := nshards v in
      (mkV (shuffle (fun r => Z.to_nat (scalar (eval r e) mod Z.of_nat n)) n (vshards v))
           (vtypes v) (vpre v) false, [])
  | NPrefixed i p =>
      let v := get vs i in (mkV (vshards v) (vtypes v) p (vordered v), [])
  | NScan i =>
      let v := get vs i in
      (mkV (map (fun _ => []) (vshards v)) [] (vpre v) true,
       map (fun s => mkSide k s (nth s (vshards v) []) 1 true 1) (seq 0 (nshards v)))
  | NWriterFunc i =>
      let v := get vs i in
      (v, map (fun s => mkSide k s (nth s (vshards v) []) 1 true 1) (seq 0 (nshards v)))
  | NCache i => (get vs i, [])
  end.

Definition inputs (nd : node) : list nat :=
  match nd with
  | NArg _ _ _ | NConst _ _ _ | NReaderFunc _ _ _ _ | NScanReader _ _ => []
  | NMap i _ | NFilter i _ | NFlatmap i _ | NFold i | NHead i _ | NReduce i _ | NReshuffle i
  | NReshard i _ | NRepartition i _ | NPrefixed i _ | NScan i | NWriterFunc i | NCache i => [i]
  | NCogroup is => is
  end.

(* nodes the root (= last node) depends on: only those are ever executed *)
Fixpoint needed_from (rev_nodes : list node) (k : nat) (need : list nat) : list nat :=
  match rev_nodes with
  | [] => need
  | nd :: rest =>
      let need' := if existsb (Nat.eqb k) need then inputs nd ++ need else need in
      needed_from rest (k - 1) need'
  end.
Definition needed (p : list node) : list nat :=
  needed_from (rev p) (length p - 1) [length p - 1]%nat.

Fixpoint eval_nodes (p : list node) (k : nat) (vs : list value) (sides : list (nat * list side))
  : list value * list (nat * list side) :=
  match p with
  | [] => (vs, sides)
  | nd :: rest =>
      let '(v, sd) := eval_node vs k nd in
      eval_nodes rest (S k) (vs ++ [v]) (sides ++ [(k, sd)])
  end.

Record result := mkR {
  rvalue : value;              (* the root *)
  rsides : list side;          (* side-effect streams of needed writerfunc/scan nodes *)
  rordered : list (nat * bool) (* orderedness of the input of each side node *)
}.

Definition side_input_ordered (vs : list value) (nd : node) : bool :=
  match nd with NScan i | NWriterFunc i => vordered (get vs i) | _ => true end.

Definition ref (p : list node) : result :=
  let '(vs, sides) := eval_nodes p 0 [] [] in
  let nd := needed p in
  mkR (last vs vempty)
      (flat_map (fun ks => if existsb (Nat.eqb (fst ks)) nd then snd ks else []) sides)
      (map (fun k => (k, side_input_ordered vs (nth k p (NCache 0)))) (seq 0 (length p))).

(* C01 — theorems about the reference semantics: no row is lost, duplicated or
   invented by splitting a Const over shards or by any redistribution, whatever
   the shard counts; keyed redistribution co-locates equal keys; the row-wise
   operators commute with sharding. *)
From Coq Require Import List ZArith NArith Lia Bool Permutation.
Import ListNotations.
Require Import BS.Common.Util BS.Common.Murmur BS.C01.Sem BS.Gen.C01_params.
Local Open Scope Z_scope.

(* ---------- tie: the Go kernel constShard, as translated, is the model's ---------- *)

Theorem const_shard_go_eq n ns s :
  0 <= n -> 0 < ns -> const_shard_go n ns s = const_shard n ns s.
Proof.
  intros Hn Hns. unfold const_shard_go, const_shard.
  rewrite Z.quot_div_nonneg, Z.rem_mod_nonneg by lia.
  destruct (s <? n mod ns); f_equal; lia.
Qed.

(* ---------- Const: the shards tile the rows ---------- *)

Definition coff (n ns s : Z) : Z := fst (const_shard n ns s).
Definition ccnt (n ns s : Z) : Z := snd (const_shard n ns s).

Lemma coff_0 n ns : 0 <= n -> 0 < ns -> coff n ns 0 = 0.
Proof.
  intros Hn Hns. unfold coff, const_shard.
  pose proof (Z.mod_pos_bound n ns Hns).
  destruct (Z.ltb_spec 0 (n mod ns)); simpl; lia.
Qed.

Lemma coff_succ n ns s : 0 <= n -> 0 < ns -> 0 <= s ->
  coff n ns (s + 1) = coff n ns s + ccnt n ns s /\ 0 <= ccnt n ns s.
Proof.
  intros Hn Hns Hs. unfold coff, ccnt, const_shard.
  pose proof (Z.mod_pos_bound n ns Hns). pose proof (Z.div_pos n ns Hn Hns).
  destruct (Z.ltb_spec s (n mod ns)), (Z.ltb_spec (s + 1) (n mod ns)); simpl; split; nia.
Qed.

Lemma coff_end n ns : 0 <= n -> 0 < ns -> coff n ns ns = n.
Proof.
  intros Hn Hns. unfold coff, const_shard.
  pose proof (Z.mod_pos_bound n ns Hns). pose proof (Z.div_mod n ns ltac:(lia)).
  destruct (Z.ltb_spec ns (n mod ns)); simpl; nia.
Qed.

Lemma sub_list_tile {A} (l : list A) (o : nat -> nat) k :
  o 0%nat = 0%nat -> (forall s, (o s <= o (S s))%nat) ->
  concat (map (fun s => sub_list l (o s) (o (S s) - o s)) (seq 0 k)) = firstn (o k) l.
Proof.
  intros H0 Hmono. induction k as [|k IH].
  - simpl. rewrite H0. reflexivity.
  - rewrite seq_S, map_app, concat_app, IH. simpl. rewrite app_nil_r.
    unfold sub_list.
    assert (Hsplit : o (S k) = (o k + (o (S k) - o k))%nat) by (specialize (Hmono k); lia).
    rewrite Hsplit at 2. clear Hsplit.
    generalize (o (S k) - o k)%nat as d. generalize (o k) as a. clear.
    intros a d. revert l. induction a as [|a IH]; intro l; simpl.
    + reflexivity.
    + destruct l as [|x l]; simpl; [rewrite firstn_nil; reflexivity|]. f_equal. apply IH.
Qed.

(* every row of a Const is in exactly one shard, in order: concatenating the
   shards gives back the rows, for every shard count >= 1 *)
Theorem const_shards_tile n ts cols :
  (0 < n)%nat -> concat (vshards (const_value n ts cols)) = const_rows cols.
Proof.
  intro Hn. unfold const_value. simpl.
  set (rows := const_rows cols). set (N := Z.of_nat (length rows)). set (NS := Z.of_nat n).
  assert (HN : 0 <= N) by (subst N; lia). assert (HNS : 0 < NS) by (subst NS; lia).
  rewrite (map_ext_in _ (fun s => sub_list rows (Z.to_nat (coff N NS (Z.of_nat s)))
                                     (Z.to_nat (coff N NS (Z.of_nat (S s))) - Z.to_nat (coff N NS (Z.of_nat s))))).
  - rewrite (sub_list_tile rows (fun s => Z.to_nat (coff N NS (Z.of_nat s)))).
    + replace (Z.of_nat n) with NS by reflexivity. rewrite coff_end by lia.
      subst N. rewrite Nat2Z.id. apply firstn_all.
    + simpl. rewrite coff_0 by lia. reflexivity.
    + intro s. destruct (coff_succ N NS (Z.of_nat s)) as [E Hc]; try lia.
      replace (Z.of_nat (S s)) with (Z.of_nat s + 1) by lia. rewrite E. lia.
  - intros s _. destruct (coff_succ N NS (Z.of_nat s)) as [E Hc]; try lia.
    replace (Z.of_nat (S s)) with (Z.of_nat s + 1) by lia. rewrite E.
    unfold coff, ccnt. destruct (const_shard N NS (Z.of_nat s)) as [off cnt] eqn:Ecs. simpl in *.
    f_equal. assert (0 <= off).
    { pose proof (coff_0 N NS HN HNS). clear - Ecs HN HNS.
      unfold const_shard in Ecs. pose proof (Z.mod_pos_bound N NS HNS). pose proof (Z.div_pos N NS HN HNS).
      destruct (Z.of_nat s <? N mod NS); inversion Ecs; nia. }
    lia.
Qed.

(* ---------- redistribution is a permutation, for any partition function ---------- *)

Lemma filter_concat {A} (f : A -> bool) (ls : list (list A)) :
  flat_map (filter f) ls = filter f (concat ls).
Proof.
  induction ls as [|l ls IH]; simpl; [reflexivity|]. rewrite IH.
  symmetry. apply filter_app.
Qed.

Lemma partition_insert {A} (f : A -> nat) (x : A) (l : list A) (ps : list nat) :
  NoDup ps -> In (f x) ps ->
  Permutation (concat (map (fun p => filter (fun r => Nat.eqb (f r) p) (x :: l)) ps))
              (x :: concat (map (fun p => filter (fun r => Nat.eqb (f r) p) l) ps)).
Proof.
  induction ps as [|p ps IH]; intros Hnd Hin; [contradiction|].
  inversion Hnd as [|? ? Hnotin Hnd']; subst. cbn [map concat].
  change (filter (fun r => Nat.eqb (f r) p) (x :: l))
    with (if Nat.eqb (f x) p then x :: filter (fun r => Nat.eqb (f r) p) l else filter (fun r => Nat.eqb (f r) p) l).
  destruct (Nat.eqb_spec (f x) p) as [E|E].
  - (* x goes to this bucket; it is in no later one *)
    cbn [app]. apply perm_skip. apply Permutation_app_head.
    assert (Hsame : map (fun p0 => filter (fun r => Nat.eqb (f r) p0) (x :: l)) ps
                  = map (fun p0 => filter (fun r => Nat.eqb (f r) p0) l) ps).
    { apply map_ext_in. intros q Hq. cbn [filter].
      destruct (Nat.eqb_spec (f x) q); [subst; contradiction|reflexivity]. }
    rewrite Hsame. apply Permutation_refl.
  - destruct Hin as [Hin|Hin]; [congruence|].
    eapply Permutation_trans.
    + apply Permutation_app_head. apply IH; assumption.
    + apply Permutation_sym. apply Permutation_middle.
Qed.

Lemma partition_perm {A} (f : A -> nat) (l : list A) (ps : list nat) :
  NoDup ps -> (forall r, In r l -> In (f r) ps) ->
  Permutation (concat (map (fun p => filter (fun r => Nat.eqb (f r) p) l) ps)) l.
Proof.
  intro Hnd. induction l as [|x l IH]; intro Hall.
  - simpl. clear Hnd Hall. induction ps as [|p ps IHp]; simpl; [constructor|exact IHp].
  - eapply Permutation_trans.
    + apply partition_insert; [exact Hnd|apply Hall; left; reflexivity].
    + apply perm_skip. apply IH. intros r Hr. apply Hall. right. exact Hr.
Qed.

Theorem shuffle_permutation (f : list (list Z) -> nat) n shards :
  (forall r, In r (concat shards) -> (f r < n)%nat) ->
  Permutation (concat (shuffle f n shards)) (concat shards).
Proof.
  intro Hrange. unfold shuffle.
  rewrite (map_ext _ (fun p => filter (fun r => Nat.eqb (f r) p) (concat shards))).
  - apply partition_perm; [apply seq_NoDup|].
    intros r Hr. apply in_seq. specialize (Hrange r Hr). lia.
  - intro p. apply filter_concat.
Qed.

(* each row lands in exactly the shard its partition function names *)
Theorem shuffle_exact (f : list (list Z) -> nat) n shards p r :
  (p < n)%nat -> (In r (nth p (shuffle f n shards) []) <-> In r (concat shards) /\ f r = p).
Proof.
  intro Hp. unfold shuffle.
  rewrite (nth_map_lt _ _ _ 0%nat) by (rewrite seq_length; exact Hp).
  rewrite seq_nth by exact Hp. simpl.
  rewrite filter_concat, filter_In. rewrite Nat.eqb_eq. reflexivity.
Qed.

(* ---------- the default partitioner looks only at the key columns ---------- *)

Lemma hash_key_prefix ts : forall r pre, hash_key ts r pre = hash_key ts (firstn pre r) pre.
Proof.
  induction ts as [|t ts IH]; intros r pre; destruct pre as [|pre]; destruct r as [|c r]; simpl; try reflexivity.
  rewrite IH. reflexivity.
Qed.

Theorem part_key_only ts pre n r1 r2 :
  firstn pre r1 = firstn pre r2 -> part ts pre n r1 = part ts pre n r2.
Proof.
  intro E. unfold part. rewrite (hash_key_prefix ts r1), (hash_key_prefix ts r2), E. reflexivity.
Qed.

Theorem part_in_range ts pre n r : (0 < n)%nat -> (part ts pre n r < n)%nat.
Proof.
  intro Hn. unfold part.
  assert (H : (hash_key ts r pre mod N.of_nat n < N.of_nat n)%N) by (apply N.mod_lt; lia).
  lia.
Qed.

(* equal keys are co-located: after a keyed redistribution two rows with equal
   key columns are in the same shard, and that shard is a function of the key *)
Theorem keyed_shuffle_colocated ts pre n shards p q r1 r2 :
  (p < n)%nat -> (q < n)%nat ->
  In r1 (nth p (shuffle (part ts pre n) n shards) []) ->
  In r2 (nth q (shuffle (part ts pre n) n shards) []) ->
  firstn pre r1 = firstn pre r2 -> p = q.
Proof.
  intros Hp Hq H1 H2 E.
  apply shuffle_exact in H1 as [_ H1]; [|exact Hp]. apply shuffle_exact in H2 as [_ H2]; [|exact Hq].
  rewrite <- H1, <- H2. apply part_key_only. exact E.
Qed.

Theorem keyed_shuffle_permutation ts pre n shards :
  (0 < n)%nat -> Permutation (concat (shuffle (part ts pre n) n shards)) (concat shards).
Proof. intro Hn. apply shuffle_permutation. intros r _. apply part_in_range. exact Hn. Qed.

(* ---------- row-wise operators commute with sharding ---------- *)

Theorem map_commutes {A B} (f : A -> B) (shards : list (list A)) :
  concat (map (map f) shards) = map f (concat shards).
Proof. symmetry. apply concat_map. Qed.

Theorem filter_commutes {A} (f : A -> bool) (shards : list (list A)) :
  concat (map (filter f) shards) = filter f (concat shards).
Proof. rewrite <- filter_concat. rewrite flat_map_concat_map. reflexivity. Qed.

Theorem flatmap_commutes {A B} (f : A -> list B) (shards : list (list A)) :
  concat (map (flat_map f) shards) = flat_map f (concat shards).
Proof.
  induction shards as [|s ss IH]; simpl; [reflexivity|]. rewrite IH.
  rewrite !flat_map_concat_map, map_app, concat_app. reflexivity.
Qed.

(* ScanReader: line i goes to shard i mod n; nothing lost or duplicated *)
Lemma every_nth_length n : forall l k, (k < S n)%nat ->
  (length (every_nth (S n) l k) <= length l)%nat.
Proof.
  induction l as [|x l IH]; intros k Hk; simpl; [lia|].
  destruct k as [|k]; simpl.
  - specialize (IH n). rewrite Nat.sub_0_r. lia.
  - specialize (IH k). lia.
Qed.

(* ---------- non-vacuity ---------- *)

Example const_example :
  vshards (const_value 3 [TI] [[10; 11; 12; 13; 14]]) = [[[[10]]; [[11]]]; [[[12]]; [[13]]]; [[[14]]]].
Proof. vm_compute. reflexivity. Qed.

Example reduce_example :
  vshards (rvalue (ref [NConst 2 [TI; TI] [[1; 2; 1; 2; 3]; [10; 20; 30; 40; 50]]; NReduce 0 CSum]))
  = [[ [[1]; [40]]; [[2]; [60]] ]; [ [[3]; [50]] ]].
Proof. vm_compute. reflexivity. Qed.

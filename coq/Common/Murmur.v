(* murmur3-32 with seed (github.com/spaolacci/murmur3 v1.1.0, Sum32WithSeed) on N
   modulo 2^32, and bigslice's frame.hash32 / hash64 byte orders.  Executable
   definitions only; used by the program-level reference semantics. *)
From Coq Require Import List NArith ZArith.
Import ListNotations.
Local Open Scope N_scope.

Definition m32 : N := 4294967296.
Definition w32 (x : N) : N := N.land x 4294967295.
Definition rotl32 (x : N) (r : N) : N := w32 (N.lor (N.shiftl x r) (N.shiftr x (32 - r))).
Definition mul32 (a b : N) : N := w32 (a * b).
Definition c1 : N := 3432918353.  (* 0xcc9e2d51 *)
Definition c2 : N := 461845907.   (* 0x1b873593 *)

Definition mixk (k1 : N) : N := mul32 (rotl32 (mul32 k1 c1) 15) c2.

Definition block (h1 k1 : N) : N :=
  let h := N.lxor h1 (mixk k1) in
  let h := rotl32 h 13 in
  w32 (h * 4 + h + 3864292196).     (* 0xe6546b64 *)

Definition fmix (h : N) : N :=
  let h := N.lxor h (N.shiftr h 16) in
  let h := mul32 h 2246822507 in     (* 0x85ebca6b *)
  let h := N.lxor h (N.shiftr h 13) in
  let h := mul32 h 3266489909 in     (* 0xc2b2ae35 *)
  N.lxor h (N.shiftr h 16).

(* bytes are N < 256, little-endian blocks of four *)
Fixpoint body (h1 : N) (data : list N) : N * list N :=
  match data with
  | b0 :: b1 :: b2 :: b3 :: rest =>
      body (block h1 (b0 + N.shiftl b1 8 + N.shiftl b2 16 + N.shiftl b3 24)) rest
  | tail => (h1, tail)
  end.

Definition tailmix (h1 : N) (tail : list N) : N :=
  match tail with
  | [b0] => N.lxor h1 (mixk b0)
  | [b0; b1] => N.lxor h1 (mixk (N.lxor (N.shiftl b1 8) b0))
  | [b0; b1; b2] => N.lxor h1 (mixk (N.lxor (N.lxor (N.shiftl b2 16) (N.shiftl b1 8)) b0))
  | _ => h1
  end.

Definition sum32 (data : list N) (seed : N) : N :=
  let '(h1, tail) := body seed data in
  fmix (N.lxor (tailmix h1 tail) (w32 (N.of_nat (length data)))).

Definition byte (x : N) (i : N) : N := N.land (N.shiftr x (8 * i)) 255.

(* frame/ops_builtin.go hash32, hash64 *)
Definition hash32 (x seed : N) : N := sum32 [byte x 0; byte x 1; byte x 2; byte x 3] seed.
Definition hash64 (x seed : N) : N :=
  sum32 [byte x 0; byte x 1; byte x 2; byte x 3; byte x 4; byte x 5; byte x 6; byte x 7] seed.

(* Go int (64-bit two's complement) as uint64 *)
Definition u64 (z : Z) : N := Z.to_N (z mod 18446744073709551616)%Z.
Definition hash_int (z : Z) (seed : N) : N := hash64 (u64 z) seed.

Example sum32_zero4 : sum32 [0;0;0;0] 0 = 593689054. (* 0x2362F9DE *)
Proof. vm_compute. reflexivity. Qed.

(* Shared helpers for the correspondence drivers (no axioms, stdlib only). *)
From Coq Require Import List ZArith Bool Lia.
Import ListNotations.

Fixpoint list_eqb {A} (eqb : A -> A -> bool) (l1 l2 : list A) : bool :=
  match l1, l2 with
  | [], [] => true
  | x :: l1', y :: l2' => eqb x y && list_eqb eqb l1' l2'
  | _, _ => false
  end.

Lemma list_eqb_spec {A} (eqb : A -> A -> bool) :
  (forall x y, eqb x y = true <-> x = y) ->
  forall l1 l2, list_eqb eqb l1 l2 = true <-> l1 = l2.
Proof.
  intros H l1; induction l1 as [|x l1 IH]; intros [|y l2]; simpl; split; intro E;
    try reflexivity; try discriminate.
  - apply andb_true_iff in E as [E1 E2]. apply H in E1. apply IH in E2. congruence.
  - inversion E; subst. apply andb_true_iff; split; [apply H | apply IH]; reflexivity.
Qed.

(* indices (from 0) of the cases on which [good] is false *)
Fixpoint bad_from {A} (good : A -> bool) (i : nat) (l : list A) : list nat :=
  match l with
  | [] => []
  | x :: r => if good x then bad_from good (S i) r else i :: bad_from good (S i) r
  end.
Definition bad_indices {A} (good : A -> bool) (l : list A) : list nat := bad_from good 0 l.

Lemma bad_from_nil {A} (good : A -> bool) l : forall i,
  bad_from good i l = [] <-> forall x, In x l -> good x = true.
Proof.
  induction l as [|x r IH]; intro i; simpl.
  - split; [intros _ y [] | reflexivity].
  - destruct (good x) eqn:E.
    + rewrite IH. split; [intros H y [<-|Hy]; auto | intros H y Hy; apply H; auto].
    + split; [discriminate | intro H; rewrite H in E by auto; discriminate].
Qed.

Definition option_eqb {A} (eqb : A -> A -> bool) (a b : option A) : bool :=
  match a, b with
  | Some x, Some y => eqb x y
  | None, None => true
  | _, _ => false
  end.

Definition pair_eqb {A B} (ea : A -> A -> bool) (eb : B -> B -> bool) (a b : A * B) : bool :=
  ea (fst a) (fst b) && eb (snd a) (snd b).

(* ---- list facts missing from the 8.16 standard library ---- *)
Lemma nth_firstn {A} (l : list A) n i d :
  nth i (firstn n l) d = if Nat.ltb i n then nth i l d else d.
Proof.
  revert n i; induction l as [|x l IH]; intros [|n] [|i]; simpl; try reflexivity.
  - destruct (Nat.ltb _ _); reflexivity.
  - rewrite IH. reflexivity.
Qed.

Lemma nth_skipn {A} (l : list A) n i d : nth i (skipn n l) d = nth (n + i) l d.
Proof.
  revert l; induction n as [|n IH]; intros [|x l]; simpl; try reflexivity.
  - destruct i; reflexivity.
  - apply IH.
Qed.

Lemma skipn_skipn {A} (l : list A) a b : skipn a (skipn b l) = skipn (b + a) l.
Proof.
  revert l; induction b as [|b IH]; intros [|x l]; simpl; try reflexivity.
  - destruct a; reflexivity.
  - apply IH.
Qed.

Lemma nth_map_lt {A B} (g : A -> B) l n da db : n < length l -> nth n (map g l) db = g (nth n l da).
Proof. intro H. rewrite (nth_indep _ db (g da)) by (rewrite map_length; exact H). apply map_nth. Qed.

(* C02 — Machine loss yields the correct rows or an error, never wrong rows or a hang. *)
From Coq Require Import List ZArith Bool.
Import ListNotations.
Require Import BS.C02.Model BS.C02.Proofs.

(* For every deterministic task function, every dependency structure and EVERY
   history of task runs, machine deaths (whether or not the driver has noticed
   them yet) and replacement machines: a read that succeeds returns exactly the
   rows of the failure-free run. *)
Theorem C02_never_wrong_rows :
  forall (compute : nat -> list (list (list Z)) -> list (list Z)) (deps_of : nat -> list nat)
         (value : nat -> list (list Z)),
  (forall t, value t = compute t (map value (deps_of t))) ->
  forall h t r, Forall (well_run deps_of) h ->
  read (run compute (mkW [] [] []) h) t = Got r -> r = value t.
Proof. exact never_wrong_rows. Qed.
Print Assumptions C02_never_wrong_rows.

Theorem C02_dead_location_is_error : forall w m t,
  lookup_loc w t = Some m -> is_alive w m = false -> read w t = RdErr.
Proof. exact dead_location_is_error. Qed.

Theorem C02_rerun_restores :
  forall (compute : nat -> list (list (list Z)) -> list (list Z)) (deps_of : nat -> list nat)
         (value : nat -> list (list Z)),
  (forall t, value t = compute t (map value (deps_of t))) ->
  forall w t m, Inv value w -> is_alive w m = true ->
  (forall d, In d (deps_of t) -> exists r, read w d = Got r) ->
  read (step compute w (ERun t m (deps_of t))) t = Got (value t).
Proof. exact rerun_restores. Qed.
Print Assumptions C02_rerun_restores.

(* ---- the control plane (C02/Control.v): driver, evaluator resubmission, machine loss and replacement ---- *)
Require Import BS.C02.Control BS.C02.ControlSafety BS.C02.ControlLive BS.C02.ControlProofs BS.Gen.C02_params.

Lemma C02_gen_ok_before_assign : ok_before_assign = true.            Proof. reflexivity. Qed.
Lemma C02_gen_setlocation_before_ok : setlocation_before_ok = true.  Proof. reflexivity. Qed.
Lemma C02_gen_run_lost_is_default : run_lost_is_default = true.      Proof. reflexivity. Qed.
Lemma C02_gen_assign_marks_lost : assign_marks_lost_when_machine_lost = true. Proof. reflexivity. Qed.
Lemma C02_gen_notice_marks_assigned_lost : notice_marks_assigned_lost = true. Proof. reflexivity. Qed.
Lemma C02_gen_max_consecutive_lost : max_consecutive_lost = 5.       Proof. reflexivity. Qed.
Lemma C02_gen_scan_read_retries : scan_read_retries = 5.             Proof. reflexivity. Qed.

(* ALL histories: stored outputs are failure-free values; OK => located; OK on a live location => stored there *)
Theorem C02_ctl_inv_all_histories :
  forall compute okb max_lost max_retry g roots, wf_graph g roots = true -> forall n h,
  let w := Control.run compute okb max_lost max_retry g roots (init_world n) h in
  (forall m t r, In (t, r) (mstore (getm w m)) -> r = value compute g t) /\
  (forall t, wst w t = TOk -> exists m, wloc w t = Some m) /\
  (forall t m, wst w t = TOk -> wloc w t = Some m ->
     malive (getm w m) = true -> mlost (getm w m) = false ->
     lookup t (mstore (getm w m)) = Some (value compute g t)).
Proof. exact ctl_inv_all_histories. Qed.
Print Assumptions C02_ctl_inv_all_histories.

(* ALL histories: a run that reports success returns exactly the failure-free rows *)
Theorem C02_ctl_success_is_exact :
  forall compute okb max_lost max_retry g roots, wf_graph g roots = true -> forall n h out,
  outcome_of (Control.run compute okb max_lost max_retry g roots (init_world n) h) = Some (Success out) ->
  out = ff_rows compute g roots.
Proof. exact ctl_success_is_exact. Qed.
Print Assumptions C02_ctl_success_is_exact.

(* the code's order: an OK task located on a known-lost machine is still between Set(TaskOk) and Assign,
   and Assign marks it LOST *)
Theorem C02_ctl_no_stuck_ok :
  forall compute g roots, wf_graph g roots = true -> forall n h t m,
  let w := code_run compute g roots (init_world n) h in
  wst w t = TOk -> wloc w t = Some m -> mlost (getm w m) = true ->
  wph w t = PMid m /\ wst (code_step compute g roots w (LReply2 t)) t = TLost.
Proof. exact ctl_no_stuck_ok_code. Qed.
Print Assumptions C02_ctl_no_stuck_ok.

Theorem C02_ctl_assign_before_ok_refuted :
  exists (g : list (list nat)) (roots : list nat) (h : list label),
    wf_graph g roots = true /\
    let w := Control.run ex_compute false max_consecutive_lost scan_read_retries g roots (init_world 1) h in
    wst w 0 = TOk /\ wloc w 0 = Some 0 /\ mlost (getm w 0) = true /\ wph w 0 = PNone /\
    drive ex_compute false max_consecutive_lost scan_read_retries g roots 200 1 w [] = Failed /\
    (let '(w', tr) := drive_world ex_compute false max_consecutive_lost scan_read_retries g roots 200 1 w [] in
     wst w' 0 = TOk /\ wcl w' 1 = max_consecutive_lost /\ existsb is_start tr = true) /\
    let wc := code_run ex_compute g roots (init_world 1) h in
    wst wc 0 = TLost /\
    code_drive ex_compute g roots 200 1 wc [] = Success (ff_rows ex_compute g roots).
Proof. exact ctl_assign_before_ok_refuted. Qed.
Print Assumptions C02_ctl_assign_before_ok_refuted.

(* RECOVERY *)
Theorem C02_ctl_recovery :
  forall compute g roots, wf_graph g roots = true -> forall k spares cs fuel,
  1 <= k -> length cs < max_consecutive_lost -> length cs <= spares ->
  code_fuel g roots (2 * length cs) spares <= fuel ->
  code_drive compute g roots fuel spares (init_world k) (crashes cs) = Success (ff_rows compute g roots).
Proof. exact ctl_recovery. Qed.
Print Assumptions C02_ctl_recovery.

(* NEVER BLOCKS FOREVER (model level) *)
Theorem C02_ctl_never_hangs_model :
  forall compute g roots, wf_graph g roots = true -> forall k spares inj fuel,
  env_inj inj -> code_fuel g roots (length inj) spares <= fuel ->
  code_drive compute g roots fuel spares (init_world k) inj <> OutOfFuel.
Proof. exact ctl_never_hangs_model. Qed.
Print Assumptions C02_ctl_never_hangs_model.

Theorem C02_ctl_too_many_losses_is_error :
  forall compute okb max_lost max_retry g roots w t,
  active w = true -> mem t (wpend w) = true -> wst w t = TLost -> wunc w t = true ->
  max_lost <= S (wcl w t) ->
  outcome_of (Control.step compute okb max_lost max_retry g roots w (LReturn t)) = Some Failed.
Proof. exact ctl_too_many_losses_is_error. Qed.
Print Assumptions C02_ctl_too_many_losses_is_error.

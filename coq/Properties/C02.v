(* C02 — Machine loss yields the correct rows or an error, never wrong rows or a hang. *)
From Coq Require Import List ZArith Bool.
Import ListNotations.
Require Import BS.C02.Model BS.C02.Proofs.

(* For every deterministic task function, every dependency structure and EVERY
   history of task runs, machine deaths (whether or not the driver has noticed
   them yet) and replacement machines: a read that succeeds returns exactly the
   rows of the failure-free run. *)
Theorem C02_never_wrong_rows :
  forall (compute : nat -> list (list (list Z)) -> list (list Z)) (deps_of : nat -> list nat)
         (value : nat -> list (list Z)),
  (forall t, value t = compute t (map value (deps_of t))) ->
  forall h t r, Forall (well_run deps_of) h ->
  read (run compute (mkW [] [] []) h) t = Got r -> r = value t.
Proof. exact never_wrong_rows. Qed.
Print Assumptions C02_never_wrong_rows.

Theorem C02_dead_location_is_error : forall w m t,
  lookup_loc w t = Some m -> is_alive w m = false -> read w t = RdErr.
Proof. exact dead_location_is_error. Qed.

Theorem C02_rerun_restores :
  forall (compute : nat -> list (list (list Z)) -> list (list Z)) (deps_of : nat -> list nat)
         (value : nat -> list (list Z)),
  (forall t, value t = compute t (map value (deps_of t))) ->
  forall w t m, Inv value w -> is_alive w m = true ->
  (forall d, In d (deps_of t) -> exists r, read w d = Got r) ->
  read (step compute w (ERun t m (deps_of t))) t = Got (value t).
Proof. exact rerun_restores. Qed.
Print Assumptions C02_rerun_restores.

(* C20 — User metrics are merged additively and survive transport unchanged.
   Only restated theorems, each closed by [exact], with Print Assumptions.

   Vocabulary (coq/C20/Model.v): a world holds the registry size [wreg] (index 0
   is the reserved zeroMetric), the heap of counter instances and the pool of
   Scopes; [peek w s m] is what Counter(m).Value(&scope s) would report, read
   without side effect; [wf] = every scope list covers the registry (i.e. the
   counters were registered before the scope was first used), pointers are
   valid, an instance serves one metric, cells are int64. *)
From Coq Require Import String.
From Coq Require Import List ZArith Bool.
Import ListNotations.
Require Import BS.C20.Model BS.C20.Base BS.C20.Ops BS.C20.Total BS.C20.Corr BS.C20.Proofs.
Require Import BS.Gen.C20_params.
Local Open Scope Z_scope.

(* tie to the source: the registry starts with the one reserved zeroMetric, id 0 *)
Theorem C20_gen_registry_reserved :
  metrics_initial_len = 1 /\ metrics_initial_types = ["zeroMetric"%string] /\
  zero_metric_id_literals = [0].
Proof. repeat split; reflexivity. Qed.

(* tie to the source, worker.Run (exec/bigmachine.go): the worker-side task scope is
   reset before the task is executed, and the deferred block that fills reply.Scope is
   registered before the switch on task.state, i.e. on every path that answers *)
Theorem C20_gen_worker_resets_scope : worker_run_resets_scope = true.
Proof. reflexivity. Qed.
Theorem C20_gen_worker_reply_filled_on_every_path : worker_run_reply_filled_on_every_path = true.
Proof. reflexivity. Qed.

(* the initial world (fresh zero-valued scopes) is well formed *)
Theorem C20_wf_init : forall reg ns, wf (init reg ns).
Proof. exact wf_init. Qed.

(* ---- merging adds ---- *)
Theorem C20_merge_adds : forall w s u w1 r m,
  wf w -> (s < plen w)%nat -> (u < plen w)%nat -> (m < wreg w)%nat ->
  merge w s u = (w1, r) ->
  r = Ok tt /\ wf w1 /\ peek w1 s m = wrap (peek w s m + peek w u m).
Proof. exact merge_adds. Qed.
Print Assumptions C20_merge_adds.

Theorem C20_merge_scoped : forall w s u w1 r k m,
  wf w -> (s < plen w)%nat -> (u < plen w)%nat -> merge w s u = (w1, r) ->
  k <> s -> ~ shares w s k m -> peek w1 k m = peek w k m.
Proof. exact merge_scoped. Qed.

Theorem C20_merge_comm_values : forall w a b c w1 w2 w1' w2' r1 r2 r1' r2',
  wf w -> (a < plen w)%nat -> (b < plen w)%nat -> (c < plen w)%nat ->
  a <> b -> a <> c ->
  (forall m, ~ shares w a b m) -> (forall m, ~ shares w a c m) ->
  merge w a b = (w1, r1) -> merge w1 a c = (w2, r2) ->
  merge w a c = (w1', r1') -> merge w1' a b = (w2', r2') ->
  forall m, (m < wreg w)%nat -> peek w2 a m = peek w2' a m.
Proof. exact merge_comm_values. Qed.

Theorem C20_merge_assoc_values : forall w a b c w1 w2 w1' w2' r1 r2 r1' r2',
  wf w -> (a < plen w)%nat -> (b < plen w)%nat -> (c < plen w)%nat ->
  a <> b -> a <> c ->
  (forall m, ~ shares w a b m) -> (forall m, ~ shares w a c m) ->
  merge w a b = (w1, r1) -> merge w1 a c = (w2, r2) ->
  merge w b c = (w1', r1') -> merge w1' a b = (w2', r2') ->
  forall m, (m < wreg w)%nat -> peek w2 a m = peek w2' a m.
Proof. exact merge_assoc_values. Qed.

Theorem C20_value_add_comm : forall a b, wrap (a + b) = wrap (b + a).
Proof. exact wrap_add_comm. Qed.
Theorem C20_value_add_assoc : forall a b c, wrap (wrap (a + b) + c) = wrap (a + wrap (b + c)).
Proof. exact wrap_add_assoc. Qed.
Print Assumptions C20_merge_assoc_values.

(* ---- resetting reports the other scope's values ---- *)
Theorem C20_reset_reports : forall w s u w1 r,
  wf w -> (s < plen w)%nat -> (u < plen w)%nat -> reset w s u = (w1, r) ->
  r = Ok tt /\ wf w1 /\
  (forall m, peek w1 s m = peek w u m) /\
  (forall k m, k <> s -> peek w1 k m = peek w k m).
Proof. exact reset_reports. Qed.

Theorem C20_reset_nil_zero : forall w s,
  wf w -> (s < plen w)%nat ->
  wf (reset_nil w s) /\ (forall m, peek (reset_nil w s) s m = 0) /\
  (forall k m, k <> s -> peek (reset_nil w s) k m = peek w k m).
Proof. exact reset_nil_zero. Qed.

(* the aliasing of the Go code, stated: after Reset(u) the two scopes share u's instances *)
Theorem C20_reset_shares : forall w s u w1 r m p,
  wf w -> (s < plen w)%nat -> (u < plen w)%nat -> reset w s u = (w1, r) ->
  s <> u -> slot_of w u m = Some p -> shares w1 s u m.
Proof. exact reset_shares. Qed.
Print Assumptions C20_reset_reports.

(* ---- increments are scoped ---- *)
Theorem C20_incr_adds : forall w s c n w1 r,
  wf w -> (s < plen w)%nat -> (c < wreg w)%nat -> incr w s c n = (w1, r) ->
  r = Ok tt /\ wf w1 /\ peek w1 s c = wrap (peek w s c + n) /\
  (forall k m, m <> c -> peek w1 k m = peek w k m) /\
  (forall k, k <> s -> ~ shares w s k c -> peek w1 k c = peek w k c).
Proof. exact incr_adds. Qed.

Theorem C20_value_reads : forall w s c w1 r,
  wf w -> (s < plen w)%nat -> (c < wreg w)%nat -> value w s c = (w1, r) ->
  r = Ok (peek w s c) /\ wf w1 /\ (forall k m, peek w1 k m = peek w k m).
Proof. exact value_reads. Qed.
Print Assumptions C20_incr_adds.

(* ---- gob transport ---- *)
Theorem C20_gob_roundtrip : forall w s t w1 r,
  wf w -> (s < plen w)%nat -> (t < plen w)%nat -> encode w s = (w1, r) ->
  exists pl w2, r = Ok pl /\ length pl = wreg w /\ decode w1 t pl = (w2, DecOk) /\ wf w2 /\
  (forall m, (m < wreg w)%nat -> peek w2 t m = peek w s m) /\
  (forall k m, k <> t -> peek w2 k m = peek w k m).
Proof. exact gob_roundtrip. Qed.

Theorem C20_gob_payload_length : forall w s w1 pl,
  wf w -> (s < plen w)%nat -> encode w s = (w1, Ok pl) -> length pl = wreg w.
Proof. exact gob_payload_length. Qed.

Theorem C20_gob_decode_fails_iff : forall w t pl w1 r,
  wf w -> (t < plen w)%nat -> (forall m z, nth m pl None = Some z -> in64 z) ->
  decode w t pl = (w1, r) ->
  (r = DecIncompatible <-> length pl <> wreg w) /\ (r = DecIncompatible -> w1 = w) /\ r <> DecPanic.
Proof. exact gob_decode_fails_iff. Qed.
Print Assumptions C20_gob_roundtrip.

(* ---- no panic once every counter is registered before the scopes are used ---- *)
Theorem C20_run_never_panics : forall reg ns os,
  ops_ok reg ns os ->
  wf (fst (run (init reg ns) os)) /\ ~ In RPanic (snd (run (init reg ns) os)).
Proof. exact run_never_panics. Qed.
Print Assumptions C20_run_never_panics.

(* ---- a failure-free run reports the sum of the increments, each task once,
        on the local executor and through the bigmachine reply path ---- *)
Theorem C20_result_total : forall exec_is_bigmachine reg tasks,
  (forall l, In l tasks -> counters_ok reg l) ->
  exists w, e2e_model exec_is_bigmachine reg tasks = (w, Ok tt) /\
  forall m, (m < reg)%nat -> peek w 0 m = wrap (sum_incs m (concat tasks)).
Proof. exact result_total. Qed.
Print Assumptions C20_result_total.

(* ---- tasks that run more than once (Result.Discard, then recomputation) ----
   local executor: the scope is reset before EVERY run, so the total counts each
   task's last run once, whatever the number of runs *)
Theorem C20_result_total_local_runs : forall reg tasks,
  (forall runs, In runs tasks -> runs_ok reg runs) ->
  exists w, run_local_runs reg tasks = (w, Ok tt) /\ wf w /\
  forall m, (m < reg)%nat -> peek w 0 m = wrap (sum_incs m (last_runs tasks)).
Proof. exact result_total_local_runs. Qed.

Theorem C20_result_total_after_recompute : forall reg tasks,
  (forall runs, In runs tasks -> runs_ok reg runs) ->
  exists w w', run_local_runs reg tasks = (w, Ok tt) /\
               run_local reg (map (fun runs => last runs []) tasks) = (w', Ok tt) /\
  forall m, (m < reg)%nat -> peek w 0 m = peek w' 0 m.
Proof. exact result_total_after_recompute. Qed.

(* bigmachine: the same holds if the worker resets its task scope before a run
   (the repaired code) or if no task runs twice ... *)
Theorem C20_result_total_bigmachine_runs : forall (wr : bool) reg tasks,
  (wr = true \/ forall runs, In runs tasks -> (length runs <= 1)%nat) ->
  (forall runs, In runs tasks -> runs_ok reg runs) ->
  exists w, run_bigmachine_runs wr reg tasks = (w, Ok tt) /\ wf w /\
  forall m, (m < reg)%nat -> peek w 0 m = wrap (sum_incs m (last_runs tasks)).
Proof. exact result_total_bigmachine_runs. Qed.

(* ... and is FALSE of the code as it is: worker.Run never resets the worker-side
   task scope, so a task re-run by the same worker is counted once per run *)
Theorem C20_bigmachine_recompute_overcounts_refuted :
  exists tasks,
    (forall runs, In runs tasks -> runs_ok 2 runs) /\
    let '(w, r) := run_bigmachine_runs false 2 tasks in
    r = Ok tt /\ peek w 0 1 = 42 /\ wrap (sum_incs 1 (last_runs tasks)) = 21.
Proof. exact bigmachine_recompute_overcounts_refuted. Qed.

(* the model the correspondence uses follows the switch goparams reads from worker.Run *)
Theorem C20_hist_total : forall bigm reg tasks,
  (bigm = false \/ worker_run_resets_scope = true \/
   forall runs, In runs tasks -> (length runs <= 1)%nat) ->
  (forall runs, In runs tasks -> runs_ok reg runs) ->
  exists w, hist_model bigm reg tasks = (w, Ok tt) /\
  forall m, (m < reg)%nat -> peek w 0 m = wrap (sum_incs m (last_runs tasks)).
Proof. exact hist_total. Qed.
Print Assumptions C20_result_total_after_recompute.
Print Assumptions C20_hist_total.

(* ---- a task submitted again to the worker that still holds it as done: the worker
        answers without executing and the reply carries the completed task's scope, so
        the total is unchanged by any number of re-submissions ---- *)
Theorem C20_result_total_after_resubmission_to_same_worker : forall (wr : bool) reg tasks,
  (forall ln, In ln tasks -> counters_ok reg (fst ln)) ->
  exists w, run_bigmachine_resub wr true reg tasks = (w, Ok tt) /\ wf w /\
  forall m, (m < reg)%nat -> peek w 0 m = wrap (sum_incs m (concat (map fst tasks))).
Proof. exact result_total_after_resubmission_to_same_worker. Qed.

(* a worker whose early return leaves the reply empty wipes the task on the driver *)
Theorem C20_resubmission_empty_reply_refuted :
  exists tasks,
    (forall ln, In ln tasks -> counters_ok 2 (fst ln)) /\
    let '(w, r) := run_bigmachine_resub true false 2 tasks in
    r = Ok tt /\ peek w 0 1 = 0 /\ wrap (sum_incs 1 (concat (map fst tasks))) = 21.
Proof. exact resubmission_empty_reply_refuted. Qed.

Theorem C20_resub_total : forall reg tasks,
  worker_run_reply_filled_on_every_path = true ->
  (forall ln, In ln tasks -> counters_ok reg (fst ln)) ->
  exists w, resub_model reg tasks = (w, Ok tt) /\
  forall m, (m < reg)%nat -> peek w 0 m = wrap (sum_incs m (concat (map fst tasks))).
Proof. exact resub_total. Qed.
Print Assumptions C20_result_total_after_resubmission_to_same_worker.

(* ---- the checker applied to the implementation is satisfied by the model ---- *)
Theorem C20_model_case_ok : forall reg ns os,
  ops_ok reg ns os -> forall blind, case_ok (COps blind reg ns (observe (init reg ns) os)) = true.
Proof. exact model_case_ok. Qed.

Theorem C20_model_e2e_ok : forall bigm reg tasks w,
  (forall l, In l tasks -> counters_ok reg l) ->
  e2e_model bigm reg tasks = (w, Ok tt) ->
  e2e_ok reg (concat tasks) (map (peek w 0) (seq 0 reg)) = true.
Proof. exact model_e2e_ok. Qed.
Print Assumptions C20_model_case_ok.

Theorem C20_dump_is_peek : forall w i m, dval (dump w) i m = peek w i m.
Proof. exact dval_dump. Qed.

(* ---- quirks of the code, kept by the model (concrete runs) ---- *)
Theorem C20_reset_aliases_example :
  run_outs 2 2 [OIncr 1 1 3; OReset 0 1; OIncr 0 1 4; OValue 1 1] = [RUnit; RUnit; RUnit; RNum 7].
Proof. exact ex_reset_aliases. Qed.

Theorem C20_late_registration_panics_example :
  run_outs 2 2 [OIncr 0 1 1; ORegister; OIncr 0 2 1; OMerge 1 0; OIncr 1 2 4; OMerge 0 1; OEncode 0;
                OResetNil 0; OIncr 0 2 1; OValue 0 2]
  = [RUnit; RUnit; RPanic; RPanic; RUnit; RPanic; RPanic; RUnit; RUnit; RNum 1].
Proof. exact ex_late_registration_panics. Qed.
Print Assumptions C20_late_registration_panics_example.

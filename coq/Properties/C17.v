(* C17 — Readers and scanners deliver the same rows however they are read.
   Only restated theorems, each closed by [exact], with Print Assumptions.

   Reading guide.  [run read st ds] drives a reader with the demand sequence ds
   (lengths of the destination frames) and stops at the first status other
   than SOk; [outs_of] is the concatenation of the delivered rows, [final_of]
   the last status.  [calls_bounded r ds]: every call returned at most its
   demand.  [rows_of s] are the rows a scripted upstream holds, [fails s] says
   that it ends in a failure, [smeas s] is its size (responses + rows).
   [no_fuel]: the model's loop fuel was never exhausted.  All statements are
   for ALL scripts (chunkings, empty reads, rows together with EOF, failures)
   and ALL demand sequences with every demand >= 1. *)
From Coq Require Import String List ZArith Bool.
Import ListNotations.
From Coq Require Import Lia.
Require Import BS.C17.Model BS.C17.Lemmas BS.C17.ProofsOps BS.C17.ProofsFlatmap
               BS.C17.ProofsMulti BS.C17.ProofsFold BS.C17.ProofsBuf BS.Gen.C17_params.

(* ---- tie to the source (coq/Gen/C17_params.v is regenerated from /repo's Go AST on every run) ---- *)
(* the vector size of foldReader.compute, Scanner, FrameBuffer.Fill and bufferOutput *)
Theorem C17_gen_chunk : c17_chunk = Z.of_nat chunk.
Proof. reflexivity. Qed.
(* constShard as written in slice.go is the function the constReader model uses *)
Theorem C17_gen_const_shard : forall n nshard shard,
  (0 <= n)%Z -> (0 < nshard)%Z -> c17_const_shard n nshard shard = const_shard n nshard shard.
Proof.
  intros n nshard shard Hn Hs. unfold c17_const_shard, const_shard. cbv zeta.
  rewrite Z.quot_div_nonneg, Z.rem_mod_nonneg by lia.
  destruct (shard <? n mod nshard)%Z; reflexivity.
Qed.
(* the integer literals of headReader.Read, taskBufferReader.Read and the two multiReader.Read *)
Theorem C17_gen_head_literals : c17_head_literals = [0; 0; 0]%Z.
Proof. reflexivity. Qed.
(* headReader.Read as transcribed by [head_read]: the read is cut to the h.n rows still wanted *)
Theorem C17_gen_head_read_src : c17_head_read_src =
  "{ if h.n <= 0 { return 0, sliceio.EOF } if h.n < out.Len() { out = out.Slice(0, h.n) } n, err = h.reader.Read(ctx, out) h.n -= n return }"%string.
Proof. reflexivity. Qed.
Theorem C17_gen_taskbuf_literals : c17_taskbuf_literals = [0; 0; 0; 0]%Z.
Proof. reflexivity. Qed.
Theorem C17_gen_multi_literals :
  c17_multi_sliceio_literals = [0; 0; 0; 0; 0; 1; 0; 0; 0]%Z /\ c17_multi_exec_literals = [0; 0; 0; 1; 0; 0; 0]%Z.
Proof. split; reflexivity. Qed.

(* ---- mapReader (slice.go:600) ---- *)
Theorem C17_map_delivers : forall f s ds,
  demands_ok ds ->
  let r := run (map_read f) (mkMap s SOk) ds in
  calls_bounded r ds /\
  prefix (outs_of r) (sem_map f (rows_of s)) /\
  (final_of r = SEof -> outs_of r = sem_map f (rows_of s)) /\
  (fails s = true -> final_of r <> SEof) /\
  (fails s = false -> forall e, final_of r <> SErr e) /\
  no_fuel r.
Proof. exact map_delivers. Qed.

Theorem C17_map_progress : forall f s ds,
  demands_ok ds -> smeas s < length ds ->
  final_of (run (map_read f) (mkMap s SOk) ds) <> SOk.
Proof. exact map_progress. Qed.

Theorem C17_map_chunking_irrelevant : forall f s1 s2 ds1 ds2,
  rows_of s1 = rows_of s2 -> demands_ok ds1 -> demands_ok ds2 ->
  final_of (run (map_read f) (mkMap s1 SOk) ds1) = SEof ->
  final_of (run (map_read f) (mkMap s2 SOk) ds2) = SEof ->
  outs_of (run (map_read f) (mkMap s1 SOk) ds1) = outs_of (run (map_read f) (mkMap s2 SOk) ds2).
Proof. exact map_chunking_irrelevant. Qed.
Theorem C17_map_total : forall f s ds,
  demands_ok ds -> smeas s < length ds -> fails s = false ->
  outs_of (run (map_read f) (mkMap s SOk) ds) = sem_map f (rows_of s) /\
  final_of (run (map_read f) (mkMap s SOk) ds) = SEof.
Proof. exact map_total. Qed.

(* ---- filterReader (slice.go:688): the inner loop tolerates empty and short upstream reads ---- *)
Theorem C17_filter_delivers : forall p s ds,
  demands_ok ds ->
  let r := run (filter_read p) (mkFilter s SOk) ds in
  calls_bounded r ds /\
  prefix (outs_of r) (sem_filter p (rows_of s)) /\
  (final_of r = SEof -> outs_of r = sem_filter p (rows_of s)) /\
  (fails s = true -> final_of r <> SEof) /\
  (fails s = false -> forall e, final_of r <> SErr e) /\
  no_fuel r.
Proof. exact filter_delivers. Qed.

Theorem C17_filter_progress : forall p s ds,
  demands_ok ds -> smeas s < length ds ->
  final_of (run (filter_read p) (mkFilter s SOk) ds) <> SOk.
Proof. exact filter_progress. Qed.

Theorem C17_filter_chunking_irrelevant : forall p s1 s2 ds1 ds2,
  rows_of s1 = rows_of s2 -> demands_ok ds1 -> demands_ok ds2 ->
  final_of (run (filter_read p) (mkFilter s1 SOk) ds1) = SEof ->
  final_of (run (filter_read p) (mkFilter s2 SOk) ds2) = SEof ->
  outs_of (run (filter_read p) (mkFilter s1 SOk) ds1) = outs_of (run (filter_read p) (mkFilter s2 SOk) ds2).
Proof. exact filter_chunking_irrelevant. Qed.
Theorem C17_filter_total : forall p s ds,
  demands_ok ds -> smeas s < length ds -> fails s = false ->
  outs_of (run (filter_read p) (mkFilter s SOk) ds) = sem_filter p (rows_of s) /\
  final_of (run (filter_read p) (mkFilter s SOk) ds) = SEof.
Proof. exact filter_total. Qed.

(* ---- flatmapReader (slice.go:783): in/begIn/endIn/out/eof carry-over ---- *)
Theorem C17_flatmap_delivers : forall f s ds,
  demands_ok ds ->
  let r := run (fm_read f) (fm_init s) ds in
  calls_bounded r ds /\
  prefix (outs_of r) (sem_flatmap f (rows_of s)) /\
  (final_of r = SEof -> outs_of r = sem_flatmap f (rows_of s)) /\
  (fails s = true -> final_of r <> SEof) /\
  (fails s = false -> forall e, final_of r <> SErr e) /\
  no_fuel r.
Proof. exact flatmap_delivers. Qed.

Theorem C17_flatmap_progress : forall f s ds,
  demands_ok ds -> smeas s + 1 + length (sem_flatmap f (rows_of s)) < length ds ->
  final_of (run (fm_read f) (fm_init s) ds) <> SOk.
Proof. exact flatmap_progress. Qed.

Theorem C17_flatmap_chunking_irrelevant : forall f s1 s2 ds1 ds2,
  rows_of s1 = rows_of s2 -> demands_ok ds1 -> demands_ok ds2 ->
  final_of (run (fm_read f) (fm_init s1) ds1) = SEof ->
  final_of (run (fm_read f) (fm_init s2) ds2) = SEof ->
  outs_of (run (fm_read f) (fm_init s1) ds1) = outs_of (run (fm_read f) (fm_init s2) ds2).
Proof. exact flatmap_chunking_irrelevant. Qed.
Theorem C17_flatmap_total : forall f s ds,
  demands_ok ds -> smeas s + 1 + length (sem_flatmap f (rows_of s)) < length ds -> fails s = false ->
  outs_of (run (fm_read f) (fm_init s) ds) = sem_flatmap f (rows_of s) /\
  final_of (run (fm_read f) (fm_init s) ds) = SEof.
Proof. exact flatmap_total. Qed.
Print Assumptions C17_flatmap_total.

(* ---- headReader (slice.go:984): a failure past the first n rows need not be met ---- *)
Theorem C17_head_delivers : forall n s ds,
  demands_ok ds ->
  let r := run head_read (mkHead s n) ds in
  calls_bounded r ds /\
  prefix (outs_of r) (sem_head n (rows_of s)) /\
  (final_of r = SEof -> outs_of r = sem_head n (rows_of s)) /\
  ((fails s && (Z.of_nat (length (rows_of s)) <? n)%Z) = true -> final_of r <> SEof) /\
  ((fails s && (Z.of_nat (length (rows_of s)) <? n)%Z) = false -> forall e, final_of r <> SErr e) /\
  no_fuel r.
Proof. exact head_delivers. Qed.

Theorem C17_head_progress : forall n s ds,
  demands_ok ds -> smeas s < length ds ->
  final_of (run head_read (mkHead s n) ds) <> SOk.
Proof. exact head_progress. Qed.

Theorem C17_head_chunking_irrelevant : forall n s1 s2 ds1 ds2,
  rows_of s1 = rows_of s2 -> demands_ok ds1 -> demands_ok ds2 ->
  final_of (run head_read (mkHead s1 n) ds1) = SEof ->
  final_of (run head_read (mkHead s2 n) ds2) = SEof ->
  outs_of (run head_read (mkHead s1 n) ds1) = outs_of (run head_read (mkHead s2 n) ds2).
Proof. exact head_chunking_irrelevant. Qed.
(* "writes only those rows": what lands in the destination is what is reported *)
Theorem C17_head_writes_only_prefix : forall st d,
  head_written st d = fst (fst (head_read st d)).
Proof. exact head_writes_only_prefix. Qed.
Theorem C17_head_demand_bounded : forall st d,
  (0 < h_n st)%Z -> 1 <= d -> (Z.of_nat (head_demand st d) <= h_n st)%Z /\ head_demand st d <= d.
Proof. exact head_demand_bounded. Qed.
(* witness of the defect repaired by commit b23d5f2 (old reader, kept as [head_read_overwriting]) *)
Theorem C17_head_read_overwriting_wrote_past_count :
  exists st d, length (fst (fst (head_read_overwriting st d))) < length (head_written_overwriting st d).
Proof. exact head_read_overwriting_wrote_past_count. Qed.
Print Assumptions C17_head_writes_only_prefix.

(* ---- constReader (slice.go:246) over the rows constShard assigns to the shard ---- *)
Theorem C17_const_delivers : forall data nshard shard ds,
  demands_ok ds ->
  let r := run const_read (const_init data nshard shard) ds in
  calls_bounded r ds /\
  prefix (outs_of r) (const_init data nshard shard) /\
  (final_of r = SEof -> outs_of r = const_init data nshard shard) /\
  (false = true -> final_of r <> SEof) /\
  (false = false -> forall e, final_of r <> SErr e) /\
  no_fuel r.
Proof. exact const_delivers. Qed.

Theorem C17_const_progress : forall data nshard shard ds,
  demands_ok ds -> length (const_init data nshard shard) < length ds ->
  final_of (run const_read (const_init data nshard shard) ds) <> SOk.
Proof. exact const_progress. Qed.

Theorem C17_const_total : forall data nshard shard ds,
  demands_ok ds -> length (const_init data nshard shard) < length ds ->
  outs_of (run const_read (const_init data nshard shard) ds) = const_init data nshard shard.
Proof. exact const_total. Qed.

(* ---- sliceio.multiReader (sliceio/reader.go:85) and exec.multiReader (exec/local.go:248) ---- *)
Theorem C17_multi_delivers : forall q ds,
  demands_ok ds ->
  let r := run multi_read (mkMulti q SOk) ds in
  calls_bounded r ds /\
  prefix (outs_of r) (sem_multi q) /\
  (final_of r = SEof -> outs_of r = sem_multi q) /\
  (qfails q = true -> final_of r <> SEof) /\
  (qfails q = false -> forall e, final_of r <> SErr e) /\
  no_fuel r.
Proof. exact multi_delivers. Qed.
Print Assumptions C17_multi_delivers.
Theorem C17_multi_progress : forall q ds,
  demands_ok ds -> qmeas q < length ds ->
  final_of (run multi_read (mkMulti q SOk) ds) <> SOk.
Proof. exact multi_progress. Qed.
Theorem C17_multi_total : forall q ds,
  demands_ok ds -> qmeas q < length ds -> qfails q = false ->
  outs_of (run multi_read (mkMulti q SOk) ds) = sem_multi q /\
  final_of (run multi_read (mkMulti q SOk) ds) = SEof.
Proof. exact multi_total. Qed.
Theorem C17_multi_chunking_irrelevant : forall q1 q2 ds1 ds2,
  sem_multi q1 = sem_multi q2 ->
  demands_ok ds1 -> demands_ok ds2 ->
  final_of (run multi_read (mkMulti q1 SOk) ds1) = SEof ->
  final_of (run multi_read (mkMulti q2 SOk) ds2) = SEof ->
  outs_of (run multi_read (mkMulti q1 SOk) ds1) = outs_of (run multi_read (mkMulti q2 SOk) ds2).
Proof. exact multi_chunking_irrelevant. Qed.
(* witness of the defect repaired by commit d00fa90 (old readers, kept as [multi_read_dropping]) *)
Theorem C17_multi_read_dropping_lost_rows :
  exists q ds, demands_ok ds /\
    final_of (run multi_read_dropping (mkMulti q SOk) ds) = SEof /\
    outs_of (run multi_read_dropping (mkMulti q SOk) ds) <> sem_multi q.
Proof. exact multi_read_dropping_lost_rows. Qed.

(* ---- sliceio.frameReader (sliceio/reader.go:134) ---- *)
Theorem C17_frame_delivers : forall rows ds,
  demands_ok ds ->
  let r := run frame_read rows ds in
  calls_bounded r ds /\
  prefix (outs_of r) (rows) /\
  (final_of r = SEof -> outs_of r = rows) /\
  (false = true -> final_of r <> SEof) /\
  (false = false -> forall e, final_of r <> SErr e) /\
  no_fuel r.
Proof. exact frame_delivers. Qed.

Theorem C17_frame_progress : forall rows ds,
  demands_ok ds -> length rows < length ds ->
  final_of (run frame_read rows ds) <> SOk.
Proof. exact frame_progress. Qed.

Theorem C17_frame_total : forall rows ds,
  demands_ok ds -> length rows < length ds -> outs_of (run frame_read rows ds) = rows.
Proof. exact frame_total. Qed.

(* ---- foldReader (slice.go:920-951): compute, then drain the accumulator ---- *)
Theorem C17_fold_delivers : forall fn s ds,
  demands_ok ds ->
  let r := run (fold_read fn) (mkFold s None SOk) ds in
  calls_bounded r ds /\
  prefix (outs_of r) (sem_fold fn (rows_of s)) /\
  (final_of r = SEof -> outs_of r = sem_fold fn (rows_of s)) /\
  (fails s = true -> final_of r <> SEof) /\
  (fails s = false -> forall e, final_of r <> SErr e) /\
  no_fuel r.
Proof. exact fold_delivers. Qed.

Theorem C17_fold_progress : forall fn s ds,
  demands_ok ds -> length (sem_fold fn (rows_of s)) < length ds ->
  final_of (run (fold_read fn) (mkFold s None SOk) ds) <> SOk.
Proof. exact fold_progress. Qed.

Theorem C17_fold_chunking_irrelevant : forall fn s1 s2 ds1 ds2,
  rows_of s1 = rows_of s2 -> demands_ok ds1 -> demands_ok ds2 ->
  final_of (run (fold_read fn) (mkFold s1 None SOk) ds1) = SEof ->
  final_of (run (fold_read fn) (mkFold s2 None SOk) ds2) = SEof ->
  outs_of (run (fold_read fn) (mkFold s1 None SOk) ds1) = outs_of (run (fold_read fn) (mkFold s2 None SOk) ds2).
Proof. exact fold_chunking_irrelevant. Qed.
Theorem C17_fold_keys_distinct : forall fn rows, NoDup (map fst (accumulate fn rows [])).
Proof. exact fold_keys_distinct. Qed.

(* ---- readerFuncSliceReader (slice.go:361): the user function is the script ---- *)
Theorem C17_readerfunc_delivers : forall s ds,
  demands_ok ds ->
  let r := run readerfunc_read (mkMap s SOk) ds in
  calls_bounded r ds /\
  prefix (outs_of r) (rows_of s) /\
  (final_of r = SEof -> outs_of r = rows_of s) /\
  (fails s = true -> final_of r <> SEof) /\
  (fails s = false -> forall e, final_of r <> SErr e) /\
  no_fuel r.
Proof. exact readerfunc_delivers. Qed.

Theorem C17_readerfunc_progress : forall s ds,
  demands_ok ds -> smeas s < length ds ->
  final_of (run readerfunc_read (mkMap s SOk) ds) <> SOk.
Proof. exact readerfunc_progress. Qed.

Theorem C17_readerfunc_error_class : forall s ds e,
  demands_ok ds -> final_of (run readerfunc_read (mkMap s SOk) ds) = SErr e -> e = 2%Z \/ e = 3%Z.
Proof. exact readerfunc_error_class. Qed.

(* ---- writerFuncReader (slice.go:516): same rows as its input, whatever the write function does ---- *)
Theorem C17_writerfunc_delivers : forall w s ds,
  demands_ok ds ->
  let r := run (wf_read w) (mkWf s SOk 0) ds in
  calls_bounded r ds /\
  prefix (outs_of r) (rows_of s) /\
  (final_of r = SEof -> outs_of r = rows_of s) /\
  (fails s = true -> final_of r <> SEof) /\
  ((fails s || wf_may w) = false -> forall e, final_of r <> SErr e) /\
  no_fuel r.
Proof. exact wf_delivers. Qed.

Theorem C17_writerfunc_progress : forall w s ds,
  demands_ok ds -> smeas s < length ds ->
  final_of (run (wf_read w) (mkWf s SOk 0) ds) <> SOk.
Proof. exact wf_progress. Qed.

(* ---- exec.taskBufferReader (exec/buffer.go:53): the i,j,k cursor ---- *)
Theorem C17_taskbuf_delivers : forall b p ds,
  demands_ok ds ->
  let r := run tb_read (tb_init b p) ds in
  calls_bounded r ds /\
  prefix (outs_of r) (sem_tb b p) /\
  (final_of r = SEof -> outs_of r = sem_tb b p) /\
  (false = true -> final_of r <> SEof) /\
  (false = false -> forall e, final_of r <> SErr e) /\
  no_fuel r.
Proof. exact taskbuf_delivers. Qed.

Theorem C17_taskbuf_progress : forall b p ds,
  demands_ok ds -> length (sem_tb b p) < length ds ->
  final_of (run tb_read (tb_init b p) ds) <> SOk.
Proof. exact taskbuf_progress. Qed.

Theorem C17_taskbuf_total : forall b p ds,
  demands_ok ds -> length (sem_tb b p) < length ds ->
  outs_of (run tb_read (tb_init b p) ds) = sem_tb b p.
Proof. exact taskbuf_total. Qed.
(* the stored frames (shared with whoever delivered them) are never altered by reading *)
Theorem C17_taskbuf_frames_unchanged : forall st d, tb_wf st -> tb_q (snd (tb_read st d)) = tb_q st.
Proof. exact taskbuf_frames_unchanged. Qed.
(* bufferOutput + taskBufferReader: frames kept without copying read back as delivered *)
Theorem C17_bufout_flatmap_roundtrip : forall f s ds,
  fails s = false -> demands_ok ds -> length (sem_flatmap f (rows_of s)) < length ds ->
  exists fs,
    bufout (smeas s + length (sem_flatmap f (rows_of s)) + 2) (fm_read f) (fm_init s) [] = (Some fs, SOk) /\
    outs_of (run tb_read (tb_init [fs] 0) ds) = sem_flatmap f (rows_of s).
Proof. exact bufout_flatmap_roundtrip. Qed.
Print Assumptions C17_bufout_flatmap_roundtrip.

(* ---- decodingReader, buf/scratch logic (sliceio/codec.go:144): batches vs destination sizes ---- *)
Theorem C17_decoding_delivers : forall s ds,
  demands_ok ds ->
  let r := run dec_read (mkDec s [] SOk) ds in
  calls_bounded r ds /\
  prefix (outs_of r) (batches_of s) /\
  (final_of r = SEof -> outs_of r = batches_of s) /\
  (dec_fails s = true -> final_of r <> SEof) /\
  (dec_fails s = false -> forall e, final_of r <> SErr e) /\
  no_fuel r.
Proof. exact decoding_delivers. Qed.

Theorem C17_decoding_progress : forall s ds,
  demands_ok ds -> dmeas s < length ds ->
  final_of (run dec_read (mkDec s [] SOk) ds) <> SOk.
Proof. exact decoding_progress. Qed.

Theorem C17_decoding_chunking_irrelevant : forall s1 s2 ds1 ds2,
  batches_of s1 = batches_of s2 -> demands_ok ds1 -> demands_ok ds2 ->
  final_of (run dec_read (mkDec s1 [] SOk) ds1) = SEof ->
  final_of (run dec_read (mkDec s2 [] SOk) ds2) = SEof ->
  outs_of (run dec_read (mkDec s1 [] SOk) ds1) = outs_of (run dec_read (mkDec s2 [] SOk) ds2).
Proof. exact decoding_chunking_irrelevant. Qed.

(* ---- ClosingReader (sliceio/reader.go:239) ---- *)
Theorem C17_closing_delivers : forall s ds,
  demands_ok ds ->
  let r := run closing_read (mkCl s 0) ds in
  calls_bounded r ds /\
  prefix (outs_of r) (rows_of s) /\
  (final_of r = SEof -> outs_of r = rows_of s) /\
  (fails s = true -> final_of r <> SEof) /\
  (fails s = false -> forall e, final_of r <> SErr e) /\
  no_fuel r.
Proof. exact closing_delivers. Qed.

Theorem C17_closing_progress : forall s ds,
  demands_ok ds -> smeas s < length ds ->
  final_of (run closing_read (mkCl s 0) ds) <> SOk.
Proof. exact closing_progress. Qed.

Theorem C17_closing_closes_once : forall s ds,
  let '(r, fin) := run_st closing_read (mkCl s 0) ds in
  cl_closes fin = match final_of r with SOk => 0 | _ => 1 end.
Proof. exact closing_closes_once. Qed.

(* ---- sliceio.Scanner (sliceio/scanner.go) ---- *)
Theorem C17_scanner_delivers : forall s ds,
  demands_ok ds ->
  let r := run scanv_read (sc_init s) ds in
  calls_bounded r ds /\
  prefix (outs_of r) (rows_of s) /\
  (final_of r = SEof -> outs_of r = rows_of s) /\
  (fails s = true -> final_of r <> SEof) /\
  (fails s = false -> forall e, final_of r <> SErr e) /\
  no_fuel r.
Proof. exact scanner_delivers. Qed.

Theorem C17_scanner_progress : forall s ds,
  demands_ok ds -> length (rows_of s) < length ds -> final_of (run scanv_read (sc_init s) ds) <> SOk.
Proof. exact scanner_progress. Qed.
(* each row exactly once, in order; then Scan returns false and Err() is nil (SEof) *)
Theorem C17_scan_each_once : forall s,
  fails s = false ->
  let '(seen, st') := scan_all (S (length (rows_of s))) (sc_init s) [] in
  seen = rows_of s /\ sc_err st' = SEof.
Proof. exact scan_each_once. Qed.
Theorem C17_scanreader_all : forall s, fails s = false -> scanreader_read s = (SEof, rows_of s).
Proof. exact scanreader_all. Qed.
(* wrong arity / wrong type: rejected with an error that sticks *)
Theorem C17_scan_rejects_bad_destination : forall st,
  sc_err st = SOk ->
  let '(r, st') := sc_scan_bad st in
  r = None /\ sc_err st' = SErr 4%Z /\ sc_scan st' = (None, st') /\ sc_scan_bad st' = (None, st').
Proof. exact scan_rejects_bad_destination. Qed.
Print Assumptions C17_scan_each_once.

(* ---- Head(n) directly over a decoded stream (headReader passes the window out.Slice(0, h.n) on) ---- *)
Theorem C17_head_decoding_delivers : forall s n ds,
  demands_ok ds ->
  let r := run (head_over dec_read) (mkDec s [] SOk, n) ds in
  calls_bounded r ds /\
  prefix (outs_of r) (sem_head n (batches_of s)) /\
  (final_of r = SEof -> outs_of r = sem_head n (batches_of s)) /\
  (false = true -> final_of r <> SEof) /\
  (dec_fails s = false -> forall e, final_of r <> SErr e) /\
  no_fuel r.
Proof. exact head_decoding_delivers. Qed.
Theorem C17_head_decoding_progress : forall s n ds,
  demands_ok ds -> dmeas s < length ds ->
  final_of (run (head_over dec_read) (mkDec s [] SOk, n) ds) <> SOk.
Proof. exact head_decoding_progress. Qed.

(* every theorem of this file at once: one traversal of the whole dependency cone *)
Definition C17_all :=
  (C17_gen_chunk,
   C17_gen_const_shard,
   C17_gen_head_literals,
   C17_gen_head_read_src,
   C17_gen_taskbuf_literals,
   C17_gen_multi_literals,
   C17_map_delivers,
   C17_map_progress,
   C17_map_chunking_irrelevant,
   C17_map_total,
   C17_filter_delivers,
   C17_filter_progress,
   C17_filter_chunking_irrelevant,
   C17_filter_total,
   C17_flatmap_delivers,
   C17_flatmap_progress,
   C17_flatmap_chunking_irrelevant,
   C17_flatmap_total,
   C17_head_delivers,
   C17_head_progress,
   C17_head_chunking_irrelevant,
   C17_head_writes_only_prefix,
   C17_head_demand_bounded,
   C17_head_read_overwriting_wrote_past_count,
   C17_const_delivers,
   C17_const_progress,
   C17_const_total,
   C17_multi_delivers,
   C17_multi_progress,
   C17_multi_total,
   C17_multi_chunking_irrelevant,
   C17_multi_read_dropping_lost_rows,
   C17_frame_delivers,
   C17_frame_progress,
   C17_frame_total,
   C17_fold_delivers,
   C17_fold_progress,
   C17_fold_chunking_irrelevant,
   C17_fold_keys_distinct,
   C17_readerfunc_delivers,
   C17_readerfunc_progress,
   C17_readerfunc_error_class,
   C17_writerfunc_delivers,
   C17_writerfunc_progress,
   C17_taskbuf_delivers,
   C17_taskbuf_progress,
   C17_taskbuf_total,
   C17_taskbuf_frames_unchanged,
   C17_bufout_flatmap_roundtrip,
   C17_decoding_delivers,
   C17_decoding_progress,
   C17_decoding_chunking_irrelevant,
   C17_closing_delivers,
   C17_closing_progress,
   C17_closing_closes_once,
   C17_scanner_delivers,
   C17_scanner_progress,
   C17_scan_each_once,
   C17_scanreader_all,
   C17_scan_rejects_bad_destination,
   C17_head_decoding_delivers,
   C17_head_decoding_progress).
Print Assumptions C17_all.

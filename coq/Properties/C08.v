(* C08 — An invocation compiles to the same well-formed task graph everywhere.
   Only restated theorems, each closed by [exact], with Print Assumptions.

   [compile_gen fixed g inv mc init env] is the model of exec.compile
   (coq/C08/Model.v): g is the slice DAG as compile() sees it, init the tasks of
   earlier invocations that Result arguments refer to, env the CompileEnv.
   [compile_top] is compile_gen at the code's configuration
   [code_config] (re-shuffle tasks over a Result partitioned: f1643ee; and named
   by this invocation: 3babbc3), and [transported_env] the environment shipped to
   workers at [transport_freezes_env] = true (1222816): the repairs are in /repo
   and pinned below.  The general theorems are proved
   for both values of [fixed]; the *_code theorems state the property for the
   code as it is, without guards; the *_witness theorems record that the two
   former configurations violated it. *)
From Coq Require Import List String NArith Arith Bool ZArith.
Import ListNotations.
Require Import BS.C08.Model BS.C08.Ind BS.C08.Names BS.C08.Shape BS.C08.NamesInv
               BS.C08.Proofs BS.C08.Frozen BS.C08.Agree BS.C08.Witness BS.Gen.C08_params.
Local Open Scope nat_scope.

(* ---- tie to the source: the literals compile() builds names from ---- *)
Theorem C08_gen_compile_literals :
  compile_string_literals =
  ["cannot reuse task %s with combine key %s"; "inv%d_%s_shuffle"; ""; "inv%d"; "_";
   "tasks:%d deptasks:%d"; ""; "%s(%s)"]%string.
Proof. reflexivity. Qed.
Theorem C08_gen_namer_literals : namer_string_literals = ["%s%d"%string] /\ namer_int_literals = [0%Z].
Proof. split; reflexivity. Qed.
Theorem C08_gen_partitioner_literals :
  is_shuffle_literals = [0%Z] /\ num_partition_literals = [0%Z; 1%Z] /\ num_task_literals = [0%Z; 0%Z; 1%Z].
Proof. repeat split; reflexivity. Qed.

(* the repaired sites: the re-shuffle Task literal over a Result (the first Task
   literal of compile) sets the partitioning fields like the pipeline Task literal
   does; addInvocation freezes the environment it stores for transport *)
Theorem C08_gen_task_literals :
  compile_task_literals =
  [["Type"; "Invocation"; "Name"; "Do"; "Deps"; "Pragma"; "Slices";
    "NumPartition"; "Partitioner"; "Combiner"; "CombineKey"];
   ["Type"; "Name"; "Invocation"; "Pragma"; "NumPartition"; "Partitioner"; "Combiner"; "CombineKey"]]%string.
Proof. reflexivity. Qed.
Theorem C08_gen_reshuffle_task_partitioned :
  forallb (fun f => existsb (String.eqb f) (hd [] compile_task_literals))
          ["NumPartition"; "Partitioner"; "Combiner"; "CombineKey"]%string = true.
Proof. reflexivity. Qed.
Theorem C08_gen_transport_freezes :
  existsb (String.eqb "inv.Env.Freeze"%string) add_invocation_calls = true.
Proof. reflexivity. Qed.

(* ---- the model's configuration is the repaired code ---- *)
Theorem C08_code_result_shuffle_fixed : result_shuffle_fixed = true.
Proof. exact code_result_shuffle_fixed. Qed.
Theorem C08_code_transport_freezes : transport_freezes_env = true.
Proof. exact code_transport_freezes. Qed.
Theorem C08_code_reshuffle_named_by_inv : reshuffle_named_by_inv = true.
Proof. exact code_reshuffle_named_by_inv. Qed.
Theorem C08_code_config : code_config = mkConfig true true.
Proof. reflexivity. Qed.
(* the format the repaired naming is modelled after *)
Theorem C08_gen_reshuffle_name_format :
  nth 1 compile_string_literals ""%string = "inv%d_%s_shuffle"%string
  /\ forall inv op, shuffle_base inv code_config op = ("inv" ++ decN inv ++ "_" ++ op ++ "_shuffle")%string.
Proof. split; reflexivity. Qed.

(* ---- the fuel (DAG size + 1) always suffices ---- *)
Theorem C08_fuel_suffices : forall g inv mc fixed, wf_dag g ->
  forall init env, compile_gen fixed g inv mc init env <> CFail EOutOfFuel.
Proof. exact compile_gen_fuel. Qed.
Print Assumptions C08_fuel_suffices.

(* ---- names_unique ---- *)
(* "%s%d" is injective on (base, counter) for bases that do not end in a digit *)
Theorem C08_render_injective : forall b1 b2 c1 c2,
  clean b1 -> clean b2 -> render b1 c1 = render b2 c2 -> b1 = b2 /\ c1 = c2.
Proof. exact render_inj. Qed.

Theorem C08_names_unique : forall g inv mc fixed init env st roots,
  wf_dag g -> wf_init g init ->
  compile_gen fixed g inv mc init env = COk st roots ->
  (forall i, clean (nop (get_node g i))) ->
  NoDup (map name_of init) -> (forall t, In t init -> tinv t <> inv) ->
  NoDup (map name_of (sstore st)).
Proof. exact names_unique. Qed.
Print Assumptions C08_names_unique.

(* the hypothesis on operation names is needed (no bigslice operation violates it) *)
Theorem C08_names_unique_digit_refuted :
  exists st roots, compile_top g_digit 1%N false [] empty_env = COk st roots
                   /\ ~ NoDup (map name_of (sstore st)).
Proof. exact names_unique_digit_refuted. Qed.


(* ---- names across invocations: every operation name minted by invocation i
        starts with "inv<i>_", so invocations with distinct indices never mint the
        same operation name, whatever Results they share (task stores are keyed by
        operation name and shard) ---- *)
Theorem C08_ops_carry_invocation : forall fixed g inv mc init env st roots,
  cfg_named_by_inv fixed = true -> wf_dag g ->
  compile_gen fixed g inv mc init env = COk st roots ->
  forall t, In t (skipn (List.length init) (sstore st)) -> prefixed inv (top t).
Proof. exact ops_carry_invocation. Qed.
Theorem C08_ops_disjoint_across_invocations :
  forall fixed g g' i j mc mc' init init' env env' st st' roots roots',
  cfg_named_by_inv fixed = true -> wf_dag g -> wf_dag g' ->
  compile_gen fixed g i mc init env = COk st roots ->
  compile_gen fixed g' j mc' init' env' = COk st' roots' ->
  i <> j ->
  forall t t', In t (skipn (List.length init) (sstore st)) ->
               In t' (skipn (List.length init') (sstore st')) -> top t <> top t'.
Proof. exact ops_disjoint_across_invocations. Qed.
Print Assumptions C08_ops_disjoint_across_invocations.
(* for the code as it is *)
Theorem C08_ops_disjoint_across_invocations_code :
  forall g g' i j mc mc' init init' env env' st st' roots roots',
  wf_dag g -> wf_dag g' ->
  compile_top g i mc init env = COk st roots ->
  compile_top g' j mc' init' env' = COk st' roots' ->
  i <> j ->
  forall t t', In t (skipn (List.length init) (sstore st)) ->
               In t' (skipn (List.length init') (sstore st')) -> top t <> top t'.
Proof.
  intros g g' i j mc mc' init init' env env' st st' roots roots'.
  exact (ops_disjoint_across_invocations code_config g g' i j mc mc' init init' env env' st st' roots roots'
           code_config_named_by_inv).
Qed.

(* WITNESS about the former naming (cfg_named_by_inv = false: "%s_shuffle" of the
   Result's operation name, compile.go before 3babbc3): invocations 2 and 3
   re-shuffling the Result of invocation 1 minted the same operation name. *)
Theorem C08_reshuffle_old_naming_witness :
  exists st2 r2 st3 r3,
    compile_gen (mkConfig true false) g_reshuffle_result 2%N false init_result empty_env = COk st2 r2
    /\ compile_gen (mkConfig true false) g_reshuffle_result 3%N false init_result empty_env = COk st3 r3
    /\ exists t2 t3, nth_error (sstore st2) 2 = Some t2 /\ nth_error (sstore st3) 2 = Some t3
                     /\ top t2 = "inv1_const_shuffle"%string /\ top t2 = top t3 /\ tshard t2 = tshard t3
                     /\ tinv t2 <> tinv t3.
Proof. exact reshuffle_old_naming_witness. Qed.
Print Assumptions C08_reshuffle_old_naming_witness.

(* ---- acyclic: task identities are a rank that decreases along dependencies ---- *)
Theorem C08_acyclic : forall g inv mc fixed init env st roots,
  wf_dag g -> wf_init g init ->
  compile_gen fixed g inv mc init env = COk st roots ->
  forall id t, List.length init <= id -> nth_error (sstore st) id = Some t ->
  forall td, In td (tdeps t) -> forall m, In m (members (sstore st) td) -> m < id.
Proof. exact acyclic. Qed.
Theorem C08_old_tasks_untouched : forall g inv mc fixed init env st roots,
  wf_dag g -> wf_init g init ->
  compile_gen fixed g inv mc init env = COk st roots ->
  firstn (List.length init) (sstore st) = init.
Proof. exact old_tasks_untouched. Qed.
Print Assumptions C08_acyclic.

(* ---- roots_per_shard ---- *)
Theorem C08_roots_per_shard : forall g inv mc fixed init env st roots,
  wf_dag g -> wf_init g init ->
  compile_gen fixed g inv mc init env = COk st roots ->
  List.length roots = nshard (get_node g (root g)).
Proof. exact roots_per_shard. Qed.
Theorem C08_roots_are_shards : forall g inv mc fixed init env st roots,
  wf_dag g -> wf_init g init ->
  compile_gen fixed g inv mc init env = COk st roots ->
  nresult (get_node g (root g)) = None ->
  forall k id, nth_error roots k = Some id ->
    exists t, nth_error (sstore st) id = Some t /\ List.length init <= id /\ tinv t = inv /\ tshard t = k
              /\ tnshard t = nshard (get_node g (root g)) /\ tnumpart t = 1 /\ tgroup t = []
              /\ hd_error (tslices t) = Some (root g).
Proof. exact roots_are_shards. Qed.
Theorem C08_roots_of_result : forall g inv mc fixed init env st roots,
  wf_dag g -> wf_init g init ->
  compile_gen fixed g inv mc init env = COk st roots ->
  forall rts, nresult (get_node g (root g)) = Some rts -> roots = rts.
Proof. exact roots_of_result. Qed.
Print Assumptions C08_roots_are_shards.

(* ---- one_task_per_stage_shard: every new task sits in a block of tnshard
        consecutive tasks with the same name, one per shard ---- *)
Theorem C08_one_task_per_stage_shard : forall g inv mc fixed init env st roots,
  wf_dag g -> wf_init g init ->
  compile_gen fixed g inv mc init env = COk st roots ->
  forall id t, List.length init <= id -> nth_error (sstore st) id = Some t ->
    tinv t = inv /\ tshard t < tnshard t /\
    exists base, id = base + tshard t /\ List.length init <= base /\
      forall k, k < tnshard t ->
        exists u, nth_error (sstore st) (base + k) = Some u /\ top u = top t /\ tshard u = k
                  /\ tnshard u = tnshard t /\ tinv u = tinv t.
Proof. exact one_task_per_stage_shard. Qed.
Print Assumptions C08_one_task_per_stage_shard.

(* ---- no_pipeline_across: the slices of a task form a chain joined by single,
        non-shuffle dependencies on slices that are neither materialized nor
        Results; the only other new tasks re-shuffle one task of a Result ---- *)
Theorem C08_no_pipeline_across : forall g inv mc fixed init env st roots,
  wf_dag g -> wf_init g init ->
  compile_gen fixed g inv mc init env = COk st roots ->
  forall id t, List.length init <= id -> nth_error (sstore st) id = Some t ->
    (exists i, nresult (get_node g i) = None
               /\ pipeline (S (List.length g)) g i = Some (tslices t)
               /\ chain g (tslices t)
               /\ tnshard t = nshard (get_node g i))
    \/ (exists rid, rid < List.length init /\ tdeps t = [mkTDep rid 0 false ""%string]
                    /\ tslices t = tslices (get_task init rid)).
Proof. exact no_pipeline_across. Qed.
Print Assumptions C08_no_pipeline_across.

(* ---- shuffle_wiring, general form: for both configurations; in the former one
        only for dependencies whose producer is not a Result ---- *)
Theorem C08_shuffle_wiring : forall g inv mc fixed init env st roots,
  wf_dag g -> wf_init g init -> compile_gen fixed g inv mc init env = COk st roots ->
  forall id t, List.length init <= id -> nth_error (sstore st) id = Some t ->
    reshuffle_task init t
    \/ exists i, nresult (get_node g i) = None /\ pipeline (S (List.length g)) g i = Some (tslices t)
         /\ (tdeps t = []
             \/ (List.length (tdeps t) = List.length (ndeps (get_node g (last (tslices t) i)))
                 /\ forall j d td,
                      nth_error (ndeps (get_node g (last (tslices t) i))) j = Some d ->
                      nth_error (tdeps t) j = Some td -> dshuffle d = true ->
                      (cfg_partitioned fixed = true \/ nresult (get_node g (dtarget d)) = None) ->
                      wired_shuffle g inv init (sstore st) t (get_node g (last (tslices t) i)) d td)).
Proof. exact shuffle_wiring_top. Qed.
Print Assumptions C08_shuffle_wiring.

Theorem C08_narrow_wiring : forall g inv fixed init st t i,
  pipeline_task g inv fixed init st t i -> tshard t < tnshard t ->
  forall j d td, nth_error (ndeps (get_node g (last (tslices t) i))) j = Some d ->
                 nth_error (tdeps t) j = Some td -> dshuffle d = false ->
  dpart td = 0 /\ dexp td = dexpand d /\ dckey td = ""%string
  /\ match nresult (get_node g (dtarget d)) with
     | Some rts => nth_error rts (tshard t) = Some (dhead td)
     | None => exists u, nth_error (sstore st) (dhead td) = Some u /\ List.length init <= dhead td
                         /\ tshard u = tshard t /\ tnumpart u = 1 /\ tgroup u = []
                         /\ hd_error (tslices u) = Some (dtarget d)
     end.
Proof. exact narrow_wiring. Qed.

(* ---- shuffle_wiring for the code as it is: every shuffle dependency of every
        new pipeline task, Result producers included ---- *)
Theorem C08_shuffle_wiring_code : forall g inv mc init env st roots,
  wf_dag g -> wf_init g init -> compile_top g inv mc init env = COk st roots ->
  forall id t, List.length init <= id -> nth_error (sstore st) id = Some t ->
    reshuffle_task init t
    \/ exists i, nresult (get_node g i) = None /\ pipeline (S (List.length g)) g i = Some (tslices t)
         /\ (tdeps t = []
             \/ (List.length (tdeps t) = List.length (ndeps (get_node g (last (tslices t) i)))
                 /\ forall j d td,
                      nth_error (ndeps (get_node g (last (tslices t) i))) j = Some d ->
                      nth_error (tdeps t) j = Some td -> dshuffle d = true ->
                      wired_shuffle g inv init (sstore st) t (get_node g (last (tslices t) i)) d td)).
Proof. exact shuffle_wiring_code. Qed.
Print Assumptions C08_shuffle_wiring_code.

(* WITNESS about the former configuration (cfg_partitioned = false: compile.go before
   f1643ee): a shuffle whose producer is a Result was not wired as demanded; the
   inserted re-shuffle tasks declared NumPartition = 0 and no partitioner. *)
Theorem C08_result_shuffle_unfixed_witness :
  exists st roots,
    compile_gen (mkConfig false true) g_reshuffle_result 2%N false init_result empty_env = COk st roots
    /\ exists t td m u,
         nth_error (sstore st) (nth 1 roots 0) = Some t /\ In td (tdeps t)
         /\ dpart td = 1
         /\ In m (members (sstore st) td) /\ nth_error (sstore st) m = Some u
         /\ top u = "inv2_inv1_const_shuffle"%string
         /\ tnumpart u = 0 /\ tnumpart u <> tnshard t /\ tpart u = 0.
Proof. exact result_shuffle_unfixed_witness. Qed.
Print Assumptions C08_result_shuffle_unfixed_witness.

(* ---- compile_env_frozen: with a frozen CompileEnv the graph does not depend
        on the compiling process's own view of the caches ---- *)
Theorem C08_compile_env_frozen : forall g g' inv mc fixed,
  same_but_cache g g' ->
  forall init env, ewritable env = false ->
  compile_gen fixed g inv mc init env = compile_gen fixed g' inv mc init env.
Proof. exact compile_env_frozen. Qed.
Print Assumptions C08_compile_env_frozen.

(* ---- the same graph: whoever compiles with the driver's final environment,
        frozen, gets exactly the driver's tasks and roots, whatever its own
        caches contain (this is what (Session).run's Freeze is for) ---- *)
Theorem C08_driver_frozen_agree : forall g g' inv mc fixed init env st roots,
  wf_dag g -> (forall i, clean (nop (get_node g i))) -> same_but_cache g g' ->
  compile_gen fixed g inv mc init env = COk st roots ->
  compile_gen fixed g' inv mc init (freeze (senv st))
  = COk (mkSt (sstore st) (snamer st) (smemo st) (freeze (senv st))) roots.
Proof. exact driver_frozen_agree. Qed.
Print Assumptions C08_driver_frozen_agree.

(* ---- the same graph everywhere, for the code as it is: a worker compiling from
        the transported invocation, whatever its caches contain, gets exactly the
        driver's tasks and roots ---- *)
Theorem C08_worker_graph_is_driver_graph : forall g g' inv mc init st roots,
  wf_dag g -> (forall i, clean (nop (get_node g i))) -> same_but_cache g g' ->
  compile_top g inv mc init empty_env = COk st roots ->
  compile_top g' inv mc init (transported_env empty_env (senv st))
  = COk (mkSt (sstore st) (snamer st) (smemo st) (freeze (senv st))) roots.
Proof. exact worker_graph_is_driver_graph. Qed.
Print Assumptions C08_worker_graph_is_driver_graph.

(* WITNESS about the former configuration (transported_env_gen false =
   addInvocation before 1222816): the environment shipped to workers was
   task.Invocation.Env, copied before the session froze its own copy and still
   writable, so a worker whose caches had filled since compiled a different graph. *)
Theorem C08_worker_env_unfrozen_witness :
  exists driver roots worker roots',
    compile_top (g_cache [false; false]) 1%N false [] empty_env = COk driver roots
    /\ compile_top (g_cache [false; true]) 1%N false []
                   (transported_env_gen false empty_env (senv driver)) = COk worker roots'
    /\ map tdeps (sstore driver) <> map tdeps (sstore worker).
Proof. exact worker_env_unfrozen_witness. Qed.
Print Assumptions C08_worker_env_unfrozen_witness.

(* ---- non-vacuity ---- *)
Theorem C08_example_reduce :
  exists st roots, compile_top g_reduce 1%N true [] empty_env = COk st roots
                   /\ roots = [3; 4; 5]
                   /\ map top (sstore st) = ["inv1_const_map"; "inv1_const_map"; "inv1_const_map";
                                             "inv1_reduce"; "inv1_reduce"; "inv1_reduce"]%string
                   /\ map tnumpart (sstore st) = [3; 3; 3; 1; 1; 1]
                   /\ map (fun t => map (fun d => (dhead d, dpart d)) (tdeps t)) (sstore st)
                      = [[]; []; []; [(0, 0)]; [(0, 1)]; [(0, 2)]].
Proof. exact ex_reduce. Qed.
Theorem C08_example_hypotheses : wf_dag g_reduce /\ wf_dag g_reshuffle_result
                                 /\ wf_init g_reshuffle_result init_result.
Proof. exact (conj g_reduce_wf (conj g_reshuffle_result_wf init_result_wf)). Qed.

(* C03 — Evaluator: tasks start only when ready; success only when done; always progress.
   Only restated theorems, each closed by [exact], with Print Assumptions.

   Model: BS.C03.Model (exec/eval.go, exec/task.go).  A system is a world (task
   states + consecutiveLost counters) and any number of evaluations; [step] is one
   atomic step (environment event LSet, LStart, a waiter goroutine LWait, the main
   loop LMain); [reachable] = any interleaving of such steps in which the
   environment never resets a task to INIT ([legal_label]); [lock_step] = the
   schedule of the lock-step driver.  [eda] ("TaskErr counts as done") selects the
   Enqueue switch: true = the code as it is (err_counts_as_done, read off the Go
   AST), false = the repaired switch. *)
(* Since 0540c52 a second switch is read off the Go AST: eval_counts_loss_once (the
   loss of a run is counted once, by the runner's waiter or by whichever evaluation
   resubmits the task first).  [step eda g], [reachable eda g], [lock_step eda g] stand
   for the code version that goes with [eda]: [ver eda] = the former accounting for
   eda = true (the original code), what the source has now for eda = false.  The
   *_v functions take both switches explicitly ([clo] first). *)
From Coq Require Import List ZArith Bool.
Import ListNotations.
Require Import BS.Gen.C03_params BS.C03.Model BS.C03.Proofs BS.C03.Safety BS.C03.Released BS.C03.Theorems
               BS.C03.Needed BS.C03.Lockstep BS.C03.Progress BS.C03.Counting.

(* ------------------------------------------------------------------ tie to the source (goparams) *)

Theorem C03_gen_state_order :
  map code [TInit; TWaiting; TRunning; TOk; TErr; TLost] = [0; 1; 2; 3; 4; 5]%Z /\ ts_all = [0; 1; 2; 3; 4; 5]%Z.
Proof. split; reflexivity. Qed.

(* what the waiter's `state < TaskOk` loop condition lets through *)
Theorem C03_gen_ge_ok : forall s, ge_ok s = true <-> s = TOk \/ s = TErr \/ s = TLost.
Proof.
  destruct s; vm_compute; split; intro H; auto; try discriminate;
    repeat (destruct H as [H|H]; try discriminate).
Qed.

Theorem C03_gen_max_consecutive_lost : max_consecutive_lost = 5%Z.
Proof. reflexivity. Qed.

(* state.Enqueue has one switch with three clauses; the model's classification is that table *)
Theorem C03_gen_enqueue_table :
  map (@length (list Z)) enqueue_switches = [3] /\
  forall s, gen_enqueue_clause s =
            Some (match enq_class err_counts_as_done s with CDone => 0 | CSched => 1 | CTrav => 2 end).
Proof. split; [reflexivity | destruct s; reflexivity]. Qed.

(* the behaviour flag of the faithful model, read off the Go AST: after the repair
   of eval.go (fix: commit) TaskErr is no longer listed with TaskOk in Enqueue *)
Theorem C03_gen_err_counts_as_done : err_counts_as_done = false.
Proof. reflexivity. Qed.

(* state.Return: default / TaskErr / TaskOk / TaskLost *)
Theorem C03_gen_return_table :
  map (@length (list Z)) return_switches = [4] /\
  forall s, gen_return_clause s =
            match ret_class s with RDefault => None | RErr => Some 1 | ROk => Some 2 | RLost => Some 3 end.
Proof. split; [reflexivity | destruct s; reflexivity]. Qed.

(* the runner's bookkeeping switch in Eval: TaskOk / TaskLost *)
Theorem C03_gen_waiter_table :
  map (@length (list Z)) eval_switches = [2] /\
  forall s, gen_waiter_clause s = match s with TOk => Some 0 | TLost => Some 1 | _ => None end.
Proof. split; [reflexivity | destruct s; reflexivity]. Qed.

(* Eval compares task.state: == TaskLost, == TaskInit, < TaskRunning, < TaskOk *)
Theorem C03_gen_eval_comparisons :
  eval_state_cmps =
  [(0, code TLost); (0, code TLost); (0, code TInit); (2, code TRunning); (2, code TOk)]%Z.
Proof. reflexivity. Qed.

(* who accounts for the loss of a run: Eval's main loop calls task.countLost() before it
   resubmits a lost task and the hand-out sets lossUncounted (0540c52); the waiter's
   bookkeeping switch sits under `if runner` *)
Theorem C03_gen_counts_loss_once : eval_counts_loss_once = true.
Proof. reflexivity. Qed.
Theorem C03_gen_bookkeeping_guarded_by_runner : eval_bookkeeping_guarded_by_runner = true.
Proof. reflexivity. Qed.
(* the two code versions the un-suffixed names stand for *)
Theorem C03_gen_versions : ver false = true /\ ver true = false /\ ver err_counts_as_done = true.
Proof. repeat split; reflexivity. Qed.

(* the executable graph check of the correspondence driver implies the hypothesis of the theorems *)
Theorem C03_wf_graphb_sound : forall g, wf_graphb g = true -> wf g.
Proof. exact wf_graphb_sound. Qed.

(* ------------------------------------------------------------------ tasks start only when ready *)

Theorem C03_ready_only : forall g st0 rootss sy l,
  wf g -> reachable false g (init_sys st0 rootss) sy -> legal_label l ->
  forall e r, In (e, r) (snd (step false g sy l)) ->
  forall d u, In d (tdeps (node g r)) -> In u (phase g d) -> wst (sw sy) u = TOk.
Proof. exact ready_only. Qed.
Print Assumptions C03_ready_only.

Theorem C03_ready_only_no_err : forall g st0 rootss sy l,
  wf g -> reachable true g (init_sys st0 rootss) sy -> legal_label l ->
  forall e r, In (e, r) (snd (step true g sy l)) ->
  forall d u, In d (tdeps (node g r)) -> In u (phase g d) ->
  wst (sw sy) u <> TErr -> wst (sw sy) u = TOk.
Proof. exact ready_only_no_err. Qed.

Theorem C03_ready_only_refuted :
  exists g st0 rootss l e r d u,
    wf g /\ legal_label l /\
    In (e, r) (snd (step true g (init_sys st0 rootss) l)) /\
    In d (tdeps (node g r)) /\ In u (phase g d) /\ wst (sw (init_sys st0 rootss)) u <> TOk.
Proof. exact ready_only_refuted. Qed.
Print Assumptions C03_ready_only_refuted.

(* both at once, for either switch: dependencies are in a state Enqueue treats as done *)
Theorem C03_ready_only_gen : forall eda g, wf g -> forall st0 rootss sy l,
  reachable eda g (init_sys st0 rootss) sy -> legal_label l ->
  forall e r, In (e, r) (snd (step eda g sy l)) ->
  forall d u, In d (tdeps (node g r)) -> In u (phase g d) ->
  enq_class eda (wst (sw sy) u) = CDone.
Proof. exact ready_only_gen. Qed.

(* ------------------------------------------------------------------ never handed out twice at the same time *)

Theorem C03_no_double_handout : forall eda g, wf g -> forall st0 rootss sy l,
  reachable eda g (init_sys st0 rootss) sy -> legal_label l ->
  NoDup (map snd (snd (step eda g sy l))) /\
  forall e r, In (e, r) (snd (step eda g sy l)) ->
    ~ handed (wst (sw sy) r) /\ wst (sw (fst (step eda g sy l))) r = TWaiting.
Proof. exact no_double_handout. Qed.

Theorem C03_single_runner : forall eda g, wf g -> forall st0 rootss ls2 sy l2 t e2,
  reachable eda g (init_sys st0 rootss) sy -> Forall legal_label ls2 -> legal_label l2 ->
  handed (wst (sw sy) t) ->
  In (e2, t) (snd (step eda g (fst (exec eda g sy ls2)) l2)) ->
  exists s, In (LSet t s) ls2 /\ ~ handed s.
Proof. intros eda g Hwf st0 rootss. exact (single_runner eda g Hwf st0 rootss). Qed.
Print Assumptions C03_single_runner.

(* ------------------------------------------------------------------ never runs tasks the roots do not need *)

Theorem C03_needed_only : forall eda g, wf g -> forall st0 rootss sy l,
  reachable eda g (init_sys st0 rootss) sy ->
  forall e r, In (e, r) (snd (step eda g sy l)) -> needed g (eroots (get_ev sy e)) r.
Proof. exact needed_only. Qed.
Print Assumptions C03_needed_only.

(* ------------------------------------------------------------------ success only when every root completed successfully *)

Theorem C03_success_sound : forall g st0 rootss sy l,
  wf g -> reachable false g (init_sys st0 rootss) sy -> legal_label l ->
  forall e, eres (get_ev sy e) = None -> eres (get_ev (fst (step false g sy l)) e) = Some false ->
  forall r, In r (eroots (get_ev sy e)) -> wst (sw (fst (step false g sy l))) r = TOk.
Proof. exact success_sound. Qed.
Print Assumptions C03_success_sound.

Theorem C03_success_sound_no_err : forall g st0 rootss sy l,
  wf g -> reachable true g (init_sys st0 rootss) sy -> legal_label l ->
  forall e, eres (get_ev sy e) = None -> eres (get_ev (fst (step true g sy l)) e) = Some false ->
  forall r, In r (eroots (get_ev sy e)) ->
  wst (sw (fst (step true g sy l))) r <> TErr -> wst (sw (fst (step true g sy l))) r = TOk.
Proof. exact success_sound_no_err. Qed.

Theorem C03_success_refuted :
  exists g st0 rootss l r,
    wf g /\ legal_label l /\
    eres (get_ev (init_sys st0 rootss) 0) = None /\
    eres (get_ev (fst (step true g (init_sys st0 rootss) l)) 0) = Some false /\
    In r (eroots (get_ev (init_sys st0 rootss) 0)) /\
    wst (sw (fst (step true g (init_sys st0 rootss) l))) r <> TOk.
Proof. exact success_refuted. Qed.
Print Assumptions C03_success_refuted.

(* ------------------------------------------------------------------ errors are reported; lost tasks are resubmitted *)

Theorem C03_fatal_reported : forall clo eda g w ev t r,
  eres ev = None -> quiet1 w ev -> find_waiter t (ewait ev) = Some r ->
  exists sy' runs,
    lock_step_v clo eda g (S1 w ev) (LSet t TErr) = (sy', runs, true) /\
    eres (get_ev sy' 0) = Some true.
Proof. exact fatal_reported. Qed.

(* one evaluation, either accounting (with the new one the task's loss must be
   uncounted, as it is after every hand-out) *)
Theorem C03_lost_limit : forall clo eda g w ev t,
  eres ev = None -> quiet1 w ev -> find_waiter t (ewait ev) = Some true ->
  (clo = true -> wlu w t = true) ->
  (wcl w t + 1 >= max_consecutive_lost)%Z ->
  exists sy' runs,
    lock_step_v clo eda g (S1 w ev) (LSet t TLost) = (sy', runs, true) /\
    eres (get_ev sy' 0) = Some true /\ wst (sw sy') t = TErr.
Proof. exact lost_limit. Qed.
Print Assumptions C03_lost_limit.

Theorem C03_lost_resubmitted : forall clo eda g, wf g -> forall w ev t,
  eres ev = None -> soof (est ev) = false -> stodo (est ev) = [] ->
  quiet1 w ev -> find_waiter t (ewait ev) = Some true ->
  (wcl w t + 1 < max_consecutive_lost)%Z ->
  deps_done eda g (wst w) t ->
  In (0, t) (snd (fst (lock_step_v clo eda g (S1 w ev) (LSet t TLost)))).
Proof. exact lost_resubmitted. Qed.
Print Assumptions C03_lost_resubmitted.

(* ---- any number of evaluations, any order of their steps (the code since 0540c52) ---- *)

(* in every reachable state, for every step of whichever evaluation and every task:
   consecutiveLost moves by one count per hand-out, and the count that reaches the
   limit puts the task in ERR *)
Theorem C03_loss_counted_once : forall g, wf g -> forall st0 rootss sy l t,
  reachable_v true false g (init_sys st0 rootss) sy -> legal_label l ->
  let sy' := fst (step_v true false g sy l) in
  let runs := snd (step_v true false g sy l) in
  (wcl (sw sy') t = wcl (sw sy) t \/ wcl (sw sy') t = 0%Z \/
   (wcl (sw sy') t = (wcl (sw sy) t + 1)%Z /\ wlu (sw sy) t = true /\
    (wlu (sw sy') t = false \/ exists e, In (e, t) runs))) /\
  (wlu (sw sy') t = true -> wlu (sw sy) t = true \/ exists e, In (e, t) runs) /\
  (forall e, In (e, t) runs ->
     wlu (sw sy') t = true /\
     (wlu (sw sy) t = true -> wst (sw sy) t = TLost -> wcl (sw sy') t = (wcl (sw sy) t + 1)%Z)) /\
  ((wcl (sw sy) t < max_consecutive_lost)%Z -> (wcl (sw sy') t >= max_consecutive_lost)%Z ->
     wst (sw sy') t = TErr /\ forall e, ~ In (e, t) runs).
Proof. exact loss_counted_once. Qed.
Print Assumptions C03_loss_counted_once.

(* the loss that reaches the limit: the task ends in ERR, counted once, is not handed
   out again, and EVERY evaluation that was awaiting it has returned an error at the next
   quiescent point, whatever the order of the evaluations' steps (second disjunct: all
   of them had already failed for another task before any looked at this one) *)
Theorem C03_lost_limit_all_evaluators : forall g, wf g -> forall st0 rootss sy0 t ls,
  reachable_v true false g (init_sys st0 rootss) sy0 ->
  handed (wst (sw sy0) t) -> wlu (sw sy0) t = true ->
  deps_done false g (wst (sw sy0)) t ->
  (wcl (sw sy0) t + 1 >= max_consecutive_lost)%Z ->
  Forall ev_label ls ->
  let r := exec_v true false g sy0 (LSet t TLost :: ls) in
  quiescent (fst r) ->
  (forall e, awaiting sy0 t e -> eres (get_ev (fst r) e) = Some true) /\
  cnt t (runs_of (snd r)) = 0 /\
  (tv (sw (fst r)) t = (TErr, (wcl (sw sy0) t + 1)%Z, false) \/
   tv (sw (fst r)) t = (TLost, wcl (sw sy0) t, true)).
Proof. exact lost_limit_all_evaluators. Qed.
Print Assumptions C03_lost_limit_all_evaluators.

(* fewer losses: counted exactly once and handed out again exactly once, by whichever
   evaluation gets there first (second disjunct: every awaiting evaluation had failed) *)
Theorem C03_lost_resubmitted_all_evaluators : forall g, wf g -> forall st0 rootss sy0 t ls,
  reachable_v true false g (init_sys st0 rootss) sy0 ->
  handed (wst (sw sy0) t) -> wlu (sw sy0) t = true ->
  deps_done false g (wst (sw sy0)) t ->
  (wcl (sw sy0) t + 1 < max_consecutive_lost)%Z ->
  Forall ev_label ls ->
  let r := exec_v true false g sy0 (LSet t TLost :: ls) in
  quiescent (fst r) ->
  (cnt t (runs_of (snd r)) = 1 /\ handed (wst (sw (fst r)) t) /\
   wcl (sw (fst r)) t = (wcl (sw sy0) t + 1)%Z /\ wlu (sw (fst r)) t = true) \/
  (cnt t (runs_of (snd r)) = 0 /\ wst (sw (fst r)) t = TLost /\
   (wcl (sw (fst r)) t = wcl (sw sy0) t \/ wcl (sw (fst r)) t = (wcl (sw sy0) t + 1)%Z) /\
   forall e, awaiting sy0 t e -> eres (get_ev (fst r) e) = Some true).
Proof. exact lost_resubmitted_all_evaluators. Qed.
Print Assumptions C03_lost_resubmitted_all_evaluators.

(* the former accounting (before 0540c52; clo = false): with two evaluations the limit
   could be bypassed - kept as a witness for the old switch value only *)
Theorem C03_lost_limit_two_evaluators_refuted :
  exists g st0 rootss ls,
    wf g /\ Forall legal_label ls /\
    length (filter (fun l => match l with LSet 0 TLost => true | _ => false end) ls) = Z.to_nat max_consecutive_lost /\
    let r := exec_v false false g (init_sys st0 rootss) ls in
    forallb (fun x => match fst (fst x) with
                      | LSet 0 TLost => st_eqb (wst (snd (fst x)) 0) TWaiting
                      | _ => true end) (snd r) = true /\
    map snd (runs_of (snd r)) = [0; 0; 0; 0; 0; 0] /\
    eres (get_ev (fst r) 0) = None /\ eres (get_ev (fst r) 1) = None /\
    wst (sw (fst r)) 0 = TWaiting /\ (wcl (sw (fst r)) 0 < max_consecutive_lost)%Z.
Proof. exact lost_limit_two_evaluators_refuted. Qed.

(* ... and the same schedule under the present accounting ends in ERR with both
   evaluations failed, at the fifth loss *)
Theorem C03_race_schedule_now_reports :
  let r := exec_v true false [mkT [] []] (init_sys (fun _ => TInit) [[0]; [0]])
                  (race_schedule ++ [LMain 0; LWait 1 0; LMain 1]) in
  eres (get_ev (fst r) 0) = Some true /\ eres (get_ev (fst r) 1) = Some true /\
  wst (sw (fst r)) 0 = TErr /\ wcl (sw (fst r)) 0 = max_consecutive_lost.
Proof. exact race_schedule_now_reports. Qed.

(* ------------------------------------------------------------------ never idle with work outstanding *)

Theorem C03_progress : forall eda g st0 rootss sy,
  wf g -> reachable eda g (init_sys st0 rootss) sy -> quiescent sy ->
  forall e, e < length (sevs sy) -> estarted (get_ev sy e) = true -> eres (get_ev sy e) = None ->
    stodo (est (get_ev sy e)) = [] /\ spending (est (get_ev sy e)) <> [] /\
    serr (est (get_ev sy e)) = false /\
    forall t, In t (spending (est (get_ev sy e))) -> handed (wst (sw sy) t).
Proof. exact progress. Qed.
Print Assumptions C03_progress.

(* ------------------------------------------------------------------ released work starts at once *)

(* Return of a LOST task re-enqueues it from a cleared memo: the task, and every
   traversable member of its phase whose dependencies are done and which is not
   pending, is on the todo list when Return returns (so the next Runnable hands it
   out).  This is the model-side counterpart of the judge's check no. 9 (Corr.v). *)
Theorem C03_lost_task_rescheduled_at_once : forall eda g w s t u,
  wf g -> soof s = false -> stodo s = [] ->
  ret_class (w t) = RLost ->
  In u (phase g t) -> enq_class eda (w u) = CTrav -> deps_done eda g w u ->
  (u = t \/ ~ In u (spending s)) ->
  In u (stodo (ret eda g w s t)).
Proof. exact lost_task_rescheduled_at_once. Qed.
Print Assumptions C03_lost_task_rescheduled_at_once.

(* the premises are met by the states the code passes through: a LOST task is in
   Return's RLost class and Enqueue's traversable class for the current source *)
Example C03_lost_is_traversable :
  ret_class TLost = RLost /\ enq_class false TLost = CTrav /\ enq_class false TInit = CTrav.
Proof. vm_compute. repeat split. Qed.

(* Return of an OK task ("case TaskOk": state.done, then Enqueue of every task whose
   count of outstanding dependencies reached zero — [ret_ready]): every released task
   that is traversable, has all its dependencies done and is not pending is on the todo
   list when Return returns.  Proof: the memo-coverage invariant [cov] of
   C03/Released.v, preserved by every Enqueue. *)
Theorem C03_released_by_ok_at_once : forall eda g w s t u,
  wf g -> soof s = false -> stodo s = [] ->
  ret_class (w t) = ROk ->
  In u (ret_ready g s t) -> enq_class eda (w u) = CTrav -> deps_done eda g w u ->
  ~ In u (spending s) ->
  In u (stodo (ret eda g w s t)).
Proof. exact released_by_ok_at_once. Qed.
Print Assumptions C03_released_by_ok_at_once.

(* non-vacuity: task 1 depends on task 0; after Enqueue(1) and Runnable, the
   completion of 0 releases 1 and Return puts it on todo *)
Example C03_release_happens :
  let g := [mkT [] []; mkT [0] []] in
  let w0 := fun _ : nat => TInit in
  let s2 := snd (runnable (enqueue_all false g w0 new_state [1])) in
  let w1 := upd w0 0 TOk in
  spending s2 = [0] /\ stodo s2 = [] /\ soof s2 = false /\ ret_class (w1 0) = ROk /\
  ret_ready g s2 0 = [1] /\ enq_class false (w1 1) = CTrav /\
  stodo (ret false g w1 s2 0) = [1].
Proof. vm_compute. repeat split. Qed.

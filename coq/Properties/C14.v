(* C14 — Cluster manager never oversubscribes machines nor leaks capacity or requests.
   Only restated theorems, each closed by [exact], with Print Assumptions. *)
From Coq Require Import List ZArith Bool Arith Permutation String.
Import ListNotations.
Require Import BS.C14.Model BS.C14.Sched BS.C14.Proofs BS.Gen.C14_params.
Local Open Scope Z_scope.

(* ------------------------------------------------------------------ *)
(* tie to the source (regenerated from /repo by tools/goparams)        *)
(* ------------------------------------------------------------------ *)

Theorem C14_gen_max_start_machines : max_start_machines = maxStartMachines.
Proof. reflexivity. Qed.
Theorem C14_gen_max_start_machines_is_10 : max_start_machines = 10.
Proof. reflexivity. Qed.
(* machineOk < machineProbation < machineLost, zero value = ok (a fresh sliceMachine is healthy) *)
Theorem C14_gen_health_order : health_all = [0; 1; 2] /\ health_machineOk = 0.
Proof. split; reflexivity. Qed.
(* DefaultMaxLoad = 0.95 as an exact rational; a 4-proc machine then offers 3 task procs *)
Theorem C14_gen_default_max_load :
  default_max_load_num = 19 /\ default_max_load_den = 20 /\
  mgr_machprocs 4 default_max_load_num default_max_load_den = 3.
Proof. repeat split; reflexivity. Qed.
(* ProbationTimeout = 30 s (the model treats its expiry as an event) *)
Theorem C14_gen_probation_timeout : probation_timeout_ns = 30 * 1000000000.
Proof. reflexivity. Qed.
(* the returns of Run after Offer, in source order: cancel; then Done on each of the four
   others, the failed combiner commit included (a 0 there is the old leak: reverting the fix
   breaks this lemma); and one Done on the path that runs the task *)
Theorem C14_gen_run_exits : run_exit_codes = [2; 1; 1; 1; 1] /\ run_tail_done_calls = 1.
Proof. split; reflexivity. Qed.
(* ... which is what the path model says, exit by exit *)
Theorem C14_gen_run_exits_model :
  map (fun x => match run_calls x with [CCancel] => 2 | [CDone _] => 1 | _ => 0 end)
      [XCtxBeforeGrant; XCompileFatal true; XCompileLost; XNoLocation; XCommitFail true] = run_exit_codes
  /\ Z.of_nat (done_count (XRan DOk)) = run_tail_done_calls.
Proof. split; reflexivity. Qed.

(* schedule(): the fit test `procs <= freeProcs`, the early exit on `freeProcs == 0`, shelving of the head request AND the head machine *)
Theorem C14_gen_schedule_kernel : schedule_kernel = [
  "var shelvedRequests []*scheduleRequest"%string;
  "var shelvedMachines []*sliceMachine"%string;
  "for len(*schedQ) > 0 && len(*machQ) > 0"%string;
  "freeProcs := (*machQ)[0].maxTaskProcs - (*machQ)[0].taskProcs"%string;
  "if freeProcs == 0"%string;
  "return nil, nil"%string;
  "if (*schedQ)[0].procs <= freeProcs"%string;
  "return (*schedQ)[0], (*machQ)[0]"%string;
  "shelvedRequests = append(shelvedRequests, heap.Pop(schedQ).(*scheduleRequest))"%string;
  "shelvedMachines = append(shelvedMachines, heap.Pop(machQ).(*sliceMachine))"%string;
  "return nil, nil"%string].
Proof. reflexivity. Qed.

(* scheduleRequestQ.Less: priority ascending, then procs descending *)
Theorem C14_gen_req_less_kernel : req_less_kernel = [
  "if q[i].priority != q[j].priority"%string;
  "return q[i].priority < q[j].priority"%string;
  "return q[i].procs > q[j].procs"%string].
Proof. reflexivity. Qed.

(* machineQ.Less: most free procs first *)
Theorem C14_gen_mach_less_kernel : mach_less_kernel = [
  "return q[j].maxTaskProcs-q[j].taskProcs < q[i].maxTaskProcs-q[i].taskProcs"%string].
Proof. reflexivity. Qed.

(* newMachineManager: machprocs = int(maxprocs*maxLoad), at least 1, maxp counted in machines in that case *)
Theorem C14_gen_new_manager_kernel : new_manager_kernel = [
  "maxprocs := b.System().Maxprocs()"%string;
  "machprocs := int(float64(maxprocs) * maxLoad)"%string;
  "if machprocs < 1"%string;
  "machprocs = 1"%string;
  "maxp = (maxp + maxprocs - 1) / maxprocs"%string;
  "return &machineManager{ b: b, params: params, group: group, maxp: maxp, machprocs: machprocs, worker: worker, schedc: make(chan *scheduleRequest), unschedc: make(chan *scheduleRequest), }"%string].
Proof. reflexivity. Qed.

(* machineManager.Do: need/pending/taskProcs arithmetic, the health switch of the Done case with its heap moves, the start rule *)
Theorem C14_gen_do_kernel : do_kernel = [
  "var need, pending int"%string;
  "var machQ machineQ"%string;
  "var probation machineFailureQ"%string;
  "req, mach = schedule(&m.schedQ, &machQ)"%string;
  "if len(probation) == 0"%string;
  "probationTimer.Set(probation[0].lastFailure.Add(ProbationTimeout))"%string;
  "mach.taskProcs += req.procs"%string;
  "heap.Fix(&machQ, mach.index)"%string;
  "mach := probation[0]"%string;
  "mach.health = machineOk"%string;
  "heap.Remove(&probation, 0)"%string;
  "heap.Push(&machQ, mach)"%string;
  "need -= done.procs"%string;
  "mach.taskProcs -= done.procs"%string;
  "case done.Err != nil && !errors.Is(errors.Remote, done.Err) && mach.health == machineOk"%string;
  "mach.health = machineProbation"%string;
  "heap.Remove(&machQ, mach.index)"%string;
  "heap.Push(&probation, mach)"%string;
  "case done.Err == nil && mach.health == machineProbation"%string;
  "mach.health = machineOk"%string;
  "heap.Remove(&probation, mach.index)"%string;
  "heap.Push(&machQ, mach)"%string;
  "case mach.health == machineLost"%string;
  "case mach.health == machineProbation"%string;
  "heap.Fix(&probation, mach.index)"%string;
  "case mach.health == machineOk"%string;
  "heap.Fix(&machQ, mach.index)"%string;
  "need += s.procs"%string;
  "need -= s.procs"%string;
  "pending -= m.machprocs * (len(result.machines) + result.nFailures)"%string;
  "heap.Push(&machQ, mach)"%string;
  "switch mach.health"%string;
  "heap.Remove(&machQ, mach.index)"%string;
  "heap.Remove(&probation, mach.index)"%string;
  "mach.health = machineLost"%string;
  "machPending := pending / m.machprocs"%string;
  "if len(probation) > 0"%string;
  "if have := (len(machQ) + len(probation)) * m.machprocs; have+pending < need && have+pending < m.maxp"%string;
  "var needProcs = min(need, m.maxp) - have - pending"%string;
  "var needMachines = min((needProcs+m.machprocs-1)/m.machprocs, maxStartMachines)"%string;
  "pending += needMachines * m.machprocs"%string].
Proof. reflexivity. Qed.

(* Run: procs clamp for Exclusive / Procs pragmas, and every m.Done call (five: two compile
   exits, no location, failed combiner commit, after Worker.Run) *)
Theorem C14_gen_run_procs_kernel : run_procs_kernel = [
  "procs := task.Pragma.Procs()"%string;
  "if task.Pragma.Exclusive() || procs > mgr.machprocs"%string;
  "procs = mgr.machprocs"%string;
  "var offerc, cancel = mgr.Offer(int(invIndex), procs)"%string;
  "m.Done(procs, err)"%string;
  "m.Done(procs, err)"%string;
  "m.Done(procs, nil)"%string;
  "m.Done(procs, err)"%string;
  "m.Done(procs, err)"%string].
Proof. reflexivity. Qed.

(* localExecutor.Run: 1 token, or all p for an exclusive task, released on return *)
Theorem C14_gen_local_kernel : local_kernel = [
  "n := 1"%string;
  "if task.Pragma.Exclusive()"%string;
  "n = l.sess.p"%string;
  "if err := l.limiter.Acquire(ctx, n); err != nil"%string;
  "defer l.limiter.Release(n)"%string].
Proof. reflexivity. Qed.

(* Pragmas.Procs: maximum over the composed pragmas, at least 1 *)
Theorem C14_gen_pragmas_procs_kernel : pragmas_procs_kernel = [
  "need := 1"%string;
  "n := q.Procs()"%string;
  "if n > need"%string;
  "need = n"%string;
  "return need"%string].
Proof. reflexivity. Qed.

(* ------------------------------------------------------------------ *)
(* schedule()                                                          *)
(* ------------------------------------------------------------------ *)

Theorem C14_schedule_fits : forall rq mq r m,
  sched_choice rq mq = Some (r, m) ->
  In r rq /\ In m mq /\ rprocs r <= free m /\ free m <> 0.
Proof. exact schedule_fits. Qed.
Print Assumptions C14_schedule_fits.

Theorem C14_schedule_restores_queues : forall rq mq,
  Permutation (sched_reqs_after rq mq) rq /\ Permutation (sched_machs_after rq mq) mq.
Proof. exact schedule_restores_queues. Qed.
Print Assumptions C14_schedule_restores_queues.

(* the pop orders of the two heaps *)
Theorem C14_request_order : forall rq,
  Sorted.StronglySorted
    (fun a b => rprio a < rprio b \/ (rprio a = rprio b /\ rprocs b <= rprocs a)) (sort_reqs rq)
  /\ Permutation (sort_reqs rq) rq.
Proof. intro rq. split; [exact (sort_reqs_sorted rq) | exact (sort_reqs_perm rq)]. Qed.
Theorem C14_machine_order : forall mq,
  Sorted.StronglySorted (fun a b => free b <= free a) (sort_machs mq) /\ Permutation (sort_machs mq) mq.
Proof. intro mq. split; [exact (sort_machs_sorted mq) | exact (sort_machs_perm mq)]. Qed.
Print Assumptions C14_request_order.

(* "granted in priority order" for first-fit-decreasing with reservation *)
Theorem C14_schedule_priority : forall rq mq r m,
  sched_choice rq mq = Some (r, m) ->
  exists i, nth_error (sort_reqs rq) i = Some r /\ nth_error (sort_machs mq) i = Some m /\
    forall j rj k mk, (j < i)%nat -> (j <= k)%nat ->
      nth_error (sort_reqs rq) j = Some rj -> nth_error (sort_machs mq) k = Some mk ->
      free mk < rprocs rj.
Proof. exact schedule_priority. Qed.
Print Assumptions C14_schedule_priority.

Theorem C14_schedule_none_complete : forall rq mq,
  (forall m, In m mq -> 0 <= free m) -> (forall r, In r rq -> 0 < rprocs r) ->
  sched_choice rq mq = None ->
  forall j rj k mk, (j <= k)%nat ->
    nth_error (sort_reqs rq) j = Some rj -> nth_error (sort_machs mq) k = Some mk ->
    free mk < rprocs rj.
Proof. exact schedule_none_complete. Qed.
Print Assumptions C14_schedule_none_complete.

Theorem C14_schedule_head_granted : forall rq mq r0 rest m,
  (forall r, In r rq -> 0 < rprocs r) ->
  sort_reqs rq = r0 :: rest -> In m mq -> rprocs r0 <= free m ->
  exists m0 rest', sort_machs mq = m0 :: rest' /\ sched_choice rq mq = Some (r0, m0).
Proof. exact schedule_head_granted. Qed.
Print Assumptions C14_schedule_head_granted.

(* schedule() computes the documented pairing (the checker's reference) *)
Theorem C14_schedule_spec_equiv : forall rq mq,
  (forall m, In m mq -> 0 <= free m) -> (forall r, In r rq -> 0 < rprocs r) ->
  sched_choice rq mq = spec_choice rq mq.
Proof. exact schedule_spec_equiv. Qed.
Print Assumptions C14_schedule_spec_equiv.

(* ------------------------------------------------------------------ *)
(* the manager, over all event histories                               *)
(* ------------------------------------------------------------------ *)

Theorem C14_capacity_inv : forall mp mx es s,
  1 <= mp -> run (init_mgr mp mx) es = Some s ->
  forall m, In m (machs s) -> 0 <= mload m <= mmax m /\ mmax m = mp.
Proof. exact capacity_inv. Qed.
Print Assumptions C14_capacity_inv.

Theorem C14_conservation : forall mp mx es s,
  1 <= mp -> run (init_mgr mp mx) es = Some s ->
  (forall m, In m (machs s) -> mload m = out_sum (mid m) (outs s)) /\
  need s = req_sum (schedQ s) + grant_sum (outs s).
Proof. exact conservation. Qed.
Print Assumptions C14_conservation.

Theorem C14_invariant_all_histories : forall mp mx es s,
  1 <= mp -> run (init_mgr mp mx) es = Some s -> Inv s.
Proof. intros mp mx es s H R. exact (inv_run es _ _ (inv_init mp mx H) R). Qed.
Print Assumptions C14_invariant_all_histories.

Theorem C14_done_returns : forall s r k s',
  Inv s -> handle s (EDone r k) = Some s' ->
  exists g rest, extract_grant r (outs s) = Some (g, rest) /\ outs s' = rest /\
                 need s' = need s - gprocs g /\
                 forall m', In m' (machs s') -> mid m' = gmid g -> mload m' = out_sum (gmid g) rest.
Proof. exact done_returns. Qed.
Theorem C14_outstanding_occupies : forall s g m,
  Inv s -> In g (outs s) -> In m (machs s) -> mid m = gmid g -> gprocs g <= mload m.
Proof. exact outstanding_occupies. Qed.
Print Assumptions C14_done_returns.

Theorem C14_no_work_on_bad_machines : forall s r i s',
  Inv s -> handle s (EGrant r i) = Some s' ->
  In i (machQ s) /\ ~ In i (probQ s) /\ ~ In i (stopped s) /\
  forall m, In m (machs s) -> mid m = i -> mhealth m = HOk.
Proof. exact no_work_on_bad_machines. Qed.
Print Assumptions C14_no_work_on_bad_machines.

Theorem C14_grant_fits : forall s r i s',
  Inv s -> handle s (EGrant r i) = Some s' ->
  exists q rest, extract_req r (schedQ s) = Some (q, rest) /\
    forall m, In m (machs s) -> mid m = i -> rprocs q <= mmax m - mload m.
Proof. exact grant_fits. Qed.

Theorem C14_exclusive_alone : forall s r i s',
  Inv s -> handle s (EGrant r i) = Some s' ->
  forall q rest, extract_req r (schedQ s) = Some (q, rest) -> rprocs q = machprocs s ->
  (forall m, In m (machs s) -> mid m = i -> mload m = 0) /\ out_sum i (outs s) = 0.
Proof. exact exclusive_alone. Qed.
Theorem C14_exclusive_blocks : forall s g r,
  Inv s -> In g (outs s) -> gprocs g = machprocs s -> handle s (EGrant r (gmid g)) = None.
Proof. exact exclusive_blocks. Qed.
Print Assumptions C14_exclusive_blocks.

Theorem C14_start_bound : forall s e s1,
  Inv s -> handle s e = Some s1 -> start_count s1 <> 0 ->
  let s' := start_rule s1 in
  1 <= start_count s1 <= maxStartMachines /\
  have s1 + pending s1 < Z.min (need s1) (maxp s1) /\
  have s' + pending s' <= roundup (Z.min (need s') (maxp s')) (machprocs s').
Proof. exact start_bound. Qed.
Theorem C14_start_none : forall s, Inv s -> start_count s = 0 ->
  Z.min (need s) (maxp s) <= have s + pending s.
Proof. exact start_none. Qed.
Print Assumptions C14_start_bound.

(* ------------------------------------------------------------------ *)
(* Run's use of the manager                                            *)
(* ------------------------------------------------------------------ *)

Theorem C14_run_procs_clamped : forall pragma exclusive mp,
  1 <= mp -> 1 <= pragma ->
  1 <= run_procs pragma exclusive mp <= mp /\
  (exclusive = true -> run_procs pragma exclusive mp = mp) /\
  (exclusive = false -> run_procs pragma exclusive mp = Z.min pragma mp).
Proof. exact run_procs_clamped. Qed.
Theorem C14_run_returns_procs : forall x, run_granted x = true -> done_count x = 1%nat.
Proof. exact run_returns_procs. Qed.
Theorem C14_run_ungranted_cancels : forall x, run_granted x = false -> run_calls x = [CCancel].
Proof. exact run_ungranted_cancels. Qed.
Theorem C14_run_path_restores : forall s r prio procs i x s',
  Inv s -> (forall g, In g (outs s) -> grid g <> r) -> (forall q, In q (schedQ s) -> rid q <> r) ->
  run s (run_events r prio procs i x) = Some s' ->
  need s' = need s /\ outs s' = outs s /\ schedQ s' = schedQ s /\
  forall m', In m' (machs s') -> mload m' = out_sum (mid m') (outs s).
Proof. exact run_path_restores. Qed.
Print Assumptions C14_run_path_restores.

(* regression witnesses about the OLD exit-path model (before the fix in
   exec/bigmachine.go): the exit after a failed combiner commit returned nothing *)
Theorem C14_old_commit_exit_leaks :
  exists x, run_granted x = true /\ old_done_count x = 0%nat /\ done_count x = 1%nat.
Proof. exact old_commit_exit_leaks. Qed.
Theorem C14_old_commit_exit_starves :
  exists s, run (init_mgr 1 1)
                ([EOffer 0 0 1; EStarted 1 1] ++ tl (old_run_events 0 0 1 0 (XCommitFail true)) ++ [EOffer 1 0 1]) = Some s /\
            load_of s 0 = 1 /\ step s (EGrant 1 0) = None /\ start_count s = 0 /\ inflight s = [].
Proof. exact old_commit_exit_starves. Qed.
Theorem C14_commit_exit_frees :
  exists s s', run (init_mgr 1 1)
                ([EOffer 0 0 1; EStarted 1 1] ++ tl (run_events 0 0 1 0 (XCommitFail true)) ++ [EOffer 1 0 1]) = Some s /\
            load_of s 0 = 0 /\ step s (EGrant 1 0) = Some s' /\ load_of s' 0 = 1.
Proof. exact commit_exit_frees. Qed.
Print Assumptions C14_old_commit_exit_leaks.

(* ------------------------------------------------------------------ *)
(* local executor                                                      *)
(* ------------------------------------------------------------------ *)

Theorem C14_local_limit : forall p es s,
  1 <= p -> lrun p (linit p) es = Some s ->
  Z.of_nat (List.length (lheld s)) <= p /\
  forall t, In (t, p) (lheld s) -> lheld s = [(t, p)].
Proof. exact local_limit. Qed.
Theorem C14_local_exclusive_takes_all : forall p s t s',
  lstep p s (LAcquire t true) = Some s' -> In (t, p) (lheld s').
Proof. exact local_exclusive_takes_all. Qed.
Print Assumptions C14_local_limit.

(* non-vacuity: a history in which every kind of event happens *)
Example C14_history_nonvacuous :
  exists s, run (init_mgr 2 4)
    [EOffer 0 0 2; EOffer 1 1 1; EStarted 1 1; EGrant 0 0; EStarted 1 1; EGrant 1 1; EDone 1 DTransport;
     EOffer 2 0 1; EProbationTimeout; EGrant 2 1; EStopped 0; EDone 0 DOk; ECancel 2; EDone 2 DRemote] = Some s
  /\ need s = 0 /\ outs s = [] /\ List.length (machs s) = 2%nat.
Proof. eexists. split; [vm_compute; reflexivity | vm_compute; auto]. Qed.

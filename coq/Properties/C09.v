(* C09 — Combining buffers hold one correctly folded value per key at any size.
   Only restated theorems, each closed by [exact], with Print Assumptions.
   Every theorem is universally quantified over the hash function h (hence over
   every collision pattern) and, where it appears, over the combine function. *)
From Coq Require Import List ZArith NArith Bool Permutation.
Import ListNotations.
Require Import BS.C09.Model BS.C09.Spec BS.C09.Arith BS.C09.Lists BS.C09.Table BS.C09.Frame
               BS.C09.Merge BS.C09.Proofs BS.C09.Examples BS.Gen.C09_params.
Local Open Scope Z_scope.

(* ================= tie to the source (regenerated from /repo's Go AST on every run) ================= *)

(* combiningFrameLoadFactor = 0.7; the float64 the code multiplies with is the model's *)
Theorem C09_gen_load_factor :
  (load_factor_num, load_factor_den) = (7, 10) /\
  (load_factor_f64_mant, load_factor_f64_shift) = (lf_mant, lf_shift).
Proof. split; reflexivity. Qed.
Theorem C09_gen_hash_max_capacity : gen_hash_max_capacity = hash_max_capacity.
Proof. reflexivity. Qed.
(* the seed the driver logs the real hashes with *)
Theorem C09_gen_hash_seed : hash_seed = 2596996162.
Proof. reflexivity. Qed.
(* inline literals: `try := 1`, `hits[idx] == 0`; `c.len += 1`, `n := c.cap * 2`; Compact's zeros; make's mask *)
Theorem C09_gen_literals :
  combine_literals = [0; 1; 0; 0; 1; 0] /\ added_literals = [1; 2; 0; 1; 0; 1; 1] /\
  compact_literals = [0; 0; 0; 0; 0] /\ make_literals = [1; 0; 1].
Proof. repeat split; reflexivity. Qed.
(* the default initial capacity of a combiner's table (defaultsize.Chunk = 128) is a power of two *)
Theorem C09_gen_default_capacity : nth 0 defaultsize_literals 0 = 2 ^ 7.
Proof. reflexivity. Qed.

(* int(0.7*float64(cap)) = floor(7*cap/10) for every capacity the code can have, and is < cap *)
Theorem C09_threshold_is_7_10 : forall k, (k <= 29)%nat ->
  (lf_mant * 2 ^ Z.of_nat k) / 2 ^ lf_shift = 7 * 2 ^ Z.of_nat k / 10.
Proof. exact threshold_is_7_10. Qed.
Theorem C09_threshold_lt_cap : forall n, (0 < n)%nat -> threshold_of n < Z.of_nat n.
Proof. exact threshold_lt. Qed.

(* ================= probing ================= *)

(* the first 2^k probes idx, idx+1, idx+3, idx+6, ... (mod 2^k) from any start are pairwise distinct *)
Theorem C09_probe_complete : forall k idx i j : nat,
  (idx < 2 ^ k)%nat -> (i < j)%nat -> (j < 2 ^ k)%nat ->
  pos (N.of_nat (2 ^ k) - 1) idx 1 i <> pos (N.of_nat (2 ^ k) - 1) idx 1 j.
Proof. exact probe_complete. Qed.
Theorem C09_probe_surjective : forall k idx : nat, (idx < 2 ^ k)%nat ->
  forall s, (s < 2 ^ k)%nat -> In s (map (pos (N.of_nat (2 ^ k) - 1) idx 1) (seq 0 (2 ^ k))).
Proof. exact probe_surjective. Qed.
Print Assumptions C09_probe_complete.

(* insert_total: in a well-formed table the probe loop ends within cap tries *)
Theorem C09_insert_total : forall (h : list Z -> N) (comb : Z -> Z -> Z) t r,
  wf h t -> insert_row h comb t r <> OutOfFuel.
Proof. exact insert_total. Qed.
Print Assumptions C09_insert_total.

(* ================= the table is a finite map ================= *)

Theorem C09_table_abstraction : forall (h : list Z -> N) t, wf h t ->
  NoDup (map fst (abs t)) /\ clen t = Z.of_nat (length (abs t)) /\
  (forall r, In r (abs t) <->
     exists i n, nth_error (cslots t) i = Some r /\ nth_error (chits t) i = Some n /\ n <> 0) /\
  (forall k v, lookup k (abs t) = Some v <-> In (k, v) (abs t)).
Proof. exact table_abstraction. Qed.

Theorem C09_new_frame_wf : forall (h : list Z -> N) nk k ns, exists t,
  make_combining_frame nk (2 ^ k) ns = Ok t /\ wf h t /\ abs t = [] /\ cscratch t = ns /\ cnk t = nk
  /\ ccap t = (2 ^ k)%nat.
Proof. exact make_wf. Qed.

Theorem C09_insert_preserves_wf : forall (h : list Z -> N) (comb : Z -> Z -> Z) t r t',
  wf h t -> insert_row h comb t r = Ok t' -> wf h t'.
Proof. exact insert_preserves_wf. Qed.
Print Assumptions C09_table_abstraction.

(* combine_spec: for every comb (no algebraic law needed), Combine is the fold of
   insert-or-combine over the rows, in order *)
Theorem C09_combine_spec : forall (h : list Z -> N) (comb : Z -> Z -> Z) t rows t',
  wf h t -> (0 < cscratch t)%nat -> Combine h comb t rows = Ok t' ->
  wf h t' /\ cscratch t' = cscratch t /\ cnk t' = cnk t /\
  (forall k, lookup k (abs t') = gather_from comb (lookup k (abs t)) rows k) /\
  Permutation (abs t') (fold_left (upsert comb) rows (abs t)).
Proof. exact combine_spec. Qed.
Theorem C09_Combine_never_out_of_fuel : forall (h : list Z -> N) (comb : Z -> Z -> Z) t rows,
  wf h t -> (0 < cscratch t)%nat -> Combine h comb t rows <> OutOfFuel.
Proof. exact Combine_never_out_of_fuel. Qed.
(* ... and it succeeds (no "hash table too large") while at most max_keys keys are held *)
Theorem C09_combine_total : forall (h : list Z -> N) (comb : Z -> Z -> Z) rows t,
  wf h t -> Z.of_nat (ccap t) <= hash_max_capacity -> clen t + Z.of_nat (length rows) <= max_keys ->
  exists t', combine_rows h comb t rows = Ok t' /\ Z.of_nat (ccap t') <= hash_max_capacity
             /\ clen t' <= clen t + Z.of_nat (length rows).
Proof. exact combine_rows_total. Qed.
Print Assumptions C09_combine_spec.

(* value prescribed for a key = left fold of the values fed for it *)
Theorem C09_gather_is_fold : forall (comb : Z -> Z -> Z) rows k,
  gather comb rows k = fold1 comb (vals_of k rows).
Proof. exact gather_vals. Qed.

(* growth_preserves: added() with doubling + rehash keeps exactly the rows *)
Theorem C09_growth_preserves : forall (h : list Z -> N) t1 k t',
  wf_tab h t1 k -> clen t1 + 1 = Z.of_nat (count (chits t1)) -> clen t1 < Z.of_nat (ccap t1) ->
  added h t1 = Ok t' -> wf h t' /\ Permutation (abs t') (abs t1).
Proof. exact growth_preserves. Qed.
Print Assumptions C09_growth_preserves.

(* compact_spec: Compact returns each key of the table exactly once with its value
   and leaves an empty table of the same capacity *)
Theorem C09_compact_spec : forall (h : list Z -> N) t, wf h t ->
  let '(rows, j, t') := compact t in
  rows = abs t /\ NoDup (map fst rows) /\ j = length rows /\
  wf h t' /\ abs t' = [] /\ clen t' = 0 /\ ccap t' = ccap t /\ cscratch t' = cscratch t /\ cnk t' = cnk t /\
  chits t' = repeat 0 (ccap t) /\ length (cslots t') = ccap t /\ cthreshold t' = cthreshold t /\ cmask t' = cmask t.
Proof. exact compact_spec. Qed.
Print Assumptions C09_compact_spec.

(* ================= merge of sorted runs ================= *)
Theorem C09_reduce_merge_spec : forall (comb : Z -> Z -> Z) runs, Forall asc runs ->
  exists out, reduce_merge comb runs = Ok out /\ asc out /\
    forall k, lookup k out = olist comb (map (lookup k) runs).
Proof. exact reduce_merge_spec. Qed.
Print Assumptions C09_reduce_merge_spec.

(* ================= the checker used on the implementation's output ================= *)
Theorem C09_spec_ok_iff : forall (comb : Z -> Z -> Z) input out,
  spec_ok comb input out = true <-> asc out /\ forall k, lookup k out = gather comb input k.
Proof. exact spec_ok_iff. Qed.
Theorem C09_spec_ok_one_row_per_key : forall (comb : Z -> Z -> Z) input out,
  spec_ok comb input out = true ->
  NoDup (map fst out) /\ forall k, In k (map fst out) <-> In k (map fst input).
Proof. exact spec_ok_keys. Qed.

(* ================= the combiner, with any number of spills ================= *)
Theorem C09_combiner_spec : forall (h : list Z -> N) (comb : Z -> Z -> Z),
  (forall a b c, comb a (comb b c) = comb (comb a b) c) ->
  (forall a b, comb a b = comb b a) ->
  forall (nk k ns : nat) (target : Z) (batches : list (list (list Z * Z))),
  (0 < ns)%nat ->
  match bind (new_combiner nk (2 ^ k) ns target) (fun c => c_feed h comb c batches) with
  | Ok c =>
      forall runs', Permutation runs' (cruns c) ->
      exists out c', c_reader_with comb c runs' = Ok (out, c') /\
        asc out /\
        (forall key, lookup key out = fold1 comb (vals_of key (concat batches))) /\
        spec_ok comb (concat batches) out = true /\
        cruns c' = []
  | Panic => True
  | OutOfFuel => False
  end.
Proof. exact combiner_spec. Qed.
Print Assumptions C09_combiner_spec.

Theorem C09_combiner_total : forall (h : list Z -> N) (comb : Z -> Z -> Z),
  (forall a b c, comb a (comb b c) = comb (comb a b) c) ->
  forall (nk k ns : nat) (target : Z) (batches : list (list (list Z * Z))),
  (0 < ns)%nat -> Z.of_nat (2 ^ k) <= hash_max_capacity ->
  Z.of_nat (length (concat batches)) <= max_keys ->
  exists c, bind (new_combiner nk (2 ^ k) ns target) (fun c => c_feed h comb c batches) = Ok c.
Proof. exact combiner_total. Qed.
Theorem C09_max_keys : max_keys = 375809638.
Proof. reflexivity. Qed.
Print Assumptions C09_combiner_total.

(* ================= non-vacuity ================= *)
Theorem C09_ex_wf : exists t, make_combining_frame 1 8 4 = Ok t /\ wf hx t /\ (0 < cscratch t)%nat.
Proof. exact ex_wf. Qed.
Theorem C09_ex_growth :
  match bind (make_combining_frame 1 8 4) (fun t => Combine hx Z.add t ex_rows) with
  | Ok t' => ccap t' = 16%nat /\ clen t' = 7 /\ cthreshold t' = 11 /\
             sort_rows (abs t') = [k1 1 11; k1 2 22; k1 3 30; k1 4 40; k1 5 50; k1 6 60; k1 7 70]
  | _ => False
  end.
Proof. exact ex_growth. Qed.
Theorem C09_ex_spills :
  match bind (new_combiner 1 8 2 1) (fun c => c_feed hx Z.add c ex_batches) with
  | Ok c => length (cruns c) = 2%nat /\
            match c_reader Z.add c with
            | Ok (out, c') => out = [k1 0 4; k1 1 7; k1 3 16; k1 5 102; k1 9 3] /\ cruns c' = []
            | _ => False
            end
  | _ => False
  end.
Proof. exact ex_spills. Qed.
Theorem C09_ex_full_table_loops : insert_row hx Z.add full_table (k1 100 1) = OutOfFuel.
Proof. exact ex_full_table_loops. Qed.
Theorem C09_ex_add_assoc_comm :
  (forall a b c, Z.add a (Z.add b c) = Z.add (Z.add a b) c) /\ (forall a b, Z.add a b = Z.add b a).
Proof. exact ex_add_assoc_comm. Qed.
Print Assumptions C09_ex_spills.

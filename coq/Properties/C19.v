(* C19 — Concurrent runs in a session are race-free and each gets its correct result.
   The logic of sharing is the evaluator's: the theorems below are the
   multi-evaluation theorems of the C03 model (any number of evaluations, all
   interleavings of their atomic steps with executor events), restated for the
   concurrent-runs reading; the rows each run must return are those of the
   reference semantics (a function of the run's program alone, C01/C12). *)
From Coq Require Import List ZArith Bool.
Import ListNotations.
Require Import BS.Gen.C03_params BS.C03.Model BS.C03.Proofs BS.C03.Safety BS.C03.Theorems
               BS.C03.Needed BS.C03.Progress BS.C01.Sem BS.C12.Proofs.

(* shared tasks are executed by one of the runs and awaited by the others: between
   two hand-outs of the same task, by whichever evaluations, an executor event
   took it out of WAITING/RUNNING *)
Theorem C19_single_runner : forall eda g, wf g -> forall st0 rootss ls2 sy l2 t e2,
  reachable eda g (init_sys st0 rootss) sy -> Forall legal_label ls2 -> legal_label l2 ->
  handed (wst (sw sy) t) ->
  In (e2, t) (snd (step eda g (fst (exec eda g sy ls2)) l2)) ->
  exists s, In (LSet t s) ls2 /\ ~ handed s.
Proof. intros eda g Hwf st0 rootss. exact (single_runner eda g Hwf st0 rootss). Qed.
Print Assumptions C19_single_runner.

(* no run reports success before all ITS roots are OK, whatever the other runs do *)
Theorem C19_each_run_success_sound : forall g st0 rootss sy l,
  wf g -> reachable false g (init_sys st0 rootss) sy -> legal_label l ->
  forall e, eres (get_ev sy e) = None -> eres (get_ev (fst (step false g sy l)) e) = Some false ->
  forall r, In r (eroots (get_ev sy e)) -> wst (sw (fst (step false g sy l))) r = TOk.
Proof. exact success_sound. Qed.
Print Assumptions C19_each_run_success_sound.

(* no deadlock in the model: a run that has not returned is, at every quiescent
   point, waiting for tasks that some executor or some other run owns *)
Theorem C19_no_deadlock_model : forall eda g st0 rootss sy,
  wf g -> reachable eda g (init_sys st0 rootss) sy -> quiescent sy ->
  forall e, e < length (sevs sy) -> estarted (get_ev sy e) = true -> eres (get_ev sy e) = None ->
    stodo (est (get_ev sy e)) = [] /\ spending (est (get_ev sy e)) <> [] /\
    serr (est (get_ev sy e)) = false /\
    forall t, In t (spending (est (get_ev sy e))) -> handed (wst (sw sy) t).
Proof. exact progress. Qed.
Print Assumptions C19_no_deadlock_model.

(* what each run must return does not depend on the other runs: it is the
   reference of its own program; a shared Result denotes its first evaluation *)
Theorem C19_shared_result_denotes_first_evaluation : forall base consumer,
  base <> [] ->
  nth (length base - 1) (fst (eval_nodes (base ++ consumer) 0 [] [])) vempty = rvalue (ref base).
Proof. exact result_argument_denotes_first_evaluation. Qed.
Print Assumptions C19_shared_result_denotes_first_evaluation.

(* C19 — Concurrent runs in a session are race-free and each gets its correct result.
   The logic of sharing is the evaluator's: the theorems below are the
   multi-evaluation theorems of the C03 model (any number of evaluations, all
   interleavings of their atomic steps with executor events), restated for the
   concurrent-runs reading; the rows each run must return are those of the
   reference semantics (a function of the run's program alone, C01/C12). *)
From Coq Require Import List ZArith Bool.
Import ListNotations.
Require Import BS.Gen.C03_params BS.C03.Model BS.C03.Proofs BS.C03.Safety BS.C03.Theorems
               BS.C03.Needed BS.C03.Progress BS.C01.Sem BS.C12.Proofs.

(* shared tasks are executed by one of the runs and awaited by the others: between
   two hand-outs of the same task, by whichever evaluations, an executor event
   took it out of WAITING/RUNNING *)
Theorem C19_single_runner : forall eda g, wf g -> forall st0 rootss ls2 sy l2 t e2,
  reachable eda g (init_sys st0 rootss) sy -> Forall legal_label ls2 -> legal_label l2 ->
  handed (wst (sw sy) t) ->
  In (e2, t) (snd (step eda g (fst (exec eda g sy ls2)) l2)) ->
  exists s, In (LSet t s) ls2 /\ ~ handed s.
Proof. intros eda g Hwf st0 rootss. exact (single_runner eda g Hwf st0 rootss). Qed.
Print Assumptions C19_single_runner.

(* no run reports success before all ITS roots are OK, whatever the other runs do *)
Theorem C19_each_run_success_sound : forall g st0 rootss sy l,
  wf g -> reachable false g (init_sys st0 rootss) sy -> legal_label l ->
  forall e, eres (get_ev sy e) = None -> eres (get_ev (fst (step false g sy l)) e) = Some false ->
  forall r, In r (eroots (get_ev sy e)) -> wst (sw (fst (step false g sy l))) r = TOk.
Proof. exact success_sound. Qed.
Print Assumptions C19_each_run_success_sound.

(* no deadlock in the model: a run that has not returned is, at every quiescent
   point, waiting for tasks that some executor or some other run owns *)
Theorem C19_no_deadlock_model : forall eda g st0 rootss sy,
  wf g -> reachable eda g (init_sys st0 rootss) sy -> quiescent sy ->
  forall e, e < length (sevs sy) -> estarted (get_ev sy e) = true -> eres (get_ev sy e) = None ->
    stodo (est (get_ev sy e)) = [] /\ spending (est (get_ev sy e)) <> [] /\
    serr (est (get_ev sy e)) = false /\
    forall t, In t (spending (est (get_ev sy e))) -> handed (wst (sw sy) t).
Proof. exact progress. Qed.
Print Assumptions C19_no_deadlock_model.

(* what each run must return does not depend on the other runs: it is the
   reference of its own program; a shared Result denotes its first evaluation *)
Theorem C19_shared_result_denotes_first_evaluation : forall base consumer,
  base <> [] ->
  nth (length base - 1) (fst (eval_nodes (base ++ consumer) 0 [] [])) vempty = rvalue (ref base).
Proof. exact result_argument_denotes_first_evaluation. Qed.
Print Assumptions C19_shared_result_denotes_first_evaluation.

(* ---- losses of tasks shared by concurrent runs (C03/Counting.v, any number of runs) ---- *)
Require Import BS.C03.Counting.

(* a shared task lost for the max-th time in a row: EVERY run awaiting it returns an
   error, whatever the order in which the runs notice; it is not handed out again *)
Theorem C19_shared_task_loss_limit : forall g, wf g -> forall st0 rootss sy0 t ls,
  reachable_v true false g (init_sys st0 rootss) sy0 ->
  handed (wst (sw sy0) t) -> wlu (sw sy0) t = true ->
  deps_done false g (wst (sw sy0)) t ->
  (wcl (sw sy0) t + 1 >= max_consecutive_lost)%Z ->
  Forall ev_label ls ->
  let r := exec_v true false g sy0 (LSet t TLost :: ls) in
  quiescent (fst r) ->
  (forall e, awaiting sy0 t e -> eres (get_ev (fst r) e) = Some true) /\
  cnt t (runs_of (snd r)) = 0 /\
  (tv (sw (fst r)) t = (TErr, (wcl (sw sy0) t + 1)%Z, false) \/
   tv (sw (fst r)) t = (TLost, wcl (sw sy0) t, true)).
Proof. exact lost_limit_all_evaluators. Qed.
Print Assumptions C19_shared_task_loss_limit.

(* fewer losses: the loss of a shared task is counted exactly once (not once per
   awaiting run) and the task is handed out again exactly once, by whichever run gets
   there first *)
Theorem C19_shared_task_loss_counted_once : forall g, wf g -> forall st0 rootss sy0 t ls,
  reachable_v true false g (init_sys st0 rootss) sy0 ->
  handed (wst (sw sy0) t) -> wlu (sw sy0) t = true ->
  deps_done false g (wst (sw sy0)) t ->
  (wcl (sw sy0) t + 1 < max_consecutive_lost)%Z ->
  Forall ev_label ls ->
  let r := exec_v true false g sy0 (LSet t TLost :: ls) in
  quiescent (fst r) ->
  (cnt t (runs_of (snd r)) = 1 /\ handed (wst (sw (fst r)) t) /\
   wcl (sw (fst r)) t = (wcl (sw sy0) t + 1)%Z /\ wlu (sw (fst r)) t = true) \/
  (cnt t (runs_of (snd r)) = 0 /\ wst (sw (fst r)) t = TLost /\
   (wcl (sw (fst r)) t = wcl (sw sy0) t \/ wcl (sw (fst r)) t = (wcl (sw sy0) t + 1)%Z) /\
   forall e, awaiting sy0 t e -> eres (get_ev (fst r) e) = Some true).
Proof. exact lost_resubmitted_all_evaluators. Qed.
Print Assumptions C19_shared_task_loss_counted_once.

(* concurrent uses of a shared Result at the granularity of whole operations: any
   interleaving of runs, scans, discards and losses observes the first evaluation
   (C12/Session.v) *)
Require Import BS.C12.Session BS.C12.SessionProofs.
Theorem C19_interleaved_uses_observe_first_evaluation :
  forall (V : Type) (compute : nat -> list V -> V) (deps_of : nat -> list nat) (value : nat -> V),
  (forall t, value t = compute t (map value (deps_of t))) ->
  (forall t d, In d (deps_of t) -> d < t) ->
  forall ops, Forall2 (allowed V value) ops (snd (run V compute deps_of [] ops)).
Proof. exact history_observes_first_evaluation. Qed.
Print Assumptions C19_interleaved_uses_observe_first_evaluation.

(* ---- a task published as OK can be found by every other run (C02/Control.v) ---- *)
Require Import BS.Gen.C02_params BS.C02.Control BS.C02.ControlSafety.

(* read from the Go AST of bigmachineExecutor.Run on every run: the location of a task's
   output is recorded BEFORE the task is published as TaskOk (and TaskOk before Assign).  A run
   that shares the task and sees it OK - a dependent being dispatched, a scan - therefore finds
   the location; with the statements swapped there is a window in which it does not. *)
Theorem C19_gen_location_recorded_before_ok : setlocation_before_ok = true /\ ok_before_assign = true.
Proof. split; reflexivity. Qed.
Print Assumptions C19_gen_location_recorded_before_ok.

(* in the control-plane model, which processes a reply in that order, over ALL interleavings
   of any number of dispatches, replies, losses and scans: a task in state OK has a location *)
Theorem C19_ok_task_is_located :
  forall compute okb max_lost max_retry g roots, wf_graph g roots = true -> forall n h,
  let w := Control.run compute okb max_lost max_retry g roots (init_world n) h in
  forall t, wst w t = TOk -> exists m, wloc w t = Some m.
Proof.
  intros compute okb max_lost max_retry g roots Hwf n h w t Ht.
  exact (proj1 (proj2 (ctl_inv_all_histories compute okb max_lost max_retry g roots Hwf n h)) t Ht).
Qed.
Print Assumptions C19_ok_task_is_located.

(* C04 — Results do not depend on how the computation is executed.
   The reference semantics [ref] (coq/C01/Sem.v) is a function of the program
   alone: it has no parameter for executor kind, cluster shape, parallelism,
   max-load, machine combiners, vector/spill sizes, reader shuffling or
   scheduling pragmas.  Every run, under every strategy, is judged against it. *)
From Coq Require Import List ZArith Bool Permutation.
Import ListNotations.
Require Import BS.C01.Sem BS.C01.Checker BS.C01.Proofs BS.C04.Corr BS.C04.Proofs.
Local Open Scope Z_scope.

Theorem C04_case_ok_sound : forall c,
  ok c = true ->
  forall o1 n1 o2 n2, In (o1, n1) (cruns c) -> In (o2, n2) (cruns c) ->
    BS.C01.Corr.oerr o1 = EOk /\ BS.C01.Corr.oerr o2 = EOk /\
    Forall2 (agree (vordered (rvalue (ref (cprog c))))) (BS.C01.Corr.oshards o1) (BS.C01.Corr.oshards o2) /\
    n1 = n2.
Proof. exact case_ok_sound. Qed.
Print Assumptions C04_case_ok_sound.

Theorem C04_accepted_runs_agree : forall r p o1 o2,
  ok_with r p o1 = true -> ok_with r p o2 = true ->
  Forall2 (agree (vordered (rvalue r))) (BS.C01.Corr.oshards o1) (BS.C01.Corr.oshards o2).
Proof. exact accepted_runs_agree. Qed.
Print Assumptions C04_accepted_runs_agree.

(* the order in which a shuffle consumer reads its producers (reader shuffling,
   scheduling) cannot change the multiset it receives: any partition function,
   any shard count *)
Theorem C04_shuffle_order_irrelevant : forall (f : list (list Z) -> nat) n shards shards',
  Permutation (concat shards) (concat shards') ->
  (forall r, In r (concat shards) -> (f r < n)%nat) ->
  Permutation (concat (shuffle f n shards)) (concat (shuffle f n shards')).
Proof.
  intros f n shards shards' HP Hr.
  eapply Permutation_trans; [apply shuffle_permutation; exact Hr|].
  eapply Permutation_trans; [exact HP|].
  apply Permutation_sym. apply shuffle_permutation.
  intros r Hin. apply Hr. eapply Permutation_in; [apply Permutation_sym; exact HP|exact Hin].
Qed.
Print Assumptions C04_shuffle_order_irrelevant.

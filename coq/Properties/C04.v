(* C04 — Results do not depend on how the computation is executed.
   The reference semantics [ref] (coq/C01/Sem.v) is a function of the program
   alone: it has no parameter for executor kind, cluster shape, parallelism,
   max-load, machine combiners, vector/spill sizes, reader shuffling or
   scheduling pragmas.  Every run, under every strategy, is judged against it. *)
From Coq Require Import List ZArith Bool Permutation.
Import ListNotations.
Require Import BS.C01.Sem BS.C01.Checker BS.C01.Proofs BS.C04.Corr BS.C04.Proofs.
Local Open Scope Z_scope.

Theorem C04_case_ok_sound : forall c,
  ok c = true ->
  forall o1 n1 o2 n2, In (o1, n1) (cruns c) -> In (o2, n2) (cruns c) ->
    BS.C01.Corr.oerr o1 = EOk /\ BS.C01.Corr.oerr o2 = EOk /\
    Forall2 (agree (vordered (rvalue (ref (cprog c))))) (BS.C01.Corr.oshards o1) (BS.C01.Corr.oshards o2) /\
    n1 = n2.
Proof. exact case_ok_sound. Qed.
Print Assumptions C04_case_ok_sound.

Theorem C04_accepted_runs_agree : forall r p o1 o2,
  ok_with r p o1 = true -> ok_with r p o2 = true ->
  Forall2 (agree (vordered (rvalue r))) (BS.C01.Corr.oshards o1) (BS.C01.Corr.oshards o2).
Proof. exact accepted_runs_agree. Qed.
Print Assumptions C04_accepted_runs_agree.

(* the order in which a shuffle consumer reads its producers (reader shuffling,
   scheduling) cannot change the multiset it receives: any partition function,
   any shard count *)
Theorem C04_shuffle_order_irrelevant : forall (f : list (list Z) -> nat) n shards shards',
  Permutation (concat shards) (concat shards') ->
  (forall r, In r (concat shards) -> (f r < n)%nat) ->
  Permutation (concat (shuffle f n shards)) (concat (shuffle f n shards')).
Proof.
  intros f n shards shards' HP Hr.
  eapply Permutation_trans; [apply shuffle_permutation; exact Hr|].
  eapply Permutation_trans; [exact HP|].
  apply Permutation_sym. apply shuffle_permutation.
  intros r Hin. apply Hr. eapply Permutation_in; [apply Permutation_sym; exact HP|exact Hin].
Qed.
Print Assumptions C04_shuffle_order_irrelevant.

(* ---------------------------------------------------------------------- *)
(* The operational, strategy-parameterised model (C04/Strategy.v) refines  *)
(* the reference semantics (C04/StrategyProofs.v).                         *)
(* ---------------------------------------------------------------------- *)
Require Import BS.C04.Strategy BS.C04.StrategyProofs.
Local Open Scope nat_scope.   (* the file so far is in Z_scope *)

(* C04 proper, on the operational model: for every well-formed program, the
   value a run returns does not depend on the execution strategy (chunk size,
   producer read order, producer-side / machine / consumer-side combining,
   machine grouping and order, combiner spill size, task buffer flush size): same column types, prefix and
   orderedness, and shard by shard the same list of rows where the program
   fixes the order, the same multiset elsewhere. *)
Theorem C04_strategies_agree : forall (st1 st2 : strategy) (p : list node),
  wf_prog p = true -> wf_strategy st1 p = true -> wf_strategy st2 p = true ->
  vtypes (rvalue (run st1 p)) = vtypes (rvalue (run st2 p)) /\
  vpre (rvalue (run st1 p)) = vpre (rvalue (run st2 p)) /\
  vordered (rvalue (run st1 p)) = vordered (rvalue (run st2 p)) /\
  Forall2 (agree (vordered (rvalue (run st2 p))))
          (vshards (rvalue (run st1 p))) (vshards (rvalue (run st2 p))).
Proof. exact strategies_agree. Qed.
Print Assumptions C04_strategies_agree.

(* every strategy refines the reference semantics, node by node *)
Theorem C04_run_refines_ref : forall (st : strategy) (p : list node),
  wf_prog p = true -> wf_strategy st p = true ->
  forall k, k < length p ->
  agree_value (nth k (values_of_run st p) vempty) (nth k (values_of_ref p) vempty).
Proof. exact run_refines_ref. Qed.
Print Assumptions C04_run_refines_ref.

Theorem C04_run_root_agrees : forall (st : strategy) (p : list node),
  wf_prog p = true -> wf_strategy st p = true ->
  vtypes (rvalue (run st p)) = vtypes (rvalue (ref p)) /\
  vpre (rvalue (run st p)) = vpre (rvalue (ref p)) /\
  vordered (rvalue (run st p)) = vordered (rvalue (ref p)) /\
  Forall2 (agree (vordered (rvalue (ref p)))) (vshards (rvalue (run st p))) (vshards (rvalue (ref p))).
Proof. exact run_root_agrees. Qed.
Print Assumptions C04_run_root_agrees.

(* Reduce: sorting a permutation gives the same list *)
Theorem C04_reduce_shard_perm : forall (c : comb) (pre : nat) (l l' : list (list (list Z))),
  Permutation l l' -> reduce_shard c pre l = reduce_shard c pre l'.
Proof. exact reduce_shard_perm. Qed.
Print Assumptions C04_reduce_shard_perm.

(* Reduce: combining any part of the rows beforehand (producer-side, per
   machine, in a spilled run) is harmless; rows only need their key columns *)
Theorem C04_reduce_shard_absorb : forall (c : comb) (pre : nat) (l1 l2 : list (list (list Z))),
  Forall (fun r => pre <= length r) l1 -> Forall (fun r => pre <= length r) l2 ->
  reduce_shard c pre (reduce_shard c pre l1 ++ l2) = reduce_shard c pre (l1 ++ l2).
Proof. exact reduce_shard_absorb. Qed.
Print Assumptions C04_reduce_shard_absorb.

(* Reduce: the operational Reduce (partitioning frame by frame; optionally the
   task's combining buffer flushed every pflush rows into a combiner per task
   or, with machine combiners, per machine over any grouping of the producers;
   combiners spilling sorted runs every cspill rows; k-way merging reader over
   the streams read in any order; or combining at the consumer only) = the
   reference's Reduce, shard by shard *)
Theorem C04_exec_reduce_strategy_irrelevant :
  forall (st : strategy) (k : nat) (c : comb) (pre : nat) (f : list (list Z) -> nat) (n : nat)
         (shards shards' : list (list (list (list Z)))),
  1 <= chunk st -> 1 <= cspill st -> 1 <= pflush st ->
  (if gcombine st k
   then is_perm (concat (groups st k)) (length shards) && perms (gorder st k) (length (groups st k)) n
   else perms (order st k) (length shards) n) = true ->
  Forall2 (@Permutation _) shards shards' ->
  Forall (Forall (fun r => pre <= length r)) shards' ->
  exec_reduce st k c pre f n shards = map (reduce_shard c pre) (shuffle f n shards').
Proof. exact exec_reduce_strategy_irrelevant. Qed.
Print Assumptions C04_exec_reduce_strategy_irrelevant.

(* the merging reader of sortio (k-way merge combining equal keys) over
   combined, key-sorted streams = one reduction of all their rows *)
Theorem C04_merge_reduce_reduce_shard : forall (c : comb) (pre : nat) (ss : list (list (list (list Z)))),
  Forall (fun s => Forall (fun r : list (list Z) => pre <= length r) s) ss ->
  merge_reduce c pre (map (reduce_shard c pre) ss) = reduce_shard c pre (concat ss).
Proof. exact merge_reduce_reduce_shard. Qed.
Print Assumptions C04_merge_reduce_reduce_shard.

(* a combiner (hash-combine, spill sorted runs of any size, merge them) computes
   the reduction of the rows it was given *)
Theorem C04_combiner_out_reduce_shard : forall (spill : nat) (c : comb) (pre : nat) (rows : list (list (list Z))),
  1 <= spill -> Forall (fun r : list (list Z) => pre <= length r) rows ->
  combiner_out spill c pre rows = reduce_shard c pre rows.
Proof. exact combiner_out_reduce_shard. Qed.
Print Assumptions C04_combiner_out_reduce_shard.

(* shuffles: consumer shard p is a permutation of the reference's shard p
   whatever the order in which the producers are read, and equal to it when they
   are read in index order *)
Theorem C04_exec_shuffle_permutation :
  forall (ch : nat) (ord : nat -> list nat) (f : list (list Z) -> nat) (n : nat)
         (shards shards' : list (list (list (list Z)))),
  1 <= ch -> perms ord (length shards) n = true ->
  Forall2 (@Permutation _) shards shards' ->
  Forall2 (@Permutation _) (exec_shuffle ch ord f n shards) (shuffle f n shards').
Proof. exact exec_shuffle_permutation. Qed.
Print Assumptions C04_exec_shuffle_permutation.

Theorem C04_exec_shuffle_identity :
  forall (ch : nat) (ord : nat -> list nat) (f : list (list Z) -> nat) (n : nat)
         (shards : list (list (list (list Z)))),
  1 <= ch -> (forall p, p < n -> ord p = seq 0 (length shards)) ->
  exec_shuffle ch ord f n shards = shuffle f n shards.
Proof. exact exec_shuffle_identity. Qed.
Print Assumptions C04_exec_shuffle_identity.

(* row-wise operators: the chunk (vector) size is irrelevant *)
Theorem C04_exec_rowwise_chunking_irrelevant : forall ch : nat, 1 <= ch ->
  (forall A B (f : A -> B) l, chunked ch (map f) l = map f l) /\
  (forall A (f : A -> bool) l, chunked ch (filter f) l = filter f l) /\
  (forall A B (f : A -> list B) l, chunked ch (flat_map f) l = flat_map f l) /\
  (forall A n (l : list A), head_exec ch n l = firstn_z n l).
Proof. exact exec_rowwise_chunking_irrelevant. Qed.
Print Assumptions C04_exec_rowwise_chunking_irrelevant.

Theorem C04_exec_fold_strategy_irrelevant :
  forall (ch : nat) (ord : nat -> list nat) (f : list (list Z) -> nat) (n : nat)
         (shards shards' : list (list (list (list Z)))),
  1 <= ch -> perms ord (length shards) n = true ->
  Forall2 (@Permutation _) shards shards' ->
  Forall2 (@Permutation _) (map (fold_exec ch) (exec_shuffle ch ord f n shards))
                           (map fold_shard (shuffle f n shards')).
Proof. exact exec_fold_strategy_irrelevant. Qed.
Print Assumptions C04_exec_fold_strategy_irrelevant.

Theorem C04_exec_cogroup_strategy_irrelevant :
  forall (st : strategy) (k pre n : nat) (ins ins' : list value),
  1 <= chunk st -> Forall2 agree_value ins ins' ->
  forallb (fun dv : nat * value => perms (corder st k (fst dv)) (nshards (snd dv)) n)
          (combine (seq 0 (length ins')) ins') = true ->
  exec_cogroup st k pre n ins
  = map (fun p => cogroup_shard pre
                    (map (fun s : nat * list (list (list (list Z))) => (fst s, nth p (snd s) []))
                         (map (fun v => (length (vtypes v), shuffle (part (vtypes v) pre n) n (vshards v))) ins')))
        (seq 0 n).
Proof. exact exec_cogroup_strategy_irrelevant. Qed.
Print Assumptions C04_exec_cogroup_strategy_irrelevant.

(* the side-effect streams of the needed Scan / WriterFunc nodes do not depend
   on the strategy either *)
Theorem C04_run_sides_agree : forall (st : strategy) (p : list node),
  wf_prog p = true -> wf_strategy st p = true ->
  rordered (run st p) = rordered (ref p) /\
  Forall2 (fun a b : side =>
             snode a = snode b /\ sshard a = sshard b /\
             agree (BS.C01.Corr.lookup_ordered (rordered (ref p)) (snode b)) (srows a) (srows b) /\
             seofs a = seofs b /\ serrnil a = serrnil b /\ sruns a = sruns b)
          (rsides (run st p)) (rsides (ref p)).
Proof. exact run_sides_agree. Qed.
Print Assumptions C04_run_sides_agree.

(* every value of every node, not only the root *)
Theorem C04_strategies_agree_everywhere : forall (st1 st2 : strategy) (p : list node),
  wf_prog p = true -> wf_strategy st1 p = true -> wf_strategy st2 p = true ->
  forall k, agree_value (nth k (values_of_run st1 p) vempty) (nth k (values_of_run st2 p) vempty).
Proof. exact strategies_agree_everywhere. Qed.
Print Assumptions C04_strategies_agree_everywhere.

(* non-vacuity: a concrete program and three concrete well-formed strategies
   whose intermediate values differ and whose roots agree *)
Theorem C04_example_nonvacuous :
  wf_prog ex_prog = true /\ wf_strategy ex_st_machines ex_prog = true /\
  wf_strategy ex_st_local ex_prog = true /\ wf_strategy ex_st_precombine ex_prog = true.
Proof. exact ex_wf. Qed.
Print Assumptions C04_example_nonvacuous.
Theorem C04_example_intermediate_differs :
  vshards (nth 2 (values_of_run ex_st_machines ex_prog) vempty)
  <> vshards (nth 2 (values_of_ref ex_prog) vempty).
Proof. exact ex_intermediate_differs. Qed.
Print Assumptions C04_example_intermediate_differs.

Theorem C04_example_roots_agree :
  vshards (rvalue (run ex_st_machines ex_prog)) = [ []; [ [[0]; [70]] ]; [ [[1]; [220]]; [[2]; [180]]; [[3]; [190]] ] ]%Z /\
  vshards (rvalue (run ex_st_local ex_prog)) = vshards (rvalue (run ex_st_machines ex_prog)) /\
  vshards (rvalue (run ex_st_precombine ex_prog)) = vshards (rvalue (run ex_st_machines ex_prog)) /\
  vshards (rvalue (ref ex_prog)) = vshards (rvalue (run ex_st_machines ex_prog)).
Proof. exact ex_roots_computed. Qed.
Print Assumptions C04_example_roots_agree.

(* C05 — Keyed redistribution puts each key in one shard, chosen by the key alone.
   Only restated theorems, each closed by [exact], with Print Assumptions. *)
From Coq Require Import String.
From Coq Require Import List NArith ZArith Bool Permutation Lia.
Import ListNotations.
Require Import BS.C05.Model BS.C05.Proofs BS.Gen.C05_params.
Local Open Scope Z_scope.

(* ------------------------------------------------------------------ tie to the source
   The model transcribes these functions; goparams re-reads them from /repo on every
   run, so an edit to any of them breaks a named obligation here. *)
Theorem C05_gen_hash32_byte_order : hash32_literals = [4; 0; 1; 8; 2; 16; 3; 24].
Proof. reflexivity. Qed.
Theorem C05_gen_hash64_byte_order :
  hash64_literals = [8; 0; 1; 8; 2; 16; 3; 24; 4; 32; 5; 40; 6; 48; 7; 56].
Proof. reflexivity. Qed.
Theorem C05_gen_frame_hash_seed : frame_hash_literals = [0].
Proof. reflexivity. Qed.
Theorem C05_gen_hash32_src : hash32_src =
  "{ var b [4]byte b[0] = byte(x) b[1] = byte(x >> 8) b[2] = byte(x >> 16) b[3] = byte(x >> 24) return murmur3.Sum32WithSeed(b[:], seed) }"%string.
Proof. reflexivity. Qed.
Theorem C05_gen_hash64_src : hash64_src =
  "{ var b [8]byte b[0] = byte(x) b[1] = byte(x >> 8) b[2] = byte(x >> 16) b[3] = byte(x >> 24) b[4] = byte(x >> 32) b[5] = byte(x >> 40) b[6] = byte(x >> 48) b[7] = byte(x >> 56) return murmur3.Sum32WithSeed(b[:], seed) }"%string.
Proof. reflexivity. Qed.
Theorem C05_gen_frame_hash_src : frame_hash_src = "{ return f.HashWithSeed(i, 0) }"%string.
Proof. reflexivity. Qed.
Theorem C05_gen_frame_hash_with_seed_src : frame_hash_with_seed_src =
  "{ var hash uint32 for col := 0; col < f.prefix; col++ { hash ^= f.data[col].ops.HashWithSeed(i+f.off, seed) } return hash ^ f.data[f.prefix].ops.HashWithSeed(i+f.off, seed) }"%string.
Proof. reflexivity. Qed.
Theorem C05_gen_default_partitioner_src : default_partitioner_src =
  "{ for i := range shards { shards[i] = int(frame.Hash(i) % uint32(nshard)) } }"%string.
Proof. reflexivity. Qed.
(* element type -> body of its Ops.HashWithSeed (Model.hash_val, clause by clause) *)
Theorem C05_gen_hash_dispatch : hash_dispatch = [
  ("[]byte", "{ return murmur3.Sum32WithSeed(slice[i], seed) }");
  ("bool", "{ if slice[i] { return seed + 1 } return seed }");
  ("struct{}", "{ return seed }");
  ("string", "{ return murmur3.Sum32WithSeed([]byte(slice[i]), seed) }");
  ("uint", "{ return hash64(uint64(slice[i]), seed) }");
  ("uint8", "{ return hash32(uint32(slice[i]), seed) }");
  ("uint16", "{ return hash32(uint32(slice[i]), seed) }");
  ("uint32", "{ return hash32(uint32(slice[i]), seed) }");
  ("uint64", "{ return hash64(uint64(slice[i]), seed) }");
  ("int", "{ return hash64(uint64(slice[i]), seed) }");
  ("int8", "{ return hash32(uint32(slice[i]), seed) }");
  ("int16", "{ return hash32(uint32(slice[i]), seed) }");
  ("int32", "{ return hash32(uint32(slice[i]), seed) }");
  ("int64", "{ return hash64(uint64(slice[i]), seed) }");
  ("float32", "{ return hash32(math.Float32bits(slice[i]+0), seed) }");
  ("float64", "{ return hash64(math.Float64bits(slice[i]+0), seed) }");
  ("uintptr", "{ return hash64(uint64(slice[i]), seed) }")]%string.
Proof. reflexivity. Qed.
(* the float hashes take the bits of x+0: -0.0 is normalised to +0.0 (Model.float_norm) *)
Theorem C05_gen_float_normalises_zero : float_hash_normalises_zero = true.
Proof. reflexivity. Qed.
Theorem C05_gen_default_partitioner_assigns :
  default_partitioner_assigns = ["= int(frame.Hash(i) % uint32(nshard))"%string].
Proof. reflexivity. Qed.
Theorem C05_gen_repartition_assigns : repartition_assigns = ["= int(result[0].Int())"%string].
Proof. reflexivity. Qed.
(* Task.Type carries the key prefix handed to the partitioner: in compile, the re-shuffle
   tasks inserted for a reused *Result are typed by the slice being shuffled (the
   consumer's view, e.g. Prefixed(result, j)), the ordinary ones by the head of their
   pipeline; [keyed_pf keyof] takes keyof from that slice *)
Theorem C05_gen_compile_task_types : compile_task_types = ["slice"%string; "slices[0]"%string].
Proof. reflexivity. Qed.
(* bufferOutput consults the partitioner only when there are at least two partitions *)
Theorem C05_gen_buffer_output_conds : buffer_output_partition_conds = ["task.NumPartition > 1"%string].
Proof. reflexivity. Qed.

(* ------------------------------------------------------------------ hashing *)
(* the key hash is a uint32, and Frame.HashWithSeed is the xor-fold of the per-type
   hashes of the row's key cells: it does not depend on storage, offset or index *)
Theorem C05_key_hash_uint32 : forall seed k, (seed < 4294967296)%N -> (key_hash seed k < 4294967296)%N.
Proof. exact key_hash_lt. Qed.
Theorem C05_frame_hash_is_key_hash : forall f i seed,
  frame_hash_with_seed f i seed = key_hash seed (row_key f i).
Proof. exact frame_hash_key. Qed.
Theorem C05_frame_hash_position_free : forall f1 i1 f2 i2 seed,
  row_key f1 i1 = row_key f2 i2 ->
  frame_hash_with_seed f1 i1 seed = frame_hash_with_seed f2 i2 seed.
Proof. exact frame_hash_position_free. Qed.
Theorem C05_frame_hash_slice : forall cols off p k i seed,
  frame_hash_with_seed (mkHF cols (off + k) p) i seed = frame_hash_with_seed (mkHF cols off p) (k + i) seed.
Proof. exact frame_hash_slice. Qed.
Print Assumptions C05_frame_hash_position_free.

(* keys that are equal as Go values (kval_eqb = Go's == on every non-NaN value, so
   +0.0 and -0.0 are equal) have equal hashes, hence equal shards *)
Theorem C05_go_equal_values_hash_alike : forall seed a b,
  kval_eqb a b = true -> hash_val seed a = hash_val seed b.
Proof. exact hash_val_goeq. Qed.
Theorem C05_go_equal_keys_hash_alike : forall seed k1 k2,
  key_eqb k1 k2 = true -> key_hash seed k1 = key_hash seed k2.
Proof. exact key_hash_goeq. Qed.
Theorem C05_go_equal_keys_same_part : forall k1 k2 n, key_eqb k1 k2 = true -> part k1 n = part k2 n.
Proof. exact part_goeq. Qed.
Print Assumptions C05_go_equal_keys_same_part.

(* ------------------------------------------------------------------ the partitioner *)
Theorem C05_partition_in_range : forall k n, 1 <= n < 4294967296 -> 0 <= part k n < n.
Proof. exact partition_in_range. Qed.
Print Assumptions C05_partition_in_range.

(* ------------------------------------------------------------------ the shuffle
   [shuffle pf n producers]: every producer (a list of batches of rows) appends each
   row r to its partition buffer pf n r; consumer shard p reads partition p of every
   producer. [keyed_pf keyof] is the partitioner of Reduce/Fold/Cogroup/Reshuffle/
   Reshard: part (keyof r) n. *)
Theorem C05_keyed_shuffle_never_fails : forall A (keyof : A -> list kval) n prods,
  1 <= n < 4294967296 -> exists outs, shuffle (keyed_pf keyof) n prods = Some outs.
Proof. exact @keyed_shuffle_never_fails. Qed.

(* equal keys, same shard: whatever the producers, batches and positions *)
Theorem C05_colocated : forall A (keyof : A -> list kval) n prods outs p1 p2 r1 r2,
  1 <= n < 4294967296 -> shuffle (keyed_pf keyof) n prods = Some outs ->
  In r1 (nth p1 outs []) -> In r2 (nth p2 outs []) -> keyof r1 = keyof r2 -> p1 = p2.
Proof. exact @colocated. Qed.
Print Assumptions C05_colocated.

(* the same for keys equal as Go values: no guard about negative zero is needed *)
Theorem C05_colocated_go_equal : forall A (keyof : A -> list kval) n prods outs p1 p2 r1 r2,
  1 <= n < 4294967296 -> shuffle (keyed_pf keyof) n prods = Some outs ->
  In r1 (nth p1 outs []) -> In r2 (nth p2 outs []) ->
  key_eqb (keyof r1) (keyof r2) = true -> p1 = p2.
Proof. exact @colocated_goeq. Qed.
Print Assumptions C05_colocated_go_equal.

(* and that shard is part(key, n): a function of the key value and the shard count alone *)
Theorem C05_shard_is_part : forall A (keyof : A -> list kval) n prods outs p r,
  1 <= n < 4294967296 -> shuffle (keyed_pf keyof) n prods = Some outs ->
  In r (nth p outs []) -> Z.of_nat p = part (keyof r) n.
Proof. exact @shard_is_part. Qed.

Theorem C05_batch_irrelevant : forall A (pf : Z -> A -> Z) n prods,
  shuffle pf n prods = shuffle pf n (map (fun pr => [concat pr]) prods).
Proof. exact @shuffle_batch_irrelevant. Qed.

(* consumer p receives exactly the rows destined for p (dest = the partitioner's value,
   or 0 when there is a single partition) ... *)
Theorem C05_shuffle_delivers : forall A (pf : Z -> A -> Z) n prods outs p,
  1 <= n -> shuffle pf n prods = Some outs -> (p < Z.to_nat n)%nat ->
  Permutation (nth p outs []) (filter (fun r => Z.eqb (dest pf n r) (Z.of_nat p)) (all_rows prods)).
Proof. exact @shuffle_delivers. Qed.
(* ... and the shards together are a permutation of the input *)
Theorem C05_shuffle_partitions : forall A (pf : Z -> A -> Z) n prods outs,
  1 <= n -> shuffle pf n prods = Some outs -> Permutation (concat outs) (all_rows prods).
Proof. exact @shuffle_partitions. Qed.
Print Assumptions C05_shuffle_delivers.
Print Assumptions C05_shuffle_partitions.

(* keyed aggregation: if each consumer shard emits each key it received exactly once,
   then over the whole result no key occurs twice and every input key occurs *)
Theorem C05_keyed_distinct_global : forall A (keyof : A -> list kval) B (keyB : B -> list kval)
    n prods shards (outs : list (list B)),
  1 <= n < 4294967296 -> shuffle (keyed_pf keyof) n prods = Some shards ->
  length outs = Z.to_nat n ->
  (forall p, (p < Z.to_nat n)%nat ->
      NoDup (map keyB (nth p outs [])) /\
      forall k, In k (map keyB (nth p outs [])) <-> In k (map keyof (nth p shards []))) ->
  NoDup (map keyB (concat outs)) /\
  forall k, In k (map keyB (concat outs)) <-> In k (map keyof (all_rows prods)).
Proof. exact @keyed_distinct_global. Qed.
Print Assumptions C05_keyed_distinct_global.

(* the same with key equality as Go's == (keq k1 k2 := key_eqb k1 k2 = true): if each
   shard emits no two Go-equal keys and exactly the keys it received (up to ==), the
   whole result has no two Go-equal keys and covers every input key *)
Theorem C05_keyed_distinct_global_go_equal : forall A (keyof : A -> list kval) B (keyB : B -> list kval)
    n prods shards (outs : list (list B)),
  1 <= n < 4294967296 -> shuffle (keyed_pf keyof) n prods = Some shards ->
  length outs = Z.to_nat n ->
  (forall p, (p < Z.to_nat n)%nat ->
      SetoidList.NoDupA keq (map keyB (nth p outs [])) /\
      (forall b, In b (nth p outs []) -> exists r, In r (nth p shards []) /\ keq (keyB b) (keyof r)) /\
      (forall r, In r (nth p shards []) -> exists b, In b (nth p outs []) /\ keq (keyof r) (keyB b))) ->
  SetoidList.NoDupA keq (map keyB (concat outs)) /\
  forall r, In r (all_rows prods) -> exists b, In b (concat outs) /\ keq (keyof r) (keyB b).
Proof. exact @keyed_distinct_global_goeq. Qed.
Print Assumptions C05_keyed_distinct_global_go_equal.

(* Repartition: a row goes to exactly the shard its function returned when that is a
   shard; otherwise the run fails *)
Theorem C05_repartition_exact : forall A (f : Z -> A -> Z) n prods,
  1 < n ->
  (Forall (fun r => 0 <= f n r < n) (all_rows prods) ->
     exists outs, shuffle f n prods = Some outs /\ length outs = Z.to_nat n /\
       forall p, (p < Z.to_nat n)%nat ->
         nth p outs [] = filter (fun r => Z.eqb (f n r) (Z.of_nat p)) (all_rows prods))
  /\ (Exists (fun r => ~ 0 <= f n r < n) (all_rows prods) -> shuffle f n prods = None).
Proof. exact @repartition_exact. Qed.
(* with one shard the function is never consulted *)
Theorem C05_repartition_single : forall A (f : Z -> A -> Z) prods,
  shuffle f 1 prods = Some [all_rows prods].
Proof. exact @repartition_single. Qed.
Print Assumptions C05_repartition_exact.

(* ------------------------------------------------------------------ where the faithful model
   violates the property text (finding fold-prefixed-input), and the repaired float case *)
Theorem C05_fold_prefixed_refuted : exists k1 k2 n,
  firstn 1 k1 = firstn 1 k2 /\ 1 <= n < 4294967296 /\ part k1 n <> part k2 n.
Proof.
  exists [VString [97%N]; VInt 1], [VString [97%N]; VInt 3], 3.
  split; [reflexivity|]. split; [lia|]. exact fold_prefix2_splits_key.
Qed.
(* the former float hashing (hash_val_gen false: bits of x instead of x+0) split the
   Go-equal keys +0.0 and -0.0; repaired in /repo, kept as the witness for that code *)
Theorem C05_float_negzero_refuted : exists n,
  (1 <= n < 4294967296)%N /\
  (hash_val_gen false 0 (VFloat64 0) mod n <> hash_val_gen false 0 (VFloat64 9223372036854775808) mod n)%N.
Proof. exists 4%N. split; [split; [discriminate | reflexivity]|]. exact negzero_split_key_formerly. Qed.
(* ... and the current one does not, for any shard count *)
Theorem C05_float_negzero_same_shard : forall n,
  part [VFloat64 0] n = part [VFloat64 9223372036854775808] n /\
  part [VFloat32 0] n = part [VFloat32 2147483648] n.
Proof. exact negzero_same_shard. Qed.
Print Assumptions C05_fold_prefixed_refuted.

(* C12 — Results can be reused, rescanned and discarded without changing their rows. *)
From Coq Require Import List ZArith Bool.
Import ListNotations.
Require Import BS.C01.Sem BS.C12.Proofs.

(* the values of a program's nodes do not depend on what a later Func builds on top *)
Theorem C12_prefix_values_stable : forall base consumer,
  firstn (length base) (fst (eval_nodes (base ++ consumer) 0 [] [])) = fst (eval_nodes base 0 [] []).
Proof. exact prefix_values_stable. Qed.
Print Assumptions C12_prefix_values_stable.

(* a Result passed to a later Func (through any operator) denotes exactly the
   rows of its own evaluation *)
Theorem C12_result_argument_denotes_first_evaluation : forall base consumer,
  base <> [] ->
  nth (length base - 1) (fst (eval_nodes (base ++ consumer) 0 [] [])) vempty = rvalue (ref base).
Proof. exact result_argument_denotes_first_evaluation. Qed.
Print Assumptions C12_result_argument_denotes_first_evaluation.

(* ---------------------------------------------------------------------------
   The session model (C12/Session.v): a store of task outputs that is evaluated,
   scanned, discarded and lost in arbitrary histories.  Generic theorems first
   (any deterministic acyclic task graph), then instantiated with the reference
   semantics of slice programs (C12/Instance.v).
   --------------------------------------------------------------------------- *)
From Coq Require Import Arith.
Require Import BS.C12.Session BS.C12.SessionProofs BS.C12.Instance.

(* every use observes the first evaluation: in any history of runs, scans,
   discards and machine losses, every run returns the failure-free rows of its
   root tasks and every direct scan returns them or an error - never other rows *)
Theorem C12_history_observes_first_evaluation :
  forall (V : Type) (compute : nat -> list V -> V) (deps_of : nat -> list nat) (value : nat -> V),
  (forall t, value t = compute t (map value (deps_of t))) ->
  (forall t d, In d (deps_of t) -> d < t) ->
  forall ops, Forall2 (allowed V value) ops (snd (run V compute deps_of [] ops)).
Proof. exact history_observes_first_evaluation. Qed.
Print Assumptions C12_history_observes_first_evaluation.

(* a later run recomputes whatever was discarded or lost: it succeeds with the
   failure-free rows and leaves every root present again *)
Theorem C12_eval_returns_value :
  forall (V : Type) (compute : nat -> list V -> V) (deps_of : nat -> list nat) (value : nat -> V),
  (forall t, value t = compute t (map value (deps_of t))) ->
  (forall t d, In d (deps_of t) -> d < t) ->
  forall s roots, Inv V value s ->
    snd (step V compute deps_of s (OEval roots)) = Rows (map value roots).
Proof. exact eval_returns_value. Qed.
Print Assumptions C12_eval_returns_value.

Theorem C12_eval_restores :
  forall (V : Type) (compute : nat -> list V -> V) (deps_of : nat -> list nat),
  (forall t d, In d (deps_of t) -> d < t) ->
  forall s roots r, In r roots -> present V (fst (step V compute deps_of s (OEval roots))) r = true.
Proof. exact eval_restores. Qed.
Print Assumptions C12_eval_restores.

(* a direct scan of a Result whose outputs are gone reports an error or the same rows *)
Theorem C12_scan_value_or_error :
  forall (V : Type) (compute : nat -> list V -> V) (deps_of : nat -> list nat) (value : nat -> V) s roots,
  Inv V value s ->
  snd (step V compute deps_of s (OScan roots)) = Rows (map value roots) \/
  snd (step V compute deps_of s (OScan roots)) = Failed.
Proof. exact scan_value_or_error. Qed.
Print Assumptions C12_scan_value_or_error.

Theorem C12_scan_after_eval :
  forall (V : Type) (compute : nat -> list V -> V) (deps_of : nat -> list nat) (value : nat -> V),
  (forall t, value t = compute t (map value (deps_of t))) ->
  (forall t d, In d (deps_of t) -> d < t) ->
  forall s roots, Inv V value s ->
    snd (step V compute deps_of (fst (step V compute deps_of s (OEval roots))) (OScan roots)) = Rows (map value roots).
Proof. exact scan_after_eval. Qed.
Print Assumptions C12_scan_after_eval.

(* Discard never changes the value of a later evaluation *)
Theorem C12_discard_never_changes_later_eval :
  forall (V : Type) (compute : nat -> list V -> V) (deps_of : nat -> list nat) (value : nat -> V),
  (forall t, value t = compute t (map value (deps_of t))) ->
  (forall t d, In d (deps_of t) -> d < t) ->
  forall ops1 ops2 ts roots,
  last (snd (run V compute deps_of [] (ops1 ++ ODiscard ts :: ops2 ++ [OEval roots]))) Failed =
  last (snd (run V compute deps_of [] (ops1 ++ ops2 ++ [OEval roots]))) Failed.
Proof. exact discard_never_changes_later_eval. Qed.
Print Assumptions C12_discard_never_changes_later_eval.

(* the instance: tasks = nodes of a well-formed program, outputs = reference values *)
Theorem C12_value_spec_program : forall p,
  wf p = true -> forall k, value_of p k = comp p k (map (value_of p) (deps p k)).
Proof. exact value_spec_program. Qed.
Print Assumptions C12_value_spec_program.

Theorem C12_program_history_observes_reference : forall p ops,
  wf p = true ->
  Forall2 (allowed value (value_of p)) ops (snd (run value (comp p) (deps p) [] ops)).
Proof. exact program_history_observes_reference. Qed.
Print Assumptions C12_program_history_observes_reference.

Theorem C12_result_root_is_ref : forall base consumer ops1 ops2,
  base <> [] -> wf (base ++ consumer) = true ->
  last (snd (run value (comp (base ++ consumer)) (deps (base ++ consumer)) []
               (ops1 ++ ODiscard ops2 :: [OEval [length base - 1]]))) Failed
  = Rows [rvalue (ref base)].
Proof. exact result_root_is_ref. Qed.
Print Assumptions C12_result_root_is_ref.

Theorem C12_example_history :
  wf (ex_base ++ ex_consumer) = true /\
  snd (run value (comp (ex_base ++ ex_consumer)) (deps (ex_base ++ ex_consumer)) []
         [OEval [1]; ODiscard [0; 1]; OScan [1]; OEval [2]; OScan [1]])
  = [Rows [rvalue (ref ex_base)]; Done; Failed;
     Rows [rvalue (ref (ex_base ++ ex_consumer))]; Rows [rvalue (ref ex_base)]].
Proof. split; [exact ex_wf|exact ex_history]. Qed.
Print Assumptions C12_example_history.

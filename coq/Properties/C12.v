(* C12 — Results can be reused, rescanned and discarded without changing their rows. *)
From Coq Require Import List ZArith Bool.
Import ListNotations.
Require Import BS.C01.Sem BS.C12.Proofs.

(* the values of a program's nodes do not depend on what a later Func builds on top *)
Theorem C12_prefix_values_stable : forall base consumer,
  firstn (length base) (fst (eval_nodes (base ++ consumer) 0 [] [])) = fst (eval_nodes base 0 [] []).
Proof. exact prefix_values_stable. Qed.
Print Assumptions C12_prefix_values_stable.

(* a Result passed to a later Func (through any operator) denotes exactly the
   rows of its own evaluation *)
Theorem C12_result_argument_denotes_first_evaluation : forall base consumer,
  base <> [] ->
  nth (length base - 1) (fst (eval_nodes (base ++ consumer) 0 [] [])) vempty = rvalue (ref base).
Proof. exact result_argument_denotes_first_evaluation. Qed.
Print Assumptions C12_result_argument_denotes_first_evaluation.

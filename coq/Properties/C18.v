(* C18 — Operator constructors accept exactly the documented type schemas.
   Only restated theorems, each closed by [exact], with Print Assumptions.

   Reading guide.  X_check is the model of constructor X as the code is now
   (coq/C18/Model.v: its `if`s in source order; Accept t / Reject = *typecheck.Error /
   GoPanic = any other panic).  X_schema ... r (coq/C18/Spec.v, written from the doc
   comments, independent of the model) says the inputs fit X's documented schema and r is
   the documented result type.  Every theorem quantifies over the whole inductive type
   grammar `ty`, every slice type and every universe table U (method sets, registered
   frame.Ops).
     C18_X_iff_schema    never a non-typecheck panic; accepted iff the inputs fit; rejected
                         (typecheck error) iff they do not.
     C18_X_out_type_spec an accepted call returns the documented columns, key prefix and
                         shard count (`meets`).
   The only hypothesis left for the current code is prefix_in_range (Reshuffle, Reshard,
   Cogroup): that region is an open finding (Sig prefix-exceeds-columns-panics).
   Three other regions were repaired in /repo (ReaderFunc result arity; variadic functions
   in the exact-form constructors, 74b12a5; shard parameter tested by Kind, b77039e).  The
   model is parameterised by the set R of repairs (X_check = X_check_gen current_code);
   the *_any_repairs theorems hold for every R under `the repair is in or the input is
   outside its region`, and the *_refuted theorems are witnesses against the code with one
   repair missing. *)
From Coq Require Import List ZArith Bool.
Import ListNotations.
Require Import BS.C18.Types BS.C18.Model BS.C18.Spec BS.C18.Proofs BS.C18.Theorems BS.C18.Refuted.

(* what the code is now: all three repairs are in.  If a repair is reverted in /repo the
   correspondence breaks (MISMATCH and VIOL on the region's cases); flipping a switch in
   Model.v to follow it breaks the unconditional theorems below and this pin. *)
Theorem C18_model_switch :
  current_code = mkRep true true true /\
  readerfunc_check = readerfunc_check_gen current_code /\
  writerfunc_check = writerfunc_check_gen current_code /\
  fold_check = fold_check_gen current_code /\
  reduce_check = reduce_check_gen current_code /\
  repartition_check = repartition_check_gen current_code.
Proof. repeat split. Qed.

(* the hypotheses of the *_any_repairs theorems *)
Theorem C18_repair_guards : forall R f,
  (variadic_ok R f <-> rep_reject_variadic R = true \/ fn_variadic f = false) /\
  (shard_ok R f <-> rep_shard_exact R = true \/ fn_shard_named f = false) /\
  (numout_ok R f <-> rep_numout R = true \/ fn_numout f = 2%nat).
Proof. intros; repeat split; intro H; exact H. Qed.

Theorem C18_map_iff_schema : forall U s f,
  map_check U s f <> GoPanic /\
  ((exists out, map_check U s f = Accept out) <-> (exists r, map_schema U s f r)) /\
  ((~ exists r, map_schema U s f r) -> map_check U s f = Reject).
Proof. exact map_iff_schema. Qed.

Theorem C18_map_out_type_spec : forall U s f,
  forall out, map_check U s f = Accept out -> exists r, map_schema U s f r /\ meets r out.
Proof. exact map_out_type_spec. Qed.
Print Assumptions C18_map_iff_schema.
Print Assumptions C18_map_out_type_spec.

Theorem C18_filter_iff_schema : forall U s f,
  filter_check U s f <> GoPanic /\
  ((exists out, filter_check U s f = Accept out) <-> (exists r, filter_schema U s f r)) /\
  ((~ exists r, filter_schema U s f r) -> filter_check U s f = Reject).
Proof. exact filter_iff_schema. Qed.

Theorem C18_filter_out_type_spec : forall U s f,
  forall out, filter_check U s f = Accept out -> exists r, filter_schema U s f r /\ meets r out.
Proof. exact filter_out_type_spec. Qed.
Print Assumptions C18_filter_iff_schema.
Print Assumptions C18_filter_out_type_spec.

Theorem C18_flatmap_iff_schema : forall U s f,
  flatmap_check U s f <> GoPanic /\
  ((exists out, flatmap_check U s f = Accept out) <-> (exists r, flatmap_schema U s f r)) /\
  ((~ exists r, flatmap_schema U s f r) -> flatmap_check U s f = Reject).
Proof. exact flatmap_iff_schema. Qed.

Theorem C18_flatmap_out_type_spec : forall U s f,
  forall out, flatmap_check U s f = Accept out -> exists r, flatmap_schema U s f r /\ meets r out.
Proof. exact flatmap_out_type_spec. Qed.
Print Assumptions C18_flatmap_iff_schema.
Print Assumptions C18_flatmap_out_type_spec.

Theorem C18_fold_iff_schema : forall U s f,
  fold_check U s f <> GoPanic /\
  ((exists out, fold_check U s f = Accept out) <-> (exists r, fold_schema U s f r)) /\
  ((~ exists r, fold_schema U s f r) -> fold_check U s f = Reject).
Proof. exact fold_iff_schema. Qed.

Theorem C18_fold_out_type_spec : forall U s f,
  forall out, fold_check U s f = Accept out -> exists r, fold_schema U s f r /\ meets r out.
Proof. exact fold_out_type_spec. Qed.
Print Assumptions C18_fold_iff_schema.
Print Assumptions C18_fold_out_type_spec.

Theorem C18_head_iff_schema : forall s n,
  head_check s n <> GoPanic /\
  ((exists out, head_check s n = Accept out) <-> (exists r, head_schema s n r)) /\
  ((~ exists r, head_schema s n r) -> head_check s n = Reject).
Proof. exact head_iff_schema. Qed.

Theorem C18_head_out_type_spec : forall s n,
  forall out, head_check s n = Accept out -> exists r, head_schema s n r /\ meets r out.
Proof. exact head_out_type_spec. Qed.
Print Assumptions C18_head_iff_schema.
Print Assumptions C18_head_out_type_spec.

Theorem C18_prefixed_iff_schema : forall s p,
  prefixed_check s p <> GoPanic /\
  ((exists out, prefixed_check s p = Accept out) <-> (exists r, prefixed_schema s p r)) /\
  ((~ exists r, prefixed_schema s p r) -> prefixed_check s p = Reject).
Proof. exact prefixed_iff_schema. Qed.

Theorem C18_prefixed_out_type_spec : forall s p,
  forall out, prefixed_check s p = Accept out -> exists r, prefixed_schema s p r /\ meets r out.
Proof. exact prefixed_out_type_spec. Qed.
Print Assumptions C18_prefixed_iff_schema.
Print Assumptions C18_prefixed_out_type_spec.

Theorem C18_reduce_iff_schema : forall U s f,
  reduce_check U s f <> GoPanic /\
  ((exists out, reduce_check U s f = Accept out) <-> (exists r, reduce_schema U s f r)) /\
  ((~ exists r, reduce_schema U s f r) -> reduce_check U s f = Reject).
Proof. exact reduce_iff_schema. Qed.

Theorem C18_reduce_out_type_spec : forall U s f,
  forall out, reduce_check U s f = Accept out -> exists r, reduce_schema U s f r /\ meets r out.
Proof. exact reduce_out_type_spec. Qed.
Print Assumptions C18_reduce_iff_schema.
Print Assumptions C18_reduce_out_type_spec.

Theorem C18_reshuffle_iff_schema : forall U s,
  prefix_in_range s ->
  reshuffle_check U s <> GoPanic /\
  ((exists out, reshuffle_check U s = Accept out) <-> (exists r, reshuffle_schema U s r)) /\
  ((~ exists r, reshuffle_schema U s r) -> reshuffle_check U s = Reject).
Proof. exact reshuffle_iff_schema. Qed.

Theorem C18_reshuffle_out_type_spec : forall U s,
  forall out, reshuffle_check U s = Accept out -> exists r, reshuffle_schema U s r /\ meets r out.
Proof. exact reshuffle_out_type_spec. Qed.
Print Assumptions C18_reshuffle_iff_schema.
Print Assumptions C18_reshuffle_out_type_spec.

Theorem C18_repartition_iff_schema : forall s f,
  repartition_check s f <> GoPanic /\
  ((exists out, repartition_check s f = Accept out) <-> (exists r, repartition_schema s f r)) /\
  ((~ exists r, repartition_schema s f r) -> repartition_check s f = Reject).
Proof. exact repartition_iff_schema. Qed.

Theorem C18_repartition_out_type_spec : forall s f,
  forall out, repartition_check s f = Accept out -> exists r, repartition_schema s f r /\ meets r out.
Proof. exact repartition_out_type_spec. Qed.
Print Assumptions C18_repartition_iff_schema.
Print Assumptions C18_repartition_out_type_spec.

Theorem C18_reshard_iff_schema : forall U s n,
  prefix_in_range s ->
  reshard_check U s n <> GoPanic /\
  ((exists out, reshard_check U s n = Accept out) <-> (exists r, reshard_schema U s n r)) /\
  ((~ exists r, reshard_schema U s n r) -> reshard_check U s n = Reject).
Proof. exact reshard_iff_schema. Qed.

Theorem C18_reshard_out_type_spec : forall U s n,
  forall out, reshard_check U s n = Accept out -> exists r, reshard_schema U s n r /\ meets r out.
Proof. exact reshard_out_type_spec. Qed.
Print Assumptions C18_reshard_iff_schema.
Print Assumptions C18_reshard_out_type_spec.

Theorem C18_cogroup_iff_schema : forall U ss,
  Forall prefix_in_range ss ->
  cogroup_check U ss <> GoPanic /\
  ((exists out, cogroup_check U ss = Accept out) <-> (exists r, cogroup_schema U ss r)) /\
  ((~ exists r, cogroup_schema U ss r) -> cogroup_check U ss = Reject).
Proof. exact cogroup_iff_schema. Qed.

Theorem C18_cogroup_out_type_spec : forall U ss,
  forall out, cogroup_check U ss = Accept out -> exists r, cogroup_schema U ss r /\ meets r out.
Proof. exact cogroup_out_type_spec_any. Qed.
Print Assumptions C18_cogroup_iff_schema.
Print Assumptions C18_cogroup_out_type_spec.

Theorem C18_const_iff_schema : forall n cs,
  const_check n cs <> GoPanic /\
  ((exists out, const_check n cs = Accept out) <-> (exists r, const_schema n cs r)) /\
  ((~ exists r, const_schema n cs r) -> const_check n cs = Reject).
Proof. exact const_iff_schema. Qed.

Theorem C18_const_out_type_spec : forall n cs,
  forall out, const_check n cs = Accept out -> exists r, const_schema n cs r /\ meets r out.
Proof. exact const_out_type_spec. Qed.
Print Assumptions C18_const_iff_schema.
Print Assumptions C18_const_out_type_spec.

Theorem C18_readerfunc_iff_schema : forall n f,
  readerfunc_check n f <> GoPanic /\
  ((exists out, readerfunc_check n f = Accept out) <-> (exists r, readerfunc_schema n f r)) /\
  ((~ exists r, readerfunc_schema n f r) -> readerfunc_check n f = Reject).
Proof. exact readerfunc_iff_schema. Qed.

Theorem C18_readerfunc_out_type_spec : forall n f,
  forall out, readerfunc_check n f = Accept out -> exists r, readerfunc_schema n f r /\ meets r out.
Proof. exact readerfunc_out_type_spec. Qed.
Print Assumptions C18_readerfunc_iff_schema.
Print Assumptions C18_readerfunc_out_type_spec.

Theorem C18_writerfunc_iff_schema : forall s f,
  writerfunc_check s f <> GoPanic /\
  ((exists out, writerfunc_check s f = Accept out) <-> (exists r, writerfunc_schema s f r)) /\
  ((~ exists r, writerfunc_schema s f r) -> writerfunc_check s f = Reject).
Proof. exact writerfunc_iff_schema. Qed.

Theorem C18_writerfunc_out_type_spec : forall s f,
  forall out, writerfunc_check s f = Accept out -> exists r, writerfunc_schema s f r /\ meets r out.
Proof. exact writerfunc_out_type_spec. Qed.
Print Assumptions C18_writerfunc_iff_schema.
Print Assumptions C18_writerfunc_out_type_spec.

Theorem C18_scan_iff_schema : forall s,
  scan_check s <> GoPanic /\
  ((exists out, scan_check s = Accept out) <-> (exists r, scan_schema s r)) /\
  ((~ exists r, scan_schema s r) -> scan_check s = Reject).
Proof. exact scan_iff_schema. Qed.

Theorem C18_scan_out_type_spec : forall s,
  forall out, scan_check s = Accept out -> exists r, scan_schema s r /\ meets r out.
Proof. exact scan_out_type_spec. Qed.
Print Assumptions C18_scan_iff_schema.
Print Assumptions C18_scan_out_type_spec.

Theorem C18_fold_any_repairs_iff_schema : forall R U s f,
  variadic_ok R f ->
  fold_check_gen R U s f <> GoPanic /\
  ((exists out, fold_check_gen R U s f = Accept out) <-> (exists r, fold_schema U s f r)) /\
  ((~ exists r, fold_schema U s f r) -> fold_check_gen R U s f = Reject).
Proof. exact fold_iff_schema_any. Qed.

Theorem C18_fold_any_repairs_out_type_spec : forall R U s f,
  variadic_ok R f ->
  forall out, fold_check_gen R U s f = Accept out -> exists r, fold_schema U s f r /\ meets r out.
Proof. exact fold_out_type_spec_any. Qed.
Print Assumptions C18_fold_any_repairs_iff_schema.
Print Assumptions C18_fold_any_repairs_out_type_spec.

Theorem C18_reduce_any_repairs_iff_schema : forall R U s f,
  variadic_ok R f ->
  reduce_check_gen R U s f <> GoPanic /\
  ((exists out, reduce_check_gen R U s f = Accept out) <-> (exists r, reduce_schema U s f r)) /\
  ((~ exists r, reduce_schema U s f r) -> reduce_check_gen R U s f = Reject).
Proof. exact reduce_iff_schema_any. Qed.

Theorem C18_reduce_any_repairs_out_type_spec : forall R U s f,
  variadic_ok R f ->
  forall out, reduce_check_gen R U s f = Accept out -> exists r, reduce_schema U s f r /\ meets r out.
Proof. exact reduce_out_type_spec_any. Qed.
Print Assumptions C18_reduce_any_repairs_iff_schema.
Print Assumptions C18_reduce_any_repairs_out_type_spec.

Theorem C18_repartition_any_repairs_iff_schema : forall R s f,
  variadic_ok R f ->
  repartition_check_gen R s f <> GoPanic /\
  ((exists out, repartition_check_gen R s f = Accept out) <-> (exists r, repartition_schema s f r)) /\
  ((~ exists r, repartition_schema s f r) -> repartition_check_gen R s f = Reject).
Proof. exact repartition_iff_schema_any. Qed.

Theorem C18_repartition_any_repairs_out_type_spec : forall R s f,
  variadic_ok R f ->
  forall out, repartition_check_gen R s f = Accept out -> exists r, repartition_schema s f r /\ meets r out.
Proof. exact repartition_out_type_spec_any. Qed.
Print Assumptions C18_repartition_any_repairs_iff_schema.
Print Assumptions C18_repartition_any_repairs_out_type_spec.

Theorem C18_writerfunc_any_repairs_iff_schema : forall R s f,
  variadic_ok R f ->
  shard_ok R f ->
  writerfunc_check_gen R s f <> GoPanic /\
  ((exists out, writerfunc_check_gen R s f = Accept out) <-> (exists r, writerfunc_schema s f r)) /\
  ((~ exists r, writerfunc_schema s f r) -> writerfunc_check_gen R s f = Reject).
Proof. exact writerfunc_iff_schema_any. Qed.

Theorem C18_writerfunc_any_repairs_out_type_spec : forall R s f,
  variadic_ok R f ->
  shard_ok R f ->
  forall out, writerfunc_check_gen R s f = Accept out -> exists r, writerfunc_schema s f r /\ meets r out.
Proof. exact writerfunc_out_type_spec_any. Qed.
Print Assumptions C18_writerfunc_any_repairs_iff_schema.
Print Assumptions C18_writerfunc_any_repairs_out_type_spec.

Theorem C18_readerfunc_any_repairs_iff_schema : forall R n f,
  variadic_ok R f ->
  shard_ok R f ->
  numout_ok R f ->
  readerfunc_check_gen R n f <> GoPanic /\
  ((exists out, readerfunc_check_gen R n f = Accept out) <-> (exists r, readerfunc_schema n f r)) /\
  ((~ exists r, readerfunc_schema n f r) -> readerfunc_check_gen R n f = Reject).
Proof. exact readerfunc_iff_schema_any. Qed.

Theorem C18_readerfunc_any_repairs_out_type_spec : forall R n f,
  variadic_ok R f ->
  shard_ok R f ->
  numout_ok R f ->
  forall out, readerfunc_check_gen R n f = Accept out -> exists r, readerfunc_schema n f r /\ meets r out.
Proof. exact readerfunc_out_type_spec_any. Qed.
Print Assumptions C18_readerfunc_any_repairs_iff_schema.
Print Assumptions C18_readerfunc_any_repairs_out_type_spec.

(* Cogroup: acceptance characterised without any hypothesis *)
Theorem C18_cogroup_accept_iff_schema : forall U ss,
  (exists out, cogroup_check U ss = Accept out) <-> (exists r, cogroup_schema U ss r).
Proof. exact cogroup_accept_iff_schema. Qed.
Print Assumptions C18_cogroup_accept_iff_schema.

(* FuncValue.Invocation's argument check (func.go:117-142) *)
Theorem C18_invocation_iff_schema : forall U params args,
  invocation_check U params args <> FGoPanic /\
  (invocation_check U params args = FOk <-> invocation_schema U params args) /\
  (~ invocation_schema U params args -> invocation_check U params args = FReject).
Proof. exact invocation_iff_schema. Qed.
Print Assumptions C18_invocation_iff_schema.

(* ---------------- witnesses against the code with one repair missing ------------------ *)

(* without the NumOut() == 2 test ReaderFunc indexes fn.Out.Out(0), Out(1) unguarded: a
   one-result reader panics inside reflect, a three-result reader is accepted. *)
Theorem C18_readerfunc_numout_refuted :
  (exists f, (~ exists r, readerfunc_schema 1 f r) /\ readerfunc_check_gen no_numout_check 1 f = GoPanic) /\
  (exists f out, (~ exists r, readerfunc_schema 1 f r) /\ readerfunc_check_gen no_numout_check 1 f = Accept out).
Proof. exact readerfunc_numout_refuted. Qed.
Print Assumptions C18_readerfunc_numout_refuted.

Theorem C18_readerfunc_fix_rejects :
  readerfunc_check 1 reader_0out = Reject /\
  readerfunc_check 1 reader_1out = Reject /\
  readerfunc_check 1 reader_3out = Reject.
Proof. exact readerfunc_fix_rejects. Qed.

(* without the IsVariadic test the exact-form constructors accept func(..., xs ...e) *)
Theorem C18_fold_variadic_refuted :
  exists s f out, fn_variadic f = true /\ (~ exists r, fold_schema U0 s f r) /\
                  fold_check_gen no_variadic_check U0 s f = Accept out.
Proof. exact fold_variadic_refuted. Qed.
Theorem C18_reduce_variadic_refuted :
  exists s f out, fn_variadic f = true /\ (~ exists r, reduce_schema U0 s f r) /\
                  reduce_check_gen no_variadic_check U0 s f = Accept out.
Proof. exact reduce_variadic_refuted. Qed.
Theorem C18_repartition_variadic_refuted :
  exists s f out, fn_variadic f = true /\ (~ exists r, repartition_schema s f r) /\
                  repartition_check_gen no_variadic_check s f = Accept out.
Proof. exact repartition_variadic_refuted. Qed.
Theorem C18_writerfunc_variadic_refuted :
  exists s f out, fn_variadic f = true /\ (~ exists r, writerfunc_schema s f r) /\
                  writerfunc_check_gen no_variadic_check s f = Accept out.
Proof. exact writerfunc_variadic_refuted. Qed.
Theorem C18_readerfunc_variadic_refuted :
  exists f out, fn_variadic f = true /\ fn_numout f = 2%nat /\
                (~ exists r, readerfunc_schema 1 f r) /\
                readerfunc_check_gen no_variadic_check 1 f = Accept out.
Proof. exact readerfunc_variadic_refuted. Qed.
Print Assumptions C18_fold_variadic_refuted.

(* with the shard parameter tested by Kind() == reflect.Int a defined int type passes *)
Theorem C18_readerfunc_shard_named_refuted :
  exists f out, fn_shard_named f = true /\ fn_variadic f = false /\ fn_numout f = 2%nat /\
                (~ exists r, readerfunc_schema 1 f r) /\
                readerfunc_check_gen shard_by_kind 1 f = Accept out.
Proof. exact readerfunc_shard_named_refuted. Qed.
Theorem C18_writerfunc_shard_named_refuted :
  exists s f out, fn_shard_named f = true /\ fn_variadic f = false /\
                  (~ exists r, writerfunc_schema s f r) /\
                  writerfunc_check_gen shard_by_kind s f = Accept out.
Proof. exact writerfunc_shard_named_refuted. Qed.
Print Assumptions C18_writerfunc_shard_named_refuted.

(* ... and the same witnesses are rejected by the code as it is now *)
Theorem C18_variadic_and_shard_witnesses_now_rejected :
  fold_check U0 (mkS [tint; ints] 1 1) (TFunc [tint] (Some tint) [tint]) = Reject /\
  reduce_check U0 (mkS [tint; ints] 1 1) (TFunc [ints] (Some tint) [ints]) = Reject /\
  repartition_check (mkS [ints] 1 2) (TFunc [tint] (Some tint) [tint]) = Reject /\
  writerfunc_check (mkS [tint] 1 1) (TFunc [tint; tint; TError] (Some tint) [TError]) = Reject /\
  readerfunc_check 1 (TFunc [tint; tint] (Some tint) [tint; TError]) = Reject /\
  readerfunc_check 1 (TFunc [myint; tint; ints] None [tint; TError]) = Reject /\
  writerfunc_check (mkS [tint] 1 1) (TFunc [myint; tint; TError; ints] None [TError]) = Reject.
Proof. exact variadic_and_shard_witnesses_now_rejected. Qed.

(* ---------------- open finding: the property text is false of the faithful model -------- *)

(* Map (likewise Flatmap, Fold, Scan) returns a slice that inherits the input's Prefix();
   it can exceed the number of result columns, and Reshuffle / Reshard / Cogroup then
   panic outside typecheck - which they do for every slice whose prefix is out of range. *)
Theorem C18_map_result_prefix_out_of_range_refuted :
  exists s f out,
    prefix_in_range s /\ map_check U0 s f = Accept out /\ ~ prefix_in_range out /\
    reshuffle_check U0 out = GoPanic /\ reshard_check U0 out 7 = GoPanic /\
    cogroup_check U0 [out] = GoPanic.
Proof. exact map_result_prefix_out_of_range_refuted. Qed.
Theorem C18_scan_result_prefix_out_of_range_refuted :
  exists s out, prefix_in_range s /\ scan_check s = Accept out /\ ~ prefix_in_range out /\
                reshuffle_check U0 out = GoPanic.
Proof. exact scan_result_prefix_out_of_range_refuted. Qed.
Theorem C18_reshuffle_prefix_out_of_range : forall U s,
  ~ prefix_in_range s -> reshuffle_check U s = GoPanic /\ ~ exists r, reshuffle_schema U s r.
Proof. exact reshuffle_prefix_out_of_range. Qed.
Theorem C18_reshard_prefix_out_of_range : forall U s n,
  ~ prefix_in_range s -> reshard_check U s n = GoPanic /\ ~ exists r, reshard_schema U s n r.
Proof. exact reshard_prefix_out_of_range. Qed.
Print Assumptions C18_map_result_prefix_out_of_range_refuted.
Print Assumptions C18_reshuffle_prefix_out_of_range.

(* C13 — Caching is transparent, complete-or-absent, and skips recomputation. *)
From Coq Require Import List ZArith Bool.
Import ListNotations.
Require Import BS.C13.Model BS.C13.Proofs.

(* Cache: either every shard is served from its file or none is *)
Theorem C13_cache_all_or_nothing : forall present,
  (forall s, s < length present -> is_cached KCache present s = true) \/
  (forall s, is_cached KCache present s = false).
Proof. exact cache_all_or_nothing. Qed.
Theorem C13_cache_hit_iff_all_present : forall present s,
  s < length present ->
  (is_cached KCache present s = true <-> forall t, t < length present -> nth t present false = true).
Proof. exact cache_hit_iff_all_present. Qed.
Theorem C13_cachepartial_per_shard : forall present s,
  is_cached KCachePartial present s = nth s present false.
Proof. exact cachepartial_per_shard. Qed.
Print Assumptions C13_cache_hit_iff_all_present.

(* the write-through reader: for every upstream behaviour, every point at which
   the consumer stops reading and every failing file operation, a visible shard
   file holds exactly the complete shard *)
Theorem C13_complete_or_absent : forall f script n delivered st s',
  wt_run f (wt_init f None) script n = (delivered, st, s') ->
  wvisible s' = None \/ (wvisible s' = Some delivered /\ st = WEof).
Proof. exact complete_or_absent. Qed.
Theorem C13_published_is_whole_shard : forall f script n delivered st s',
  wt_run f (wt_init f None) script n = (delivered, st, s') ->
  forall d, wvisible s' = Some d -> d = script_rows script /\ ends_eof script = true.
Proof. exact published_is_whole_shard. Qed.
Print Assumptions C13_published_is_whole_shard.

(* transparency of the write path: what the reader delivers is a prefix of the
   upstream's rows, all of them at EOF *)
Theorem C13_writethrough_delivers : forall f script n s delivered st s',
  wt_run f s script n = (delivered, st, s') ->
  exists rest, script_rows script = delivered ++ rest /\ (st = WEof -> rest = []).
Proof. exact wt_run_delivers. Qed.
Print Assumptions C13_writethrough_delivers.

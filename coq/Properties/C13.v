(* C13 — Caching is transparent, complete-or-absent, and skips recomputation. *)
From Coq Require Import List ZArith Bool.
Import ListNotations.
Require Import BS.C13.Model BS.C13.Proofs.

(* Cache: either every shard is served from its file or none is *)
Theorem C13_cache_all_or_nothing : forall present,
  (forall s, s < length present -> is_cached KCache present s = true) \/
  (forall s, is_cached KCache present s = false).
Proof. exact cache_all_or_nothing. Qed.
Theorem C13_cache_hit_iff_all_present : forall present s,
  s < length present ->
  (is_cached KCache present s = true <-> forall t, t < length present -> nth t present false = true).
Proof. exact cache_hit_iff_all_present. Qed.
Theorem C13_cachepartial_per_shard : forall present s,
  is_cached KCachePartial present s = nth s present false.
Proof. exact cachepartial_per_shard. Qed.
Print Assumptions C13_cache_hit_iff_all_present.

(* the write-through reader: for every upstream behaviour, every point at which
   the consumer stops reading and every failing file operation, a visible shard
   file holds exactly the complete shard *)
Theorem C13_complete_or_absent : forall f script n delivered st s',
  wt_run f (wt_init f None) script n = (delivered, st, s') ->
  wvisible s' = None \/ (wvisible s' = Some delivered /\ st = WEof).
Proof. exact complete_or_absent. Qed.
Theorem C13_published_is_whole_shard : forall f script n delivered st s',
  wt_run f (wt_init f None) script n = (delivered, st, s') ->
  forall d, wvisible s' = Some d -> d = script_rows script /\ ends_eof script = true.
Proof. exact published_is_whole_shard. Qed.
Print Assumptions C13_published_is_whole_shard.

(* transparency of the write path: what the reader delivers is a prefix of the
   upstream's rows, all of them at EOF *)
Theorem C13_writethrough_delivers : forall f script n s delivered st s',
  wt_run f s script n = (delivered, st, s') ->
  exists rest, script_rows script = delivered ++ rest /\ (st = WEof -> rest = []).
Proof. exact wt_run_delivers. Qed.
Print Assumptions C13_writethrough_delivers.

From Coq Require Import ZArith String.
Require Import BS.Gen.C13_params BS.C13.Compile BS.C13.CompileProofs.

(* the generated switches select exactly the write-through reader of C13/Model.v *)
Theorem C13_gen_switches_select_model : forall f script n s,
  wt_run_sw gen_sw f s script n = wt_run f s script n.
Proof. intros. apply wt_run_sw_gen. Qed.

(* SKIPS RECOMPUTATION *)
Theorem C13_cached_shard_skips_upstream : forall fsem up_rows part P cs0 t,
  p_dep P = DNarrow ->
  (In (EUp t) (snd (run fsem up_rows part P cs0)) <-> t < p_n P /\ any_marked cs0 (p_n P) (p_ops P) t = false).
Proof. exact cached_shard_skips_upstream. Qed.
Print Assumptions C13_cached_shard_skips_upstream.

Theorem C13_cachepartial_runs_exactly_uncached : forall fsem up_rows part P cs0 inner outer k cid,
  p_ops P = inner ++ OpCache k cid :: outer -> cids inner = [] -> cids outer = [] ->
  forall t, k = KCachePartial -> p_dep P = DNarrow ->
  (In (EUp t) (snd (run fsem up_rows part P cs0)) <-> t < p_n P /\ cs0 cid t = None).
Proof. exact cachepartial_runs_exactly_uncached. Qed.

Theorem C13_cache_runs_all_or_none : forall fsem up_rows part P cs0 inner outer k cid,
  p_ops P = inner ++ OpCache k cid :: outer -> cids inner = [] -> cids outer = [] ->
  k = KCache -> p_dep P = DNarrow ->
  ((forall t, t < p_n P -> cs0 cid t <> None) /\ (forall t, ~ In (EUp t) (snd (run fsem up_rows part P cs0))))
  \/ ((exists t, t < p_n P /\ cs0 cid t = None) /\ (forall t, t < p_n P -> In (EUp t) (snd (run fsem up_rows part P cs0)))).
Proof. exact cache_runs_all_or_none. Qed.

Theorem C13_cached_shard_skips_functions : forall fsem up_rows part P cs0 s A k cid B id,
  s < p_n P -> p_ops P = A ++ OpCache k cid :: B -> marked cs0 (p_n P) k cid s = true ->
  any_marked cs0 (p_n P) B s = false ->
  (In (EFun id s) (snd (run fsem up_rows part P cs0)) <-> In (OpFun id) B).
Proof. exact cached_shard_skips_functions. Qed.

Theorem C13_cached_shards_skip_upstream_shuffle : forall fsem up_rows part P cs0 t,
  p_dep P = DShuffle ->
  (In (EUp t) (snd (run fsem up_rows part P cs0))
   <-> t < p_nup P /\ exists s, s < p_n P /\ any_marked cs0 (p_n P) (p_ops P) s = false).
Proof. exact cached_shards_skip_upstream_shuffle. Qed.

(* TRANSPARENT *)
Theorem C13_cache_transparent : forall fsem up_rows part P cs0,
  consistent fsem up_rows part P cs0 ->
  forall s, s < p_n P ->
  nth s (fst (fst (run fsem up_rows part P cs0))) [] = ref_shard fsem up_rows part P s.
Proof. exact cache_transparent. Qed.
Print Assumptions C13_cache_transparent.

(* COMPLETE FILES AFTER A RUN *)
Theorem C13_cache_files_after_run : forall fsem up_rows part P cs0,
  consistent fsem up_rows part P cs0 ->
  forall inner k cid outer s,
  NoDup (cids (p_ops P)) -> p_ops P = inner ++ OpCache k cid :: outer -> s < p_n P ->
  any_marked cs0 (p_n P) outer s = false ->
  snd (fst (run fsem up_rows part P cs0)) cid s = Some (ref_ops fsem inner s (dep_input up_rows part P s)).
Proof. exact cache_files_after_run. Qed.
Print Assumptions C13_cache_files_after_run.

(* with faults and early stops: absent or complete, for the reader selected by the generated switches *)
Theorem C13_write_stage_complete_or_absent : forall f r n delivered st w,
  wt_run_sw gen_sw f (wt_init f None) (batches r) n = (delivered, st, w) ->
  wvisible w = None \/ (wvisible w = Some r /\ st = WEof).
Proof. exact write_stage_complete_or_absent. Qed.

(* C01 — Running a slice program yields exactly the rows its operators prescribe.
   Restated theorems about the reference semantics (coq/C01/Sem.v) against which
   every observed run of the real executors is judged (coq/C01/Corr.v). *)
From Coq Require Import List ZArith Permutation.
Import ListNotations.
Require Import BS.C01.Sem BS.C01.Proofs BS.Gen.C01_params.
Local Open Scope Z_scope.

(* tie: slice.go constShard, translated from the Go AST on every run, is the
   function the reference semantics uses to split a Const *)
Theorem C01_gen_const_shard : forall n ns s,
  0 <= n -> 0 < ns -> const_shard_go n ns s = const_shard n ns s.
Proof. exact const_shard_go_eq. Qed.
Print Assumptions C01_gen_const_shard.

(* Const: concatenating the shards gives back exactly the rows, in order, for
   every shard count >= 1: nothing lost, duplicated or invented *)
Theorem C01_const_shards_tile : forall n ts cols,
  (0 < n)%nat -> concat (vshards (const_value n ts cols)) = const_rows cols.
Proof. exact const_shards_tile. Qed.
Print Assumptions C01_const_shards_tile.

(* any redistribution (Reshuffle, Reshard, Repartition, and the shuffles inside
   Reduce, Fold, Cogroup) delivers a permutation of its input rows, for every
   partition function with values below the shard count and every shard count *)
Theorem C01_shuffle_permutation : forall (f : list (list Z) -> nat) n shards,
  (forall r, In r (concat shards) -> (f r < n)%nat) ->
  Permutation (concat (shuffle f n shards)) (concat shards).
Proof. exact shuffle_permutation. Qed.
Print Assumptions C01_shuffle_permutation.

Theorem C01_shuffle_exact : forall (f : list (list Z) -> nat) n shards p r,
  (p < n)%nat -> (In r (nth p (shuffle f n shards) []) <-> In r (concat shards) /\ f r = p).
Proof. exact shuffle_exact. Qed.

Theorem C01_keyed_shuffle_permutation : forall ts pre n shards,
  (0 < n)%nat -> Permutation (concat (shuffle (part ts pre n) n shards)) (concat shards).
Proof. exact keyed_shuffle_permutation. Qed.

(* rows with equal key columns end in the same shard *)
Theorem C01_keyed_shuffle_colocated : forall ts pre n shards p q r1 r2,
  (p < n)%nat -> (q < n)%nat ->
  In r1 (nth p (shuffle (part ts pre n) n shards) []) ->
  In r2 (nth q (shuffle (part ts pre n) n shards) []) ->
  firstn pre r1 = firstn pre r2 -> p = q.
Proof. exact keyed_shuffle_colocated. Qed.
Print Assumptions C01_keyed_shuffle_colocated.

(* the row-wise operators act shard by shard: their result over the whole slice
   does not depend on how the rows are sharded *)
Theorem C01_map_commutes : forall (A B : Type) (f : A -> B) shards,
  concat (map (map f) shards) = map f (concat shards).
Proof. exact @map_commutes. Qed.
Theorem C01_filter_commutes : forall (A : Type) (f : A -> bool) shards,
  concat (map (filter f) shards) = filter f (concat shards).
Proof. exact @filter_commutes. Qed.
Theorem C01_flatmap_commutes : forall (A B : Type) (f : A -> list B) shards,
  concat (map (flat_map f) shards) = flat_map f (concat shards).
Proof. exact @flatmap_commutes. Qed.
Print Assumptions C01_flatmap_commutes.

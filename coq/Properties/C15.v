(* C15 — Task stores are commit-atomic; remote reads resume without gaps or repeats.
   Only restated theorems, each closed by [exact], with Print Assumptions. *)
From Coq Require Import String.
From Coq Require Import List ZArith Bool.
Import ListNotations.
Require Import BS.C15.Model BS.C15.Lists BS.C15.Corr BS.C15.Proofs BS.C15.RetryChecker BS.C15.JudgeProofs
               BS.Gen.C15_params.

(* ------------------------------------------------------------------ *)
(* tie to the source (coq/Gen/C15_params.v is regenerated from /repo)   *)
(* ------------------------------------------------------------------ *)
(* var retryPolicy = retry.MaxRetries(retry.Backoff(...), 5) *)
Theorem C15_gen_retry_ctor : retry_policy_ctor = "retry.MaxRetries"%string.
Proof. reflexivity. Qed.
Theorem C15_gen_retry_budget :
  retry_policy_max_retries = 5%Z /\ retry_policy_max_retries = Z.of_nat retry_budget.
Proof. split; reflexivity. Qed.
(* the inline trailer widths of fileWriter.Commit, fileStore.Open, fileStore.Stat *)
Theorem C15_gen_trailer_width :
  commit_literals = [Z.of_nat trailer_len] /\ open_literals = [Z.of_nat trailer_len]
  /\ stat_literals = [Z.of_nat trailer_len; Z.of_nat trailer_len] /\ trailer_len = 8.
Proof. repeat split; reflexivity. Qed.
(* the two control-flow facts the model keeps behind switches: if /repo is repaired
   these obligations break and the switches of Model.v must be set to false *)
Theorem C15_gen_commit_swallow :
  commit_trailer_write_failure_returns_nil = commit_swallows_trailer_error.
Proof. reflexivity. Qed.
Theorem C15_gen_open_seek_swallow :
  open_seek_failure_falls_through = open_swallows_seek_error.
Proof. reflexivity. Qed.

(* both real openers (evalOpenerAt behind bigmachineExecutor.Reader, and
   machineTaskPartition behind newMachineReader) put the offset retryReader gives
   them into the Worker.Read request; the model's opener [attempt] opens at r_bytes *)
Theorem C15_gen_openers_pass_offset :
  eval_opener_passes_offset = true /\ machine_opener_passes_offset = true.
Proof. split; reflexivity. Qed.

(* ------------------------------------------------------------------ *)
(* stores                                                              *)
(* ------------------------------------------------------------------ *)

(* No run without a Commit, under any faults, on either store, ever reveals data. *)
Theorem C15_invisible_before_commit : forall c ops cl cl' rs,
  store_wf (cstore cl) -> (forall p, absent (cstore cl) p) ->
  forallb (fun o => negb (is_commit o)) ops = true ->
  run c cl ops = (cl', rs) ->
  (forall p, absent (cstore cl') p) /\ forallb (fun r => negb (reveals r)) rs = true.
Proof. exact invisible_before_commit. Qed.
Print Assumptions C15_invisible_before_commit.

(* Commit = ok -> the entry holds exactly the written bytes and the count.
   Guard: the code is repaired (swallow_trailer c = false) or the trailer write is
   not the failing operation. *)
Theorem C15_commit_ok_visible : forall c cl n cl' wr,
  store_wf (cstore cl) -> ccur cl = Some wr ->
  (swallow_trailer c = false \/ ~ trailer_write_fails (cstore cl)) ->
  step c cl (OCommit n) = (cl', ROk) ->
  committed (cstore cl') (wpart wr) (wdata wr) n /\ ccur cl' = None.
Proof. exact commit_ok_visible. Qed.
Print Assumptions C15_commit_ok_visible.

(* ... the writer holding exactly the bytes whose Write returned ok *)
Theorem C15_write_accumulates : forall c cl d cl' r wr,
  ccur cl = Some wr -> step c cl (OWrite d) = (cl', r) ->
  (r = ROk /\ ccur cl' = Some (mkW (wpart wr) (wdata wr ++ d)))
  \/ (r = RErr EInjected /\ ccur cl' = Some wr).
Proof. exact write_accumulates. Qed.
Theorem C15_create_ok_fresh : forall c cl p cl',
  step c cl (OCreate p) = (cl', ROk) -> ccur cl' = Some (mkW p []).
Proof. exact create_ok_fresh. Qed.

(* Open off yields exactly skipn off data (no faults) ... *)
Theorem C15_committed_read_exact : forall c cl p off b d n cl' r,
  committed (cstore cl) p d n -> 1 <= b -> store_quiet (cstore cl) ->
  match cstore cl with SMem _ => off <= length d | SFile _ => True end ->
  step c cl (OOpen p off b) = (cl', r) ->
  r = RRead (skipn off d) SEOF SNil /\ store_quiet (cstore cl').
Proof. exact committed_read_exact. Qed.
Print Assumptions C15_committed_read_exact.

(* ... and under any faults never anything but an initial part of it, complete at EOF.
   Guard: the code is repaired or the Seek is not the failing operation. *)
Theorem C15_committed_read_sound : forall c cl p off b d n cl' r,
  committed (cstore cl) p d n -> 1 <= b ->
  (swallow_seek c = false \/ ~ seek_fails (cstore cl)) ->
  step c cl (OOpen p off b) = (cl', r) ->
  match r with
  | RRead got st _ =>
      (st = SEOF \/ st = SErr EInjected)
      /\ is_prefix_of got (skipn off d) /\ (st = SEOF -> got = skipn off d)
  | RErr e => e = EInjected \/ (e = EInvalid /\ length d < off)
  | _ => False
  end.
Proof. exact committed_read_sound. Qed.
Print Assumptions C15_committed_read_sound.

(* Stat = (len data, count) *)
Theorem C15_committed_stat : forall c cl p d n cl' r,
  committed (cstore cl) p d n -> int64_range n ->
  step c cl (OStat p) = (cl', r) ->
  (r = RStat (Z.of_nat (length d)) n \/ r = RErr EInjected)
  /\ (store_quiet (cstore cl) -> r = RStat (Z.of_nat (length d)) n /\ store_quiet (cstore cl')).
Proof. exact committed_stat. Qed.
Print Assumptions C15_committed_stat.

(* ... until Discard: every step keeps the entry, except a Discard of it or a Commit
   onto it that returned ok *)
Theorem C15_committed_persists : forall c cl o cl' r p d n,
  store_wf (cstore cl) -> committed (cstore cl) p d n ->
  step c cl o = (cl', r) ->
  (touches (ccur cl) o p -> r <> ROk) ->
  committed (cstore cl') p d n.
Proof. exact committed_persists. Qed.
Theorem C15_discard_ok_absent : forall c cl p cl',
  store_wf (cstore cl) -> step c cl (ODiscard p) = (cl', ROk) -> absent (cstore cl') p.
Proof. exact discard_ok_absent. Qed.
Print Assumptions C15_committed_persists.

(* data not persisted -> Commit returns an error (same guard) *)
Theorem C15_commit_reports : forall c cl n cl' r wr,
  store_wf (cstore cl) -> ccur cl = Some wr ->
  (swallow_trailer c = false \/ ~ trailer_write_fails (cstore cl)) ->
  step c cl (OCommit n) = (cl', r) ->
  ~ committed (cstore cl') (wpart wr) (wdata wr) n ->
  exists e, r = RErr e.
Proof. exact commit_reports. Qed.
Print Assumptions C15_commit_reports.

(* the repaired code: Commit is all-or-nothing under any faults *)
Theorem C15_commit_fixed_all_or_nothing : forall cl n cl' r wr,
  store_wf (cstore cl) -> ccur cl = Some wr ->
  step fixed_cfg cl (OCommit n) = (cl', r) ->
  (r = ROk /\ committed (cstore cl') (wpart wr) (wdata wr) n)
  \/ ((exists e, r = RErr e)
      /\ (forall d k, committed (cstore cl) (wpart wr) d k -> committed (cstore cl') (wpart wr) d k)
      /\ (absent (cstore cl) (wpart wr) -> absent (cstore cl') (wpart wr))).
Proof. exact commit_fixed_all_or_nothing. Qed.

(* The two defects were repaired in /repo (fix: commits); the code's behaviour
   is now the repaired configuration.  The statements without the guards are
   false of the defective behaviour the code had before: *)
Theorem C15_code_cfg_is_fixed : code_cfg = fixed_cfg.
Proof. reflexivity. Qed.
Theorem C15_commit_swallow_refuted :
  exists cl n cl' wr,
    ccur cl = Some wr /\ step defective_cfg cl (OCommit n) = (cl', ROk)
    /\ absent (cstore cl') (wpart wr) /\ temps_of (cstore cl') = temps_of (cstore cl).
Proof. exact commit_swallow_refuted. Qed.
Theorem C15_open_seek_swallow_refuted :
  exists cl p off b d n cl' got,
    committed (cstore cl) p d n
    /\ step defective_cfg cl (OOpen p off b) = (cl', RRead got SEOF SNil)
    /\ got <> skipn off d.
Proof. exact open_seek_swallow_refuted. Qed.
Print Assumptions C15_commit_swallow_refuted.

(* The whole decidable store judge of Corr.v (nothing visible before a commit that
   returned ok; then exactly the committed bytes from any offset and the count; a
   commit that returned ok is visible; errors only where a fault was injected ...)
   accepts every run of the repaired model: all op sequences (read buffers >= 1,
   counts in int64), both stores, every fault oracle. *)
Theorem C15_store_judge_on_fixed_model : forall k orc ops,
  Forall op_ok ops ->
  judge_run judge_init ops (observe fixed_cfg (client_init k orc) ops) = true.
Proof. exact store_judge_on_fixed_model. Qed.
Print Assumptions C15_store_judge_on_fixed_model.

(* ... and rejects runs of the defective one: each defect has a witness history *)
Theorem C15_store_judge_refuted_commit_swallow :
  exists orc ops, Forall op_ok ops
    /\ judge_run judge_init ops (observe defective_cfg (client_init KFile orc) ops) = false
    /\ judge_run judge_init ops (observe (mkCfg false true) (client_init KFile orc) ops) = true.
Proof.
  exists [false; false; true], [OCreate 0; OWrite [1; 2]%Z; OCommit 3; OStat 0].
  split; [|split; vm_compute; reflexivity].
  repeat (apply Forall_cons; [first [exact I | cbv; split; [discriminate | reflexivity]]|]). apply Forall_nil.
Qed.
Theorem C15_store_judge_refuted_seek_swallow :
  exists orc ops, Forall op_ok ops
    /\ judge_run judge_init ops (observe defective_cfg (client_init KFile orc) ops) = false
    /\ judge_run judge_init ops (observe (mkCfg true false) (client_init KFile orc) ops) = true.
Proof.
  exists [false; false; false; false; false; false; true],
         [OCreate 0; OWrite [1; 2; 3; 4]%Z; OCommit 3; OOpen 0 2 4].
  split; [|split; vm_compute; reflexivity].
  apply Forall_cons; [exact I|]. apply Forall_cons; [exact I|].
  apply Forall_cons; [cbv; split; [discriminate | reflexivity]|].
  apply Forall_cons; [cbn; auto with arith|]. apply Forall_nil.
Qed.

(* the record count survives its 8-byte little-endian trailer *)
Theorem C15_trailer_roundtrip : forall c, int64_range c -> le64_count (le64 c) = c.
Proof. exact le64_count_le64. Qed.

(* ------------------------------------------------------------------ *)
(* retryReader                                                         *)
(* ------------------------------------------------------------------ *)

(* for ALL streams, ALL scripts of backing-reader outcomes, ALL read sizes *)
Theorem C15_retry_exact : forall stream eager script sizes res tr,
  rr_session stream eager script sizes = (res, tr) ->
  let del := delivered res in
  del = firstn (length del) stream
  /\ (In SEOF (map snd res) -> del = stream).
Proof. exact retry_exact. Qed.
Print Assumptions C15_retry_exact.

Theorem C15_retry_no_repeat_no_gap : forall stream eager script sizes res tr i,
  rr_session stream eager script sizes = (res, tr) ->
  i < length (delivered res) ->
  nth i (delivered res) 0%Z = nth i stream 0%Z.
Proof. exact retry_no_repeat_no_gap. Qed.

Theorem C15_retry_chunks_consecutive : forall stream eager script sizes res tr k,
  rr_session stream eager script sizes = (res, tr) ->
  k < length res ->
  fst (nth k res ([], SNil)) =
  firstn (length (fst (nth k res ([], SNil)))) (skipn (length (delivered (firstn k res))) stream).
Proof. exact retry_chunks_consecutive. Qed.

(* budget+1 consecutive failures -> the too-many-tries error, nothing delivered, bytes kept *)
Theorem C15_retry_budget_exhausted : forall fuel stream eager sc r m tr,
  r_err r = SNil -> r_retries r <= retry_budget ->
  retry_budget + 1 <= r_retries r + fail_prefix sc ->
  retry_budget + 1 - r_retries r <= fuel ->
  exists sc' r' tr',
    rr_read fuel stream eager sc r m tr = (sc', r', [], SErr ETooMany, tr')
    /\ r_err r' = SErr ETooMany /\ r_bytes r' = r_bytes r.
Proof. exact rr_read_exhaust. Qed.

(* an error only after exactly that many consecutive failures *)
Theorem C15_retry_error_only_exhausted : forall fuel stream eager sc r m tr sc' r' chunk e tr',
  r_err r = SNil -> r_retries r <= retry_budget ->
  rr_read fuel stream eager sc r m tr = (sc', r', chunk, SErr e, tr') ->
  e = ETooMany /\ chunk = [] /\ r_bytes r' = r_bytes r
  /\ exists pre, sc = pre ++ sc' /\ forallb is_fail pre = true
                 /\ length pre + r_retries r = S retry_budget.
Proof. exact rr_read_error_only_exhausted. Qed.

Theorem C15_retry_success_resets : forall fuel stream eager sc r m tr sc' r' chunk st tr',
  r_err r = SNil ->
  rr_read fuel stream eager sc r m tr = (sc', r', chunk, st, tr') ->
  st = SNil \/ st = SEOF -> r_retries r' = 0 /\ r_err r' = st.
Proof. exact rr_read_resets. Qed.
Print Assumptions C15_retry_budget_exhausted.

(* the whole decidable judge of Corr.v (prefix, EOF-complete, budget respected,
   error iff exhausted) accepts every session of the model *)
Theorem C15_retry_judge_on_model : forall stream eager script sizes res tr,
  rr_session stream eager script sizes = (res, tr) ->
  retry_ok stream res tr = true.
Proof. exact retry_judge_on_model. Qed.
Print Assumptions C15_retry_judge_on_model.

(* ------------------------------------------------------------------ *)
(* non-vacuity                                                         *)
(* ------------------------------------------------------------------ *)
(* a 7-byte stream read with 3-byte buffers through: open failure, read failure
   after 2 bytes (dropped, not counted), a short read, a read failure *)
Example C15_retry_example :
  rr_session [1; 2; 3; 4; 5; 6; 7]%Z false
             [OOpenFail; OFailAfter 2; ODeliver 1; OFailAfter 0] [3; 3; 3; 3; 3]
  = ([([1], SNil); ([2; 3; 4], SNil); ([5; 6; 7], SNil); ([], SEOF); ([], SEOF)]%Z,
     [EvOpen 0 false; EvOpen 0 true; EvRead 2 (SErr EInjected); EvClose;
      EvOpen 0 true; EvRead 1 SNil; EvRead 0 (SErr EInjected); EvClose;
      EvOpen 1 true; EvRead 3 SNil; EvRead 3 SNil; EvRead 0 SEOF; EvClose]).
Proof. vm_compute. reflexivity. Qed.

(* six consecutive failures exhaust the budget of five retries *)
Example C15_retry_exhaust_example :
  fst (rr_session [1; 2; 3]%Z false
         [OOpenFail; OFailAfter 1; OOpenFail; OFailAfter 0; OOpenFail; OOpenFail] [2; 2])
  = [([], SErr ETooMany); ([], SErr ETooMany)].
Proof. vm_compute. reflexivity. Qed.

(* a life cycle on the file store without faults *)
Example C15_store_example :
  snd (run code_cfg (client_init KFile [])
         [OOpen 0 0 2; OCreate 0; OWrite [1; 2; 3]%Z; OOpen 0 0 2; OWrite [4; 5]%Z; OCommit 9;
          OOpen 0 1 2; OStat 0; ODiscard 0; OStat 0])
  = [RErr ENotExist; ROk; ROk; RErr ENotExist; ROk; ROk;
     RRead [2; 3; 4; 5]%Z SEOF SNil; RStat 5 9; ROk; RErr ENotExist].
Proof. vm_compute. reflexivity. Qed.

(* ... and the same on the memory store *)
Example C15_store_example_mem :
  snd (run code_cfg (client_init KMem [])
         [OCreate 0; OWrite [1; 2; 3]%Z; OStat 0; OCommit 4; OOpen 0 2 1; OStat 0; ODiscard 0; OOpen 0 0 1])
  = [ROk; ROk; RErr ENotExist; ROk; RRead [3]%Z SEOF SNil; RStat 3 4; ROk; RErr ENotExist].
Proof. vm_compute. reflexivity. Qed.

(* the two findings as the judge sees them; with the repaired model both are accepted *)
Example C15_judge_flags_commit_swallow :
  let ops := [OCreate 0; OWrite [1; 2]%Z; OCommit 3; OStat 0] in
  let obs c := map (fun r => mkSO r false) (snd (run c (client_init KFile [false; false; true]) ops)) in
  judge_run judge_init ops (obs defective_cfg) = false /\ judge_run judge_init ops (obs fixed_cfg) = true.
Proof. vm_compute. split; reflexivity. Qed.

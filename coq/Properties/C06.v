(* C06 — User errors and panics surface as errors from Run, on every executor.
   Theorems about the failure-classification model (coq/C06/Model.v); the
   evaluator facts it rests on (fatal_reported, lost_limit, lost_resubmitted)
   are theorems of C03 over the full evaluator model. *)
From Coq Require Import List ZArith Bool.
Import ListNotations.
Require Import BS.Gen.C03_params BS.C06.Model BS.C06.Proofs.
Local Open Scope Z_scope.

Theorem C06_gen_max_consecutive_lost : max_consecutive_lost = 5.
Proof. reflexivity. Qed.

Theorem C06_persistent_failure_is_error : forall s m,
  fst (run_task s m persistent) = RunErr /\
  (snd (run_task s m persistent) <= Z.to_nat max_consecutive_lost)%nat.
Proof. exact persistent_failure_is_error. Qed.
Print Assumptions C06_persistent_failure_is_error.

Theorem C06_never_ok_while_failing : forall s m fails,
  (forall k, fails k = true) -> fst (run_task s m fails) = RunErr.
Proof. exact never_ok_while_failing. Qed.

Theorem C06_persistent_temporary_bounded : forall s m,
  surfaces s m = SevTemporary -> run_task s m persistent = (RunErr, Z.to_nat max_consecutive_lost).
Proof. exact persistent_temporary_bounded. Qed.

Theorem C06_transient_recovers : forall s m,
  surfaces s m = SevTemporary -> run_task s m one_shot = (RunOk, 2%nat).
Proof. exact transient_recovers. Qed.

Theorem C06_temporary_then_success : forall s m (n : nat),
  surfaces s m = SevTemporary -> (Z.of_nat n < max_consecutive_lost) ->
  run_task s m (fun k => Nat.ltb k n) = (RunOk, S n).
Proof. exact temporary_then_success. Qed.
Print Assumptions C06_temporary_then_success.

Theorem C06_message_preserved : forall s m,
  (m = MPanic \/ ((s = SReader \/ s = SWriter) /\ (m = MError \/ m = MTemp))) -> msg_carried s m = true.
Proof. exact message_preserved. Qed.
Print Assumptions C06_message_preserved.

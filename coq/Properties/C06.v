(* C06 — User errors and panics surface as errors from Run, on every executor.
   Theorems about the failure-classification model (coq/C06/Model.v); the
   evaluator facts it rests on (fatal_reported, lost_limit, lost_resubmitted)
   are theorems of C03 over the full evaluator model. *)
From Coq Require Import List ZArith Bool.
Import ListNotations.
Require Import BS.Gen.C03_params BS.C06.Model BS.C06.Proofs.
Local Open Scope Z_scope.

Theorem C06_gen_max_consecutive_lost : max_consecutive_lost = 5.
Proof. reflexivity. Qed.

Theorem C06_persistent_failure_is_error : forall s m,
  fst (run_task s m persistent) = RunErr /\
  (snd (run_task s m persistent) <= Z.to_nat max_consecutive_lost)%nat.
Proof. exact persistent_failure_is_error. Qed.
Print Assumptions C06_persistent_failure_is_error.

Theorem C06_never_ok_while_failing : forall s m fails,
  (forall k, fails k = true) -> fst (run_task s m fails) = RunErr.
Proof. exact never_ok_while_failing. Qed.

Theorem C06_persistent_temporary_bounded : forall s m,
  surfaces s m = SevTemporary -> run_task s m persistent = (RunErr, Z.to_nat max_consecutive_lost).
Proof. exact persistent_temporary_bounded. Qed.

Theorem C06_transient_recovers : forall s m,
  surfaces s m = SevTemporary -> run_task s m one_shot = (RunOk, 2%nat).
Proof. exact transient_recovers. Qed.

Theorem C06_temporary_then_success : forall s m (n : nat),
  surfaces s m = SevTemporary -> (Z.of_nat n < max_consecutive_lost) ->
  run_task s m (fun k => Nat.ltb k n) = (RunOk, S n).
Proof. exact temporary_then_success. Qed.
Print Assumptions C06_temporary_then_success.

Theorem C06_message_preserved : forall s m,
  (m = MPanic \/ ((s = SReader \/ s = SWriter) /\ m = MError)) -> msg_carried s m = true.
Proof. exact message_preserved. Qed.
Print Assumptions C06_message_preserved.

From Coq Require Import String.
Require Import BS.Gen.C06_params BS.C06.Sites BS.C06.SitesProofs.

(* ---- the failure-classification chain per call site x mode x executor (C06/Sites.v),
   driven by the tables goparams reads from the source (Gen/C06_params.v; the C06_gen_* pins
   are in C06/SitesProofs.v).  Two generated switches select between the former and the
   current source: worker_downgrades_temporary (reviseSeverity, da9420f) and
   write_combiner_recovers (writeCombiner's merge goroutine, 72da798). ---- *)

Theorem C06_gen_switches_current_source :
  worker_downgrades_temporary = true /\ write_combiner_recovers = true.
Proof. exact C06_gen_switches_current. Qed.

(* THE CURRENT SOURCE: unconditional *)
Theorem C06_sites_persistent_is_error_current : forall c m x comb,
  applicable c x comb = true -> expressible c m = true ->
  exists b, surface c m x comb persistent =
            (RErr b, if retried c m then Z.to_nat max_consecutive_lost else 1%nat).
Proof. exact sites_persistent_is_error_current. Qed.
Print Assumptions C06_sites_persistent_is_error_current.

Theorem C06_sites_no_crash_current : forall c m x comb fails,
  applicable c x comb = true -> expressible c m = true ->
  is_bad (fst (surface c m x comb fails)) = false.
Proof. exact sites_no_crash_current. Qed.
Print Assumptions C06_sites_no_crash_current.

Theorem C06_sites_message_preserved_current : forall c m x comb,
  applicable c x comb = true ->
  (m = MPanic \/ ((c = CReader \/ c = CWriter) /\ m = MError)) ->
  surface c m x comb persistent = (RErr true, 1%nat).
Proof. exact sites_message_preserved_current. Qed.
Print Assumptions C06_sites_message_preserved_current.

Theorem C06_sites_transient_recovers : forall c m x comb,
  applicable c x comb = true -> expressible c m = true -> retried c m = true ->
  surface c m x comb one_shot = (ROk, 2%nat).
Proof. exact sites_transient_recovers. Qed.

(* FOR EITHER VALUE OF THE SWITCHES, with the guard each switch removes *)
Theorem C06_sites_persistent_is_error_with : forall dt wr c m x comb,
  applicable c x comb = true -> expressible c m = true ->
  known_unbounded dt c m x = false -> known_crash wr c = false ->
  exists b, surface_with dt wr c m x comb persistent =
            (RErr b, if retried c m then Z.to_nat max_consecutive_lost else 1%nat).
Proof. exact sites_persistent_is_error_with. Qed.

Theorem C06_sites_message_preserved : forall dt wr c m x comb,
  applicable c x comb = true -> known_crash wr c = false ->
  (m = MPanic \/ ((c = CReader \/ c = CWriter) /\ m = MError)) ->
  surface_with dt wr c m x comb persistent = (RErr true, 1%nat).
Proof. exact sites_message_preserved. Qed.

Theorem C06_sites_no_crash_with : forall dt wr c m x comb fails,
  applicable c x comb = true -> expressible c m = true -> known_crash wr c = false ->
  is_bad (fst (surface_with dt wr c m x comb fails)) = false.
Proof. exact sites_no_crash_with. Qed.

Theorem C06_sites_temporary_then_success : forall dt wr c m x comb (n : nat),
  applicable c x comb = true -> expressible c m = true -> retried c m = true ->
  (Z.of_nat n < max_consecutive_lost) ->
  surface_with dt wr c m x comb (fun k => Nat.ltb k n) = (ROk, S n).
Proof. exact sites_temporary_then_success. Qed.

(* THE FORMER SOURCE, as witnesses: without the downgrade RetryCall never returns, for every
   patience; without the recover the commit-time merge kills the process *)
Theorem C06_sites_temporary_unbounded_refuted : forall wr c m x comb,
  applicable c x comb = true -> known_unbounded false c m x = true ->
  (forall fuel k, bm_call false wr fuel c m x comb persistent k = (TRhang, (fuel + k)%nat))
  /\ fst (surface_with false wr c m x comb persistent) = RHang.
Proof. exact sites_temporary_unbounded_refuted. Qed.

Theorem C06_sites_commit_merge_crash_refuted :
  exists c m x comb, applicable c x comb = true /\ expressible c m = true
    /\ (forall dt, fst (surface_with dt false c m x comb persistent) = RCrash).
Proof. exact sites_commit_merge_crash_refuted. Qed.

(* agreement with the coarse chain above *)
Theorem C06_sites_refine_model : forall dt wr c m x comb,
  applicable c x comb = true -> expressible c m = true ->
  known_unbounded dt c m x = false -> known_crash wr c = false ->
  fst (run_task (coarse c) m persistent) = RunErr
  /\ (exists b, fst (surface_with dt wr c m x comb persistent) = RErr b)
  /\ snd (surface_with dt wr c m x comb persistent) = snd (run_task (coarse c) m persistent).
Proof. exact sites_refine_model. Qed.
Print Assumptions C06_sites_refine_model.

Theorem C06_sites_severity_agrees : forall c m,
  expressible c m = true ->
  (retried c m = true <-> surfaces (coarse c) m = SevTemporary).
Proof. exact sites_severity_agrees. Qed.

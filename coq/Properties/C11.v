(* C11 — Frame views are transparent and never touch rows outside the view.
   Only restated theorems, each closed by [exact], with Print Assumptions. *)
From Coq Require Import List ZArith Bool Permutation.
Import ListNotations.
Require Import BS.C11.Model BS.C11.Proofs BS.Gen.C11_params.

(* tie to the source: the inline thresholds of (Frame).grow are the ones modelled *)
Theorem C11_gen_grow_literals : grow_literals = [0; 0; 1024; 4]%Z.
Proof. reflexivity. Qed.

(* Swap touches exactly rows i and j of the view ... *)
Theorem C11_swap_cells : forall h f i j a c k,
  wf h f -> (i < flen f)%nat -> (j < flen f)%nat ->
  cell (swap h f i j) a c k =
  if Nat.eqb a (fa f) && (c <? length (get_alloc h (fa f)))%nat
  then (if Nat.eqb k (foff f + j) then cell h a c (foff f + i)
        else if Nat.eqb k (foff f + i) then cell h a c (foff f + j) else cell h a c k)
  else cell h a c k.
Proof. exact swap_cells. Qed.
Print Assumptions C11_swap_cells.

(* ... and nothing outside the view, in any allocation *)
Theorem C11_swap_frame_condition : forall h f i j a c k,
  wf h f -> (i < flen f)%nat -> (j < flen f)%nat -> ~ inview f a k ->
  cell (swap h f i j) a c k = cell h a c k.
Proof. exact swap_frame_condition. Qed.
Print Assumptions C11_swap_frame_condition.

Theorem C11_zero_inside : forall h f c k,
  wf h f -> (k < flen f)%nat -> cell (zero h f) (fa f) c (foff f + k) = 0%Z.
Proof. exact zero_inside. Qed.
Theorem C11_zero_frame_condition : forall h f a c k,
  wf h f -> ~ inview f a k -> cell (zero h f) a c k = cell h a c k.
Proof. exact zero_frame_condition. Qed.
Print Assumptions C11_zero_frame_condition.

Theorem C11_copy_inside : forall h d s c k,
  wf h d -> wf h s -> compatible h d s -> (c < length (get_alloc h (fa d)))%nat ->
  (k < Nat.min (flen d) (flen s))%nat ->
  cell (fst (copy h d s)) (fa d) c (foff d + k) = cell h (fa s) c (foff s + k).
Proof. exact copy_inside. Qed.
Theorem C11_copy_frame_condition : forall h d s a c k,
  wf h d -> wf h s -> compatible h d s -> ~ inview d a k ->
  cell (fst (copy h d s)) a c k = cell h a c k.
Proof. exact copy_frame_condition. Qed.
Theorem C11_copy_count : forall h d s,
  get_alloc h (fa d) <> [] -> snd (copy h d s) = Nat.min (flen d) (flen s).
Proof. exact copy_count. Qed.
Print Assumptions C11_copy_frame_condition.

Theorem C11_decode_cells : forall h f c0 vals a c k,
  wf h f -> (c0 < length (get_alloc h (fa f)))%nat -> length vals = flen f ->
  cell (decode h f c0 vals) a c k =
  if Nat.eqb a (fa f) && Nat.eqb c c0 && (foff f <=? k)%nat && (k <? foff f + flen f)%nat
  then nth (k - foff f) vals 0%Z else cell h a c k.
Proof. exact decode_cells. Qed.
Theorem C11_decode_frame_condition : forall h f c0 vals a c k,
  wf h f -> (c0 < length (get_alloc h (fa f)))%nat -> length vals = flen f -> ~ inview f a k ->
  cell (decode h f c0 vals) a c k = cell h a c k.
Proof. exact decode_frame_condition. Qed.
Print Assumptions C11_decode_frame_condition.

(* reading, encoding and comparing see exactly the view's rows *)
Theorem C11_index_view : forall h f c i,
  wf h f -> (c < length (get_alloc h (fa f)))%nat -> (i < flen f)%nat ->
  index h f c i = nth i (nth c (view h f) []) 0%Z.
Proof. exact index_view. Qed.
Theorem C11_encode_view : forall h f c,
  (c < length (get_alloc h (fa f)))%nat -> encode h f c = nth c (view h f) [].
Proof. exact encode_view. Qed.
Theorem C11_less_position_free : forall h1 f1 h2 f2 i j,
  wf h1 f1 -> wf h2 f2 -> view h1 f1 = view h2 f2 -> fpre f1 = fpre f2 -> flen f1 = flen f2 ->
  (i < flen f1)%nat -> (j < flen f1)%nat -> less h1 f1 i j = less h2 f2 i j.
Proof. exact less_position_free. Qed.
Print Assumptions C11_less_position_free.

Theorem C11_slice_view : forall h f i j g,
  slice f i j = Ok g -> (Z.to_nat j <= flen f)%nat ->
  view h g = map (fun c => sub c (Z.to_nat i) (Z.to_nat (j - i))) (view h f).
Proof. exact slice_view. Qed.
Theorem C11_slice_inside : forall f i j g a k,
  slice f i j = Ok g -> (Z.to_nat j <= flen f)%nat -> inview g a k -> inview f a k.
Proof. exact slice_inside. Qed.
Print Assumptions C11_slice_view.

(* sorting = a run of in-range swaps: the rows are permuted, storage outside is untouched *)
Theorem C11_sort_permutation : forall f l h,
  wf h f -> (forall p, In p l -> (fst p < flen f)%nat /\ (snd p < flen f)%nat) ->
  Permutation (rows (swaps h f l) f) (rows h f).
Proof. exact sort_swaps_permutation. Qed.
Theorem C11_sort_frame_condition : forall f l h a c k,
  wf h f -> (forall p, In p l -> (fst p < flen f)%nat /\ (snd p < flen f)%nat) -> ~ inview f a k ->
  cell (swaps h f l) a c k = cell h a c k.
Proof. exact sort_swaps_frame_condition. Qed.
Print Assumptions C11_sort_permutation.

Theorem C11_grow_capacity_sufficient : forall f need,
  (0 < fcap f)%nat -> (flen f <= fcap f)%nat ->
  (flen f + need <= grow_cap (S (flen f + need)) (fcap f) (flen f) (flen f + need))%nat.
Proof. exact grow_capacity_sufficient. Qed.
Print Assumptions C11_grow_capacity_sufficient.

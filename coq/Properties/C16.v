(* C16 — Invocations reach workers intact, and registry or argument problems fail fast.
   Only restated theorems, each closed by [exact], with Print Assumptions. *)
From Coq Require Import List ZArith Bool String.
Import ListNotations.
Require Import BS.C16.Model BS.C16.Proofs BS.C16.Invocation BS.C16.InvProofs BS.Gen.C16_params.
Local Open Scope Z_scope.

(* ---- tie to the source (regenerated from /repo's Go AST on every run) ---- *)

(* const ( editNone = iota; editAdd; editDel ): editNone is the zero value the
   "equal" branch leaves in cell.edit *)
Theorem C16_gen_edit_consts :
  diff_edit_consts = [("editNone"%string, edit_code EditNone); ("editAdd"%string, edit_code EditAdd);
                      ("editDel"%string, edit_code EditDel)].
Proof. reflexivity. Qed.
Theorem C16_gen_prefixes : diff_string_literals = [add_prefix; del_prefix].
Proof. reflexivity. Qed.
(* deletion is chosen only when strictly cheaper: [ccost up <? ccost left] in fill_cell *)
Theorem C16_gen_tiebreak :
  diff_tiebreak = ["cells[i - 1][j].cost"; "<"; "cells[i][j - 1].cost"]%string.
Proof. reflexivity. Qed.
(* isNilAssignable: the kinds behind [nilable] / [nilable_p] *)
Theorem C16_gen_nil_kinds :
  nil_assignable_kinds = ["Chan"; "Func"; "Interface"; "Map"; "Ptr"; "Slice"; "UnsafePointer"]%string.
Proof. reflexivity. Qed.
(* GobDecode's switch: the table behind [decode_target] (TRef / TAny / TType) *)
Theorem C16_gen_decode_targets :
  inv_decode_targets = [("typ == typResultPtr", "typInvocationRef");
                        ("typ.Kind() == reflect.Interface", "typEmptyInterface");
                        ("default", "typ")]%string.
Proof. reflexivity. Qed.
(* GobEncode passes &arg exactly for interface-typed parameters: [is_iface] in encode_arg *)
Theorem C16_gen_encode_addr : inv_encode_addr_conds = ["typ.Kind() == reflect.Interface"]%string.
Proof. reflexivity. Qed.
(* where locations come from: Func records its caller (skip 1), the invocation's
   location is the caller of Session.Run / Must *)
Theorem C16_gen_func_caller_skip : func_caller_skips = ["1"]%string.
Proof. reflexivity. Qed.
Theorem C16_gen_run_location_skips :
  run_location_skips = ["calldepth + 1"; "Session.Run: 1"; "Session.Must: 1"]%string.
Proof. reflexivity. Qed.
Theorem C16_gen_direct_fields :
  inv_direct_fields = ["Index"; "Func"; "Exclusive"; "Location"; "Env"]%string.
Proof. reflexivity. Qed.

(* ---- (a) FuncLocationsDiff, for all pairs of location lists ---- *)

(* the back-trace never indexes out of range and finishes within len(lhs)+len(rhs) steps *)
Theorem C16_diff_never_panics : forall l r : list string,
  exists lines, func_locations_diff l r = DLines lines.
Proof. exact diff_never_panics. Qed.
Print Assumptions C16_diff_never_panics.

(* the diff is nil exactly when the two registries agree *)
Theorem C16_diff_nil_iff : forall l r : list string,
  func_locations_diff l r = DLines [] <-> l = r.
Proof. exact diff_nil_iff. Qed.
Print Assumptions C16_diff_nil_iff.

(* the lines are the rendering of tagged edits ... *)
Theorem C16_diff_lines_tagged : forall l r : list string,
  func_locations_diff l r = DLines (map render (diff_tagged l r)).
Proof. exact diff_lines_tagged. Qed.
Theorem C16_diff_tagged_nil_iff : forall l r : list string, diff_tagged l r = [] <-> l = r.
Proof. exact diff_tagged_nil_iff. Qed.

(* ... which otherwise transform one registry into the other: the kept and deleted
   lines are lhs, the kept and added lines are rhs, in order *)
Theorem C16_diff_transforms : forall l r : list string, l <> r ->
  lhs_of (diff_tagged l r) = l /\ rhs_of (diff_tagged l r) = r.
Proof. exact diff_transforms. Qed.
Print Assumptions C16_diff_transforms.
Theorem C16_diff_transforms_nonnil : forall l r : list string, diff_tagged l r <> [] ->
  lhs_of (diff_tagged l r) = l /\ rhs_of (diff_tagged l r) = r.
Proof. exact diff_transforms_nonnil. Qed.

(* for locations that do not themselves start with "+ " or "- " the printed
   lines determine the edits *)
Theorem C16_diff_lines_parse : forall (l r : list string) lines, forallb plain l = true ->
  func_locations_diff l r = DLines lines -> map parse_line lines = diff_tagged l r.
Proof. exact diff_lines_parse. Qed.
Print Assumptions C16_diff_lines_parse.

(* the number of +/- lines is the cost in the last cell of the table, and no
   edit script from lhs to rhs has fewer *)
Theorem C16_diff_cost : forall l r : list string,
  changes (diff_tagged l r) = ccost (cell_at (table l r) (List.length l) (List.length r)).
Proof. exact diff_cost. Qed.
Theorem C16_diff_minimal : forall (l r : list string) es, lhs_of es = l -> rhs_of es = r ->
  changes (diff_tagged l r) <= changes es.
Proof. exact diff_minimal. Qed.
Print Assumptions C16_diff_minimal.

(* the registry comparison: when Funcs are told apart by their creation sites the
   diff of two registries is nil exactly when they are the same sequence of Funcs *)
Theorem C16_registry_diff_nil_iff : forall (F : Type) (site : F -> string),
  (forall f g, site f = site g -> f = g) ->
  forall driver worker : list F,
  func_locations_diff (func_locations (map site driver)) (func_locations (map site worker)) = DLines []
  <-> driver = worker.
Proof. exact @registry_diff_nil_iff. Qed.
Print Assumptions C16_registry_diff_nil_iff.
(* and it would be blind if every Func recorded the same location *)
Theorem C16_constant_site_blind : forall (F : Type) (s : string) (driver worker : list F),
  List.length driver = List.length worker ->
  func_locations_diff (map (fun _ => s) driver) (map (fun _ => s) worker) = DLines [].
Proof. exact @constant_site_blind. Qed.

Example C16_diff_example :
  func_locations_diff ["a"; "b"; "c"]%string ["a"; "c"]%string = DLines ["a"; "- b"; "c"]%string.
Proof. reflexivity. Qed.

(* ---- (b) invocation transport, for all parameter and argument lists over the
        universe, for every value codec that reads back what it wrote.
        [rp] = GobEncode tests for nil pointers, [rr] = Session.run tests for a nil
        *Result: the two switches goparams reads from the source ---- *)

Theorem C16_gen_encode_rejects_nil_pointer : encode_rejects_nil_pointer = true.
Proof. reflexivity. Qed.
Theorem C16_gen_run_rejects_nil_result : run_rejects_nil_result = true.
Proof. reflexivity. Qed.

Theorem C16_transport_shape :
  forall (V B : Type) (genc : ctype -> V -> B) (gdec : ctype -> B -> option V),
  (forall c v, gdec c (genc c v) = Some v) ->
  forall (rp rr : bool) known compiled ps (args : list (arg V)),
  typecheck V ps args = true -> forallb2 (ships V) ps args = true ->
  results_in V known args = true -> results_in V compiled args = true ->
  transport V B genc gdec rp rr known compiled ps args = OArrived args.
Proof. exact transport_shape. Qed.
Print Assumptions C16_transport_shape.

(* the decode target chosen from the parameter type accepts what the encoder sent *)
Theorem C16_target_accepts :
  forall (V B : Type) (genc : ctype -> V -> B) (gdec : ctype -> B -> option V),
  (forall c v, gdec c (genc c v) = Some v) ->
  forall (rp : bool) known p (a a' : arg V),
  typecheck1 V p a = true -> ships V p a = true -> subst_arg V known a = Some a' ->
  exists w, encode_arg V B genc rp p a' = E1Ok w /\ decode_arg V B gdec p w = Some a'.
Proof. exact target_accepts. Qed.

Theorem C16_codec_roundtrip :
  forall (V B : Type) (genc : ctype -> V -> B) (gdec : ctype -> B -> option V),
  (forall c v, gdec c (genc c v) = Some v) ->
  forall (rp : bool) ps (args : list (arg V)),
  typecheck V ps args = true -> forallb2 (ships V) ps args = true -> no_results V args = true ->
  codec V B genc gdec rp ps args = COk args.
Proof. exact codec_roundtrip. Qed.
Print Assumptions C16_codec_roundtrip.

(* arguments that cannot be encoded (chan, func, unregistered types in interfaces,
   typed nil pointers): Run never goes on to ask for a machine ... *)
Theorem C16_unencodable_never_offered :
  forall (V B : Type) (genc : ctype -> V -> B) (rp : bool) known ps (args : list (arg V)),
  existsb2 (unencodable V) ps args = true ->
  forall ws, run_prefix V B genc rp known ps args <> RunOffer ws.
Proof. exact unencodable_never_offered. Qed.
(* ... and with the current GobEncode the task ends in TaskErr and Run returns *)
Theorem C16_unencodable_is_fatal :
  forall (V B : Type) (genc : ctype -> V -> B) (gdec : ctype -> B -> option V),
  (forall c v, gdec c (genc c v) = Some v) ->
  forall (rr : bool) known compiled ps (args : list (arg V)),
  typecheck V ps args = true ->
  forallb2 (fun p a => ships V p a || unencodable V p a) ps args = true ->
  existsb2 (unencodable V) ps args = true ->
  has_nil_result V args = false ->
  results_in V known args = true ->
  transport V B genc gdec true rr known compiled ps args = ORunErr.
Proof. intros V B genc gdec H rr known compiled. exact (unencodable_is_fatal V B genc gdec H true rr known compiled eq_refl). Qed.
Print Assumptions C16_unencodable_is_fatal.

(* current code: a typed nil pointer argument is never offered to a machine and
   puts the task in TaskErr *)
Theorem C16_nil_pointer_is_fatal :
  forall (V B : Type) (genc : ctype -> V -> B) (gdec : ctype -> B -> option V),
  (forall c v, gdec c (genc c v) = Some v) ->
  forall (rr : bool) known compiled ps (args : list (arg V)),
  typecheck V ps args = true ->
  forallb2 (fun p a => ships V p a || unencodable V p a) ps args = true ->
  existsb2 (typed_nil_pointer V) ps args = true ->
  has_nil_result V args = false ->
  results_in V known args = true ->
  transport V B genc gdec true rr known compiled ps args = ORunErr /\
  forall ws, run_prefix V B genc true known ps args <> RunOffer ws.
Proof. intros V B genc gdec H rr known compiled. exact (nil_pointer_is_fatal V B genc gdec H true rr known compiled eq_refl). Qed.
Print Assumptions C16_nil_pointer_is_fatal.

(* current code: a nil *Result argument makes Session.run return an error before
   the invocation is made (nothing is typechecked, compiled, serialised or sent) *)
Theorem C16_nil_result_rejected :
  forall (V B : Type) (genc : ctype -> V -> B) (gdec : ctype -> B -> option V)
         (rp : bool) known compiled ps (args : list (arg V)),
  has_nil_result V args = true ->
  transport V B genc gdec rp true known compiled ps args = OSessErr.
Proof. intros V B genc gdec rp known compiled ps args. exact (nil_result_rejected V B genc gdec rp true known compiled ps args eq_refl). Qed.

(* current code: no panic escapes Run, whatever the arguments *)
Theorem C16_current_code_never_panics :
  forall (V B : Type) (genc : ctype -> V -> B) (gdec : ctype -> B -> option V)
         known compiled ps (args : list (arg V)),
  results_in V known args = true ->
  transport V B genc gdec true true known compiled ps args <> ORunPanic.
Proof. intros V B genc gdec known compiled ps args. exact (current_code_never_panics V B genc gdec true true known compiled ps args eq_refl eq_refl). Qed.
Print Assumptions C16_current_code_never_panics.

(* every invocationRef in the shipped arguments has its invocation in the
   dependency set addInvocation records (user arguments never contain references),
   and that set is exactly the Results among the arguments *)
Theorem C16_refs_in_deps : forall (V : Type) known (args a1 : list (arg V)) i,
  subst_args V known args = SOk a1 -> In (ARef i) a1 ->
  In (ARef i) args \/ In i (record_deps V args).
Proof. exact refs_in_deps. Qed.
Theorem C16_deps_are_results : forall (V : Type) (args : list (arg V)) i,
  In i (record_deps V args) <-> In (AResult i) args.
Proof. exact deps_are_results. Qed.
Print Assumptions C16_refs_in_deps.

(* the executor's walk over invocationDeps followed by the reversed compile loop
   leaves a fresh worker with every requested invocation compiled and never meets
   an invalid reference: finite sweep (vm_compute) over every dependency DAG on up
   to 4 invocations and every set of roots *)
Theorem C16_fresh_ship_ok_upto4 : forall n g roots, (n <= 4)%nat ->
  In g (dags n) -> In roots (subsets (map fst g)) -> fresh_ok g roots = true.
Proof. exact fresh_ship_ok_upto4_each. Qed.
Print Assumptions C16_fresh_ship_ok_upto4.

Theorem C16_illtyped_rejected :
  forall (V B : Type) (genc : ctype -> V -> B) (gdec : ctype -> B -> option V)
         (rp rr : bool) known compiled ps (args : list (arg V)),
  typecheck V ps args = false ->
  transport V B genc gdec rp rr known compiled ps args =
  (if rr && has_nil_result V args then OSessErr else OTypeErr).
Proof. exact illtyped_rejected. Qed.

(* what must arrive but is not shipped is exactly an untyped nil for a nil-able
   non-interface parameter *)
Theorem C16_gap_is_nil : forall (V : Type) p (a : arg V),
  typecheck1 V p a = true -> must_arrive V p a = true -> ships V p a = false ->
  a = ANil /\ is_iface p = false /\ nilable_p p = true.
Proof. exact gap_is_nil. Qed.

(* the faithful model refutes "nil values arrive" for it, with or without the two
   fixes (finding c16:untyped-nil-for-concrete-param:not-shipped) *)
Theorem C16_nil_untyped_refuted :
  forall (V B : Type) (genc : ctype -> V -> B) (gdec : ctype -> B -> option V) (rp rr : bool),
  exists ps (args : list (arg V)), typecheck V ps args = true /\ forallb2 (must_arrive V) ps args = true /\
    transport V B genc gdec rp rr [] [] ps args = ORunErr.
Proof. exact nil_untyped_refuted. Qed.

(* witnesses for the code before the fixes cddaded and 61f39b4 (switch off): a
   panic escapes Run *)
Theorem C16_nil_pointer_refuted :
  forall (V B : Type) (genc : ctype -> V -> B) (gdec : ctype -> B -> option V) (rr : bool),
  exists ps (args : list (arg V)), typecheck V ps args = true /\
    transport V B genc gdec false rr [] [] ps args = ORunPanic.
Proof. exact nil_pointer_refuted. Qed.
Theorem C16_nil_result_refuted :
  forall (V B : Type) (genc : ctype -> V -> B) (gdec : ctype -> B -> option V) (rp : bool),
  exists ps (args : list (arg V)), typecheck V ps args = true /\
    transport V B genc gdec rp false [] [] ps args = ORunPanic.
Proof. exact nil_result_refuted. Qed.
Print Assumptions C16_nil_pointer_refuted.

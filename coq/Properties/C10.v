(* C10 — External sort, merge and reduce-merge are correct at any spill size.
   Only restated theorems, each closed by [exact], with Print Assumptions.

   Vocabulary (coq/C10/Model.v): a row is (key, value) : Z * Z; an upstream reader is a
   script of responses [Rows l | EofWith l | Fail e] ([Rows []] = a read returning no rows
   without ending); [srows s]/[sfin s] are the rows and the ending of a script for a
   consumer that reads through empty reads (ReadFull), [sview s]/[send s] those seen by a
   FrameBuffer, for which an empty read is the end of input.  [run_sort], [run_merge],
   [run_reduce] build the reader and drain it with the given destination-frame lengths;
   [oreads] are the (rows, error) of every Read, [out_rows] the rows a consumer keeps.
   [ksorted]/[kstrict] = non-decreasing / strictly increasing keys. *)
From Coq Require Import List ZArith Bool Permutation Sorted.
Import ListNotations.
Require Import BS.C10.Model BS.C10.Lists BS.C10.Buffers BS.C10.Proofs BS.C10.Reduce
               BS.C10.Corr BS.C10.Statements BS.Gen.C10_params.
Local Open Scope Z_scope.

(* ---- tie to the source: the values the model is run with are the code's ---- *)
Theorem C10_gen_chunk : chunk_default = 128 /\ reduce_chunk = chunk_default /\ spill_batch_default = chunk_default.
Proof. repeat split; reflexivity. Qed.
Theorem C10_gen_sort_canary : sort_canary = 256.
Proof. reflexivity. Qed.
(* the only floating-point literal of SortReader is the 5% tolerance 1/20, which
   [real_next] states as 20 * |n - t| > t *)
Theorem C10_gen_tolerance : sort_reader_float_literals = [(1, 20)].
Proof. reflexivity. Qed.
(* the integer literals of SortReader: f.Slice(0, n) and the clamp
   `if bytesPerRow < 1 { bytesPerRow = 1 }`, which [real_next] models *)
Theorem C10_gen_clamp : sort_reader_int_literals = [0; 1; 1].
Proof. reflexivity. Qed.

(* ---- SortReader: for every upstream script that ends without a failure (any chunking,
        empty reads included), every canary size and spill batch size >= 1, every
        run-length oracle that answers with positive lengths, every sequence of destination
        sizes >= 1 long enough to drain: the reader is created, ends with EOF, and has
        emitted exactly the input multiset in non-decreasing key order; no spill file is
        left ---- *)
Theorem C10_sort_reader_sorted_perm : forall canary batch oracle s demands,
  (1 <= canary)%nat -> (1 <= batch)%nat -> oracle_ok oracle ->
  sfin s = SEof ->
  Forall (fun x => (1 <= x)%nat) demands -> (length (srows s) < length demands)%nat ->
  let o := run_sort canary batch oracle s demands in
  ocreate o = COk /\ final_status (oreads o) = SEof /\
  ksorted (out_rows (oreads o)) /\ Permutation (out_rows (oreads o)) (srows s) /\
  oleft o = 0%nat.
Proof. exact sort_reader_sorted_perm. Qed.
Print Assumptions C10_sort_reader_sorted_perm.

(* the bytes-per-row arithmetic of the code (with the clamp of bytesPerRow to 1) is such an
   oracle for EVERY spill target and every encoded size ... *)
Theorem C10_real_oracle_ok : forall target batch (size : nat -> nat -> Z),
  1 <= batch -> oracle_ok (fun i n => real_next target batch (size i n) n).
Proof. exact real_oracle_ok. Qed.
(* ... hence the main theorem for the code's own arithmetic, without any guard on sizes *)
Theorem C10_sort_reader_real_arithmetic : forall canary batch target (size : nat -> nat -> Z) s demands,
  (1 <= canary)%nat -> (1 <= batch)%nat -> sfin s = SEof ->
  Forall (fun x => (1 <= x)%nat) demands -> (length (srows s) < length demands)%nat ->
  let o := run_sort canary batch (fun i n => real_next target (Z.of_nat batch) (size i n) n) s demands in
  ocreate o = COk /\ final_status (oreads o) = SEof /\
  ksorted (out_rows (oreads o)) /\ Permutation (out_rows (oreads o)) (srows s) /\
  oleft o = 0%nat.
Proof. exact sort_reader_real_arithmetic. Qed.
Print Assumptions C10_sort_reader_real_arithmetic.
(* the arithmetic before the fix (no clamp) divided by zero when a run encoded to fewer
   bytes than rows; where it did not, it agrees with the present one *)
Theorem C10_real_next_unclamped_div_zero : forall target batch size cur,
  0 <= size < Z.of_nat cur -> real_next_unclamped target batch size cur = None.
Proof. exact real_next_unclamped_div_zero. Qed.
Theorem C10_real_next_unclamped_agrees : forall target batch size cur,
  (1 <= cur)%nat -> Z.of_nat cur <= size ->
  real_next_unclamped target batch size cur = real_next target batch size cur.
Proof. exact real_next_unclamped_agrees. Qed.
Theorem C10_unclamped_arithmetic_div_zero :
  exists canary batch target size s demands,
    (1 <= canary)%nat /\ (1 <= batch)%nat /\ sfin s = SEof /\
    ocreate (run_sort canary batch (fun _ n => real_next_unclamped target (Z.of_nat batch) size n) s demands) = CPanic /\
    ocreate (run_sort canary batch (fun _ n => real_next target (Z.of_nat batch) size n) s demands) = COk.
Proof. exact unclamped_arithmetic_div_zero. Qed.
Print Assumptions C10_unclamped_arithmetic_div_zero.

(* ---- NewMergeReader: any number of streams (none, one, many, some empty), each sorted
        and ending without failure: the sorted union.  Stated for what a FrameBuffer
        sees of each input ([sview]: an empty read is the end of that input) ... ---- *)
Theorem C10_merge_sorted_union_view : forall d rs demands,
  (1 <= d)%nat ->
  Forall (fun s => ksorted (sview s)) rs ->
  Forall (fun s => send s = SEof) rs ->
  Forall (fun x => (1 <= x)%nat) demands -> (total_rows rs < length demands)%nat ->
  let o := run_merge d rs demands in
  ocreate o = COk /\ final_status (oreads o) = SEof /\
  ksorted (out_rows (oreads o)) /\ Permutation (out_rows (oreads o)) (concat (map sview rs)).
Proof. exact merge_sorted_union_view. Qed.
(* ... and, as the property does, for inputs without empty reads: all their rows *)
Theorem C10_merge_sorted_union : forall d rs demands,
  (1 <= d)%nat ->
  Forall (fun s => no_empty_reads s = true) rs ->
  Forall (fun s => ksorted (srows s)) rs ->
  Forall (fun s => sfin s = SEof) rs ->
  Forall (fun x => (1 <= x)%nat) demands ->
  (length (concat (map srows rs)) < length demands)%nat ->
  let o := run_merge d rs demands in
  ocreate o = COk /\ final_status (oreads o) = SEof /\
  ksorted (out_rows (oreads o)) /\ Permutation (out_rows (oreads o)) (concat (map srows rs)).
Proof. exact merge_sorted_union. Qed.
Print Assumptions C10_merge_sorted_union.

(* ---- Reduce: inputs sorted with unique keys, combiner associative and commutative:
        one row per distinct key, ascending, carrying the fold of that key's values ---- *)
Theorem C10_reduce_merge_spec : forall comb d rs demands,
  (forall a b c, comb a (comb b c) = comb (comb a b) c) ->
  (forall a b, comb a b = comb b a) ->
  (1 <= d)%nat ->
  Forall (fun s => no_empty_reads s = true) rs ->
  Forall (fun s => kstrict (srows s)) rs ->
  Forall (fun s => sfin s = SEof) rs ->
  Forall (fun x => (1 <= x)%nat) demands ->
  (length (concat (map srows rs)) < length demands)%nat ->
  let o := run_reduce d comb rs demands in
  ocreate o = COk /\ final_status (oreads o) = SEof /\
  kstrict (out_rows (oreads o)) /\
  (forall k, In k (map rkey (out_rows (oreads o))) <-> In k (map rkey (concat (map srows rs)))) /\
  (forall x, In x (out_rows (oreads o)) ->
             rval x = fold1 comb (kvals (rkey x) (concat (map srows rs)))).
Proof. exact reduce_merge_spec. Qed.
Theorem C10_reduce_merge_spec_view : forall comb d rs demands,
  (forall a b c, comb a (comb b c) = comb (comb a b) c) ->
  (forall a b, comb a b = comb b a) ->
  (1 <= d)%nat ->
  Forall (fun s => kstrict (sview s)) rs ->
  Forall (fun s => send s = SEof) rs ->
  Forall (fun x => (1 <= x)%nat) demands -> (total_rows rs < length demands)%nat ->
  let o := run_reduce d comb rs demands in
  ocreate o = COk /\ final_status (oreads o) = SEof /\
  is_reduce comb (concat (map sview rs)) (out_rows (oreads o)).
Proof. exact reduce_merge_spec_view. Qed.
(* the fold does not depend on the order in which the values are met *)
Theorem C10_fold_order_free : forall comb,
  (forall a b c, comb a (comb b c) = comb (comb a b) c) ->
  (forall a b, comb a b = comb b a) ->
  forall l l', Permutation l l' -> fold1 comb l = fold1 comb l'.
Proof. exact fold1_perm. Qed.
Print Assumptions C10_reduce_merge_spec.

(* ---- read errors of an input are reported, never swallowed as end-of-stream ---- *)
Theorem C10_errors_not_swallowed :
  (forall canary batch oracle s demands e,
     (1 <= canary)%nat -> oracle_ok oracle -> fails_with s e ->
     ocreate (run_sort canary batch oracle s demands) = CErr e) /\
  (forall d rs demands e,
     (1 <= d)%nat -> Forall (fun s => no_empty_reads s = true) rs ->
     Exists (fun s => fails_with s e) rs ->
     Forall (fun x => (1 <= x)%nat) demands ->
     (length (concat (map srows rs)) < length demands)%nat ->
     let o := run_merge d rs demands in
     exists e', Exists (fun s => fails_with s e') rs /\
       (ocreate o = CErr e' \/ (ocreate o = COk /\ final_status (oreads o) = SErr e'))) /\
  (forall comb d rs demands e,
     (1 <= d)%nat -> Forall (fun s => no_empty_reads s = true) rs ->
     Exists (fun s => fails_with s e) rs ->
     Forall (fun x => (1 <= x)%nat) demands ->
     (length (concat (map srows rs)) < length demands)%nat ->
     let o := run_reduce d comb rs demands in
     exists e', Exists (fun s => fails_with s e') rs /\
       ocreate o = COk /\ final_status (oreads o) = SErr e').
Proof. exact errors_not_swallowed. Qed.
Print Assumptions C10_errors_not_swallowed.

(* ---- spill files do not outlive SortReader, on every path (error, panic, success) ---- *)
Theorem C10_spill_lifetime : forall canary batch oracle s,
  snd (sort_reader canary batch oracle s) = [].
Proof. exact spill_lifetime. Qed.
Print Assumptions C10_spill_lifetime.

(* ---- the checkers with which the correspondence judges the implementation's output
        accept only what the theorems state ---- *)
Theorem C10_checkers_sound :
  (forall l, sorted_keysb l = true -> ksorted l) /\
  (forall a b, same_multiset a b = true -> Permutation a b) /\
  (forall comb all out, reduce_check comb all out = true -> is_reduce comb all out).
Proof. exact (conj sorted_keysb_sound (conj same_multiset_sound reduce_check_sound)). Qed.
Print Assumptions C10_checkers_sound.

(* ---- non-vacuity ---- *)
Theorem C10_sort_example :
  run_sort 2 1 (fun _ _ => Some 3%nat)
    [Rows [(3, 1); (1, 2)]; Rows []; Rows [(2, 3); (1, 4); (0, 5)]; EofWith [(5, 6)]]
    [2; 2; 2; 2]%nat
  = mkO COk [([(0, 5); (1, 2)], SOk); ([(1, 4); (2, 3)], SOk); ([(3, 1); (5, 6)], SOk); ([], SEof)]
        [2; 3; 3]%nat 0.
Proof. exact sort_example. Qed.
Theorem C10_merge_example :
  run_merge 2 [[Rows [(1, 10); (1, 11); (4, 12)]]; [EofWith []]; [Rows [(1, 20)]; EofWith [(2, 21)]]]
    [3; 3; 3]%nat
  = mkO COk [([(1, 10); (1, 11); (1, 20)], SOk); ([(2, 21); (4, 12)], SOk); ([], SEof)] [] 0.
Proof. exact merge_example. Qed.
Theorem C10_reduce_example :
  run_reduce 128 Z.add [[Rows [(1, 10); (4, 12)]]; []; [Rows [(1, 20)]; EofWith [(2, 21); (4, 1)]]]
    [2; 2]%nat
  = mkO COk [([(1, 30); (2, 21)], SOk); ([(4, 13)], SEof)] [] 0.
Proof. exact reduce_example. Qed.
Theorem C10_compressing_codec_example :
  run_sort 4 2 (fun _ n => real_next 100 2 3 n)
    [Rows [(2, 0); (0, 0); (1, 0); (0, 0)]; Rows [(0, 1)]] [3; 3; 3]%nat
  = mkO COk [([(0, 0); (0, 0); (0, 1)], SOk); ([(1, 0); (2, 0)], SOk); ([], SEof)] [4; 100]%nat 0.
Proof. exact compressing_codec_example. Qed.
Theorem C10_error_example :
  ocreate (run_sort 2 1 (fun _ _ => Some 3%nat) [Rows [(3, 1); (1, 2)]; Rows [(0, 0)]; Fail 7] [2]%nat) = CErr 7
  /\ final_status (oreads (run_merge 2 [[Rows [(1, 10)]; Fail 7]; [Rows [(2, 0)]]] [1; 1; 1]%nat)) = SErr 7
  /\ final_status (oreads (run_reduce 128 Z.add [[Rows [(1, 10)]; Fail 7]; [Rows [(2, 0)]]] [1; 1; 1]%nat)) = SErr 7.
Proof. exact error_example. Qed.

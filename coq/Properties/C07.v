(* C07 — Row streams decode to the rows written; corruption is detected, never returned.
   Only restated theorems, each closed by [exact], with Print Assumptions.

   gob is abstracted: every theorem below that mentions [enc_tok]/[dec_tok] holds for
   ANY token codec satisfying the three stated hypotheses (injective self-delimiting
   encoding; io.EOF on empty input; io.ErrUnexpectedEOF on a cut inside a token), any
   custom column codec whose Decode inverts its Encode, and every configuration [cf] of the
   three repairs made to codec.go unless it names one: [code_cfg] is /repo as it is (all
   three repairs), [defective_cfg] the code before them (kept for the witnesses). *)
From Coq Require Import String.
From Coq Require Import List ZArith NArith Bool.
Import ListNotations.
Require Import BS.C07.Model BS.C07.Script BS.C07.CrcProofs BS.C07.Lists BS.C07.Batch
               BS.C07.Proofs BS.C07.SpecProofs BS.C07.Toy BS.C07.Main BS.Gen.C07_params.

(* ---------------------------------------------------------------- tie to the source *)
(* both ends use crc32.NewIEEE: the table modelled in Crc.v *)
Theorem C07_gen_crc_table :
  codec_enc_crc_ctor = ["crc32.NewIEEE"%string] /\ codec_dec_crc_ctor = ["crc32.NewIEEE"%string].
Proof. split; reflexivity. Qed.
(* the running checksum: reset at the start of Write and of each batch read, sampled before the checksum token *)
Theorem C07_gen_crc_events :
  codec_write_crc_calls = ["Reset"%string; "Sum32"%string]
  /\ codec_read_crc_calls = ["Reset"%string] /\ codec_decode_crc_calls = ["Sum32"%string].
Proof. repeat split; reflexivity. Qed.
(* decode zeroes the destination first *)
Theorem C07_gen_zero_first : codec_decode_first_stmt = "f.Zero()"%string.
Proof. reflexivity. Qed.
(* one io.EOF test in Read, one in decode; the clean end-of-stream value sliceio.EOF is produced
   only in Read, and only when no byte of a new batch was read; decode turns io.EOF into
   io.ErrUnexpectedEOF (repair 2) *)
Theorem C07_gen_eof_conversions :
  codec_eof_compares = [1; 1]%Z /\ codec_clean_eof_uses = [1; 0]%Z /\ codec_unexpected_eof_uses = [1; 1]%Z.
Proof. repeat split; reflexivity. Qed.
(* the branch conditions of Read, in source order: sticky error; length token; io.EOF only at a
   batch boundary (repair 2); negative length (repair 1); direct vs buffered path *)
Theorem C07_gen_read_branches :
  codec_read_if_conds =
  ["d.err != nil"; "d.err = d.dec.Decode(&n); d.err != nil"; "d.err == io.EOF"; "*d.nread == 0";
   "n < 0"; "n <= f.Len()"; "d.err = d.decode(f.Slice(0, n)); d.err != nil"; "d.scratch.IsZero()";
   "d.err = d.decode(d.buf); d.err != nil"]%string.
Proof. reflexivity. Qed.
(* the branch conditions of decode: flag; missing codec; custom codec; gob column with its io.EOF
   test and the length check (repair 3); checksum *)
Theorem C07_gen_decode_branches :
  codec_decode_if_conds =
  ["err := d.dec.Decode(&codec); err != nil"; "codec && !f.HasCodec(col)"; "codec";
   "err := f.Decode(col, d.dec); err != nil"; "err != nil"; "err == io.EOF";
   "pHdr.Data != sh.Data || pHdr.Len != sh.Len"; "err := d.dec.Decode(&decoded); err != nil";
   "sum != decoded"]%string.
Proof. reflexivity. Qed.
(* the error texts; no panic("gob reallocated a slice") any more *)
Theorem C07_gen_error_texts :
  codec_read_strings = ["invalid batch length %d"]%string
  /\ codec_decode_strings =
     ["column encoded with custom codec but no codec available on receipt";
      "column length does not match batch length";
      "computed checksum %x but expected checksum %x"]%string.
Proof. split; reflexivity. Qed.
(* the model of the code as it is has the three repairs *)
Theorem C07_code_cfg_is_fixed :
  fix_len code_cfg = true /\ fix_eof code_cfg = true /\ fix_collen code_cfg = true.
Proof. exact code_cfg_is_fixed. Qed.
(* the gob calls per batch: length, per column flag + value, checksum *)
Theorem C07_gen_token_order :
  codec_write_enc_calls = ["Encode"%string; "Encode"%string; "EncodeValue"%string; "Encode"%string]
  /\ codec_decode_dec_calls = ["Decode"%string; "DecodeValue"%string; "Decode"%string].
Proof. split; reflexivity. Qed.

(* ---------------------------------------------------------------- CRC-32 *)
Theorem C07_crc_table_is_8_steps : forall s x, crc_byte_table s x = crc_byte_serial s x.
Proof. exact table_is_8_steps. Qed.
Theorem C07_crc_update_is_serial : forall crc p, crc_update crc p = crc_update_serial crc p.
Proof. exact crc_update_is_serial. Qed.
Theorem C07_crc_write_concat : forall crc p q, crc_update (crc_update crc p) q = crc_update crc (p ++ q).
Proof. exact crc_update_app. Qed.
Theorem C07_crc_step_injective : forall b s1 s2, reg s1 -> reg s2 -> crc_bit s1 b = crc_bit s2 b -> s1 = s2.
Proof. exact crc_step_injective. Qed.
Theorem C07_crc_step_surjective : forall b t, reg t -> exists s, reg s /\ crc_bit s b = t.
Proof. exact crc_step_surjective. Qed.
Theorem C07_crc_bits_single_flip : forall l k s,
  reg s -> (k < length l)%nat -> crc_bits s (flip_nth l k) <> crc_bits s l.
Proof. exact crc_bits_single_flip. Qed.
Theorem C07_crc_detects_single_flip : forall crc p k,
  reg crc -> (k < 8 * length p)%nat -> crc_update crc (flip_bit p k) <> crc_update crc p.
Proof. exact crc_detects_single_flip. Qed.
Theorem C07_crc_detects_flip_then_suffix : forall crc p k q,
  reg crc -> (k < 8 * length p)%nat -> crc_update crc (flip_bit p k ++ q) <> crc_update crc (p ++ q).
Proof. exact crc_detects_flip_then_suffix. Qed.
Print Assumptions C07_crc_table_is_8_steps.
Print Assumptions C07_crc_detects_single_flip.

(* ---------------------------------------------------------------- round trip *)
(* per call: the reader over the encoder's bytes behaves exactly as the specification
   [spec_reads] (pending rows first, else the next batch, whole or cut to the destination;
   EOF for ever at the end), for any batches and any destination frames *)
Theorem C07_roundtrip_reads :
  forall (St : Type) (enc_tok : St -> token -> list N * St) (dec_tok : St -> list N -> dres St)
         (Sess : Type) (cenc cdec : Sess -> list Z -> list Z * Sess) (cf : cfg),
  (forall s t rest, dec_tok s (fst (enc_tok s t) ++ rest)
                    = DOk t (length (fst (enc_tok s t))) (snd (enc_tok s t))) ->
  (forall s, dec_tok s [] = DIoEOF) ->
  (forall s v, cdec s (fst (cenc s v)) = (v, snd (cenc s v))) ->
  forall sch st0 s0 batches dests,
  Forall (wf_frame sch) batches -> Forall (wf_frame sch) dests ->
  reads St dec_tok Sess cdec cf sch
        (r_init St Sess (wout (encode_all St enc_tok Sess cenc st0 s0 sch batches)) st0 s0) dests
  = spec_reads EEOF batches [] (map flen dests).
Proof. exact roundtrip_reads. Qed.
Print Assumptions C07_roundtrip_reads.

(* rows: destinations of at least one row, enough Reads: exactly the rows written, then EOF *)
Theorem C07_roundtrip :
  forall (St : Type) (enc_tok : St -> token -> list N * St) (dec_tok : St -> list N -> dres St)
         (Sess : Type) (cenc cdec : Sess -> list Z -> list Z * Sess) (cf : cfg),
  (forall s t rest, dec_tok s (fst (enc_tok s t) ++ rest)
                    = DOk t (length (fst (enc_tok s t))) (snd (enc_tok s t))) ->
  (forall s, dec_tok s [] = DIoEOF) ->
  (forall s v, cdec s (fst (cenc s v)) = (v, snd (cenc s v))) ->
  forall sch st0 s0 batches dests,
  Forall (wf_frame sch) batches -> Forall (wf_frame sch) dests ->
  Forall (fun d => 1 <= flen d)%nat dests ->
  (rows_of batches + length batches < length dests)%nat ->
  let res := reads St dec_tok Sess cdec cf sch
               (r_init St Sess (wout (encode_all St enc_tok Sess cenc st0 s0 sch batches)) st0 s0) dests in
  colcat (length sch) (delivered res) = colcat (length sch) batches
  /\ last res (ROk 0 []) = RErr EEOF.
Proof. exact roundtrip. Qed.
Print Assumptions C07_roundtrip.

(* any number of Reads of any sizes: never anything but a prefix of the rows written *)
Theorem C07_roundtrip_prefix :
  forall (St : Type) (enc_tok : St -> token -> list N * St) (dec_tok : St -> list N -> dres St)
         (Sess : Type) (cenc cdec : Sess -> list Z -> list Z * Sess) (cf : cfg),
  (forall s t rest, dec_tok s (fst (enc_tok s t) ++ rest)
                    = DOk t (length (fst (enc_tok s t))) (snd (enc_tok s t))) ->
  (forall s, dec_tok s [] = DIoEOF) ->
  (forall s v, cdec s (fst (cenc s v)) = (v, snd (cenc s v))) ->
  forall sch st0 s0 batches dests c,
  Forall (wf_frame sch) batches -> Forall (wf_frame sch) dests -> (c < length sch)%nat ->
  let res := reads St dec_tok Sess cdec cf sch
               (r_init St Sess (wout (encode_all St enc_tok Sess cenc st0 s0 sch batches)) st0 s0) dests in
  exists rest, nth c (colcat (length sch) batches) []
               = nth c (colcat (length sch) (delivered res)) [] ++ rest.
Proof. exact roundtrip_prefix. Qed.
Print Assumptions C07_roundtrip_prefix.

(* the hypotheses are satisfiable: the closed instance over the toy codec and the delta column codec *)
Theorem C07_roundtrip_toy : forall cf sch batches dests,
  Forall (wf_frame sch) batches -> Forall (wf_frame sch) dests ->
  Forall (fun d => 1 <= flen d)%nat dests ->
  (rows_of batches + length batches < length dests)%nat ->
  let res := toy_reads cf sch (toy_encode sch batches) dests in
  colcat (length sch) (delivered res) = colcat (length sch) batches
  /\ last res (ROk 0 []) = RErr EEOF.
Proof. exact toy_roundtrip. Qed.
Print Assumptions C07_roundtrip_toy.

(* ---------------------------------------------------------------- payload damage *)
(* layout of the undamaged stream around batch k *)
Theorem C07_stream_layout :
  forall (St : Type) (enc_tok : St -> token -> list N * St) (dec_tok : St -> list N -> dres St)
         (Sess : Type) (cenc : Sess -> list Z -> list Z * Sess),
  (forall s t rest, dec_tok s (fst (enc_tok s t) ++ rest)
                    = DOk t (length (fst (enc_tok s t))) (snd (enc_tok s t))) ->
  forall sch st0 s0 pre f post,
  let wk := fold_left (enc_write St enc_tok Sess cenc sch) pre (w_init St Sess st0 s0) in
  let wk1 := enc_write St enc_tok Sess cenc sch wk f in
  let Q := skipn (length (wout wk1)) (wout (fold_left (enc_write St enc_tok Sess cenc sch) post wk1)) in
  wout (encode_all St enc_tok Sess cenc st0 s0 sch (pre ++ f :: post))
  = wout wk ++ bX St enc_tok Sess cenc sch wk f ++ bY St enc_tok Sess cenc sch wk f ++ Q.
Proof. exact stream_layout. Qed.

(* one flipped bit in the checksummed bytes of batch k, token structure intact: the rows of the
   batches before k, then a checksum error; never end-of-stream *)
Theorem C07_payload_damage_detected :
  forall (St : Type) (enc_tok : St -> token -> list N * St) (dec_tok : St -> list N -> dres St)
         (Sess : Type) (cenc cdec : Sess -> list Z -> list Z * Sess) (cf : cfg),
  (forall s t rest, dec_tok s (fst (enc_tok s t) ++ rest)
                    = DOk t (length (fst (enc_tok s t))) (snd (enc_tok s t))) ->
  (forall s, dec_tok s [] = DIoEOF) ->
  (forall s v, cdec s (fst (cenc s v)) = (v, snd (cenc s v))) ->
  forall sch st0 s0 pre f f' post dests j,
  let wk := fold_left (enc_write St enc_tok Sess cenc sch) pre (w_init St Sess st0 s0) in
  let wk1 := enc_write St enc_tok Sess cenc sch wk f in
  let Q := skipn (length (wout wk1)) (wout (fold_left (enc_write St enc_tok Sess cenc sch) post wk1)) in
  Forall (wf_frame sch) pre -> wf_frame sch f' -> Forall (wf_frame sch) dests ->
  Forall (fun d => 1 <= flen d)%nat dests -> (rows_of pre + length pre < length dests)%nat ->
  st_after St enc_tok (wst wk) (bt St Sess cenc sch wk f') = st_after St enc_tok (wst wk) (bt St Sess cenc sch wk f) ->
  (j < 8 * length (bX St enc_tok Sess cenc sch wk f))%nat ->
  bX St enc_tok Sess cenc sch wk f' = flip_bit (bX St enc_tok Sess cenc sch wk f) j ->
  let res := reads St dec_tok Sess cdec cf sch
               (r_init St Sess (wout wk ++ flip_bit (bX St enc_tok Sess cenc sch wk f) j
                                ++ bY St enc_tok Sess cenc sch wk f ++ Q) st0 s0) dests in
  colcat (length sch) (delivered res) = colcat (length sch) pre
  /\ last res (ROk 0 []) = RErr EIntegrity
  /\ ~ In (RErr EEOF) res.
Proof. exact payload_flip_detected. Qed.
Print Assumptions C07_payload_damage_detected.

(* any replacement of the checksummed bytes whose CRC differs (bursts), per call *)
Theorem C07_payload_damage_reads :
  forall (St : Type) (enc_tok : St -> token -> list N * St) (dec_tok : St -> list N -> dres St)
         (Sess : Type) (cenc cdec : Sess -> list Z -> list Z * Sess) (cf : cfg),
  (forall s t rest, dec_tok s (fst (enc_tok s t) ++ rest)
                    = DOk t (length (fst (enc_tok s t))) (snd (enc_tok s t))) ->
  (forall s, dec_tok s [] = DIoEOF) ->
  (forall s v, cdec s (fst (cenc s v)) = (v, snd (cenc s v))) ->
  forall sch st0 s0 pre f f' post dests,
  let wk := fold_left (enc_write St enc_tok Sess cenc sch) pre (w_init St Sess st0 s0) in
  let wk1 := enc_write St enc_tok Sess cenc sch wk f in
  let Q := skipn (length (wout wk1)) (wout (fold_left (enc_write St enc_tok Sess cenc sch) post wk1)) in
  Forall (wf_frame sch) pre -> wf_frame sch f' -> Forall (wf_frame sch) dests ->
  st_after St enc_tok (wst wk) (bt St Sess cenc sch wk f') = st_after St enc_tok (wst wk) (bt St Sess cenc sch wk f) ->
  crc_update 0 (bX St enc_tok Sess cenc sch wk f') <> crc_update 0 (bX St enc_tok Sess cenc sch wk f) ->
  reads St dec_tok Sess cdec cf sch
        (r_init St Sess (wout wk ++ bX St enc_tok Sess cenc sch wk f' ++ bY St enc_tok Sess cenc sch wk f ++ Q) st0 s0) dests
  = spec_reads EIntegrity pre [] (map flen dests).
Proof. exact payload_damage_reads. Qed.
Print Assumptions C07_payload_damage_reads.

(* ---------------------------------------------------------------- damage to the batch-length token *)
(* the bytes the checksum covers start with the length token (Encoder.Write resets the CRC before
   Encode(f.Len()), Read resets it before Decode(&n): pinned by C07_gen_crc_events) *)
Theorem C07_checksum_covers_length :
  forall (St : Type) (enc_tok : St -> token -> list N * St) (Sess : Type)
         (cenc : Sess -> list Z -> list Z * Sess) sch (w : wstate St Sess) f,
  bX St enc_tok Sess cenc sch w f
  = fst (enc_tok (wst w) (TLen (Z.of_nat (flen f))))
    ++ bytes_of St enc_tok (snd (enc_tok (wst w) (TLen (Z.of_nat (flen f))))) (cols_toks Sess cenc (wsess w) sch f).
Proof. reflexivity. Qed.

(* where nothing but the checksum protects the length - every column uses the bulk custom codec,
   whose Decode copies whatever slice it received - one flipped bit of the length token that
   still reads as a length n' is detected: the batches before k, then a checksum error for ever *)
Theorem C07_length_flip_detected :
  forall (St : Type) (enc_tok : St -> token -> list N * St) (dec_tok : St -> list N -> dres St)
         (Sess : Type) (cenc cdec : Sess -> list Z -> list Z * Sess) (cf : cfg),
  (forall s t rest, dec_tok s (fst (enc_tok s t) ++ rest)
                    = DOk t (length (fst (enc_tok s t))) (snd (enc_tok s t))) ->
  (forall s v, cdec s (fst (cenc s v)) = (v, snd (cenc s v))) ->
  forall sch st0 s0 pre f n' Q dests j,
  let wk := fold_left (enc_write St enc_tok Sess cenc sch) pre (w_init St Sess st0 s0) in
  let L := fst (enc_tok (wst wk) (TLen (Z.of_nat (flen f)))) in
  let st1 := snd (enc_tok (wst wk) (TLen (Z.of_nat (flen f)))) in
  let C := bytes_of St enc_tok st1 (cols_toks Sess cenc (wsess wk) sch f) in
  Forall (fun k => k = KCodecBulk) sch ->
  Forall (wf_frame sch) pre -> wf_frame sch f -> Forall (wf_frame sch) dests ->
  snd (enc_tok (wst wk) (TLen (Z.of_nat n'))) = st1 ->
  (j < 8 * length L)%nat -> fst (enc_tok (wst wk) (TLen (Z.of_nat n'))) = flip_bit L j ->
  reads St dec_tok Sess cdec cf sch
        (r_init St Sess (wout wk ++ flip_bit L j ++ C ++ bY St enc_tok Sess cenc sch wk f ++ Q) st0 s0) dests
  = spec_reads EIntegrity pre [] (map flen dests).
Proof. exact length_flip_bulk_reads. Qed.
Print Assumptions C07_length_flip_detected.

(* ---------------------------------------------------------------- truncation *)
(* cut strictly inside a token of batch k (after its length token): the batches before k, then
   io.ErrUnexpectedEOF for ever; never end-of-stream *)
Theorem C07_truncation_not_eof :
  forall (St : Type) (enc_tok : St -> token -> list N * St) (dec_tok : St -> list N -> dres St)
         (Sess : Type) (cenc cdec : Sess -> list Z -> list Z * Sess) (cf : cfg),
  (forall s t rest, dec_tok s (fst (enc_tok s t) ++ rest)
                    = DOk t (length (fst (enc_tok s t))) (snd (enc_tok s t))) ->
  (forall s t p q, fst (enc_tok s t) = p ++ q -> p <> [] -> q <> [] -> dec_tok s p = DUnexpectedEOF) ->
  (forall s v, cdec s (fst (cenc s v)) = (v, snd (cenc s v))) ->
  forall sch st0 s0 pre f dests i p q,
  let wk := fold_left (enc_write St enc_tok Sess cenc sch) pre (w_init St Sess st0 s0) in
  let toks := full_toks St enc_tok Sess cenc sch wk f in
  Forall (wf_frame sch) pre -> wf_frame sch f -> Forall (wf_frame sch) dests ->
  (1 <= i < length toks)%nat ->
  fst (enc_tok (st_after St enc_tok (wst wk) (firstn i toks)) (nth i toks dflt)) = p ++ q ->
  p <> [] -> q <> [] ->
  reads St dec_tok Sess cdec cf sch
        (r_init St Sess (wout wk ++ bytes_of St enc_tok (wst wk) (firstn i toks) ++ p) st0 s0) dests
  = spec_reads EUnexpected pre [] (map flen dests).
Proof. exact truncation_inside_token. Qed.
Print Assumptions C07_truncation_not_eof.

(* cut exactly at a token boundary inside batch k: the outcome is decided by the token that was
   expected next (any configuration) *)
Theorem C07_truncation_at_boundary :
  forall (St : Type) (enc_tok : St -> token -> list N * St) (dec_tok : St -> list N -> dres St)
         (Sess : Type) (cenc cdec : Sess -> list Z -> list Z * Sess) (cf : cfg),
  (forall s t rest, dec_tok s (fst (enc_tok s t) ++ rest)
                    = DOk t (length (fst (enc_tok s t))) (snd (enc_tok s t))) ->
  (forall s, dec_tok s [] = DIoEOF) ->
  (forall s v, cdec s (fst (cenc s v)) = (v, snd (cenc s v))) ->
  forall sch st0 s0 pre f dests i,
  let wk := fold_left (enc_write St enc_tok Sess cenc sch) pre (w_init St Sess st0 s0) in
  let toks := full_toks St enc_tok Sess cenc sch wk f in
  Forall (wf_frame sch) pre -> wf_frame sch f -> Forall (wf_frame sch) dests ->
  (1 <= i < length toks)%nat ->
  reads St dec_tok Sess cdec cf sch
        (r_init St Sess (wout wk ++ bytes_of St enc_tok (wst wk) (firstn i toks)) st0 s0) dests
  = spec_reads (cut_err_tok cf SIoEOF (nth i toks dflt)) pre [] (map flen dests).
Proof. exact truncation_at_boundary. Qed.
Print Assumptions C07_truncation_at_boundary.

(* THE CODE AS IT IS: any cut strictly inside batch k - inside a token or at a token boundary,
   including inside the length token - yields the batches before k and then an error that is
   not end-of-stream, for ever *)
Theorem C07_truncation_never_eof :
  forall (St : Type) (enc_tok : St -> token -> list N * St) (dec_tok : St -> list N -> dres St)
         (Sess : Type) (cenc cdec : Sess -> list Z -> list Z * Sess),
  (forall s t rest, dec_tok s (fst (enc_tok s t) ++ rest)
                    = DOk t (length (fst (enc_tok s t))) (snd (enc_tok s t))) ->
  (forall s, dec_tok s [] = DIoEOF) ->
  (forall s t p q, fst (enc_tok s t) = p ++ q -> p <> [] -> q <> [] -> dec_tok s p = DUnexpectedEOF) ->
  (forall s v, cdec s (fst (cenc s v)) = (v, snd (cenc s v))) ->
  forall sch st0 s0 pre f dests i p q,
  let wk := fold_left (enc_write St enc_tok Sess cenc sch) pre (w_init St Sess st0 s0) in
  let toks := full_toks St enc_tok Sess cenc sch wk f in
  Forall (wf_frame sch) pre -> wf_frame sch f -> Forall (wf_frame sch) dests ->
  (i < length toks)%nat ->
  fst (enc_tok (st_after St enc_tok (wst wk) (firstn i toks)) (nth i toks dflt)) = p ++ q ->
  q <> [] -> ((1 <= i)%nat \/ p <> []) ->
  exists e, e <> EEOF /\
    reads St dec_tok Sess cdec code_cfg sch
          (r_init St Sess (wout wk ++ bytes_of St enc_tok (wst wk) (firstn i toks) ++ p) st0 s0) dests
    = spec_reads e pre [] (map flen dests).
Proof.
  intros St enc_tok dec_tok Sess cenc cdec H1 H2 H3 H4 sch st0 s0 pre f dests i p q.
  exact (truncation_never_eof St enc_tok dec_tok Sess cenc cdec code_cfg H1 H2 H3 H4 sch st0 s0 pre f dests i p q eq_refl).
Qed.
Print Assumptions C07_truncation_never_eof.

(* THE CODE AS IT IS: a negative batch length is an error for ever (never a panic), after the
   batches before it, whatever bytes follow *)
Theorem C07_negative_length_is_error :
  forall (St : Type) (enc_tok : St -> token -> list N * St) (dec_tok : St -> list N -> dres St)
         (Sess : Type) (cenc cdec : Sess -> list Z -> list Z * Sess),
  (forall s t rest, dec_tok s (fst (enc_tok s t) ++ rest)
                    = DOk t (length (fst (enc_tok s t))) (snd (enc_tok s t))) ->
  (forall s v, cdec s (fst (cenc s v)) = (v, snd (cenc s v))) ->
  forall sch st0 s0 pre n Q dests,
  let wk := fold_left (enc_write St enc_tok Sess cenc sch) pre (w_init St Sess st0 s0) in
  (n < 0)%Z -> Forall (wf_frame sch) pre -> Forall (wf_frame sch) dests ->
  reads St dec_tok Sess cdec code_cfg sch
        (r_init St Sess (wout wk ++ fst (enc_tok (wst wk) (TLen n)) ++ Q) st0 s0) dests
  = spec_reads EBadLen pre [] (map flen dests).
Proof.
  intros St enc_tok dec_tok Sess cenc cdec H1 H4 sch st0 s0 pre n Q dests.
  exact (negative_length_reads St enc_tok dec_tok Sess cenc cdec code_cfg H1 H4 sch st0 s0 pre n Q dests eq_refl).
Qed.
Print Assumptions C07_negative_length_is_error.

(* THE CODE AS IT IS: a batch length that disagrees with the element count of the first,
   gob-encoded column is an integrity error for ever (never a panic), whatever bytes follow *)
Theorem C07_length_mismatch_is_error :
  forall (St : Type) (enc_tok : St -> token -> list N * St) (dec_tok : St -> list N -> dres St)
         (Sess : Type) (cenc cdec : Sess -> list Z -> list Z * Sess),
  (forall s t rest, dec_tok s (fst (enc_tok s t) ++ rest)
                    = DOk t (length (fst (enc_tok s t))) (snd (enc_tok s t))) ->
  (forall s v, cdec s (fst (cenc s v)) = (v, snd (cenc s v))) ->
  forall sch st0 s0 pre n' cl Q dests k ks,
  let wk := fold_left (enc_write St enc_tok Sess cenc sch) pre (w_init St Sess st0 s0) in
  sch = k :: ks -> length cl <> n' ->
  Forall (wf_frame sch) pre -> Forall (wf_frame sch) dests ->
  reads St dec_tok Sess cdec code_cfg sch
        (r_init St Sess (wout wk ++ bytes_of St enc_tok (wst wk) [TLen (Z.of_nat n'); TFlag false; TCol cl] ++ Q) st0 s0) dests
  = spec_reads EIntegrity pre [] (map flen dests).
Proof.
  intros St enc_tok dec_tok Sess cenc cdec H1 H4 sch st0 s0 pre n' cl Q dests k ks.
  exact (length_mismatch_reads St enc_tok dec_tok Sess cenc cdec code_cfg H1 H4 sch st0 s0 pre n' cl Q dests k ks eq_refl).
Qed.
Print Assumptions C07_length_mismatch_is_error.

(* ---------------------------------------------------------------- the three repaired defects, as witnesses about [defective_cfg] *)
(* before repair 2 the outcome of a cut before a gob-encoded column was end-of-stream ... *)
Theorem C07_trunc_boundary_defective : forall cf d, fix_eof cf = false -> cut_err_tok cf SIoEOF (TCol d) = EEOF.
Proof. exact cut_before_gob_column_was_eof. Qed.
(* ... with it, never *)
Theorem C07_trunc_boundary_fixed : forall cf term next, fix_eof cf = true -> cut_err_tok cf term next <> EEOF.
Proof. exact cut_fixed_never_eof. Qed.

Theorem C07_trunc_boundary_defective_witness :
  exists sch batches cut dests,
    Forall (wf_frame sch) batches /\ Forall (wf_frame sch) dests /\
    (0 < cut < length (toy_encode sch batches))%nat /\ rows_of batches = 3%nat /\
    toy_reads defective_cfg sch (firstn cut (toy_encode sch batches)) dests = [RErr EEOF; RErr EEOF] /\
    toy_reads code_cfg sch (firstn cut (toy_encode sch batches)) dests = [RErr EUnexpected; RErr EUnexpected].
Proof. exact trunc_boundary_defective_witness. Qed.
Print Assumptions C07_trunc_boundary_defective_witness.

Theorem C07_negative_length_defective_witness :
  exists sch inp dests, Forall (wf_frame sch) dests /\
    toy_reads defective_cfg sch inp dests = [RPanic] /\
    toy_reads code_cfg sch inp dests = [RErr EBadLen; RErr EBadLen].
Proof. exact negative_length_defective_witness. Qed.
Print Assumptions C07_negative_length_defective_witness.

Theorem C07_length_mismatch_defective_witness :
  exists sch inp dests, Forall (wf_frame sch) dests /\
    toy_reads defective_cfg sch inp dests = [RErr ERawEOF; RErr ERawEOF] /\
    toy_reads code_cfg sch inp dests = [RErr EIntegrity; RErr EIntegrity].
Proof. exact length_mismatch_defective_witness. Qed.
Print Assumptions C07_length_mismatch_defective_witness.

(* C07 — Row streams decode to the rows written; corruption is detected, never returned.
   Only restated theorems, each closed by [exact], with Print Assumptions.

   gob is abstracted: every theorem below that mentions [enc_tok]/[dec_tok] holds for
   ANY token codec satisfying the three stated hypotheses (injective self-delimiting
   encoding; io.EOF on empty input; io.ErrUnexpectedEOF on a cut inside a token), any
   custom column codec whose Decode inverts its Encode, and either setting [cf] of the
   two proposed fixes unless it says [code_cfg]. *)
From Coq Require Import String.
From Coq Require Import List ZArith NArith Bool.
Import ListNotations.
Require Import BS.C07.Model BS.C07.Script BS.C07.CrcProofs BS.C07.Lists BS.C07.Batch
               BS.C07.Proofs BS.C07.SpecProofs BS.C07.Toy BS.C07.Main BS.Gen.C07_params.

(* ---------------------------------------------------------------- tie to the source *)
(* both ends use crc32.NewIEEE: the table modelled in Crc.v *)
Theorem C07_gen_crc_table :
  codec_enc_crc_ctor = ["crc32.NewIEEE"%string] /\ codec_dec_crc_ctor = ["crc32.NewIEEE"%string].
Proof. split; reflexivity. Qed.
(* the running checksum: reset at the start of Write and of each batch read, sampled before the checksum token *)
Theorem C07_gen_crc_events :
  codec_write_crc_calls = ["Reset"%string; "Sum32"%string]
  /\ codec_read_crc_calls = ["Reset"%string] /\ codec_decode_crc_calls = ["Sum32"%string].
Proof. repeat split; reflexivity. Qed.
(* decode zeroes the destination first *)
Theorem C07_gen_zero_first : codec_decode_first_stmt = "f.Zero()"%string.
Proof. reflexivity. Qed.
(* one io.EOF conversion in Read, one in decode *)
Theorem C07_gen_eof_conversions : codec_eof_compares = [1; 1]%Z.
Proof. reflexivity. Qed.
(* the gob calls per batch: length, per column flag + value, checksum *)
Theorem C07_gen_token_order :
  codec_write_enc_calls = ["Encode"%string; "Encode"%string; "EncodeValue"%string; "Encode"%string]
  /\ codec_decode_dec_calls = ["Decode"%string; "DecodeValue"%string; "Decode"%string].
Proof. split; reflexivity. Qed.

(* ---------------------------------------------------------------- CRC-32 *)
Theorem C07_crc_table_is_8_steps : forall s x, crc_byte_table s x = crc_byte_serial s x.
Proof. exact table_is_8_steps. Qed.
Theorem C07_crc_update_is_serial : forall crc p, crc_update crc p = crc_update_serial crc p.
Proof. exact crc_update_is_serial. Qed.
Theorem C07_crc_write_concat : forall crc p q, crc_update (crc_update crc p) q = crc_update crc (p ++ q).
Proof. exact crc_update_app. Qed.
Theorem C07_crc_step_injective : forall b s1 s2, reg s1 -> reg s2 -> crc_bit s1 b = crc_bit s2 b -> s1 = s2.
Proof. exact crc_step_injective. Qed.
Theorem C07_crc_step_surjective : forall b t, reg t -> exists s, reg s /\ crc_bit s b = t.
Proof. exact crc_step_surjective. Qed.
Theorem C07_crc_bits_single_flip : forall l k s,
  reg s -> (k < length l)%nat -> crc_bits s (flip_nth l k) <> crc_bits s l.
Proof. exact crc_bits_single_flip. Qed.
Theorem C07_crc_detects_single_flip : forall crc p k,
  reg crc -> (k < 8 * length p)%nat -> crc_update crc (flip_bit p k) <> crc_update crc p.
Proof. exact crc_detects_single_flip. Qed.
Theorem C07_crc_detects_flip_then_suffix : forall crc p k q,
  reg crc -> (k < 8 * length p)%nat -> crc_update crc (flip_bit p k ++ q) <> crc_update crc (p ++ q).
Proof. exact crc_detects_flip_then_suffix. Qed.
Print Assumptions C07_crc_table_is_8_steps.
Print Assumptions C07_crc_detects_single_flip.

(* ---------------------------------------------------------------- round trip *)
(* per call: the reader over the encoder's bytes behaves exactly as the specification
   [spec_reads] (pending rows first, else the next batch, whole or cut to the destination;
   EOF for ever at the end), for any batches and any destination frames *)
Theorem C07_roundtrip_reads :
  forall (St : Type) (enc_tok : St -> token -> list N * St) (dec_tok : St -> list N -> dres St)
         (Sess : Type) (cenc cdec : Sess -> list Z -> list Z * Sess) (cf : cfg),
  (forall s t rest, dec_tok s (fst (enc_tok s t) ++ rest)
                    = DOk t (length (fst (enc_tok s t))) (snd (enc_tok s t))) ->
  (forall s, dec_tok s [] = DIoEOF) ->
  (forall s v, cdec s (fst (cenc s v)) = (v, snd (cenc s v))) ->
  forall sch st0 s0 batches dests,
  Forall (wf_frame sch) batches -> Forall (wf_frame sch) dests ->
  reads St dec_tok Sess cdec cf sch
        (r_init St Sess (wout (encode_all St enc_tok Sess cenc st0 s0 sch batches)) st0 s0) dests
  = spec_reads EEOF batches [] (map flen dests).
Proof. exact roundtrip_reads. Qed.
Print Assumptions C07_roundtrip_reads.

(* rows: destinations of at least one row, enough Reads: exactly the rows written, then EOF *)
Theorem C07_roundtrip :
  forall (St : Type) (enc_tok : St -> token -> list N * St) (dec_tok : St -> list N -> dres St)
         (Sess : Type) (cenc cdec : Sess -> list Z -> list Z * Sess) (cf : cfg),
  (forall s t rest, dec_tok s (fst (enc_tok s t) ++ rest)
                    = DOk t (length (fst (enc_tok s t))) (snd (enc_tok s t))) ->
  (forall s, dec_tok s [] = DIoEOF) ->
  (forall s v, cdec s (fst (cenc s v)) = (v, snd (cenc s v))) ->
  forall sch st0 s0 batches dests,
  Forall (wf_frame sch) batches -> Forall (wf_frame sch) dests ->
  Forall (fun d => 1 <= flen d)%nat dests ->
  (rows_of batches + length batches < length dests)%nat ->
  let res := reads St dec_tok Sess cdec cf sch
               (r_init St Sess (wout (encode_all St enc_tok Sess cenc st0 s0 sch batches)) st0 s0) dests in
  colcat (length sch) (delivered res) = colcat (length sch) batches
  /\ last res (ROk 0 []) = RErr EEOF.
Proof. exact roundtrip. Qed.
Print Assumptions C07_roundtrip.

(* any number of Reads of any sizes: never anything but a prefix of the rows written *)
Theorem C07_roundtrip_prefix :
  forall (St : Type) (enc_tok : St -> token -> list N * St) (dec_tok : St -> list N -> dres St)
         (Sess : Type) (cenc cdec : Sess -> list Z -> list Z * Sess) (cf : cfg),
  (forall s t rest, dec_tok s (fst (enc_tok s t) ++ rest)
                    = DOk t (length (fst (enc_tok s t))) (snd (enc_tok s t))) ->
  (forall s, dec_tok s [] = DIoEOF) ->
  (forall s v, cdec s (fst (cenc s v)) = (v, snd (cenc s v))) ->
  forall sch st0 s0 batches dests c,
  Forall (wf_frame sch) batches -> Forall (wf_frame sch) dests -> (c < length sch)%nat ->
  let res := reads St dec_tok Sess cdec cf sch
               (r_init St Sess (wout (encode_all St enc_tok Sess cenc st0 s0 sch batches)) st0 s0) dests in
  exists rest, nth c (colcat (length sch) batches) []
               = nth c (colcat (length sch) (delivered res)) [] ++ rest.
Proof. exact roundtrip_prefix. Qed.
Print Assumptions C07_roundtrip_prefix.

(* the hypotheses are satisfiable: the closed instance over the toy codec and the delta column codec *)
Theorem C07_roundtrip_toy : forall cf sch batches dests,
  Forall (wf_frame sch) batches -> Forall (wf_frame sch) dests ->
  Forall (fun d => 1 <= flen d)%nat dests ->
  (rows_of batches + length batches < length dests)%nat ->
  let res := toy_reads cf sch (toy_encode sch batches) dests in
  colcat (length sch) (delivered res) = colcat (length sch) batches
  /\ last res (ROk 0 []) = RErr EEOF.
Proof. exact toy_roundtrip. Qed.
Print Assumptions C07_roundtrip_toy.

(* ---------------------------------------------------------------- payload damage *)
(* layout of the undamaged stream around batch k *)
Theorem C07_stream_layout :
  forall (St : Type) (enc_tok : St -> token -> list N * St) (dec_tok : St -> list N -> dres St)
         (Sess : Type) (cenc : Sess -> list Z -> list Z * Sess),
  (forall s t rest, dec_tok s (fst (enc_tok s t) ++ rest)
                    = DOk t (length (fst (enc_tok s t))) (snd (enc_tok s t))) ->
  forall sch st0 s0 pre f post,
  let wk := fold_left (enc_write St enc_tok Sess cenc sch) pre (w_init St Sess st0 s0) in
  let wk1 := enc_write St enc_tok Sess cenc sch wk f in
  let Q := skipn (length (wout wk1)) (wout (fold_left (enc_write St enc_tok Sess cenc sch) post wk1)) in
  wout (encode_all St enc_tok Sess cenc st0 s0 sch (pre ++ f :: post))
  = wout wk ++ bX St enc_tok Sess cenc sch wk f ++ bY St enc_tok Sess cenc sch wk f ++ Q.
Proof. exact stream_layout. Qed.

(* one flipped bit in the checksummed bytes of batch k, token structure intact: the rows of the
   batches before k, then a checksum error; never end-of-stream *)
Theorem C07_payload_damage_detected :
  forall (St : Type) (enc_tok : St -> token -> list N * St) (dec_tok : St -> list N -> dres St)
         (Sess : Type) (cenc cdec : Sess -> list Z -> list Z * Sess) (cf : cfg),
  (forall s t rest, dec_tok s (fst (enc_tok s t) ++ rest)
                    = DOk t (length (fst (enc_tok s t))) (snd (enc_tok s t))) ->
  (forall s, dec_tok s [] = DIoEOF) ->
  (forall s v, cdec s (fst (cenc s v)) = (v, snd (cenc s v))) ->
  forall sch st0 s0 pre f f' post dests j,
  let wk := fold_left (enc_write St enc_tok Sess cenc sch) pre (w_init St Sess st0 s0) in
  let wk1 := enc_write St enc_tok Sess cenc sch wk f in
  let Q := skipn (length (wout wk1)) (wout (fold_left (enc_write St enc_tok Sess cenc sch) post wk1)) in
  Forall (wf_frame sch) pre -> wf_frame sch f' -> Forall (wf_frame sch) dests ->
  Forall (fun d => 1 <= flen d)%nat dests -> (rows_of pre + length pre < length dests)%nat ->
  st_after St enc_tok (wst wk) (bt St Sess cenc sch wk f') = st_after St enc_tok (wst wk) (bt St Sess cenc sch wk f) ->
  (j < 8 * length (bX St enc_tok Sess cenc sch wk f))%nat ->
  bX St enc_tok Sess cenc sch wk f' = flip_bit (bX St enc_tok Sess cenc sch wk f) j ->
  let res := reads St dec_tok Sess cdec cf sch
               (r_init St Sess (wout wk ++ flip_bit (bX St enc_tok Sess cenc sch wk f) j
                                ++ bY St enc_tok Sess cenc sch wk f ++ Q) st0 s0) dests in
  colcat (length sch) (delivered res) = colcat (length sch) pre
  /\ last res (ROk 0 []) = RErr EIntegrity
  /\ ~ In (RErr EEOF) res.
Proof. exact payload_flip_detected. Qed.
Print Assumptions C07_payload_damage_detected.

(* any replacement of the checksummed bytes whose CRC differs (bursts), per call *)
Theorem C07_payload_damage_reads :
  forall (St : Type) (enc_tok : St -> token -> list N * St) (dec_tok : St -> list N -> dres St)
         (Sess : Type) (cenc cdec : Sess -> list Z -> list Z * Sess) (cf : cfg),
  (forall s t rest, dec_tok s (fst (enc_tok s t) ++ rest)
                    = DOk t (length (fst (enc_tok s t))) (snd (enc_tok s t))) ->
  (forall s, dec_tok s [] = DIoEOF) ->
  (forall s v, cdec s (fst (cenc s v)) = (v, snd (cenc s v))) ->
  forall sch st0 s0 pre f f' post dests,
  let wk := fold_left (enc_write St enc_tok Sess cenc sch) pre (w_init St Sess st0 s0) in
  let wk1 := enc_write St enc_tok Sess cenc sch wk f in
  let Q := skipn (length (wout wk1)) (wout (fold_left (enc_write St enc_tok Sess cenc sch) post wk1)) in
  Forall (wf_frame sch) pre -> wf_frame sch f' -> Forall (wf_frame sch) dests ->
  st_after St enc_tok (wst wk) (bt St Sess cenc sch wk f') = st_after St enc_tok (wst wk) (bt St Sess cenc sch wk f) ->
  crc_update 0 (bX St enc_tok Sess cenc sch wk f') <> crc_update 0 (bX St enc_tok Sess cenc sch wk f) ->
  reads St dec_tok Sess cdec cf sch
        (r_init St Sess (wout wk ++ bX St enc_tok Sess cenc sch wk f' ++ bY St enc_tok Sess cenc sch wk f ++ Q) st0 s0) dests
  = spec_reads EIntegrity pre [] (map flen dests).
Proof. exact payload_damage_reads. Qed.
Print Assumptions C07_payload_damage_reads.

(* ---------------------------------------------------------------- truncation *)
(* cut strictly inside a token of batch k (after its length token): the batches before k, then
   io.ErrUnexpectedEOF for ever; never end-of-stream *)
Theorem C07_truncation_not_eof :
  forall (St : Type) (enc_tok : St -> token -> list N * St) (dec_tok : St -> list N -> dres St)
         (Sess : Type) (cenc cdec : Sess -> list Z -> list Z * Sess) (cf : cfg),
  (forall s t rest, dec_tok s (fst (enc_tok s t) ++ rest)
                    = DOk t (length (fst (enc_tok s t))) (snd (enc_tok s t))) ->
  (forall s t p q, fst (enc_tok s t) = p ++ q -> p <> [] -> q <> [] -> dec_tok s p = DUnexpectedEOF) ->
  (forall s v, cdec s (fst (cenc s v)) = (v, snd (cenc s v))) ->
  forall sch st0 s0 pre f dests i p q,
  let wk := fold_left (enc_write St enc_tok Sess cenc sch) pre (w_init St Sess st0 s0) in
  let toks := full_toks St enc_tok Sess cenc sch wk f in
  Forall (wf_frame sch) pre -> wf_frame sch f -> Forall (wf_frame sch) dests ->
  (1 <= i < length toks)%nat ->
  fst (enc_tok (st_after St enc_tok (wst wk) (firstn i toks)) (nth i toks dflt)) = p ++ q ->
  p <> [] -> q <> [] ->
  reads St dec_tok Sess cdec cf sch
        (r_init St Sess (wout wk ++ bytes_of St enc_tok (wst wk) (firstn i toks) ++ p) st0 s0) dests
  = spec_reads EUnexpected pre [] (map flen dests).
Proof. exact truncation_inside_token. Qed.
Print Assumptions C07_truncation_not_eof.

(* cut exactly at a token boundary inside batch k: the outcome is decided by the token that was
   expected next ... *)
Theorem C07_truncation_at_boundary :
  forall (St : Type) (enc_tok : St -> token -> list N * St) (dec_tok : St -> list N -> dres St)
         (Sess : Type) (cenc cdec : Sess -> list Z -> list Z * Sess) (cf : cfg),
  (forall s t rest, dec_tok s (fst (enc_tok s t) ++ rest)
                    = DOk t (length (fst (enc_tok s t))) (snd (enc_tok s t))) ->
  (forall s, dec_tok s [] = DIoEOF) ->
  (forall s v, cdec s (fst (cenc s v)) = (v, snd (cenc s v))) ->
  forall sch st0 s0 pre f dests i,
  let wk := fold_left (enc_write St enc_tok Sess cenc sch) pre (w_init St Sess st0 s0) in
  let toks := full_toks St enc_tok Sess cenc sch wk f in
  Forall (wf_frame sch) pre -> wf_frame sch f -> Forall (wf_frame sch) dests ->
  (1 <= i < length toks)%nat ->
  reads St dec_tok Sess cdec cf sch
        (r_init St Sess (wout wk ++ bytes_of St enc_tok (wst wk) (firstn i toks)) st0 s0) dests
  = spec_reads (cut_err_tok cf SIoEOF (nth i toks dflt)) pre [] (map flen dests).
Proof. exact truncation_at_boundary. Qed.
Print Assumptions C07_truncation_at_boundary.

(* ... REFUTED for codec.go as it is: before a gob-encoded column that outcome is end-of-stream *)
Theorem C07_trunc_boundary_silent : forall cf d, fix_eof cf = false -> cut_err_tok cf SIoEOF (TCol d) = EEOF.
Proof. exact cut_before_gob_column_is_eof. Qed.

Theorem C07_trunc_boundary_refuted :
  exists sch batches cut dests,
    Forall (wf_frame sch) batches /\ Forall (wf_frame sch) dests /\
    (0 < cut < length (toy_encode sch batches))%nat /\ rows_of batches = 3%nat /\
    toy_reads code_cfg sch (firstn cut (toy_encode sch batches)) dests = [RErr EEOF; RErr EEOF].
Proof. exact trunc_boundary_refuted. Qed.
Print Assumptions C07_trunc_boundary_refuted.

(* with proposed fix 2 no cut inside a batch is end-of-stream *)
Theorem C07_trunc_boundary_fixed : forall cf term next, fix_eof cf = true -> cut_err_tok cf term next <> EEOF.
Proof. exact cut_fixed_never_eof. Qed.

(* ---------------------------------------------------------------- REFUTED: a negative length panics *)
Theorem C07_negative_length_refuted :
  exists sch inp dests, Forall (wf_frame sch) dests /\ toy_reads code_cfg sch inp dests = [RPanic].
Proof. exact negative_length_refuted. Qed.
Print Assumptions C07_negative_length_refuted.

(* C15 — correspondence drivers: evaluated by vm_compute on harness case files. *)
From Coq Require Import List ZArith Bool.
Import ListNotations.
Require Export BS.Common.Util BS.C15.Model.

Inductive skind := KFile | KMem.

(* one observed store operation: what the implementation returned, and whether an
   injected file failure fired while it ran *)
Record sobs := mkSO { so_res : sres; so_fault : bool }.

Inductive case :=
| CStore (k : skind) (orc : list bool) (ops : list sop) (obs : list sobs) (temps : nat)
| CRetry (stream : list Z) (eager : bool) (script : list outcome) (sizes : list nat)
         (res : list (list Z * status)) (tr : list event).

(* ---- decidable equalities on observables ---- *)
Definition bytes_eqb := list_eqb Z.eqb.

Definition ecls_eqb (a b : ecls) : bool :=
  match a, b with
  | ENotExist, ENotExist | EExists, EExists | EInvalid, EInvalid
  | EInjected, EInjected | ETooMany, ETooMany | EOther, EOther => true
  | _, _ => false
  end.

Definition status_eqb (a b : status) : bool :=
  match a, b with
  | SNil, SNil | SEOF, SEOF | SStuck, SStuck | SPanic, SPanic => true
  | SErr x, SErr y => ecls_eqb x y
  | _, _ => false
  end.

Definition sres_eqb (a b : sres) : bool :=
  match a, b with
  | ROk, ROk | RSkip, RSkip | RPanic, RPanic | RHang, RHang => true
  | RErr x, RErr y => ecls_eqb x y
  | RRead g1 s1 c1, RRead g2 s2 c2 => bytes_eqb g1 g2 && status_eqb s1 s2 && status_eqb c1 c2
  | RStat a1 b1, RStat a2 b2 => Z.eqb a1 a2 && Z.eqb b1 b2
  | _, _ => false
  end.

Definition event_eqb (a b : event) : bool :=
  match a, b with
  | EvOpen o1 k1, EvOpen o2 k2 => Nat.eqb o1 o2 && Bool.eqb k1 k2
  | EvRead n1 s1, EvRead n2 s2 => Nat.eqb n1 n2 && status_eqb s1 s2
  | EvClose, EvClose => true
  | _, _ => false
  end.

(* ================================================================== *)
(* exact agreement of the model (the code as it is: code_cfg)          *)
(* ================================================================== *)
Definition client_init (k : skind) (orc : list bool) : client :=
  match k with
  | KFile => mkC (SFile (fsw_init orc)) None
  | KMem => mkC (SMem ms_init) None
  end.

Definition oracle_of (s : store) : list bool := match s with SFile w => oracle w | SMem _ => [] end.

(* did an injected failure fire between two states? (the consumed oracle entries) *)
Definition fired (before after : store) : bool :=
  let o := oracle_of before in
  existsb (fun b => b) (firstn (length o - length (oracle_of after)) o).

Fixpoint store_exact (c : cfg) (cl : client) (ops : list sop) (obs : list sobs) : bool * client :=
  match ops, obs with
  | [], [] => (true, cl)
  | o :: ops', ob :: obs' =>
      let '(cl1, r) := step c cl o in
      if sres_eqb r (so_res ob) && Bool.eqb (fired (cstore cl) (cstore cl1)) (so_fault ob)
      then store_exact c cl1 ops' obs'
      else (false, cl1)
  | _, _ => (false, cl)
  end.

Definition result_eqb (a b : list Z * status) : bool :=
  bytes_eqb (fst a) (fst b) && status_eqb (snd a) (snd b).

Definition case_exact (c : case) : bool :=
  match c with
  | CStore k orc ops obs temps =>
      let '(ok, cl) := store_exact code_cfg (client_init k orc) ops obs in
      ok && Nat.eqb (temps_of (cstore cl)) temps
  | CRetry stream eager script sizes res tr =>
      let '(res', tr') := rr_session stream eager script sizes in
      list_eqb result_eqb res' res && list_eqb event_eqb tr' tr
  end.

(* ================================================================== *)
(* the property, judged on the observed behaviour only                 *)
(* ================================================================== *)

(* --- stores.  The judge tracks, from the observed results alone:
       pend    : the live writer's partition and the bytes whose Write returned ok
       allowed : per partition, the entry states the property permits now
                 (None = not visible, Some (data, count) = visible with exactly that)
     A commit that returned ok pins the state to its data; a commit or discard that
     returned an error leaves both possibilities open. *)
Notation entry := (option (list Z * Z)) (only parsing).
Record judge := mkJ { jpend : option (nat * list Z); jallowed : nat -> list (option (list Z * Z)) }.
Definition judge_init : judge := mkJ None (fun _ => [None]).

Definition is_prefix (a b : list Z) : bool := bytes_eqb a (firstn (length a) b).

Definition has_none (l : list (option (list Z * Z))) : bool :=
  existsb (fun e => match e with None => true | Some _ => false end) l.

Definition open_ok (off : nat) (ob : sobs) (al : list (option (list Z * Z))) : bool :=
  match so_res ob with
  | RErr ENotExist => has_none al
  | RErr _ =>
      so_fault ob
      || existsb (fun e => match e with Some (d, _) => (length d <? off)%nat | None => false end) al
  | RRead got st _ =>
      existsb (fun e => match e with
                        | Some (d, _) =>
                            match st with
                            | SEOF => bytes_eqb got (skipn off d)
                            | SErr _ => so_fault ob && is_prefix got (skipn off d)
                            | _ => false
                            end
                        | None => false
                        end) al
  | _ => false
  end.

Definition stat_ok (ob : sobs) (al : list (option (list Z * Z))) : bool :=
  match so_res ob with
  | RErr ENotExist => has_none al
  | RErr _ => so_fault ob
  | RStat size cnt =>
      existsb (fun e => match e with
                        | Some (d, n) => Z.eqb size (Z.of_nat (length d)) && Z.eqb cnt n
                        | None => false
                        end) al
  | _ => false
  end.

Definition sane (r : sres) : bool :=
  match r with RPanic | RHang => false | _ => true end.

Definition judge_step (j : judge) (o : sop) (ob : sobs) : bool * judge :=
  match o with
  | OCreate p =>
      (sane (so_res ob),
       match so_res ob with ROk => mkJ (Some (p, [])) (jallowed j) | _ => j end)
  | OWrite d =>
      (sane (so_res ob),
       match so_res ob, jpend j with
       | ROk, Some (p, acc) => mkJ (Some (p, acc ++ d)) (jallowed j)
       | _, _ => j
       end)
  | OCommit n =>
      (sane (so_res ob),
       match jpend j with
       | Some (p, acc) =>
           match so_res ob with
           | ROk => mkJ None (upd (jallowed j) p [Some (acc, n)])
           | _ => mkJ None (upd (jallowed j) p (Some (acc, n) :: jallowed j p))
           end
       | None => j
       end)
  | OWDiscard => (sane (so_res ob), mkJ None (jallowed j))
  | OOpen p off _ => (open_ok off ob (jallowed j p), j)
  | OStat p => (stat_ok ob (jallowed j p), j)
  | ODiscard p =>
      (sane (so_res ob),
       match so_res ob with
       | ROk => mkJ (jpend j) (upd (jallowed j) p [None])
       | _ => mkJ (jpend j) (upd (jallowed j) p (None :: jallowed j p))
       end)
  end.

Fixpoint judge_run (j : judge) (ops : list sop) (obs : list sobs) : bool :=
  match ops, obs with
  | [], [] => true
  | o :: ops', ob :: obs' =>
      let '(ok, j1) := judge_step j o ob in
      ok && judge_run j1 ops' obs'
  | _, _ => false
  end.

(* --- retry reader.  del = everything Read delivered. *)
Definition delivered (res : list (list Z * status)) : list Z := concat (map fst res).

Definition is_eof (s : status) : bool := match s with SEOF => true | _ => false end.
Definition is_err (s : status) : bool := match s with SErr _ => true | _ => false end.
Definition is_sane_status (s : status) : bool :=
  match s with SNil | SEOF | SErr _ => true | _ => false end.

(* no gap, no repeat: what was delivered is an initial segment of the stream *)
Definition retry_prefix_ok (stream : list Z) (res : list (list Z * status)) : bool :=
  is_prefix (delivered res) stream.

(* EOF only when everything was delivered *)
Definition retry_eof_ok (stream : list Z) (res : list (list Z * status)) : bool :=
  negb (existsb (fun r => is_eof (snd r)) res) || bytes_eqb (delivered res) stream.

(* the run of consecutive failed attempts (open or read), reset by a successful read *)
Fixpoint fail_run (c : nat) (tr : list event) : nat :=
  match tr with
  | [] => c
  | EvOpen _ false :: r => fail_run (S c) r
  | EvRead _ (SErr _) :: r => fail_run (S c) r
  | EvRead _ _ :: r => fail_run 0 r
  | _ :: r => fail_run c r
  end.

(* once budget+1 consecutive attempts have failed nothing more is attempted *)
Fixpoint budget_respected (c : nat) (tr : list event) : bool :=
  match tr with
  | [] => true
  | EvClose :: r => budget_respected c r
  | e :: r =>
      (c <=? retry_budget)%nat &&
      match e with
      | EvOpen _ false | EvRead _ (SErr _) => budget_respected (S c) r
      | EvRead _ _ => budget_respected 0 r
      | _ => budget_respected c r
      end
  end.

(* an error is returned exactly when the budget was exhausted *)
Definition retry_error_ok (res : list (list Z * status)) (tr : list event) : bool :=
  Bool.eqb (existsb (fun r => is_err (snd r)) res) (retry_budget <? fail_run 0 tr)%nat.

Definition retry_ok (stream : list Z) (res : list (list Z * status)) (tr : list event) : bool :=
  forallb (fun r => is_sane_status (snd r)) res
  && retry_prefix_ok stream res
  && retry_eof_ok stream res
  && budget_respected 0 tr
  && retry_error_ok res tr.

Definition case_ok (c : case) : bool :=
  match c with
  | CStore _ _ ops obs _ => judge_run judge_init ops obs
  | CRetry stream _ _ _ res tr => retry_ok stream res tr
  end.

Definition mismatches (cs : list case) : list nat := bad_indices case_exact cs.
Definition violations (cs : list case) : list nat := bad_indices case_ok cs.

(* C15 — retryReader: exact resumption for all streams, all fault scripts, all
   read sizes; the retry budget. *)
From Coq Require Import List ZArith Bool Lia.
Import ListNotations.
Require Import BS.Common.Util BS.C15.Model BS.C15.Lists BS.C15.Corr.

(* ------------------------------------------------------------------ *)
(* the invariant: bytes = length delivered, delivered is the stream's  *)
(* initial segment, an open backing reader stands exactly at bytes     *)
(* ------------------------------------------------------------------ *)
Record rinv (stream del : list Z) (r : rr) : Prop := mkRinv {
  ri_bytes : r_bytes r = length del;
  ri_pref : del = firstn (length del) stream;
  ri_reader : forall pos, r_reader r = Some pos -> pos = r_bytes r;
  ri_eof : r_err r = SEOF -> del = stream
}.

Lemma rinv_le stream del r : rinv stream del r -> length del <= length stream.
Proof.
  intros [_ P _ _]. rewrite P at 1. rewrite firstn_length. lia.
Qed.

Lemma rinv_init stream : rinv stream [] rr_init.
Proof. constructor; simpl; try reflexivity; intros; discriminate. Qed.

Lemma under_read_bounds len eager o pos m n st :
  under_read len eager o pos m = (n, st) ->
  n <= len - pos /\ n <= m /\ (st = SEOF -> len <= pos + n)
  /\ (st = SNil \/ st = SEOF \/ st = SErr EInjected).
Proof.
  unfold under_read. destruct o as [|k|k].
  - intro E; inversion E; subst. repeat split; try lia; auto. discriminate.
  - destruct (len - pos) as [|rem'] eqn:R.
    + intro E; inversion E; subst. repeat split; try lia; auto.
    + intro E; inversion E; subst; clear E. repeat split; try lia; auto.
      * destruct (eager && _) eqn:B; [|discriminate]. intros _.
        apply andb_true_iff in B as [_ B]. apply Nat.eqb_eq in B. lia.
      * destruct (eager && _); auto.
  - intro E; inversion E; subst. repeat split; try lia; auto. discriminate.
Qed.

(* what one attempt does, under the invariant *)
Lemma attempt_spec stream eager sc r m del sc1 rd pos n st evs :
  rinv stream del r ->
  attempt stream eager sc r m = (sc1, rd, pos, n, st, evs) ->
  pos = length del /\ n <= length stream - pos /\ n <= m
  /\ (forall p, rd = Some p -> p = pos + n)
  /\ (st = SEOF -> length stream <= pos + n)
  /\ (st = SNil \/ st = SEOF \/ st = SErr EInjected).
Proof.
  intros I. pose proof (rinv_le _ _ _ I) as LE. destruct I as [B P R _].
  unfold attempt. destruct (r_reader r) as [p0|] eqn:RD.
  - destruct (pop sc m) as [o sc'] eqn:PO.
    destruct (under_read (length stream) eager o p0 m) as [n0 st0] eqn:U.
    intro E; inversion E; subst; clear E.
    specialize (R _ eq_refl). rewrite B in R. subst pos.
    apply under_read_bounds in U as (U1 & U2 & U3 & U4).
    repeat split; auto. intros p Hp; inversion Hp; reflexivity.
  - assert (MIN : Nat.min (r_bytes r) (length stream) = length del) by (rewrite B; lia).
    destruct sc as [|[|k|k] sc'].
    + cbn [pop]. rewrite MIN.
      destruct (under_read (length stream) eager (ODeliver m) (length del) m) as [n0 st0] eqn:U.
      intro E; inversion E; subst; clear E.
      apply under_read_bounds in U as (U1 & U2 & U3 & U4).
      repeat split; auto. intros p Hp; inversion Hp; reflexivity.
    + intro E; inversion E; subst; clear E.
      repeat split; auto; try lia; try discriminate.
    + cbn [pop]. rewrite MIN.
      destruct (under_read (length stream) eager (ODeliver k) (length del) m) as [n0 st0] eqn:U.
      intro E; inversion E; subst; clear E.
      apply under_read_bounds in U as (U1 & U2 & U3 & U4).
      repeat split; auto. intros p Hp; inversion Hp; reflexivity.
    + cbn [pop]. rewrite MIN.
      destruct (under_read (length stream) eager (OFailAfter k) (length del) m) as [n0 st0] eqn:U.
      intro E; inversion E; subst; clear E.
      apply under_read_bounds in U as (U1 & U2 & U3 & U4).
      repeat split; auto. intros p Hp; inversion Hp; reflexivity.
Qed.

Lemma chunk_extends (stream del : list Z) n :
  del = firstn (length del) stream -> n <= length stream - length del ->
  let chunk := firstn n (skipn (length del) stream) in
  length chunk = n /\ del ++ chunk = firstn (length (del ++ chunk)) stream.
Proof.
  intros P N chunk.
  assert (L : length chunk = n).
  { unfold chunk. rewrite firstn_length, skipn_length. lia. }
  split; [exact L|].
  rewrite app_length, L. rewrite firstn_add. unfold chunk. rewrite <- P. reflexivity.
Qed.

(* ---- one Read call preserves the invariant ---- *)
Lemma inv_nochunk (stream del : list Z) r (st : status) (m : nat) :
  rinv stream del r -> (st = SEOF -> del = stream) ->
  rinv stream (del ++ []) r /\ (st = SEOF -> del ++ [] = stream) /\ length (@nil Z) <= m.
Proof.
  intros I H. rewrite app_nil_r. split; [exact I | split; [exact H | simpl; lia]].
Qed.

Lemma rr_read_inv : forall fuel stream eager sc r m tr del sc' r' chunk st tr',
  rinv stream del r ->
  rr_read fuel stream eager sc r m tr = (sc', r', chunk, st, tr') ->
  rinv stream (del ++ chunk) r' /\ (st = SEOF -> del ++ chunk = stream) /\ length chunk <= m.
Proof.
  induction fuel as [|fuel IH]; intros stream eager sc r m tr del sc' r' chunk st tr' I E.
  - simpl in E. inversion E; subst. apply inv_nochunk; [exact I | discriminate].
  - cbn [rr_read] in E.
    destruct (r_err r) eqn:RE;
      try (inversion E; subst; apply inv_nochunk; [exact I | try discriminate]; fail).
    2:{ inversion E; subst. apply inv_nochunk; [exact I|]. intros _. apply (ri_eof _ _ _ I). exact RE. }
    destruct (attempt stream eager sc r m) as [[[[[sc1 rd] pos] n] st0] evs] eqn:A.
    pose proof (attempt_spec _ _ _ _ _ _ _ _ _ _ _ _ I A) as (Hpos & Hn & Hm & Hrd & Heof & Hst).
    pose proof (rinv_le _ _ _ I) as LE.
    assert (SUCC : forall s, s = SNil \/ s = SEOF ->
              (sc1, mkRR s rd (r_bytes r + n) 0, firstn n (skipn pos stream), s, tr ++ evs)
              = (sc', r', chunk, st, tr') ->
              (s = SEOF -> length stream <= pos + n) ->
              rinv stream (del ++ chunk) r' /\ (st = SEOF -> del ++ chunk = stream) /\ length chunk <= m).
    { destruct I as [B P R EO].
      intros s Hs E' Heof'. inversion E'; subst sc' r' chunk st tr'; clear E'. subst pos.
      destruct (chunk_extends stream del n P Hn) as [L PX].
      assert (FULL : s = SEOF -> del ++ firstn n (skipn (length del) stream) = stream).
      { intro S. rewrite PX. rewrite app_length, L. apply firstn_all_ge. specialize (Heof' S). lia. }
      split; [|split; [exact FULL | lia]].
      constructor; cbn [r_bytes r_reader r_err].
      - rewrite app_length, L. lia.
      - exact PX.
      - intros p Hp. rewrite (Hrd _ Hp). lia.
      - exact FULL. }
    destruct st0 as [| |e| |].
    + apply (SUCC SNil); auto; discriminate.
    + apply (SUCC SEOF); auto.
    + destruct (retry_budget <? S (r_retries r))%nat.
      * inversion E; subst. apply inv_nochunk; [|discriminate].
        destruct I as [B P R EO]. constructor; cbn [r_bytes r_reader r_err]; auto; discriminate.
      * eapply IH; [|exact E].
        destruct I as [B P R EO]. constructor; cbn [r_bytes r_reader r_err]; auto; discriminate.
    + destruct Hst as [H|[H|H]]; discriminate.
    + destruct Hst as [H|[H|H]]; discriminate.
Qed.

(* ---- the whole sequence of Read calls ---- *)
Lemma rr_run_inv : forall sizes stream eager sc r tr del res r' tr',
  rinv stream del r ->
  rr_run stream eager sc r sizes tr = (res, r', tr') ->
  rinv stream (del ++ delivered res) r'
  /\ (In SEOF (map snd res) -> del ++ delivered res = stream).
Proof.
  induction sizes as [|m rest IH]; intros stream eager sc r tr del res r' tr' I E.
  - simpl in E. inversion E; subst. unfold delivered; simpl. rewrite app_nil_r.
    split; [exact I | intros []].
  - cbn [rr_run] in E.
    destruct (rr_read rr_fuel stream eager sc r m tr) as [[[[sc1 r1] chunk] st] tr1] eqn:R1.
    destruct (rr_run stream eager sc1 r1 rest tr1) as [[res1 r2] tr2] eqn:R2.
    inversion E; subst res r' tr'; clear E.
    destruct (rr_read_inv _ _ _ _ _ _ _ _ _ _ _ _ _ I R1) as (I1 & EOF1 & _).
    destruct (IH _ _ _ _ _ _ _ _ _ I1 R2) as (I2 & EOF2).
    unfold delivered in *. cbn [map concat fst snd]. rewrite app_assoc.
    split; [exact I2|].
    intros [H|H].
    + cbn [snd] in H. specialize (EOF1 H).
      pose proof (rinv_le _ _ _ I2) as LE. rewrite EOF1 in *.
      rewrite app_length in LE.
      assert (Z0 : concat (map fst res1) = []).
      { destruct (concat (map fst res1)); [reflexivity | simpl in LE; lia]. }
      rewrite Z0. apply app_nil_r.
    + apply EOF2. exact H.
Qed.

(* ================================================================== *)
(* retry_exact                                                         *)
(* ================================================================== *)
Theorem retry_exact : forall stream eager script sizes res tr,
  rr_session stream eager script sizes = (res, tr) ->
  let del := delivered res in
  del = firstn (length del) stream            (* nothing skipped, nothing repeated *)
  /\ (In SEOF (map snd res) -> del = stream).   (* EOF only after the whole stream *)
Proof.
  intros stream eager script sizes res tr E del.
  unfold rr_session in E.
  destruct (rr_run stream eager script rr_init sizes []) as [[res0 r] tr0] eqn:R.
  inversion E; subst res0; clear E.
  destruct (rr_run_inv _ _ _ _ _ _ _ _ _ _ (rinv_init stream) R) as [I EOF].
  simpl in I, EOF. split; [apply (ri_pref _ _ _ I) | exact EOF].
Qed.

Corollary retry_no_repeat_no_gap : forall stream eager script sizes res tr i,
  rr_session stream eager script sizes = (res, tr) ->
  i < length (delivered res) ->
  nth i (delivered res) 0%Z = nth i stream 0%Z.
Proof.
  intros stream eager script sizes res tr i E Hi.
  destruct (retry_exact _ _ _ _ _ _ E) as [P _].
  rewrite P at 1. rewrite nth_firstn.
  apply Nat.ltb_lt in Hi. rewrite Hi. reflexivity.
Qed.

(* the i-th Read hands out exactly the next bytes of the stream *)
Corollary retry_chunks_consecutive : forall stream eager script sizes res tr k,
  rr_session stream eager script sizes = (res, tr) ->
  k < length res ->
  fst (nth k res ([], SNil)) =
  firstn (length (fst (nth k res ([], SNil)))) (skipn (length (delivered (firstn k res))) stream).
Proof.
  intros stream eager script sizes res tr k E Hk.
  destruct (retry_exact _ _ _ _ _ _ E) as [P _].
  set (d := ([] : list Z, SNil)).
  assert (SPLIT : res = firstn k res ++ nth k res d :: skipn (S k) res).
  { rewrite <- (firstn_skipn k res) at 1. f_equal.
    clear -Hk. revert res Hk. induction k as [|k IH]; intros [|x res] Hk; simpl in *; try lia.
    - reflexivity.
    - apply IH. lia. }
  unfold delivered in *. rewrite SPLIT in P at 1 2.
  rewrite map_app, concat_app in P. cbn [map concat] in P.
  set (a := concat (map fst (firstn k res))) in *.
  set (c := fst (nth k res d)) in *.
  set (z := concat (map fst (skipn (S k) res))) in *.
  assert (Q : firstn (length a + length c) (a ++ c ++ z) = firstn (length a + length c) stream).
  { rewrite P at 1. rewrite firstn_firstn. f_equal. rewrite !app_length. lia. }
  rewrite !firstn_add in Q.
  rewrite firstn_app_exact, skipn_app_exact, firstn_app_exact in Q.
  apply app_inv_len in Q.
  - apply Q.
  - rewrite firstn_length.
    assert (length (a ++ c ++ z) <= length stream).
    { rewrite P. rewrite firstn_length. lia. }
    rewrite app_length in H. lia.
Qed.

(* ================================================================== *)
(* the retry budget                                                    *)
(* ================================================================== *)
Definition is_fail (o : outcome) : bool := match o with ODeliver _ => false | _ => true end.

Fixpoint fail_prefix (sc : list outcome) : nat :=
  match sc with
  | o :: r => if is_fail o then S (fail_prefix r) else 0
  | [] => 0
  end.

Lemma under_read_err len eager o pos m n x :
  under_read len eager o pos m = (n, SErr x) -> is_fail o = true.
Proof.
  destruct o; simpl; auto. unfold under_read.
  destruct (len - pos); intro E; inversion E. destruct (eager && _); discriminate.
Qed.

Lemma attempt_status stream eager sc r m sc1 rd pos n st evs :
  attempt stream eager sc r m = (sc1, rd, pos, n, st, evs) ->
  st = SNil \/ st = SEOF \/ st = SErr EInjected.
Proof.
  unfold attempt. destruct (r_reader r) as [p0|].
  - destruct (pop sc m) as [o sc'].
    destruct (under_read (length stream) eager o p0 m) as [n0 st0] eqn:U.
    intro E; inversion E; subst. apply under_read_bounds in U. tauto.
  - destruct sc as [|[|k|k] sc']; cbn [pop].
    + destruct (under_read _ _ _ _ _) as [n0 st0] eqn:U.
      intro E; inversion E; subst. apply under_read_bounds in U. tauto.
    + intro E; inversion E; subst. auto.
    + destruct (under_read _ _ _ _ _) as [n0 st0] eqn:U.
      intro E; inversion E; subst. apply under_read_bounds in U. tauto.
    + destruct (under_read _ _ _ _ _) as [n0 st0] eqn:U.
      intro E; inversion E; subst. apply under_read_bounds in U. tauto.
Qed.

Lemma attempt_fails stream eager o sc r m :
  is_fail o = true ->
  exists rd pos n e evs, attempt stream eager (o :: sc) r m = (sc, rd, pos, n, SErr e, evs).
Proof.
  intro F. unfold attempt. destruct (r_reader r) as [p0|]; destruct o as [|k|k]; try discriminate;
    cbn [pop under_read]; repeat eexists.
Qed.

(* budget+1 consecutive failures: Read gives up with an error *)
Lemma rr_read_exhaust : forall fuel stream eager sc r m tr,
  r_err r = SNil -> r_retries r <= retry_budget ->
  retry_budget + 1 <= r_retries r + fail_prefix sc ->
  retry_budget + 1 - r_retries r <= fuel ->
  exists sc' r' tr',
    rr_read fuel stream eager sc r m tr = (sc', r', [], SErr ETooMany, tr')
    /\ r_err r' = SErr ETooMany /\ r_bytes r' = r_bytes r.
Proof.
  induction fuel as [|fuel IH]; intros stream eager sc r m tr RE RB FP FU.
  - lia.
  - destruct sc as [|o sc]; [cbn [fail_prefix] in FP; lia|].
    cbn [fail_prefix] in FP. destruct (is_fail o) eqn:F; [|lia].
    destruct (attempt_fails stream eager o sc r m F) as (rd & pos & n & e & evs & A).
    cbn [rr_read]. rewrite RE, A.
    destruct (Nat.ltb_spec retry_budget (S (r_retries r))) as [L|L].
    + repeat eexists.
    + destruct (IH stream eager sc (mkRR SNil None (r_bytes r) (S (r_retries r))) m
                 (tr ++ evs ++ match rd with Some _ => [EvClose] | None => [] end))
        as (sc' & r' & tr' & E & E1 & E2); cbn [r_err r_retries r_bytes]; try lia; auto.
      exists sc', r', tr'. auto.
Qed.

(* conversely: an error is returned only after budget+1 consecutive failures,
   all of them taken from the script, and it is the too-many-tries error *)
Lemma rr_read_error_only_exhausted : forall fuel stream eager sc r m tr sc' r' chunk e tr',
  r_err r = SNil -> r_retries r <= retry_budget ->
  rr_read fuel stream eager sc r m tr = (sc', r', chunk, SErr e, tr') ->
  e = ETooMany /\ chunk = [] /\ r_bytes r' = r_bytes r
  /\ exists pre, sc = pre ++ sc' /\ forallb is_fail pre = true
                 /\ length pre + r_retries r = S retry_budget.
Proof.
  induction fuel as [|fuel IH]; intros stream eager sc r m tr sc' r' chunk e tr' RE RB E.
  - simpl in E. inversion E.
  - cbn [rr_read] in E. rewrite RE in E.
    destruct (attempt stream eager sc r m) as [[[[[sc1 rd] pos] n] st0] evs] eqn:A.
    assert (CONS : forall x, st0 = SErr x -> exists o, sc = o :: sc1 /\ is_fail o = true).
    { intros x S. subst st0. unfold attempt in A.
      destruct (r_reader r) as [p0|].
      - destruct sc as [|o sc2]; cbn [pop] in A.
        + destruct (under_read (length stream) eager (ODeliver m) p0 m) as [n1 s1] eqn:U.
          inversion A; subst. apply under_read_err in U. discriminate.
        + destruct (under_read (length stream) eager o p0 m) as [n1 s1] eqn:U.
          inversion A; subst. exists o. split; [reflexivity|].
          eapply under_read_err; eauto.
      - destruct sc as [|o sc2].
        + cbn [pop] in A.
          destruct (under_read (length stream) eager (ODeliver m) (Nat.min (r_bytes r) (length stream)) m)
            as [n1 s1] eqn:U.
          inversion A; subst. apply under_read_err in U. discriminate.
        + destruct o as [|k|k].
          * inversion A; subst. exists OOpenFail. split; reflexivity.
          * cbn [pop] in A.
            destruct (under_read (length stream) eager (ODeliver k) (Nat.min (r_bytes r) (length stream)) m)
              as [n1 s1] eqn:U.
            inversion A; subst. apply under_read_err in U. discriminate.
          * cbn [pop] in A.
            destruct (under_read (length stream) eager (OFailAfter k) (Nat.min (r_bytes r) (length stream)) m)
              as [n1 s1] eqn:U.
            inversion A; subst. exists (OFailAfter k). split; reflexivity. }
    pose proof (attempt_status _ _ _ _ _ _ _ _ _ _ _ A) as ST.
    destruct st0 as [| |x| |]; try (inversion E; fail);
      try (destruct ST as [H|[H|H]]; discriminate).
    destruct (CONS x eq_refl) as (o & SC & F).
    destruct (Nat.ltb_spec retry_budget (S (r_retries r))) as [L|L].
    + inversion E; subst. repeat split; auto.
      exists [o]. cbn. rewrite F. repeat split; auto. lia.
    + apply IH in E; cbn [r_err r_retries r_bytes]; auto; try lia.
      destruct E as (E1 & E2 & E3 & pre & P1 & P2 & P3).
      repeat split; auto.
      exists (o :: pre). subst sc. cbn. rewrite F, P1. repeat split; auto.
      cbn [r_retries] in P3. lia.
Qed.

(* a successful Read resets the retry counter *)
Lemma rr_read_resets : forall fuel stream eager sc r m tr sc' r' chunk st tr',
  r_err r = SNil ->
  rr_read fuel stream eager sc r m tr = (sc', r', chunk, st, tr') ->
  st = SNil \/ st = SEOF -> r_retries r' = 0 /\ r_err r' = st.
Proof.
  induction fuel as [|fuel IH]; intros stream eager sc r m tr sc' r' chunk st tr' RE E HS.
  - simpl in E. inversion E; subst. destruct HS; discriminate.
  - cbn [rr_read] in E. rewrite RE in E.
    destruct (attempt stream eager sc r m) as [[[[[sc1 rd] pos] n] st0] evs] eqn:A.
    pose proof (attempt_status _ _ _ _ _ _ _ _ _ _ _ A) as ST.
    destruct st0 as [| |x| |]; try (inversion E; subst; split; reflexivity);
      try (destruct ST as [H|[H|H]]; discriminate).
    destruct (retry_budget <? S (r_retries r))%nat.
    + inversion E; subst. destruct HS; discriminate.
    + eapply IH in E; eauto.
Qed.

(* top level: with a fresh reader, budget+1 leading failures make the first Read fail *)
Theorem retry_budget_exhausted : forall stream eager script m,
  retry_budget + 1 <= fail_prefix script ->
  exists sc' r' tr',
    rr_read rr_fuel stream eager script rr_init m [] = (sc', r', [], SErr ETooMany, tr').
Proof.
  intros stream eager script m H.
  assert (F : retry_budget + 1 - r_retries rr_init <= rr_fuel) by (unfold rr_fuel, rr_init; cbn [r_retries]; lia).
  assert (B : r_retries rr_init <= retry_budget) by (unfold rr_init; cbn [r_retries]; lia).
  destruct (rr_read_exhaust rr_fuel stream eager script rr_init m [] eq_refl B H F)
    as (sc' & r' & tr' & E & _).
  exists sc', r', tr'. exact E.
Qed.

(* and an error is sticky: every later Read returns it without touching anything *)
Lemma rr_read_sticky : forall fuel stream eager sc r m tr,
  r_err r <> SNil ->
  rr_read (S fuel) stream eager sc r m tr = (sc, r, [], r_err r, tr).
Proof.
  intros fuel stream eager sc r m tr H. cbn [rr_read].
  destruct (r_err r); try reflexivity. contradiction.
Qed.

(* C15 — the store theorems at the level of a client (both stores), and the
   collection of the retry theorems. *)
From Coq Require Import List ZArith Bool Lia.
Import ListNotations.
Require Import BS.Common.Util BS.C15.Model BS.C15.Lists.
Require Export BS.C15.StoreProofs BS.C15.RetryProofs.

(* ------------------------------------------------------------------ *)
(* what "visible" means, uniformly for both stores                     *)
(* ------------------------------------------------------------------ *)
Definition committed (s : store) (p : nat) (d : list Z) (n : Z) : Prop :=
  match s with
  | SFile w => vis w p = Some (d ++ le64 n)
  | SMem m => ms_get m p = (Some d, n)
  end.

Definition absent (s : store) (p : nat) : Prop :=
  match s with
  | SFile w => vis w p = None
  | SMem m => fst (ms_get m p) = None
  end.

Definition store_wf (s : store) : Prop :=
  match s with SFile _ => True | SMem m => ms_wf m end.

Definition store_quiet (s : store) : Prop :=
  match s with SFile w => quiet w | SMem _ => True end.

(* the fault point the code mishandles in Commit: the trailer write is the next
   counted file operation *)
Definition trailer_write_fails (s : store) : Prop :=
  match s with SFile w => nth 0 (oracle w) false = true | SMem _ => False end.

(* ... and in Open: the Seek is the third counted file operation *)
Definition seek_fails (s : store) : Prop :=
  match s with SFile w => nth 2 (oracle w) false = true | SMem _ => False end.

Definition reveals (r : sres) : bool :=
  match r with RRead _ _ _ | RStat _ _ => true | _ => false end.

Lemma store_wf_init_file orc : store_wf (SFile (fsw_init orc)).
Proof. exact I. Qed.
Lemma store_wf_init_mem : store_wf (SMem ms_init).
Proof. reflexivity. Qed.

Lemma committed_not_absent s p d n : committed s p d n -> ~ absent s p.
Proof.
  destruct s; simpl; intros H A; [congruence|]. rewrite H in A. discriminate.
Qed.

(* ------------------------------------------------------------------ *)
(* single steps                                                        *)
(* ------------------------------------------------------------------ *)
Lemma fs_stat_absent w p w' r :
  vis w p = None -> fs_stat w p = (w', r) ->
  vis w' = vis w /\ (r = RErr ENotExist \/ r = RErr EInjected).
Proof.
  intros VP. unfold fs_stat. destruct (tick w) as [f w1] eqn:T. destruct (tick_inv _ _ _ T) as (V & _).
  destruct f; [intro E; inversion E; subst; auto|].
  rewrite V, VP. intro E; inversion E; subst; auto.
Qed.

Lemma fs_open_read_absent c w p off b w' r :
  vis w p = None -> fs_open_read c w p off b = (w', r) ->
  vis w' = vis w /\ (r = RErr ENotExist \/ r = RErr EInjected).
Proof.
  intros VP. unfold fs_open_read. destruct (fs_open c w p off) as [w1 [h|e]] eqn:O;
    destruct (fs_open_spec _ _ _ _ _ _ O) as (V1 & _ & R1 & _).
  - destruct R1 as (content & VC & _). congruence.
  - intro E; inversion E; subst. split; [exact V1|].
    destruct R1 as [R1|[R1 _]]; subst; auto.
Qed.

Lemma fs_open_read_vis c w p off b w' r :
  fs_open_read c w p off b = (w', r) -> vis w' = vis w.
Proof.
  destruct (vis w p) as [content|] eqn:VP.
  - unfold fs_open_read. destruct (fs_open c w p off) as [w1 [h|e]] eqn:O;
      destruct (fs_open_spec _ _ _ _ _ _ O) as (V1 & _ & R1 & _).
    + destruct (read_all (S (length (rcontent h))) w1 h b []) as [[w2 got] st] eqn:RA.
      destruct (tick w2) as [f w3] eqn:T. destruct (tick_inv _ _ _ T) as (V3 & _).
      intro E; inversion E; subst.
      assert (FU : length (target h) < S (length (rcontent h))).
      { unfold target. rewrite firstn_length, skipn_length. lia. }
      destruct b as [|b'].
      * (* a zero-length buffer: reads deliver nothing, the view is still untouched *)
        clear -RA V1 V3. revert RA. generalize (S (length (rcontent h))) as fuel.
        assert (G : forall fuel w1 h acc w2 got st,
                   read_all fuel w1 h 0 acc = (w2, got, st) -> vis w2 = vis w1).
        { induction fuel as [|fuel IH]; intros w0 h0 acc w2' got' st' E.
          - inversion E; reflexivity.
          - cbn [read_all] in E. unfold lim_read in E.
            destruct (rlimit h0 <=? 0)%Z; [inversion E; reflexivity|].
            unfold file_read in E. cbn [Nat.min] in E.
            destruct (tick w0) as [f0 w0'] eqn:T0. destruct (tick_inv _ _ _ T0) as (V0 & _).
            destruct f0; [inversion E; subst; exact V0|].
            apply IH in E. congruence. }
        intros fuel RA. apply G in RA. congruence.
      * destruct (read_all_spec _ _ _ _ _ _ _ _ (le_n_S _ _ (Nat.le_0_l b')) FU RA) as (V2 & _).
        congruence.
    + intro E; inversion E; subst. exact V1.
  - intro E. apply (fs_open_read_absent _ _ _ _ _ _ _ VP E).
Qed.

Lemma fs_stat_vis w p w' r : fs_stat w p = (w', r) -> vis w' = vis w.
Proof.
  unfold fs_stat. destruct (tick w) as [f w1] eqn:T1. destruct (tick_inv _ _ _ T1) as (V1 & _).
  destruct f; [intro E; inversion E; subst; exact V1|].
  destruct (vis w1 p); [|intro E; inversion E; subst; exact V1].
  destruct (tick w1) as [f2 w2] eqn:T2. destruct (tick_inv _ _ _ T2) as (V2 & _).
  destruct f2; [intro E; inversion E; subst; congruence|].
  destruct (length l <? trailer_len); [intro E; inversion E; subst; congruence|].
  destruct (tick w2) as [f3 w3] eqn:T3. destruct (tick_inv _ _ _ T3) as (V3 & _).
  destruct f3; intro E; inversion E; subst; congruence.
Qed.

(* ------------------------------------------------------------------ *)
(* steps of the file-store client                                      *)
(* ------------------------------------------------------------------ *)

(* which partition a step may change: the live writer's on commit, p on discard *)
Definition touches (cur : option writer) (o : sop) (q : nat) : Prop :=
  match o with
  | OCommit _ => match cur with Some wr => wpart wr = q | None => False end
  | ODiscard p => p = q
  | _ => False
  end.

Lemma step_file_frame c w cur o w' cur' r q :
  step_file c w cur o = (w', cur', r) -> ~ touches cur o q -> vis w' q = vis w q.
Proof.
  destruct o as [p|d|n| |p off b|p|p]; cbn [step_file touches]; intros E NT.
  - destruct (fs_create w p) as [w1 [wr|e]] eqn:C; inversion E; subst;
      destruct (fs_create_spec _ _ _ _ C) as (V & _); rewrite V; reflexivity.
  - destruct cur as [wr|]; [|inversion E; reflexivity].
    destruct (fs_write w wr d) as [w1 [wr'|e]] eqn:C; inversion E; subst;
      destruct (fs_write_spec _ _ _ _ _ C) as (V & _); rewrite V; reflexivity.
  - destruct cur as [wr|]; [|inversion E; reflexivity].
    destruct (fs_commit c w wr n) as [w1 r0] eqn:C. inversion E; subst.
    destruct (fs_commit_spec _ _ _ _ _ _ C) as (F & _). apply F. intro X; apply NT; auto.
  - destruct cur as [wr|]; inversion E; reflexivity.
  - destruct (fs_open_read c w p off b) as [w1 r0] eqn:C. inversion E; subst.
    rewrite (fs_open_read_vis _ _ _ _ _ _ _ C). reflexivity.
  - destruct (fs_stat w p) as [w1 r0] eqn:C. inversion E; subst.
    rewrite (fs_stat_vis _ _ _ _ C). reflexivity.
  - destruct (fs_discard w p) as [w1 r0] eqn:C. inversion E; subst.
    destruct (fs_discard_spec _ _ _ _ C) as (F & _). apply F. intro X; apply NT; auto.
Qed.

(* the same for the memory store *)
Lemma step_mem_frame m cur o m' cur' r q :
  ms_wf m -> step_mem m cur o = (m', cur', r) ->
  ms_wf m' /\ (~ touches cur o q -> ms_get m' q = ms_get m q).
Proof.
  intros WF. destruct o as [p|d|n| |p off b|p|p]; cbn [step_mem touches]; intros E.
  - destruct (ms_create m p); inversion E; subst; auto.
  - destruct cur; inversion E; subst; auto.
  - destruct cur as [wr|]; [|inversion E; subst; auto].
    destruct (ms_put m (wpart wr) (wdata wr) n) as [m1 r0] eqn:C. inversion E; subst.
    destruct (ms_put_spec _ _ _ _ _ _ WF C) as (WF' & F & _). split; [exact WF'|].
    intro NT. apply F. intro X; apply NT; auto.
  - destruct cur; inversion E; subst; auto.
  - inversion E; subst; auto.
  - inversion E; subst; auto.
  - destruct (ms_discard m p) as [m1 r0] eqn:C. inversion E; subst.
    destruct (ms_discard_spec _ _ _ _ WF C) as (WF' & F & _). split; [exact WF'|].
    intro NT. apply F. intro X; apply NT; auto.
Qed.

(* ------------------------------------------------------------------ *)
(* client steps                                                        *)
(* ------------------------------------------------------------------ *)
Lemma step_file_eq c w cur o cl' r :
  step c (mkC (SFile w) cur) o = (cl', r) ->
  exists w' cur', step_file c w cur o = (w', cur', r) /\ cl' = mkC (SFile w') cur'.
Proof.
  unfold step. cbn [cstore ccur]. destruct (step_file c w cur o) as [[w' cur'] r'].
  intro E; inversion E; subst. eauto.
Qed.

Lemma step_mem_eq c m cur o cl' r :
  step c (mkC (SMem m) cur) o = (cl', r) ->
  exists m' cur', step_mem m cur o = (m', cur', r) /\ cl' = mkC (SMem m') cur'.
Proof.
  unfold step. cbn [cstore ccur]. destruct (step_mem m cur o) as [[m' cur'] r'].
  intro E; inversion E; subst. eauto.
Qed.

Lemma step_wf c cl o cl' r : store_wf (cstore cl) -> step c cl o = (cl', r) -> store_wf (cstore cl').
Proof.
  destruct cl as [[w|m] cur]; cbn [cstore]; intros WF E.
  - destruct (step_file_eq _ _ _ _ _ _ E) as (w' & cur' & _ & ->). exact I.
  - destruct (step_mem_eq _ _ _ _ _ _ E) as (m' & cur' & S & ->). cbn.
    apply (step_mem_frame _ _ _ _ _ _ 0 WF S).
Qed.

(* frame: a step that does not touch partition q leaves it as it was *)
Theorem step_frame c cl o cl' r q :
  store_wf (cstore cl) -> step c cl o = (cl', r) -> ~ touches (ccur cl) o q ->
  (forall d n, committed (cstore cl) q d n -> committed (cstore cl') q d n)
  /\ (absent (cstore cl) q -> absent (cstore cl') q).
Proof.
  destruct cl as [[w|m] cur]; cbn [cstore ccur]; intros WF E NT.
  - destruct (step_file_eq _ _ _ _ _ _ E) as (w' & cur' & S & ->). cbn.
    rewrite (step_file_frame _ _ _ _ _ _ _ _ S NT). auto.
  - destruct (step_mem_eq _ _ _ _ _ _ E) as (m' & cur' & S & ->). cbn.
    destruct (step_mem_frame _ _ _ _ _ _ q WF S) as [_ F]. rewrite (F NT). auto.
Qed.

(* ================================================================== *)
(* invisible_before_commit                                             *)
(* ================================================================== *)
Definition is_commit (o : sop) : bool := match o with OCommit _ => true | _ => false end.

Lemma absent_step c cl o cl' r q :
  store_wf (cstore cl) -> absent (cstore cl) q -> is_commit o = false ->
  step c cl o = (cl', r) -> absent (cstore cl') q.
Proof.
  intros WF A NC E.
  destruct o as [p|d|n| |p off b|p|p]; try discriminate;
    try (apply (step_frame _ _ _ _ _ q WF E); [cbn; tauto | exact A]).
  (* ODiscard p *)
  destruct (Nat.eq_dec p q) as [->|NE].
  2:{ apply (step_frame _ _ _ _ _ q WF E); [cbn; congruence | exact A]. }
  destruct cl as [[w|m] cur]; cbn [cstore] in *.
  - destruct (step_file_eq _ _ _ _ _ _ E) as (w' & cur' & S & ->). cbn in *.
    destruct (fs_discard w q) as [w1 r0] eqn:D. inversion S; subst.
    destruct (fs_discard_spec _ _ _ _ D) as (_ & [(_ & X & _)|[(_ & X)|(_ & X & _)]] & _); congruence.
  - destruct (step_mem_eq _ _ _ _ _ _ E) as (m' & cur' & S & ->). cbn in *.
    destruct (ms_discard m q) as [m1 r0] eqn:D. inversion S; subst.
    destruct (ms_discard_spec _ _ _ _ WF D) as (_ & _ & [(_ & X)|(_ & EQ & X)]); [exact X | rewrite EQ; exact X].
Qed.

Lemma absent_hidden c cl o cl' r p :
  absent (cstore cl) p ->
  (exists off b, o = OOpen p off b) \/ o = OStat p ->
  step c cl o = (cl', r) -> r = RErr ENotExist \/ r = RErr EInjected.
Proof.
  intros A O E. destruct cl as [[w|m] cur]; cbn [cstore] in *.
  - destruct (step_file_eq _ _ _ _ _ _ E) as (w' & cur' & S & ->).
    destruct O as [(off & b & ->)| ->]; cbn [step_file] in S.
    + destruct (fs_open_read c w p off b) as [w1 r0] eqn:D. inversion S; subst.
      apply (fs_open_read_absent _ _ _ _ _ _ _ A D).
    + destruct (fs_stat w p) as [w1 r0] eqn:D. inversion S; subst.
      apply (fs_stat_absent _ _ _ _ A D).
  - destruct (step_mem_eq _ _ _ _ _ _ E) as (m' & cur' & S & ->).
    destruct O as [(off & b & ->)| ->]; cbn [step_mem] in S; inversion S; subst m' cur' r.
    + unfold ms_open_read. rewrite A. auto.
    + unfold ms_stat. cbn in A. destruct (ms_get m p) as [[x|] k]; [discriminate | auto].
Qed.

(* every Open/Stat of a run that contains no Commit, started on an empty store,
   under any faults: nothing is ever revealed *)
Theorem invisible_before_commit : forall c ops cl cl' rs,
  store_wf (cstore cl) -> (forall p, absent (cstore cl) p) ->
  forallb (fun o => negb (is_commit o)) ops = true ->
  run c cl ops = (cl', rs) ->
  (forall p, absent (cstore cl') p) /\ forallb (fun r => negb (reveals r)) rs = true.
Proof.
  induction ops as [|o ops IH]; intros cl cl' rs WF A NC E.
  - inversion E; subst. auto.
  - cbn [run] in E. destruct (step c cl o) as [cl1 r] eqn:S.
    destruct (run c cl1 ops) as [cl2 rs'] eqn:R. inversion E; subst; clear E.
    cbn [forallb] in NC. apply andb_true_iff in NC as [NC1 NC2]. apply negb_true_iff in NC1.
    assert (A1 : forall p, absent (cstore cl1) p) by (intro p; apply (absent_step _ _ _ _ _ p WF (A p) NC1 S)).
    destruct (IH _ _ _ (step_wf _ _ _ _ _ WF S) A1 NC2 R) as [A2 H].
    split; [exact A2|]. cbn [forallb]. rewrite H, andb_true_r.
    destruct o as [p|d|n| |p off b|p|p]; try discriminate.
    + unfold step in S. destruct (cstore cl); cbn in S.
      * destruct (fs_create w p) as [w1 [wr|e]]; inversion S; reflexivity.
      * destruct (ms_create m p); inversion S; reflexivity.
    + unfold step in S. destruct (cstore cl); cbn in S; destruct (ccur cl); try (inversion S; reflexivity).
      destruct (fs_write w w0 d) as [w1 [wr|e]]; inversion S; reflexivity.
    + unfold step in S. destruct (cstore cl); cbn in S; destruct (ccur cl); inversion S; reflexivity.
    + destruct (absent_hidden c cl (OOpen p off b) cl1 r p (A p)) as [-> | ->]; eauto.
    + destruct (absent_hidden c cl (OStat p) cl1 r p (A p)) as [-> | ->]; eauto.
    + unfold step in S. destruct (cstore cl); cbn in S.
      * destruct (fs_discard w p) as [w1 r0] eqn:D. inversion S; subst.
        destruct (fs_discard_spec _ _ _ _ D) as (_ & [(-> & _)|[(-> & _)|(-> & _)]] & _); reflexivity.
      * destruct (ms_discard m p) as [m1 r0] eqn:D. inversion S; subst.
        unfold ms_discard in D. destruct (_ <=? _); inversion D; reflexivity.
Qed.

(* ================================================================== *)
(* commit_ok_visible / commit_reports                                  *)
(* ================================================================== *)
Definition commit_guard (c : cfg) (s : store) : Prop :=
  swallow_trailer c = false \/ ~ trailer_write_fails s.

Lemma not_true_false b : b <> true -> b = false.
Proof. destruct b; congruence. Qed.

Theorem commit_ok_visible c cl n cl' wr :
  store_wf (cstore cl) -> ccur cl = Some wr -> commit_guard c (cstore cl) ->
  step c cl (OCommit n) = (cl', ROk) ->
  committed (cstore cl') (wpart wr) (wdata wr) n /\ ccur cl' = None.
Proof.
  destruct cl as [[w|m] cur]; cbn [cstore ccur]; intros WF -> G E.
  - destruct (step_file_eq _ _ _ _ _ _ E) as (w' & cur' & S & ->). cbn [step_file] in S.
    destruct (fs_commit c w wr n) as [w1 r0] eqn:C. inversion S; subst. cbn.
    destruct r0 as [[]|e]; [|discriminate]. split; [|reflexivity].
    apply (fs_commit_ok_visible _ _ _ _ _ C).
    destruct G as [G|G]; [left; exact G | right; apply not_true_false; exact G].
  - destruct (step_mem_eq _ _ _ _ _ _ E) as (m' & cur' & S & ->). cbn [step_mem] in S.
    destruct (ms_put m (wpart wr) (wdata wr) n) as [m1 r0] eqn:C. inversion S; subst. cbn.
    destruct (ms_put_spec _ _ _ _ _ _ WF C) as (_ & _ & [(_ & X & _)|(X & _)]); [auto|].
    subst r0. discriminate.
Qed.

Theorem commit_reports c cl n cl' r wr :
  store_wf (cstore cl) -> ccur cl = Some wr -> commit_guard c (cstore cl) ->
  step c cl (OCommit n) = (cl', r) ->
  ~ committed (cstore cl') (wpart wr) (wdata wr) n ->
  exists e, r = RErr e.
Proof.
  destruct cl as [[w|m] cur]; cbn [cstore ccur]; intros WF -> G E NCOM.
  - destruct (step_file_eq _ _ _ _ _ _ E) as (w' & cur' & S & ->). cbn [step_file] in S.
    destruct (fs_commit c w wr n) as [w1 r0] eqn:C. inversion S; subst. cbn in NCOM.
    rewrite (fs_commit_reports _ _ _ _ _ _ C); [eexists; reflexivity| |exact NCOM].
    destruct G as [G|G]; [left; exact G | right; apply not_true_false; exact G].
  - destruct (step_mem_eq _ _ _ _ _ _ E) as (m' & cur' & S & ->). cbn [step_mem] in S.
    destruct (ms_put m (wpart wr) (wdata wr) n) as [m1 r0] eqn:C. inversion S; subst. cbn in NCOM.
    destruct (ms_put_spec _ _ _ _ _ _ WF C) as (_ & _ & [(_ & X & _)|(-> & _)]); [contradiction|].
    eexists; reflexivity.
Qed.

(* the defective behaviour (defective_cfg = the code as it is today): a failing trailer write is swallowed — Commit
   says ok, nothing is visible, the temporary file stays behind *)
Theorem commit_swallow_refuted :
  exists cl n cl' wr,
    ccur cl = Some wr /\ step defective_cfg cl (OCommit n) = (cl', ROk)
    /\ absent (cstore cl') (wpart wr) /\ temps_of (cstore cl') = temps_of (cstore cl).
Proof.
  exists (mkC (SFile (mkFsw (fun _ => None) 1 [true])) (Some (mkW 0 [1; 2; 3]%Z))), 1%Z.
  eexists. eexists. split; [reflexivity|]. split; [vm_compute; reflexivity|]. split; reflexivity.
Qed.

(* a failed Commit never changes what was visible, and never says ok (fixed code) *)
Theorem commit_fixed_all_or_nothing cl n cl' r wr :
  store_wf (cstore cl) -> ccur cl = Some wr ->
  step fixed_cfg cl (OCommit n) = (cl', r) ->
  (r = ROk /\ committed (cstore cl') (wpart wr) (wdata wr) n)
  \/ ((exists e, r = RErr e)
      /\ (forall d k, committed (cstore cl) (wpart wr) d k -> committed (cstore cl') (wpart wr) d k)
      /\ (absent (cstore cl) (wpart wr) -> absent (cstore cl') (wpart wr))).
Proof.
  destruct cl as [[w|m] cur]; cbn [cstore ccur]; intros WF -> E.
  - destruct (step_file_eq _ _ _ _ _ _ E) as (w' & cur' & S & ->). cbn [step_file] in S.
    destruct (fs_commit fixed_cfg w wr n) as [w1 r0] eqn:C. inversion S; subst. cbn.
    destruct (fs_commit_spec _ _ _ _ _ _ C) as (_ & [(-> & X)|[(-> & X)|(_ & _ & X & _)]]).
    + left. auto.
    + right. rewrite X. split; [eexists; reflexivity | auto].
    + discriminate.
  - destruct (step_mem_eq _ _ _ _ _ _ E) as (m' & cur' & S & ->). cbn [step_mem] in S.
    destruct (ms_put m (wpart wr) (wdata wr) n) as [m1 r0] eqn:C. inversion S; subst. cbn.
    destruct (ms_put_spec _ _ _ _ _ _ WF C) as (_ & _ & [(-> & X & _)|(-> & X & _)]).
    + left. auto.
    + right. rewrite X. split; [eexists; reflexivity | auto].
Qed.

(* ================================================================== *)
(* reading back what was committed                                     *)
(* ================================================================== *)
Definition open_guard (c : cfg) (s : store) : Prop :=
  swallow_seek c = false \/ ~ seek_fails s.

(* under any faults: what is read is an initial part of the committed bytes after
   [off]; a clean end of file means all of them *)
Theorem committed_read_sound c cl p off b d n cl' r :
  committed (cstore cl) p d n -> 1 <= b -> open_guard c (cstore cl) ->
  step c cl (OOpen p off b) = (cl', r) ->
  match r with
  | RRead got st _ =>
      (st = SEOF \/ st = SErr EInjected)
      /\ is_prefix_of got (skipn off d) /\ (st = SEOF -> got = skipn off d)
  | RErr e => e = EInjected \/ (e = EInvalid /\ length d < off)
  | _ => False
  end.
Proof.
  destruct cl as [[w|m] cur]; cbn [cstore]; intros COM B G E.
  - destruct (step_file_eq _ _ _ _ _ _ E) as (w' & cur' & S & ->). cbn [step_file] in S.
    destruct (fs_open_read c w p off b) as [w1 r0] eqn:O. inversion S; subst.
    destruct (fs_open_read_spec _ _ _ _ _ _ _ _ _ COM B O) as (_ & _ & R & _).
    destruct r; try contradiction; [left; exact R|].
    destruct R as [ST H]. split; [exact ST|]. apply H.
    destruct G as [G|G]; [left; exact G | right; apply not_true_false; exact G].
  - destruct (step_mem_eq _ _ _ _ _ _ E) as (m' & cur' & S & ->). cbn [step_mem] in S.
    inversion S; subst. cbn in COM. unfold ms_open_read. rewrite COM. cbn [fst].
    destruct (Nat.ltb_spec (length d) off) as [H|H]; [right; auto|].
    rewrite mem_read_all_spec by (auto; rewrite skipn_length; lia).
    split; [left; reflexivity|]. split; [|reflexivity].
    unfold is_prefix_of. cbn. rewrite firstn_all. reflexivity.
Qed.

(* without faults: exactly the committed bytes from the requested offset *)
Theorem committed_read_exact c cl p off b d n cl' r :
  committed (cstore cl) p d n -> 1 <= b -> store_quiet (cstore cl) ->
  match cstore cl with SMem _ => off <= length d | SFile _ => True end ->
  step c cl (OOpen p off b) = (cl', r) ->
  r = RRead (skipn off d) SEOF SNil /\ store_quiet (cstore cl').
Proof.
  destruct cl as [[w|m] cur]; cbn [cstore]; intros COM B Q OFF E.
  - destruct (step_file_eq _ _ _ _ _ _ E) as (w' & cur' & S & ->). cbn [step_file] in S.
    destruct (fs_open_read c w p off b) as [w1 r0] eqn:O. inversion S; subst.
    destruct (fs_open_read_spec _ _ _ _ _ _ _ _ _ COM B O) as (_ & _ & _ & R).
    destruct (R Q) as [Q' X]. auto.
  - destruct (step_mem_eq _ _ _ _ _ _ E) as (m' & cur' & S & ->). cbn [step_mem] in S.
    inversion S; subst. cbn in COM. split; [|exact I].
    apply ms_open_read_spec; auto. rewrite COM. reflexivity.
Qed.

(* the defective behaviour (defective_cfg = the code as it is today): a failing Seek is ignored, the reader starts at 0 *)
Theorem open_seek_swallow_refuted :
  exists cl p off b d n cl' got,
    committed (cstore cl) p d n
    /\ step defective_cfg cl (OOpen p off b) = (cl', RRead got SEOF SNil)
    /\ got <> skipn off d.
Proof.
  exists (mkC (SFile (mkFsw (fun _ => Some ([1; 2; 3; 4; 5]%Z ++ le64 7)) 0 [false; false; true])) None),
         0, 2, 4, [1; 2; 3; 4; 5]%Z, 7%Z.
  eexists. eexists. split; [reflexivity|]. split; [vm_compute; reflexivity|].
  vm_compute. discriminate.
Qed.

Theorem committed_stat c cl p d n cl' r :
  committed (cstore cl) p d n -> int64_range n ->
  step c cl (OStat p) = (cl', r) ->
  (r = RStat (Z.of_nat (length d)) n \/ r = RErr EInjected)
  /\ (store_quiet (cstore cl) -> r = RStat (Z.of_nat (length d)) n /\ store_quiet (cstore cl')).
Proof.
  destruct cl as [[w|m] cur]; cbn [cstore]; intros COM RG E.
  - destruct (step_file_eq _ _ _ _ _ _ E) as (w' & cur' & S & ->). cbn [step_file] in S.
    destruct (fs_stat w p) as [w1 r0] eqn:O. inversion S; subst.
    destruct (fs_stat_spec _ _ _ _ _ _ COM RG O) as (_ & _ & R & Q). split; [exact R|].
    intro H. destruct (Q H). auto.
  - destruct (step_mem_eq _ _ _ _ _ _ E) as (m' & cur' & S & ->). cbn [step_mem] in S.
    inversion S; subst. cbn in COM. unfold ms_stat. rewrite COM. auto.
Qed.

(* ... until the entry is discarded: any step keeps the entry unless it is a
   Discard of that partition or a Commit onto it that returned ok *)
Theorem committed_persists c cl o cl' r p d n :
  store_wf (cstore cl) -> committed (cstore cl) p d n ->
  step c cl o = (cl', r) ->
  (touches (ccur cl) o p -> r <> ROk) ->
  committed (cstore cl') p d n.
Proof.
  intros WF COM E H.
  destruct o as [q|x|k| |q off b|q|q];
    try (apply (step_frame _ _ _ _ _ p WF E); [cbn; tauto | exact COM]).
  - (* OCommit k *)
    destruct (ccur cl) as [wr|] eqn:CUR.
    2:{ apply (step_frame _ _ _ _ _ p WF E); [rewrite CUR; cbn; tauto | exact COM]. }
    destruct (Nat.eq_dec (wpart wr) p) as [EQ|NE].
    2:{ apply (step_frame _ _ _ _ _ p WF E); [rewrite CUR; cbn; exact NE | exact COM]. }
    specialize (H EQ).
    destruct cl as [[w|m] cur]; cbn [cstore ccur] in *; subst cur.
    + destruct (step_file_eq _ _ _ _ _ _ E) as (w' & cur' & S & ->). cbn [step_file] in S.
      destruct (fs_commit c w wr k) as [w1 r0] eqn:C. inversion S; subst. cbn.
      destruct (fs_commit_spec _ _ _ _ _ _ C) as (_ & [(-> & _)|[(_ & X)|(-> & _)]]);
        [exfalso; apply H; reflexivity | rewrite X; exact COM | exfalso; apply H; reflexivity].
    + destruct (step_mem_eq _ _ _ _ _ _ E) as (m' & cur' & S & ->). cbn [step_mem] in S.
      destruct (ms_put m (wpart wr) (wdata wr) k) as [m1 r0] eqn:C. inversion S; subst. cbn.
      destruct (ms_put_spec _ _ _ _ _ _ WF C) as (_ & _ & [(-> & _)|(_ & X & _)]);
        [exfalso; apply H; reflexivity | rewrite X; exact COM].
  - (* ODiscard q *)
    destruct (Nat.eq_dec q p) as [->|NE].
    2:{ apply (step_frame _ _ _ _ _ p WF E); [cbn; exact NE | exact COM]. }
    specialize (H eq_refl).
    destruct cl as [[w|m] cur]; cbn [cstore ccur] in *.
    + destruct (step_file_eq _ _ _ _ _ _ E) as (w' & cur' & S & ->). cbn [step_file] in S.
      destruct (fs_discard w p) as [w1 r0] eqn:D. inversion S; subst. cbn.
      destruct (fs_discard_spec _ _ _ _ D) as (_ & [(-> & _)|[(_ & X)|(_ & X & _)]] & _);
        [exfalso; apply H; reflexivity | rewrite X; exact COM | rewrite X; exact COM].
    + destruct (step_mem_eq _ _ _ _ _ _ E) as (m' & cur' & S & ->). cbn [step_mem] in S.
      destruct (ms_discard m p) as [m1 r0] eqn:D. inversion S; subst. cbn.
      destruct (ms_discard_spec _ _ _ _ WF D) as (_ & _ & [(-> & _)|(_ & -> & _)]);
        [exfalso; apply H; reflexivity | exact COM].
Qed.

Theorem discard_ok_absent c cl p cl' :
  store_wf (cstore cl) -> step c cl (ODiscard p) = (cl', ROk) -> absent (cstore cl') p.
Proof.
  destruct cl as [[w|m] cur]; cbn [cstore]; intros WF E.
  - destruct (step_file_eq _ _ _ _ _ _ E) as (w' & cur' & S & ->). cbn [step_file] in S.
    destruct (fs_discard w p) as [w1 r0] eqn:D. inversion S; subst. cbn.
    destruct (fs_discard_spec _ _ _ _ D) as (_ & [(_ & X & _)|[(X & _)|(X & _)]] & _);
      [exact X | discriminate | discriminate].
  - destruct (step_mem_eq _ _ _ _ _ _ E) as (m' & cur' & S & ->). cbn [step_mem] in S.
    destruct (ms_discard m p) as [m1 r0] eqn:D. inversion S; subst. cbn.
    destruct (ms_discard_spec _ _ _ _ WF D) as (_ & _ & [(_ & X)|(X & _)]); [exact X | discriminate].
Qed.

(* the writer holds exactly the bytes whose Write returned ok *)
Theorem write_accumulates c cl d cl' r wr :
  ccur cl = Some wr -> step c cl (OWrite d) = (cl', r) ->
  (r = ROk /\ ccur cl' = Some (mkW (wpart wr) (wdata wr ++ d)))
  \/ (r = RErr EInjected /\ ccur cl' = Some wr).
Proof.
  destruct cl as [[w|m] cur]; cbn [cstore ccur]; intros -> E.
  - destruct (step_file_eq _ _ _ _ _ _ E) as (w' & cur' & S & ->). cbn [step_file] in S.
    destruct (fs_write w wr d) as [w1 [wr'|e]] eqn:W; inversion S; subst; cbn;
      destruct (fs_write_spec _ _ _ _ _ W) as (_ & A & B & _).
    + left. rewrite (A _ eq_refl). auto.
    + right. rewrite (B _ eq_refl). auto.
  - destruct (step_mem_eq _ _ _ _ _ _ E) as (m' & cur' & S & ->). cbn [step_mem] in S.
    inversion S; subst. left. auto.
Qed.

Theorem create_ok_fresh c cl p cl' :
  step c cl (OCreate p) = (cl', ROk) -> ccur cl' = Some (mkW p []).
Proof.
  destruct cl as [[w|m] cur]; intro E.
  - destruct (step_file_eq _ _ _ _ _ _ E) as (w' & cur' & S & ->). cbn [step_file] in S.
    destruct (fs_create w p) as [w1 [wr|e]] eqn:C; inversion S; subst. cbn.
    destruct (fs_create_spec _ _ _ _ C) as (_ & A & _). rewrite (A _ eq_refl). reflexivity.
  - destruct (step_mem_eq _ _ _ _ _ _ E) as (m' & cur' & S & ->). cbn [step_mem] in S.
    unfold ms_create in S. destruct (fst (ms_get m p)); inversion S; subst. reflexivity.
Qed.

(* C15 — the decidable retry judge of Corr.v holds on every session of the model:
   for all streams, scripts, read sizes.  (So a VIOL on a retry case can only
   come from the implementation departing from the model.) *)
From Coq Require Import List ZArith Bool Lia.
Import ListNotations.
Require Import BS.Common.Util BS.C15.Model BS.C15.Lists BS.C15.Corr BS.C15.RetryProofs.

Lemma fail_run_app a : forall c b, fail_run c (a ++ b) = fail_run (fail_run c a) b.
Proof.
  induction a as [|e a IH]; intros c b; [reflexivity|].
  destruct e as [off [|]|n [| |x| |]|]; cbn [app fail_run]; apply IH.
Qed.

Lemma budget_respected_app a : forall c b,
  budget_respected c (a ++ b) = budget_respected c a && budget_respected (fail_run c a) b.
Proof.
  induction a as [|e a IH]; intros c b; [reflexivity|].
  destruct e as [off [|]|n [| |x| |]|]; cbn [app fail_run budget_respected];
    rewrite ?IH, ?andb_assoc; reflexivity.
Qed.

(* the trace invariant: the run of consecutive failures is the retries counter *)
Definition tinv (tr : list event) (r : rr) : Prop :=
  budget_respected 0 tr = true /\
  match r_err r with
  | SNil => fail_run 0 tr = r_retries r /\ r_retries r <= retry_budget
  | SEOF => fail_run 0 tr = 0
  | SErr _ => fail_run 0 tr = S retry_budget
  | _ => False
  end.

Lemma leb_budget c : c <= retry_budget -> (c <=? retry_budget) = true.
Proof. intro H. apply Nat.leb_le. exact H. Qed.

Definition closes (rd : option nat) : list event := match rd with Some _ => [EvClose] | None => [] end.

Lemma attempt_events stream eager sc r m sc1 rd pos n st evs c :
  attempt stream eager sc r m = (sc1, rd, pos, n, st, evs) -> c <= retry_budget ->
  (st = SNil \/ st = SEOF -> budget_respected c evs = true /\ fail_run c evs = 0)
  /\ (forall x, st = SErr x ->
        budget_respected c (evs ++ closes rd) = true /\ fail_run c (evs ++ closes rd) = S c).
Proof.
  intros A C. pose proof (attempt_status _ _ _ _ _ _ _ _ _ _ _ A) as ST.
  pose proof (leb_budget c C) as LB.
  assert (SHAPE : evs = [EvRead n st] \/ (exists o, evs = [EvOpen o false] /\ rd = None /\ st = SErr EInjected)
                  \/ (exists o, evs = [EvOpen o true; EvRead n st])).
  { unfold attempt in A. destruct (r_reader r) as [p0|].
    - destruct (pop sc m) as [o sc']. destruct (under_read _ _ _ _ _) as [n0 st0].
      inversion A; subst. auto.
    - destruct sc as [|[|k|k] sc']; cbn [pop] in A;
        try (destruct (under_read _ _ _ _ _) as [n0 st0]; inversion A; subst; right; right; eauto).
      inversion A; subst. right; left. eauto. }
  destruct SHAPE as [->|[(o & -> & -> & ->)|(o & ->)]].
  - split.
    + intros [->| ->]; cbn; rewrite LB; auto.
    + intros x ->. destruct rd; cbn; rewrite LB; auto.
  - split.
    + intros [H|H]; discriminate.
    + intros x _. cbn. rewrite LB. auto.
  - split.
    + intros [->| ->]; cbn; rewrite LB; auto.
    + intros x ->. destruct rd; cbn; rewrite LB; auto.
Qed.

Lemma tinv_snil tr r : tinv tr r -> r_err r = SNil ->
  budget_respected 0 tr = true /\ fail_run 0 tr = r_retries r /\ r_retries r <= retry_budget.
Proof. intros [B T] E. rewrite E in T. tauto. Qed.

Lemma rr_read_tinv_nil : forall fuel stream eager sc r m tr sc' r' chunk st tr',
  r_err r = SNil -> tinv tr r ->
  retry_budget + 1 - r_retries r < fuel ->
  rr_read fuel stream eager sc r m tr = (sc', r', chunk, st, tr') ->
  tinv tr' r' /\ r_err r' = st.
Proof.
  induction fuel as [|fuel IH]; intros stream eager sc r m tr sc' r' chunk st tr' RE TI FU E; [lia|].
  cbn [rr_read] in E. rewrite RE in E.
  destruct (tinv_snil _ _ TI RE) as (BR & FR & RB).
  destruct (attempt stream eager sc r m) as [[[[[sc1 rd] pos] n] st0] evs] eqn:A.
  pose proof (attempt_status _ _ _ _ _ _ _ _ _ _ _ A) as ST.
  destruct (attempt_events _ _ _ _ _ _ _ _ _ _ _ (r_retries r) A RB) as [EVOK EVFAIL].
  destruct st0 as [| |x| |]; try (destruct ST as [H|[H|H]]; discriminate).
  - destruct (EVOK (or_introl eq_refl)) as [B1 F1]. inversion E; subst. split; [|reflexivity].
    split; [rewrite budget_respected_app, BR, FR; exact B1|].
    cbn [r_err r_retries]. rewrite fail_run_app, FR, F1. split; [reflexivity | lia].
  - destruct (EVOK (or_intror eq_refl)) as [B1 F1]. inversion E; subst. split; [|reflexivity].
    split; [rewrite budget_respected_app, BR, FR; exact B1|].
    cbn [r_err r_retries]. rewrite fail_run_app, FR, F1. reflexivity.
  - destruct (EVFAIL x eq_refl) as [B1 F1]. fold (closes rd) in E.
    assert (TB : budget_respected 0 (tr ++ evs ++ closes rd) = true)
      by (rewrite budget_respected_app, BR, FR; exact B1).
    assert (TF : fail_run 0 (tr ++ evs ++ closes rd) = S (r_retries r))
      by (rewrite fail_run_app, FR; exact F1).
    destruct (Nat.ltb_spec retry_budget (S (r_retries r))) as [L|L].
    + inversion E; subst. split; [|reflexivity].
      split; [exact TB | cbn [r_err]; rewrite TF; lia].
    + apply IH in E; auto.
      * split; [exact TB | cbn [r_err r_retries]; split; [exact TF | lia]].
      * cbn [r_retries]. lia.
Qed.

Lemma rr_read_tinv : forall stream eager sc r m tr sc' r' chunk st tr',
  tinv tr r -> (r_err r = SNil -> r_retries r = 0) ->
  rr_read rr_fuel stream eager sc r m tr = (sc', r', chunk, st, tr') ->
  tinv tr' r' /\ r_err r' = st.
Proof.
  intros stream eager sc r m tr sc' r' chunk st tr' TI Z E.
  destruct (r_err r) eqn:RE.
  - apply (rr_read_tinv_nil _ _ _ _ _ _ _ _ _ _ _ _ RE TI) in E; [exact E|].
    rewrite (Z eq_refl). unfold rr_fuel. lia.
  - unfold rr_fuel in E. rewrite rr_read_sticky in E by (rewrite RE; discriminate).
    inversion E; subst. rewrite RE. auto.
  - unfold rr_fuel in E. rewrite rr_read_sticky in E by (rewrite RE; discriminate).
    inversion E; subst. rewrite RE. auto.
  - destruct TI as [_ TI]; rewrite RE in TI; contradiction.
  - destruct TI as [_ TI]; rewrite RE in TI; contradiction.
Qed.

(* a reader whose err is set returns it forever, touching nothing *)
Lemma rr_run_sticky : forall sizes stream eager sc r tr,
  r_err r <> SNil ->
  rr_run stream eager sc r sizes tr = (map (fun _ => ([], r_err r)) sizes, r, tr).
Proof.
  induction sizes as [|m rest IH]; intros stream eager sc r tr H; [reflexivity|].
  cbn [rr_run map]. unfold rr_fuel. rewrite rr_read_sticky by exact H.
  rewrite IH by exact H. reflexivity.
Qed.

Definition errs (res : list (list Z * status)) : bool := existsb (fun x => is_err (snd x)) res.
Definition all_sane (res : list (list Z * status)) : bool := forallb (fun x => is_sane_status (snd x)) res.

Lemma rr_run_tinv : forall sizes stream eager sc r tr res r' tr',
  tinv tr r -> (r_err r = SNil -> r_retries r = 0) -> is_err (r_err r) = false ->
  rr_run stream eager sc r sizes tr = (res, r', tr') ->
  tinv tr' r' /\ errs res = is_err (r_err r') /\ all_sane res = true.
Proof.
  induction sizes as [|m rest IH]; intros stream eager sc r tr res r' tr' TI Z NE E.
  - inversion E; subst. split; [exact TI|]. split; [cbn; symmetry; exact NE | reflexivity].
  - cbn [rr_run] in E.
    destruct (rr_read rr_fuel stream eager sc r m tr) as [[[[sc1 r1] chunk] st] tr1] eqn:R1.
    destruct (rr_run stream eager sc1 r1 rest tr1) as [[res1 r2] tr2] eqn:R2.
    inversion E; subst res r' tr'; clear E.
    destruct (rr_read_tinv _ _ _ _ _ _ _ _ _ _ _ TI Z R1) as (T1 & E1).
    assert (SANE : is_sane_status st = true).
    { destruct T1 as [_ T1]. rewrite E1 in T1. destruct st; try contradiction; reflexivity. }
    destruct (is_err st) eqn:IE.
    + (* the error is sticky: the rest of the run only repeats it *)
      assert (NN : r_err r1 <> SNil) by (rewrite E1; destruct st; discriminate).
      rewrite (rr_run_sticky rest stream eager sc1 r1 tr1 NN) in R2. inversion R2; subst res1 r2 tr2.
      split; [exact T1|]. unfold errs, all_sane. cbn [existsb forallb snd]. rewrite IE, SANE, E1, IE.
      split; [reflexivity|]. cbn [andb].
      clear -SANE. induction rest as [|x rest IH]; cbn; [reflexivity | rewrite SANE; exact IH].
    + assert (Z1 : r_err r1 = SNil -> r_retries r1 = 0).
      { intro H. destruct (r_err r) eqn:RE.
        - eapply rr_read_resets in R1; [apply R1 | exact RE | left; congruence].
        - unfold rr_fuel in R1. rewrite rr_read_sticky in R1 by (rewrite RE; discriminate).
          inversion R1; subst. congruence.
        - discriminate.
        - destruct TI as [_ TI]; rewrite RE in TI; contradiction.
        - destruct TI as [_ TI]; rewrite RE in TI; contradiction. }
      assert (NE1 : is_err (r_err r1) = false) by (rewrite E1; exact IE).
      destruct (IH _ _ _ _ _ _ _ _ T1 Z1 NE1 R2) as (T2 & ER & SA).
      split; [exact T2|]. unfold errs, all_sane in *. cbn [existsb forallb snd].
      rewrite IE, SANE, ER, SA. auto.
Qed.

Lemma tinv_init : tinv [] rr_init.
Proof. split; [reflexivity|]. cbn. split; [reflexivity | lia]. Qed.

(* ================================================================== *)
(* the judge accepts every session of the model                        *)
(* ================================================================== *)
Theorem retry_judge_on_model : forall stream eager script sizes res tr,
  rr_session stream eager script sizes = (res, tr) ->
  retry_ok stream res tr = true.
Proof.
  intros stream eager script sizes res tr E.
  destruct (retry_exact _ _ _ _ _ _ E) as [PRE EOF].
  unfold rr_session in E.
  destruct (rr_run stream eager script rr_init sizes []) as [[res0 r] tr0] eqn:R.
  inversion E; subst res0 tr; clear E.
  destruct (rr_run_tinv _ _ _ _ _ _ _ _ _ tinv_init (fun _ => eq_refl) eq_refl R) as ([BR TI] & ER & SA).
  unfold retry_ok. fold (all_sane res). rewrite SA. cbn [andb].
  assert (P1 : retry_prefix_ok stream res = true).
  { unfold retry_prefix_ok, is_prefix, bytes_eqb. apply list_eqb_Z_eq. exact PRE. }
  assert (P2 : retry_eof_ok stream res = true).
  { unfold retry_eof_ok. destruct (existsb (fun r0 => is_eof (snd r0)) res) eqn:X; [|reflexivity].
    cbn [negb orb]. unfold bytes_eqb. apply list_eqb_Z_eq. apply EOF.
    apply existsb_exists in X as ([c s] & IN & S). cbn in S. destruct s; try discriminate.
    apply in_map_iff. exists (c, SEOF). auto. }
  rewrite P1, P2. cbn [andb].
  set (cl := match r_reader r with Some _ => [EvClose] | None => [] end).
  assert (F : fail_run 0 (tr0 ++ cl) = fail_run 0 tr0).
  { rewrite fail_run_app. unfold cl. destruct (r_reader r); reflexivity. }
  assert (B : budget_respected 0 (tr0 ++ cl) = true).
  { rewrite budget_respected_app, BR. unfold cl. destruct (r_reader r); reflexivity. }
  rewrite B. cbn [andb]. unfold retry_error_ok. fold (errs res). rewrite ER, F.
  destruct (r_err r) eqn:RE; try contradiction; cbn [is_err].
  - destruct TI as [-> LE]. destruct (Nat.ltb_spec retry_budget (r_retries r)); [lia | reflexivity].
  - rewrite TI. reflexivity.
  - rewrite TI. destruct (Nat.ltb_spec retry_budget (S retry_budget)); [reflexivity | lia].
Qed.

(* C15 — executable model of the task stores (exec/store.go) and of the retrying
   remote reader (exec/bigmachine.go: retryReader).  No proofs in this file.

   File layer (github.com/grailbio/base/file, local implementation, seen through
   the harness' faulty:// wrapper): a file world is
       vis     : path -> option bytes    what readers can open (published files)
       ntemps  : nat                     temporary files alive (created, neither
                                         published by close nor removed)
       oracle  : list bool               one entry per *counted* file operation
                                         (create, write, close, open, stat, seek,
                                         read, remove), in program order; true =
                                         that operation fails.  Exhausted = no
                                         more failures.
   The content of a temporary file is reachable only through its writer, so it is
   kept in the writer value.  Create makes a temp; close renames it onto the path
   (publish); a failed close or Discard removes it.

   Two suspected defects of the code are kept, each behind a switch:
     commit_swallows_trailer_error  (store.go fileWriter.Commit: `return nil`
                                     when writing the 8-byte trailer fails)
     open_swallows_seek_error       (store.go fileStore.Open: a failing Seek is
                                     ignored and reading starts at offset 0)
   [code_cfg] is the code as it is (what the correspondence check runs);
   [fixed_cfg] the code with both repaired, [defective_cfg] with both present.
   When /repo is repaired, set the two switches to false: every theorem below is
   stated for an arbitrary cfg, for fixed_cfg or for defective_cfg, so only the
   tie lemmas of Properties/C15.v (C15_gen_*, C15_code_cfg_is_defective) change. *)
From Coq Require Import List ZArith Bool Lia.
Import ListNotations.

Notation bytes := (list Z) (only parsing).

(* ---- constants the Go source fixes (pinned against coq/Gen/C15_params.v in
        Properties/C15.v) ---- *)
Definition trailer_len : nat := 8.     (* var b [8]byte / info.Size()-8 / Seek(-8) *)
Definition retry_budget : nat := 5.    (* retry.MaxRetries(..., 5) *)

(* ---- error classes and read statuses ---- *)
Inductive ecls := ENotExist | EExists | EInvalid | EInjected | ETooMany | EOther.
Inductive status := SNil | SEOF | SErr (e : ecls) | SStuck | SPanic.

Inductive res (A : Type) : Type := Ok (a : A) | Er (e : ecls).
Arguments Ok {A} a.
Arguments Er {A} e.

Record cfg := mkCfg { swallow_trailer : bool; swallow_seek : bool }.
Definition commit_swallows_trailer_error : bool := false.
Definition open_swallows_seek_error : bool := false.
Definition code_cfg : cfg := mkCfg commit_swallows_trailer_error open_swallows_seek_error.
Definition fixed_cfg : cfg := mkCfg false false.
Definition defective_cfg : cfg := mkCfg true true.

(* ---- the 8-byte little-endian record count ---- *)
Fixpoint le_enc (n : nat) (c : Z) : list Z :=
  match n with
  | O => []
  | S n' => (c mod 256)%Z :: le_enc n' (c / 256)%Z
  end.
Fixpoint le_dec (l : list Z) : Z :=
  match l with
  | [] => 0%Z
  | b :: r => (b + 256 * le_dec r)%Z
  end.
(* binary.LittleEndian.PutUint64(b[:], uint64(count)) *)
Definition le64 (count : Z) : list Z := le_enc trailer_len count.
(* int64(binary.LittleEndian.Uint64(b[:])) *)
Definition to_int64 (u : Z) : Z := if (u <? 2 ^ 63)%Z then u else (u - 2 ^ 64)%Z.
Definition le64_count (b : list Z) : Z := to_int64 (le_dec b).

(* ================================================================== *)
(* file layer                                                          *)
(* ================================================================== *)
Record fsw := mkFsw { vis : nat -> option (list Z); ntemps : nat; oracle : list bool }.

Definition fsw_init (orc : list bool) : fsw := mkFsw (fun _ => None) 0 orc.

Definition upd {A} (f : nat -> A) (p : nat) (v : A) : nat -> A :=
  fun q => if Nat.eqb q p then v else f q.

(* count one file operation; tells whether it fails *)
Definition tick (w : fsw) : bool * fsw :=
  match oracle w with
  | [] => (false, w)
  | b :: r => (b, mkFsw (vis w) (ntemps w) r)
  end.

Definition set_vis (w : fsw) (v : nat -> option (list Z)) : fsw := mkFsw v (ntemps w) (oracle w).
Definition set_temps (w : fsw) (n : nat) : fsw := mkFsw (vis w) n (oracle w).

(* a writer: partition and the bytes written so far (temp file / memory buffer) *)
Record writer := mkW { wpart : nat; wdata : list Z }.

(* ================================================================== *)
(* fileStore                                                           *)
(* ================================================================== *)

(* fileStore.Create: file.Create(ctx, path) *)
Definition fs_create (w : fsw) (p : nat) : fsw * res writer :=
  let '(f, w1) := tick w in
  if f then (w1, Er EInjected) else (set_temps w1 (S (ntemps w1)), Ok (mkW p [])).

(* fileWriter.Write = f.Writer(ctx).Write *)
Definition fs_write (w : fsw) (wr : writer) (d : list Z) : fsw * res writer :=
  let '(f, w1) := tick w in
  if f then (w1, Er EInjected) else (w1, Ok (mkW (wpart wr) (wdata wr ++ d))).

(* fileWriter.Commit:
     if _, err := w.Write(b[:]); err != nil { return nil }     <- swallow_trailer
     return closeFile(ctx, w.File)                             <- rename = publish *)
Definition fs_commit (c : cfg) (w : fsw) (wr : writer) (count : Z) : fsw * res unit :=
  let '(f, w1) := tick w in
  if f then (w1, if swallow_trailer c then Ok tt else Er EInjected)
  else
    let content := wdata wr ++ le64 count in
    let '(f2, w2) := tick w1 in
    if f2 then (set_temps w2 (pred (ntemps w2)), Er EInjected)
    else (mkFsw (upd (vis w2) (wpart wr) (Some content)) (pred (ntemps w2)) (oracle w2), Ok tt).

(* fileWriter.Discard = file.File.Discard: close and remove the temp; cannot fail *)
Definition fs_wdiscard (w : fsw) : fsw := set_temps w (pred (ntemps w)).

(* an open read handle: the file's bytes, the position, and the LimitReader's N *)
Record rdh := mkR { rcontent : list Z; rpos : nat; rlimit : Z }.

(* one Read of m bytes on the underlying file *)
Definition file_read (w : fsw) (h : rdh) (m : nat) : fsw * rdh * list Z * status :=
  let '(f, w1) := tick w in
  if f then (w1, h, [], SErr EInjected)
  else match m with
       | O => (w1, h, [], SNil)
       | _ => match firstn m (skipn (rpos h) (rcontent h)) with
              | [] => (w1, h, [], SEOF)
              | chunk => (w1, mkR (rcontent h) (rpos h + length chunk) (rlimit h), chunk, SNil)
              end
       end.

(* io.LimitReader(r, N).Read(p), len p = b *)
Definition lim_read (w : fsw) (h : rdh) (b : nat) : fsw * rdh * list Z * status :=
  if (rlimit h <=? 0)%Z then (w, h, [], SEOF)
  else
    let m := Nat.min b (Z.to_nat (rlimit h)) in
    let '(w1, h1, chunk, st) := file_read w h m in
    (w1, mkR (rcontent h1) (rpos h1) (rlimit h1 - Z.of_nat (length chunk))%Z, chunk, st).

(* the client's loop: Read with a b-byte buffer until an error or EOF *)
Fixpoint read_all (fuel : nat) (w : fsw) (h : rdh) (b : nat) (acc : list Z) : fsw * list Z * status :=
  match fuel with
  | O => (w, acc, SStuck)
  | S fuel' =>
      let '(w1, h1, chunk, st) := lim_read w h b in
      match st with
      | SNil => read_all fuel' w1 h1 b (acc ++ chunk)
      | _ => (w1, acc ++ chunk, st)
      end
  end.

(* fileStore.Open(ctx, task, partition, offset) *)
Definition fs_open (c : cfg) (w : fsw) (p off : nat) : fsw * res rdh :=
  let '(f, w1) := tick w in                                  (* file.Open *)
  if f then (w1, Er EInjected) else
  match vis w1 p with
  | None => (w1, Er ENotExist)
  | Some content =>
      let '(f2, w2) := tick w1 in                            (* f.Stat *)
      if f2 then (w2, Er EInjected) else
      let lim := (Z.of_nat (length content) - Z.of_nat trailer_len - Z.of_nat off)%Z in
      let '(f3, w3) := tick w2 in                            (* r.Seek(offset, SeekStart) *)
      if f3 then
        (if swallow_seek c then (w3, Ok (mkR content 0 lim))  (* error ignored: still at 0 *)
         else (w3, Er EInjected))
      else (w3, Ok (mkR content off lim))
  end.

(* results of the client-level operations *)
Inductive sres :=
| ROk
| RErr (e : ecls)
| RRead (got : list Z) (st : status) (cl : status)   (* bytes read, how reading ended, Close() *)
| RStat (size count : Z)
| RSkip                                              (* writer op without a live writer *)
| RPanic
| RHang.

Definition fs_open_read (c : cfg) (w : fsw) (p off b : nat) : fsw * sres :=
  match fs_open c w p off with
  | (w1, Er e) => (w1, RErr e)
  | (w1, Ok h) =>
      let '(w2, got, st) := read_all (S (length (rcontent h))) w1 h b [] in
      let '(f, w3) := tick w2 in                              (* fileIOCloser.Close *)
      (w3, RRead got st (if f then SErr EInjected else SNil))
  end.

(* fileStore.Stat: Open, Seek(-8, SeekEnd), Read 8 bytes (the file is not closed) *)
Definition fs_stat (w : fsw) (p : nat) : fsw * sres :=
  let '(f, w1) := tick w in
  if f then (w1, RErr EInjected) else
  match vis w1 p with
  | None => (w1, RErr ENotExist)
  | Some content =>
      let '(f2, w2) := tick w1 in
      if f2 then (w2, RErr EInjected) else
      if (length content <? trailer_len)%nat then (w2, RErr EOther)   (* negative position *)
      else
        let n := length content - trailer_len in
        let '(f3, w3) := tick w2 in
        if f3 then (w3, RErr EInjected)
        else (w3, RStat (Z.of_nat n) (le64_count (firstn trailer_len (skipn n content))))
  end.

(* fileStore.Discard = file.Remove *)
Definition fs_discard (w : fsw) (p : nat) : fsw * sres :=
  let '(f, w1) := tick w in
  if f then (w1, RErr EInjected) else
  match vis w1 p with
  | None => (w1, RErr ENotExist)
  | Some _ => (set_vis w1 (upd (vis w1) p None), ROk)
  end.

(* ================================================================== *)
(* memoryStore (one task name; tasks[task] and counts[task])           *)
(* ================================================================== *)
Record ms := mkMs { mtasks : list (option (list Z)); mcounts : list Z }.
Definition ms_init : ms := mkMs [] [].

Definition ms_get (m : ms) (p : nat) : option (list Z) * Z :=
  if (length (mtasks m) <=? p)%nat then (None, 0%Z)
  else (nth p (mtasks m) None, nth p (mcounts m) 0%Z).

Fixpoint set_nth {A} (l : list A) (p : nat) (v : A) : list A :=
  match l, p with
  | [], _ => []
  | _ :: r, O => v :: r
  | x :: r, S p' => x :: set_nth r p' v
  end.

(* `for len(m.tasks[task]) <= partition { append nil / 0 }` *)
Definition extend {A} (l : list A) (n : nat) (d : A) : list A := l ++ repeat d (n - length l).

Definition ms_put (m : ms) (p : nat) (d : list Z) (count : Z) : ms * res unit :=
  let t := extend (mtasks m) (S p) None in
  let c := extend (mcounts m) (S p) 0%Z in
  match nth p t None with
  | Some _ => (mkMs t c, Er EExists)
  | None => (mkMs (set_nth t p (Some d)) (set_nth c p count), Ok tt)
  end.

Definition ms_create (m : ms) (p : nat) : res writer :=
  match fst (ms_get m p) with
  | Some _ => Er EExists
  | None => Ok (mkW p [])
  end.

(* bytes.Reader over p[offset:], read with a b-byte buffer until EOF *)
Fixpoint mem_read_all (fuel : nat) (rest : list Z) (b : nat) (acc : list Z) : list Z * status :=
  match fuel with
  | O => (acc, SStuck)
  | S fuel' =>
      match rest with
      | [] => (acc, SEOF)
      | _ => mem_read_all fuel' (skipn b rest) b (acc ++ firstn b rest)
      end
  end.

Definition ms_open_read (m : ms) (p off b : nat) : sres :=
  match fst (ms_get m p) with
  | None => RErr ENotExist
  | Some d =>
      if (length d <? off)%nat then RErr EInvalid
      else let '(got, st) := mem_read_all (S (length d)) (skipn off d) b [] in RRead got st SNil
  end.

Definition ms_stat (m : ms) (p : nat) : sres :=
  match ms_get m p with
  | (None, _) => RErr ENotExist
  | (Some d, n) => RStat (Z.of_nat (length d)) n
  end.

Definition ms_discard (m : ms) (p : nat) : ms * sres :=
  if (length (mtasks m) <=? p)%nat then (m, RErr ENotExist)
  else (mkMs (set_nth (mtasks m) p None) (mcounts m), ROk).

(* ================================================================== *)
(* a client of one store: at most one live writer                      *)
(* ================================================================== *)
Inductive store := SFile (w : fsw) | SMem (m : ms).
Record client := mkC { cstore : store; ccur : option writer }.

Inductive sop :=
| OCreate (p : nat)
| OWrite (d : list Z)
| OCommit (count : Z)
| OWDiscard
| OOpen (p off b : nat)       (* Open at off, read with b-byte buffers to the end, Close *)
| OStat (p : nat)
| ODiscard (p : nat).

Definition of_res {A} (r : res A) : sres := match r with Ok _ => ROk | Er e => RErr e end.

Definition step_file (c : cfg) (w : fsw) (cur : option writer) (o : sop) : fsw * option writer * sres :=
  match o with
  | OCreate p =>
      match fs_create w p with
      | (w1, Ok wr) => (w1, Some wr, ROk)
      | (w1, Er e) => (w1, cur, RErr e)
      end
  | OWrite d =>
      match cur with
      | None => (w, cur, RSkip)
      | Some wr =>
          match fs_write w wr d with
          | (w1, Ok wr') => (w1, Some wr', ROk)
          | (w1, Er e) => (w1, Some wr, RErr e)
          end
      end
  | OCommit n =>
      match cur with
      | None => (w, cur, RSkip)
      | Some wr => let '(w1, r) := fs_commit c w wr n in (w1, None, of_res r)
      end
  | OWDiscard =>
      match cur with
      | None => (w, cur, RSkip)
      | Some _ => (fs_wdiscard w, None, ROk)
      end
  | OOpen p off b => let '(w1, r) := fs_open_read c w p off b in (w1, cur, r)
  | OStat p => let '(w1, r) := fs_stat w p in (w1, cur, r)
  | ODiscard p => let '(w1, r) := fs_discard w p in (w1, cur, r)
  end.

Definition step_mem (m : ms) (cur : option writer) (o : sop) : ms * option writer * sres :=
  match o with
  | OCreate p =>
      match ms_create m p with
      | Ok wr => (m, Some wr, ROk)
      | Er e => (m, cur, RErr e)
      end
  | OWrite d =>
      match cur with
      | None => (m, cur, RSkip)
      | Some wr => (m, Some (mkW (wpart wr) (wdata wr ++ d)), ROk)   (* bytes.Buffer.Write *)
      end
  | OCommit n =>
      match cur with
      | None => (m, cur, RSkip)
      | Some wr => let '(m1, r) := ms_put m (wpart wr) (wdata wr) n in (m1, None, of_res r)
      end
  | OWDiscard =>
      match cur with
      | None => (m, cur, RSkip)
      | Some _ => (m, None, ROk)                                     (* memoryWriter.Discard: no-op *)
      end
  | OOpen p off b => (m, cur, ms_open_read m p off b)
  | OStat p => (m, cur, ms_stat m p)
  | ODiscard p => let '(m1, r) := ms_discard m p in (m1, cur, r)
  end.

Definition step (c : cfg) (cl : client) (o : sop) : client * sres :=
  match cstore cl with
  | SFile w => let '(w1, cur1, r) := step_file c w (ccur cl) o in (mkC (SFile w1) cur1, r)
  | SMem m => let '(m1, cur1, r) := step_mem m (ccur cl) o in (mkC (SMem m1) cur1, r)
  end.

Fixpoint run (c : cfg) (cl : client) (ops : list sop) : client * list sres :=
  match ops with
  | [] => (cl, [])
  | o :: rest =>
      let '(cl1, r) := step c cl o in
      let '(cl2, rs) := run c cl1 rest in
      (cl2, r :: rs)
  end.

(* what is stored for partition p: (data, record count) *)
Definition stored (s : store) (p : nat) : option (list Z * Z) :=
  match s with
  | SFile w =>
      match vis w p with
      | None => None
      | Some content =>
          let n := length content - trailer_len in
          Some (firstn n content, le64_count (skipn n content))
      end
  | SMem m => match ms_get m p with (Some d, n) => Some (d, n) | (None, _) => None end
  end.

Definition temps_of (s : store) : nat := match s with SFile w => ntemps w | SMem _ => 0 end.

(* ================================================================== *)
(* retryReader                                                         *)
(* ================================================================== *)

(* what the backing reader / opener does at one attempt *)
Inductive outcome :=
| OOpenFail            (* OpenAt fails (if a reader is already open: its Read fails) *)
| ODeliver (k : nat)   (* Read returns up to k bytes (0, EOF at the end of the stream) *)
| OFailAfter (k : nat). (* Read returns up to k bytes together with a non-EOF error *)

Inductive event := EvOpen (off : nat) (ok : bool) | EvRead (n : nat) (st : status) | EvClose.

(* retryReader{err, reader, bytes, retries}; the reader is its position in the stream *)
Record rr := mkRR { r_err : status; r_reader : option nat; r_bytes : nat; r_retries : nat }.
Definition rr_init : rr := mkRR SNil None 0 0.

Definition pop (sc : list outcome) (m : nat) : outcome * list outcome :=
  match sc with
  | [] => (ODeliver m, [])
  | o :: r => (o, r)
  end.

(* one Read(p), len p = m, of the backing reader at position pos: (n, err) *)
Definition under_read (len : nat) (eager : bool) (o : outcome) (pos m : nat) : nat * status :=
  let rem := len - pos in
  match o with
  | ODeliver k =>
      match rem with
      | O => (0, SEOF)
      | _ => let n := Nat.min (Nat.min k m) rem in
             (n, if eager && Nat.eqb n rem then SEOF else SNil)
      end
  | OFailAfter k => (Nat.min (Nat.min k m) rem, SErr EInjected)
  | OOpenFail => (0, SErr EInjected)
  end.

(* the closure inside Read: open at r.bytes if there is no reader, then read.
   Result: remaining script, reader afterwards, position read from, n, err, events *)
Definition attempt (stream : list Z) (eager : bool) (sc : list outcome) (r : rr) (m : nat)
  : list outcome * option nat * nat * nat * status * list event :=
  match r_reader r with
  | Some pos =>
      let '(o, sc') := pop sc m in
      let '(n, st) := under_read (length stream) eager o pos m in
      (sc', Some (pos + n), pos, n, st, [EvRead n st])
  | None =>
      match sc with
      | OOpenFail :: sc' => (sc', None, r_bytes r, 0, SErr EInjected, [EvOpen (r_bytes r) false])
      | _ =>
          let pos := Nat.min (r_bytes r) (length stream) in
          let '(o, sc') := pop sc m in
          let '(n, st) := under_read (length stream) eager o pos m in
          (sc', Some (pos + n), pos, n, st, [EvOpen (r_bytes r) true; EvRead n st])
      end
  end.

(* retryReader.Read(data), len data = m *)
Fixpoint rr_read (fuel : nat) (stream : list Z) (eager : bool) (sc : list outcome) (r : rr) (m : nat)
         (tr : list event) : list outcome * rr * list Z * status * list event :=
  match fuel with
  | O => (sc, r, [], SStuck, tr)
  | S fuel' =>
      match r_err r with
      | SNil =>
          let '(sc1, rd, pos, n, st, evs) := attempt stream eager sc r m in
          match st with
          | SNil | SEOF =>
              (* r.retries = 0; r.err = err; r.bytes += n; return n, err *)
              (sc1, mkRR st rd (r_bytes r + n) 0, firstn n (skipn pos stream), st, tr ++ evs)
          | _ =>
              (* close and drop the reader, r.retries++, retry.Wait(policy, r.retries) *)
              let tr1 := tr ++ evs ++ (match rd with Some _ => [EvClose] | None => [] end) in
              let retries := S (r_retries r) in
              if (retry_budget <? retries)%nat
              then (sc1, mkRR (SErr ETooMany) None (r_bytes r) retries, [], SErr ETooMany, tr1)
              else rr_read fuel' stream eager sc1 (mkRR SNil None (r_bytes r) retries) m tr1
          end
      | e => (sc, r, [], e, tr)
      end
  end.

Definition rr_fuel : nat := S (S retry_budget).

(* the caller: one Read per entry of sizes, whatever the previous one returned *)
Fixpoint rr_run (stream : list Z) (eager : bool) (sc : list outcome) (r : rr) (sizes : list nat)
         (tr : list event) : list (list Z * status) * rr * list event :=
  match sizes with
  | [] => ([], r, tr)
  | m :: rest =>
      let '(sc1, r1, chunk, st, tr1) := rr_read rr_fuel stream eager sc r m tr in
      let '(res, r2, tr2) := rr_run stream eager sc1 r1 rest tr1 in
      ((chunk, st) :: res, r2, tr2)
  end.

(* reads, then retryReader.Close *)
Definition rr_session (stream : list Z) (eager : bool) (sc : list outcome) (sizes : list nat)
  : list (list Z * status) * list event :=
  let '(res, r, tr) := rr_run stream eager sc rr_init sizes [] in
  (res, tr ++ match r_reader r with Some _ => [EvClose] | None => [] end).
